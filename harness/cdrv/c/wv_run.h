// wv_run.h - part of wvcdrv.c. Options, object set-up, and the standard
// decode loops behind the `run` and `hash` commands.

typedef struct {
  uint32_t init;
  pattern prefill;
  bool prezero;
  bool reinit;
  uint8_t* first;
  size_t first_len;
  bool have_first;
  sizelist src, dst;
  bool work_auto;
  uint64_t work;
  bool closed;
  struct {
    uint32_t k;
    uint64_t v;
  } quirks[16];
  int nquirks;
  int lzw_litwidth;
  uint8_t* zdict;
  size_t zdict_len;
  bool have_zdict;
  int via;     // 0 vtable, 1 direct
  int digest;  // 0 never, 1 always, 2 auto
  uint64_t maxcalls, maxout, maxpix, maxframes, maxwork, ample;
  uint32_t pixfmt;
  int blend;
  size_t srcslack;
  int tracemax;
  int hashmode;  // 0 mix, 1 update only, 2 update_xx only
  int calllog;   // (added for C03) max per-call records printed as calllog= (0 = none)
  bool nullempty;  // (added for C03) zero-length buffers are {NULL, 0}
} options;

static void options_default(options* o) {
  memset(o, 0, sizeof *o);
  o->work_auto = true;
  o->closed = true;
  o->lzw_litwidth = -1;
  o->digest = 2;
  o->maxcalls = 1u << 22;
  o->maxout = 64u << 20;
  o->maxpix = 1u << 22;
  o->maxframes = 64;
  o->maxwork = 32u << 20;
  o->ample = 512;
  o->pixfmt = 0x81008888u;  // BGRA_NONPREMUL
  o->tracemax = 32;
}
static void options_free(options* o) {
  free(o->first);
  free(o->zdict);
}

static bool parse_u64(const char* s, uint64_t* v) {
  if (!*s) return false;
  char* end;
  *v = strtoull(s, &end, 0);
  return *end == 0;
}

// parse_option handles one "k=v". Returns false for anything unknown or malformed.
static bool parse_option(options* o, const char* kv) {
  const char* eq = strchr(kv, '=');
  if (!eq) return false;
  size_t kl = (size_t)(eq - kv);
  const char* v = eq + 1;
  uint64_t u;
#define KEY(s) (kl == strlen(s) && !strncmp(kv, s, kl))
  if (KEY("init")) {
    char* end;
    if (!*v) return false;
    o->init = (uint32_t)strtoul(v, &end, 16);
    return *end == 0;
  }
  if (KEY("prefill")) return parse_pattern(v, &o->prefill);
  if (KEY("prezero")) return parse_u64(v, &u) && u <= 1 && ((o->prezero = u), true);
  if (KEY("reinit")) return parse_u64(v, &u) && u <= 1 && ((o->reinit = u), true);
  if (KEY("first")) {
    free(o->first);
    o->first = NULL;
    o->have_first = unhex(v, &o->first, &o->first_len);
    return o->have_first;
  }
  if (KEY("src")) return parse_sizelist(v, &o->src);
  if (KEY("dst")) return parse_sizelist(v, &o->dst);
  if (KEY("work")) {
    if (!strcmp(v, "auto")) {
      o->work_auto = true;
      return true;
    }
    o->work_auto = false;
    return parse_u64(v, &o->work);
  }
  if (KEY("closed")) return parse_u64(v, &u) && u <= 1 && ((o->closed = u), true);
  if (KEY("quirks")) {
    const char* p = v;
    if (!strcmp(v, "-")) return true;
    while (*p) {
      if (o->nquirks >= 16) return false;
      char* end;
      uint64_t k = strtoull(p, &end, 0);
      if (end == p || *end != ':') return false;
      p = end + 1;
      uint64_t val = strtoull(p, &end, 0);
      if (end == p) return false;
      o->quirks[o->nquirks].k = (uint32_t)k;
      o->quirks[o->nquirks].v = val;
      o->nquirks++;
      p = end;
      if (*p == ',') p++;
      else if (*p) return false;
    }
    return true;
  }
  if (KEY("lzw_litwidth")) return parse_u64(v, &u) && u <= 8 && ((o->lzw_litwidth = (int)u), true);
  if (KEY("zlib_dict")) {
    free(o->zdict);
    o->zdict = NULL;
    o->have_zdict = unhex(v, &o->zdict, &o->zdict_len);
    return o->have_zdict;
  }
  if (KEY("via")) {
    if (!strcmp(v, "vtable")) o->via = 0;
    else if (!strcmp(v, "direct")) o->via = 1;
    else return false;
    return true;
  }
  if (KEY("digest")) {
    if (!strcmp(v, "auto")) o->digest = 2;
    else if (!strcmp(v, "0")) o->digest = 0;
    else if (!strcmp(v, "1")) o->digest = 1;
    else return false;
    return true;
  }
  if (KEY("maxcalls")) return parse_u64(v, &o->maxcalls);
  if (KEY("maxout")) return parse_u64(v, &o->maxout);
  if (KEY("maxpix")) return parse_u64(v, &o->maxpix);
  if (KEY("maxframes")) return parse_u64(v, &o->maxframes);
  if (KEY("maxwork")) return parse_u64(v, &o->maxwork);
  if (KEY("ample")) return parse_u64(v, &o->ample);
  if (KEY("pixfmt")) {
    char* end;
    if (!*v) return false;
    o->pixfmt = (uint32_t)strtoul(v, &end, 16);
    return *end == 0;
  }
  if (KEY("blend")) {
    if (!strcmp(v, "src")) o->blend = 0;
    else if (!strcmp(v, "src_over")) o->blend = 1;
    else return false;
    return true;
  }
  if (KEY("srcslack")) return parse_u64(v, &u) && u <= (1u << 20) && ((o->srcslack = (size_t)u), true);
  if (KEY("trace")) return parse_u64(v, &u) && u <= 4096 && ((o->tracemax = (int)u), true);
  if (KEY("nullempty")) return parse_u64(v, &u) && u <= 1 && ((o->nullempty = u), true);
  if (KEY("calllog")) return parse_u64(v, &u) && u <= 4096 && ((o->calllog = (int)u), true);
  if (KEY("mode")) {
    if (!strcmp(v, "mix")) o->hashmode = 0;
    else if (!strcmp(v, "update")) o->hashmode = 1;
    else if (!strcmp(v, "value")) o->hashmode = 2;
    else return false;
    return true;
  }
#undef KEY
  return false;
}

// ---- result of one decode
typedef struct {
  const char* status;  // final wuffs status repr (NULL = ok) or a "driver:..." word
  uint64_t consumed;
  bytes out;
  uint64_t calls;
  bytes trace;
  int traced;
  namelist checks, flags;
  uint64_t allocs0;
  // images
  uint32_t w, h;
  uint64_t frames;
  uint64_t fdigest;
  bool is_image;
  // (added for C03) per-call records: the first calllog/2 calls and the last calllog - calllog/2 calls
  bytes clog_head;
  bytes clog_tail[64];
  int clog_nhead;
  uint64_t clog_ntail;
} result;

static void result_init(result* r) {
  memset(r, 0, sizeof *r);
  r->allocs0 = g_lib_allocs;
  r->fdigest = FNV64_INIT;
}
static void result_free(result* r) {
  bytes_free(&r->out);
  bytes_free(&r->trace);
  bytes_free(&r->clog_head);
  for (int i = 0; i < 64; i++) bytes_free(&r->clog_tail[i]);
}

// calllog_add (added for C03): one record per call,
//   <status as hex of repr, or NULL>/<class by the library's own wuffs_base__status__is_* predicates: o n s e ?>/
//   <src closed>/<src ri before>/<src wi>/<src ri after>/<dst wi before>/<dst len>/<dst wi after>/
//   <flag bits: 1 internal_error_status, 2 short_read_on_closed_full_input, 4 short_write_with_empty_ample_dst,
//               8 short_write_zero_progress, 16 index order broken>
// dst fields are 0 for image decoders. Records are separated by ';'.
static void calllog_add(result* r, const options* o, wuffs_base__status st, const wuffs_base__io_buffer* sb,
                        const wuffs_base__io_buffer* sa, uint64_t dwi0, uint64_t dlen, uint64_t dwi1, unsigned flagbits) {
  if (o->calllog <= 0) return;
  int nhead = o->calllog / 2, ntail = o->calllog - nhead;
  if (ntail > 64) ntail = 64;
  bytes* b;
  if (r->clog_nhead < nhead) {
    b = &r->clog_head;
    if (r->clog_nhead++) bytes_adds(b, ";");
  } else {
    b = &r->clog_tail[r->clog_ntail++ % (uint64_t)ntail];
    b->n = 0;
  }
  if (st.repr) add_hex(b, (const uint8_t*)st.repr, strlen(st.repr));
  else bytes_adds(b, "NULL");
  int k = (int)wuffs_base__status__is_ok(&st) + 2 * (int)wuffs_base__status__is_note(&st) +
          4 * (int)wuffs_base__status__is_suspension(&st) + 8 * (int)wuffs_base__status__is_error(&st);
  char cls = k == 1 ? 'o' : k == 2 ? 'n' : k == 4 ? 's' : k == 8 ? 'e' : '?';
  bytes_addf(b, "/%c/%d/%zu/%zu/%zu/%" PRIu64 "/%" PRIu64 "/%" PRIu64 "/%u", cls, sb->meta.closed ? 1 : 0, sb->meta.ri,
             sa->meta.wi, sa->meta.ri, dwi0, dlen, dwi1, flagbits);
}
static unsigned calllog_flagbits(const char* st, const wuffs_base__io_buffer* src_after, bool zero_progress, bool ample,
                                 bool sane) {
  unsigned f = 0;
  if (st && st[0] == '#' && strstr(st, "internal error")) f |= 1;
  if (st && !strcmp(st, "$base: short read") && src_after->meta.closed) f |= 2;
  if (st && !strcmp(st, "$base: short write") && zero_progress && ample) f |= 4;
  if (st && !strcmp(st, "$base: short write") && zero_progress) f |= 8;
  if (!sane) f |= 16;
  return f;
}
static void calllog_print(bytes* line, const options* o, result* r) {
  if (o->calllog <= 0) return;
  bytes_addf(line, " calllog=%" PRIu64 ":", r->calls);
  bool any = false;
  if (r->clog_head.n) {
    bytes_add(line, r->clog_head.p, r->clog_head.n);
    any = true;
  }
  int nhead = o->calllog / 2, ntail = o->calllog - nhead;
  if (ntail > 64) ntail = 64;
  uint64_t have = r->clog_ntail < (uint64_t)ntail ? r->clog_ntail : (uint64_t)ntail;
  for (uint64_t i = r->clog_ntail - have; i < r->clog_ntail; i++) {
    bytes* b = &r->clog_tail[i % (uint64_t)ntail];
    if (any) bytes_adds(line, ";");
    bytes_add(line, b->p, b->n);
    any = true;
  }
  if (!any) bytes_adds(line, "-");
}
static void trace_add(result* r, const options* o, const char* st, const wuffs_base__io_buffer* src, uint64_t dst_wi) {
  if (r->traced >= o->tracemax) return;
  r->traced++;
  bytes_adds(&r->trace, "[");
  add_status(&r->trace, st);
  bytes_addf(&r->trace, ",%zu,%zu,%" PRIu64 "]", src->meta.ri, src->meta.wi, dst_wi);
}

static bool is_internal_error(const char* st) { return st && st[0] == '#' && strstr(st, "internal error"); }
static bool is_short_read(const char* st) { return st && !strcmp(st, "$base: short read"); }
static bool is_short_write(const char* st) { return st && !strcmp(st, "$base: short write"); }
static bool is_short_workbuf(const char* st) { return st && !strcmp(st, "$base: short workbuf"); }

// after-call bookkeeping common to all loops
static void note_status(result* r, const char* st, const wuffs_base__io_buffer* src) {
  if (is_internal_error(st)) names_add(&r->flags, "internal_error_status", (long)r->calls);
  if (is_short_read(st) && src->meta.closed) names_add(&r->flags, "short_read_on_closed_full_input", (long)r->calls);
}

// ---- work buffer
typedef struct {
  uint8_t* p;
  size_t n;
} workbuf;

// work_resize (re)allocates to n bytes, keeping the common prefix.
static void work_resize(workbuf* w, size_t n, pattern* pat) {
  uint8_t* nb;
  if (pat && pat->mode) {
    nb = xalloc_maybe_null(n);
    pattern_fill(pat, nb, n);
  } else if (WV_MSAN) {
    nb = xalloc_maybe_null(n);
  } else if (n == 0 && g_null_empty) {
    nb = NULL;
  } else {
    nb = (uint8_t*)calloc(n ? n : 1, 1);
    if (!nb) die("out of memory");
  }
  if (w->p) {
    if (nb && (w->n < n ? w->n : n)) memcpy(nb, w->p, w->n < n ? w->n : n);
    free(w->p);
  }
  w->p = nb;
  w->n = n;
}

// ---- apply quirks and codec-specific set-up after a successful initialize
static void apply_setup(object* o, const options* opt, namelist* flags) {
  for (int i = 0; i < opt->nquirks; i++) {
    wuffs_base__status s = call_setq(o->c, opt->via, o->mem, opt->quirks[i].k, opt->quirks[i].v);
    if (s.repr) names_add(flags, "set_quirk_failed", i);
  }
#if defined(WV_HAVE_lzw) && defined(WUFFS_LZW__QUIRK_LITERAL_WIDTH_PLUS_ONE)
  if (opt->lzw_litwidth >= 0 && !strcmp(o->c->name, "lzw")) {
    wuffs_base__status s =
        call_setq(o->c, opt->via, o->mem, WUFFS_LZW__QUIRK_LITERAL_WIDTH_PLUS_ONE, (uint64_t)opt->lzw_litwidth + 1);
    if (s.repr) names_add(flags, "set_quirk_failed", 99);
  }
#endif
  // (changed for C07) zlib_dict= is no longer added here: std/zlib resets dict_id_have when it parses the
  // header, so a dictionary added before the first transform_io call is always "#zlib: incorrect dictionary".
  // The protocol of test/c/std/zlib.c is followed instead: see run_transformer ("@zlib: dictionary required").
}

// ---- io_transformer loop
static void run_transformer(object* o, options* opt, const uint8_t* in, size_t in_len, result* r) {
  source src;
  dest dst;
  workbuf wb = {0};
  source_init(&src, in, in_len, opt->closed, opt->srcslack, &opt->prefill);
  dest_init(&dst, &opt->prefill);
  bool need_src = true, need_dst = true;
  bool zdict_retried = false;
  uint64_t force_cap = 0;
  {
    uint64_t n = opt->work;
    if (opt->work_auto) n = call_wlen(o->c, opt->via, o->mem).max_incl;
    if (n > opt->maxwork) {
      r->status = "driver:workbuf_limit";
      goto done;
    }
    work_resize(&wb, (size_t)n, &opt->prefill);
  }
  for (;;) {
    if (r->calls >= opt->maxcalls) {
      r->status = "driver:too_many_calls";
      break;
    }
    if (need_src) {
      uint64_t n = sizelist_next(&opt->src, UINT64_MAX);
      if (n == 0 && opt->src.next == opt->src.n - 1) n = UINT64_MAX;  // a repeating 0 would never progress
      source_supply(&src, n > source_remaining(&src) ? source_remaining(&src) : (size_t)n);
      need_src = false;
    }
    if (need_dst) {
      uint64_t cap = sizelist_next(&opt->dst, 65536);
      if (cap < force_cap) {
        cap = force_cap;
        names_add(&r->flags, "dst_grown_to_ample", (long)r->calls);
      }
      force_cap = 0;
      if (cap > (1u << 28)) cap = 1u << 28;
      wuffs_base__optional_u63 h = call_hist(o->c, opt->via, o->mem);
      uint64_t retain = wuffs_base__optional_u63__has_value(&h) ? wuffs_base__optional_u63__value(&h) : UINT64_MAX;
      if (retain == UINT64_MAX) names_add(&r->flags, "history_retain_all", -1);
      dest_refill(&dst, retain, (size_t)cap);
      need_dst = false;
    }
    wuffs_base__io_buffer sb = src.buf, db = dst.buf;
    wuffs_base__status st =
        call_tio(o->c, opt->via, o->mem, &dst.buf, &src.buf, wuffs_base__make_slice_u8(wb.p, wb.n));
    r->calls++;
    check_reader(&r->checks, (long)r->calls, &sb, &src.buf, src.snap);
    bool snap_ok = !(WV_MSAN && !opt->prefill.mode);
    if (check_writer(&r->checks, (long)r->calls, &db, &dst.buf, dst.snap, snap_ok))
      names_add(&r->flags, "dst_tail_touched", (long)r->calls);
    bool sane = src.buf.meta.ri <= src.buf.meta.wi && src.buf.meta.wi <= src.buf.data.len &&
                src.buf.data.ptr == sb.data.ptr && dst.buf.meta.wi <= dst.buf.data.len &&
                dst.buf.meta.wi >= db.meta.wi && dst.buf.data.ptr == db.data.ptr;
    trace_add(r, opt, st.repr, &src.buf, dst.buf.meta.wi);
    note_status(r, st.repr, &src.buf);
    if (opt->calllog > 0) {
      bool zp = sane && dst.buf.meta.wi == db.meta.wi && src.buf.meta.ri == sb.meta.ri;
      bool amp = (db.data.len - db.meta.wi) >= opt->ample;
      calllog_add(r, opt, st, &sb, &src.buf, db.meta.wi, db.data.len, dst.buf.meta.wi,
                  calllog_flagbits(st.repr, &src.buf, zp, amp, sane));
    }
    if (!sane) {
      r->status = "driver:buffer_contract_broken";
      break;
    }
    size_t wrote = dst.buf.meta.wi - db.meta.wi;
    if (wrote) {
      // keep the snapshot in step with what is now history
      memcpy(dst.snap + db.meta.wi, dst.buf.data.ptr + db.meta.wi, wrote);
      if (r->out.n + wrote > opt->maxout) {
        bytes_add(&r->out, dst.buf.data.ptr + db.meta.wi, (size_t)(opt->maxout - r->out.n));
        r->status = "driver:output_limit";
        break;
      }
      bytes_add(&r->out, dst.buf.data.ptr + db.meta.wi, wrote);
    }
    if (is_short_write(st.repr)) {
      size_t room = db.data.len - db.meta.wi;
      if (wrote == 0 && src.buf.meta.ri == sb.meta.ri) {
        // no progress at all: the destination was too small for this decoder (e.g. lzma wants 274
        // bytes, cbor 2 tokens). Below `ample` that is the caller's fault: grow; at or above it is a
        // violation: flag and stop instead of spinning.
        if (room > 0) names_add(&r->flags, "short_write_zero_progress", (long)r->calls);
        if (room >= opt->ample) {
          names_add(&r->flags, "short_write_with_empty_ample_dst", (long)r->calls);
          r->status = "driver:no_progress";
          break;
        }
        force_cap = opt->ample;
      }
      need_dst = true;
      continue;
    }
    if (is_short_read(st.repr)) {
      if (source_remaining(&src) == 0) {
        r->status = st.repr;
        break;
      }
      need_src = true;
      continue;
    }
    if (is_short_workbuf(st.repr) && opt->work_auto) {
      uint64_t n = call_wlen(o->c, opt->via, o->mem).max_incl;
      if (n > opt->maxwork) {
        r->status = "driver:workbuf_limit";
        break;
      }
      if (n <= wb.n) {
        names_add(&r->flags, "short_workbuf_but_len_not_grown", (long)r->calls);
        r->status = st.repr;
        break;
      }
      work_resize(&wb, (size_t)n, &opt->prefill);
      continue;
    }
    // (added for C07) zlib with a preset dictionary (zlib_dict=): the decoder reports the note
    // "@zlib: dictionary required" after the header; as in test/c/std/zlib.c the dictionary is added then
    // (add_dictionary) and transform_io is called again.
    if (opt->have_zdict && !zdict_retried && st.repr && !strcmp(st.repr, "@zlib: dictionary required") &&
        !strcmp(o->c->name, "zlib")) {
      zdict_retried = true;
#if defined(WV_HAVE_zlib)
      uint8_t* d = xalloc(opt->zdict_len);
      memcpy(d, opt->zdict, opt->zdict_len);
      LIB(wuffs_zlib__decoder__add_dictionary((wuffs_zlib__decoder*)o->mem, wuffs_base__make_slice_u8(d, opt->zdict_len)));
      free(d);
#endif
      continue;
    }
    r->status = st.repr;
    break;
  }
done:
  r->consumed = source_consumed(&src);
  source_free(&src);
  dest_free(&dst);
  free(wb.p);
}

// ---- token_decoder loop (tokens are emitted as 8 little-endian bytes each)
static void run_tokens(object* o, options* opt, const uint8_t* in, size_t in_len, result* r) {
  source src;
  workbuf wb = {0};
  source_init(&src, in, in_len, opt->closed, opt->srcslack, &opt->prefill);
  bool need_src = true;
  uint64_t force_cap = 0;
  {
    uint64_t n = opt->work;
    if (opt->work_auto) n = call_wlen(o->c, opt->via, o->mem).max_incl;
    if (n > opt->maxwork) {
      r->status = "driver:workbuf_limit";
      goto done;
    }
    work_resize(&wb, (size_t)n, &opt->prefill);
  }
  for (;;) {
    if (r->calls >= opt->maxcalls) {
      r->status = "driver:too_many_calls";
      break;
    }
    if (need_src) {
      uint64_t n = sizelist_next(&opt->src, UINT64_MAX);
      if (n == 0 && opt->src.next == opt->src.n - 1) n = UINT64_MAX;
      source_supply(&src, n > source_remaining(&src) ? source_remaining(&src) : (size_t)n);
      need_src = false;
    }
    uint64_t cap = sizelist_next(&opt->dst, 4096);
    if (cap < force_cap) {
      cap = force_cap;
      names_add(&r->flags, "dst_grown_to_ample", (long)r->calls);
    }
    force_cap = 0;
    if (cap > (1u << 22)) cap = 1u << 22;
    wuffs_base__token* tk = (wuffs_base__token*)xalloc_maybe_null((size_t)cap * sizeof(wuffs_base__token));
    if (opt->prefill.mode) pattern_fill(&opt->prefill, (uint8_t*)tk, (size_t)cap * sizeof(wuffs_base__token));
    wuffs_base__token_buffer tb;
    memset(&tb, 0, sizeof tb);
    tb.data.ptr = tk;
    tb.data.len = (size_t)cap;
    wuffs_base__io_buffer sb = src.buf;
    wuffs_base__status st = call_dt(o->c, opt->via, o->mem, &tb, &src.buf, wuffs_base__make_slice_u8(wb.p, wb.n));
    r->calls++;
    check_reader(&r->checks, (long)r->calls, &sb, &src.buf, src.snap);
    if (!(tb.meta.ri <= tb.meta.wi && tb.meta.wi <= tb.data.len) || tb.data.ptr != tk || tb.data.len != cap)
      names_add(&r->checks, "dst_index_order", (long)r->calls);
    bool sane = src.buf.meta.ri <= src.buf.meta.wi && src.buf.meta.wi <= src.buf.data.len &&
                src.buf.data.ptr == sb.data.ptr && tb.meta.wi <= cap && tb.data.ptr == tk;
    trace_add(r, opt, st.repr, &src.buf, sane ? tb.meta.wi : 0);
    note_status(r, st.repr, &src.buf);
    if (opt->calllog > 0) {
      bool zp = sane && tb.meta.wi == 0 && src.buf.meta.ri == sb.meta.ri;
      calllog_add(r, opt, st, &sb, &src.buf, 0, cap, tb.meta.wi, calllog_flagbits(st.repr, &src.buf, zp, cap >= opt->ample, sane));
    }
    if (!sane) {
      free(tk);
      r->status = "driver:buffer_contract_broken";
      break;
    }
    size_t wrote = tb.meta.wi;
    for (size_t i = 0; i < wrote; i++) {
      uint8_t le[8];
      for (int k = 0; k < 8; k++) le[k] = (uint8_t)(tk[i].repr >> (8 * k));
      bytes_add(&r->out, le, 8);
    }
    free(tk);
    if (r->out.n > opt->maxout) {
      r->status = "driver:output_limit";
      break;
    }
    if (is_short_write(st.repr)) {
      if (wrote == 0 && src.buf.meta.ri == sb.meta.ri) {
        if (cap > 0) names_add(&r->flags, "short_write_zero_progress", (long)r->calls);
        if (cap >= opt->ample) {
          names_add(&r->flags, "short_write_with_empty_ample_dst", (long)r->calls);
          r->status = "driver:no_progress";
          break;
        }
        force_cap = opt->ample;
      }
      continue;
    }
    if (is_short_read(st.repr)) {
      if (source_remaining(&src) == 0) {
        r->status = st.repr;
        break;
      }
      need_src = true;
      continue;
    }
    r->status = st.repr;
    break;
  }
done:
  r->consumed = source_consumed(&src);
  source_free(&src);
  free(wb.p);
}

// ---- image_decoder loop: decode_image_config, then (decode_frame_config, decode_frame)* until
// "@base: end of data", an error, or maxframes.
static void run_image(object* o, options* opt, const uint8_t* in, size_t in_len, result* r) {
  source src;
  workbuf wb = {0};
  uint8_t* pix = NULL;
  size_t pixlen = 0;
  wuffs_base__image_config ic;
  wuffs_base__frame_config fc;
  wuffs_base__pixel_buffer pb;
  memset(&ic, 0, sizeof ic);
  memset(&fc, 0, sizeof fc);
  memset(&pb, 0, sizeof pb);
  r->is_image = true;
  source_init(&src, in, in_len, opt->closed, opt->srcslack, &opt->prefill);
  bool need_src = true;
  int stage = 0;  // 0 image config, 1 frame config, 2 frame
  for (;;) {
    if (r->calls >= opt->maxcalls) {
      r->status = "driver:too_many_calls";
      break;
    }
    if (need_src) {
      uint64_t n = sizelist_next(&opt->src, UINT64_MAX);
      if (n == 0 && opt->src.next == opt->src.n - 1) n = UINT64_MAX;
      source_supply(&src, n > source_remaining(&src) ? source_remaining(&src) : (size_t)n);
      need_src = false;
    }
    wuffs_base__io_buffer sb = src.buf;
    wuffs_base__status st;
    if (stage == 0) st = call_dic(o->c, opt->via, o->mem, &ic, &src.buf);
    else if (stage == 1) st = call_dfc(o->c, opt->via, o->mem, &fc, &src.buf);
    else
      st = call_df(o->c, opt->via, o->mem, &pb, &src.buf,
                   opt->blend ? WUFFS_BASE__PIXEL_BLEND__SRC_OVER : WUFFS_BASE__PIXEL_BLEND__SRC,
                   wuffs_base__make_slice_u8(wb.p, wb.n));
    r->calls++;
    check_reader(&r->checks, (long)r->calls, &sb, &src.buf, src.snap);
    bool sane = src.buf.meta.ri <= src.buf.meta.wi && src.buf.meta.wi <= src.buf.data.len && src.buf.data.ptr == sb.data.ptr;
    {
      char tag[64];
      snprintf(tag, sizeof tag, "%s", stage == 0 ? "dic:" : stage == 1 ? "dfc:" : "df:");
      if (r->traced < opt->tracemax) {
        r->traced++;
        bytes_addf(&r->trace, "[%s", tag);
        add_status(&r->trace, st.repr);
        bytes_addf(&r->trace, ",%zu,%zu,%" PRIu64 "]", src.buf.meta.ri, src.buf.meta.wi, r->frames);
      }
    }
    note_status(r, st.repr, &src.buf);
    if (opt->calllog > 0)
      calllog_add(r, opt, st, &sb, &src.buf, 0, 0, 0, calllog_flagbits(st.repr, &src.buf, false, false, sane));
    if (!sane) {
      r->status = "driver:buffer_contract_broken";
      break;
    }
    if (is_short_read(st.repr)) {
      if (source_remaining(&src) == 0) {
        r->status = st.repr;
        break;
      }
      need_src = true;
      continue;
    }
    if (stage == 2 && st.repr == NULL) {
      r->frames++;
      r->fdigest = fnv64(r->fdigest, pix, pixlen);
    } else if (stage == 2 && st.repr && pix) {
      // a partially decoded frame still counts towards the digest
      r->fdigest = fnv64(r->fdigest, pix, pixlen);
    }
    if (st.repr) {
      r->status = st.repr;
      break;
    }
    if (stage == 0) {
      if (!wuffs_base__image_config__is_valid(&ic)) {
        r->status = "driver:invalid_image_config";
        break;
      }
      r->w = wuffs_base__pixel_config__width(&ic.pixcfg);
      r->h = wuffs_base__pixel_config__height(&ic.pixcfg);
      if ((uint64_t)r->w * (uint64_t)r->h > opt->maxpix) {
        r->status = "driver:image_too_large";
        break;
      }
      if (opt->pixfmt) wuffs_base__pixel_config__set(&ic.pixcfg, opt->pixfmt, 0, r->w, r->h);
      uint64_t pl = wuffs_base__pixel_config__pixbuf_len(&ic.pixcfg);
      if (pl > (1u << 30)) {
        r->status = "driver:image_too_large";
        break;
      }
      pixlen = (size_t)pl;
      pix = xalloc(pixlen);
      memset(pix, 0, pixlen);
      pattern_fill(&opt->prefill, pix, pixlen);
      wuffs_base__status ps = wuffs_base__pixel_buffer__set_from_slice(&pb, &ic.pixcfg, wuffs_base__make_slice_u8(pix, pixlen));
      if (ps.repr) {
        r->status = "driver:pixel_buffer_rejected";
        break;
      }
      uint64_t n = opt->work;
      if (opt->work_auto) n = call_wlen(o->c, opt->via, o->mem).max_incl;
      if (n > opt->maxwork * 8) {
        r->status = "driver:workbuf_limit";
        break;
      }
      work_resize(&wb, (size_t)n, &opt->prefill);
      stage = 1;
    } else if (stage == 1) {
      if (r->frames >= opt->maxframes) {
        r->status = "driver:frame_limit";
        break;
      }
      stage = 2;
    } else {
      stage = 1;
    }
  }
  r->consumed = source_consumed(&src);
  if (pix) bytes_add(&r->out, pix, pixlen);
  source_free(&src);
  free(wb.p);
  free(pix);
}

static void run_decode(object* o, options* opt, const uint8_t* in, size_t in_len, result* r) {
  switch (o->c->kind) {
    case 'T': run_transformer(o, opt, in, in_len, r); break;
    case 'I': run_image(o, opt, in, in_len, r); break;
    case 'K': run_tokens(o, opt, in, in_len, r); break;
    default: r->status = "driver:not_a_decoder"; break;
  }
}

// prepare_object: allocate, prefill, initialize (optionally after a first, different decode).
// Returns the status of the (last) initialize.
static wuffs_base__status prepare_object(object* o, const codec* c, options* opt, const uint8_t* in, size_t in_len,
                                         namelist* flags) {
  object_alloc(o, c);
  if (opt->prefill.mode) pattern_fill(&opt->prefill, o->mem, o->size);
  else if (!WV_MSAN) memset(o->mem, 0xCC, o->size);
  if (opt->prezero) memset(o->mem, 0, o->size);
  wuffs_base__status s = object_init(o, opt->init);
  if (s.repr) return s;
  if (opt->reinit) {
    apply_setup(o, opt, flags);
    const uint8_t* f = opt->have_first ? opt->first : in;
    size_t fl = opt->have_first ? opt->first_len : in_len / 2;
    options o2 = *opt;
    memset(&o2.src, 0, sizeof o2.src);
    memset(&o2.dst, 0, sizeof o2.dst);
    o2.closed = false;
    o2.maxframes = 2;
    result r1;
    result_init(&r1);
    if (c->kind == 'T' || c->kind == 'I' || c->kind == 'K') {
      run_decode(o, &o2, f, fl, &r1);
    } else {
      uint8_t* t = xalloc(fl);
      memcpy(t, f, fl);
      LIB(c->up(o->mem, wuffs_base__make_slice_u8(t, fl)));
      free(t);
    }
    if (r1.checks.n) names_add(flags, "first_decode_check_failed", -1);
    result_free(&r1);
    if (opt->prezero) memset(o->mem, 0, o->size);
    s = object_init(o, opt->init);
    if (s.repr) return s;
  }
  apply_setup(o, opt, flags);
  return s;
}

static void print_result(bytes* line, const options* opt, result* r) {
  bytes_adds(line, "ok status=");
  if (r->status && !strncmp(r->status, "driver:", 7)) bytes_adds(line, r->status);
  else add_status(line, r->status);
  bytes_addf(line, " ri=%" PRIu64 " out=", r->consumed);
  add_payload(line, r->out.p, r->out.n, opt->digest);
  bytes_addf(line, " calls=%" PRIu64 " trace=%" PRIu64 ":", r->calls, r->calls);
  if (r->trace.n) bytes_add(line, r->trace.p, r->trace.n);
  else bytes_adds(line, "-");
  bytes_adds(line, " checks=");
  names_print(line, &r->checks, "ok");
  bytes_adds(line, " flags=");
  names_print(line, &r->flags, "-");
  if (WV_ALLOC_COUNTED) bytes_addf(line, " allocs=%" PRIu64, g_lib_allocs - r->allocs0);
  else bytes_adds(line, " allocs=na");
  if (r->is_image)
    bytes_addf(line, " w=%" PRIu32 " h=%" PRIu32 " frames=%" PRIu64 " fdigest=%016" PRIx64, r->w, r->h, r->frames, r->fdigest);
  calllog_print(line, opt, (result*)r);
}

// cmd_run: fields = [codec, opts..., hex]
static void cmd_run(bytes* line, char** f, int nf) {
  if (nf < 2) {
    bytes_adds(line, "bad-op");
    return;
  }
  const codec* c = find_codec(f[0]);
  if (!c) {
    bytes_adds(line, "bad-op unknown-codec");
    return;
  }
  options opt;
  options_default(&opt);
  for (int i = 1; i < nf - 1; i++) {
    if (!parse_option(&opt, f[i])) {
      bytes_adds(line, "bad-op ");
      bytes_adds(line, f[i]);
      options_free(&opt);
      return;
    }
  }
  uint8_t* in;
  size_t in_len;
  if (!unhex(f[nf - 1], &in, &in_len)) {
    bytes_adds(line, "bad-op bad-hex");
    options_free(&opt);
    return;
  }
  result r;
  result_init(&r);
  object o;
  g_null_empty = opt.nullempty;
  wuffs_base__status s = prepare_object(&o, c, &opt, in, in_len, &r.flags);
  if (s.repr) {
    bytes_adds(line, "ok status=");
    add_status(line, s.repr);
    bytes_adds(line, " stage=init");
  } else if (c->kind == 'T' || c->kind == 'I' || c->kind == 'K') {
    run_decode(&o, &opt, in, in_len, &r);
    print_result(line, &opt, &r);
  } else {
    bytes_adds(line, "bad-op use-hash-for-hashers");
  }
  g_null_empty = false;
  object_free(&o);
  result_free(&r);
  free(in);
  options_free(&opt);
}

// cmd_hash: fields = [codec, opts..., splits, hex]
static void cmd_hash(bytes* line, char** f, int nf) {
  if (nf < 3) {
    bytes_adds(line, "bad-op");
    return;
  }
  const codec* c = find_codec(f[0]);
  if (!c || !(c->kind == 'h' || c->kind == 'H' || c->kind == 'B')) {
    bytes_adds(line, "bad-op unknown-hasher");
    return;
  }
  options opt;
  options_default(&opt);
  for (int i = 1; i < nf - 2; i++) {
    if (!parse_option(&opt, f[i])) {
      bytes_adds(line, "bad-op ");
      bytes_adds(line, f[i]);
      options_free(&opt);
      return;
    }
  }
  sizelist splits;
  uint8_t* in;
  size_t in_len;
  if (!parse_sizelist(f[nf - 2], &splits) || !unhex(f[nf - 1], &in, &in_len)) {
    bytes_adds(line, "bad-op bad-args");
    options_free(&opt);
    return;
  }
  namelist flags;
  memset(&flags, 0, sizeof flags);
  uint64_t allocs0 = g_lib_allocs;
  object o;
  g_null_empty = opt.nullempty;
  wuffs_base__status s = prepare_object(&o, c, &opt, in, in_len, &flags);
  if (s.repr) {
    bytes_adds(line, "ok status=");
    add_status(line, s.repr);
    bytes_adds(line, " stage=init");
  } else {
    size_t pos = 0;
    uint64_t calls = 0;
    uint8_t last[32], fin[32];
    size_t dl = c->kind == 'h' ? 4 : c->kind == 'H' ? 8 : 32;
    bool have_last = false;
    memset(last, 0, sizeof last);
    for (;;) {
      uint64_t n = sizelist_next(&splits, UINT64_MAX);
      if (n > in_len - pos) n = in_len - pos;
      if (n == 0 && splits.n && splits.next == splits.n - 1 && pos < in_len) n = in_len - pos;
      uint8_t* chunk = xalloc_maybe_null((size_t)n);  // exact-size copy: over-reads are heap overflows
      if (n) memcpy(chunk, in + pos, (size_t)n);
      wuffs_base__slice_u8 sl = wuffs_base__make_slice_u8(chunk, (size_t)n);
      bool use_value = opt.hashmode == 2 || (opt.hashmode == 0 && (calls & 1));
      if (!use_value) {
        LIB(c->up(o.mem, sl));
        have_last = false;
      } else if (c->kind == 'h') {
        uint32_t v;
        LIB(v = c->up32(o.mem, sl));
        for (int k = 0; k < 4; k++) last[k] = (uint8_t)(v >> (8 * (3 - k)));
        have_last = true;
      } else if (c->kind == 'H') {
        uint64_t v;
        LIB(v = c->up64(o.mem, sl));
        for (int k = 0; k < 8; k++) last[k] = (uint8_t)(v >> (8 * (7 - k)));
        have_last = true;
      } else {
        wuffs_base__bitvec256 v;
        LIB(v = c->up256(o.mem, sl));
        for (int k = 0; k < 32; k++) last[k] = (uint8_t)(v.elements_u64[3 - k / 8] >> (8 * (7 - k % 8)));
        have_last = true;
      }
      if (n && memcmp(chunk, in + pos, (size_t)n) != 0) names_add(&flags, "src_bytes_changed", (long)calls);
      free(chunk);
      calls++;
      pos += (size_t)n;
      if (pos >= in_len) break;
    }
    if (c->kind == 'h') {
      uint32_t v;
      LIB(v = c->sum32(o.mem));
      for (int k = 0; k < 4; k++) fin[k] = (uint8_t)(v >> (8 * (3 - k)));
    } else if (c->kind == 'H') {
      uint64_t v;
      LIB(v = c->sum64(o.mem));
      for (int k = 0; k < 8; k++) fin[k] = (uint8_t)(v >> (8 * (7 - k)));
    } else {
      wuffs_base__bitvec256 v;
      LIB(v = c->sum256(o.mem));
      for (int k = 0; k < 32; k++) fin[k] = (uint8_t)(v.elements_u64[3 - k / 8] >> (8 * (7 - k % 8)));
    }
    if (have_last && memcmp(last, fin, dl) != 0) names_add(&flags, "update_value_ne_checksum", -1);
    bytes_adds(line, "ok sum=");
    add_hex(line, fin, dl);
    bytes_addf(line, " calls=%" PRIu64 " flags=", calls);
    names_print(line, &flags, "-");
    if (WV_ALLOC_COUNTED) bytes_addf(line, " allocs=%" PRIu64, g_lib_allocs - allocs0);
    else bytes_adds(line, " allocs=na");
  }
  g_null_empty = false;
  object_free(&o);
  free(in);
  options_free(&opt);
}
