// wv_codecs.h - part of wvcdrv.c. The codec table: for every std object the
// sizeof / initialize / upcast functions and typed wrappers around its OWN
// (non-vtable) entry points, so that a caller can choose via=vtable|direct.
//
// A codec is compiled in only when WV_HAVE_<name> is defined (the Go side
// defines it when the regenerated snapshot declares sizeof__wuffs_<pkg>__<type>).

typedef wuffs_base__status (*fn_init)(void*, size_t, uint64_t, uint32_t);

typedef struct {
  const char* name;
  char kind;  // 'T' io_transformer, 'h' hasher_u32, 'H' hasher_u64, 'B' hasher_bitvec256, 'I' image_decoder, 'K' token_decoder
  size_t (*size_of)(void);
  fn_init init;
  // common
  wuffs_base__status (*setq)(void*, uint32_t, uint64_t);
  uint64_t (*getq)(const void*, uint32_t);
  // T, I, K
  wuffs_base__range_ii_u64 (*wlen)(const void*);
  // T
  wuffs_base__status (*tio)(void*, wuffs_base__io_buffer*, wuffs_base__io_buffer*, wuffs_base__slice_u8);
  wuffs_base__optional_u63 (*hist)(const void*);
  // hashers
  wuffs_base__empty_struct (*up)(void*, wuffs_base__slice_u8);
  uint32_t (*up32)(void*, wuffs_base__slice_u8);
  uint32_t (*sum32)(const void*);
  uint64_t (*up64)(void*, wuffs_base__slice_u8);
  uint64_t (*sum64)(const void*);
  wuffs_base__bitvec256 (*up256)(void*, wuffs_base__slice_u8);
  wuffs_base__bitvec256 (*sum256)(const void*);
  // I
  wuffs_base__status (*dic)(void*, wuffs_base__image_config*, wuffs_base__io_buffer*);
  wuffs_base__status (*dfc)(void*, wuffs_base__frame_config*, wuffs_base__io_buffer*);
  wuffs_base__status (*df)(void*, wuffs_base__pixel_buffer*, wuffs_base__io_buffer*, wuffs_base__pixel_blend,
                           wuffs_base__slice_u8, wuffs_base__decode_frame_options*);
  wuffs_base__status (*rf)(void*, uint64_t, uint64_t);
  wuffs_base__status (*tmm)(void*, wuffs_base__io_buffer*, wuffs_base__more_information*, wuffs_base__io_buffer*);
  wuffs_base__rect_ie_u32 (*fdr)(const void*);
  uint32_t (*nal)(const void*);
  uint64_t (*ndfc)(const void*);
  uint64_t (*ndf)(const void*);
  wuffs_base__empty_struct (*srm)(void*, uint32_t, bool);
  // K
  wuffs_base__status (*dt)(void*, wuffs_base__token_buffer*, wuffs_base__io_buffer*, wuffs_base__slice_u8);
} codec;

#define WV_COMMON(N, P, T)                                                                           \
  static size_t N##_size_of(void) { return sizeof__wuffs_##P##__##T(); }                             \
  static wuffs_base__status N##_init(void* s, size_t z, uint64_t v, uint32_t o) {                    \
    return wuffs_##P##__##T##__initialize((wuffs_##P##__##T*)s, z, v, o);                            \
  }                                                                                                  \
  static wuffs_base__status N##_setq(void* s, uint32_t k, uint64_t v) {                              \
    return wuffs_##P##__##T##__set_quirk((wuffs_##P##__##T*)s, k, v);                                \
  }                                                                                                  \
  static uint64_t N##_getq(const void* s, uint32_t k) {                                              \
    return wuffs_##P##__##T##__get_quirk((const wuffs_##P##__##T*)s, k);                             \
  }

#define WV_WLEN(N, P, T)                                             \
  static wuffs_base__range_ii_u64 N##_wlen(const void* s) {          \
    return wuffs_##P##__##T##__workbuf_len((const wuffs_##P##__##T*)s); \
  }

#define WV_T(N, P, T)                                                                                      \
  WV_COMMON(N, P, T)                                                                                       \
  WV_WLEN(N, P, T)                                                                                         \
  static wuffs_base__status N##_tio(void* s, wuffs_base__io_buffer* d, wuffs_base__io_buffer* r,           \
                                    wuffs_base__slice_u8 w) {                                              \
    return wuffs_##P##__##T##__transform_io((wuffs_##P##__##T*)s, d, r, w);                                \
  }                                                                                                        \
  static wuffs_base__optional_u63 N##_hist(const void* s) {                                                \
    return wuffs_##P##__##T##__dst_history_retain_length((const wuffs_##P##__##T*)s);                      \
  }                                                                                                        \
  static const codec codec_##N = {.name = #N, .kind = 'T', .size_of = N##_size_of, .init = N##_init,       \
                                  .setq = N##_setq, .getq = N##_getq, .wlen = N##_wlen, .tio = N##_tio,    \
                                  .hist = N##_hist};

#define WV_HASH(N, P, T, KIND, SUF, RET)                                                                  \
  WV_COMMON(N, P, T)                                                                                      \
  static wuffs_base__empty_struct N##_up(void* s, wuffs_base__slice_u8 x) {                               \
    return wuffs_##P##__##T##__update((wuffs_##P##__##T*)s, x);                                           \
  }                                                                                                       \
  static RET N##_upv(void* s, wuffs_base__slice_u8 x) {                                                   \
    return wuffs_##P##__##T##__update_##SUF((wuffs_##P##__##T*)s, x);                                     \
  }                                                                                                       \
  static RET N##_sum(const void* s) { return wuffs_##P##__##T##__checksum_##SUF((const wuffs_##P##__##T*)s); }

#define WV_H32(N, P, T)                                                                                   \
  WV_HASH(N, P, T, 'h', u32, uint32_t)                                                                    \
  static const codec codec_##N = {.name = #N, .kind = 'h', .size_of = N##_size_of, .init = N##_init,      \
                                  .setq = N##_setq, .getq = N##_getq, .up = N##_up, .up32 = N##_upv,      \
                                  .sum32 = N##_sum};
#define WV_H64(N, P, T)                                                                                   \
  WV_HASH(N, P, T, 'H', u64, uint64_t)                                                                    \
  static const codec codec_##N = {.name = #N, .kind = 'H', .size_of = N##_size_of, .init = N##_init,      \
                                  .setq = N##_setq, .getq = N##_getq, .up = N##_up, .up64 = N##_upv,      \
                                  .sum64 = N##_sum};
#define WV_H256(N, P, T)                                                                                  \
  WV_HASH(N, P, T, 'B', bitvec256, wuffs_base__bitvec256)                                                 \
  static const codec codec_##N = {.name = #N, .kind = 'B', .size_of = N##_size_of, .init = N##_init,      \
                                  .setq = N##_setq, .getq = N##_getq, .up = N##_up, .up256 = N##_upv,     \
                                  .sum256 = N##_sum};

#define WV_I(N, P, T)                                                                                        \
  WV_COMMON(N, P, T)                                                                                         \
  WV_WLEN(N, P, T)                                                                                           \
  static wuffs_base__status N##_dic(void* s, wuffs_base__image_config* d, wuffs_base__io_buffer* r) {        \
    return wuffs_##P##__##T##__decode_image_config((wuffs_##P##__##T*)s, d, r);                              \
  }                                                                                                          \
  static wuffs_base__status N##_dfc(void* s, wuffs_base__frame_config* d, wuffs_base__io_buffer* r) {        \
    return wuffs_##P##__##T##__decode_frame_config((wuffs_##P##__##T*)s, d, r);                              \
  }                                                                                                          \
  static wuffs_base__status N##_df(void* s, wuffs_base__pixel_buffer* d, wuffs_base__io_buffer* r,           \
                                   wuffs_base__pixel_blend b, wuffs_base__slice_u8 w,                        \
                                   wuffs_base__decode_frame_options* o) {                                    \
    return wuffs_##P##__##T##__decode_frame((wuffs_##P##__##T*)s, d, r, b, w, o);                            \
  }                                                                                                          \
  static wuffs_base__status N##_rf(void* s, uint64_t i, uint64_t p) {                                        \
    return wuffs_##P##__##T##__restart_frame((wuffs_##P##__##T*)s, i, p);                                    \
  }                                                                                                          \
  static wuffs_base__status N##_tmm(void* s, wuffs_base__io_buffer* d, wuffs_base__more_information* m,      \
                                    wuffs_base__io_buffer* r) {                                              \
    return wuffs_##P##__##T##__tell_me_more((wuffs_##P##__##T*)s, d, m, r);                                  \
  }                                                                                                          \
  static wuffs_base__rect_ie_u32 N##_fdr(const void* s) {                                                    \
    return wuffs_##P##__##T##__frame_dirty_rect((const wuffs_##P##__##T*)s);                                 \
  }                                                                                                          \
  static uint32_t N##_nal(const void* s) {                                                                   \
    return wuffs_##P##__##T##__num_animation_loops((const wuffs_##P##__##T*)s);                              \
  }                                                                                                          \
  static uint64_t N##_ndfc(const void* s) {                                                                  \
    return wuffs_##P##__##T##__num_decoded_frame_configs((const wuffs_##P##__##T*)s);                        \
  }                                                                                                          \
  static uint64_t N##_ndf(const void* s) {                                                                   \
    return wuffs_##P##__##T##__num_decoded_frames((const wuffs_##P##__##T*)s);                               \
  }                                                                                                          \
  static wuffs_base__empty_struct N##_srm(void* s, uint32_t f, bool r) {                                     \
    return wuffs_##P##__##T##__set_report_metadata((wuffs_##P##__##T*)s, f, r);                              \
  }                                                                                                          \
  static const codec codec_##N = {.name = #N, .kind = 'I', .size_of = N##_size_of, .init = N##_init,         \
                                  .setq = N##_setq, .getq = N##_getq, .wlen = N##_wlen, .dic = N##_dic,      \
                                  .dfc = N##_dfc, .df = N##_df, .rf = N##_rf, .tmm = N##_tmm, .fdr = N##_fdr, \
                                  .nal = N##_nal, .ndfc = N##_ndfc, .ndf = N##_ndf, .srm = N##_srm};

#define WV_K(N, P, T)                                                                                     \
  WV_COMMON(N, P, T)                                                                                      \
  WV_WLEN(N, P, T)                                                                                        \
  static wuffs_base__status N##_dt(void* s, wuffs_base__token_buffer* d, wuffs_base__io_buffer* r,        \
                                   wuffs_base__slice_u8 w) {                                              \
    return wuffs_##P##__##T##__decode_tokens((wuffs_##P##__##T*)s, d, r, w);                              \
  }                                                                                                       \
  static const codec codec_##N = {.name = #N, .kind = 'K', .size_of = N##_size_of, .init = N##_init,      \
                                  .setq = N##_setq, .getq = N##_getq, .wlen = N##_wlen, .dt = N##_dt};

// ---- instantiate (name, package, type)
#ifdef WV_HAVE_deflate
WV_T(deflate, deflate, decoder)
#endif
#ifdef WV_HAVE_zlib
WV_T(zlib, zlib, decoder)
#endif
#ifdef WV_HAVE_gzip
WV_T(gzip, gzip, decoder)
#endif
#ifdef WV_HAVE_lzw
WV_T(lzw, lzw, decoder)
#endif
#ifdef WV_HAVE_bzip2
WV_T(bzip2, bzip2, decoder)
#endif
#ifdef WV_HAVE_lzma
WV_T(lzma, lzma, decoder)
#endif
#ifdef WV_HAVE_xz
WV_T(xz, xz, decoder)
#endif
#ifdef WV_HAVE_lzip
WV_T(lzip, lzip, decoder)
#endif
#ifdef WV_HAVE_adler32
WV_H32(adler32, adler32, hasher)
#endif
#ifdef WV_HAVE_crc32
WV_H32(crc32, crc32, ieee_hasher)
#endif
#ifdef WV_HAVE_xxhash32
WV_H32(xxhash32, xxhash32, hasher)
#endif
#ifdef WV_HAVE_crc64
WV_H64(crc64, crc64, ecma_hasher)
#endif
#ifdef WV_HAVE_xxhash64
WV_H64(xxhash64, xxhash64, hasher)
#endif
#ifdef WV_HAVE_sha256
WV_H256(sha256, sha256, hasher)
#endif
#ifdef WV_HAVE_bmp
WV_I(bmp, bmp, decoder)
#endif
#ifdef WV_HAVE_etc2
WV_I(etc2, etc2, decoder)
#endif
#ifdef WV_HAVE_gif
WV_I(gif, gif, decoder)
#endif
#ifdef WV_HAVE_handsum
WV_I(handsum, handsum, decoder)
#endif
#ifdef WV_HAVE_jpeg
WV_I(jpeg, jpeg, decoder)
#endif
#ifdef WV_HAVE_netpbm
WV_I(netpbm, netpbm, decoder)
#endif
#ifdef WV_HAVE_nie
WV_I(nie, nie, decoder)
#endif
#ifdef WV_HAVE_png
WV_I(png, png, decoder)
#endif
#ifdef WV_HAVE_qoi
WV_I(qoi, qoi, decoder)
#endif
#ifdef WV_HAVE_targa
WV_I(targa, targa, decoder)
#endif
#ifdef WV_HAVE_thumbhash
WV_I(thumbhash, thumbhash, decoder)
#endif
#ifdef WV_HAVE_vp8
WV_I(vp8, vp8, decoder)
#endif
#ifdef WV_HAVE_wbmp
WV_I(wbmp, wbmp, decoder)
#endif
#ifdef WV_HAVE_webp
WV_I(webp, webp, decoder)
#endif
#ifdef WV_HAVE_json
WV_K(json, json, decoder)
#endif
#ifdef WV_HAVE_cbor
WV_K(cbor, cbor, decoder)
#endif

static const codec* const g_codecs[] = {
#ifdef WV_HAVE_deflate
    &codec_deflate,
#endif
#ifdef WV_HAVE_zlib
    &codec_zlib,
#endif
#ifdef WV_HAVE_gzip
    &codec_gzip,
#endif
#ifdef WV_HAVE_lzw
    &codec_lzw,
#endif
#ifdef WV_HAVE_bzip2
    &codec_bzip2,
#endif
#ifdef WV_HAVE_lzma
    &codec_lzma,
#endif
#ifdef WV_HAVE_xz
    &codec_xz,
#endif
#ifdef WV_HAVE_lzip
    &codec_lzip,
#endif
#ifdef WV_HAVE_adler32
    &codec_adler32,
#endif
#ifdef WV_HAVE_crc32
    &codec_crc32,
#endif
#ifdef WV_HAVE_xxhash32
    &codec_xxhash32,
#endif
#ifdef WV_HAVE_crc64
    &codec_crc64,
#endif
#ifdef WV_HAVE_xxhash64
    &codec_xxhash64,
#endif
#ifdef WV_HAVE_sha256
    &codec_sha256,
#endif
#ifdef WV_HAVE_bmp
    &codec_bmp,
#endif
#ifdef WV_HAVE_etc2
    &codec_etc2,
#endif
#ifdef WV_HAVE_gif
    &codec_gif,
#endif
#ifdef WV_HAVE_handsum
    &codec_handsum,
#endif
#ifdef WV_HAVE_jpeg
    &codec_jpeg,
#endif
#ifdef WV_HAVE_netpbm
    &codec_netpbm,
#endif
#ifdef WV_HAVE_nie
    &codec_nie,
#endif
#ifdef WV_HAVE_png
    &codec_png,
#endif
#ifdef WV_HAVE_qoi
    &codec_qoi,
#endif
#ifdef WV_HAVE_targa
    &codec_targa,
#endif
#ifdef WV_HAVE_thumbhash
    &codec_thumbhash,
#endif
#ifdef WV_HAVE_vp8
    &codec_vp8,
#endif
#ifdef WV_HAVE_wbmp
    &codec_wbmp,
#endif
#ifdef WV_HAVE_webp
    &codec_webp,
#endif
#ifdef WV_HAVE_json
    &codec_json,
#endif
#ifdef WV_HAVE_cbor
    &codec_cbor,
#endif
    NULL};

static const codec* find_codec(const char* name) {
  for (int i = 0; g_codecs[i]; i++) {
    if (!strcmp(g_codecs[i]->name, name)) return g_codecs[i];
  }
  return NULL;
}

// ---- dispatch: via == 0 -> the generic wuffs_base__<interface>__<method> (vtable
// lookup), via == 1 -> the codec's own entry point. self may be NULL / garbage.
#define VT_T(o) ((wuffs_base__io_transformer*)(o))
#define VT_I(o) ((wuffs_base__image_decoder*)(o))
#define VT_K(o) ((wuffs_base__token_decoder*)(o))

static wuffs_base__status call_setq(const codec* c, int via, void* o, uint32_t k, uint64_t v) {
  wuffs_base__status s;
  if (via) {
    LIB(s = c->setq(o, k, v));
    return s;
  }
  switch (c->kind) {
    case 'T': LIB(s = wuffs_base__io_transformer__set_quirk(VT_T(o), k, v)); break;
    case 'I': LIB(s = wuffs_base__image_decoder__set_quirk(VT_I(o), k, v)); break;
    case 'K': LIB(s = wuffs_base__token_decoder__set_quirk(VT_K(o), k, v)); break;
    case 'h': LIB(s = wuffs_base__hasher_u32__set_quirk((wuffs_base__hasher_u32*)o, k, v)); break;
    case 'H': LIB(s = wuffs_base__hasher_u64__set_quirk((wuffs_base__hasher_u64*)o, k, v)); break;
    default: LIB(s = wuffs_base__hasher_bitvec256__set_quirk((wuffs_base__hasher_bitvec256*)o, k, v)); break;
  }
  return s;
}
static uint64_t call_getq(const codec* c, int via, const void* o, uint32_t k) {
  uint64_t r;
  if (via) {
    LIB(r = c->getq(o, k));
    return r;
  }
  switch (c->kind) {
    case 'T': LIB(r = wuffs_base__io_transformer__get_quirk((const wuffs_base__io_transformer*)o, k)); break;
    case 'I': LIB(r = wuffs_base__image_decoder__get_quirk((const wuffs_base__image_decoder*)o, k)); break;
    case 'K': LIB(r = wuffs_base__token_decoder__get_quirk((const wuffs_base__token_decoder*)o, k)); break;
    case 'h': LIB(r = wuffs_base__hasher_u32__get_quirk((const wuffs_base__hasher_u32*)o, k)); break;
    case 'H': LIB(r = wuffs_base__hasher_u64__get_quirk((const wuffs_base__hasher_u64*)o, k)); break;
    default: LIB(r = wuffs_base__hasher_bitvec256__get_quirk((const wuffs_base__hasher_bitvec256*)o, k)); break;
  }
  return r;
}
static wuffs_base__range_ii_u64 call_wlen(const codec* c, int via, const void* o) {
  wuffs_base__range_ii_u64 r;
  if (via) {
    LIB(r = c->wlen(o));
    return r;
  }
  switch (c->kind) {
    case 'T': LIB(r = wuffs_base__io_transformer__workbuf_len((const wuffs_base__io_transformer*)o)); break;
    case 'I': LIB(r = wuffs_base__image_decoder__workbuf_len((const wuffs_base__image_decoder*)o)); break;
    default: LIB(r = wuffs_base__token_decoder__workbuf_len((const wuffs_base__token_decoder*)o)); break;
  }
  return r;
}
static wuffs_base__status call_tio(const codec* c, int via, void* o, wuffs_base__io_buffer* d,
                                   wuffs_base__io_buffer* s, wuffs_base__slice_u8 w) {
  wuffs_base__status r;
  if (via) LIB(r = c->tio(o, d, s, w));
  else LIB(r = wuffs_base__io_transformer__transform_io(VT_T(o), d, s, w));
  return r;
}
static wuffs_base__optional_u63 call_hist(const codec* c, int via, const void* o) {
  wuffs_base__optional_u63 r;
  if (via) LIB(r = c->hist(o));
  else LIB(r = wuffs_base__io_transformer__dst_history_retain_length((const wuffs_base__io_transformer*)o));
  return r;
}
static wuffs_base__status call_dic(const codec* c, int via, void* o, wuffs_base__image_config* d,
                                   wuffs_base__io_buffer* s) {
  wuffs_base__status r;
  if (via) LIB(r = c->dic(o, d, s));
  else LIB(r = wuffs_base__image_decoder__decode_image_config(VT_I(o), d, s));
  return r;
}
static wuffs_base__status call_dfc(const codec* c, int via, void* o, wuffs_base__frame_config* d,
                                   wuffs_base__io_buffer* s) {
  wuffs_base__status r;
  if (via) LIB(r = c->dfc(o, d, s));
  else LIB(r = wuffs_base__image_decoder__decode_frame_config(VT_I(o), d, s));
  return r;
}
static wuffs_base__status call_df(const codec* c, int via, void* o, wuffs_base__pixel_buffer* d,
                                  wuffs_base__io_buffer* s, wuffs_base__pixel_blend b, wuffs_base__slice_u8 w) {
  wuffs_base__status r;
  if (via) LIB(r = c->df(o, d, s, b, w, NULL));
  else LIB(r = wuffs_base__image_decoder__decode_frame(VT_I(o), d, s, b, w, NULL));
  return r;
}
static wuffs_base__status call_rf(const codec* c, int via, void* o, uint64_t i, uint64_t p) {
  wuffs_base__status r;
  if (via) LIB(r = c->rf(o, i, p));
  else LIB(r = wuffs_base__image_decoder__restart_frame(VT_I(o), i, p));
  return r;
}
static wuffs_base__status call_tmm(const codec* c, int via, void* o, wuffs_base__io_buffer* d,
                                   wuffs_base__more_information* m, wuffs_base__io_buffer* s) {
  wuffs_base__status r;
  if (via) LIB(r = c->tmm(o, d, m, s));
  else LIB(r = wuffs_base__image_decoder__tell_me_more(VT_I(o), d, m, s));
  return r;
}
static wuffs_base__status call_dt(const codec* c, int via, void* o, wuffs_base__token_buffer* d,
                                  wuffs_base__io_buffer* s, wuffs_base__slice_u8 w) {
  wuffs_base__status r;
  if (via) LIB(r = c->dt(o, d, s, w));
  else LIB(r = wuffs_base__token_decoder__decode_tokens(VT_K(o), d, s, w));
  return r;
}
