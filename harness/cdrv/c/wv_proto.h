// wv_proto.h - part of wvcdrv.c. The `proto` command: a scripted sequence of
// calls on ONE object, for call-protocol / I/O-contract checks (C08). See
// README.md for the script syntax. One output token per script item.

int wv_call_sequence(const char* codec, const void* obj);  // wv_peek.c

typedef struct {
  const codec* c;
  object o;
  int via;
  bool self_null;  // one-shot: next call gets self == NULL
  source src;
  bool src_null, dst_null;
  dest dst;
  bool have_dst;
  workbuf wb;
  int work_mode;  // 0 auto(max), 1 fixed, 2 NULL/empty, 3 min, 4 min-1
  uint64_t work_fixed;
  wuffs_base__image_config ic;
  wuffs_base__frame_config fc;
  wuffs_base__pixel_buffer pb;
  uint8_t* pix;
  size_t pixlen;
  bool pix_null;
  uint64_t tokcap;
  pattern pat;
  long call;
} pstate;

static void* p_self(pstate* p) {
  if (p->self_null) {
    p->self_null = false;
    return NULL;
  }
  return p->o.mem;
}

static wuffs_base__slice_u8 p_work(pstate* p, void* self) {
  if (p->work_mode == 2) return wuffs_base__make_slice_u8(NULL, 0);
  uint64_t n = p->work_fixed;
  if (p->work_mode != 1) {
    if (!self) return wuffs_base__make_slice_u8(NULL, 0);
    wuffs_base__range_ii_u64 r = call_wlen(p->c, p->via, self);
    n = p->work_mode == 0 ? r.max_incl : r.min_incl;
    if (p->work_mode == 4) n = n ? n - 1 : 0;
  }
  if (n > (256u << 20)) n = 256u << 20;
  if (n != p->wb.n || !p->wb.p) work_resize(&p->wb, (size_t)n, &p->pat);
  return wuffs_base__make_slice_u8(p->wb.p, p->wb.n);
}

static void p_tok_status(bytes* out, const char* repr) { add_status(out, repr); }

// after a call that took src (and maybe dst): contract checks; appends "!name" on failure
static void p_after(pstate* p, bytes* out, const wuffs_base__io_buffer* sb, const wuffs_base__io_buffer* db, bool used_dst) {
  namelist chk;
  memset(&chk, 0, sizeof chk);
  if (!p->src_null) check_reader(&chk, -1, sb, &p->src.buf, p->src.snap);
  if (used_dst && !p->dst_null && p->have_dst) {
    bool touched = check_writer(&chk, -1, db, &p->dst.buf, p->dst.snap, !(WV_MSAN && !p->pat.mode));
    (void)touched;
    if (p->dst.buf.data.ptr == db->data.ptr && p->dst.buf.meta.wi <= p->dst.buf.data.len && p->dst.buf.meta.wi >= db->meta.wi)
      memcpy(p->dst.snap + db->meta.wi, p->dst.buf.data.ptr + db->meta.wi, p->dst.buf.meta.wi - db->meta.wi);
  }
  for (int i = 0; i < chk.n; i++) {
    bytes_adds(out, "!");
    bytes_adds(out, chk.name[i]);
  }
  if (!p->src_null) bytes_addf(out, "/r%zu", p->src.buf.meta.ri);
  if (used_dst && !p->dst_null && p->have_dst) bytes_addf(out, "/w%zu", p->dst.buf.meta.wi - p->dst.hist);
}

// splits "a:b:c" in place; returns count (max 6)
static int split_colon(char* s, char** parts) {
  int n = 0;
  parts[n++] = s;
  for (char* q = s; *q && n < 6; q++) {
    if (*q == ':') {
      *q = 0;
      parts[n++] = q + 1;
    }
  }
  return n;
}

// p_item executes one script item, appending its output token. Returns false for a bad item.
static bool p_item(pstate* p, char* item, bytes* out) {
  char* a[6] = {0};
  if (!strncmp(item, "null:", 5)) {
    p->self_null = true;
    item += 5;
  }
  int na = split_colon(item, a);
  const char* op = a[0];
  const codec* c = p->c;
  uint64_t u = 0, v = 0;

  if (!strcmp(op, "fill")) {
    if (na != 2 && na != 3) return false;
    char tmp[64];
    snprintf(tmp, sizeof tmp, "%s%s%s", a[1], na == 3 ? ":" : "", na == 3 ? a[2] : "");
    pattern pt;
    if (!parse_pattern(tmp, &pt)) return false;
    pattern_fill(&pt, p->o.mem, p->o.size);
    bytes_adds(out, ".");
    return true;
  }
  if (!strcmp(op, "init")) {
    uint32_t flags = 0;
    size_t sz = p->o.size;
    uint64_t ver = WUFFS_VERSION;
    if (na >= 2) flags = (uint32_t)strtoul(a[1], NULL, 16);
    if (na >= 3) {
      if (!strcmp(a[2], "ok")) sz = p->o.size;
      else if (!strcmp(a[2], "-1")) sz = p->o.size - 1;
      else if (!strcmp(a[2], "+1")) sz = p->o.size + 1;
      else if (parse_u64(a[2], &u)) sz = (size_t)u;
      else return false;
    }
    if (na >= 4) {
      if (!strcmp(a[3], "ok")) ver = WUFFS_VERSION;
      else if (!strcmp(a[3], "maj+")) ver = WUFFS_VERSION + (1ull << 32);
      else if (!strcmp(a[3], "maj-")) ver = WUFFS_VERSION - (1ull << 32);
      else if (!strcmp(a[3], "min+")) ver = WUFFS_VERSION + (1ull << 16);
      else if (parse_u64(a[3], &u)) ver = u;
      else return false;
    }
    void* self = p_self(p);
    wuffs_base__status s;
    LIB(s = c->init(self, sz, ver, flags));
    p_tok_status(out, s.repr);
    return true;
  }
  if (!strcmp(op, "peek")) {
    uint32_t m[2];
    memcpy(m, p->o.mem, 8);
    bytes_addf(out, "m=%08" PRIx32 "_co=%" PRIu32, m[0], m[1]);
    return true;
  }
  if (!strcmp(op, "cs")) {
    int v = wv_call_sequence(c->name, p->o.mem);
    if (v < 0) bytes_adds(out, "cs=-");
    else bytes_addf(out, "cs=%d", v);
    return true;
  }
  if (!strcmp(op, "via")) {
    if (na != 2) return false;
    if (!strcmp(a[1], "vtable")) p->via = 0;
    else if (!strcmp(a[1], "direct")) p->via = 1;
    else return false;
    bytes_adds(out, ".");
    return true;
  }
  if (!strcmp(op, "src")) {  // src:<n|*>[c]
    if (na != 2) return false;
    size_t l = strlen(a[1]);
    bool closed = l && a[1][l - 1] == 'c';
    if (closed) a[1][l - 1] = 0;
    size_t n;
    if (!strcmp(a[1], "*")) n = source_remaining(&p->src);
    else if (parse_u64(a[1], &u)) n = u > source_remaining(&p->src) ? source_remaining(&p->src) : (size_t)u;
    else return false;
    p->src.want_closed = false;
    source_supply(&p->src, n);
    if (closed) p->src.buf.meta.closed = true;
    bytes_adds(out, ".");
    return true;
  }
  if (!strcmp(op, "srcnull") || !strcmp(op, "dstnull") || !strcmp(op, "pixnull")) {
    if (na != 2 || !parse_u64(a[1], &u) || u > 1) return false;
    if (op[0] == 's') p->src_null = u;
    else if (op[0] == 'd') p->dst_null = u;
    else p->pix_null = u;
    bytes_adds(out, ".");
    return true;
  }
  if (!strcmp(op, "dst")) {  // dst:<cap>[c]
    if (na != 2) return false;
    size_t l = strlen(a[1]);
    bool closed = l && a[1][l - 1] == 'c';
    if (closed) a[1][l - 1] = 0;
    if (!parse_u64(a[1], &u) || u > (1u << 26)) return false;
    uint64_t retain = 0;
    if (c->kind == 'T') {
      wuffs_base__optional_u63 h = call_hist(c, 1, p->o.mem);
      retain = wuffs_base__optional_u63__has_value(&h) ? wuffs_base__optional_u63__value(&h) : UINT64_MAX;
    }
    dest_refill(&p->dst, retain, (size_t)u);
    if (closed) p->dst.buf.meta.closed = true;
    p->have_dst = true;
    bytes_adds(out, ".");
    return true;
  }
  if (!strcmp(op, "tok")) {
    if (na != 2 || !parse_u64(a[1], &u) || u > (1u << 20)) return false;
    p->tokcap = u;
    bytes_adds(out, ".");
    return true;
  }
  if (!strcmp(op, "work")) {
    if (na != 2) return false;
    if (!strcmp(a[1], "auto") || !strcmp(a[1], "max")) p->work_mode = 0;
    else if (!strcmp(a[1], "null")) p->work_mode = 2;
    else if (!strcmp(a[1], "min")) p->work_mode = 3;
    else if (!strcmp(a[1], "min-1")) p->work_mode = 4;
    else if (parse_u64(a[1], &u)) {
      p->work_mode = 1;
      p->work_fixed = u;
    } else return false;
    bytes_adds(out, ".");
    return true;
  }
  if (!strcmp(op, "setq")) {
    if (na != 3 || !parse_u64(a[1], &u) || !parse_u64(a[2], &v)) return false;
    wuffs_base__status s = call_setq(c, p->via, p_self(p), (uint32_t)u, v);
    p_tok_status(out, s.repr);
    return true;
  }
  if (!strcmp(op, "getq")) {
    if (na != 2 || !parse_u64(a[1], &u)) return false;
    bytes_addf(out, "%" PRIu64, call_getq(c, p->via, p_self(p), (uint32_t)u));
    return true;
  }
  if (!strcmp(op, "wlen")) {
    if (c->kind != 'T' && c->kind != 'I' && c->kind != 'K') return false;
    wuffs_base__range_ii_u64 r = call_wlen(c, p->via, p_self(p));
    bytes_addf(out, "%" PRIu64 "..%" PRIu64, r.min_incl, r.max_incl);
    return true;
  }
  wuffs_base__io_buffer sb = p->src.buf, db = p->dst.buf;
  wuffs_base__io_buffer* sp = p->src_null ? NULL : &p->src.buf;
  wuffs_base__io_buffer* dp = (p->dst_null || !p->have_dst) ? NULL : &p->dst.buf;

  if (c->kind == 'T') {
    if (!strcmp(op, "tio")) {
      void* self = p_self(p);
      wuffs_base__slice_u8 w = p_work(p, self);
      wuffs_base__status s = call_tio(c, p->via, self, dp, sp, w);
      p_tok_status(out, s.repr);
      p_after(p, out, &sb, &db, true);
      return true;
    }
    if (!strcmp(op, "hist")) {
      wuffs_base__optional_u63 h = call_hist(c, p->via, p_self(p));
      if (wuffs_base__optional_u63__has_value(&h)) bytes_addf(out, "%" PRIu64, wuffs_base__optional_u63__value(&h));
      else bytes_adds(out, "none");
      return true;
    }
#if defined(WV_HAVE_zlib)
    if (!strcmp(op, "dict") && !strcmp(c->name, "zlib")) {
      if (na != 2) return false;
      uint8_t* d;
      size_t dl;
      if (!unhex(a[1], &d, &dl)) return false;
      LIB(wuffs_zlib__decoder__add_dictionary((wuffs_zlib__decoder*)p_self(p), wuffs_base__make_slice_u8(d, dl)));
      free(d);
      bytes_adds(out, ".");
      return true;
    }
#endif
    return false;
  }
  if (c->kind == 'K') {
    if (!strcmp(op, "dt")) {
      void* self = p_self(p);
      wuffs_base__slice_u8 w = p_work(p, self);
      wuffs_base__token* tk = (wuffs_base__token*)xalloc((size_t)p->tokcap * sizeof(wuffs_base__token));
      memset(tk, 0, (size_t)p->tokcap * sizeof(wuffs_base__token));
      wuffs_base__token_buffer tb;
      memset(&tb, 0, sizeof tb);
      tb.data.ptr = tk;
      tb.data.len = (size_t)p->tokcap;
      wuffs_base__status s = call_dt(c, p->via, self, p->dst_null ? NULL : &tb, sp, w);
      p_tok_status(out, s.repr);
      if (!(tb.meta.ri <= tb.meta.wi && tb.meta.wi <= tb.data.len)) bytes_adds(out, "!dst_index_order");
      p_after(p, out, &sb, &db, false);
      bytes_addf(out, "/t%zu", tb.meta.wi);
      free(tk);
      return true;
    }
    return false;
  }
  if (c->kind == 'I') {
    if (!strcmp(op, "dic") || !strcmp(op, "dic0")) {
      wuffs_base__status s = call_dic(c, p->via, p_self(p), op[3] ? NULL : &p->ic, sp);
      p_tok_status(out, s.repr);
      p_after(p, out, &sb, &db, false);
      return true;
    }
    if (!strcmp(op, "dfc") || !strcmp(op, "dfc0")) {
      wuffs_base__status s = call_dfc(c, p->via, p_self(p), op[3] ? NULL : &p->fc, sp);
      p_tok_status(out, s.repr);
      p_after(p, out, &sb, &db, false);
      return true;
    }
    if (!strcmp(op, "pix")) {  // pix[:fmt hex] - (re)allocate the pixel buffer from the last image config
      if (!wuffs_base__image_config__is_valid(&p->ic)) {
        bytes_adds(out, "no-config");
        return true;
      }
      uint32_t w = wuffs_base__pixel_config__width(&p->ic.pixcfg), h = wuffs_base__pixel_config__height(&p->ic.pixcfg);
      if ((uint64_t)w * h > (1u << 22)) {
        bytes_adds(out, "too-large");
        return true;
      }
      uint32_t fmt = na >= 2 ? (uint32_t)strtoul(a[1], NULL, 16) : 0x81008888u;
      wuffs_base__pixel_config__set(&p->ic.pixcfg, fmt, 0, w, h);
      free(p->pix);
      p->pixlen = (size_t)wuffs_base__pixel_config__pixbuf_len(&p->ic.pixcfg);
      p->pix = xalloc(p->pixlen);
      memset(p->pix, 0, p->pixlen);
      wuffs_base__status s =
          wuffs_base__pixel_buffer__set_from_slice(&p->pb, &p->ic.pixcfg, wuffs_base__make_slice_u8(p->pix, p->pixlen));
      if (s.repr) p_tok_status(out, s.repr);
      else bytes_addf(out, "%" PRIu32 "x%" PRIu32, w, h);
      return true;
    }
    if (!strcmp(op, "df")) {
      void* self = p_self(p);
      wuffs_base__slice_u8 w = p_work(p, self);
      wuffs_base__status s =
          call_df(c, p->via, self, (p->pix_null || !p->pix) ? NULL : &p->pb, sp, WUFFS_BASE__PIXEL_BLEND__SRC, w);
      p_tok_status(out, s.repr);
      p_after(p, out, &sb, &db, false);
      if (p->pix) bytes_addf(out, "/p%016" PRIx64, fnv64(FNV64_INIT, p->pix, p->pixlen));
      return true;
    }
    if (!strcmp(op, "rf")) {
      if (na != 3 || !parse_u64(a[1], &u)) return false;
      if (!strcmp(a[2], "ffio")) v = wuffs_base__image_config__first_frame_io_position(&p->ic);
      else if (!strcmp(a[2], "fcio")) v = wuffs_base__frame_config__io_position(&p->fc);
      else if (!parse_u64(a[2], &v)) return false;
      wuffs_base__status s = call_rf(c, p->via, p_self(p), u, v);
      p_tok_status(out, s.repr);
      return true;
    }
    if (!strcmp(op, "seek")) {  // seek:<abs input position> - reposition the source window (after rf)
      if (na != 2) return false;
      if (!strcmp(a[1], "ffio")) u = wuffs_base__image_config__first_frame_io_position(&p->ic);
      else if (!strcmp(a[1], "fcio")) u = wuffs_base__frame_config__io_position(&p->fc);
      else if (!parse_u64(a[1], &u)) return false;
      if (u > p->src.in_len) return false;
      free(p->src.buf.data.ptr);
      free(p->src.snap);
      p->src.buf.data.ptr = xalloc(0);
      p->src.snap = xalloc(0);
      p->src.buf.data.len = 0;
      p->src.buf.meta.wi = p->src.buf.meta.ri = 0;
      p->src.buf.meta.pos = u;
      p->src.buf.meta.closed = false;
      p->src.in_pos = (size_t)u;
      bytes_adds(out, ".");
      return true;
    }
    if (!strcmp(op, "tmm")) {
      wuffs_base__more_information mi;
      memset(&mi, 0, sizeof mi);
      wuffs_base__status s = call_tmm(c, p->via, p_self(p), dp, &mi, sp);
      p_tok_status(out, s.repr);
      p_after(p, out, &sb, &db, true);
      return true;
    }
    if (!strcmp(op, "srm")) {
      if (na != 3 || !parse_u64(a[1], &u) || !parse_u64(a[2], &v)) return false;
      void* self = p_self(p);
      if (p->via) LIB(c->srm(self, (uint32_t)u, v != 0));
      else LIB(wuffs_base__image_decoder__set_report_metadata(VT_I(self), (uint32_t)u, v != 0));
      bytes_adds(out, ".");
      return true;
    }
    const void* self = NULL;
    if (!strcmp(op, "ndfc") || !strcmp(op, "ndf") || !strcmp(op, "nal") || !strcmp(op, "fdr")) self = p_self(p);
    if (!strcmp(op, "ndfc")) {
      uint64_t r;
      if (p->via) LIB(r = c->ndfc(self));
      else LIB(r = wuffs_base__image_decoder__num_decoded_frame_configs((const wuffs_base__image_decoder*)self));
      bytes_addf(out, "%" PRIu64, r);
      return true;
    }
    if (!strcmp(op, "ndf")) {
      uint64_t r;
      if (p->via) LIB(r = c->ndf(self));
      else LIB(r = wuffs_base__image_decoder__num_decoded_frames((const wuffs_base__image_decoder*)self));
      bytes_addf(out, "%" PRIu64, r);
      return true;
    }
    if (!strcmp(op, "nal")) {
      uint32_t r;
      if (p->via) LIB(r = c->nal(self));
      else LIB(r = wuffs_base__image_decoder__num_animation_loops((const wuffs_base__image_decoder*)self));
      bytes_addf(out, "%" PRIu32, r);
      return true;
    }
    if (!strcmp(op, "fdr")) {
      wuffs_base__rect_ie_u32 r;
      if (p->via) LIB(r = c->fdr(self));
      else LIB(r = wuffs_base__image_decoder__frame_dirty_rect((const wuffs_base__image_decoder*)self));
      bytes_addf(out, "%" PRIu32 "_%" PRIu32 "_%" PRIu32 "_%" PRIu32, r.min_incl_x, r.min_incl_y, r.max_excl_x, r.max_excl_y);
      return true;
    }
    return false;
  }
  // hashers
  if (!strcmp(op, "up") || !strcmp(op, "upv")) {
    if (na != 2) return false;
    size_t n;
    if (!strcmp(a[1], "*")) n = source_remaining(&p->src);
    else if (parse_u64(a[1], &u)) n = u > source_remaining(&p->src) ? source_remaining(&p->src) : (size_t)u;
    else return false;
    uint8_t* chunk = xalloc(n);
    memcpy(chunk, p->src.in + p->src.in_pos, n);
    p->src.in_pos += n;
    wuffs_base__slice_u8 sl = wuffs_base__make_slice_u8(chunk, n);
    void* self = p_self(p);
    if (!op[2]) {
      if (p->via) LIB(c->up(self, sl));
      else if (c->kind == 'h') LIB(wuffs_base__hasher_u32__update((wuffs_base__hasher_u32*)self, sl));
      else if (c->kind == 'H') LIB(wuffs_base__hasher_u64__update((wuffs_base__hasher_u64*)self, sl));
      else LIB(wuffs_base__hasher_bitvec256__update((wuffs_base__hasher_bitvec256*)self, sl));
      bytes_adds(out, ".");
    } else if (c->kind == 'h') {
      uint32_t r;
      if (p->via) LIB(r = c->up32(self, sl));
      else LIB(r = wuffs_base__hasher_u32__update_u32((wuffs_base__hasher_u32*)self, sl));
      bytes_addf(out, "%08" PRIx32, r);
    } else if (c->kind == 'H') {
      uint64_t r;
      if (p->via) LIB(r = c->up64(self, sl));
      else LIB(r = wuffs_base__hasher_u64__update_u64((wuffs_base__hasher_u64*)self, sl));
      bytes_addf(out, "%016" PRIx64, r);
    } else {
      wuffs_base__bitvec256 r;
      if (p->via) LIB(r = c->up256(self, sl));
      else LIB(r = wuffs_base__hasher_bitvec256__update_bitvec256((wuffs_base__hasher_bitvec256*)self, sl));
      bytes_addf(out, "%016" PRIx64 "%016" PRIx64 "%016" PRIx64 "%016" PRIx64, r.elements_u64[3], r.elements_u64[2],
                 r.elements_u64[1], r.elements_u64[0]);
    }
    free(chunk);
    return true;
  }
  if (!strcmp(op, "sum")) {
    const void* self = p_self(p);
    if (c->kind == 'h') {
      uint32_t r;
      if (p->via) LIB(r = c->sum32(self));
      else LIB(r = wuffs_base__hasher_u32__checksum_u32((const wuffs_base__hasher_u32*)self));
      bytes_addf(out, "%08" PRIx32, r);
    } else if (c->kind == 'H') {
      uint64_t r;
      if (p->via) LIB(r = c->sum64(self));
      else LIB(r = wuffs_base__hasher_u64__checksum_u64((const wuffs_base__hasher_u64*)self));
      bytes_addf(out, "%016" PRIx64, r);
    } else {
      wuffs_base__bitvec256 r;
      if (p->via) LIB(r = c->sum256(self));
      else LIB(r = wuffs_base__hasher_bitvec256__checksum_bitvec256((const wuffs_base__hasher_bitvec256*)self));
      bytes_addf(out, "%016" PRIx64 "%016" PRIx64 "%016" PRIx64 "%016" PRIx64, r.elements_u64[3], r.elements_u64[2],
                 r.elements_u64[1], r.elements_u64[0]);
    }
    return true;
  }
  return false;
}

// cmd_proto: fields = [codec, opts (prefill=, via=)..., script, hex]
static void cmd_proto(bytes* line, char** f, int nf) {
  if (nf < 3) {
    bytes_adds(line, "bad-op");
    return;
  }
  const codec* c = find_codec(f[0]);
  if (!c) {
    bytes_adds(line, "bad-op unknown-codec");
    return;
  }
  options opt;
  options_default(&opt);
  for (int i = 1; i < nf - 2; i++) {
    if (!parse_option(&opt, f[i])) {
      bytes_adds(line, "bad-op ");
      bytes_adds(line, f[i]);
      options_free(&opt);
      return;
    }
  }
  uint8_t* in;
  size_t in_len;
  if (!unhex(f[nf - 1], &in, &in_len)) {
    bytes_adds(line, "bad-op bad-hex");
    options_free(&opt);
    return;
  }
  pstate p;
  memset(&p, 0, sizeof p);
  p.c = c;
  p.via = opt.via;
  p.pat = opt.prefill;
  p.tokcap = 256;
  object_alloc(&p.o, c);
  memset(p.o.mem, 0, p.o.size);  // default: zeroed memory; use fill:.. to change
  if (opt.prefill.mode) pattern_fill(&p.pat, p.o.mem, p.o.size);
  source_init(&p.src, in, in_len, false, 0, &p.pat);
  dest_init(&p.dst, &p.pat);
  uint64_t allocs0 = g_lib_allocs;
  bytes out = {0};
  bool bad = false;
  char* script = f[nf - 2];
  char* save = NULL;
  int items = 0;
  for (char* it = strtok_r(script, ";", &save); it; it = strtok_r(NULL, ";", &save)) {
    if (items++) bytes_adds(&out, ";");
    p.call++;
    if (!p_item(&p, it, &out)) {
      bad = true;
      bytes_adds(line, "bad-op item=");
      bytes_adds(line, it);
      break;
    }
  }
  if (!bad) {
    bytes_adds(line, "ok ");
    if (out.n) bytes_add(line, out.p, out.n);
    else bytes_adds(line, "-");
    if (WV_ALLOC_COUNTED) bytes_addf(line, " allocs=%" PRIu64, g_lib_allocs - allocs0);
    else bytes_adds(line, " allocs=na");
  }
  bytes_free(&out);
  source_free(&p.src);
  dest_free(&p.dst);
  free(p.wb.p);
  free(p.pix);
  object_free(&p.o);
  free(in);
  options_free(&opt);
}
