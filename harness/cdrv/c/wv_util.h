// wv_util.h - part of wvcdrv.c (see README.md). Small utilities: byte
// buffers, hex, patterns, FNV-1a, status encoding, allocation counters.

#include <inttypes.h>
#include <stdbool.h>
#include <stdint.h>
#include <stdio.h>
#include <stdlib.h>
#include <string.h>

// ---- allocation counters (plain flavours link with -Wl,--wrap=malloc,...).
// g_in_lib is 1 exactly while a Wuffs library function runs; any allocator call
// made in that window is the library's, not the driver's.
static volatile int g_in_lib = 0;
static volatile uint64_t g_lib_allocs = 0;
#if defined(WVCDRV_WRAP_ALLOC)
void* __real_malloc(size_t);
void* __real_calloc(size_t, size_t);
void* __real_realloc(void*, size_t);
void __real_free(void*);
void* __wrap_malloc(size_t n) {
  if (g_in_lib) g_lib_allocs++;
  return __real_malloc(n);
}
void* __wrap_calloc(size_t a, size_t b) {
  if (g_in_lib) g_lib_allocs++;
  return __real_calloc(a, b);
}
void* __wrap_realloc(void* p, size_t n) {
  if (g_in_lib) g_lib_allocs++;
  return __real_realloc(p, n);
}
void __wrap_free(void* p) {
  if (g_in_lib) g_lib_allocs++;
  __real_free(p);
}
#define WV_ALLOC_COUNTED 1
#else
#define WV_ALLOC_COUNTED 0
#endif
#define LIB(expr)   \
  do {              \
    g_in_lib = 1;   \
    expr;           \
    g_in_lib = 0;   \
  } while (0)

#if defined(__has_feature)
#if __has_feature(memory_sanitizer)
#define WV_MSAN 1
#endif
#endif
#ifndef WV_MSAN
#define WV_MSAN 0
#endif

static void die(const char* msg) {
  fprintf(stderr, "wvcdrv: fatal: %s\n", msg);
  exit(3);
}

// xalloc returns an exact-size heap block (so that ASan sees any access past
// the end). n == 0 gives a valid, zero-length block.
static uint8_t* xalloc(size_t n) {
  uint8_t* p = (uint8_t*)malloc(n ? n : 1);
  if (!p) die("out of memory");
  return p;
}

// ---- growable byte buffer
typedef struct {
  uint8_t* p;
  size_t n, cap;
} bytes;

static void bytes_reserve(bytes* b, size_t extra) {
  if (b->n + extra <= b->cap) return;
  size_t nc = b->cap ? b->cap * 2 : 256;
  while (nc < b->n + extra) nc *= 2;
  b->p = (uint8_t*)realloc(b->p, nc);
  if (!b->p) die("out of memory");
  b->cap = nc;
}
static void bytes_add(bytes* b, const void* src, size_t n) {
  if (!n) return;
  bytes_reserve(b, n);
  memcpy(b->p + b->n, src, n);
  b->n += n;
}
static void bytes_adds(bytes* b, const char* s) { bytes_add(b, s, strlen(s)); }
static void bytes_addf(bytes* b, const char* fmt, ...) __attribute__((format(printf, 2, 3)));
#include <stdarg.h>
static void bytes_addf(bytes* b, const char* fmt, ...) {
  char tmp[512];
  va_list ap;
  va_start(ap, fmt);
  int n = vsnprintf(tmp, sizeof tmp, fmt, ap);
  va_end(ap);
  if (n < 0) return;
  if ((size_t)n >= sizeof tmp) n = sizeof tmp - 1;
  bytes_add(b, tmp, (size_t)n);
}
static void bytes_free(bytes* b) {
  free(b->p);
  b->p = NULL;
  b->n = b->cap = 0;
}

// ---- hex
static int hexval(int c) {
  if (c >= '0' && c <= '9') return c - '0';
  if (c >= 'a' && c <= 'f') return c - 'a' + 10;
  if (c >= 'A' && c <= 'F') return c - 'A' + 10;
  return -1;
}
// unhex parses s ("-" = empty) into a fresh exact-size block. Returns false on bad hex.
static bool unhex(const char* s, uint8_t** out, size_t* outlen) {
  if (!strcmp(s, "-")) {
    *out = xalloc(0);
    *outlen = 0;
    return true;
  }
  size_t l = strlen(s);
  if (l & 1) return false;
  uint8_t* p = xalloc(l / 2);
  for (size_t i = 0; i < l / 2; i++) {
    int a = hexval(s[2 * i]), b = hexval(s[2 * i + 1]);
    if (a < 0 || b < 0) {
      free(p);
      return false;
    }
    p[i] = (uint8_t)(a * 16 + b);
  }
  *out = p;
  *outlen = l / 2;
  return true;
}
static void add_hex(bytes* b, const uint8_t* p, size_t n) {
  static const char* d = "0123456789abcdef";
  if (n == 0) {
    bytes_adds(b, "-");
    return;
  }
  bytes_reserve(b, 2 * n);
  for (size_t i = 0; i < n; i++) {
    b->p[b->n++] = (uint8_t)d[p[i] >> 4];
    b->p[b->n++] = (uint8_t)d[p[i] & 15];
  }
}

static uint64_t fnv64(uint64_t h, const uint8_t* p, size_t n) {
  for (size_t i = 0; i < n; i++) {
    h ^= p[i];
    h *= 0x100000001B3ull;
  }
  return h;
}
#define FNV64_INIT 0xCBF29CE484222325ull

// add_payload prints "<len>:<hex>" when small (or digest==0) else "<len>:fnv64:<16 hex>".
static void add_payload(bytes* b, const uint8_t* p, size_t n, int digest /*0 never,1 always,2 auto*/) {
  bytes_addf(b, "%zu:", n);
  if (digest == 1 || (digest == 2 && n > 4096)) {
    bytes_addf(b, "fnv64:%016" PRIx64, fnv64(FNV64_INIT, p, n));
  } else {
    add_hex(b, p, n);
  }
}

// ---- fill patterns
typedef struct {
  int mode;  // 0 none, 1 constant byte, 2 pseudo-random
  uint8_t byte;
  uint64_t state;
} pattern;

static bool parse_pattern(const char* s, pattern* p) {
  memset(p, 0, sizeof *p);
  if (!strcmp(s, "none")) return true;
  if (!strncmp(s, "rand:", 5)) {
    p->mode = 2;
    p->state = strtoull(s + 5, NULL, 0) * 0x9E3779B97F4A7C15ull + 0x1234567ull;
    return true;
  }
  if (strlen(s) == 2 && hexval(s[0]) >= 0 && hexval(s[1]) >= 0) {
    p->mode = 1;
    p->byte = (uint8_t)(hexval(s[0]) * 16 + hexval(s[1]));
    return true;
  }
  return false;
}
static void pattern_fill(pattern* p, uint8_t* dst, size_t n) {
  if (!n) return;
  if (p->mode == 1) {
    memset(dst, p->byte, n);
  } else if (p->mode == 2) {
    for (size_t i = 0; i < n; i++) {
      p->state += 0x9E3779B97F4A7C15ull;
      uint64_t z = p->state;
      z = (z ^ (z >> 30)) * 0xBF58476D1CE4E5B9ull;
      z = (z ^ (z >> 27)) * 0x94D049BB133111EBull;
      dst[i] = (uint8_t)(z ^ (z >> 31));
    }
  }
}

// ---- size lists "a,b,c" (last repeats; empty / "-" / "all" = everything at once)
typedef struct {
  uint64_t v[64];
  int n;
  int next;
} sizelist;

static bool parse_sizelist(const char* s, sizelist* l) {
  memset(l, 0, sizeof *l);
  if (!*s || !strcmp(s, "-") || !strcmp(s, "all")) return true;
  while (*s) {
    if (l->n >= 64) return false;
    char* end;
    if (*s < '0' || *s > '9') return false;
    l->v[l->n++] = strtoull(s, &end, 0);
    s = end;
    if (*s == ',') {
      s++;
      if (!*s) return false;
    } else if (*s) {
      return false;
    }
  }
  return true;
}
// sizelist_next returns the next size, or dflt when the list is empty.
static uint64_t sizelist_next(sizelist* l, uint64_t dflt) {
  if (l->n == 0) return dflt;
  uint64_t v = l->v[l->next];
  if (l->next < l->n - 1) l->next++;
  return v;
}

// ---- status encoding: NULL -> "ok"; spaces -> '_' so result lines split on spaces.
static void add_status(bytes* b, const char* repr) {
  if (!repr) {
    bytes_adds(b, "ok");
    return;
  }
  size_t n = strnlen(repr, 200);
  bytes_reserve(b, n);
  for (size_t i = 0; i < n; i++) {
    char c = repr[i];
    if (c == ' ' || c == '\n' || c == '\t' || c == ';' || c == ',' || c == '[' || c == ']') c = '_';
    b->p[b->n++] = (uint8_t)c;
  }
}
static bool status_has(const char* repr, const char* needle) { return repr && strstr(repr, needle); }
