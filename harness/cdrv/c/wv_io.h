// wv_io.h - part of wvcdrv.c. Source/destination buffer management with
// exact-size heap blocks, and the per-call I/O-contract checks.

// ---- check / flag accumulator: distinct names with the first call index.
typedef struct {
  char name[40][48];
  int n;
} namelist;

static void names_add(namelist* l, const char* name, long call) {
  char tmp[48];
  if (call >= 0) snprintf(tmp, sizeof tmp, "%s@%ld", name, call);
  else snprintf(tmp, sizeof tmp, "%s", name);
  size_t base = strlen(name);
  for (int i = 0; i < l->n; i++) {
    if (!strncmp(l->name[i], name, base) && (l->name[i][base] == '@' || l->name[i][base] == 0)) return;
  }
  if (l->n < 40) memcpy(l->name[l->n++], tmp, sizeof tmp);
}
static void names_print(bytes* b, const namelist* l, const char* empty) {
  if (l->n == 0) {
    bytes_adds(b, empty);
    return;
  }
  for (int i = 0; i < l->n; i++) {
    if (i) bytes_adds(b, ",");
    bytes_adds(b, l->name[i]);
  }
}

// ---- source: a window onto the whole input, re-allocated at every supply so
// that len == wi (+ optional slack): reading past wi is a heap overflow.
typedef struct {
  const uint8_t* in;
  size_t in_len;
  size_t in_pos;  // input bytes handed to the window so far
  wuffs_base__io_buffer buf;
  uint8_t* snap;  // copy of buf.data[0..len) taken at supply time
  size_t slack;
  bool want_closed;
  pattern* pat;
} source;

static void source_init(source* s, const uint8_t* in, size_t in_len, bool want_closed, size_t slack, pattern* pat) {
  memset(s, 0, sizeof *s);
  s->in = in;
  s->in_len = in_len;
  s->want_closed = want_closed;
  s->slack = slack;
  s->pat = pat;
  s->buf.data.ptr = xalloc(0);
  s->snap = xalloc(0);
}
static size_t source_remaining(const source* s) { return s->in_len - s->in_pos; }
// source_supply compacts (drops the consumed prefix, advancing pos) and appends n more input bytes.
// (added for C03) nullempty=1: a zero-length source window / destination / token buffer / work buffer is
// handed over as {NULL, 0} (what wuffs_base__empty_io_buffer() and wuffs_base__empty_slice_u8() are)
// instead of a zero-length heap block, so that pointer arithmetic on a NULL base is seen by UBSan.
static bool g_null_empty = false;
static uint8_t* xalloc_maybe_null(size_t n) { return (n == 0 && g_null_empty) ? NULL : xalloc(n); }

static void source_supply(source* s, size_t n) {
  if (n > source_remaining(s)) n = source_remaining(s);
  size_t ri = s->buf.meta.ri, wi = s->buf.meta.wi;
  size_t keep = wi - ri;
  size_t used = keep + n;
  size_t len = used + s->slack;
  uint8_t* nb = xalloc_maybe_null(len);
  if (keep) memcpy(nb, s->buf.data.ptr + ri, keep);
  if (n) memcpy(nb + keep, s->in + s->in_pos, n);
  if (s->slack) {
    memset(nb + used, 0xEE, s->slack);
    if (s->pat) pattern_fill(s->pat, nb + used, s->slack);
  }
  s->in_pos += n;
  uint64_t pos = s->buf.meta.pos + ri;
  free(s->buf.data.ptr);
  free(s->snap);
  s->buf.data.ptr = nb;
  s->buf.data.len = len;
  s->buf.meta.wi = used;
  s->buf.meta.ri = 0;
  s->buf.meta.pos = pos;
  s->buf.meta.closed = s->want_closed && (s->in_pos == s->in_len);
  s->snap = xalloc(len);
  if (len) memcpy(s->snap, nb, len);
}
static uint64_t source_consumed(const source* s) { return s->buf.meta.pos + s->buf.meta.ri; }
static void source_free(source* s) {
  free(s->buf.data.ptr);
  free(s->snap);
  s->buf.data.ptr = NULL;
  s->snap = NULL;
}

// ---- destination (bytes): [retained history | cap writable bytes], fresh exact-size block per refill.
typedef struct {
  wuffs_base__io_buffer buf;
  size_t hist;  // bytes of retained history at the front (== wi at refill time)
  pattern* pat;
  uint8_t* snap;  // copy of the whole block at refill time
} dest;

static void dest_init(dest* d, pattern* pat) {
  memset(d, 0, sizeof *d);
  d->pat = pat;
  d->buf.data.ptr = xalloc(0);
  d->snap = xalloc(0);
}
// dest_refill keeps the last `retain` written bytes as history and provides cap writable bytes.
static void dest_refill(dest* d, uint64_t retain, size_t cap) {
  size_t wi = d->buf.meta.wi;
  size_t keep = (retain < wi) ? (size_t)retain : wi;
  size_t len = keep + cap;
  uint8_t* nb = xalloc_maybe_null(len);
  if (keep) memcpy(nb, d->buf.data.ptr + (wi - keep), keep);
  if (cap) {
    if (!WV_MSAN || (d->pat && d->pat->mode)) memset(nb + keep, 0xDD, cap);
    if (d->pat) pattern_fill(d->pat, nb + keep, cap);
  }
  uint64_t pos = d->buf.meta.pos + (wi - keep);
  free(d->buf.data.ptr);
  free(d->snap);
  d->buf.data.ptr = nb;
  d->buf.data.len = len;
  d->buf.meta.wi = keep;
  d->buf.meta.ri = keep;
  d->buf.meta.pos = pos;
  d->buf.meta.closed = false;
  d->hist = keep;
  d->snap = xalloc(len);
  if (len && !(WV_MSAN && !(d->pat && d->pat->mode))) memcpy(d->snap, nb, len);
}
static void dest_free(dest* d) {
  free(d->buf.data.ptr);
  free(d->snap);
  d->buf.data.ptr = NULL;
  d->snap = NULL;
}

// ---- the I/O contract, evaluated after a call. `before` is the io_buffer value
// just before the call; snap is the byte content of data[0..len) before it.
static void check_reader(namelist* chk, long call, const wuffs_base__io_buffer* before,
                         const wuffs_base__io_buffer* after, const uint8_t* snap) {
  if (after->data.ptr != before->data.ptr || after->data.len != before->data.len) names_add(chk, "src_slice_changed", call);
  if (!(after->meta.ri <= after->meta.wi && after->meta.wi <= after->data.len)) {
    names_add(chk, "src_index_order", call);
    return;
  }
  if (after->meta.ri < before->meta.ri) names_add(chk, "src_ri_back", call);
  if (after->meta.wi != before->meta.wi) names_add(chk, "src_wi_moved", call);
  if (after->meta.pos != before->meta.pos) names_add(chk, "src_pos_changed", call);
  if (after->meta.closed != before->meta.closed) names_add(chk, "src_closed_changed", call);
  if (before->data.len && before->data.ptr == after->data.ptr &&
      memcmp(snap, after->data.ptr, before->data.len) != 0)
    names_add(chk, "src_bytes_changed", call);
}
// returns true when bytes beyond the new wi were modified (reported, not an error)
static bool check_writer(namelist* chk, long call, const wuffs_base__io_buffer* before,
                         const wuffs_base__io_buffer* after, const uint8_t* snap, bool snap_valid) {
  if (after->data.ptr != before->data.ptr || after->data.len != before->data.len) names_add(chk, "dst_slice_changed", call);
  if (!(after->meta.ri <= after->meta.wi && after->meta.wi <= after->data.len)) {
    names_add(chk, "dst_index_order", call);
    return false;
  }
  if (after->meta.wi < before->meta.wi) names_add(chk, "dst_wi_back", call);
  if (after->meta.ri != before->meta.ri) names_add(chk, "dst_ri_moved", call);
  if (after->meta.pos != before->meta.pos) names_add(chk, "dst_pos_changed", call);
  if (after->meta.closed != before->meta.closed) names_add(chk, "dst_closed_changed", call);
  if (after->data.ptr != before->data.ptr) return false;
  if (before->meta.wi && memcmp(snap, after->data.ptr, before->meta.wi) != 0) names_add(chk, "dst_history_changed", call);
  if (snap_valid && after->meta.wi < after->data.len &&
      memcmp(snap + after->meta.wi, after->data.ptr + after->meta.wi, after->data.len - after->meta.wi) != 0)
    return true;
  return false;
}

// ---- object memory
typedef struct {
  const codec* c;
  uint8_t* mem;
  size_t size;
} object;

static void object_alloc(object* o, const codec* c) {
  o->c = c;
  o->size = c->size_of();
  o->mem = xalloc(o->size);
}
static void object_free(object* o) {
  free(o->mem);
  o->mem = NULL;
}
static wuffs_base__status object_init(object* o, uint32_t flags) {
  wuffs_base__status s;
  LIB(s = o->c->init(o->mem, o->size, WUFFS_VERSION, flags));
  return s;
}
