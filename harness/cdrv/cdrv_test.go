package cdrv

import (
	"bytes"
	"compress/zlib"
	"encoding/hex"
	"os"
	"strings"
	"testing"
	"time"
)

func repoDir() string {
	if s := os.Getenv("VERIF_REPO"); s != "" {
		return s
	}
	return "/repo"
}

func TestDriver(t *testing.T) {
	defer Cleanup()
	fls := []Flavour{AsanUbsan, PlainGcc, NoArch}
	t0 := time.Now()
	ds, errs := BuildAll(repoDir(), fls...)
	for f, e := range errs {
		t.Fatalf("build %s: %v", f, e)
	}
	t.Logf("all flavours built in %v", time.Since(t0))
	var zb bytes.Buffer
	zw := zlib.NewWriter(&zb)
	payload := bytes.Repeat([]byte("hello wuffs "), 1000)
	zw.Write(payload)
	zw.Close()
	for _, f := range fls {
		d := ds[f]
		t.Logf("%s: gen %v build %v", f, d.GenTime, d.BuildTime)
		line, err := d.Run("run zlib src=1 dst=3 digest=1 " + hex.EncodeToString(zb.Bytes()))
		if err != nil {
			t.Fatal(err)
		}
		r, err := ParseResult(line)
		if err != nil || r.Status != "ok" || r.OutLen != len(payload) || r.OutDigest != FNV64(payload) || len(r.Checks) != 0 {
			t.Fatalf("%s: unexpected %v %s", f, err, line[:200])
		}
		if f != AsanUbsan && r.Allocs != 0 {
			t.Fatalf("%s: allocs=%d", f, r.Allocs)
		}
		if l, _ := d.Run("run zlib nonsense=1 00"); !strings.HasPrefix(l, "bad-op") {
			t.Fatalf("want bad-op, got %s", l)
		}
	}
	// crash handling
	d := ds[AsanUbsan]
	_, err := d.Run("selftest overflow")
	ce, ok := err.(*CrashError)
	if !ok || ce.Kind() != "asan:heap-buffer-overflow" || ce.Cmd != "selftest overflow" {
		t.Fatalf("want asan crash, got %v", err)
	}
	if l, err := d.Run("ping"); err != nil || l != "ok pong" {
		t.Fatalf("no restart: %v %s", err, l)
	}
	d2 := ds[PlainGcc].Spawn()
	d2.Timeout = 2 * time.Second
	_, err = d2.Run("selftest hang")
	if ce, ok := err.(*CrashError); !ok || !ce.Timeout {
		t.Fatalf("want timeout, got %v", err)
	}
	if l, _ := d2.Run("selftest alloc"); l != "ok lib_allocs=2" {
		t.Fatalf("alloc counting: %s", l)
	}
	d2.Close()
	for _, f := range fls {
		ds[f].Close()
	}
}
