#!/bin/bash
# usage: tools/confirm_seeded.sh <seeded-name> <scratch-worktree>
# Confirms, in a scratch worktree of /repo (never /repo itself): demo passes without the patch,
# fails with it, and the existing test suite still passes with it. Appends the result to meta.json.
export GOFLAGS=-mod=mod GOPROXY=off GOSUMDB=off GOTOOLCHAIN=local
n=$1; wt=$2; d=/verif/seeded/$n
git -C $wt checkout -q -- . ; git -C $wt clean -fdq
sh $d/demo/run.sh $wt >/tmp/confirm.$$.a 2>&1; a=$?
git -C $wt apply $d/patch.diff || { echo "patch does not apply"; exit 2; }
sh $d/demo/run.sh $wt >/tmp/confirm.$$.b 2>&1; b=$?
(cd $wt && go build ./... && go test -vet=off -count=1 ./... 2>&1 | grep -v "no test files" > /tmp/confirm.$$.t); 
fails=$(grep -c -E "^(FAIL|---)" /tmp/confirm.$$.t)
git -C $wt checkout -q -- . ; git -C $wt clean -fdq
echo "$n: demo without patch rc=$a (want 0); with patch rc=$b (want !=0); test-suite FAIL lines with patch: $fails (want 0)"
python3 - "$d/meta.json" "$a" "$b" "$fails" <<'PY'
import json,sys
p,a,b,f=sys.argv[1],int(sys.argv[2]),int(sys.argv[3]),int(sys.argv[4])
m=json.load(open(p))
m["confirmed_by_coordinator"]={"demo_rc_without_patch":a,"demo_rc_with_patch":b,"test_suite_fail_lines_with_patch":f,
 "how":"tools/confirm_seeded.sh in a scratch worktree: demo/run.sh before and after `git apply patch.diff`, then `go build ./... && go test -vet=off -count=1 ./...`"}
json.dump(m,open(p,"w"),indent=1)
PY
rm -f /tmp/confirm.$$.*
