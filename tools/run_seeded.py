#!/usr/bin/env python3
"""Applies each /verif/seeded/<name>/patch.diff to /repo, runs the property's check, reverts.
usage: tools/run_seeded.py [name…]   (default: all).  Writes seeded/RESULTS.md."""
import json, os, subprocess, sys, time
V = "/verif"
names = sys.argv[1:] or sorted(d for d in os.listdir(V + "/seeded") if os.path.isdir(V + "/seeded/" + d))
rows = []
for n in names:
    d = os.path.join(V, "seeded", n)
    meta = json.load(open(os.path.join(d, "meta.json")))
    pid = meta["property"]
    if subprocess.run(["git", "-C", "/repo", "diff", "--quiet"]).returncode != 0:
        print("refusing: /repo has uncommitted changes"); sys.exit(2)
    r = subprocess.run(["git", "-C", "/repo", "apply", os.path.join(d, "patch.diff")], capture_output=True, text=True)
    if r.returncode != 0:
        rows.append((n, pid, "PATCH-DOES-NOT-APPLY", r.stderr.strip()[:200])); continue
    t0 = time.time()
    try:
        checks = meta.get("checks", [pid])
        verdicts = []
        for c in checks:
            p = subprocess.run(["./check", c, "--tier", meta.get("tier", "quick")], cwd=V, capture_output=True, text=True)
            line = next((l for l in p.stdout.splitlines() if l.startswith("VIOLATION")), "")
            verdicts.append("%s:%s" % (c, "CAUGHT" + (" (no-failing-input-found)" if "no-failing-input" in line else "") if p.returncode == 1 and line else "MISSED rc=%d" % p.returncode))
        rows.append((n, pid, "; ".join(verdicts), "%.0fs" % (time.time() - t0)))
    finally:
        subprocess.run(["git", "-C", "/repo", "checkout", "--", "."])
    print(rows[-1], flush=True)
with open(V + "/seeded/RESULTS.md", "w") as f:
    f.write("| seeded change | property | verdict of ./check on /repo with the change applied | time |\n|---|---|---|---|\n")
    for r in rows:
        f.write("| %s | %s | %s | %s |\n" % r)
