#!/usr/bin/env python3
"""Runs the property's check against each /verif/seeded/<name>/patch.diff.

usage: tools/run_seeded.py [--inplace] [--tier T] [name…]   (default: all)

Default mode: the patch is applied to a scratch copy of /repo's working tree under
/var/tmp and the check runs in alternative-tree mode (VERIF_REPO=<copy>), so /repo is
never touched and other work can go on.  --inplace: `git -C /repo apply`, run the
registered command, `git -C /repo checkout -- .` (the way the checks are used for real;
refuses when /repo has uncommitted changes).  Results are merged into seeded/RESULTS.json
and rendered to seeded/RESULTS.md."""
import json, os, shutil, subprocess, sys, time
V = "/verif"
args = sys.argv[1:]
inplace = "--inplace" in args
args = [a for a in args if a != "--inplace"]
tier = None
if "--tier" in args:
    i = args.index("--tier"); tier = args[i + 1]; del args[i:i + 2]
names = args or sorted(d for d in os.listdir(V + "/seeded") if os.path.isdir(V + "/seeded/" + d))
res_path = V + "/seeded/RESULTS.json"
results = json.load(open(res_path)) if os.path.exists(res_path) else {}


def head():
    return subprocess.run(["git", "-C", "/repo", "rev-parse", "--short", "HEAD"], capture_output=True, text=True).stdout.strip()


for n in names:
    d = os.path.join(V, "seeded", n)
    meta = json.load(open(os.path.join(d, "meta.json")))
    pid = meta["property"]
    t = tier or meta.get("tier", "quick")
    env = dict(os.environ)
    copy = None
    if inplace:
        if subprocess.run(["git", "-C", "/repo", "diff", "--quiet"]).returncode != 0:
            print("refusing: /repo has uncommitted changes"); sys.exit(2)
        r = subprocess.run(["git", "-C", "/repo", "apply", os.path.join(d, "patch.diff")], capture_output=True, text=True)
    else:
        copy = "/var/tmp/wv-seeded-" + n
        shutil.rmtree(copy, ignore_errors=True)
        os.makedirs(copy)
        subprocess.run(["rsync", "-a", "--exclude", ".git", "--exclude", "test/3pdata", "--exclude", "/gen", "/repo/", copy + "/"], check=True)
        r = subprocess.run(["patch", "-p1", "-s", "-i", os.path.join(d, "patch.diff")], cwd=copy, capture_output=True, text=True)
        env["VERIF_REPO"] = copy
    if r.returncode != 0:
        results[n] = {"property": pid, "verdict": "PATCH-DOES-NOT-APPLY", "detail": (r.stderr + r.stdout).strip()[:300], "repo": head()}
        if copy:
            shutil.rmtree(copy, ignore_errors=True)
        print(n, results[n]); continue
    t0 = time.time()
    try:
        verdicts = []
        for c in meta.get("checks", [pid]):
            p = subprocess.run(["./check", c, "--tier", t], cwd=V, capture_output=True, text=True, env=env)
            line = next((l for l in p.stdout.splitlines() if l.startswith("VIOLATION")), "")
            last = p.stdout.strip().splitlines()[-1] if p.stdout.strip() else ""
            replay = ""
            if line:
                rp = line.split("replay=")[1].split()[0]
                try:
                    txt = open(rp).read()
                    replay = "\n".join(txt.splitlines()[:6])[:600]
                except OSError:
                    pass
            if p.returncode == 1 and line:
                v = "CAUGHT (no-failing-input-found)" if "no-failing-input" in line else "CAUGHT (failing input)"
            elif meta.get("obsolete") and p.returncode == 0:
                v = "NO ALARM (correct: the change is harmless on the current tree, see meta.json)"
            else:
                v = "MISSED rc=%d" % p.returncode
            verdicts.append({"check": c, "verdict": v, "summary": last, "replay_head": replay})
        results[n] = {"property": pid, "tier": t, "mode": "inplace" if inplace else "alt-copy", "repo": head(),
                      "verdicts": verdicts, "wall_s": round(time.time() - t0)}
    finally:
        if inplace:
            subprocess.run(["git", "-C", "/repo", "checkout", "--", "."])
        else:
            shutil.rmtree(copy, ignore_errors=True)
    print(n, [(x["check"], x["verdict"]) for x in results[n]["verdicts"]], flush=True)
    # merge under a lock and a re-read (several instances may run in parallel for different names)
    import fcntl
    lockf = open(V + "/seeded/.results.lock", "w")
    fcntl.flock(lockf, fcntl.LOCK_EX)
    cur = json.load(open(res_path)) if os.path.exists(res_path) else {}
    cur[n] = results[n]
    json.dump(cur, open(res_path, "w"), indent=1, sort_keys=True)
    with open(V + "/seeded/RESULTS.md", "w") as f:
        f.write("| seeded change | property | tier | verdict of ./check with the change applied | time | /repo at |\n|---|---|---|---|---|---|\n")
        for k in sorted(cur):
            x = cur[k]
            if "verdicts" in x:
                f.write("| %s | %s | %s | %s | %ss | %s |\n" % (k, x["property"], x.get("tier"), "; ".join("%s: %s" % (y["check"], y["verdict"]) for y in x["verdicts"]), x.get("wall_s"), x.get("repo")))
            else:
                f.write("| %s | %s | | %s | | %s |\n" % (k, x["property"], x["verdict"], x.get("repo")))
    lockf.close()
