#!/bin/bash
# usage: tools/final_sweep.sh  — every check, quick tier, seeds 3, 2, 1 (seed 1 last so that the committed evidence is the
# seed-1 run), four streams of properties in parallel. Output: work/final-<stream>.log
cd /verif
run() { for id in "$@"; do for s in 3 2 1; do VERIF_SEED=$s ./check $id 2>&1 | grep -E "^(PASS|FAIL|VIOLATION|KNOWN)" | cut -c1-220 | sed "s/^/[seed $s] /"; done; done; }
run C01 C05 C09 C13 C17 > work/final-1.log 2>&1 &
run C02 C06 C10 C14 C18 > work/final-2.log 2>&1 &
run C03 C07 C11 C15 C19 > work/final-3.log 2>&1 &
run C04 C08 C12 C16 C20 > work/final-4.log 2>&1 &
wait
