#!/bin/bash
# every seeded change against its property's check (alternative-tree mode), seven streams in parallel
cd /verif
run() { for p in "$@"; do tools/run_seeded.py $p-m1 $p-m2 $p-m3; done; }
run C01 C08 C15 > work/fseed-1.log 2>&1 &
run C02 C09 C16 > work/fseed-2.log 2>&1 &
run C03 C10 C17 > work/fseed-3.log 2>&1 &
run C04 C11 C18 > work/fseed-4.log 2>&1 &
run C05 C12 C19 > work/fseed-5.log 2>&1 &
run C06 C13 C20 > work/fseed-6.log 2>&1 &
run C07 C14 > work/fseed-7.log 2>&1 &
wait
