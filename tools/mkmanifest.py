#!/usr/bin/env python3
"""Regenerates /verif/MANIFEST.json from checks/*.json (+ tools/manifest_base.json)."""
import json, os, re
V = os.path.dirname(os.path.dirname(os.path.abspath(__file__)))
base = json.load(open(os.path.join(V, "tools", "manifest_base.json")))
props = [json.loads(l) for l in open(os.path.join(V, "properties.jsonl")) if l.strip()]
checks, na = [], []
for p in props:
    pid = p["id"]
    cp = os.path.join(V, "checks", pid + ".json")
    if not os.path.exists(cp) or json.load(open(cp)).get("disabled"):
        reason = base["not_applicable_reasons"].get(pid, "no check registered yet for this property (machinery under construction); nothing is claimed")
        if os.path.exists(cp):
            reason = json.load(open(cp)).get("disabled_reason", reason)
        na.append({"property_id": pid, "reason": reason})
        continue
    c = json.load(open(cp))
    m = c.get("manifest", {})
    checks.append({
        "property_id": pid,
        "quick_cmd": "./check %s --tier quick" % pid,
        "thorough_cmd": "./check %s --tier thorough" % pid,
        "evidence_file": "/verif/evidence/%s.json" % pid,
        "replay_cmd_template": "./check %s --replay {path}" % pid,
        "engine": "lean4+wvh",
        "level_claimed": {
            "category": m.get("category", "proof"),
            "text": m.get("level_text", ""),
            "design_ref": m.get("design_ref", "DESIGN.md §2 " + pid),
        },
        "level_note": m.get("level_note", "; ".join(c.get("trusted_base", []))),
        "technique": m.get("technique", "Lean 4 theorems over an executable model + differential correspondence with the Go/C implementation"),
    })
import subprocess
hook_commits = subprocess.run(["git", "-C", "/repo", "log", "--format=%H %s", "--reverse", "-i", "--grep=^verif hook"],
                              capture_output=True, text=True).stdout.strip().splitlines()
if hook_commits:
    base["hooks"]["source_commits"] = [l.split()[0] for l in hook_commits]
man = {
    "version": 1,
    "setup_cmd": "cd /verif && ./check --setup",
    "hooks": base["hooks"],
    "engines": base["engines"],
    "checks": checks,
    "notes": base["notes"],
    "not_applicable": na,
}
json.dump(man, open(os.path.join(V, "MANIFEST.json"), "w"), indent=1, ensure_ascii=False)
print("MANIFEST.json: %d checks, %d not_applicable" % (len(checks), len(na)))
