#!/bin/bash
# Commits modified or new hook files (verif_export_c*.go with the verif build tag) in /repo, one commit.
exec 9>/var/tmp/wv-repo-git.lock; flock 9   # one git writer in /repo at a time
cd /repo || exit 1
export GOFLAGS=-mod=mod GOPROXY=off GOSUMDB=off GOTOOLCHAIN=local
files=$(git status --porcelain | awk '{print $2}' | grep -E 'verif_export_c[0-9][0-9].*\.go$')
[ -z "$files" ] && { echo "no hook changes"; exit 0; }
for f in $files; do head -1 "$f" | grep -q '^//go:build verif' || { echo "no build tag: $f"; exit 1; }; done
go build ./... && go build -tags verif ./... || { echo "build fails; not committing"; exit 1; }
git add $files && git commit -q -m "verif hooks: updated exports for $(echo $files | tr ' ' '\n' | sed -E 's/.*verif_export_(c[0-9][0-9]).*/\1/' | tr a-z A-Z | sort -u | tr '\n' ' ')(build tag verif)" && echo "committed: $files"
