#!/bin/bash
# usage: tools/import_mutants.sh Cxx   — imports /tmp/mut/out-Cxx/{1,2,3} as seeded/Cxx-m{n}, confirms each in the
# agent's scratch worktree /tmp/mut/wt-Cxx, then removes the worktree.
p=$1; wt=/tmp/mut/wt-$p
k=$(ls -d /verif/seeded/$p-m* 2>/dev/null | wc -l)
for i in $(ls /tmp/mut/out-$p | sort -n); do
  [ -f /tmp/mut/out-$p/$i/patch.diff ] || continue
  k=$((k+1)); n=$p-m$k
  mkdir -p /verif/seeded/$n
  cp -r /tmp/mut/out-$p/$i/. /verif/seeded/$n/
  /verif/tools/confirm_seeded.sh $n $wt
done
git -C /repo worktree remove --force $wt
rm -rf /tmp/mut/out-$p
