#!/bin/bash
# usage: tools/sweep.sh [tier] [seeds...]   — runs every registered check on the current /repo tree
cd /verif
tier=${1:-quick}; shift
seeds=${@:-1}
for s in $seeds; do
  for f in checks/C*.json; do
    id=$(basename $f .json)
    grep -q '"disabled": *true' $f && continue
    out=$(VERIF_SEED=$s ./check $id --tier $tier 2>&1 | tail -3)
    echo "seed=$s $out" | grep -E "PASS|FAIL|VIOLATION|KNOWN" | sed "s/^/[$id] /"
  done
done
