#!/bin/bash
# Commits NEW untracked hook files in /repo (verif_export_*.go starting with //go:build verif), one commit per property.
exec 9>/var/tmp/wv-repo-git.lock; flock 9   # one git writer in /repo at a time
cd /repo || exit 1
export GOFLAGS=-mod=mod GOPROXY=off GOSUMDB=off GOTOOLCHAIN=local
git status --porcelain | grep '^?? ' | cut -c4- | while read f; do
  files=$f
  if [ -d "$f" ]; then files=$(find "$f" -type f); fi
  for g in $files; do
    case "$g" in *verif_export_c[0-9][0-9]*.go) ;; *) echo "skip (not a hook file): $g"; continue;; esac
    head -1 "$g" | grep -q '^//go:build verif' || { echo "skip (no build tag): $g"; continue; }
    id=$(echo "$g" | sed -E 's/.*verif_export_(c[0-9][0-9]).*/\1/' | tr a-z A-Z)
    pkg=$(dirname "$g")
    (go build ./... && go vet -tags verif ./$pkg >/dev/null 2>&1; go build -tags verif ./$pkg) || { echo "build failed with $g"; continue; }
    git add "$g" && git commit -q -m "verif hook: $pkg exports for the $id check (build tag verif)" && echo "committed $g"
  done
done
git status --short | head
