#!/bin/bash
cd /verif
run() { for id in "$@"; do VERIF_SEED=1 ./check $id 2>&1 | grep -E "^(PASS|FAIL|VIOLATION)" | cut -c1-200; done; }
run C01 C05 C09 C13 C17 > work/fq-1.log 2>&1 &
run C02 C06 C10 C14 C18 > work/fq-2.log 2>&1 &
run C03 C07 C11 C15 C19 > work/fq-3.log 2>&1 &
run C04 C08 C12 C16 C20 > work/fq-4.log 2>&1 &
wait
