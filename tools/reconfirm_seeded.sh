#!/bin/bash
# usage: tools/reconfirm_seeded.sh <name>…  — re-checks on /repo's CURRENT HEAD (scratch worktree) that each seeded
# change still applies and that its demonstration still fails with it (a later fix: commit can make a seeded change
# harmless). Writes the outcome into meta.json ("reconfirmed_at_head").
export GOFLAGS=-mod=mod GOPROXY=off GOSUMDB=off GOTOOLCHAIN=local
head=$(git -C /repo rev-parse --short HEAD)
for n in "$@"; do
  d=/verif/seeded/$n; wt=/tmp/mut/rc-$n
  git -C /repo worktree add -q --detach $wt HEAD || continue
  if git -C $wt apply $d/patch.diff 2>/dev/null; then
    timeout 1800 sh $d/demo/run.sh $wt > /tmp/mut/rc-$n.log 2>&1; rc=$?
    if [ $rc -ne 0 ]; then v="still-breaks (demo rc=$rc with the patch)"; else v="HARMLESS-NOW (demo passes with the patch)"; fi
  else v="PATCH-NO-LONGER-APPLIES"; fi
  git -C /repo worktree remove --force $wt; rm -f /tmp/mut/rc-$n.log
  echo "$n $v"
  python3 - "$d/meta.json" "$head" "$v" <<'PY'
import json,sys
p,h,v=sys.argv[1:]
m=json.load(open(p)); m["reconfirmed_at_head"]={"repo_head":h,"outcome":v}
json.dump(m,open(p,"w"),indent=1)
PY
done
