#!/bin/bash
# usage: tools/commit_fix.sh <patch-name-without-.patch> "<commit message starting with fix:>" [go packages to test…]
# Creates ONE "fix:" commit in /repo from /verif/fixes/<name>.patch WITHOUT touching /repo's working tree
# (builder agents are editing it): the commit is made in a detached scratch worktree (snapshot regenerated there
# when the compiler or std changed), then /repo's branch and index are moved to it.
exec 9>/var/tmp/wv-repo-git.lock; flock 9   # one git writer in /repo at a time
set -e
export GOFLAGS=-mod=mod GOPROXY=off GOSUMDB=off GOTOOLCHAIN=local
name=$1; msg=$2; shift 2
wt=/var/tmp/wv-commit.$$
git -C /repo worktree add -q --detach $wt HEAD
trap 'git -C /repo worktree remove --force $wt 2>/dev/null || true' EXIT
cd $wt
git apply /verif/fixes/$name.patch
if git status --porcelain | grep -qE 'internal/cgen|lang/|std/'; then
  git checkout -q -- release/c/wuffs-unsupported-snapshot.c 2>/dev/null || true
  /verif/tools/regen_snapshot.sh $wt
fi
go build ./...
go build -tags verif ./...
if [ $# -gt 0 ]; then go test -count=1 "$@" 2>&1 | tail -5; fi
git add -A
git commit -q -m "$msg"
new=$(git rev-parse HEAD)
cd /repo
git reset -q --soft $new
git reset -q
# the generated snapshot in the working tree is never an agent's own edit: bring it to the new HEAD
git checkout -q -- release/c/wuffs-unsupported-snapshot.c
echo "committed $name as $(git rev-parse --short HEAD)"
git status --short | head
