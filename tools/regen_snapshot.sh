#!/bin/bash
# Regenerate release/c/wuffs-unsupported-snapshot.c from /repo's working tree
# (in a scratch copy; `wuffs gen` writes into its root) and copy it back when it
# differs. Used when a "fix:" commit touches internal/cgen or std/.
set -e
export GOFLAGS=-mod=mod GOPROXY=off GOSUMDB=off GOTOOLCHAIN=local
REPO=${1:-/repo}
S=$(mktemp -d /var/tmp/wv-regen.XXXXXX)
trap 'rm -rf "$S"' EXIT
mkdir -p "$S/bin" "$S/repo"
(cd "$REPO" && go build -o "$S/bin/wuffs" ./cmd/wuffs && go build -o "$S/bin/wuffs-c" ./cmd/wuffs-c)
rsync -a --exclude .git --exclude test/3pdata --exclude /gen "$REPO/" "$S/repo/"
(cd "$S/repo" && PATH="$S/bin:$PATH" "$S/bin/wuffs" gen >/dev/null)
if cmp -s "$S/repo/release/c/wuffs-unsupported-snapshot.c" "$REPO/release/c/wuffs-unsupported-snapshot.c"; then
  echo "snapshot unchanged"
else
  cp "$S/repo/release/c/wuffs-unsupported-snapshot.c" "$REPO/release/c/wuffs-unsupported-snapshot.c"
  echo "snapshot UPDATED"
fi
