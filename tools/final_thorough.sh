#!/bin/bash
cd /verif
run() { for id in "$@"; do ./check $id --tier thorough 2>&1 | grep -E "^(PASS|FAIL|VIOLATION)" | cut -c1-220; done; }
run C08 C01 C13 C18 C20 > work/fthor-1.log 2>&1 &
run C07 C15 C17 C06 C11 > work/fthor-2.log 2>&1 &
run C05 C10 C12 C14 > work/fthor-3.log 2>&1 &
run C09 C16 C19 C04 > work/fthor-4.log 2>&1 &
run C03 C02 > work/fthor-5.log 2>&1 &
wait
