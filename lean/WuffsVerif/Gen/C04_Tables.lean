/- GENERATED on every run by `wvh_c04 -mode gen` from /repo/internal/cgen/expr.go
   (cOpNames, cTypeNames, through internal/cgen/verif_export_c04.go).  Do not edit. -/
import WuffsVerif.Model.CSyntax

namespace WuffsVerif.Gen.C04
open WuffsVerif.WOps WuffsVerif.C

/-- cOpNames[t.IDXBinary…]: the C infix operator of a binary operator -/
def cBinOf : WOp → Option CBin
  | .add => some CBin.add  -- " + "
  | .sub => some CBin.sub  -- " - "
  | .mul => some CBin.mul  -- " * "
  | .div => some CBin.div  -- " / "
  | .shl => some CBin.shl  -- " << "
  | .shr => some CBin.shr  -- " >> "
  | .band => some CBin.band  -- " & "
  | .bor => some CBin.bor  -- " | "
  | .bxor => some CBin.bxor  -- " ^ "
  | .rem => some CBin.rem  -- " % "
  | .modAdd => some CBin.add  -- " + "
  | .modSub => some CBin.sub  -- " - "
  | .modMul => some CBin.mul  -- " * "
  | .modShl => some CBin.shl  -- " << "
  | .satAdd => none  -- noSuchCOperator
  | .satSub => none  -- noSuchCOperator
  | .ne => some CBin.ne  -- " != "
  | .lt => some CBin.lt  -- " < "
  | .le => some CBin.le  -- " <= "
  | .eq => some CBin.eq  -- " == "
  | .ge => some CBin.ge  -- " >= "
  | .gt => some CBin.gt  -- " > "
  | .land => some CBin.land  -- " && "
  | .lor => some CBin.lor  -- " || "

/-- cOpNames[t.ID…Eq]: the C compound-assignment operator (without its `=`) -/
def cAssignOf : WOp → Option CBin
  | .add => some CBin.add  -- " += "
  | .sub => some CBin.sub  -- " -= "
  | .mul => some CBin.mul  -- " *= "
  | .div => some CBin.div  -- " /= "
  | .shl => some CBin.shl  -- " <<= "
  | .shr => some CBin.shr  -- " >>= "
  | .band => some CBin.band  -- " &= "
  | .bor => some CBin.bor  -- " |= "
  | .bxor => some CBin.bxor  -- " ^= "
  | .rem => some CBin.rem  -- " %= "
  | .modAdd => some CBin.add  -- " += "
  | .modSub => some CBin.sub  -- " -= "
  | .modMul => some CBin.mul  -- " *= "
  | .modShl => some CBin.shl  -- " <<= "
  | .satAdd => none  -- noSuchCOperator
  | .satSub => none  -- noSuchCOperator
  | .ne => none  -- (no such Wuffs operator)
  | .lt => none  -- (no such Wuffs operator)
  | .le => none  -- (no such Wuffs operator)
  | .eq => none  -- (no such Wuffs operator)
  | .ge => none  -- (no such Wuffs operator)
  | .gt => none  -- (no such Wuffs operator)
  | .land => none  -- (no such Wuffs operator)
  | .lor => none  -- (no such Wuffs operator)

/-- cOpNames[t.IDXAssociative…] -/
def cAssocOf : WOp → Option CBin
  | .add => some CBin.add  -- " + "
  | .sub => none  -- (no such Wuffs operator)
  | .mul => some CBin.mul  -- " * "
  | .div => none  -- (no such Wuffs operator)
  | .shl => none  -- (no such Wuffs operator)
  | .shr => none  -- (no such Wuffs operator)
  | .band => some CBin.band  -- " & "
  | .bor => some CBin.bor  -- " | "
  | .bxor => some CBin.bxor  -- " ^ "
  | .rem => none  -- (no such Wuffs operator)
  | .modAdd => none  -- (no such Wuffs operator)
  | .modSub => none  -- (no such Wuffs operator)
  | .modMul => none  -- (no such Wuffs operator)
  | .modShl => none  -- (no such Wuffs operator)
  | .satAdd => none  -- (no such Wuffs operator)
  | .satSub => none  -- (no such Wuffs operator)
  | .ne => none  -- (no such Wuffs operator)
  | .lt => none  -- (no such Wuffs operator)
  | .le => none  -- (no such Wuffs operator)
  | .eq => none  -- (no such Wuffs operator)
  | .ge => none  -- (no such Wuffs operator)
  | .gt => none  -- (no such Wuffs operator)
  | .land => some CBin.land  -- " && "
  | .lor => some CBin.lor  -- " || "

/-- cOpNames[t.IDXUnary…] -/
def cUnOf : WUn → Option CUn
  | .pos => some CUn.pos
  | .neg => some CUn.neg
  | .lnot => some CUn.lnot

/-- cTypeNames -/
def cTypeOf : WTy → Option CTy
  | .u8 => some CTy.u8
  | .u16 => some CTy.u16
  | .u32 => some CTy.u32
  | .u64 => some CTy.u64

end WuffsVerif.Gen.C04
