/-
C17 — tie obligations over the REGENERATED facts of lib/litonlylzma/litonlylzma.go (`Gen/C17_GoFacts.lean`,
rewritten from the working tree by `wvh_c17 -mode gen` on every `./check C17`).

`consts_match`: the constants of the hand-written model (`Model/Lzma.lean`) are the constants of the Go
package (values computed by go/types), including the two header strings byte for byte.

`skeleton_*`: the values of all constant leaves (literals and named constants, evaluated) and the operator
tokens of every function the model mirrors are the ones the model was written against.  These say nothing
about behaviour by themselves; they are change detectors: when a threshold (`0xFF00_0000`, `1 << 24`,
`0x10000`, `63`, `0x80`, the 5 flush rounds …) or a comparison (`<` vs `<=`, `>=` vs `>`) of the anchored
code changes, the theorem stops checking and the model — and with it every theorem of `Props/C17.lean` —
has to be re-validated against the new code, whether or not the generators find a failing input.
-/
import WuffsVerif.Model.Lzma
import WuffsVerif.Gen.C17_GoFacts

namespace WuffsVerif.Props.C17Gen
open WuffsVerif WuffsVerif.Gen.C17

/-- the model's constants are the package's constants -/
theorem consts_match :
    Lzma.lc = c_lc ∧ Lzma.lp = c_lp ∧ Lzma.pb = c_pb ∧ Lzma.lpMask = c_lpMask ∧ Lzma.pbMask = c_pbMask ∧
    Lzma.probBits = c_probBits ∧ Lzma.minProb = c_minProb ∧ Lzma.maxProb = c_maxProb ∧
    Lzma.adaptShift = c_adaptShift ∧ Lzma.probHalf = 1 <<< (c_probBits - 1) ∧
    Lzma.lzmaHeader5 = c_lzmaHeader5 ∧ Lzma.xzHeader24 = c_xzHeader24 := by
  decide

/-- the file has exactly the functions the model mirrors (a new or removed function needs a look) -/
theorem functions_match : functions = ["rangeEncoder_shiftLow", "setProbsToOneHalf", "prob_decodeBit", "prob_encodeBit", "byteProbs_decodeByte", "byteProbs_encodeByte", "FileFormat_String", "FileFormat_Decode", "decodeLZMA", "decodeXz", "decodeRaw", "decodeUvarint", "FileFormat_Encode", "encodeLZMA", "encodeXz", "encodeRaw", "encodeUvarint"] := rfl

theorem skeleton_rangeEncoder_shiftLow :
    lits_rangeEncoder_shiftLow = [4278190080, 0, 0, 255, 24, 0, 8, 4294967295, 4294967296, 8, 4294967295, 1, 0, 0, 24, 0, 8, 4294967295] ∧
    ops_rangeEncoder_shiftLow = ["<", "+", ">", "--", ">>", "&", "<<", "<", "++", "&", "<<", "+", ">", "--", ">>", "&", "<<"] := ⟨rfl, rfl⟩

theorem skeleton_setProbsToOneHalf :
    lits_setProbsToOneHalf = [1, 11, 1] ∧
    ops_setProbsToOneHalf = ["<<", "-"] := ⟨rfl, rfl⟩

theorem skeleton_prob_decodeBit :
    lits_prob_decodeBit = [11, 0, 2048, 5, 1, 0, 5, 1, 24, 0, 0, 8, 0, 8, 1] ∧
    ops_prob_decodeBit = ["*", ">>", "<", "+=", ">>", "-", "-=", "-=", "-=", ">>", "-", "<", "<<", "<=", "|", "<<", "<<="] := ⟨rfl, rfl⟩

theorem skeleton_prob_encodeBit :
    lits_prob_encodeBit = [11, 0, 2048, 5, 0, 5, 1, 24, 8] ∧
    ops_prob_encodeBit = ["*", ">>", "==", "+=", ">>", "-", "+=", "-=", "-=", ">>", "-", "<", "<<", "<<="] := ⟨rfl, rfl⟩

theorem skeleton_byteProbs_decodeByte :
    lits_byteProbs_decodeByte = [1, 256, 0, 1] ∧
    ops_byteProbs_decodeByte = ["<", "!=", "|", "<<"] := ⟨rfl, rfl⟩

theorem skeleton_byteProbs_encodeByte :
    lits_byteProbs_encodeByte = [1, 7, 0, 1, 1] ∧
    ops_byteProbs_encodeByte = [">=", "--", "&", ">>", "|", "<<"] := ⟨rfl, rfl⟩

theorem skeleton_FileFormat_Decode :
    lits_FileFormat_Decode = [1, 2] ∧
    ops_FileFormat_Decode = [] := ⟨rfl, rfl⟩

theorem skeleton_decodeLZMA :
    lits_decodeLZMA = [18, 0, 9, 5, 5, 5, 0, 0, 8, 5, 8, 1, 1, 13] ∧
    ops_decodeLZMA = ["||", "<", ">=", "*", "*", "!=", "<", "++", "|=", "<<", "+", "*", "<", "u-", "==", "u-"] := ⟨rfl, rfl⟩

theorem skeleton_decodeXz :
    lits_decodeXz = [24, 6, 6, 6, 24, 6, 24, 24, 0, 0, 0, 1, 0, 1, 3, 1, 8, 2, 0, 1, 3, 0, 224, 6, 5, 93, 1, 8, 2, 0, 1, 3, 8, 4, 0, 1, 6, 12, 4, 3, 3, 0, 0, 0, 0, 1, 4, 0, 0, 1, 8, 2, 16, 3, 24, 4, 2, 0, 0, 1, 1, 2, 3, 3, 0, 0, 0, 0, 1, 2, 4, 0, 0, 1, 8, 2, 16, 3, 24, 4, 12, 4, 10, 0, 0, 1, 8, 2, 16, 3, 24, 4, 0, 5, 8, 6, 16, 7, 24, 8, 6, 9, 7, 10, 89, 11, 90, 12] ∧
    ops_decodeXz = ["||", "<", "!=", "!=", "==", "==", "==", "<", "+", "+", "<<", "<<", ">", "==", "<", "!=", "+", "+", "<<", "<<", "+", "+", "<<", "<<", ">", "!=", "!=", "+", "+", "-", "-", "&", "!=", "&", "++", "||", "==", "!=", "<", "||", "||", "||", "!=", ">>", "!=", ">>", "!=", ">>", "!=", ">>", "||", "||", "<", "!=", "!=", "||", "u!", "!=", "||", "u!", "!=", "-", "&", "-", "!=", "&", "++", "||", "==", "!=", ">>", "-", "<", "-", "||", "||", "||", "!=", ">>", "!=", ">>", "!=", ">>", "!=", ">>", "<", "||", "||", "||", "||", "||", "||", "||", "||", "||", "||", "||", "!=", ">>", "!=", ">>", "!=", ">>", "!=", ">>", "!=", ">>", "!=", ">>", "!=", ">>", "!=", ">>", "!=", "!=", "!=", "!="] := ⟨rfl, rfl⟩

theorem skeleton_decodeRaw :
    lits_decodeRaw = [5, 0, 0, 5, 1, 24, 2, 16, 3, 8, 4, 0, 4294967295, 1, 2, 1, 3, 0, 0, 0, 0, 0, 3, 0, 0, 3, 8, 3] ∧
    ops_decodeRaw = ["||", "<", "!=", "|", "|", "|", "<<", "<<", "<<", "<<", "<<", "<<", "+", ">", "--", "&", "u&", "!=", "!=", "<<", "&", ">>", "-", "|", "u&", "!=", "++"] := ⟨rfl, rfl⟩

theorem skeleton_decodeUvarint :
    lits_decodeUvarint = [0, 63, 0, 7, 0, 1, 127, 128, 0, 0] ∧
    ops_decodeUvarint = ["&&", "<", ">", "+=", "|=", "<<", "&", "==", "&"] := ⟨rfl, rfl⟩

theorem skeleton_FileFormat_Encode :
    lits_FileFormat_Encode = [1, 2] ∧
    ops_FileFormat_Encode = [] := ⟨rfl, rfl⟩

theorem skeleton_encodeLZMA :
    lits_encodeLZMA = [0, 8, 8] ∧
    ops_encodeLZMA = ["<", "++", ">>="] := ⟨rfl, rfl⟩

theorem skeleton_encodeXz :
    lits_encodeXz = [12, 0, 65536, 65536, 65536, 0, 3, 6, 1, 1, 8, 1, 0, 224, 1, 8, 1, 0, 1, 8, 1, 0, 93, 0, 4, 0, 3, 0, 0, 8, 16, 24, 0, 1, 0, 3, 0, 2, 0, 8, 16, 24, 0, 0, 0, 0, 0, 8, 16, 24, 6, 7, 89, 90, 4, 10, 0, 0, 1, 8, 2, 16, 3, 24] ∧
    ops_encodeXz = ["+", ">", ">", "<=", "+", "+", ">>", "-", ">>", "-", ">>", "-", ">>", "-", ">>", "-", ">>", "-", "+", "-", "!=", "&", "-", ">>", ">>", ">>", ">>", "!=", "&", "-", ">>", "-", ">>", ">>", ">>", ">>", ">>", ">>", ">>", ">>", "+", "+", "+", ">>", "+", ">>", "+", ">>", "+", ">>"] := ⟨rfl, rfl⟩

theorem skeleton_encodeRaw :
    lits_encodeRaw = [4294967295, 1, 2, 1, 3, 0, 0, 0, 3, 0, 0, 3, 8, 3, 0, 5] ∧
    ops_encodeRaw = ["<<", "<<", "+", "&", "u&", "<<", "&", ">>", "-", "|", "u&", "++", "<", "++"] := ⟨rfl, rfl⟩

theorem skeleton_encodeUvarint :
    lits_encodeUvarint = [128, 7, 128] ∧
    ops_encodeUvarint = [">=", ">>=", "|"] := ⟨rfl, rfl⟩

end WuffsVerif.Props.C17Gen
