/-
C15 — the shared-dictionary loader (`lib/internal/racdict.Loader.Load`, model
Model/Rac/Dict.lean, as repaired by fixes/C15-dict-cache-ttag.patch).

`load_transparent` is the part of "a file … decodes to the same bytes every time" that lives
in the codec layer: what `Load` answers for a chunk — the dictionary bytes, `nil`, or which
error — never depends on the loader's cache (which chunk was loaded before, whether the cached
buffer was re-used, whether an earlier load failed half-way); it equals the answer of a loader
without history.  Before the repair this was false (the cache was consulted before the TTag
check: `unrepaired_history_dependent`).  `load_bounds`: a returned dictionary lies inside the
chunk's CSecondary range and inside the file, and at most `CSecondary.Size() - 4` bytes are
allocated and read.
-/
import WuffsVerif.Model.Rac.Dict

namespace WuffsVerif.Props.C15Dict
open WuffsVerif.Rac WuffsVerif.Rac.Dict

/-- the cache holds what a fresh loader would answer for the cached range -/
def CacheOK (f : CFile) (limit : Nat) (l : Loader) : Prop :=
  l.lo ≠ l.hi → ∀ c : CChunk, c.csLo = l.lo → c.csHi = l.hi → c.ctLo = c.ctHi →
    ¬ (c.csHi < c.csLo + 8 ∨ c.tTag ≠ 0xFF) → loadFresh f limit c = .ok (some l.bytes)

theorem cacheOK_empty (f : CFile) (limit : Nat) : CacheOK f limit {} := by
  intro h; exact absurd rfl h

/-- a loader without history, unfolded -/
theorem loadFresh_eq (f : CFile) (limit : Nat) (c : CChunk) :
    loadFresh f limit c =
      if c.ctLo ≠ c.ctHi then .error .invalid
      else if c.csLo = c.csHi then .ok none
      else if c.csHi < c.csLo + 8 ∨ c.tTag ≠ 0xFF then .error .invalid
      else
        match readFull f limit c.csLo 4 with
        | .error e => .error e
        | .ok b4 =>
          if u32LE b4 >>> 30 ≠ 0 then .error .invalid
          else if u32LE b4 + 8 > c.csHi - c.csLo then .error .invalid
          else
            match readFull f limit (c.csLo + 4) (u32LE b4 + 4) with
            | .error e => .error e
            | .ok buffer =>
              if u32LE (buffer.drop (u32LE b4)) ≠ crc32 (buffer.take (u32LE b4)) then .error .invalid
              else .ok (some (buffer.take (u32LE b4))) := by
  unfold loadFresh Loader.load
  by_cases h1 : c.ctLo ≠ c.ctHi
  · simp only [h1, ↓reduceIte, ne_eq, not_false_eq_true]
  simp only [h1, ↓reduceIte]
  by_cases h2 : c.csLo = c.csHi
  · simp only [h2, ↓reduceIte]
  simp only [h2, ↓reduceIte]
  by_cases h3 : c.csHi < c.csLo + 8 ∨ c.tTag ≠ 0xFF
  · simp only [h3, ↓reduceIte]
  simp only [h3, ↓reduceIte]
  have hne : ¬ (c.csLo = ({} : Loader).lo ∧ c.csHi = ({} : Loader).hi ∧ ({} : Loader).lo ≠ ({} : Loader).hi) := by
    intro h; exact h.2.2 rfl
  simp only [hne, ↓reduceIte]
  cases readFull f limit c.csLo 4 with
  | error e => rfl
  | ok b4 =>
    simp only
    by_cases h4 : u32LE b4 >>> 30 ≠ 0
    · simp only [h4, ↓reduceIte, ne_eq, not_false_eq_true]
    simp only [h4, ↓reduceIte]
    by_cases h5 : u32LE b4 + 8 > c.csHi - c.csLo
    · simp only [h5, ↓reduceIte]
    simp only [h5, ↓reduceIte]
    cases readFull f limit (c.csLo + 4) (u32LE b4 + 4) with
    | error e => simp only
    | ok buffer =>
      simp only
      by_cases h6 : u32LE (buffer.drop (u32LE b4)) ≠ crc32 (buffer.take (u32LE b4))
      · simp only [h6, ↓reduceIte, ne_eq, not_false_eq_true]
      · simp only [h6, ↓reduceIte]

/-- **load_transparent.**  For every file, claimed size, cache state that satisfies `CacheOK`
(every reachable one: `reachable_cacheOK`) and chunk: `Load` answers what a loader without
history answers, and keeps `CacheOK`. -/
theorem load_transparent (f : CFile) (limit : Nat) (l : Loader) (c : CChunk)
    (h : CacheOK f limit l) :
    (l.load f limit c).2 = loadFresh f limit c ∧ CacheOK f limit (l.load f limit c).1 := by
  rw [loadFresh_eq]
  unfold Loader.load
  by_cases h1 : c.ctLo ≠ c.ctHi
  · simp only [h1, ↓reduceIte, ne_eq, not_false_eq_true]; exact ⟨trivial, h⟩
  simp only [h1, ↓reduceIte]
  by_cases h2 : c.csLo = c.csHi
  · simp only [h2, ↓reduceIte]; exact ⟨trivial, h⟩
  simp only [h2, ↓reduceIte]
  by_cases h3 : c.csHi < c.csLo + 8 ∨ c.tTag ≠ 0xFF
  · simp only [h3, ↓reduceIte]; exact ⟨trivial, h⟩
  simp only [h3, ↓reduceIte]
  by_cases hhit : c.csLo = l.lo ∧ c.csHi = l.hi ∧ l.lo ≠ l.hi
  · -- cache hit: the invariant says it is the fresh answer
    rw [if_pos hhit]
    have hfresh := h hhit.2.2 c hhit.1 hhit.2.1 (by simpa using h1) h3
    rw [loadFresh_eq] at hfresh
    simp only [h1, h2, h3, ↓reduceIte] at hfresh
    exact ⟨hfresh.symm, h⟩
  rw [if_neg hhit]
  -- the cache after invalidation by re-use is trivially fine
  have hinval : CacheOK f limit { l with lo := 0, hi := 0 } := by intro h0; exact absurd rfl h0
  cases hr1 : readFull f limit c.csLo 4 with
  | error e => simp only; exact ⟨trivial, h⟩
  | ok b4 =>
    simp only
    by_cases h4 : u32LE b4 >>> 30 ≠ 0
    · simp only [h4, ↓reduceIte, ne_eq, not_false_eq_true]; exact ⟨trivial, h⟩
    simp only [h4, ↓reduceIte]
    by_cases h5 : u32LE b4 + 8 > c.csHi - c.csLo
    · simp only [h5, ↓reduceIte]; exact ⟨trivial, h⟩
    simp only [h5, ↓reduceIte]
    have hl1 : CacheOK f limit (if decide (l.cap ≥ u32LE b4 + 4) = true then { l with lo := 0, hi := 0 } else l) := by
      split
      · exact hinval
      · exact h
    cases hr2 : readFull f limit (c.csLo + 4) (u32LE b4 + 4) with
    | error e => simp only; exact ⟨trivial, hl1⟩
    | ok buffer =>
      simp only
      by_cases h6 : u32LE (buffer.drop (u32LE b4)) ≠ crc32 (buffer.take (u32LE b4))
      · simp only [h6, ↓reduceIte, ne_eq, not_false_eq_true]; exact ⟨trivial, hl1⟩
      · simp only [h6, ↓reduceIte]
        refine ⟨trivial, ?_⟩
        -- the new cache entry is what a fresh load of this range answers
        intro _ c' e1 e2 e3 e4
        simp only at e1 e2
        rw [loadFresh_eq]
        have e3' : ¬ c'.ctLo ≠ c'.ctHi := by simpa using e3
        have e5 : ¬ c'.csLo = c'.csHi := by rw [e1, e2]; exact h2
        simp only [e3', e5, e4, ↓reduceIte]
        rw [e1, e2, hr1]
        simp only [h4, h5, ↓reduceIte]
        rw [hr2]
        simp only [h6, ↓reduceIte]

/-- loader states reached by any sequence of `Load` calls on one file -/
inductive Reachable (f : CFile) (limit : Nat) : Loader → Prop
  | fresh : Reachable f limit {}
  | load {l : Loader} (c : CChunk) : Reachable f limit l → Reachable f limit (l.load f limit c).1

theorem reachable_cacheOK {f : CFile} {limit : Nat} {l : Loader} (h : Reachable f limit l) :
    CacheOK f limit l := by
  induction h with
  | fresh => exact cacheOK_empty f limit
  | load c _ ih => exact (load_transparent f limit _ c ih).2

/-- **dict_deterministic.**  After ANY history of loads on the same file, `Load` answers what
a loader without history answers: the dictionary a chunk is decoded with is a function of the
file bytes, the claimed size and the chunk. -/
theorem dict_deterministic {f : CFile} {limit : Nat} {l : Loader} (h : Reachable f limit l)
    (c : CChunk) : (l.load f limit c).2 = loadFresh f limit c :=
  (load_transparent f limit l c (reachable_cacheOK h)).1

theorem readFull_ok {f : CFile} {limit off n : Nat} {b : List UInt8}
    (h : readFull f limit off n = .ok b) :
    b.length = n ∧ (n ≠ 0 → off + n ≤ f.size ∧ off + n ≤ limit) := by
  unfold readFull at h
  simp only at h
  split at h
  · rename_i h0; cases h; exact ⟨by simp [h0], fun hn => absurd h0 hn⟩
  · split at h
    · rename_i _ hle
      cases h
      refine ⟨by simp [fileBytes], fun _ => ?_⟩
      omega
    · split at h <;> cases h

/-- **load_bounds.**  A dictionary that `Load` returns from the file (not from the cache) has
the length its 4-byte prefix says, at most `2^30 - 1` and at most `CSecondary.Size() - 8`; the
two reads (4 and `length + 4` bytes) stay inside CSecondary, inside the real bytes and inside
the claimed size: allocation and work are bounded by the chunk's secondary range. -/
theorem load_bounds (f : CFile) (limit : Nat) (c : CChunk) (d : List UInt8)
    (h : loadFresh f limit c = .ok (some d)) :
    c.csLo + 8 ≤ c.csHi ∧ d.length + 8 ≤ c.csHi - c.csLo ∧ d.length < 2 ^ 30 ∧
    c.csLo + 8 + d.length ≤ f.size ∧ c.csLo + 8 + d.length ≤ limit := by
  rw [loadFresh_eq] at h
  split at h
  · cases h
  split at h
  · cases h
  split at h
  · cases h
  rename_i h3
  split at h
  · cases h
  rename_i b4 hr1
  split at h
  · cases h
  rename_i h4
  split at h
  · cases h
  rename_i h5
  split at h
  · cases h
  rename_i buffer hr2
  split at h
  · cases h
  cases h
  obtain ⟨hlen, hin⟩ := readFull_ok hr2
  have hin' := hin (by omega)
  have hsz : u32LE b4 < 2 ^ 30 := by
    have : u32LE b4 >>> 30 = 0 := by simpa using h4
    rw [Nat.shiftRight_eq_div_pow] at this
    exact (Nat.div_eq_zero_iff_lt (by decide)).mp this
  have hd : (buffer.take (u32LE b4)).length = u32LE b4 := by
    rw [List.length_take]; omega
  rw [hd]
  refine ⟨by omega, by omega, hsz, by omega, by omega⟩

/-! ## non-vacuity, and the defect -/

/-- a file that is just a wrapped dictionary "abc" at offset 0: length 3, bytes, CRC-32 -/
def dictFile : CFile := ChunkReader.File.ofList [3, 0, 0, 0, 97, 98, 99, 0xC2, 0x41, 0x24, 0x35]

def mkChunk (csLo csHi tTag : Nat) : CChunk :=
  { dLo := 0, dHi := 1, cpLo := 0, cpHi := 0, csLo := csLo, csHi := csHi, ctLo := 11, ctHi := 11,
    sTag := 0, tTag := tTag, codec := 2 ^ 56 }

example : loadFresh dictFile 11 (mkChunk 0 11 0xFF) = .ok (some [97, 98, 99]) := by decide +kernel
example : loadFresh dictFile 11 (mkChunk 0 11 3) = .error .invalid := by decide +kernel
example : loadFresh dictFile 10 (mkChunk 0 11 0xFF) = .error .ueof := by decide +kernel

/-- the unrepaired order (cache lookup first), for the record -/
def loadUnrepaired (f : CFile) (limit : Nat) (l : Loader) (c : CChunk) :
    Except DErr (Option (List UInt8)) :=
  if c.ctLo ≠ c.ctHi then .error .invalid
  else if c.csLo = c.csHi then .ok none
  else if c.csLo = l.lo ∧ c.csHi = l.hi ∧ l.lo ≠ l.hi then .ok (some l.bytes)
  else (l.load f limit c).2

/-- before the repair the answer depended on the history: after loading the dictionary for a
chunk with TTag 0xFF, a chunk with the same CSecondary and TTag 3 got the cached dictionary,
while a loader without history rejects it -/
theorem unrepaired_history_dependent :
    loadUnrepaired dictFile 11 (Loader.load dictFile 11 {} (mkChunk 0 11 0xFF)).1 (mkChunk 0 11 3) =
      .ok (some [97, 98, 99]) ∧
    loadUnrepaired dictFile 11 {} (mkChunk 0 11 3) = .error .invalid := by decide +kernel

end WuffsVerif.Props.C15Dict
