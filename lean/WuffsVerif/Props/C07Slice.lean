/-
C07 part 4: the slicing loops of std/crc32 (`ieee_hasher.up`, 16 bytes per iteration) and std/crc64
(`ecma_hasher.up`, 8 bytes per iteration) equal the bit-serial specification — the FULL target
`crc32_slice16_eq_bytewise` of DESIGN.md §C07, for the index lists (`crc32SliceLoad`, `crc32SliceTerms`, …)
and tables REGENERATED from the .wuffs sources: a swapped table index or byte index in the big xor breaks
these proofs.
-/
import WuffsVerif.Proof.StdHashCrcSlice
import WuffsVerif.Props.C07Crc

namespace WuffsVerif.Props.C07
open WuffsVerif.StdHash WuffsVerif.Gen.C07

set_option maxHeartbeats 1000000 in
theorem load32_bytes (a0 a1 a2 a3 : UInt8) :
    let ld : BitVec 32 := (((((0 : BitVec 32) ||| BitVec.ofNat 32 a0.toNat <<< 0) ||| BitVec.ofNat 32 a1.toNat <<< 8) ||| BitVec.ofNat 32 a2.toNat <<< 16) ||| BitVec.ofNat 32 a3.toNat <<< 24)
    lowByte (ld >>> 0) = BitVec.ofNat 32 a0.toNat ∧
    lowByte (ld >>> 8) = BitVec.ofNat 32 a1.toNat ∧
    lowByte (ld >>> 16) = BitVec.ofNat 32 a2.toNat ∧
    lowByte (ld >>> 24) = BitVec.ofNat 32 a3.toNat := by
  intro ld
  refine ⟨?_, ?_, ?_, ?_⟩ <;>
  · apply BitVec.eq_of_getLsbD_eq
    intro i hi
    simp only [ld, getLsbD_lowByte, BitVec.getLsbD_ushiftRight, BitVec.getLsbD_or, BitVec.getLsbD_shiftLeft,
      BitVec.getLsbD_ofNat, BitVec.getLsbD_zero]
    by_cases h8 : i < 8
    · have h16 : i < 16 := by omega
      have h24 : i < 24 := by omega
      have h32 : i < 32 := by omega
      simp (disch := omega) [h8, h16, h24, h32, hi, testBit_byte,
        decide_eq_false (show ¬ 8 + i < 8 by omega), 
        decide_eq_true (show 8 + i < 16 by omega), 
        decide_eq_true (show 8 + i < 24 by omega), 
        decide_eq_true (show 8 + i < 32 by omega), 
        decide_eq_false (show ¬ 16 + i < 8 by omega), 
        decide_eq_false (show ¬ 16 + i < 16 by omega), 
        decide_eq_true (show 16 + i < 24 by omega), 
        decide_eq_true (show 16 + i < 32 by omega), 
        decide_eq_false (show ¬ 24 + i < 8 by omega), 
        decide_eq_false (show ¬ 24 + i < 16 by omega), 
        decide_eq_false (show ¬ 24 + i < 24 by omega), 
        decide_eq_true (show 24 + i < 32 by omega)]
    · simp (disch := omega) [h8, testBit_byte]

set_option maxHeartbeats 1000000 in
theorem load64_bytes (a0 a1 a2 a3 a4 a5 a6 a7 : UInt8) :
    let ld : BitVec 64 := (((((((((0 : BitVec 64) ||| BitVec.ofNat 64 a0.toNat <<< 0) ||| BitVec.ofNat 64 a1.toNat <<< 8) ||| BitVec.ofNat 64 a2.toNat <<< 16) ||| BitVec.ofNat 64 a3.toNat <<< 24) ||| BitVec.ofNat 64 a4.toNat <<< 32) ||| BitVec.ofNat 64 a5.toNat <<< 40) ||| BitVec.ofNat 64 a6.toNat <<< 48) ||| BitVec.ofNat 64 a7.toNat <<< 56)
    lowByte (ld >>> 0) = BitVec.ofNat 64 a0.toNat ∧
    lowByte (ld >>> 8) = BitVec.ofNat 64 a1.toNat ∧
    lowByte (ld >>> 16) = BitVec.ofNat 64 a2.toNat ∧
    lowByte (ld >>> 24) = BitVec.ofNat 64 a3.toNat ∧
    lowByte (ld >>> 32) = BitVec.ofNat 64 a4.toNat ∧
    lowByte (ld >>> 40) = BitVec.ofNat 64 a5.toNat ∧
    lowByte (ld >>> 48) = BitVec.ofNat 64 a6.toNat ∧
    lowByte (ld >>> 56) = BitVec.ofNat 64 a7.toNat := by
  intro ld
  refine ⟨?_, ?_, ?_, ?_, ?_, ?_, ?_, ?_⟩ <;>
  · apply BitVec.eq_of_getLsbD_eq
    intro i hi
    simp only [ld, getLsbD_lowByte, BitVec.getLsbD_ushiftRight, BitVec.getLsbD_or, BitVec.getLsbD_shiftLeft,
      BitVec.getLsbD_ofNat, BitVec.getLsbD_zero]
    by_cases h8 : i < 8
    · have h16 : i < 16 := by omega
      have h24 : i < 24 := by omega
      have h32 : i < 32 := by omega
      have h40 : i < 40 := by omega
      have h48 : i < 48 := by omega
      have h56 : i < 56 := by omega
      have h64 : i < 64 := by omega
      simp (disch := omega) [h8, h16, h24, h32, h40, h48, h56, h64, hi, testBit_byte,
        decide_eq_false (show ¬ 8 + i < 8 by omega), 
        decide_eq_true (show 8 + i < 16 by omega), 
        decide_eq_true (show 8 + i < 24 by omega), 
        decide_eq_true (show 8 + i < 32 by omega), 
        decide_eq_true (show 8 + i < 40 by omega), 
        decide_eq_true (show 8 + i < 48 by omega), 
        decide_eq_true (show 8 + i < 56 by omega), 
        decide_eq_true (show 8 + i < 64 by omega), 
        decide_eq_false (show ¬ 16 + i < 8 by omega), 
        decide_eq_false (show ¬ 16 + i < 16 by omega), 
        decide_eq_true (show 16 + i < 24 by omega), 
        decide_eq_true (show 16 + i < 32 by omega), 
        decide_eq_true (show 16 + i < 40 by omega), 
        decide_eq_true (show 16 + i < 48 by omega), 
        decide_eq_true (show 16 + i < 56 by omega), 
        decide_eq_true (show 16 + i < 64 by omega), 
        decide_eq_false (show ¬ 24 + i < 8 by omega), 
        decide_eq_false (show ¬ 24 + i < 16 by omega), 
        decide_eq_false (show ¬ 24 + i < 24 by omega), 
        decide_eq_true (show 24 + i < 32 by omega), 
        decide_eq_true (show 24 + i < 40 by omega), 
        decide_eq_true (show 24 + i < 48 by omega), 
        decide_eq_true (show 24 + i < 56 by omega), 
        decide_eq_true (show 24 + i < 64 by omega), 
        decide_eq_false (show ¬ 32 + i < 8 by omega), 
        decide_eq_false (show ¬ 32 + i < 16 by omega), 
        decide_eq_false (show ¬ 32 + i < 24 by omega), 
        decide_eq_false (show ¬ 32 + i < 32 by omega), 
        decide_eq_true (show 32 + i < 40 by omega), 
        decide_eq_true (show 32 + i < 48 by omega), 
        decide_eq_true (show 32 + i < 56 by omega), 
        decide_eq_true (show 32 + i < 64 by omega), 
        decide_eq_false (show ¬ 40 + i < 8 by omega), 
        decide_eq_false (show ¬ 40 + i < 16 by omega), 
        decide_eq_false (show ¬ 40 + i < 24 by omega), 
        decide_eq_false (show ¬ 40 + i < 32 by omega), 
        decide_eq_false (show ¬ 40 + i < 40 by omega), 
        decide_eq_true (show 40 + i < 48 by omega), 
        decide_eq_true (show 40 + i < 56 by omega), 
        decide_eq_true (show 40 + i < 64 by omega), 
        decide_eq_false (show ¬ 48 + i < 8 by omega), 
        decide_eq_false (show ¬ 48 + i < 16 by omega), 
        decide_eq_false (show ¬ 48 + i < 24 by omega), 
        decide_eq_false (show ¬ 48 + i < 32 by omega), 
        decide_eq_false (show ¬ 48 + i < 40 by omega), 
        decide_eq_false (show ¬ 48 + i < 48 by omega), 
        decide_eq_true (show 48 + i < 56 by omega), 
        decide_eq_true (show 48 + i < 64 by omega), 
        decide_eq_false (show ¬ 56 + i < 8 by omega), 
        decide_eq_false (show ¬ 56 + i < 16 by omega), 
        decide_eq_false (show ¬ 56 + i < 24 by omega), 
        decide_eq_false (show ¬ 56 + i < 32 by omega), 
        decide_eq_false (show ¬ 56 + i < 40 by omega), 
        decide_eq_false (show ¬ 56 + i < 48 by omega), 
        decide_eq_false (show ¬ 56 + i < 56 by omega), 
        decide_eq_true (show 56 + i < 64 by omega)]
    · simp (disch := omega) [h8, testBit_byte]

theorem shr32_zero (s : BitVec 32) : s >>> 8 >>> 8 >>> 8 >>> 8 = 0 := by
  apply BitVec.eq_of_getLsbD_eq
  intro i hi
  simp only [BitVec.getLsbD_ushiftRight]
  rw [BitVec.getLsbD_of_ge s _ (by omega)]
  simp

theorem shr64_zero (s : BitVec 64) : s >>> 8 >>> 8 >>> 8 >>> 8 >>> 8 >>> 8 >>> 8 >>> 8 = 0 := by
  apply BitVec.eq_of_getLsbD_eq
  intro i hi
  simp only [BitVec.getLsbD_ushiftRight]
  rw [BitVec.getLsbD_of_ge s _ (by omega)]
  simp

set_option maxHeartbeats 2000000 in
/-- one 16-byte iteration of `ieee_hasher.up` = 16 bytes of the bit-serial specification -/
theorem crc32_slice16_step_bytes (s : BitVec 32) (p0 p1 p2 p3 p4 p5 p6 p7 p8 p9 p10 p11 p12 p13 p14 p15 : UInt8) :
    crcSliceStep crc32Table crc32SliceLoad crc32SliceTerms s [p0, p1, p2, p3, p4, p5, p6, p7, p8, p9, p10, p11, p12, p13, p14, p15]
      = crcSpecFold crc32Poly s [p0, p1, p2, p3, p4, p5, p6, p7, p8, p9, p10, p11, p12, p13, p14, p15] := by
  obtain ⟨l0, l1, l2, l3⟩ := load32_bytes p0 p1 p2 p3
  rw [crcSpecFold_unroll]
  simp only [List.length_cons, List.length_nil, byteTerms]
  rw [show 8 * (0 + 1 + 1 + 1 + 1 + 1 + 1 + 1 + 1 + 1 + 1 + 1 + 1 + 1 + 1 + 1 + 1) = 8 * (12 + 4) by rfl,
    iter_eq_sliceSum crc32Poly 12 4 s]
  simp only [sliceSum, shr32_zero, iter_bitStep_zero]
  unfold crcSliceStep crc32SliceLoad crc32SliceTerms
  simp only [List.foldl_cons, List.foldl_nil, List.getD_cons_zero, List.getD_cons_succ, ↓reduceIte,
    if_true, if_false, show ((1 : Nat) = 0) = False from by simp]
  simp only [tbl_byte crc32Table crc32Poly 0 (crc32_table_eq_spec 0 (by omega)), tbl_byte crc32Table crc32Poly 1 (crc32_table_eq_spec 1 (by omega)), tbl_byte crc32Table crc32Poly 2 (crc32_table_eq_spec 2 (by omega)), tbl_byte crc32Table crc32Poly 3 (crc32_table_eq_spec 3 (by omega)), tbl_byte crc32Table crc32Poly 4 (crc32_table_eq_spec 4 (by omega)), tbl_byte crc32Table crc32Poly 5 (crc32_table_eq_spec 5 (by omega)), tbl_byte crc32Table crc32Poly 6 (crc32_table_eq_spec 6 (by omega)), tbl_byte crc32Table crc32Poly 7 (crc32_table_eq_spec 7 (by omega)), tbl_byte crc32Table crc32Poly 8 (crc32_table_eq_spec 8 (by omega)), tbl_byte crc32Table crc32Poly 9 (crc32_table_eq_spec 9 (by omega)), tbl_byte crc32Table crc32Poly 10 (crc32_table_eq_spec 10 (by omega)), tbl_byte crc32Table crc32Poly 11 (crc32_table_eq_spec 11 (by omega)),
    tbl_byteAt crc32Table crc32Poly 12 (crc32_table_eq_spec 12 (by omega)), tbl_byteAt crc32Table crc32Poly 13 (crc32_table_eq_spec 13 (by omega)), tbl_byteAt crc32Table crc32Poly 14 (crc32_table_eq_spec 14 (by omega)), tbl_byteAt crc32Table crc32Poly 15 (crc32_table_eq_spec 15 (by omega))]
  simp only [BitVec.ushiftRight_xor_distrib, lowByte_xor, l0, l1, l2, l3, iter_bitStep_xor]
  simp only [← BitVec.shiftRight_add, Nat.reduceAdd, Nat.reduceMul, BitVec.xor_zero, BitVec.zero_xor,
    BitVec.ushiftRight_zero, iter]
  ac_rfl

set_option maxHeartbeats 2000000 in
/-- one 8-byte iteration of `ecma_hasher.up` = 8 bytes of the bit-serial specification -/
theorem crc64_slice8_step_bytes (s : BitVec 64) (p0 p1 p2 p3 p4 p5 p6 p7 : UInt8) :
    crcSliceStep crc64Table crc64SliceLoad crc64SliceTerms s [p0, p1, p2, p3, p4, p5, p6, p7]
      = crcSpecFold crc64Poly s [p0, p1, p2, p3, p4, p5, p6, p7] := by
  obtain ⟨l0, l1, l2, l3, l4, l5, l6, l7⟩ := load64_bytes p0 p1 p2 p3 p4 p5 p6 p7
  rw [crcSpecFold_unroll]
  simp only [List.length_cons, List.length_nil, byteTerms]
  rw [show 8 * (0 + 1 + 1 + 1 + 1 + 1 + 1 + 1 + 1) = 8 * (0 + 8) by rfl,
    iter_eq_sliceSum crc64Poly 0 8 s]
  simp only [sliceSum, shr64_zero, iter_bitStep_zero]
  unfold crcSliceStep crc64SliceLoad crc64SliceTerms
  simp only [List.foldl_cons, List.foldl_nil, List.getD_cons_zero, List.getD_cons_succ, ↓reduceIte,
    if_true, if_false, show ((1 : Nat) = 0) = False from by simp]
  simp only [tbl_byteAt crc64Table crc64Poly 0 (crc64_table_eq_spec 0 (by omega)), tbl_byteAt crc64Table crc64Poly 1 (crc64_table_eq_spec 1 (by omega)), tbl_byteAt crc64Table crc64Poly 2 (crc64_table_eq_spec 2 (by omega)), tbl_byteAt crc64Table crc64Poly 3 (crc64_table_eq_spec 3 (by omega)), tbl_byteAt crc64Table crc64Poly 4 (crc64_table_eq_spec 4 (by omega)), tbl_byteAt crc64Table crc64Poly 5 (crc64_table_eq_spec 5 (by omega)), tbl_byteAt crc64Table crc64Poly 6 (crc64_table_eq_spec 6 (by omega)), tbl_byteAt crc64Table crc64Poly 7 (crc64_table_eq_spec 7 (by omega))]
  simp only [BitVec.ushiftRight_xor_distrib, lowByte_xor, l0, l1, l2, l3, l4, l5, l6, l7, iter_bitStep_xor]
  simp only [← BitVec.shiftRight_add, Nat.reduceAdd, Nat.reduceMul, BitVec.xor_zero, BitVec.zero_xor,
    BitVec.ushiftRight_zero, iter]
  ac_rfl

theorem crc32_slice16_step (s : BitVec 32) (p : List UInt8) (hp : p.length = 16) :
    crcSliceStep crc32Table crc32SliceLoad crc32SliceTerms s p = crcSpecFold crc32Poly s p := by
  rcases p with _ | ⟨p0, _ | ⟨p1, _ | ⟨p2, _ | ⟨p3, _ | ⟨p4, _ | ⟨p5, _ | ⟨p6, _ | ⟨p7, _ | ⟨p8, _ | ⟨p9, _ | ⟨p10, _ | ⟨p11, _ | ⟨p12, _ | ⟨p13, _ | ⟨p14, _ | ⟨p15, _ | ⟨_, _⟩⟩⟩⟩⟩⟩⟩⟩⟩⟩⟩⟩⟩⟩⟩⟩⟩ <;> simp only [List.length_cons, List.length_nil] at hp <;> try omega
  exact crc32_slice16_step_bytes s p0 p1 p2 p3 p4 p5 p6 p7 p8 p9 p10 p11 p12 p13 p14 p15

theorem crc64_slice8_step (s : BitVec 64) (p : List UInt8) (hp : p.length = 8) :
    crcSliceStep crc64Table crc64SliceLoad crc64SliceTerms s p = crcSpecFold crc64Poly s p := by
  rcases p with _ | ⟨p0, _ | ⟨p1, _ | ⟨p2, _ | ⟨p3, _ | ⟨p4, _ | ⟨p5, _ | ⟨p6, _ | ⟨p7, _ | ⟨_, _⟩⟩⟩⟩⟩⟩⟩⟩⟩ <;> simp only [List.length_cons, List.length_nil] at hp <;> try omega
  exact crc64_slice8_step_bytes s p0 p1 p2 p3 p4 p5 p6 p7

/-- the `iterate … else …` loop: whole blocks by the slicing step, the tail byte-wise -/
theorem crcSliced_eq_spec {w : Nat} (P : BitVec w) (t : Array (Array Nat)) (n : Nat)
    (step : BitVec w → List UInt8 → BitVec w)
    (hstep : ∀ s p, p.length = n → step s p = crcSpecFold P s p)
    (hbw : ∀ s x, crcBytewise t s x = crcSpecFold P s x) :
    ∀ (k : Nat) (x : List UInt8) (s : BitVec w), x.length ≤ k → crcSliced n step t s x = crcSpecFold P s x := by
  intro k
  induction k using Nat.strongRecOn with
  | _ k ih =>
    intro x s hx
    rw [crcSliced]
    by_cases h : n > 0 ∧ x.length ≥ n
    · simp only [h, and_self, ↓reduceDIte]
      rw [ih (x.length - n) (by omega) (x.drop n) _ (by simp only [List.length_drop]; omega)]
      rw [hstep s (x.take n) (by simp only [List.length_take]; omega)]
      unfold crcSpecFold
      rw [← List.foldl_append, List.take_append_drop]
    · simp only [h, ↓reduceDIte]
      exact hbw s x

/-- **crc32_slice16_eq_bytewise** (and `= spec`): `ieee_hasher.up` equals the bit-serial CRC-32 for every
    state and every byte string. -/
theorem crc32_up_eq_spec (state : BitVec 32) (x : List UInt8) :
    crc32Up state x = crcSpecUp crc32Poly state x := by
  have h : (0xFFFFFFFF#32 : BitVec 32) = BitVec.allOnes 32 := by decide
  unfold crc32Up crcSpecUp
  simp only [h, BitVec.allOnes_xor]
  rw [crcSliced_eq_spec crc32Poly crc32Table 16 _ crc32_slice16_step crc32_bytewise_eq_spec x.length x _ (Nat.le_refl _)]

theorem crc32_slice16_eq_bytewise (s : BitVec 32) (x : List UInt8) :
    crcSliced 16 (crcSliceStep crc32Table crc32SliceLoad crc32SliceTerms) crc32Table s x
      = crcBytewise crc32Table s x := by
  rw [crcSliced_eq_spec crc32Poly crc32Table 16 _ crc32_slice16_step crc32_bytewise_eq_spec x.length x _ (Nat.le_refl _),
    crc32_bytewise_eq_spec]

theorem crc64_up_eq_spec (state : BitVec 64) (x : List UInt8) :
    crc64Up state x = crcSpecUp crc64Poly state x := by
  have h : (0xFFFFFFFFFFFFFFFF#64 : BitVec 64) = BitVec.allOnes 64 := by decide
  unfold crc64Up crcSpecUp
  simp only [h, BitVec.allOnes_xor]
  rw [crcSliced_eq_spec crc64Poly crc64Table 8 _ crc64_slice8_step crc64_bytewise_eq_spec x.length x _ (Nat.le_refl _)]

/-- **crc32_split** on the mirror of the Wuffs code: `up (up s a) b = up s (a ++ b)`. -/
theorem crc32_split (state : BitVec 32) (a b : List UInt8) :
    crc32Up (crc32Up state a) b = crc32Up state (a ++ b) := by
  simp only [crc32_up_eq_spec, crcSpecUp_append]

theorem crc64_split (state : BitVec 64) (a b : List UInt8) :
    crc64Up (crc64Up state a) b = crc64Up state (a ++ b) := by
  simp only [crc64_up_eq_spec, crcSpecUp_append]

/-- however the bytes are split: any sequence of `update` calls computes the CRC-32 of the concatenation
    (zero calls included: the state starts at 0 = CRC-32 of the empty string) -/
theorem crc32_any_split (parts : List (List UInt8)) :
    parts.foldl crc32Up 0 = crc32Spec parts.flatten := by
  have key : ∀ (ps : List (List UInt8)) (st : BitVec 32),
      ps.foldl crc32Up st = crcSpecUp crc32Poly st ps.flatten := by
    intro ps
    induction ps with
    | nil => intro st; simp [crcSpecUp, crcSpecFold]
    | cons p ps ih =>
      intro st
      simp only [List.foldl_cons, List.flatten_cons, ih, crc32_up_eq_spec, crcSpecUp_append]
  exact key parts 0

theorem crc64_any_split (parts : List (List UInt8)) :
    parts.foldl crc64Up 0 = crc64Spec parts.flatten := by
  have key : ∀ (ps : List (List UInt8)) (st : BitVec 64),
      ps.foldl crc64Up st = crcSpecUp crc64Poly st ps.flatten := by
    intro ps
    induction ps with
    | nil => intro st; simp [crcSpecUp, crcSpecFold]
    | cons p ps ih =>
      intro st
      simp only [List.foldl_cons, List.flatten_cons, ih, crc64_up_eq_spec, crcSpecUp_append]
  exact key parts 0

end WuffsVerif.Props.C07
