/-
C08 — the I/O buffer contract for a concrete body with two interacting buffers: the probe package's
bytecode interpreter (`Model/ProbeVM.lean`, the Wuffs source is in harness/cmd/c08/probe.go and its
generated C is what the harness executes). For EVERY program, every resumption state and every pair
of valid buffers, one call leaves both buffers within the contract. This instantiates
`Props/C08IO.lean` (each interpreter operation is one or two `IOBuf.exec` steps) and is the theorem
behind the `vm` op lines that are compared with the compiled code.
-/
import WuffsVerif.Model.ProbeVM
import WuffsVerif.Props.C08IO
import WuffsVerif.Props.C08Call

namespace WuffsVerif.Props.C08VM
open WuffsVerif.IOBuf WuffsVerif.ProbeVM WuffsVerif.Props.C08IO WuffsVerif.Props.C08Call

/-- Both buffers are inside their invariants. -/
structure Inv2 (sb db : Buf) (r : Run) : Prop where
  src : RInv sb r.src
  dst : WInv db r.dst

theorem srcExec_inv (sb db : Buf) (r : Run) (i : Instr) (h : Inv2 sb db r) :
    Inv2 sb db { r with src := exec r.src i } := ⟨exec_RInv sb _ _ h.src, h.dst⟩

theorem dstExec_inv (sb db : Buf) (r : Run) (i : Instr) (h : Inv2 sb db r) :
    Inv2 sb db { r with dst := exec r.dst i } := ⟨h.src, exec_WInv db _ _ h.dst⟩

theorem readU8_inv (sb db : Buf) (r : Run) (h : Inv2 sb db r) : Inv2 sb db (readU8 r).1 := by
  unfold readU8
  split
  · exact h
  · exact srcExec_inv sb db r _ h

theorem skipScratch_inv (sb db : Buf) (r : Run) (h : Inv2 sb db r) :
    Inv2 sb db (skipScratch r).1 := by
  unfold skipScratch
  dsimp only
  split
  · refine ⟨?_, ?_⟩
    · dsimp only; exact exec_RInv sb _ _ h.src
    · dsimp only; exact h.dst
  · exact srcExec_inv sb db r _ h

theorem writeScratch_inv (sb db : Buf) (r : Run) (h : Inv2 sb db r) :
    Inv2 sb db (writeScratch r).1 := by
  unfold writeScratch
  split
  · exact h
  · exact dstExec_inv sb db r _ h

theorem copyFromReader_inv (sb db : Buf) (n : Nat) (r : Run) (h : Inv2 sb db r) :
    Inv2 sb db (copyFromReader n r) := by
  unfold copyFromReader
  dsimp only
  split
  · exact h
  · refine ⟨?_, ?_⟩
    · dsimp only; exact exec_RInv sb _ _ h.src
    · dsimp only; exact exec_WInv db _ _ h.dst

theorem setScratch_inv (sb db : Buf) (r : Run) (v : Nat) (h : Inv2 sb db r) :
    Inv2 sb db { r with scratch := v } := ⟨h.src, h.dst⟩

theorem setPc_inv (sb db : Buf) (r : Run) (v : Nat) (h : Inv2 sb db r) :
    Inv2 sb db { r with pc := v } := ⟨h.src, h.dst⟩

/-! ### the private helper that is handed both buffers (`helperCall`) -/

theorem finalSave_load (w : Bool) (b : Buf) : finalSave (load w b) = b := by
  unfold finalSave load
  cases b with
  | mk mem len ri wi pos closed hasPtr =>
    cases hasPtr <;> cases w <;> cases closed <;> rfl

theorem load_b (w : Bool) (b : Buf) : (load w b).b = b := by
  unfold load; cases b.hasPtr <;> cases w <;> simp

/-- Save and reload without anything in between (the callee moved nothing). -/
theorem saveReload_RInv (b0 : Buf) (hv : b0.valid) (s : St) (h : RInv b0 s) :
    RInv b0 (loadAfterCall s (saveForCall s)) := by
  have := execCall_RInv b0 hv s (fun b => callIO false b []) (leaf_ReaderOK [] .nil) h
  simpa [execCall, callIO, runI, finalSave_load] using this

theorem saveReload_WInv (b0 : Buf) (hv : b0.valid) (s : St) (h : WInv b0 s) :
    WInv b0 (loadAfterCall s (saveForCall s)) := by
  obtain ⟨hw, hml, hbelow, hri, hwi, hhp, hcl, hsync, hio1, hlo, hhi, hcap, hlenle, hch⟩ := h
  obtain ⟨h1, h2, h3, h4⟩ := hv
  unfold loadAfterCall saveForCall
  simp only [hw, ↓reduceIte]
  exact {
    w := rfl
    memlen := hml
    below := hbelow
    ri := hri
    wi := by
      dsimp only
      intro hp
      rw [hhp] at hp
      have := h4 hp
      omega
    hp := hhp
    closed := hcl
    sync := hsync
    io1 := hio1
    lo := hlo
    hi := hhi
    cap := hcap
    lenle := hlenle
    chain := hch }

/-- A closed destination offers the helper no room. -/
theorem closed_no_room (b : Buf) (hc : b.closed = true) : (load true b).io2 - (load true b).iop = 0 := by
  unfold load; cases b.hasPtr <;> simp [hc]

theorem helperCall_inv (sb db : Buf) (hs : sb.valid) (hd : db.valid) (r : Run) (h : Inv2 sb db r) :
    Inv2 sb db (helperCall r) := by
  unfold helperCall copyFromReader
  dsimp only
  split
  · -- nothing copied
    simp only [finalSave_load]
    exact ⟨saveReload_RInv sb hs _ h.src, saveReload_WInv db hd _ h.dst⟩
  · rename_i hk
    -- something was copied, so the destination is open
    have hopen : db.closed = false := by
      cases hc : db.closed
      · rfl
      · exfalso
        apply hk
        have hcl : (saveForCall r.dst).closed = true := by
          simp [saveForCall, h.dst.w, h.dst.closed, hc]
        have := closed_no_room _ hcl
        simp [this]
    refine ⟨?_, ?_⟩
    · have := execCall_RInv sb hs r.src
        (fun b => callIO false b [.rd (min 2 (min ((load false (saveForCall r.src)).io2 - (load false (saveForCall r.src)).iop)
          ((load true (saveForCall r.dst)).io2 - (load true (saveForCall r.dst)).iop)))])
        (leaf_ReaderOK _ (.simple _ _ (by intro l; simp) (by simp) .nil)) h.src
      simpa [execCall, callIO, runI] using this
    · have := execCall_WInv db hd hopen r.dst
        (fun b => callIO true b [.wr (List.take (min 2 (min ((load false (saveForCall r.src)).io2 - (load false (saveForCall r.src)).iop)
          ((load true (saveForCall r.dst)).io2 - (load true (saveForCall r.dst)).iop)))
          (List.drop (load false (saveForCall r.src)).iop (load false (saveForCall r.src)).b.mem))])
        (leaf_WriterOK _ (.simple _ _ (by intro l; simp) (by simp) .nil)) h.dst
      simpa [execCall, callIO, runI] using this

theorem stepOp_inv (sb db : Buf) (hs : sb.valid) (hd : db.valid) (op : Nat) (r : Run) (h : Inv2 sb db r) :
    Inv2 sb db (stepOp op r).1 := by
  unfold stepOp
  split
  · exact h
  · exact h
  · exact h
  · exact h
  · exact readU8_inv sb db r h
  · exact skipScratch_inv sb db _ (setScratch_inv sb db r 3 h)
  · exact srcExec_inv sb db r _ h
  · exact writeScratch_inv sb db _ (setScratch_inv sb db r 167 h)
  · exact dstExec_inv sb db r _ h
  · exact dstExec_inv sb db r _ h
  · dsimp only
    exact srcExec_inv sb db _ _ (copyFromReader_inv sb db 4 _ (srcExec_inv sb db r _ h))
  · dsimp only
    split
    · refine ⟨?_, ?_⟩
      · dsimp only; exact exec_RInv sb _ _ (exec_RInv sb _ _ (exec_RInv sb _ _ h.src))
      · dsimp only; exact h.dst
    · refine ⟨?_, ?_⟩
      · dsimp only; exact exec_RInv sb _ _ (exec_RInv sb _ _ h.src)
      · dsimp only; exact h.dst
  · dsimp only
    exact dstExec_inv sb db _ _ (copyFromReader_inv sb db 8 _ (dstExec_inv sb db r _ h))
  · exact copyFromReader_inv sb db 3 r h
  · exact helperCall_inv sb db hs hd r h
  · dsimp only
    exact srcExec_inv sb db _ _ (helperCall_inv sb db hs hd _ (srcExec_inv sb db r _ h))
  · exact h

theorem loop_inv (sb db : Buf) (hs : sb.valid) (hd : db.valid) (prog : List UInt8) (fuel : Nat) (r : Run)
    (h : Inv2 sb db r) :
    Inv2 sb db (loop prog fuel r).1 := by
  induction fuel generalizing r with
  | zero => exact h
  | succ n ih =>
    unfold loop
    split
    · exact h
    · rename_i op _
      have hs := stepOp_inv sb db hs hd op.toNat _ (setPc_inv sb db r (r.pc + 1) h)
      split
      · rename_i r' e heq
        rw [heq] at hs; exact hs
      · rename_i r' heq
        rw [heq] at hs; exact ih r' hs

/-- **vm_contract.** One call of the probe's interpreter — any program, any saved `pc`, resumption
point and scratch value — on valid source and destination buffers: afterwards both satisfy
`ri ≤ wi ≤ len`, the source's `ri` and the destination's `wi` did not move backwards, the source bytes
are unchanged and so are the destination bytes below the old `wi`. -/
theorem vm_contract (prog : List UInt8) (vm : VM) (sb db : Buf) (hs : sb.valid) (hd : db.valid) :
    let res := callVM prog vm sb db
    (res.src.valid ∧ sb.ri ≤ res.src.ri ∧ res.src.mem = sb.mem ∧ res.src.len = sb.len) ∧
    (res.dst.valid ∧ db.wi ≤ res.dst.wi ∧ res.dst.ri = db.ri ∧
      ∀ i, i < db.wi → res.dst.mem[i]? = db.mem[i]?) := by
  have h0 : Inv2 sb db { src := load false sb, dst := load true db, pc := vm.pc, scratch := vm.scratch } :=
    ⟨load_RInv sb hs, load_WInv db hd⟩
  have h1 : ∀ r0, Inv2 sb db r0 → Inv2 sb db (resumeStage vm.p r0).1 := by
    intro r0 hr
    unfold resumeStage
    split
    · exact readU8_inv sb db r0 hr
    · exact skipScratch_inv sb db r0 hr
    · exact writeScratch_inv sb db r0 hr
    · exact hr
  have h2 : ∀ x : Run × Option Exit, Inv2 sb db x.1 → Inv2 sb db (bodyStage prog x).1 := by
    intro x hx
    unfold bodyStage
    split
    · exact hx
    · exact loop_inv sb db hs hd prog _ x.1 hx
  have h3 : ∀ x : Run × Exit, Inv2 sb db x.1 →
      (finishStage vm x).src = finalSave x.1.src ∧ (finishStage vm x).dst = finalSave x.1.dst := by
    intro x _
    unfold finishStage
    cases x.2 <;> exact ⟨rfl, rfl⟩
  have hI := h2 _ (h1 _ h0)
  have hf := h3 _ hI
  unfold callVM
  dsimp only
  rw [hf.1, hf.2]
  have hr := reader_final sb hs _ hI.src
  have hw := writer_final db hd _ hI.dst
  exact ⟨⟨hr.1, hr.2.1, hr.2.2.1, hr.2.2.2.1⟩, ⟨hw.1, hw.2.1, hw.2.2.1, hw.2.2.2.1⟩⟩

/-- non-vacuity: a program that copies under an `io_limit`, suspends on an empty source and is
resumed by a second call with more input. -/
example :
    let sb : Buf := { mem := [10, 11, 12], len := 3, ri := 0, wi := 3, pos := 0, closed := false, hasPtr := true }
    let db : Buf := { mem := [0, 0, 0, 0, 0, 0], len := 6, ri := 0, wi := 0, pos := 0, closed := false, hasPtr := true }
    let r1 := callVM [11, 4, 4, 7, 0] ⟨0, 0, 0⟩ sb db
    r1.body.st = .susp kShortRead ∧ r1.src.ri = 3 ∧ r1.dst.wi = 2 ∧ r1.dst.mem = [10, 11, 0, 0, 0, 0] ∧
    r1.vm = ⟨3, 2, 0⟩ ∧
    (let r2 := callVM [11, 4, 4, 7, 0] r1.vm { sb with mem := [10, 11, 12, 13], len := 4, wi := 4, ri := 3 } r1.dst
     r2.body.st = .ok ∧ r2.src.ri = 4 ∧ r2.dst.wi = 3 ∧ r2.dst.mem = [10, 11, 0xA7, 0, 0, 0] ∧ r2.vm.pc = 0) := by
  decide

end WuffsVerif.Props.C08VM
