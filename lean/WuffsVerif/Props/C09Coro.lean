/-
C09 (part: saved coroutine state cannot leak memory garbage).

Every coroutine of a generated struct keeps its resumable locals in `private_data.s_f` — the
second part, which `initialize` leaves untouched under LEAVE_INTERNAL_BUFFERS_UNINITIALIZED —
and its suspension point in `private_impl.p_f`, which `initialize` always zeroes
(`init_leave_uninit_zero_fields`, `Props/C09Zero.lean`).  Over the model of the generated
prologue / epilogue (`Model/CoroFrame.lean`): for ANY computation that touches the frames only
through that protocol, ANY number of coroutines, nesting and call history, the outputs do not
depend on what the `s_f` areas held when the object was initialised.

The invariant: a frame whose `p` is non-zero has an `s` that was stored by an earlier
`suspend:` exit (of the same history), hence is the same in both runs.
-/
import WuffsVerif.Model.CoroFrame

namespace WuffsVerif.Props.C09
open WuffsVerif.CoroFrame

/-- two objects agree on everything except the saved locals of frames that are not suspended -/
def CoroRel {L σ : Type} (a b : Obj L σ) : Prop :=
  a.rest = b.rest ∧
  ∀ f, (a.frames f).p = (b.frames f).p ∧ ((a.frames f).p ≠ 0 → (a.frames f).s = (b.frames f).s)

theorem coroRel_setFrame {L σ : Type} {a b : Obj L σ} (h : CoroRel a b) (f p : Nat) (s1 s2 : L)
    (hs : p ≠ 0 → s1 = s2) : CoroRel (setFrame a f ⟨p, s1⟩) (setFrame b f ⟨p, s2⟩) := by
  refine ⟨h.1, fun g => ?_⟩
  unfold setFrame
  by_cases hg : g = f
  · simp only [hg, ↓reduceIte]
    exact ⟨by trivial, hs⟩
  · simp only [hg, ↓reduceIte]
    exact h.2 g

/-- One call: related objects give the same output and stay related. -/
theorem run_coroRel {L σ Out : Type} (zero : L) (prog : Prog L σ Out) :
    ∀ a b : Obj L σ, CoroRel a b →
      (run zero prog a).2 = (run zero prog b).2 ∧ CoroRel (run zero prog a).1 (run zero prog b).1 := by
  induction prog with
  | ret o => intro a b h; exact ⟨rfl, h⟩
  | enter f k ih =>
    intro a b h
    unfold run
    have hp := (h.2 f).1
    have hs := (h.2 f).2
    by_cases hz : (a.frames f).p = 0
    · have hz' : (b.frames f).p = 0 := by rw [← hp]; exact hz
      simp only [hz, hz', ne_eq, not_true_eq_false, ↓reduceIte]
      exact ih 0 zero a b h
    · have hz' : (b.frames f).p ≠ 0 := by rw [← hp]; exact hz
      simp only [ne_eq, hz, hz', not_false_eq_true, ↓reduceIte]
      rw [← hp, ← hs hz]
      exact ih _ _ a b h
  | leaveOk f k ih =>
    intro a b h
    unfold run
    exact ih _ _ (coroRel_setFrame h f 0 _ _ (fun hne => absurd rfl hne))
  | leaveSuspend f isS n loc k ih =>
    intro a b h
    unfold run
    exact ih _ _ (coroRel_setFrame h f _ loc loc (fun _ => rfl))
  | get k ih =>
    intro a b h
    unfold run
    rw [h.1]
    exact ih _ a b h
  | put v k ih =>
    intro a b h
    unfold run
    exact ih _ _ ⟨rfl, h.2⟩

/-- Any history of calls: related objects give the same outputs. -/
theorem runAll_coroRel {L σ Out : Type} (zero : L) (progs : List (Prog L σ Out)) :
    ∀ a b : Obj L σ, CoroRel a b → runAll zero progs a = runAll zero progs b := by
  induction progs with
  | nil => intro a b _; rfl
  | cons p rest ih =>
    intro a b h
    unfold runAll
    have := run_coroRel zero p a b h
    simp only [this.1, ih _ _ this.2]

/-- `coro_garbage_independent`: after `initialize` (every suspension point `p_f` zero — a
first-part field — and the rest of the state determined), the outputs of every call history
are the same for ANY two contents `g1`, `g2` of the saved-locals areas `s_f`, i.e. whatever
LEAVE_INTERNAL_BUFFERS_UNINITIALIZED left there, for any number of coroutines and any nesting. -/
theorem coro_garbage_independent {L σ Out : Type} (zero : L) (progs : List (Prog L σ Out))
    (rest : σ) (g1 g2 : Nat → L) :
    runAll zero progs ⟨fun f => ⟨0, g1 f⟩, rest⟩ = runAll zero progs ⟨fun f => ⟨0, g2 f⟩, rest⟩ :=
  runAll_coroRel zero progs _ _ ⟨rfl, fun _ => ⟨rfl, fun hne => absurd rfl hne⟩⟩

/-- The guard `if (coro_susp_point)` of the resume block is what the theorem rests on: a
prologue that loaded the saved locals unconditionally would make the very first call depend on
the garbage.  (`leaky` = the same `enter` without the guard.) -/
theorem unguarded_resume_leaks :
    ∃ (g1 g2 : Nat), g1 ≠ g2 ∧
      -- a body that outputs its local right away
      let body : Nat → Nat → Prog Nat Unit Nat := fun _ loc => .ret loc
      -- guarded (real) prologue: both runs output the zero-initialised local
      (run 0 (.enter 0 body) ⟨fun _ => ⟨0, g1⟩, ()⟩).2 = (run 0 (.enter 0 body) ⟨fun _ => ⟨0, g2⟩, ()⟩).2 ∧
      -- unguarded load: the outputs are the two garbage values
      (run 0 (body 0 g1) ⟨fun _ => ⟨0, g1⟩, ()⟩).2 ≠ (run 0 (body 0 g2) ⟨fun _ => ⟨0, g2⟩, ()⟩).2 :=
  ⟨1, 2, by decide, by decide, by decide⟩

/-- non-vacuity: a two-call history (suspend at point 3 saving the local 7, then resume) really
resumes with the saved local, and the initial garbage (5 vs 9) never shows. -/
example :
    let call1 : Prog Nat Unit Nat := .enter 0 (fun csp loc => .leaveSuspend 0 true 3 (loc + 7) (.ret (csp + loc)))
    let call2 : Prog Nat Unit Nat := .enter 0 (fun csp loc => .leaveOk 0 (.ret (100 * csp + loc)))
    runAll 0 [call1, call2, call2] ⟨fun _ => ⟨0, 5⟩, ()⟩ = [0, 307, 0] ∧
    runAll 0 [call1, call2, call2] ⟨fun _ => ⟨0, 9⟩, ()⟩ = [0, 307, 0] := by decide

end WuffsVerif.Props.C09
