/-
C07 part 2: CRC-32/IEEE (std/crc32) and CRC-64/ECMA (std/crc64).

The lookup tables are the ones REGENERATED from the .wuffs sources (`Gen/C07_Tables.lean`);
`decide +kernel` re-checks all 16×256 + 8×256 entries against the bit-serial LFSR on every
build, so an edited table entry breaks `crc32_table_eq_spec` / `crc64_table_eq_spec`.
-/
import WuffsVerif.Proof.StdHashCrc

namespace WuffsVerif.Props.C07
open WuffsVerif.StdHash WuffsVerif.Gen.C07

/-- The regenerated CRC-32 tables (all 16×256 entries) equal the tables recomputed from the
    polynomial alone: row 0 = 8 LFSR bit steps of every byte value, row k+1 = 8 more steps. -/
theorem crc32_tables_check : tablesCheck crc32Table 0xEDB88320 16 = true := by
  decide +kernel

theorem crc64_tables_check : tablesCheck crc64Table 0xC96C5795D7870F42 8 = true := by
  decide +kernel

/-- **crc32_table_eq_spec**: `IEEE_TABLE[k][i] = L^(k+1)(i)` for all 16 tables, where `L` is
    8 steps of the bit-serial reflected LFSR with polynomial 0xEDB88320. -/
theorem crc32_table_eq_spec (k : Nat) (hk : k < 16) : TableOK crc32Table crc32Poly k :=
  tableOK_of_check (by omega) _ _ 16 (by rw [show crc32Poly.toNat = 0xEDB88320 from rfl]; exact crc32_tables_check) k hk

/-- same for `ECMA_TABLE` (8 tables, polynomial 0xC96C5795D7870F42) -/
theorem crc64_table_eq_spec (k : Nat) (hk : k < 8) : TableOK crc64Table crc64Poly k :=
  tableOK_of_check (by omega) _ _ 8 (by rw [show crc64Poly.toNat = 0xC96C5795D7870F42 from rfl]; exact crc64_tables_check) k hk

/-- **crc32_bytewise_eq_spec**: the byte-at-a-time table loop (the `else` arm of the iterate
    loop in `ieee_hasher.up`) equals the bit-serial definition, for every register value and
    every byte string. -/
theorem crc32_bytewise_eq_spec (s : BitVec 32) (x : List UInt8) :
    crcBytewise crc32Table s x = crcSpecFold crc32Poly s x :=
  crcBytewise_eq_spec (by omega) _ _ (crc32_table_eq_spec 0 (by omega)) s x

theorem crc64_bytewise_eq_spec (s : BitVec 64) (x : List UInt8) :
    crcBytewise crc64Table s x = crcSpecFold crc64Poly s x :=
  crcBytewise_eq_spec (by omega) _ _ (crc64_table_eq_spec 0 (by omega)) s x

/-- **crc_spec_split**: the specification is split-independent. -/
theorem crc32_spec_split (st : BitVec 32) (a b : List UInt8) :
    crcSpecUp crc32Poly (crcSpecUp crc32Poly st a) b = crcSpecUp crc32Poly st (a ++ b) :=
  crcSpecUp_append _ _ _ _

end WuffsVerif.Props.C07
