/-
C07 part 2: CRC-32/IEEE (std/crc32) and CRC-64/ECMA (std/crc64).

The lookup tables are the ones REGENERATED from the .wuffs sources (`Gen/C07_Tables.lean`);
`decide +kernel` re-checks all 16×256 + 8×256 entries against the bit-serial LFSR on every
build, so an edited table entry breaks `crc32_table_eq_spec` / `crc64_table_eq_spec`.
-/
import WuffsVerif.Proof.StdHashCrc

namespace WuffsVerif.Props.C07
open WuffsVerif.StdHash WuffsVerif.Gen.C07

/-- every entry of every regenerated CRC-32 table: `TABLE[k][i] = L^(k+1)(i)`, `L` = 8 bit steps -/
theorem crc32_tables_check : (List.range 16).all (fun k => tableOKb 32 crc32Table crc32Poly k) = true := by
  decide +kernel

theorem crc64_tables_check : (List.range 8).all (fun k => tableOKb 64 crc64Table crc64Poly k) = true := by
  decide +kernel

/-- **crc32_table_eq_spec** (all 16 tables, not only table 0). -/
theorem crc32_table_eq_spec (k : Nat) (hk : k < 16) : TableOK crc32Table crc32Poly k := by
  have h := crc32_tables_check
  rw [List.all_eq_true] at h
  exact tableOK_of_b _ _ _ (h k (List.mem_range.mpr hk))

theorem crc64_table_eq_spec (k : Nat) (hk : k < 8) : TableOK crc64Table crc64Poly k := by
  have h := crc64_tables_check
  rw [List.all_eq_true] at h
  exact tableOK_of_b _ _ _ (h k (List.mem_range.mpr hk))

/-- **crc32_bytewise_eq_spec**: the byte-at-a-time table loop (the `else` arm of the iterate
    loop in `ieee_hasher.up`) equals the bit-serial definition, for every register value and
    every byte string. -/
theorem crc32_bytewise_eq_spec (s : BitVec 32) (x : List UInt8) :
    crcBytewise crc32Table s x = crcSpecFold crc32Poly s x :=
  crcBytewise_eq_spec (by omega) _ _ (crc32_table_eq_spec 0 (by omega)) s x

theorem crc64_bytewise_eq_spec (s : BitVec 64) (x : List UInt8) :
    crcBytewise crc64Table s x = crcSpecFold crc64Poly s x :=
  crcBytewise_eq_spec (by omega) _ _ (crc64_table_eq_spec 0 (by omega)) s x

/-- **crc_spec_split**: the specification is split-independent. -/
theorem crc32_spec_split (st : BitVec 32) (a b : List UInt8) :
    crcSpecUp crc32Poly (crcSpecUp crc32Poly st a) b = crcSpecUp crc32Poly st (a ++ b) :=
  crcSpecUp_append _ _ _ _

end WuffsVerif.Props.C07
