/-
C06 — bit-and / bit-or of intervals (`IntRange.And`, `IntRange.Or`).

* the model's two's-complement `Int` operations are Mathlib's `Int.land/lor/lnot`;
* `And`/`Or` never panic (`bitFillRight` is never applied to a negative value, no
  "pre-condition failure", no "unreachable");
* soundness for all operands (finite, half-infinite, infinite, empty);
* tightness when all four bounds are finite — i.e. correctness of the maximal-element
  bit-fill algorithms `andMax` / `orMax` (both the `xMin = yMin = 0` fast path and the general
  path, for the non-negative boxes and for the all-negative boxes the code feeds them via `~`).
Helper lemmas: `Proof/IntBits.lean`, `Proof/IntervalBits.lean`, `Proof/IntervalAndOr*.lean`.
-/
import WuffsVerif.Proof.IntervalAndOrTop

namespace WuffsVerif.Props.C06
open WuffsVerif.Interval

/-! ## the model's bit operations are the library's -/

theorem iand_is_land (a b : Int) : iand a b = Int.land a b := iand_eq_land a b
theorem ior_is_lor (a b : Int) : ior a b = Int.lor a b := ior_eq_lor a b
theorem inot_is_lnot (a : Int) : inot a = Int.lnot a := inot_eq_lnot a

/-- two's-complement bit characterisation of the model's operations -/
theorem bitops_testBit (a b : Int) (n : Nat) :
    (iand a b).testBit n = (a.testBit n && b.testBit n) ∧
    (ior a b).testBit n = (a.testBit n || b.testBit n) ∧
    (inot a).testBit n = !(a.testBit n) ∧
    (iandNot a b).testBit n = (a.testBit n && !(b.testBit n)) ∧
    (a >>> (1 : Nat)).testBit n = a.testBit (n + 1) :=
  ⟨tb_iand a b n, tb_ior a b n, tb_inot a n, tb_iandNot a b n, tb_shr1 a n⟩

/-- `bitFillRight` on its domain: bit `n` of the result is set iff the argument has a set bit
at or above `n` (i.e. the result is `2^bitlen - 1`) -/
theorem bitFillRight_testBit {a : Int} (h : 0 ≤ a) (n : Nat) :
    (bitFillRight a).testBit n = true ↔ ∃ m, n ≤ m ∧ a.testBit m = true :=
  tb_bitFillRight h n

/-! ## `andMax` / `orMax` are exact on sign-uniform boxes -/

/-- `orMax` is the maximum of `x | y` over the box (non-negative or all-negative bounds). -/
theorem orMax_is_max {xl xh yl yh : Int} (hx : xl ≤ xh) (hy : yl ≤ yh)
    (hs : (0 ≤ xl ∧ 0 ≤ yl) ∨ (xh < 0 ∧ yh < 0)) :
    (∀ x y, xl ≤ x → x ≤ xh → yl ≤ y → y ≤ yh → ior x y ≤ orMax xl xh yl yh) ∧
    (∃ x y, xl ≤ x ∧ x ≤ xh ∧ yl ≤ y ∧ y ≤ yh ∧ ior x y = orMax xl xh yl yh) :=
  ⟨fun _ _ h1 h2 h3 h4 => orMax_ub h1 h2 h3 h4 (by omega) (by omega) (by omega),
   orMax_att hx hy (by omega) (by omega)⟩

/-- `andMax` is the maximum of `x & y` over the box (non-negative or all-negative bounds). -/
theorem andMax_is_max {xl xh yl yh : Int} (hx : xl ≤ xh) (hy : yl ≤ yh)
    (hs : (0 ≤ xl ∧ 0 ≤ yl) ∨ (xh < 0 ∧ yh < 0)) :
    (∀ x y, xl ≤ x → x ≤ xh → yl ≤ y → y ≤ yh → iand x y ≤ andMax xl xh yl yh) ∧
    (∃ x y, xl ≤ x ∧ x ≤ xh ∧ yl ≤ y ∧ y ≤ yh ∧ iand x y = andMax xl xh yl yh) :=
  ⟨fun _ _ h1 h2 h3 h4 => andMax_ub h1 h2 h3 h4 (by omega) (by omega) (by omega),
   andMax_att hx hy (by omega) (by omega)⟩

example : andMax 1 3 4 9 = 3 ∧ andMax 7 7 12 14 = 6 ∧ orMax 1 3 4 9 = 11 ∧ orMax 3 4 5 6 = 7 := by
  decide

/-- `bitFillRight` is never applied to a negative value inside `andMax`/`orMax` (the Go code
would panic): on sign-uniform boxes the panic-tracking versions return the pure value. -/
theorem bitFillRight_arg_nonneg {xl xh yl yh : Int}
    (hs : (0 ≤ xl ∧ 0 ≤ xh ∧ 0 ≤ yl ∧ 0 ≤ yh) ∨ (xl < 0 ∧ xh < 0 ∧ yl < 0 ∧ yh < 0)) :
    andMaxP xl xh yl yh = some (andMax xl xh yl yh) ∧
    orMaxP xl xh yl yh = some (orMax xl xh yl yh) :=
  ⟨andMaxP_eq (by omega) (by omega), orMaxP_eq (by omega) (by omega)⟩

/-! ## `And` / `Or` -/

/-- `And` never panics: for all operands (incl. empty and infinite ones) it returns. -/
theorem and_total (X Y : IR) : ∃ Z, Interval.and X Y = some Z := by
  cases ex : X.empty with
  | true => exact ⟨mkEmpty, by unfold Interval.and; simp [ex]⟩
  | false =>
    cases ey : Y.empty with
    | true => exact ⟨mkEmpty, by unfold Interval.and; simp [ey]⟩
    | false =>
      obtain ⟨Z, hZ, _⟩ := and_spec X Y ex ey
      exact ⟨Z, hZ⟩

/-- `Or` never panics. -/
theorem or_total (X Y : IR) : ∃ Z, Interval.or X Y = some Z := by
  cases ex : X.empty with
  | true => exact ⟨mkEmpty, by unfold Interval.or; simp [ex]⟩
  | false =>
    cases ey : Y.empty with
    | true => exact ⟨mkEmpty, by unfold Interval.or; simp [ey]⟩
    | false =>
      obtain ⟨Z, hZ, _⟩ := or_spec X Y ex ey
      exact ⟨Z, hZ⟩

/-- Soundness of `And`: the result contains `x & y` for all members. -/
theorem and_sound (X Y Z : IR) (x y : Int) (hx : X.mem x) (hy : Y.mem y)
    (hz : Interval.and X Y = some Z) : Z.mem (iand x y) := by
  obtain ⟨Z', hZ', hs, _⟩ := and_spec X Y (Interval.not_empty_of_mem hx)
    (Interval.not_empty_of_mem hy)
  rw [hZ'] at hz; cases hz
  exact hs x y hx hy

/-- Soundness of `Or`. -/
theorem or_sound (X Y Z : IR) (x y : Int) (hx : X.mem x) (hy : Y.mem y)
    (hz : Interval.or X Y = some Z) : Z.mem (ior x y) := by
  obtain ⟨Z', hZ', hs, _⟩ := or_spec X Y (Interval.not_empty_of_mem hx)
    (Interval.not_empty_of_mem hy)
  rw [hZ'] at hz; cases hz
  exact hs x y hx hy

/-- Tightness of `And` for four finite bounds (any signs): both result bounds are attained. -/
theorem and_tight (X Y : IR) {xl xh yl yh : Int} (hxl : X.lo = some xl) (hxh : X.hi = some xh)
    (hyl : Y.lo = some yl) (hyh : Y.hi = some yh) (ex : X.empty = false) (ey : Y.empty = false) :
    ∃ Z, Interval.and X Y = some Z ∧ TightHull iand X Y Z := by
  obtain ⟨Z, hZ, _, ht⟩ := and_spec X Y ex ey
  exact ⟨Z, hZ, ht ⟨xl, xh, yl, yh, hxl, hxh, hyl, hyh⟩⟩

/-- Tightness of `Or` for four finite bounds (any signs). -/
theorem or_tight (X Y : IR) {xl xh yl yh : Int} (hxl : X.lo = some xl) (hxh : X.hi = some xh)
    (hyl : Y.lo = some yl) (hyh : Y.hi = some yh) (ex : X.empty = false) (ey : Y.empty = false) :
    ∃ Z, Interval.or X Y = some Z ∧ TightHull ior X Y Z := by
  obtain ⟨Z, hZ, _, ht⟩ := or_spec X Y ex ey
  exact ⟨Z, hZ, ht ⟨xl, xh, yl, yh, hxl, hxh, hyl, hyh⟩⟩

/-- non-vacuity: sign-straddling, non-overlapping and half-infinite instances -/
example : Interval.and ⟨some (-5), some 9⟩ ⟨some 3, some 12⟩ = some ⟨some 0, some 12⟩ := by decide
example : Interval.or ⟨some 1, some 3⟩ ⟨some 4, some 9⟩ = some ⟨some 5, some 11⟩ := by decide
example : Interval.or ⟨some 2, some 3⟩ ⟨some 8, none⟩ = some ⟨some 10, none⟩ := by decide
example : Interval.and ⟨some (-7), some (-2)⟩ ⟨some 5, none⟩ = some ⟨some 0, none⟩ := by decide

end WuffsVerif.Props.C06
