/-
C05 — coroutine results do not depend on where the I/O streams are split.

Models: `Model/Liveness.lean` (internal/cgen/liveness.go), `Model/LivenessSem.lean` (paths of the
abstract statement language), `Model/Scratch.lean` (the scratch-word machines of
internal/cgen/builtin.go and the chunk driver). Helper lemmas: `Proof/Liveness*.lean`.
-/
import WuffsVerif.Proof.LivenessTop
import WuffsVerif.Proof.ScratchProg
import WuffsVerif.Proof.LivenessLockstep
import WuffsVerif.Gen.C05_Tables

namespace WuffsVerif.Props.C05
open WuffsVerif.Liveness

/-- `liveness_terminates` (lattice-height half): a pass of `doWhile` that changes one of the
loop's two slices strictly lowers `Loop.height ≤ 4·n`; `fixLoopWF` (the unbounded iteration
itself) is accepted by Lean's termination checker on exactly this measure. -/
theorem liveness_height_decreases {n : Nat} (l m : Loop n) (h : l.join m ≠ l) :
    (l.join m).height < l.height ∧ l.height ≤ 4 * n :=
  ⟨Loop.height_join_lt l m h, by unfold Loop.height; omega⟩

/-- `doExpr` is correct on every way an expression can run (plain, I/O built-in suspending any
number of times, other coroutine call re-issued after every suspension). -/
theorem doExpr_segment {n : Nat} (v : Nat) (hv : v < n) (r : Lv n) (e : Ex) (es : List Ev)
    (h : ExprPath e es) : Seg v es (r.get v) ((doExpr r e).get v) :=
  Seg.doExpr v r hv e h

/-- The model's `fixLoop` (at most `Loop.height + 1 ≤ 4·n + 1` passes, structural recursion so
that the kernel can run it) is `doWhile`'s unbounded iteration `fixLoopWF`, which Lean's
termination checker accepts on the lattice-height measure. -/
theorem liveness_iteration_bounded {n : Nat} (step : Loop n → St n → Loop n × St n) (l : Loop n) (σ : St n) :
    fixLoop step l σ = fixLoopWF step l σ ∧ l.height + 1 ≤ 4 * n + 1 :=
  ⟨fixLoop_eq_wf step l σ, by unfold Loop.height; omega⟩

/-- `fixLoop` — the iteration of `doWhile` — returns a fixed point: one more pass from the
returned slices (and the analysis state `σi` the last pass started from) changes nothing; the
bound on the number of passes is never what stops it. -/
theorem liveness_terminates {n : Nat} (step : Loop n → St n → Loop n × St n) (l : Loop n) (σ : St n) :
    ∃ σi, (fixLoop step l σ).1.join (step (fixLoop step l σ).1 σi).1 = (fixLoop step l σ).1 ∧
      (fixLoop step l σ).2 = (step (fixLoop step l σ).1 σi).2 := by
  obtain ⟨σi, _, h1, h2⟩ := fixLoop_spec step (fun _ _ => True) (fun _ _ _ => trivial) l σ trivial
  exact ⟨σi, h1, h2⟩

/-- **liveness_sound.** For every abstract program `body` with `n` locals, every variable `v`
that the analysis leaves non-resumable (`findVars … ≠ strong`, i.e. `varResumables[v] = false`),
and every path `es` through the body — complete, or cut at any loop head, so every finite
prefix of a non-terminating run counts — every read of `v` on the path that comes after a
suspension has a write of `v` between that suspension and the read. -/
theorem liveness_sound (n : Nat) (body : List Stmt) (v : Nat) (hv : v < n)
    (hnr : (findVars n body).get v ≠ Lness.strong)
    (es : List Ev) (o : Out) (hp : blockPaths body es o)
    (pre post : List Ev) (hes : es = pre ++ Ev.rd v :: post)
    (a b : List Ev) (hpre : pre = a ++ Ev.susp :: b) : Ev.wr v ∈ b := by
  have h := findVars_sound n body v hv hnr es o hp
  cases hm : decide (Ev.wr v ∈ b) with
  | true => simpa using hm
  | false =>
    exfalso
    have hnb : Ev.wr v ∉ b := by simpa using hm
    have : viol v false es = true :=
      (viol_spec v es false).mpr ⟨pre, post, hes, (taint_spec v pre false).mpr (Or.inr ⟨a, b, hpre, hnb⟩)⟩
    rw [h] at this
    cases this

/-- The same, for the list the driver prints. -/
theorem liveness_sound_resumables (n : Nat) (body : List Stmt) (v : Nat) (hv : v < n)
    (hnr : v ∉ resumables n body) (es : List Ev) (o : Out) (hp : blockPaths body es o) :
    viol v false es = false := by
  apply findVars_sound n body v hv _ es o hp
  intro hs
  apply hnr
  simp [resumables, hv, hs]

/-- non-vacuity: `x = read?; y = read?; write?(x); while true { yield }` — the probe that the
unrepaired `doWhile` got wrong (`x` was judged non-resumable). With the repair both are saved. -/
example : resumables 2
    [.var 0, .var 1, .assign .eq (.var 0) ⟨true, true, [], 0⟩, .assign .eq (.var 1) ⟨true, true, [], 0⟩,
     .assign .eq .none ⟨true, true, [0], 0⟩, .assign .eq .none ⟨true, true, [1], 0⟩,
     .while true ⟨false, false, [], 0⟩ [.ret true ⟨false, false, [], 0⟩]] = [0, 1] := by decide +kernel

/-- non-vacuity: a variable whose uses all lie between two consecutive suspension points is not
saved (`j` of the comment at the top of liveness.go), and a path with a read after a suspension
does exist for the saved one. -/
example : resumables 2
    [.assign .eq (.var 0) ⟨false, false, [], 0⟩, .ret true ⟨false, false, [], 0⟩,
     .assign .eq (.var 1) ⟨false, false, [0], 0⟩, .assign .eq .none ⟨true, true, [1], 0⟩] = [0] := by decide +kernel

/-! ## Saving only the resumable variables is the ideal semantics -/

/-- The variables the generated C keeps across a suspension: `varResumables` (indexes at or
above `n` are not variables of the function). -/
def savedSet (n : Nat) (body : List Stmt) : Nat → Bool :=
  fun v => decide (v ∈ resumables n body) || decide (n ≤ v)

/-- **saved_equiv_ideal.** Over the abstract store semantics of `Model/LivenessRun.lean`: for
every program `body` with `n` locals, every world type `W` and interpretation `cfg` of what the
abstraction forgot (the value of each expression occurrence as a function of the world and of
the locals it mentions — hence every input and every branch —, its effect on the world, how
often each coroutine call suspends, i.e. every suspension pattern), every fuel and every initial
state, the run in which only `resumables n body` survive a suspension (all other locals restart
at 0, as the generated C's re-declared locals do) and the ideal run (all locals persist) leave
the body the same way, with the same events, the same log of computed values, the same world,
and stores that agree on every saved variable. -/
theorem saved_equiv_ideal {W : Type} (n : Nat) (body : List Stmt) (cfg : Cfg W) (fuel : Nat) (st0 : RState W) :
    let rS := run (savedSet n body) cfg fuel (Task.block body) st0
    let rI := run allSaved cfg fuel (Task.block body) st0
    rI.out = rS.out ∧ rI.evs = rS.evs ∧ rI.st.log = rS.st.log ∧ rI.st.w = rS.st.w ∧
      ∀ v, savedSet n body v = true → rI.st.store v = rS.st.store v := by
  intro rS rI
  have hpath : blockPaths body rS.evs rS.out := run_path (savedSet n body) cfg fuel (Task.block body) st0
  have hnv : NoViol (savedSet n body) (fun _ => false) rS.evs := by
    intro v hv
    simp only [savedSet, Bool.or_eq_false_iff, decide_eq_false_iff_not, Nat.not_le] at hv
    exact liveness_sound_resumables n body v hv.2 hv.1 rS.evs rS.out hpath
  have hsim := run_lockstep (savedSet n body) cfg fuel (Task.block body) (fun _ => false) st0 st0
    ⟨rfl, rfl, fun _ _ => rfl⟩ hnv
  exact ⟨hsim.out, hsim.evs, hsim.st.log, hsim.st.w, fun v hv => hsim.st.agree v (Or.inl hv)⟩

/-- `x = …; yield; y = f(x); write_u8?(y)`, all calls suspending once -/
def exBody : List Stmt := [.assign .eq (.var 0) ⟨false, false, [], 0⟩, .ret true ⟨false, false, [], 0⟩,
  .assign .eq (.var 1) ⟨false, false, [0], 0⟩, .assign .eq .none ⟨true, true, [1], 0⟩]
/-- the world is a step counter -/
def exCfg : Cfg Nat := ⟨fun _ t vs => t + 7 + vs.sum, fun _ t _ => t + 1, fun _ _ _ => 1, fun _ a b => a + b⟩

/-- non-vacuity: the suspensions really happen, the non-saved variable (index 1, never live
across a suspension) is really reset in the saved run and not in the ideal run, and the logs of
the two runs are the same non-empty list. -/
example :
    (run (savedSet 2 exBody) exCfg 10 (Task.block exBody) ⟨fun _ => 0, 0, []⟩).st.log = [7, 8, 16, 26] ∧
    (run allSaved exCfg 10 (Task.block exBody) ⟨fun _ => 0, 0, []⟩).st.log = [7, 8, 16, 26] ∧
    (run (savedSet 2 exBody) exCfg 10 (Task.block exBody) ⟨fun _ => 0, 0, []⟩).st.store 1 = 0 ∧
    (run allSaved exCfg 10 (Task.block exBody) ⟨fun _ => 0, 0, []⟩).st.store 1 = 16 := by
  decide +kernel

/-! ## The scratch-word machines (builtin.go) -/

open WuffsVerif.Scratch

def rowOK (m : RdMethod) : Bool :=
  m.n == 8 || (decide (16 ≤ m.n) && decide (m.n ≤ 64) && m.n % 8 == 0 && decide (m.n ≤ m.size))

theorem rowOK_sound (m : RdMethod) (h : rowOK m = true) : m.n = 8 ∨ m.Valid := by
  unfold rowOK at h
  simp only [Bool.or_eq_true, beq_iff_eq, Bool.and_eq_true, decide_eq_true_eq] at h
  rcases h with h | ⟨⟨⟨h1, h2⟩, h3⟩, h4⟩
  · exact Or.inl h
  · exact Or.inr ⟨h1, h2, h3, h4⟩

/-- Every row of the regenerated `readMethods` table (builtin.go) is a one-byte read or a
well-formed multi-byte read: 16 ≤ xx ≤ 64, 8 ∣ xx, xx ≤ yy. (Breaks if the table changes shape.) -/
theorem readMethods_rows_ok : ∀ p ∈ WuffsVerif.Gen.C05.readMethods, rowOK p.2 = true := by decide

/-- **scratch_read_correct.** For each row `(yy, xx, endianness)` of the regenerated `readMethods`
table and EVERY byte sequence delivered in ANY split across resumptions (`pending` is what the
first call sees, `future` the chunks supplied at each later `$short read`, empty chunks allowed):
if at least `xx/8` bytes arrive in total, the machine — fast path, or the `scratch`/`num_bits`
loop resumed as often as needed — ends with exactly `peek_uXXYe` of the first `xx/8` bytes of the
concatenation, has advanced `iop` by `xx/8` in total, and leaves the rest of the stream unread;
otherwise it ends starved (`$short read` on a closed source) having consumed everything. -/
theorem scratch_read_correct (name : String) (m : RdMethod)
    (hrow : (name, m) ∈ WuffsVerif.Gen.C05.readMethods)
    (pending : List UInt8) (future : List (List UInt8)) (c s : Nat) :
    (m.n / 8 ≤ (pending ++ future.flatten).length →
      ∃ src, readGo m RdSt.start pending c s future =
          (some (peek m.be ((pending ++ future.flatten).take (m.n / 8))), src) ∧
        src.consumed = c + m.n / 8 ∧
        src.pending ++ src.future.flatten = (pending ++ future.flatten).drop (m.n / 8)) ∧
    (¬ m.n / 8 ≤ (pending ++ future.flatten).length →
      ∃ s', readGo m RdSt.start pending c s future =
        (none, ⟨[], [], c + (pending ++ future.flatten).length, s'⟩)) := by
  rcases rowOK_sound m (readMethods_rows_ok (name, m) hrow) with h8 | hv
  · have := read8Go_spec m h8 future pending c s
    simpa [h8] using this
  · have := readGo_spec m hv future RdSt.start [] pending c s (Or.inl ⟨rfl, rfl⟩)
      (by have := hv.lo; simp; omega)
    simpa using this

/-- non-vacuity: `read_u24le_as_u64?` of 01 02 03 delivered as 01 | (nothing) | 02 | 03 ff. -/
example : ("read_u24le_as_u64", (⟨64, 24, false⟩ : RdMethod)) ∈ WuffsVerif.Gen.C05.readMethods ∧
    (readGo ⟨64, 24, false⟩ RdSt.start [1] 0 0 [[], [2], [3, 255]]).1 = some 0x030201 := by
  decide

/-- `skip?` / `skip_u32?` (count kept in `scratch` across suspensions): skips exactly `n` bytes of
the concatenated stream however it is split, or starves having consumed everything. -/
theorem scratch_skip_correct (n : Nat) (pending : List UInt8) (future : List (List UInt8)) (c s : Nat) :
    (n ≤ (pending ++ future.flatten).length →
      ∃ src, skipGo n pending c s future = (true, src) ∧ src.consumed = c + n ∧
        src.pending ++ src.future.flatten = (pending ++ future.flatten).drop n) ∧
    (¬ n ≤ (pending ++ future.flatten).length →
      ∃ s', skipGo n pending c s future = (false, ⟨[], [], c + (pending ++ future.flatten).length, s'⟩)) :=
  skipGo_spec future n pending c s

/-- `write_u8?` (value kept in `scratch`): whatever the sequence of destination capacity pieces
(zero-sized ones included), exactly the one byte is appended. -/
theorem scratch_write_correct (v room : Nat) (out : List UInt8) (ns : Nat) (pieces : List Nat) :
    (writeGo v room out ns pieces).1.out = out ++ [UInt8.ofNat (v % 256)] :=
  writeGo_out v pieces room out ns

/-- **split_independent_straightline.** For straight-line programs whose only I/O operations are
the suspending built-ins (`read_uXXYe?` for the rows of `readMethods`, `skip?`, `skip?(n: 1)`,
`write_u8?`), any two partitions of the source bytes into chunks and of the destination capacity
into pieces give the same final status, observable state (registers), output bytes and consumed
count — namely those of the one-shot meaning `runSeq`. (This is the `prog` op of the driver, run
next to the compiled probe coroutines. Programs WITH control flow, run as the generated C runs
them: `split_independent_F3s` in Props/C05Split.lean.) -/
theorem split_independent_straightline (prog : List POp) (hok : ∀ op ∈ prog, op.OK)
    (src1 dst1 src2 dst2 : List Nat) (bs : List UInt8) :
    obs (runProgram prog src1 dst1 bs) = obs (runProgram prog src2 dst2 bs) := by
  rw [runProgram_eq_runSeq prog hok, runProgram_eq_runSeq prog hok]

/-- non-vacuity: a program that runs to completion and writes output. -/
example : obs (runProgram [POp.rd ⟨16, 16, true⟩ 0, POp.skip1, POp.rd ⟨8, 8, true⟩ 1, POp.wr BinF.add 0 1]
      [1, 0, 1] [0, 1] [1, 2, 3, 4]) = ⟨PStatus.ok, [0x0102, 4], [6], 4⟩ := by decide

end WuffsVerif.Props.C05
