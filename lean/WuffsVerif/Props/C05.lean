/-
C05 — coroutine results do not depend on where the I/O streams are split.

Models: `Model/Liveness.lean` (internal/cgen/liveness.go), `Model/LivenessSem.lean` (paths of the
abstract statement language), `Model/Scratch.lean` (the scratch-word machines of
internal/cgen/builtin.go and the chunk driver). Helper lemmas: `Proof/Liveness*.lean`.
-/
import WuffsVerif.Proof.LivenessTop
import WuffsVerif.Gen.C05_Tables

namespace WuffsVerif.Props.C05
open WuffsVerif.Liveness

/-- `liveness_terminates` (lattice-height half): a pass of `doWhile` that changes one of the
loop's two slices strictly lowers `Loop.height ≤ 4·n`; `fixLoop` (the iteration itself) is
accepted by Lean's termination checker on exactly this measure. -/
theorem liveness_height_decreases {n : Nat} (l m : Loop n) (h : l.join m ≠ l) :
    (l.join m).height < l.height ∧ l.height ≤ 4 * n :=
  ⟨Loop.height_join_lt l m h, by unfold Loop.height; omega⟩

/-- `doExpr` is correct on every way an expression can run (plain, I/O built-in suspending any
number of times, other coroutine call re-issued after every suspension). -/
theorem doExpr_segment {n : Nat} (v : Nat) (hv : v < n) (r : Lv n) (e : Ex) (es : List Ev)
    (h : ExprPath e es) : Seg v es (r.get v) ((doExpr r e).get v) :=
  Seg.doExpr v r hv e h

/-- `fixLoop` — the iteration of `doWhile`, total by Lean's termination checker — returns a
fixed point: one more pass from the returned slices (and the analysis state `σi` the last pass
started from) changes nothing. -/
theorem liveness_terminates {n : Nat} (step : Loop n → St n → Loop n × St n) (l : Loop n) (σ : St n) :
    ∃ σi, (fixLoop step l σ).1.join (step (fixLoop step l σ).1 σi).1 = (fixLoop step l σ).1 ∧
      (fixLoop step l σ).2 = (step (fixLoop step l σ).1 σi).2 := by
  obtain ⟨σi, _, h1, h2⟩ := fixLoop_spec step (fun _ _ => True) (fun _ _ _ => trivial) l σ trivial
  exact ⟨σi, h1, h2⟩

/-- **liveness_sound.** For every abstract program `body` with `n` locals, every variable `v`
that the analysis leaves non-resumable (`findVars … ≠ strong`, i.e. `varResumables[v] = false`),
and every path `es` through the body — complete, or cut at any loop head, so every finite
prefix of a non-terminating run counts — every read of `v` on the path that comes after a
suspension has a write of `v` between that suspension and the read. -/
theorem liveness_sound (n : Nat) (body : List Stmt) (v : Nat) (hv : v < n)
    (hnr : (findVars n body).get v ≠ Lness.strong)
    (es : List Ev) (o : Out) (hp : blockPaths body es o)
    (pre post : List Ev) (hes : es = pre ++ Ev.rd v :: post)
    (a b : List Ev) (hpre : pre = a ++ Ev.susp :: b) : Ev.wr v ∈ b := by
  have h := findVars_sound n body v hv hnr es o hp
  cases hm : decide (Ev.wr v ∈ b) with
  | true => simpa using hm
  | false =>
    exfalso
    have hnb : Ev.wr v ∉ b := by simpa using hm
    have : viol v false es = true :=
      (viol_spec v es false).mpr ⟨pre, post, hes, (taint_spec v pre false).mpr (Or.inr ⟨a, b, hpre, hnb⟩)⟩
    rw [h] at this
    cases this

/-- The same, for the list the driver prints. -/
theorem liveness_sound_resumables (n : Nat) (body : List Stmt) (v : Nat) (hv : v < n)
    (hnr : v ∉ resumables n body) (es : List Ev) (o : Out) (hp : blockPaths body es o) :
    viol v false es = false := by
  apply findVars_sound n body v hv _ es o hp
  intro hs
  apply hnr
  simp [resumables, hv, hs]

/-- non-vacuity: `x = read?; y = read?; write?(x); while true { yield }` — the probe that the
unrepaired `doWhile` got wrong (`x` was judged non-resumable). With the repair both are saved. -/
example : resumables 2
    [.var 0, .var 1, .assign .eq (.var 0) ⟨true, true, []⟩, .assign .eq (.var 1) ⟨true, true, []⟩,
     .assign .eq .none ⟨true, true, [0]⟩, .assign .eq .none ⟨true, true, [1]⟩,
     .while true ⟨false, false, []⟩ [.ret true ⟨false, false, []⟩]] = [0, 1] := by decide +kernel

/-- non-vacuity: a variable whose uses all lie between two consecutive suspension points is not
saved (`j` of the comment at the top of liveness.go), and a path with a read after a suspension
does exist for the saved one. -/
example : resumables 2
    [.assign .eq (.var 0) ⟨false, false, []⟩, .ret true ⟨false, false, []⟩,
     .assign .eq (.var 1) ⟨false, false, [0]⟩, .assign .eq .none ⟨true, true, [1]⟩] = [0] := by decide +kernel

end WuffsVerif.Props.C05
