/-
C05 — coroutine results do not depend on where the I/O streams are split.

Models: `Model/Liveness.lean` (internal/cgen/liveness.go), `Model/LivenessSem.lean` (paths of the
abstract statement language), `Model/Scratch.lean` (the scratch-word machines of
internal/cgen/builtin.go and the chunk driver). Helper lemmas: `Proof/Liveness*.lean`.
-/
import WuffsVerif.Proof.LivenessSound
import WuffsVerif.Gen.C05_Tables

namespace WuffsVerif.Props.C05
open WuffsVerif.Liveness

/-- `liveness_terminates` (lattice-height half): a pass of `doWhile` that changes one of the
loop's two slices strictly lowers `Loop.height ≤ 4·n`; `fixLoop` (the iteration itself) is
accepted by Lean's termination checker on exactly this measure. -/
theorem liveness_height_decreases {n : Nat} (l m : Loop n) (h : l.join m ≠ l) :
    (l.join m).height < l.height ∧ l.height ≤ 4 * n :=
  ⟨Loop.height_join_lt l m h, by unfold Loop.height; omega⟩

/-- `doExpr` is correct on every way an expression can run (plain, I/O built-in suspending any
number of times, other coroutine call re-issued after every suspension). -/
theorem doExpr_segment {n : Nat} (v : Nat) (hv : v < n) (r : Lv n) (e : Ex) (es : List Ev)
    (h : ExprPath e es) : Seg v es (r.get v) ((doExpr r e).get v) :=
  Seg.doExpr v r hv e h

end WuffsVerif.Props.C05
