/-
C15 — clean files: `rac.Reader` on the real `ChunkReader` IS an in-memory reader.

For every byte string `f`, claimed size and codec `k` such that the index walk and the codec
succeed everywhere — decidable: `(absFile k o).valid`, where `absFile` is C14's abstract chunk
list COMPUTED from the bytes by walking `chunkAt` and decoding every chunk — every finite
sequence of Read / Seek / SeekRange / Close calls on the byte-level model
(Model/Rac/ByteReader.lean: reader.go on the real chunk_reader.go model) returns exactly what
an in-memory reader over the concatenated decoded chunks returns.  The proof runs the
byte-level model in lockstep with C14's sequential Reader model (`loop_sim`, `step_sim2`) and
then applies C14's `reader_refines_spec`.  So for the files that "decode without error" the
Reader is functionally correct, not only deterministic; for all other files Props/C15Bytes
says what still holds.
-/
import WuffsVerif.Proof.C15Clean
import WuffsVerif.Props.C15Bytes
import WuffsVerif.Props.C14

set_option linter.unusedVariables false

namespace WuffsVerif.Props.C15Clean
open WuffsVerif.Rac WuffsVerif.Rac.ByteReader
open WuffsVerif.Rac.ChunkReader (openReader chunkAt CRInv)
open WuffsVerif.Props.C15Bytes (Good R_seek_cases read_good step_good open_good)

/-- the byte-level model's outputs in C14's result type (`none`: the model's "still looping") -/
def toRes : Out → Option Res
  | .read (.ret bs e) => some (.read bs e)
  | .read .spin => none
  | .seek p e => some (.seek p e)
  | .err e => some (.err e)

/-- the invariant, plus: the ChunkReader's cursor is where C14's model keeps it -/
structure Sim2 (k : Codec) (o : ChunkReader.Reader) (s : S) : Prop where
  good : Good k o s
  sync : s.r.err = none → s.r.crPos = s.cr.seekPos

theorem seek_sim {k : Codec} {o : ChunkReader.Reader} (s : S) (off wh limit : Int)
    (he : s.r.err = none) (h : Sim2 k o s) :
    (s.seek off wh limit).1.r = (s.r.seek (absFile k o) off wh limit).1 ∧
    (s.seek off wh limit).2 = (s.r.seek (absFile k o) off wh limit).2 ∧
    ((s.seek off wh limit).1.r.err = none →
      (s.seek off wh limit).1.r.crPos = (s.seek off wh limit).1.cr.seekPos) := by
  have hsz : s.F.size = (absFile k o).size := h.good.dsize he
  have hF := R_seek_size s.F (absFile k o) hsz s.r off wh limit
  have hsync := h.sync he
  have hs := h.good.inv he
  unfold S.seek
  cases ht : seekTarget s.r.pos s.cr.dsize off wh with
  | none =>
    simp only
    rw [hF]
    refine ⟨rfl, rfl, ?_⟩
    intro _
    have hr : s.r.seek (absFile k o) off wh limit =
        ((if s.r.conc then { s.r with err := some .whence } else s.r), 0, some .whence) := by
      unfold R.seek
      have : seekTarget s.r.pos (absFile k o).size off wh = none := by rw [← hsz]; exact ht
      rw [this]
    rw [hr]
    simp only
    split <;> exact hsync
  | some p =>
    simp only
    have ht' : seekTarget s.r.pos (absFile k o).size off wh = some p := by rw [← hsz]; exact ht
    have hcases := R_seek_cases (absFile k o) s.r off wh limit p ht'
    by_cases hmove : p ≠ (s.r.pos : Int) ∧ 0 ≤ p
    · rw [if_pos hmove]
      obtain ⟨hnone, hcr, hsp⟩ := ChunkReader.seek_value o s.cr hs.cr p hmove.2
      cases hsk : s.cr.seek p with
      | mk cr' e' =>
        rw [hsk] at hnone hcr hsp
        simp only at hnone hcr hsp
        subst hnone
        simp only
        rw [hF]
        refine ⟨rfl, rfl, ?_⟩
        intro _
        show (s.r.seek (absFile k o) off wh limit).1.crPos = cr'.seekPos
        rcases hcases with ⟨_, hneg, _⟩ | ⟨_, _, _, _, _, _, _, _, _, _, a8⟩ | ⟨heq, _⟩
        · omega
        · rw [a8, hsp]
        · exact absurd heq hmove.1
    · rw [if_neg hmove]
      rw [hF]
      refine ⟨rfl, rfl, ?_⟩
      intro herr
      show (s.r.seek (absFile k o) off wh limit).1.crPos = s.cr.seekPos
      rcases hcases with ⟨_, _, herr', _⟩ | ⟨hne, hge, _⟩ | ⟨_, _, heq⟩
      · have : (s.r.seek (absFile k o) off wh limit).1.err = none := herr
        rw [herr'] at this; cases this
      · exact absurd ⟨hne, hge⟩ hmove
      · rw [heq]; exact hsync

/-- one call: same new Reader state, same result, invariant kept -/
theorem step_sim2 {k : Codec} {o : ChunkReader.Reader} (hv : (absFile k o).valid = true)
    (s : S) (h : Sim2 k o s) (op : Op) :
    (s.step k op).1.r = (s.r.step (absFile k o) op).1 ∧
    toRes (s.step k op).2 = some (s.r.step (absFile k o) op).2 ∧
    Sim2 k o (s.step k op).1 := by
  have hgood' := step_good s op h.good
  cases op with
  | read n =>
    have hg' : Good k o (s.read k n).1 := hgood'
    show (s.read k n).1.r = (s.r.read (absFile k o) n).1 ∧
      toRes (.read (s.read k n).2) = some (.read (s.r.read (absFile k o) n).2.1 (s.r.read (absFile k o) n).2.2) ∧
      Sim2 k o (s.read k n).1
    generalize hout : s.read k n = out at hg' ⊢
    unfold S.read at hout
    unfold R.read
    cases he : s.r.err with
    | some e =>
      rw [he] at hout
      simp only at hout ⊢
      subst hout
      exact ⟨rfl, rfl, h⟩
    | none =>
      rw [he] at hout
      simp only at hout ⊢
      by_cases hlim : s.r.pos ≥ s.r.posLimit
      · simp only [hlim, ↓reduceIte] at hout ⊢
        subst hout
        exact ⟨rfl, rfl, h⟩
      · simp only [hlim, ↓reduceIte] at hout ⊢
        obtain ⟨s', bs, e, hrun, hc14, hsync'⟩ :=
          loop_sim hv (readFuel (min n (s.r.posLimit - s.r.pos))) s (min n (s.r.posLimit - s.r.pos))
            he (h.good.inv he) h.good.cause (h.sync he) (pot_lt_readFuel _ _)
        rw [hrun] at hout
        simp only at hout
        subst hout
        rw [hc14]
        exact ⟨rfl, rfl, ⟨hg', hsync'⟩⟩
  | seek off wh =>
    have hg' : Good k o (s.Seek off wh).1 := hgood'
    show (s.Seek off wh).1.r = (s.r.Seek (absFile k o) off wh).1 ∧
      toRes (.seek (s.Seek off wh).2.1 (s.Seek off wh).2.2) =
        some (.seek (s.r.Seek (absFile k o) off wh).2.1 (s.r.Seek (absFile k o) off wh).2.2) ∧
      Sim2 k o (s.Seek off wh).1
    generalize hout : s.Seek off wh = out at hg' ⊢
    unfold S.Seek at hout
    unfold R.Seek
    cases he : s.r.err with
    | some e =>
      rw [he] at hout
      simp only at hout ⊢
      subst hout
      exact ⟨rfl, rfl, h⟩
    | none =>
      rw [he] at hout
      simp only at hout ⊢
      obtain ⟨a1, a2, a3⟩ := seek_sim s off wh maxInt64 he h
      subst hout
      rw [← a2]
      exact ⟨a1, rfl, ⟨hg', a3⟩⟩
  | seekRange lo hi =>
    have hg' : Good k o (s.SeekRange lo hi).1 := hgood'
    show (s.SeekRange lo hi).1.r = (s.r.SeekRange (absFile k o) lo hi).1 ∧
      toRes (.err (s.SeekRange lo hi).2) = some (.err (s.r.SeekRange (absFile k o) lo hi).2) ∧
      Sim2 k o (s.SeekRange lo hi).1
    generalize hout : s.SeekRange lo hi = out at hg' ⊢
    unfold S.SeekRange at hout
    unfold R.SeekRange
    cases he : s.r.err with
    | some e =>
      rw [he] at hout
      simp only at hout ⊢
      subst hout
      exact ⟨rfl, rfl, h⟩
    | none =>
      rw [he] at hout
      simp only at hout ⊢
      by_cases hneg : lo > hi
      · simp only [hneg, ↓reduceIte] at hout ⊢
        subst hout
        exact ⟨rfl, rfl, ⟨hg', by intro h'; cases h'⟩⟩
      · simp only [hneg, ↓reduceIte] at hout ⊢
        obtain ⟨a1, a2, a3⟩ := seek_sim s lo 0 hi he h
        subst hout
        simp only
        refine ⟨a1, ?_, ⟨hg', a3⟩⟩
        show toRes (Out.err (s.seek lo 0 hi).2.2) =
          some (Res.err (R.seek (absFile k o) s.r lo 0 hi).2.2)
        rw [a2]
        rfl
  | close =>
    have hg' : Good k o s.Close.1 := hgood'
    show s.Close.1.r = s.r.Close.1 ∧ toRes (.err s.Close.2) = some (.err s.r.Close.2) ∧
      Sim2 k o s.Close.1
    refine ⟨rfl, rfl, ⟨hg', ?_⟩⟩
    intro herr
    show s.r.Close.1.crPos = s.cr.seekPos
    have herr' : s.r.Close.1.err = none := herr
    unfold R.Close at herr' ⊢
    by_cases hc : s.r.closed = true
    · simp only [hc, ↓reduceIte] at herr' ⊢
      exact h.sync herr'
    · simp only [hc, Bool.false_eq_true, ↓reduceIte] at herr' ⊢
      cases he : s.r.err with
      | none => rw [he] at herr'; simp only at herr'; cases herr'
      | some e => rw [he] at herr'; simp only at herr'; cases herr'

theorem run_sim2 {k : Codec} {o : ChunkReader.Reader} (hv : (absFile k o).valid = true)
    (ops : List Op) : ∀ (s : S), Sim2 k o s →
      (S.run k s ops).map (fun x => (toRes x).map Res.canon) =
        (R.run (absFile k o) s.r ops).map some := by
  induction ops with
  | nil => intro s _; rfl
  | cons op ops ih =>
    intro s h
    obtain ⟨h1, h2, h3⟩ := step_sim2 hv s h op
    simp only [S.run, R.run, List.map_cons]
    rw [h2, ← h1, ih _ h3]
    rfl

/-- **reader_refines_bytes_reader.**  On every clean file, every call sequence on `rac.Reader`
(over the real ChunkReader) returns what an in-memory reader over the decoded content
(`(absFile k o).bytes`, the concatenation of the decoded chunks with their implicit zeroes)
returns — C14's specification `Spec`: `bytes.Reader` semantics for Read/Seek, a limited reader
for SeekRange, sticky errors, Close.  (`canon` identifies Go's `(n > 0, io.EOF)` with
`(n, nil)`, as in C14.)  In particular the model never reports "still looping". -/
theorem reader_refines_bytes_reader (k : Codec) (f : CFile) (claimed : Int)
    (hopen : (openReader f claimed).err = none)
    (hclean : (absFile k (openReader f claimed)).valid = true) (ops : List Op) :
    (S.run k (openS f claimed) ops).map (fun x => (toRes x).map Res.canon) =
      (Spec.run (Spec.init (absFile k (openReader f claimed)).bytes false) ops).map some := by
  have hsize : (absFile k (openReader f claimed)).size ≤ maxSize := by
    have hinv := ChunkReader.openReader_inv f claimed hopen
    obtain ⟨root, _, _, hd, _⟩ := hinv.root
    have := root.dPtrMax_lt
    show (openReader f claimed).dsize ≤ maxSize
    rw [← hd]; unfold maxSize; omega
  rw [← WuffsVerif.Props.C14.reader_refines_spec _ ⟨hclean, hsize⟩ false ops]
  have hs0 : Sim2 k (openReader f claimed) (openS f claimed) := by
    refine ⟨open_good k f claimed, ?_⟩
    intro _
    unfold openS
    simp only [hopen]
    exact (WuffsVerif.Props.C15Bytes.openReader_seekPos f claimed).symm
  have hr0 : (openS f claimed).r = R.init (absFile k (openReader f claimed)) false := by
    unfold openS
    simp only [hopen]
    rfl
  rw [← hr0]
  exact run_sim2 hclean ops _ hs0

/-! ## non-vacuity -/

/-- an 80-byte file with two complete chunks (5 bytes + 3 implicit zeroes, then 3 bytes) -/
def cleanBytes : CFile := ChunkReader.File.ofList
  [114, 195, 99, 2, 93, 4, 0, 255, 8, 0, 0, 0, 0, 0, 0, 255, 11, 0, 0, 0, 0, 0, 0, 1, 48, 0, 0,
   0, 0, 0, 0, 255, 54, 0, 0, 0, 0, 0, 0, 255, 64, 0, 0, 0, 0, 0, 1, 2, 5, 10, 11, 12, 13, 14, 3,
   20, 21, 22, 0, 0, 0, 0, 0, 0]

example : (openReader cleanBytes 64).err = none ∧
    (absFile toyCodec (openReader cleanBytes 64)).valid = true ∧
    (absFile toyCodec (openReader cleanBytes 64)).bytes = [10, 11, 12, 13, 14, 0, 0, 0, 20, 21, 22] := by
  decide +kernel

end WuffsVerif.Props.C15Clean
