/-
C04 part 7 — associative operators with ANY number of operands.

`x0 op x1 op … op x(n+1)` is one AST node (`t.IDXAssociative…`), accepted when
the WHOLE result lies in the node's type (lang/check bcheckExprAssociativeOp
checks the final bounds only), written by writeExprAssociativeOp as the plain
C chain `(x0 op x1 op …)` — no overall cast, so for u8/u16 the accumulator is an
`int` (or an `unsigned int` once a `Nu` literal has been absorbed) — with the
first operand converted to uint32_t for `*` on u8/u16
(fixes/C04-u16-modmul.patch) and to uint64_t when the first two operands are
constants of a base.u64 node (fixes/C04-assoc-leading-constants.patch).

Proved for every type, every number of operands, every mix of constant and
non-constant operands (each of any C type such an operand can have), all
values: `assoc_add_correct`, `assoc_bitwise_correct` (& | ^), `assoc_mul_correct`
— the chain is defined in C and yields the exact ideal result; the result is
again an operand that `lower_correct` accepts (`Rep t false`).  For `+` and the
bitwise operators every step is exact (`chain_exact`); for `*` the accumulator
is the product modulo 2^32 / 2^64 and only the final value is exact.
-/
import WuffsVerif.Proof.CExprLemmas

set_option linter.unusedSimpArgs false

namespace WuffsVerif.Props.C04
open WuffsVerif.WOps WuffsVerif.C WuffsVerif.Gen.C04 WuffsVerif.Proof.C04

/-- C types of the accumulator of an associative chain (no overall cast) -/
def AccTy (t : WTy) (c : CTy) : Prop :=
  (t = .u64 ∧ c = .u64) ∨ (t = .u32 ∧ c = .u32) ∨ (t.isSmall = true ∧ (c = .int ∨ c = .u32))

set_option hygiene false in
macro "acc_cases" : tactic => `(tactic| (
  cases t <;> cases lk <;> cases rk <;>
    simp only [OpdTy, ctyOf, WTy.isSmall, Bool.false_eq_true, if_false, if_true, and_self, not_true_eq_false,
      reduceCtorEq, false_and, or_false, and_false, true_and, beq_self_eq_true, Bool.or_true,
      Bool.true_or, and_true, not_false_eq_true, beq_iff_eq, Bool.or_eq_true, not_true] at hk hxt hyt <;>
    (try (rcases hxt with hxt | hxt | hxt)) <;> (try (rcases hyt with hyt | hyt | hyt)) <;>
    (try subst hxt) <;> (try subst hyt) <;>
    simp [WTy.has, WTy.max, WTy.bits, CTy.has, CTy.bits, INT_MIN, INT_MAX] at hdef hxr hyr hxw hyw))

theorem assoc_step_add (t : WTy) (lk rk : Bool) (a b : Int) (x y : CVal)
    (hk : ¬(lk = true ∧ rk = true ∧ t = .u64))
    (hx : Rep t lk a x) (hy : Rep t rk b y) (hdef : a + b ≤ t.max) :
    ∃ r, evalBin .add x y = some r ∧ r.v = a + b ∧ AccTy t r.ty := by
  rep_intro
  acc_cases <;> simp [evalBin, promoteTy, uac, AccTy, WTy.isSmall] <;> c_finish

theorem assoc_step_band (t : WTy) (lk rk : Bool) (a b : Int) (x y : CVal)
    (hk : ¬(lk = true ∧ rk = true ∧ t = .u64))
    (hx : Rep t lk a x) (hy : Rep t rk b y) (hdef : iand a b ≤ t.max) :
    ∃ r, evalBin .band x y = some r ∧ r.v = iand a b ∧ AccTy t r.ty := by
  rep_intro
  have hb0 : 0 ≤ iand xv yv := iand_nonneg xv yv
  have hb1 : iand xv yv < 2 ^ t.bits := iand_lt xv yv t.bits hxr.1 (WTy.has_lt t xv hxr)
  acc_cases <;> (try simp [WTy.bits] at hb1) <;> simp [evalBin, promoteTy, uac, AccTy, WTy.isSmall] <;> c_finish

theorem assoc_step_bor (t : WTy) (lk rk : Bool) (a b : Int) (x y : CVal)
    (hk : ¬(lk = true ∧ rk = true ∧ t = .u64))
    (hx : Rep t lk a x) (hy : Rep t rk b y) (hdef : ior a b ≤ t.max) :
    ∃ r, evalBin .bor x y = some r ∧ r.v = ior a b ∧ AccTy t r.ty := by
  rep_intro
  have hb0 : 0 ≤ ior xv yv := ior_nonneg xv yv
  have hb1 : ior xv yv < 2 ^ t.bits := ior_lt xv yv t.bits hxr.1 hyr.1 (WTy.has_lt t xv hxr) (WTy.has_lt t yv hyr)
  acc_cases <;> (try simp [WTy.bits] at hb1) <;> simp [evalBin, promoteTy, uac, AccTy, WTy.isSmall] <;> c_finish

theorem assoc_step_bxor (t : WTy) (lk rk : Bool) (a b : Int) (x y : CVal)
    (hk : ¬(lk = true ∧ rk = true ∧ t = .u64))
    (hx : Rep t lk a x) (hy : Rep t rk b y) (hdef : ixor a b ≤ t.max) :
    ∃ r, evalBin .bxor x y = some r ∧ r.v = ixor a b ∧ AccTy t r.ty := by
  rep_intro
  have hb0 : 0 ≤ ixor xv yv := ixor_nonneg xv yv
  have hb1 : ixor xv yv < 2 ^ t.bits := ixor_lt xv yv t.bits hxr.1 hyr.1 (WTy.has_lt t xv hxr) (WTy.has_lt t yv hyr)
  acc_cases <;> (try simp [WTy.bits] at hb1) <;> simp [evalBin, promoteTy, uac, AccTy, WTy.isSmall] <;> c_finish

/-- an accumulator value in range is an operand -/
theorem rep_of_acc (t : WTy) (v : Int) (r : CVal) (hv : r.v = v) (hty : AccTy t r.ty) (hr : t.has v) :
    Rep t false v r := by
  obtain ⟨ty, rv⟩ := r
  simp only at hv hty
  subst hv
  refine ⟨rfl, hr, ?_, ?_⟩
  · cases t <;> simp [AccTy, WTy.isSmall] at hty <;> simp [WTy.has, WTy.max, WTy.bits] at hr <;>
      (try (rcases hty with hty | hty)) <;> (try subst hty) <;> simp [CTy.has, CTy.bits, INT_MIN, INT_MAX] <;> omega
  · cases t <;> simp [AccTy, WTy.isSmall] at hty <;> (try (rcases hty with hty | hty)) <;> (try subst hty) <;>
      simp [OpdTy, ctyOf, WTy.isSmall]

/-! ## Chains -/

/-- the ideal value of the first `m+1` operands, left to right -/
def assocIdeal (f : Int → Int → Int) (a : Nat → Int) : Nat → Int
  | 0 => a 0
  | k + 1 => f (assocIdeal f a k) (a (k + 1))

/-- `first op x1 op … op xm` -/
def assocChain (c : CBin) (first : CExpr) : Nat → CExpr
  | 0 => first
  | k + 1 => .bin c (assocChain c first k) (.hole (k + 1))

theorem foldl_range_chain (c : CBin) (first : CExpr) (n : Nat) :
    (List.range n).foldl (fun acc i => CExpr.bin c acc (.hole (i + 1))) first = assocChain c first n := by
  induction n with
  | zero => rfl
  | succ n ih => rw [List.range_succ, List.foldl_append, ih]; rfl

/-- the first operand as writeExprAssociativeOp writes it -/
def firstOf (op : WOp) (t : WTy) (k0 k1 : Bool) : CExpr :=
  if (op == .mul && t.isSmall) = true then CExpr.cast .u32 (.hole 0)
  else if (!(op == .mul && t.isSmall) && k0 && k1 && t == .u64 && !op.isLogical) = true then CExpr.cast .u64 (.hole 0)
  else .hole 0

theorem lowerAssocK_chain (op : WOp) (t : WTy) (n : Nat) (k0 k1 : Bool) (c : CBin) (hc : cAssocOf op = some c) :
    lowerAssocK op t n k0 k1 = some (assocChain c (firstOf op t k0 k1) (n + 1)) := by
  simp only [lowerAssocK, hc, foldl_range_chain, firstOf]

theorem assocIdeal_nonneg (f : Int → Int → Int) (fnn : ∀ A b, 0 ≤ A → 0 ≤ b → 0 ≤ f A b) (a : Nat → Int)
    (n : Nat) (ha : ∀ i, i ≤ n → 0 ≤ a i) : ∀ m, m ≤ n → 0 ≤ assocIdeal f a m := by
  intro m
  induction m with
  | zero => intro _; exact ha 0 (Nat.zero_le _)
  | succ m ih => intro hm; exact fnn _ _ (ih (by omega)) (ha (m + 1) hm)

/-- a chain of an operator whose every step is exact: the accumulator is a
faithful operand at every length -/
theorem chain_exact (c : CBin) (f : Int → Int → Int) (t : WTy)
    (step : ∀ (lk rk : Bool) (A b : Int) (acc y : CVal), ¬(lk = true ∧ rk = true ∧ t = .u64) →
      Rep t lk A acc → Rep t rk b y → f A b ≤ t.max →
      ∃ r, evalBin c acc y = some r ∧ r.v = f A b ∧ AccTy t r.ty)
    (fnn : ∀ A b, 0 ≤ A → 0 ≤ b → 0 ≤ f A b)
    (a : Nat → Int) (x : Nat → CVal) (k : Nat → Bool) (env : Nat → Option CVal) (n : Nat)
    (henv : ∀ i, i ≤ n + 1 → env i = some (x i)) (hrep : ∀ i, i ≤ n + 1 → Rep t (k i) (a i) (x i))
    (hb : ∀ m, m ≤ n + 1 → assocIdeal f a m ≤ t.max)
    (first : CExpr) (x0 : CVal) (lk0 : Bool)
    (hfirst : ceval env first = some x0) (hx0 : Rep t lk0 (a 0) x0)
    (hlk : ¬(lk0 = true ∧ k 1 = true ∧ t = .u64)) :
    ∀ m, m ≤ n → ∃ r, ceval env (assocChain c first (m + 1)) = some r ∧ Rep t false (assocIdeal f a (m + 1)) r := by
  have hnn := assocIdeal_nonneg f fnn a (n + 1) (fun i hi => (hrep i hi).rng.1)
  intro m
  induction m with
  | zero =>
    intro _
    obtain ⟨r, h1, h2, h3⟩ := step lk0 (k 1) (a 0) (a 1) x0 (x 1) hlk hx0 (hrep 1 (by omega)) (hb 1 (by omega))
    refine ⟨r, ?_, rep_of_acc t _ r h2 h3 ⟨hnn 1 (by omega), hb 1 (by omega)⟩⟩
    simp only [assocChain, ceval, hfirst, henv 1 (by omega)]
    exact h1
  | succ m ih =>
    intro hm
    obtain ⟨acc, hacc, hrepacc⟩ := ih (by omega)
    obtain ⟨r, h1, h2, h3⟩ := step false (k (m + 2)) _ (a (m + 2)) acc (x (m + 2)) (by simp) hrepacc
      (hrep (m + 2) (by omega)) (hb (m + 2) (by omega))
    refine ⟨r, ?_, rep_of_acc t _ r h2 h3 ⟨hnn (m + 2) (by omega), hb (m + 2) (by omega)⟩⟩
    show ceval env (.bin c (assocChain c first (m + 1)) (.hole (m + 2))) = some r
    simp only [ceval, hacc, henv (m + 2) (by omega)]
    exact h1

/-- the first operand of a chain that is not `*`: converted to uint64_t when
the first two operands are constants of a base.u64 node (then it is an
ordinary 64-bit operand), else written as it is -/
theorem first_operand (op : WOp) (hop : op ≠ .mul) (hnl : op.isLogical = false) (t : WTy) (k0 k1 : Bool)
    (a0 : Int) (x0 : CVal) (env : Nat → Option CVal) (h0 : env 0 = some x0) (hx : Rep t k0 a0 x0) :
    ∃ x0' lk0, ceval env (firstOf op t k0 k1) = some x0' ∧ Rep t lk0 a0 x0' ∧
      ¬(lk0 = true ∧ k1 = true ∧ t = .u64) := by
  have hm : (op == WOp.mul) = false := by cases op <;> simp at hop ⊢
  by_cases hc : k0 = true ∧ k1 = true ∧ t = .u64
  · obtain ⟨rfl, rfl, rfl⟩ := hc
    refine ⟨⟨.u64, a0⟩, false, ?_, ⟨rfl, hx.rng, ?_, by simp [OpdTy, ctyOf]⟩, by simp⟩
    · have hr := hx.rng
      simp [WTy.has, WTy.max, WTy.bits] at hr
      simp [firstOf, hm, hnl, WTy.isSmall, ceval, h0, castTo, convert, wrapU, CTy.bits, hx.val]
      omega
    · have hr := hx.rng
      simp [WTy.has, WTy.max, WTy.bits] at hr
      simp [CTy.has, CTy.bits]; omega
  · refine ⟨x0, k0, ?_, hx, ?_⟩
    · have hc' : ¬(((k0 = true ∧ k1 = true) ∧ t = WTy.u64) ∧ op.isLogical = false) :=
        fun h => hc ⟨h.1.1.1, h.1.1.2, h.1.2⟩
      simp [firstOf, hm, hc', ceval, h0]
    · exact hc

theorem assocIdeal_add_mono (a : Nat → Int) (n : Nat) (ha : ∀ i, i ≤ n → 0 ≤ a i) :
    ∀ m, m ≤ n → assocIdeal (fun A b => A + b) a m ≤ assocIdeal (fun A b => A + b) a n := by
  induction n with
  | zero => intro m hm; have : m = 0 := by omega
            subst this; exact Int.le_refl _
  | succ n ih =>
    intro m hm
    by_cases h : m = n + 1
    · subst h; exact Int.le_refl _
    · have h1 := ih (fun i hi => ha i (by omega)) m (by omega)
      have h2 := ha (n + 1) (Nat.le_refl _)
      show _ ≤ assocIdeal (fun A b => A + b) a n + a (n + 1)
      omega

/-- **assoc_add_correct**: `x0 + x1 + … + x(n+1)` (any number of operands, any
mix of constants and non-constants, each of the C types such operands can
have), whose whole sum is in the node's type: the emitted chain — with the
first operand converted to uint64_t when the first two are constants of a
base.u64 node — evaluates without undefined behaviour to the exact sum, and
the result is itself an operand that `lower_correct` accepts. -/
theorem assoc_add_correct (t : WTy) (n : Nat) (a : Nat → Int) (x : Nat → CVal) (k : Nat → Bool)
    (env : Nat → Option CVal) (henv : ∀ i, i ≤ n + 1 → env i = some (x i))
    (hrep : ∀ i, i ≤ n + 1 → Rep t (k i) (a i) (x i))
    (hres : assocIdeal (fun A b => A + b) a (n + 1) ≤ t.max) :
    ∃ e r, lowerAssocK .add t n (k 0) (k 1) = some e ∧ ceval env e = some r ∧
      Rep t false (assocIdeal (fun A b => A + b) a (n + 1)) r := by
  obtain ⟨x0', lk0, hf, hx0, hlk⟩ := first_operand .add (by simp) rfl t (k 0) (k 1) (a 0) (x 0) env
    (henv 0 (by omega)) (hrep 0 (by omega))
  have hb : ∀ m, m ≤ n + 1 → assocIdeal (fun A b => A + b) a m ≤ t.max := fun m hm =>
    Int.le_trans (assocIdeal_add_mono a (n + 1) (fun i hi => (hrep i hi).rng.1) m hm) hres
  obtain ⟨r, h1, h2⟩ := chain_exact .add (fun A b => A + b) t
    (fun lk rk A b acc y hk hA hy hd => assoc_step_add t lk rk A b acc y hk hA hy hd)
    (fun A b hA hb => by omega) a x k env n henv hrep hb _ x0' lk0 hf hx0 hlk n (Nat.le_refl _)
  exact ⟨_, r, lowerAssocK_chain .add t n (k 0) (k 1) .add rfl, h1, h2⟩

/-- bitwise chains stay inside the type whatever the operands are -/
theorem assocIdeal_bits_has (f : Int → Int → Int) (t : WTy)
    (hf : ∀ A b, t.has A → t.has b → t.has (f A b)) (a : Nat → Int) (n : Nat)
    (ha : ∀ i, i ≤ n → t.has (a i)) : ∀ m, m ≤ n → t.has (assocIdeal f a m) := by
  intro m
  induction m with
  | zero => intro _; exact ha 0 (Nat.zero_le _)
  | succ m ih => intro hm; exact hf _ _ (ih (by omega)) (ha (m + 1) hm)

theorem has_of_lt (t : WTy) (v : Int) (h0 : 0 ≤ v) (h1 : v < 2 ^ t.bits) : t.has v := by
  refine ⟨h0, ?_⟩
  unfold WTy.max
  omega

theorem assoc_bitwise_correct (op : WOp) (hop : op = .band ∨ op = .bor ∨ op = .bxor) (t : WTy) (n : Nat)
    (a : Nat → Int) (x : Nat → CVal) (k : Nat → Bool)
    (env : Nat → Option CVal) (henv : ∀ i, i ≤ n + 1 → env i = some (x i))
    (hrep : ∀ i, i ≤ n + 1 → Rep t (k i) (a i) (x i)) :
    ∃ e r, lowerAssocK op t n (k 0) (k 1) = some e ∧ ceval env e = some r ∧
      Rep t false (assocIdeal (op.ideal .u64) a (n + 1)) r := by
  have hhas : ∀ A b, t.has A → t.has b → t.has (op.ideal .u64 A b) := by
    intro A b hA hb
    rcases hop with h | h | h <;> subst h <;> simp only [WOp.ideal]
    · exact has_of_lt t _ (iand_nonneg A b) (iand_lt A b t.bits hA.1 (WTy.has_lt t A hA))
    · exact has_of_lt t _ (ior_nonneg A b) (ior_lt A b t.bits hA.1 hb.1 (WTy.has_lt t A hA) (WTy.has_lt t b hb))
    · exact has_of_lt t _ (ixor_nonneg A b) (ixor_lt A b t.bits hA.1 hb.1 (WTy.has_lt t A hA) (WTy.has_lt t b hb))
  have hb : ∀ m, m ≤ n + 1 → assocIdeal (op.ideal .u64) a m ≤ t.max := fun m hm =>
    (assocIdeal_bits_has _ t hhas a (n + 1) (fun i hi => (hrep i hi).rng) m hm).2
  have hnl : op.isLogical = false := by rcases hop with h | h | h <;> subst h <;> rfl
  have hne : op ≠ .mul := by rcases hop with h | h | h <;> subst h <;> simp
  obtain ⟨x0', lk0, hf, hx0, hlk⟩ := first_operand op hne hnl t (k 0) (k 1) (a 0) (x 0) env
    (henv 0 (by omega)) (hrep 0 (by omega))
  have fnn : ∀ A b : Int, 0 ≤ A → 0 ≤ b → 0 ≤ op.ideal .u64 A b := by
    intro A b _ _
    rcases hop with h | h | h <;> subst h <;> simp only [WOp.ideal]
    · exact iand_nonneg A b
    · exact ior_nonneg A b
    · exact ixor_nonneg A b
  rcases hop with h | h | h <;> subst h
  · obtain ⟨r, h1, h2⟩ := chain_exact .band (WOp.band.ideal .u64) t
      (fun lk rk A b acc y hk hA hy hd => assoc_step_band t lk rk A b acc y hk hA hy hd)
      fnn a x k env n henv hrep hb _ x0' lk0 hf hx0 hlk n (Nat.le_refl _)
    exact ⟨_, r, lowerAssocK_chain .band t n (k 0) (k 1) .band rfl, h1, h2⟩
  · obtain ⟨r, h1, h2⟩ := chain_exact .bor (WOp.bor.ideal .u64) t
      (fun lk rk A b acc y hk hA hy hd => assoc_step_bor t lk rk A b acc y hk hA hy hd)
      fnn a x k env n henv hrep hb _ x0' lk0 hf hx0 hlk n (Nat.le_refl _)
    exact ⟨_, r, lowerAssocK_chain .bor t n (k 0) (k 1) .bor rfl, h1, h2⟩
  · obtain ⟨r, h1, h2⟩ := chain_exact .bxor (WOp.bxor.ideal .u64) t
      (fun lk rk A b acc y hk hA hy hd => assoc_step_bxor t lk rk A b acc y hk hA hy hd)
      fnn a x k env n henv hrep hb _ x0' lk0 hf hx0 hlk n (Nat.le_refl _)
    exact ⟨_, r, lowerAssocK_chain .bxor t n (k 0) (k 1) .bxor rfl, h1, h2⟩

/-! ## `*`: modular accumulation -/

/-- width and C type in which an associative `*` accumulates: uint32_t (the
first operand of a u8/u16 chain is converted), uint64_t for base.u64 -/
def accW (t : WTy) : Nat := if t = .u64 then 64 else 32
def accTyM (t : WTy) : CTy := if t = .u64 then .u64 else .u32

theorem mod_mul_mod' (x c m : Int) : (x % m * c) % m = (x * c) % m := by
  rw [Int.mul_emod, Int.emod_emod_of_dvd _ (Int.dvd_refl m), ← Int.mul_emod]

/-- one step: the accumulator (a uint32_t / uint64_t holding `A`) times an
operand is the product modulo 2^32 / 2^64 — never undefined -/
theorem assoc_step_mul (t : WTy) (rk : Bool) (A b : Int) (acc y : CVal)
    (hty : acc.ty = accTyM t ∨ (t = .u64 ∧ acc.ty = .u32 ∧ rk = false))
    (hv : acc.v = A) (hA0 : 0 ≤ A) (hA1 : A < 2 ^ acc.ty.bits) (hy : Rep t rk b y) :
    ∃ r, evalBin .mul acc y = some r ∧ r.v = (A * b) % 2 ^ accW t ∧ r.ty = accTyM t := by
  obtain ⟨hyv, hyr, hyw, hyt⟩ := hy
  obtain ⟨at', av⟩ := acc
  obtain ⟨yt, yv⟩ := y
  simp only at hv hyv hyw hyt hty hA1
  subst hv hyv
  cases t <;> cases rk <;>
    simp only [OpdTy, ctyOf, WTy.isSmall, Bool.false_eq_true, if_false, if_true, and_self, not_true_eq_false,
      reduceCtorEq, false_and, or_false, and_false, true_and, beq_self_eq_true, Bool.or_true,
      Bool.true_or, and_true, not_false_eq_true, beq_iff_eq, Bool.or_eq_true, not_true, accTyM, false_or] at hyt hty <;>
    (try (rcases hyt with hyt | hyt | hyt)) <;> (try (rcases hty with hty | hty)) <;>
    (try subst hyt) <;> (try subst hty) <;>
    simp [WTy.has, WTy.max, WTy.bits, CTy.has, CTy.bits, INT_MIN, INT_MAX] at hyr hyw hA1 <;>
    simp [evalBin, promoteTy, uac, accW, accTyM, wrapU, CTy.bits] <;>
    c_finish

/-- the first operand of a `*` chain, as written: a uint32_t for u8/u16
(`((uint32_t)(x0))`), a uint64_t for base.u64 when the first two operands are
constants, else the operand itself — which for base.u64 may be an
`unsigned int` literal only if the second operand is not a constant -/
theorem first_operand_mul (t : WTy) (k0 k1 : Bool) (a0 : Int) (x0 : CVal) (env : Nat → Option CVal)
    (h0 : env 0 = some x0) (hx : Rep t k0 a0 x0) :
    ∃ x0', ceval env (firstOf .mul t k0 k1) = some x0' ∧ x0'.v = a0 ∧
      (x0'.ty = accTyM t ∨ (t = .u64 ∧ x0'.ty = .u32 ∧ k1 = false)) ∧ a0 < 2 ^ x0'.ty.bits := by
  obtain ⟨hxv, hxr, hxw, hxt⟩ := hx
  obtain ⟨xt, xv⟩ := x0
  simp only at hxv hxw hxt
  subst hxv
  cases t <;> cases k0 <;> cases k1 <;>
    simp only [OpdTy, ctyOf, WTy.isSmall, Bool.false_eq_true, if_false, if_true, and_self, not_true_eq_false,
      reduceCtorEq, false_and, or_false, and_false, true_and, beq_self_eq_true, Bool.or_true,
      Bool.true_or, and_true, not_false_eq_true, beq_iff_eq, Bool.or_eq_true, not_true, false_or] at hxt <;>
    (try (rcases hxt with hxt | hxt | hxt)) <;> (try subst hxt) <;>
    simp [WTy.has, WTy.max, WTy.bits, CTy.has, CTy.bits, INT_MIN, INT_MAX] at hxr hxw <;>
    simp [firstOf, WTy.isSmall, WOp.isLogical, ceval, h0, castTo, convert, wrapU, CTy.bits, accTyM] <;>
    (try omega) <;> (try (refine ⟨?_, ?_⟩ <;> omega))

theorem assocIdeal_mul_nonneg (a : Nat → Int) (n : Nat) (ha : ∀ i, i ≤ n → 0 ≤ a i) :
    ∀ m, m ≤ n → 0 ≤ assocIdeal (fun A b => A * b) a m :=
  assocIdeal_nonneg _ (fun _ _ hA hb => Int.mul_nonneg hA hb) a n ha

theorem pow_accW_pos (t : WTy) : (0 : Int) < 2 ^ accW t := by
  unfold accW; split <;> decide

theorem max_lt_accW (t : WTy) : t.max < 2 ^ accW t := by
  cases t <;> simp [WTy.max, WTy.bits, accW]

theorem accTyM_bits (t : WTy) : (accTyM t).bits = accW t := by
  cases t <;> rfl

theorem accTyM_acc (t : WTy) : AccTy t (accTyM t) := by
  cases t <;> simp [AccTy, accTyM, WTy.isSmall]

/-- non-vacuity of `assoc_add_correct` at the case the round-2 repair is about:
4294967295 + 4294967295 + 1 on base.u64, two leading constants -/
example : ∃ e r, lowerAssocK .add .u64 1 true true = some e ∧
    ceval (env3 ⟨.u32, 4294967295⟩ ⟨.u32, 4294967295⟩ ⟨.u64, 1⟩) e = some r ∧ r.v = 8589934591 := by
  have h := assoc_add_correct .u64 1 (fun i => if i = 2 then 1 else 4294967295)
    (fun i => if i = 2 then ⟨.u64, 1⟩ else ⟨.u32, 4294967295⟩) (fun i => decide (i ≠ 2))
    (env3 ⟨.u32, 4294967295⟩ ⟨.u32, 4294967295⟩ ⟨.u64, 1⟩)
    (by intro i hi
        have : i = 0 ∨ i = 1 ∨ i = 2 := by omega
        rcases this with h | h | h <;> subst h <;> rfl)
    (by intro i hi
        have : i = 0 ∨ i = 1 ∨ i = 2 := by omega
        rcases this with h | h | h <;> subst h <;>
          exact ⟨rfl, by decide, by decide, by simp [OpdTy, ctyOf, WTy.isSmall]⟩)
    (by decide)
  obtain ⟨e, r, h1, h2, h3⟩ := h
  exact ⟨e, r, h1, h2, h3.val⟩

/-- **assoc_mul_correct**: `x0 * x1 * … * x(n+1)` for every type, any number of
operands, any mix of constants and non-constants: if the WHOLE product is in
the node's type (intermediate products may leave it, e.g. when a later factor
is 0), the emitted chain evaluates without undefined behaviour to the exact
product. -/
theorem assoc_mul_correct (t : WTy) (n : Nat) (a : Nat → Int) (x : Nat → CVal) (k : Nat → Bool)
    (env : Nat → Option CVal) (henv : ∀ i, i ≤ n + 1 → env i = some (x i))
    (hrep : ∀ i, i ≤ n + 1 → Rep t (k i) (a i) (x i))
    (hres : assocIdeal (fun A b => A * b) a (n + 1) ≤ t.max) :
    ∃ e r, lowerAssocK .mul t n (k 0) (k 1) = some e ∧ ceval env e = some r ∧
      Rep t false (assocIdeal (fun A b => A * b) a (n + 1)) r := by
  let P := assocIdeal (fun A b => A * b) a
  have hnn := assocIdeal_mul_nonneg a (n + 1) (fun i hi => (hrep i hi).rng.1)
  obtain ⟨x0', hf, hv0, hty0, hlt0⟩ := first_operand_mul t (k 0) (k 1) (a 0) (x 0) env (henv 0 (by omega))
    (hrep 0 (by omega))
  -- invariant: after m + 1 multiplications the accumulator holds P (m+1) modulo 2^W
  have key : ∀ m, m ≤ n → ∃ r, ceval env (assocChain .mul (firstOf .mul t (k 0) (k 1)) (m + 1)) = some r ∧
      r.v = P (m + 1) % 2 ^ accW t ∧ r.ty = accTyM t := by
    intro m
    induction m with
    | zero =>
      intro _
      obtain ⟨r, h1, h2, h3⟩ := assoc_step_mul t (k 1) (a 0) (a 1) x0' (x 1) hty0 hv0
        ((hrep 0 (by omega)).rng.1) hlt0 (hrep 1 (by omega))
      refine ⟨r, ?_, h2, h3⟩
      simp only [assocChain, ceval, hf, henv 1 (by omega)]
      exact h1
    | succ m ih =>
      intro hm
      obtain ⟨acc, hacc, hav, haty⟩ := ih (by omega)
      have hpos := pow_accW_pos t
      obtain ⟨r, h1, h2, h3⟩ := assoc_step_mul t (k (m + 2)) (P (m + 1) % 2 ^ accW t) (a (m + 2)) acc (x (m + 2))
        (Or.inl haty) hav (Int.emod_nonneg _ (by omega))
        (by rw [haty, accTyM_bits]; exact Int.emod_lt_of_pos _ hpos) (hrep (m + 2) (by omega))
      refine ⟨r, ?_, ?_, h3⟩
      · show ceval env (.bin .mul (assocChain .mul _ (m + 1)) (.hole (m + 2))) = some r
        simp only [ceval, hacc, henv (m + 2) (by omega)]
        exact h1
      · rw [h2, mod_mul_mod']; rfl
  obtain ⟨r, h1, h2, h3⟩ := key n (Nat.le_refl _)
  have hP0 := hnn (n + 1) (Nat.le_refl _)
  have hval : r.v = P (n + 1) := by
    rw [h2]; exact Int.emod_eq_of_lt hP0 (Int.lt_of_le_of_lt hres (max_lt_accW t))
  exact ⟨_, r, lowerAssocK_chain .mul t n (k 0) (k 1) .mul rfl, h1,
    rep_of_acc t _ r hval (h3 ▸ accTyM_acc t) ⟨hP0, hres⟩⟩

end WuffsVerif.Props.C04
