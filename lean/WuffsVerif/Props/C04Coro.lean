/-
C04 — the resume switch of a generated coroutine and the scratch word of the
multi-byte reads (`args.src.read_u16be?()` … `read_u64le?()`), over the model
of the emitted C in Model/CCoro.lean (`readTmpl`, `Tm.exec`; tied to the
working tree by the `skel` ops of harness/cmd/c04: the control skeleton of the
C emitted for every coroutine the harness runs == `Tm.show` of these templates).

The language says what `x = args.src.read_u32le?()` means: take the next four
bytes of the stream.  The C function gets the stream in pieces: when the
buffer of a call runs out in the middle of the field it returns
`$short read`, and the next call — a NEW invocation of the C function, which
jumps to `case k:` of `switch (coro_susp_point)` in the middle of the
template's `else` branch — must continue with the bytes already taken.  They
wait, with their count, in `self->private_data.s_f.scratch`.

  `read_fast`, `read_enter_slow`    a fresh entry into the template
  `read_resume`                     a resumed call continues with the same partial value
  `read_split_invariant`            whatever the pieces, the field gets the value of its
                                    n bytes and exactly n bytes are consumed
  `read_m3_loses_partial_value`     `scratch = 0;` behind the suspension point (seeded/C04-m3)
                                    is wrong — on a concrete two-piece input
-/
import WuffsVerif.Proof.CCoroLemmas

namespace WuffsVerif.Props.C04Coro
open WuffsVerif.CCoro

/-- the value of a complete field fits its C type -/
theorem peek_lt (be : Bool) (bs : List Nat) (h : ∀ x ∈ bs, x < 256) : peek be bs < 2 ^ (8 * bs.length) := by
  cases be
  · simpa [peek] using valLE_lt bs h
  · simpa [peek] using valBE_lt bs h

/-- **read_fast.**  A fresh entry with the whole field in the buffer: the fast
path stores the value of the next `n` bytes and consumes exactly them. -/
theorem read_fast (n yy : Nat) (be : Bool) (k fuel : Nat) (s : CSt) (hyy : 8 * n ≤ yy)
    (hseek : s.seek = false) (hbuf : ∀ x ∈ s.buf, x < 256) (hav : s.iop + n ≤ s.buf.length) :
    ∃ s', execL fuel [readTmpl n yy be k] s = some (.normal s') ∧ s'.buf = s.buf ∧ s'.seek = false ∧
      s'.iop = s.iop + n ∧ s'.dest = s.dest ++ [peek be ((s.buf.drop s.iop).take n)] := by
  have hcond : decide (n ≤ s.buf.length - s.iop) = true := by simp; omega
  have hlen : ((s.buf.drop s.iop).take n).length = n := by simp; omega
  have hval : peek be ((s.buf.drop s.iop).take n) % 2 ^ yy = peek be ((s.buf.drop s.iop).take n) := by
    apply Nat.mod_eq_of_lt
    have := peek_lt be ((s.buf.drop s.iop).take n) (fun x hx => hbuf x (List.mem_of_mem_drop (List.mem_of_mem_take hx)))
    rw [hlen] at this
    exact lt_pow_of_le this hyy
  have h : execL fuel [readTmpl n yy be k] s = some (.normal
      { s with pt := k, t := peek be ((s.buf.drop s.iop).take n), iop := s.iop + n,
               dest := s.dest ++ [peek be ((s.buf.drop s.iop).take n)] }) := by
    simp [readTmpl_eq, execL, Tm.exec, hseek, Cond.eval, hcond, Atom.exec, hav, hval]
  exact ⟨_, h, rfl, hseek, rfl, rfl⟩

/-- the `while (true)` of the slow path, entered (fresh or resumed) with the
partial value of `taken` in the scratch word -/
theorem read_from_loop (n yy : Nat) (be : Bool) (fuel : Nat) (s : CSt) (taken : List Nat)
    (hn8 : n ≤ 8) (hyy : 8 * n ≤ yy) (hseek : s.seek = false) (hle : s.iop ≤ s.buf.length)
    (hbuf : ∀ x ∈ s.buf, x < 256) (htaken : ∀ x ∈ taken, x < 256) (hlen : taken.length < n)
    (hs : s.scratch = partialV be taken) (hfuel : s.buf.length - s.iop < fuel) :
    (n ≤ taken.length + (s.buf.length - s.iop) →
      ∃ s', execL fuel [.whileTrue (loopBody n yy be)] s = some (.normal s') ∧ Keeps s s' ∧
        s'.iop = s.iop + (n - taken.length) ∧
        s'.t = peek be (taken ++ (s.buf.drop s.iop).take (n - taken.length))) ∧
    (taken.length + (s.buf.length - s.iop) < n →
      ∃ s', execL fuel [.whileTrue (loopBody n yy be)] s = some (.susp s') ∧ Keeps s s' ∧
        s'.iop = s.buf.length ∧ s'.scratch = partialV be (taken ++ s.buf.drop s.iop)) := by
  obtain ⟨s3, hk, hres⟩ := slow_loop n yy be hn8 hyy fuel (s.buf.drop s.iop) taken s fuel
    hseek hle rfl hbuf htaken hlen hs (by simp; omega)
  have hdl : (s.buf.drop s.iop).length = s.buf.length - s.iop := by simp
  rw [hdl] at hres
  constructor
  · intro hge
    rcases hres with ⟨_, hw, hi, ht⟩ | ⟨hlt, _, _, _⟩
    · exact ⟨s3, by simp [execL, Tm.exec, hseek, hw], hk, hi, ht⟩
    · omega
  · intro hlt
    rcases hres with ⟨hge, _, _, _⟩ | ⟨_, hw, hi, hsc⟩
    · omega
    · exact ⟨s3, by simp [execL, Tm.exec, hseek, hw], hk, hi, hsc⟩

theorem partialV_nil (be : Bool) : partialV be [] = 0 := by
  cases be <;> simp [partialV, valBE, valLE]

/-- what a call of the template ends in: the field complete, or a suspension at
`case k + 1:` with everything consumed and the partial value in the scratch word -/
structure ReadDone (be : Bool) (k : Nat) (s s' : CSt) (field : List Nat) : Prop where
  buf : s'.buf = s.buf
  seek : s'.seek = false
  dest : s'.dest = s.dest ++ [peek be field]

structure ReadSusp (be : Bool) (k : Nat) (s s' : CSt) (sofar : List Nat) : Prop where
  buf : s'.buf = s.buf
  pt : s'.pt = k + 1
  iop : s'.iop = s.buf.length
  dest : s'.dest = s.dest
  scratch : s'.scratch = partialV be sofar

/-- a fresh entry without the whole field in the buffer goes through
`scratch = 0; case k + 1:` into the loop, and stores the value when the loop is left -/
theorem readTmpl_slow_eq (n yy : Nat) (be : Bool) (k fuel : Nat) (s : CSt)
    (hseek : s.seek = false) (hav : s.buf.length - s.iop < n) :
    execL fuel [readTmpl n yy be k] s =
      match execL fuel [.whileTrue (loopBody n yy be)] { s with pt := k + 1, scratch := 0 } with
      | some (.normal s') => execL fuel [.atom .store] s'
      | o => o := by
  have hcond : decide (n ≤ s.buf.length - s.iop) = false := by simp; omega
  obtain ⟨buf, iop, scratch, t, nb, pt, seek, dest, arg, short⟩ := s
  simp only at hseek hcond
  subst hseek
  simp only [readTmpl_eq, execL, Tm.exec, Cond.eval, hcond, Atom.exec, Option.map,
    Bool.false_eq_true, ↓reduceIte, Bool.false_and]
  generalize whileIter fuel _ _ = w
  rcases w with _ | (s' | s' | s') <;> simp <;> (cases hs : s'.seek <;> simp)

/-- a resumed call (`coro_susp_point = k + 1`) skips to `case k + 1:` — the
assignment `scratch = 0` before it is NOT executed — and is in the loop -/
theorem readTmpl_resume_eq (n yy : Nat) (be : Bool) (k fuel : Nat) (s : CSt)
    (hseek : s.seek = true) (hpt : s.pt = k + 1) :
    execL fuel [readTmpl n yy be k] s =
      match execL fuel [.whileTrue (loopBody n yy be)] { s with seek := false } with
      | some (.normal s') => execL fuel [.atom .store] s'
      | o => o := by
  obtain ⟨buf, iop, scratch, t, nb, pt, seek, dest, arg, short⟩ := s
  simp only at hseek hpt
  subst hseek hpt
  have h1 : (k + 1 == k) = false := by simp
  simp only [readTmpl_eq, execL, Tm.exec, hasPointL, Tm.hasPoint, h1, Bool.or_false,
    ↓reduceIte, beq_self_eq_true, Bool.true_or, Bool.or_true, Bool.false_eq_true, Bool.false_and]
  generalize whileIter fuel _ _ = w
  rcases w with _ | (s' | s' | s') <;> simp <;> (cases hs : s'.seek <;> simp [Atom.exec])

/-- **read_enter_slow.**  A fresh entry with fewer than `n` bytes in the buffer:
the scratch word is cleared, all the bytes there are go into it, and the call
suspends at the SECOND suspension point of the template. -/
theorem read_enter_slow (n yy : Nat) (be : Bool) (k fuel : Nat) (s : CSt) (hn8 : n ≤ 8) (hyy : 8 * n ≤ yy)
    (hseek : s.seek = false) (hle : s.iop ≤ s.buf.length) (hbuf : ∀ x ∈ s.buf, x < 256)
    (hav : s.buf.length - s.iop < n) (hfuel : s.buf.length - s.iop < fuel) :
    ∃ s', execL fuel [readTmpl n yy be k] s = some (.susp s') ∧ ReadSusp be k s s' (s.buf.drop s.iop) := by
  obtain ⟨s3, hw, ⟨k1, k2, k3, k4, k5⟩, hi, hsc⟩ := (read_from_loop n yy be fuel
    { s with pt := k + 1, scratch := 0 } [] hn8 hyy hseek hle hbuf
    (by simp) (by simp; omega) (partialV_nil be).symm hfuel).2 (by simpa using hav)
  refine ⟨s3, ?_, ⟨k1, k2, hi, k4, by simpa using hsc⟩⟩
  rw [readTmpl_slow_eq n yy be k fuel s hseek hav, hw]

/-- **read_resume.**  A call that is resumed at `case k + 1:` with the partial
value of the bytes `taken` (fewer than `n`) in the scratch word continues with
exactly that value: given the rest of the field it stores the value of
`taken ++ rest` and consumes only the rest; given less, it takes what there is
and suspends again with the longer partial value. -/
theorem read_resume (n yy : Nat) (be : Bool) (k fuel : Nat) (s : CSt) (taken : List Nat)
    (hn8 : n ≤ 8) (hyy : 8 * n ≤ yy) (hseek : s.seek = true) (hpt : s.pt = k + 1)
    (hle : s.iop ≤ s.buf.length) (hbuf : ∀ x ∈ s.buf, x < 256) (htaken : ∀ x ∈ taken, x < 256)
    (hlen : taken.length < n) (hs : s.scratch = partialV be taken) (hfuel : s.buf.length - s.iop < fuel) :
    (n ≤ taken.length + (s.buf.length - s.iop) →
      ∃ s', execL fuel [readTmpl n yy be k] s = some (.normal s') ∧
        ReadDone be k s s' (taken ++ (s.buf.drop s.iop).take (n - taken.length)) ∧
        s'.iop = s.iop + (n - taken.length)) ∧
    (taken.length + (s.buf.length - s.iop) < n →
      ∃ s', execL fuel [readTmpl n yy be k] s = some (.susp s') ∧
        ReadSusp be k s s' (taken ++ s.buf.drop s.iop)) := by
  have hloop := read_from_loop n yy be fuel { s with seek := false } taken hn8 hyy rfl hle hbuf htaken hlen hs hfuel
  rw [readTmpl_resume_eq n yy be k fuel s hseek hpt]
  constructor
  · intro hge
    obtain ⟨s3, hw, ⟨k1, k2, k3, k4, k5⟩, hi, ht⟩ := hloop.1 hge
    have hs3 : s3.seek = false := k3
    refine ⟨{ s3 with dest := s3.dest ++ [s3.t] }, ?_, ⟨k1, hs3, by simp [k4, ht]⟩, hi⟩
    rw [hw]
    simp [execL, Tm.exec, hs3, Atom.exec]
  · intro hlt
    obtain ⟨s3, hw, ⟨k1, k2, k3, k4, k5⟩, hi, hsc⟩ := hloop.2 hlt
    refine ⟨s3, by rw [hw], ⟨k1, by rw [k2]; exact hpt, hi, k4, hsc⟩⟩

/-! ## Whole calls of the C function, and a stream that arrives in pieces -/

theorem take_drop_len (l : List Nat) (r m : Nat) (h : r + m ≤ l.length) : ((l.drop r).take m).length = m := by
  simp; omega

theorem take_take_drop (l : List Nat) (a r m : Nat) (h : r + m ≤ a) :
    ((l.take a).drop r).take m = (l.drop r).take m := by
  rw [List.drop_take, List.take_take]
  congr 1; omega

theorem drop_take_all (l : List Nat) (a r : Nat) : (l.take a).drop r = (l.drop r).take (a - r) := by
  rw [List.drop_take]

theorem take_split (l : List Nat) (r m1 m2 : Nat) :
    (l.drop r).take m1 ++ (l.drop (r + m1)).take m2 = (l.drop r).take (m1 + m2) := by
  rw [List.take_add, List.drop_drop]

/-- a first call (`p_f = 0`) on the stream's first `a` bytes, the reader at `f.ri` -/
theorem read_call_fresh (n yy : Nat) (be : Bool) (fuel : Nat) (stream : List Nat) (arg : Nat) (f : Frame) (a : Nat)
    (hn8 : n ≤ 8) (hyy : 8 * n ≤ yy) (hbytes : ∀ x ∈ stream, x < 256) (ha : a ≤ stream.length)
    (hfuel : stream.length < fuel) (hp : f.p = 0) (hri : f.ri ≤ a) :
    (f.ri + n ≤ a → ∃ f', call fuel [readTmpl n yy be 1] (stream.take a) arg f = some (true, f') ∧
        f'.p = 0 ∧ f'.ri = f.ri + n ∧ f'.dest = f.dest ++ [peek be ((stream.drop f.ri).take n)]) ∧
    (a < f.ri + n → ∃ f', call fuel [readTmpl n yy be 1] (stream.take a) arg f = some (false, f') ∧
        f'.p = 2 ∧ f'.ri = a ∧ f'.dest = f.dest ∧
        f'.scratch = partialV be ((stream.drop f.ri).take (a - f.ri))) := by
  have hlen : (stream.take a).length = a := by simp; omega
  have hb : ∀ x ∈ stream.take a, x < 256 := fun x hx => hbytes x (List.mem_of_mem_take hx)
  have hp' : (f.p != 0) = false := by simp [hp]
  constructor
  · intro hge
    obtain ⟨s', hw, h1, h2, h3, h4⟩ := read_fast n yy be 1 fuel
      { buf := stream.take a, iop := f.ri, scratch := f.scratch, pt := f.p, seek := false, dest := f.dest, arg := arg }
      hyy rfl hb (by simp only [hlen]; omega)
    refine ⟨{ p := 0, scratch := s'.scratch, ri := s'.iop, dest := s'.dest }, ?_, rfl, h3, ?_⟩
    · simp only [call, hp', hw, h2, Bool.false_eq_true, ↓reduceIte]
    · simp only [h4, take_take_drop stream a f.ri n hge]
  · intro hlt
    obtain ⟨s', hw, h1, h2, h3, h4, h5⟩ := read_enter_slow n yy be 1 fuel
      { buf := stream.take a, iop := f.ri, scratch := f.scratch, pt := f.p, seek := false, dest := f.dest, arg := arg }
      hn8 hyy rfl (by simp only [hlen]; exact hri) hb (by simp only [hlen]; omega) (by simp only [hlen]; omega)
    refine ⟨{ p := s'.pt, scratch := s'.scratch, ri := s'.iop, dest := s'.dest }, ?_, h2, ?_, h4, ?_⟩
    · simp only [call, hp', hw]
    · simp only [h3, hlen]
    · simp only [h5, drop_take_all]

/-- a resumed call (`p_f = 2`): the field began at `r0`, the bytes up to `f.ri`
are in the scratch word -/
theorem read_call_resumed (n yy : Nat) (be : Bool) (fuel : Nat) (stream : List Nat) (arg : Nat) (f : Frame) (a r0 : Nat)
    (hn8 : n ≤ 8) (hyy : 8 * n ≤ yy) (hbytes : ∀ x ∈ stream, x < 256) (ha : a ≤ stream.length)
    (hfuel : stream.length < fuel) (hp : f.p = 2) (hr0 : r0 ≤ f.ri) (hri : f.ri ≤ a) (hpart : f.ri - r0 < n)
    (hsc : f.scratch = partialV be ((stream.drop r0).take (f.ri - r0))) :
    (r0 + n ≤ a → ∃ f', call fuel [readTmpl n yy be 1] (stream.take a) arg f = some (true, f') ∧
        f'.p = 0 ∧ f'.ri = r0 + n ∧ f'.dest = f.dest ++ [peek be ((stream.drop r0).take n)]) ∧
    (a < r0 + n → ∃ f', call fuel [readTmpl n yy be 1] (stream.take a) arg f = some (false, f') ∧
        f'.p = 2 ∧ f'.ri = a ∧ f'.dest = f.dest ∧
        f'.scratch = partialV be ((stream.drop r0).take (a - r0))) := by
  have hlen : (stream.take a).length = a := by simp; omega
  have hb : ∀ x ∈ stream.take a, x < 256 := fun x hx => hbytes x (List.mem_of_mem_take hx)
  have hp' : (f.p != 0) = true := by simp [hp]
  have htl : ((stream.drop r0).take (f.ri - r0)).length = f.ri - r0 := take_drop_len stream r0 _ (by omega)
  have htb : ∀ x ∈ (stream.drop r0).take (f.ri - r0), x < 256 :=
    fun x hx => hbytes x (List.mem_of_mem_drop (List.mem_of_mem_take hx))
  have hle' : f.ri ≤ (stream.take a).length := by rw [hlen]; exact hri
  have hfuel' : (stream.take a).length - f.ri < fuel := by simp only [hlen]; omega
  have hpl : ((stream.drop r0).take (f.ri - r0)).length < n := by rw [htl]; exact hpart
  have e0 : r0 + (f.ri - r0) = f.ri := by omega
  constructor
  · intro hge
    have hge' : n ≤ ((stream.drop r0).take (f.ri - r0)).length + ((stream.take a).length - f.ri) := by
      rw [htl, hlen]; omega
    have e2 : f.ri - r0 + (n - (f.ri - r0)) = n := by omega
    have e3 : f.ri + (n - (f.ri - r0)) = r0 + n := by omega
    have e4 : f.ri + (n - (f.ri - r0)) ≤ a := by omega
    obtain ⟨s', hw, ⟨h1, h2, h3⟩, h4⟩ := (read_resume n yy be 1 fuel
      { buf := stream.take a, iop := f.ri, scratch := f.scratch, pt := f.p, seek := true, dest := f.dest, arg := arg }
      ((stream.drop r0).take (f.ri - r0)) hn8 hyy rfl hp hle' hb htb hpl hsc hfuel').1 hge'
    simp only [htl] at h3 h4
    refine ⟨{ p := 0, scratch := s'.scratch, ri := s'.iop, dest := s'.dest }, ?_, rfl, by simp only [h4, e3], ?_⟩
    · simp only [call, hp', hw, h2, Bool.false_eq_true, ↓reduceIte]
    · rw [h3]
      have e1 : ((stream.take a).drop f.ri).take (n - (f.ri - r0)) = (stream.drop (r0 + (f.ri - r0))).take (n - (f.ri - r0)) := by
        rw [e0]
        exact take_take_drop stream a f.ri _ e4
      simp only [e1, take_split, e2]
  · intro hlt
    have hlt' : ((stream.drop r0).take (f.ri - r0)).length + ((stream.take a).length - f.ri) < n := by
      rw [htl, hlen]; omega
    have e2 : f.ri - r0 + (a - f.ri) = a - r0 := by omega
    obtain ⟨s', hw, h1, h2, h3, h4, h5⟩ := (read_resume n yy be 1 fuel
      { buf := stream.take a, iop := f.ri, scratch := f.scratch, pt := f.p, seek := true, dest := f.dest, arg := arg }
      ((stream.drop r0).take (f.ri - r0)) hn8 hyy rfl hp hle' hb htb hpl hsc hfuel').2 hlt'
    refine ⟨{ p := s'.pt, scratch := s'.scratch, ri := s'.iop, dest := s'.dest }, ?_, h2, ?_, h4, ?_⟩
    · simp only [call, hp', hw]
    · simp only [h3, hlen]
    · rw [h5]
      simp only [drop_take_all]
      have e1 : (stream.drop f.ri).take (a - f.ri) = (stream.drop (r0 + (f.ri - r0))).take (a - f.ri) := by
        rw [e0]
      rw [e1, take_split, e2]

/-- the frame between two calls while the field that began at `r0` is being read -/
def Mid (n : Nat) (be : Bool) (stream : List Nat) (r0 : Nat) (d0 : List Nat) (f : Frame) : Prop :=
  f.p = 2 ∧ r0 ≤ f.ri ∧ f.ri - r0 < n ∧
    f.scratch = partialV be ((stream.drop r0).take (f.ri - r0)) ∧ f.dest = d0

theorem drive_mid (n yy : Nat) (be : Bool) (fuel : Nat) (stream : List Nat) (arg r0 : Nat) (d0 : List Nat)
    (hn8 : n ≤ 8) (hyy : 8 * n ≤ yy) (hbytes : ∀ x ∈ stream, x < 256) (hfuel : stream.length < fuel) :
    ∀ (avails : List Nat) (f : Frame), Mid n be stream r0 d0 f → avails.Pairwise (· ≤ ·) →
      (∀ a ∈ avails, f.ri ≤ a ∧ a ≤ stream.length) → (∃ a ∈ avails, r0 + n ≤ a) →
      ∃ f', drive fuel [readTmpl n yy be 1] stream arg avails f = some (true, f') ∧
        f'.p = 0 ∧ f'.ri = r0 + n ∧ f'.dest = d0 ++ [peek be ((stream.drop r0).take n)] := by
  intro avails
  induction avails with
  | nil => intro f _ _ _ hex; obtain ⟨a, ha, _⟩ := hex; cases ha
  | cons a r ih =>
    intro f hmid hpw hall hex
    obtain ⟨hp, hr0, hpart, hsc, hd⟩ := hmid
    obtain ⟨hri, ha⟩ := hall a (by simp)
    have hcall := read_call_resumed n yy be fuel stream arg f a r0 hn8 hyy hbytes ha hfuel hp hr0 hri hpart hsc
    by_cases hge : r0 + n ≤ a
    · obtain ⟨f', hc, h1, h2, h3⟩ := hcall.1 hge
      exact ⟨f', by simp only [drive, hc], h1, h2, by rw [h3, hd]⟩
    · obtain ⟨f', hc, h1, h2, h3, h4⟩ := hcall.2 (by omega)
      have hpw' := List.pairwise_cons.mp hpw
      obtain ⟨f'', hd', g1, g2, g3⟩ := ih f' ⟨h1, by omega, by omega, by rw [h4, h2], by rw [h3, hd]⟩ hpw'.2
        (fun a' ha' => ⟨by rw [h2]; exact hpw'.1 a' ha', (hall a' (by simp [ha'])).2⟩)
        (by
          obtain ⟨x, hx, hxge⟩ := hex
          rcases List.mem_cons.mp hx with rfl | hx'
          · omega
          · exact ⟨x, hx', hxge⟩)
      exact ⟨f'', by simp only [drive, hc, hd'], g1, g2, g3⟩

/-- **read_split_invariant.**  The C of `x = args.src.read_uNNxe?()` (2 to 8
bytes, either byte order), driven by calls that see the first `a₁ ≤ a₂ ≤ …`
bytes of the stream, starting at position `r0` with ANY value left in the
scratch word by whatever ran before: as soon as some call sees the whole field,
the coroutine returns ok having stored the value of the field's `n` bytes —
the same value the one-piece run (`read_fast`) stores — and consumed exactly
those `n` bytes.  How the stream was cut does not matter. -/
theorem read_split_invariant (n yy : Nat) (be : Bool) (fuel : Nat) (stream : List Nat) (arg r0 stale : Nat)
    (d0 : List Nat) (hn8 : n ≤ 8) (hyy : 8 * n ≤ yy) (hbytes : ∀ x ∈ stream, x < 256)
    (hfuel : stream.length < fuel) (avails : List Nat) (hpw : avails.Pairwise (· ≤ ·))
    (hall : ∀ a ∈ avails, r0 ≤ a ∧ a ≤ stream.length) (hex : ∃ a ∈ avails, r0 + n ≤ a) :
    ∃ f', drive fuel [readTmpl n yy be 1] stream arg avails { p := 0, scratch := stale, ri := r0, dest := d0 } =
        some (true, f') ∧
      f'.p = 0 ∧ f'.ri = r0 + n ∧ f'.dest = d0 ++ [peek be ((stream.drop r0).take n)] := by
  cases avails with
  | nil => obtain ⟨a, ha, _⟩ := hex; cases ha
  | cons a r =>
    obtain ⟨hri, ha⟩ := hall a (by simp)
    have hcall := read_call_fresh n yy be fuel stream arg { p := 0, scratch := stale, ri := r0, dest := d0 } a
      hn8 hyy hbytes ha hfuel rfl hri
    by_cases hge : r0 + n ≤ a
    · obtain ⟨f', hc, h1, h2, h3⟩ := hcall.1 hge
      exact ⟨f', by simp only [drive, hc], h1, h2, h3⟩
    · obtain ⟨f', hc, h1, h2, h3, h4⟩ := hcall.2 (by simp only; omega)
      have hpw' := List.pairwise_cons.mp hpw
      obtain ⟨f'', hd', g1, g2, g3⟩ := drive_mid n yy be fuel stream arg r0 d0 hn8 hyy hbytes hfuel r f'
        ⟨h1, by rw [h2]; exact hri, by rw [h2]; omega, by rw [h4, h2], h3⟩ hpw'.2
        (fun a' ha' => ⟨by rw [h2]; exact hpw'.1 a' ha', (hall a' (by simp [ha'])).2⟩)
        (by
          obtain ⟨x, hx, hxge⟩ := hex
          rcases List.mem_cons.mp hx with rfl | hx'
          · omega
          · exact ⟨x, hx', hxge⟩)
      exact ⟨f'', by simp only [drive, hc, hd'], g1, g2, g3⟩

/-! ## seeded/C04-m3: `scratch = 0;` behind the suspension point -/

/-- With `scratch = 0;` moved behind `case k + 1:` (`readTmplM3`) the resumed
call wipes the partial value: `read_u32le?` on the bytes 11 22 33 44 55 66 77 88 99
given as 1 + 2 + rest stores 0x77665544 and has consumed 7 bytes, where the
unchanged template stores 0x44332211 and has consumed 4 — on the same input. -/
theorem read_m3_loses_partial_value :
    (drive 20 [readTmplM3 4 32 false 1] [0x11, 0x22, 0x33, 0x44, 0x55, 0x66, 0x77, 0x88, 0x99] 0 [1, 3, 9] {}).map
        (fun r => (r.1, r.2.ri, r.2.dest)) = some (true, 7, [0x77665544]) ∧
    (drive 20 [readTmpl 4 32 false 1] [0x11, 0x22, 0x33, 0x44, 0x55, 0x66, 0x77, 0x88, 0x99] 0 [1, 3, 9] {}).map
        (fun r => (r.1, r.2.ri, r.2.dest)) = some (true, 4, [0x44332211]) := by
  constructor <;> decide +kernel

/-- non-vacuity of `read_split_invariant`: `read_u24be_as_u32?` at position 2, three pieces -/
example : ∃ f', drive 20 [readTmpl 3 32 true 1] [1, 2, 3, 4, 5, 6] 0 [2, 3, 4, 6] { p := 0, scratch := 12345, ri := 2, dest := [] } =
    some (true, f') ∧ f'.p = 0 ∧ f'.ri = 2 + 3 ∧ f'.dest = [] ++ [peek true (([1, 2, 3, 4, 5, 6].drop 2).take 3)] :=
  read_split_invariant 3 32 true 20 [1, 2, 3, 4, 5, 6] 0 2 12345 [] (by omega) (by omega)
    (by decide) (by decide) [2, 3, 4, 6] (by decide) (by decide) (by decide)

/-- the skeleton of the multi-byte read template, in the token language of harness/cmd/c04/skel.go -/
example : showTms [readTmpl 4 32 false 1] =
    ["{", "P", "A", "I{", "A", "A", "}E{", "A", "P", "W{", "I{", "A", "G:s", "}", "A", "A", "A", "A", "A",
     "I{", "A", "B", "}", "A", "A", "}", "}", "A", "}"] := by decide

/-- … and of the seeded change: the same statements, `P` and `scratch = 0` swapped -/
example : showTms [readTmplM3 4 32 false 1] =
    ["{", "P", "A", "I{", "A", "A", "}E{", "P", "A", "W{", "I{", "A", "G:s", "}", "A", "A", "A", "A", "A",
     "I{", "A", "B", "}", "A", "A", "}", "}", "A", "}"] := by decide

end WuffsVerif.Props.C04Coro
