/-
C04 — the resume switch of a generated coroutine and the scratch word of the
multi-byte reads (`args.src.read_u16be?()` … `read_u64le?()`), over the model
of the emitted C in Model/CCoro.lean (`readTmpl`, `Tm.exec`; tied to the
working tree by the `skel` ops of harness/cmd/c04: the control skeleton of the
C emitted for every coroutine the harness runs == `Tm.show` of these templates).

The language says what `x = args.src.read_u32le?()` means: take the next four
bytes of the stream.  The C function gets the stream in pieces: when the
buffer of a call runs out in the middle of the field it returns
`$short read`, and the next call — a NEW invocation of the C function, which
jumps to `case k:` of `switch (coro_susp_point)` in the middle of the
template's `else` branch — must continue with the bytes already taken.  They
wait, with their count, in `self->private_data.s_f.scratch`.

  `read_fast`, `read_enter_slow`    a fresh entry into the template
  `read_resume`                     a resumed call continues with the same partial value
  `read_split_invariant`            whatever the pieces, the field gets the value of its
                                    n bytes and exactly n bytes are consumed
  `read_m3_loses_partial_value`     `scratch = 0;` behind the suspension point (seeded/C04-m3)
                                    is wrong — on a concrete two-piece input
-/
import WuffsVerif.Proof.CCoroLemmas

namespace WuffsVerif.Props.C04Coro
open WuffsVerif.CCoro

/-- the value of a complete field fits its C type -/
theorem peek_lt (be : Bool) (bs : List Nat) (h : ∀ x ∈ bs, x < 256) : peek be bs < 2 ^ (8 * bs.length) := by
  cases be
  · simpa [peek] using valLE_lt bs h
  · simpa [peek] using valBE_lt bs h

/-- **read_fast.**  A fresh entry with the whole field in the buffer: the fast
path stores the value of the next `n` bytes and consumes exactly them. -/
theorem read_fast (n yy : Nat) (be : Bool) (k fuel : Nat) (s : CSt) (hyy : 8 * n ≤ yy)
    (hseek : s.seek = false) (hbuf : ∀ x ∈ s.buf, x < 256) (hav : s.iop + n ≤ s.buf.length) :
    ∃ s', execL fuel [readTmpl n yy be k] s = some (.normal s') ∧ s'.buf = s.buf ∧ s'.seek = false ∧
      s'.iop = s.iop + n ∧ s'.dest = s.dest ++ [peek be ((s.buf.drop s.iop).take n)] := by
  have hcond : decide (n ≤ s.buf.length - s.iop) = true := by simp; omega
  have hlen : ((s.buf.drop s.iop).take n).length = n := by simp; omega
  have hval : peek be ((s.buf.drop s.iop).take n) % 2 ^ yy = peek be ((s.buf.drop s.iop).take n) := by
    apply Nat.mod_eq_of_lt
    have := peek_lt be ((s.buf.drop s.iop).take n) (fun x hx => hbuf x (List.mem_of_mem_drop (List.mem_of_mem_take hx)))
    rw [hlen] at this
    exact lt_pow_of_le this hyy
  have h : execL fuel [readTmpl n yy be k] s = some (.normal
      { s with pt := k, t := peek be ((s.buf.drop s.iop).take n), iop := s.iop + n,
               dest := s.dest ++ [peek be ((s.buf.drop s.iop).take n)] }) := by
    simp [readTmpl_eq, execL, Tm.exec, hseek, Cond.eval, hcond, Atom.exec, hav, hval]
  exact ⟨_, h, rfl, hseek, rfl, rfl⟩

end WuffsVerif.Props.C04Coro
