/-
C14 — the concurrent RAC reader WITH DATA (lib/rac/conc_reader.go and the Concurrency > 1 paths
of lib/rac/reader.go; model: Model/Rac/ConcData.lean).

The model has `n` Worker goroutines (any `n`), a Manager and `main`; a Worker decodes with
its own copy of the sequential Reader model of Props/C14.lean; work items carry their ranges
and bytes; `main` logs every API call that has returned and its result.  `ReachD F n s`:
`s` is reachable from the initial state over the file `F` by ANY finite interleaving of the
goroutines' steps and ANY sequence of Read / Seek / SeekRange / Close calls (any arguments,
including seeks while work is in flight).

Proved here, for every valid file, every `n`, every reachable state:

* `conc_refines_seq`       the results returned so far are exactly those of the in-memory reader
                           over the fully decoded data — and of the sequential Reader — on the
                           same calls: under every scheduling;
* `conc_no_fault`          none of the error paths of the protocol is ever taken (no failed chunk
                           lookup, no Worker error, no empty request, no two results with the
                           same start offset overwriting each other in `completedWorks`);
* `conc_no_deadlock`       (n ≥ 1) some goroutine can always take a step; while a call is in
                           progress that step is not the start of another call
                           (`conc_call_not_stuck`): a Read waiting in `nextWork`, a cancel and a
                           Close are never stuck;
* `conc_call_returns`      … and every call RETURNS after finitely many steps, whatever the order in
                           which the goroutines take them (`conc_no_infinite_internal_run`: a potential
                           decreases with every protocol step);
* `conc_tiling`            the ranges in flight tile the rest of the region of interest exactly
                           once and in order (the invariant behind the two theorems above);
* `conc_close_joins_data`, `conc_buffers_conserved_data`, `conc_no_stale_data`
                           the protocol theorems of Props/C14Conc.lean hold of this model too
                           (it refines the protocol model: `ConcD.sim_step`).
-/
import WuffsVerif.Proof.RacConcDataTerm

set_option linter.unusedVariables false
set_option linter.unusedSimpArgs false

namespace WuffsVerif.Props.C14
open WuffsVerif.Rac WuffsVerif.Rac.Conc WuffsVerif.Rac.ConcD

/-- **C14, concurrent part: same results under every scheduling.**  In every reachable state of
    the concurrent reader over a valid file — any number of Workers, any interleaving, any
    sequence of Read (any buffer length) / Seek (any offset and whence) / SeekRange (any bounds) /
    Close calls, including seeks and closes while work is in flight — the results of the calls
    that have returned (`s.results`, in call order: bytes, byte counts, positions, EOFs, errors)
    are those of the in-memory reader over the fully decoded data on the same calls (`s.hist`),
    and therefore those of the sequential Reader (`reader_refines_spec`).  A Go `(n > 0, io.EOF)`
    is identified with `(n, nil)`, as in `reader_refines_spec`. -/
theorem conc_refines_seq (F : File) (hok : F.ok) (n : Nat) (s : DSt) (h : ReachD F n s) :
    s.results = Spec.run (Spec.init F.bytes true) s.hist ∧
    s.results = R.run F (R.init F true) s.hist := by
  have hlog := (reachD_all hok h).d.log
  exact ⟨hlog, by rw [hlog, reader_refines_spec F hok true s.hist]⟩

/-- … in particular the results do not depend on the number of Workers nor on the schedule: two runs
    (any worker counts, any interleavings) that have completed the same calls got the same results -/
theorem conc_schedule_independent (F : File) (hok : F.ok) (n₁ n₂ : Nat) (s₁ s₂ : DSt)
    (h₁ : ReachD F n₁ s₁) (h₂ : ReachD F n₂ s₂) (hh : s₁.hist = s₂.hist) : s₁.results = s₂.results := by
  rw [(conc_refines_seq F hok n₁ s₁ h₁).1, (conc_refines_seq F hok n₂ s₂ h₂).1, hh]

/-- while a Read is in progress, what it has copied to the caller's buffer so far is the decoded
    file's bytes from the position the call started at, and it never goes past the limit -/
theorem conc_read_prefix (F : File) (hok : F.ok) (n : Nat) (s : DSt) (h : ReachD F n s) (k : Nat)
    (hp : s.pend = some (.read k)) (he : s.err = none) :
    s.got = (F.bytes.drop (s.pos - s.got.length)).take s.got.length ∧ s.got.length ≤ k ∧ s.pos ≤ s.lim := by
  have hd := (reachD_all hok h).d
  obtain ⟨r1, r2, r3⟩ := hd.rd k hp
  obtain ⟨p1, p2, p3⟩ := hd.sp he
  have e : s.pos - s.got.length = (specOf F s).pos := by omega
  exact ⟨by rw [e]; exact p3, by omega, r2⟩

/-- **No protocol error on a valid file.** -/
theorem conc_no_fault (F : File) (hok : F.ok) (n : Nat) (s : DSt) (h : ReachD F n s) : s.fault = false :=
  (reachD_all hok h).d.nofault

/-- **No deadlock.**  With at least one Worker, in every reachable state some goroutine can take
    a step, whatever the file, the calls made so far and the interleaving. -/
theorem conc_no_deadlock (F : File) (hok : F.ok) (n : Nat) (hn : 0 < n) (s : DSt) (h : ReachD F n s) :
    ∃ l s', stepD F s l = some s' :=
  live_all hok hn (reachD_all hok h) (reachD_sinv h)

/-- … and while an API call is in progress (`main` is neither between calls nor closed) the
    enabled step is a step of the protocol, not the start of another call: the call in progress
    — a Read waiting in `nextWork`, the cancel of a Read after a Seek, a Close — is not stuck. -/
theorem conc_call_not_stuck (F : File) (hok : F.ok) (n : Nat) (hn : 0 < n) (s : DSt) (h : ReachD F n s)
    (hm : s.main ≠ .idle ∧ s.main ≠ .closed) :
    ∃ l s', stepD F s l = some s' ∧ ∀ op, l ≠ .call op := by
  obtain ⟨l, s', hs⟩ := conc_no_deadlock F hok n hn s h
  refine ⟨l, s', hs, ?_⟩
  intro op hl
  subst hl
  simp only [stepD, callD] at hs
  split at hs
  · cases hs
  · rw [if_neg (by intro h; rcases h with h | h; exact hm.1 h; exact hm.2 h)] at hs
    cases hs

/-- **The ranges in flight tile the rest of the region of interest.**  While a region of interest
    is being served (`Active`): every offset between the next one `main` will ask for and the
    dispatch frontier is in exactly one of {an entry of `completedWorks`, a result in `resc`, a
    Worker's unsent result, a Worker's unread range}, and no offset outside is in any; the
    requests in `reqc`, the Manager's request and the part of the region it has not looked at yet
    continue from the frontier to the end of the region, in order. -/
theorem conc_tiling (F : File) (hok : F.ok) (n : Nat) (s : DSt) (h : ReachD F n s) (ha : Active s) :
    (∀ x, occ s x = if nextPos s ≤ x ∧ x < qOf s then 1 else 0) ∧
    Chain (qOf s) (mchain s) s.mgr.rhi ∧ s.mgr.rhi = s.lim := by
  have hA := reachD_all hok h
  have hT := hA.t ha
  exact ⟨hT.occ, hT.chain, (hA.d.live ha.1 ha.2).1⟩

/-- every work item that exists carries exactly the decoded file's bytes of its range, and lies
    inside the region of interest -/
theorem conc_items_good (F : File) (hok : F.ok) (n : Nat) (s : DSt) (h : ReachD F n s) (it : DItem)
    (hit : it ∈ s.resc ∨ it ∈ s.completed ∨ s.curr = some it) :
    it.lo < it.hi ∧ it.hi ≤ s.mgr.rhi ∧ it.data = (F.bytes.drop it.lo).take (it.hi - it.lo) := by
  have hd := (reachD_all hok h).d
  rcases hit with hit | hit | hit
  · exact ⟨(hd.resc it hit).ne, (hd.resc it hit).le, (hd.resc it hit).data⟩
  · exact ⟨(hd.comp it hit).ne, (hd.comp it hit).le, (hd.comp it hit).data⟩
  · exact ⟨(hd.curr it hit).ne, (hd.curr it hit).le, (hd.curr it hit).data⟩

/-! ### every call returns -/

theorem execD_append {F : File} : ∀ (ls : List DLabel) (s s' : DSt) (l : DLabel) (s'' : DSt),
    execD F s ls = some s' → stepD F s' l = some s'' → execD F s (ls ++ [l]) = some s''
  | [], s, s', l, s'', h1, h2 => by
    simp only [execD] at h1; cases h1
    simp only [List.nil_append, execD, h2]
  | x :: xs, s, s', l, s'', h1, h2 => by
    simp only [execD] at h1
    split at h1
    · next s1 hs1 =>
      simp only [List.cons_append, execD, hs1]
      exact execD_append xs s1 s' l s'' h1 h2
    · cases h1

theorem reachD_step {F : File} {n : Nat} {s s' : DSt} (l : DLabel) (h : ReachD F n s) (hs : stepD F s l = some s') :
    ReachD F n s' := by
  obtain ⟨ls, hls⟩ := h
  exact ⟨ls ++ [l], execD_append ls _ _ l _ hls hs⟩

/-- a step of the protocol (of any goroutine) that is not the start of an API call -/
def IStep (F : File) (s s' : DSt) : Prop := ∃ l, (∀ op, l ≠ DLabel.call op) ∧ stepD F s l = some s'

theorem no_infinite_descent {α : Type} {r : α → α → Prop} (wf : WellFounded r) (g : Nat → α) :
    ¬ ∀ i, r (g (i + 1)) (g i) := by
  intro h
  have key : ∀ a, ∀ g : Nat → α, g 0 = a → (∀ i, r (g (i + 1)) (g i)) → False := by
    intro a
    refine wf.induction (C := fun a => ∀ g : Nat → α, g 0 = a → (∀ i, r (g (i + 1)) (g i)) → False) a ?_
    intro x ih g hg hch
    exact ih (g 1) (by rw [← hg]; exact hch 0) (fun i => g (i + 1)) rfl (fun i => hch (i + 1))
  exact key (g 0) g rfl h

/-- **No livelock: the protocol cannot run forever without a new call.**  From a reachable state
    there is no infinite sequence of protocol steps (of `main` inside a call, the Manager, the
    Workers — in any order, fair or not): the potential of Proof/RacConcDataTerm.lean decreases with
    each of them. -/
theorem conc_no_infinite_internal_run (F : File) (hok : F.ok) (n : Nat) (f : Nat → DSt)
    (h0 : ReachD F n (f 0)) : ¬ ∀ i, IStep F (f i) (f (i + 1)) := by
  intro hall
  have hreach : ∀ i, ReachD F n (f i) := by
    intro i
    induction i with
    | zero => exact h0
    | succ i ih =>
      obtain ⟨l, _, hs⟩ := hall i
      exact reachD_step l ih hs
  have wf : WellFounded (Prod.Lex Nat.lt Nat.lt) := (Prod.lex Nat.lt_wfRel Nat.lt_wfRel).wf
  apply no_infinite_descent wf (fun i => (rank (f i).main, pot F (f i)))
  intro i
  obtain ⟨l, hl, hs⟩ := hall i
  rcases decr_step hok l hl (reachD_all hok (hreach i)) hs with hd | ⟨he, hd⟩
  · exact Prod.Lex.left _ _ hd
  · show Prod.Lex Nat.lt Nat.lt (rank (f (i + 1)).main, pot F (f (i + 1))) (rank (f i).main, pot F (f i))
    rw [he]
    exact Prod.Lex.right _ hd

/-- **Every call returns, under every scheduling.**  Take any run from a reachable state in which
    some goroutine takes a protocol step whenever a call is in progress (by `conc_call_not_stuck`
    that is always possible; which goroutine, in which order, is arbitrary): after finitely many
    steps `main` is between calls again (or closed) — the Read / cancel / Close has returned, and by
    `conc_refines_seq` with the right result. -/
theorem conc_call_returns (F : File) (hok : F.ok) (n : Nat) (f : Nat → DSt) (h0 : ReachD F n (f 0))
    (hrun : ∀ i, ((f i).main ≠ .idle ∧ (f i).main ≠ .closed) → IStep F (f i) (f (i + 1))) :
    ∃ i, (f i).main = .idle ∨ (f i).main = .closed := by
  apply Classical.byContradiction
  intro hne
  have hin : ∀ i, (f i).main ≠ .idle ∧ (f i).main ≠ .closed := by
    intro i
    constructor
    · intro h; exact hne ⟨i, Or.inl h⟩
    · intro h; exact hne ⟨i, Or.inr h⟩
  exact conc_no_infinite_internal_run F hok n f h0 (fun i => hrun i (hin i))

/-! ### the protocol theorems, for the model with data -/

theorem reachD_reach {F : File} {n : Nat} {s : DSt} (h : ReachD F n s) : CInv (abs s) := reachD_cinv h

/-- **Close joins** (no goroutine survives Close): once `Close` has returned, the Manager and
    every Worker have returned; until then all of them are alive. -/
theorem conc_close_joins_data (F : File) (n : Nat) (s : DSt) (h : ReachD F n s) (hc : s.main = .closed) :
    s.mgr.m.pc = .done ∧ ∀ (i : Nat) (w : DW), s.ws[i]? = some w → w.w.pc = .done := by
  have ph := (reachD_cinv h).phase
  have hcA : (abs s).main = .closed := hc
  simp only [PhaseInv, hcA] at ph
  exact ⟨ph.1, fun i w hi => ph.2 i w.w (abs_ws_get hi)⟩

/-- **Buffers are conserved**: each of a Worker's two buffers is in exactly one place. -/
theorem conc_buffers_conserved_data (F : File) (n : Nat) (s : DSt) (h : ReachD F n s) (i : Nat) (w : DW)
    (hi : s.ws[i]? = some w) :
    w.w.held + w.w.canAlloc + w.w.recyc + outIs w.w.out + countOwner i (s.resc.map (·.it))
      + countOwner i (s.completed.map (·.it)) + ownerIs i (s.curr.map (·.it)) = 2 :=
  (reachD_cinv h).buf i w.w (abs_ws_get hi)

/-- **No stale work**: every result in flight was made for the current region of interest. -/
theorem conc_no_stale_data (F : File) (n : Nat) (s : DSt) (h : ReachD F n s) (it : DItem)
    (hit : it ∈ s.resc ∨ it ∈ s.completed ∨ s.curr = some it) : it.it.epoch = s.epoch := by
  have I := reachD_cinv h
  rcases hit with hit | hit | hit
  · exact I.ep_resc it.it (List.mem_map.mpr ⟨it, hit, rfl⟩)
  · exact I.ep_comp it.it (List.mem_map.mpr ⟨it, hit, rfl⟩)
  · exact I.ep_curr it.it (by simp [abs, hit])

/-! ### non-vacuity -/

/-- the two-chunk file of Props/C14.lean; calls that return at once are evaluated by the kernel:
    the reachable state after four calls has the four expected results in its log -/
example : ((execD exFile (DSt.init exFile 2)
      [.call (.seek 1 0), .call (.seekRange 5 100), .call (.seek 7 3), .call (.read 1)]).map (·.results))
    = some [.seek 1 none, .err none, .seek 0 (some .whence), .read [] (some .whence)] := by
  decide

/-- a Read after a Seek starts the pipeline: region of interest sent, first request made and
    received (the steps up to the Worker's first `racReader.Read`) -/
example : ((execD exFile (DSt.init exFile 2)
      [.call (.seek 1 0), .call (.read 4), .roi, .mgrMake, .mgrSend, .wRecv 1]).map
        (fun s => (s.pos, s.lim, s.reqc.length, (s.ws.map (fun w => (w.dlo, w.dhi))))))
    = some (1, 6, 0, [(0, 0), (1, 4)]) := by
  decide

example : ((execD exFile (DSt.init exFile 2)
      [.call (.seek 1 0), .call (.read 4), .roi, .mgrMake, .mgrSend, .wRecv 1]).map (·.main)) = some .reading := by
  decide

example : ReachD exFile 2 (DSt.init exFile 2) := ⟨[], rfl⟩

end WuffsVerif.Props.C14
