/-
C03 — the status-flow theorem instantiated on the working tree's std/ (`Gen/C03_Wrappers.lean` is
regenerated from std/*/*.wuffs by `bin/wvh_c03 -mode gen` on every run of the check; a public coroutine
that loses its `is_closed()` guard makes `std_wrappers_guarded` fail to build).
-/
import WuffsVerif.Gen.C03_Wrappers
import WuffsVerif.Props.C03Flow

namespace WuffsVerif.Props.C03

open WuffsVerif.StatusFlow

/-- Every public coroutine of std/ that takes an `io_reader` — except the ones listed in
`Gen.C03.sampledOnly` — is accepted by the checker. -/
theorem std_wrappers_guarded : Gen.C03.wrappers.all (fun p => guarded p.2) = true := by decide

/-- The translator found them (guards against an empty, vacuous list): the pinned tree has 64. -/
theorem std_wrappers_count : 60 ≤ Gen.C03.wrappers.length ∧ Gen.C03.sampledOnly.length ≤ 4 := by decide

/-- **No public coroutine of std/ (of the 64 listed) ever returns `$short read` to a caller whose source
is closed** — for every input, every buffer schedule, every number of calls: whatever the private
coroutines underneath answer. The remaining public coroutines (`Gen.C03.sampledOnly`: json, lzw) are
sampled as compiled C only. -/
theorem std_public_coroutines_never_short_read_on_closed {W : Type} :
    ∀ p ∈ Gen.C03.wrappers, ∀ (wd : World W) (fuel : Nat) (closed : Bool) (env : Var → Status) (w : W),
      ∀ e ∈ (exec wd fuel p.2 ⟨closed, env, w, []⟩).2.trace, ¬ (e.1 = true ∧ e.2 = Status.shortRead) := by
  intro p hp
  have h := List.all_eq_true.mp std_wrappers_guarded p hp
  exact guarded_never_short_read_on_closed p.2 h

end WuffsVerif.Props.C03
