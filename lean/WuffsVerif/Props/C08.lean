/-
C08 — generated objects enforce their call protocol (this file) and the I/O buffer contract
(Props/C08IO.lean); image decoders' call_sequence automaton (Props/C08Seq.lean).

All theorems are about `Model/ObjProto.lean`, which mirrors the prologue/epilogue templates of
/repo/internal/cgen/func.go and `writeInitializerImpl` of cgen.go. They hold for EVERY finite call
history: a history is a `List Call`, and every method call carries the result its body would
produce, so the quantification includes every possible method body and every input.
-/
import WuffsVerif.Model.ObjProto

namespace WuffsVerif.Props.C08
open WuffsVerif.ObjProto

/-! ### helpers -/

/-- Memory in which `initialize` has not succeeded (all-zero memory in particular). -/
def Uninit (o : Obj) : Prop := o.magic ≠ MAGIC ∧ o.magic ≠ DISABLED

theorem uninit_of_zero (o : Obj) (h : o.magic = 0) : Uninit o := by
  unfold Uninit MAGIC DISABLED; omega

/-- A status-returning method of `d`, called on a non-null receiver. -/
def statusCall (d : StructDesc) : Call → Bool
  | .meth idx false _ _ =>
    match d.methods[idx]? with
    | some m => m.returnsStatus
    | none => false
  | _ => false

/-- The same, restricted to methods that are not pure (`func foo.bar!(…)` and coroutines): the magic
test of pure methods lets a DISABLED object through (`writeFuncImplSelfMagicCheck`). std/ has no pure
public method that returns a status. -/
def impureStatusCall (d : StructDesc) : Call → Bool
  | .meth idx false _ _ =>
    match d.methods[idx]? with
    | some m => m.returnsStatus && m.effect != .pure
    | none => false
  | _ => false

/-- No `initialize` along the trace returned ok. -/
def NoInitOk (t : List (Call × Ret)) : Prop :=
  ∀ p ∈ t, p.1.isInit = true → p.2 ≠ .st .ok

theorem trace_append (d : StructDesc) (o : Obj) (a b : List Call) :
    trace d o (a ++ b) = trace d o a ++ trace d (run d o a) b := by
  induction a generalizing o with
  | nil => rfl
  | cons c cs ih => simp [trace, run, ih]

theorem run_append (d : StructDesc) (o : Obj) (a b : List Call) :
    run d o (a ++ b) = run d (run d o a) b := by
  induction a generalizing o with
  | nil => rfl
  | cons c cs ih => simp [run, ih]

theorem skips_false_of_coroutine (m : Method) (h : m.effect = .coroutine) :
    m.skipsPrologue = false := by
  simp [Method.skipsPrologue, h]

theorem skips_false_of_returnsStatus (m : Method) (h : m.returnsStatus = true) :
    m.skipsPrologue = false := by
  unfold Method.skipsPrologue
  unfold Method.returnsStatus at h
  cases he : m.effect <;> cases ho : m.hasOut <;> simp_all

theorem callMethod_checked (m : Method) (o : Obj) (sn : Bool) (args : List ArgVal) (b : BodyRes)
    (h : m.skipsPrologue = false) : callMethod m o sn args b = callMethodChecked m o sn args b := by
  simp [callMethod, h]

/-! ### initialize -/

/-- An `initialize` that does not return ok leaves the object exactly as it was. -/
theorem init_fail_unchanged (d : StructDesc) (o : Obj) (sn : Bool) (sz v op : Nat)
    (h : (initObj d o sn sz v op).2 ≠ .ok) : (initObj d o sn sz v op).1 = o := by
  unfold initObj at *
  split
  · rfl
  · split
    · rfl
    · split
      · rfl
      · split
        · split
          · rfl
          · simp_all
        · simp_all

/-- `init_rejects` (size): a wrong `sizeof_star_self` is answered with `#bad sizeof receiver`
and nothing is written. -/
theorem init_rejects_sizeof (d : StructDesc) (o : Obj) (sz v op : Nat) (h : sz ≠ d.sizeofSelf) :
    initObj d o false sz v op = (o, .err .badSizeofReceiver) := by
  unfold initObj
  have : d.sizeofSelf ≠ sz := fun e => h e.symm
  simp [this]

/-- `init_rejects` (version): a different major version, or a newer minor version than the library's,
is answered with `#bad wuffs version` and nothing is written. -/
theorem init_rejects_version (d : StructDesc) (o : Obj) (v op : Nat)
    (h : (v >>> 32) ≠ d.verMajor ∨ ((v >>> 16) &&& 0xFFFF) > d.verMinor) :
    initObj d o false d.sizeofSelf v op = (o, .err .badWuffsVersion) := by
  unfold initObj
  simp [h]

/-- A successful `initialize` leaves a usable object: MAGIC, and — unless the caller claimed
ALREADY_ZEROED — no coroutine active and every suspension point reset. -/
theorem init_ok_fresh (d : StructDesc) (o : Obj) (sn : Bool) (sz v op : Nat)
    (h : (initObj d o sn sz v op).2 = .ok) :
    (initObj d o sn sz v op).1.magic = MAGIC ∧
    (op &&& ALREADY_ZEROED = 0 →
      (initObj d o sn sz v op).1.active = 0 ∧ ∀ f, (initObj d o sn sz v op).1.susp f = 0) := by
  unfold initObj at *
  split
  · simp_all
  · split
    · simp_all
    · split
      · simp_all
      · split
        · split
          · simp_all
          · simp_all
        · simp_all [Obj.zeroed]

/-- With ALREADY_ZEROED on memory whose magic word is not zero (e.g. re-initialising a used object)
the claim is detected and nothing is written. -/
theorem init_falsely_claimed (d : StructDesc) (o : Obj) (v op : Nat)
    (hv : ¬((v >>> 32) ≠ d.verMajor ∨ ((v >>> 16) &&& 0xFFFF) > d.verMinor))
    (hz : op &&& ALREADY_ZEROED ≠ 0) (hm : o.magic ≠ 0) :
    initObj d o false d.sizeofSelf v op = (o, .err .initializeFalselyClaimedAlreadyZeroed) := by
  unfold initObj
  simp [hv, hz, hm]

/-! ### not_initialized -/

theorem callMethod_uninit (m : Method) (o : Obj) (sn : Bool) (args : List ArgVal) (b : BodyRes)
    (hu : Uninit o) :
    (callMethod m o sn args b).1 = o ∧
    (sn = false → m.returnsStatus = true →
      (callMethod m o sn args b).2 = .st (.err .initializeNotCalled)) := by
  obtain ⟨h1, h2⟩ := hu
  have hb : magicBad m o = true := by
    unfold magicBad; split <;> simp [h1, h2]
  cases hsk : m.skipsPrologue
  · rw [callMethod_checked _ _ _ _ _ hsk]
    unfold callMethodChecked
    cases sn
    · simp [hb, badMagicRet, h2]
    · simp
  · refine ⟨by simp [callMethod, hsk], ?_⟩
    intro _ hr
    rw [skips_false_of_returnsStatus m hr] at hsk
    exact absurd hsk (by simp)

theorem step_uninit (d : StructDesc) (o : Obj) (c : Call) (hu : Uninit o)
    (hc : c.isInit = true → (step d o c).2 ≠ .st .ok) :
    Uninit (step d o c).1 ∧
    (statusCall d c = true → (step d o c).2 = .st (.err .initializeNotCalled)) := by
  cases c with
  | init sn sz v op =>
    have hne : (initObj d o sn sz v op).2 ≠ .ok := by
      intro h; apply hc rfl; simp [step, h]
    have := init_fail_unchanged d o sn sz v op hne
    simp [step, this, hu, statusCall]
  | meth idx sn args b =>
    cases hm : d.methods[idx]? with
    | none => cases sn <;> simp [step, statusCall, hm, hu]
    | some m =>
      have := callMethod_uninit m o sn args b hu
      cases sn
      · simp only [step, statusCall, hm, this.1, hu, true_and]
        intro hr; exact this.2 rfl hr
      · simp [step, statusCall, hm, this.1, hu]

/-- **not_initialized.** On memory in which no `initialize` has succeeded — all-zero memory in
particular, but also any garbage whose first word is neither MAGIC nor DISABLED — every
status-returning method of every history answers `#initialize not called`, for as long as no
`initialize` returns ok. (Histories that continue after a successful `initialize` are covered through
`trace_append`: what happens later does not change earlier answers.) -/
theorem not_initialized_gen (d : StructDesc) (o : Obj) (hu : Uninit o) (cs : List Call)
    (hno : NoInitOk (trace d o cs)) :
    ∀ p ∈ trace d o cs, statusCall d p.1 = true → p.2 = .st (.err .initializeNotCalled) := by
  induction cs generalizing o with
  | nil => simp [trace]
  | cons c cs ih =>
    have hc : c.isInit = true → (step d o c).2 ≠ .st .ok := by
      intro hi; exact hno (c, (step d o c).2) (by simp [trace]) hi
    have hs := step_uninit d o c hu hc
    intro p hp
    simp only [trace, List.mem_cons] at hp
    rcases hp with rfl | hp
    · exact hs.2
    · apply ih (step d o c).1 hs.1 _ p hp
      intro q hq; exact hno q (by simp [trace, hq])

theorem not_initialized (d : StructDesc) (o : Obj) (h0 : o.magic = 0) (cs : List Call)
    (hno : NoInitOk (trace d o cs)) :
    ∀ p ∈ trace d o cs, statusCall d p.1 = true → p.2 = .st (.err .initializeNotCalled) :=
  not_initialized_gen d o (uninit_of_zero o h0) cs hno

/-- `init_rejects`, second half: after any number of rejected `initialize` calls the object is still
unusable (consequence of the two theorems above on a concrete shape of history). -/
theorem init_rejects_unusable (d : StructDesc) (o : Obj) (h0 : o.magic = 0) (badsz v op : Nat)
    (hsz : badsz ≠ d.sizeofSelf) (idx : Nat) (m : Method) (hm : d.methods[idx]? = some m)
    (hr : m.returnsStatus = true) (args : List ArgVal) (b : BodyRes) :
    (trace d o [.init false badsz v op, .meth idx false args b]).map (·.2) =
      [.st (.err .badSizeofReceiver), .st (.err .initializeNotCalled)] := by
  have h1 := init_rejects_sizeof d o badsz v op hsz
  have hu := uninit_of_zero o h0
  have h2 := (callMethod_uninit m o false args b hu).2 rfl hr
  simp [trace, step, h1, hm, h2]

/-! ### disabled_sticky -/

/-- A coroutine call on an initialised, enabled object that returns an error — a body error, a
rejected argument, or an interleaved call — leaves the object DISABLED. -/
theorem coroutine_error_disables (m : Method) (hm : m.effect = .coroutine) (o : Obj)
    (hmagic : o.magic = MAGIC) (args : List ArgVal) (b : BodyRes) (s : Status)
    (hret : (callMethod m o false args b).2 = .st s) (herr : s.isError = true) :
    (callMethod m o false args b).1.magic = DISABLED := by
  have hb : magicBad m o = false := by simp [magicBad, hm, hmagic]
  rw [callMethod_checked _ _ _ _ _ (skips_false_of_coroutine m hm)] at *
  unfold callMethodChecked at *
  simp only [Bool.false_eq_true, ↓reduceIte, hb] at *
  split
  · simp [hm]
  · simp only [hm, beq_self_eq_true, ↓reduceIte] at *
    split
    · rfl
    · rename_i hargs hinter
      simp only [hargs, hinter, Bool.false_eq_true, ↓reduceIte] at hret
      have : b.st = s := by simpa using hret
      simp [epilogue, this, herr]

/-- The same for the other kind of method that has the error ⇒ DISABLED epilogue: a status-returning
non-coroutine that uses an io argument. (Status-returning methods without one, such as `set_quirk!`
or `restart_frame!`, return their error without disabling the object.) -/
theorem statusvar_error_disables (m : Method) (hm : m.effect ≠ .coroutine)
    (hs : m.hasStatusVar = true) (o : Obj) (args : List ArgVal) (b : BodyRes)
    (hmb : magicBad m o = false) (hargs : argsBad m.args args = false)
    (herr : b.st.isError = true) :
    (callMethod m o false args b).1.magic = DISABLED := by
  have hc : (m.effect == Effect.coroutine) = false := by simpa using hm
  have hr : m.returnsStatus = true := by
    unfold Method.hasStatusVar at hs
    simp only [hc, Bool.false_or, Bool.and_eq_true] at hs
    exact hs.1
  rw [callMethod_checked _ _ _ _ _ (skips_false_of_returnsStatus m hr)]
  unfold callMethodChecked
  simp [hmb, hc, hs, hargs, epilogue, herr]

/-- A rejected argument (NULL for an io/`ptr` parameter, a number outside its refinement) of any
non-pure public method with a prologue disables the object; status-returning methods answer `#bad argument`
(the code as repaired by fixes/C11-cgen-argcheck-return-type.patch), the others return a zero value. -/
theorem bad_argument_disables (m : Method) (hsk : m.skipsPrologue = false) (hnp : m.effect ≠ .pure)
    (o : Obj) (hmb : magicBad m o = false) (args : List ArgVal) (hbad : argsBad m.args args = true)
    (b : BodyRes) :
    callMethod m o false args b =
      ({ o with magic := DISABLED },
        if m.returnsStatus then .st (.err .badArgument) else .zero) := by
  rw [callMethod_checked _ _ _ _ _ hsk]
  unfold callMethodChecked
  have : (m.effect == Effect.pure) = false := by simpa using hnp
  simp [hmb, hbad, argFailRet, this]

theorem callMethod_disabled (m : Method) (o : Obj) (sn : Bool) (args : List ArgVal) (b : BodyRes)
    (hd : o.magic = DISABLED) :
    (callMethod m o sn args b).1.magic = DISABLED ∧
    (sn = false → m.returnsStatus = true → m.effect ≠ .pure →
      (callMethod m o sn args b).2 = .st (.err .disabledByPreviousError)) := by
  have hne : DISABLED ≠ MAGIC := by decide
  cases hsk : m.skipsPrologue
  case true =>
    refine ⟨by simp [callMethod, hsk, hd], ?_⟩
    intro _ hr _
    rw [skips_false_of_returnsStatus m hr] at hsk
    exact absurd hsk (by simp)
  rw [callMethod_checked _ _ _ _ _ hsk]
  unfold callMethodChecked
  cases sn
  · by_cases hp : m.effect = .pure
    · -- pure: the body may run, nothing is written
      have hb : magicBad m o = false := by simp [magicBad, hp, hd]
      have hc : (m.effect == Effect.coroutine) = false := by simp [hp]
      simp only [Bool.false_eq_true, ↓reduceIte, hb, hc]
      constructor
      · split
        · simp [hp, hd]
        · split
          · simp only [epilogue]; split <;> simp [hd]
          · exact hd
      · intro _ _ h; exact absurd hp h
    · have hb : magicBad m o = true := by
        have : (m.effect == Effect.pure) = false := by simpa using hp
        simp [magicBad, this, hd, hne]
      simp only [Bool.false_eq_true, ↓reduceIte, hb]
      refine ⟨hd, ?_⟩
      intro _ hr _
      simp [badMagicRet, hr, hd]
  · simp [hd]

theorem step_disabled (d : StructDesc) (o : Obj) (c : Call) (hd : o.magic = DISABLED)
    (hc : c.isInit = true → (step d o c).2 ≠ .st .ok) :
    (step d o c).1.magic = DISABLED ∧
    (impureStatusCall d c = true → (step d o c).2 = .st (.err .disabledByPreviousError)) := by
  cases c with
  | init sn sz v op =>
    have hne : (initObj d o sn sz v op).2 ≠ .ok := by
      intro h; apply hc rfl; simp [step, h]
    have := init_fail_unchanged d o sn sz v op hne
    simp [step, this, hd, impureStatusCall]
  | meth idx sn args b =>
    cases hm : d.methods[idx]? with
    | none => cases sn <;> simp [step, impureStatusCall, hm, hd]
    | some m =>
      have := callMethod_disabled m o sn args b hd
      cases sn
      · simp only [step, impureStatusCall, hm]
        refine ⟨this.1, ?_⟩
        intro hr
        simp only [Bool.and_eq_true, bne_iff_ne, ne_eq] at hr
        exact this.2 rfl hr.1 hr.2
      · simp [step, impureStatusCall, hm, this.1]

/-- **disabled_sticky.** From a DISABLED object, every status-returning call of a non-pure method
in every history answers `#disabled by previous error`, for as long as no `initialize` returns ok. -/
theorem disabled_sticky (d : StructDesc) (o : Obj) (hd : o.magic = DISABLED) (cs : List Call)
    (hno : NoInitOk (trace d o cs)) :
    ∀ p ∈ trace d o cs, impureStatusCall d p.1 = true →
      p.2 = .st (.err .disabledByPreviousError) := by
  induction cs generalizing o with
  | nil => simp [trace]
  | cons c cs ih =>
    have hc : c.isInit = true → (step d o c).2 ≠ .st .ok := by
      intro hi; exact hno (c, (step d o c).2) (by simp [trace]) hi
    have hs := step_disabled d o c hd hc
    intro p hp
    simp only [trace, List.mem_cons] at hp
    rcases hp with rfl | hp
    · exact hs.2
    · apply ih (step d o c).1 hs.1 _ p hp
      intro q hq; exact hno q (by simp [trace, hq])

/-- The property as stated: once a coroutine call of a history fails, every later status-returning
(non-pure) call reports `#disabled by previous error` until re-initialisation. -/
theorem error_then_sticky (d : StructDesc) (o : Obj) (hmagic : o.magic = MAGIC)
    (idx : Nat) (m : Method) (hidx : d.methods[idx]? = some m) (hm : m.effect = .coroutine)
    (args : List ArgVal) (b : BodyRes) (s : Status)
    (hret : (callMethod m o false args b).2 = .st s) (herr : s.isError = true)
    (cs : List Call) (hno : NoInitOk (trace d (callMethod m o false args b).1 cs)) :
    ∀ p ∈ (trace d o (.meth idx false args b :: cs)).tail, impureStatusCall d p.1 = true →
      p.2 = .st (.err .disabledByPreviousError) := by
  have hdis := coroutine_error_disables m hm o hmagic args b s hret herr
  simp only [trace, step, hidx, List.tail_cons]
  exact disabled_sticky d _ hdis cs hno

/-! ### interleave -/

/-- **interleave.** While coroutine A is suspended (`active_coroutine = A`), a call of a different
public coroutine B (with acceptable arguments) is answered with `#interleaved coroutine calls` and
disables the object; B's body does not run. -/
theorem interleave (m : Method) (hm : m.effect = .coroutine) (o : Obj) (hmagic : o.magic = MAGIC)
    (ha : o.active ≠ 0) (hne : o.active ≠ m.coroID) (args : List ArgVal)
    (hargs : argsBad m.args args = false) (b : BodyRes) :
    callMethod m o false args b =
      ({ o with magic := DISABLED }, .st (.err .interleavedCoroutineCalls)) := by
  have hb : magicBad m o = false := by simp [magicBad, hm, hmagic]
  rw [callMethod_checked _ _ _ _ _ (skips_false_of_coroutine m hm)]
  unfold callMethodChecked
  simp [hb, hargs, hm, ha, hne]

/-- What a coroutine call that reaches its body does to `active_coroutine`: it is the coroutine's id
exactly when the call returned a suspension, and 0 otherwise (`BodyRes.wf` states the shapes generated
bodies can have; a coroutine without suspension points cannot produce a suspension). -/
theorem active_iff_suspension (m : Method) (hm : m.effect = .coroutine) (o : Obj)
    (hmagic : o.magic = MAGIC) (hact : o.active = 0 ∨ o.active = m.coroID) (args : List ArgVal)
    (hargs : argsBad m.args args = false) (b : BodyRes) (hwf : b.wf)
    (hsp : m.suspPoints = false → b.st.isSuspension = false) :
    (callMethod m o false args b).2 = .st b.st ∧
    (callMethod m o false args b).1.active = (if b.st.isSuspension then m.coroID else 0) := by
  have hb : magicBad m o = false := by simp [magicBad, hm, hmagic]
  have hni : ¬(o.active ≠ 0 ∧ o.active ≠ m.coroID) := by
    rcases hact with h | h <;> simp [h]
  rw [callMethod_checked _ _ _ _ _ (skips_false_of_coroutine m hm)]
  unfold callMethodChecked
  simp only [Bool.false_eq_true, ↓reduceIte, hb, hargs, hm, beq_self_eq_true, hni]
  refine ⟨trivial, ?_⟩
  have hep : ∀ (x : Obj) (s : Status), (epilogue x s).active = x.active := by
    intro x s; unfold epilogue; split <;> rfl
  rw [hep]
  unfold afterBody
  cases hs : m.suspPoints
  · simp [hsp hs]
  · simp only [Bool.not_true, Bool.false_eq_true, ↓reduceIte]
    unfold BodyRes.wf at hwf
    cases hp : b.path <;> simp only [hp] at hwf ⊢
    · -- ok: complete statuses are not suspensions
      cases hst : b.st <;> simp_all [Status.isComplete, Status.isSuspension, Obj.setSusp]
    · simp [hwf]

/-- Suspend A, then call B: a two-call history. -/
theorem suspend_then_other (d : StructDesc) (o : Obj) (hmagic : o.magic = MAGIC)
    (hact : o.active = 0) (ia ib : Nat) (ma mb : Method)
    (ha : d.methods[ia]? = some ma) (hb : d.methods[ib]? = some mb)
    (hca : ma.effect = .coroutine) (hcb : mb.effect = .coroutine)
    (hida : ma.coroID ≠ 0) (hne : ma.coroID ≠ mb.coroID) (hspa : ma.suspPoints = true)
    (argsa argsb : List ArgVal) (hargsa : argsBad ma.args argsa = false)
    (hargsb : argsBad mb.args argsb = false) (k point : Nat) (bb : BodyRes) :
    (trace d o [.meth ia false argsa ⟨.suspend, .susp k, point⟩, .meth ib false argsb bb]).map (·.2)
      = [.st (.susp k), .st (.err .interleavedCoroutineCalls)] ∧
    (run d o [.meth ia false argsa ⟨.suspend, .susp k, point⟩, .meth ib false argsb bb]).magic
      = DISABLED := by
  have hba : magicBad ma o = false := by simp [magicBad, hca, hmagic]
  have h1 : callMethod ma o false argsa ⟨.suspend, .susp k, point⟩ =
      ({ (({ o with active := 0 } : Obj).setSusp ma.coroID point) with active := ma.coroID },
        .st (.susp k)) := by
    rw [callMethod_checked _ _ _ _ _ (skips_false_of_coroutine ma hca)]
    unfold callMethodChecked
    simp [hba, hargsa, hca, hact, afterBody, hspa, Status.isSuspension, epilogue, Status.isError]
  have h2 := interleave mb hcb
    ({ (({ o with active := 0 } : Obj).setSusp ma.coroID point) with active := ma.coroID })
    (by simp [Obj.setSusp, hmagic]) (by simpa using hida) (by simpa using hne) argsb hargsb bb
  simp [trace, run, step, ha, hb, h1, h2]

/-! ### non-vacuity: a concrete struct and histories -/

/-- Two coroutines (ids 1 and 2, the first with a pointer argument) and a pure getter. -/
def demo : StructDesc :=
  { sizeofSelf := 64, verMajor := 0, verMinor := 0,
    methods := [
      { effect := .coroutine, hasOut := false, outIsStatus := false, coroID := 1, args := [.ptr],
        derived := true, suspPoints := true },
      { effect := .coroutine, hasOut := false, outIsStatus := false, coroID := 2,
        args := [.refined none (some 100)], derived := false, suspPoints := true },
      { effect := .pure, hasOut := true, outIsStatus := false, coroID := 0, args := [],
        derived := false, suspPoints := false } ] }

example : (trace demo Obj.zeroed
    [.meth 0 false [.ptr false] ⟨.ok, .ok, 0⟩,                 -- before initialize
     .init false 63 0 0,                                          -- wrong size
     .init false 64 (1 <<< 32) 0,                                 -- wrong major version
     .meth 1 false [.num 5] ⟨.ok, .ok, 0⟩,                       -- still not initialised
     .init false 64 0 0,                                          -- ok
     .meth 0 false [.ptr false] ⟨.suspend, .susp 7, 3⟩,          -- A suspends
     .meth 1 false [.num 5] ⟨.ok, .ok, 0⟩,                       -- B while A suspended
     .meth 0 false [.ptr false] ⟨.ok, .ok, 0⟩,                   -- disabled
     .meth 2 false [] ⟨.ok, .ok, 0⟩,                             -- pure getter still answers
     .init false 64 0 1,                                          -- false ALREADY_ZEROED claim
     .init false 64 0 2,                                          -- re-initialise
     .meth 0 false [.ptr true] ⟨.ok, .ok, 0⟩,                    -- NULL argument
     .meth 1 false [.num 5] ⟨.ok, .ok, 0⟩]).map (·.2)
  = [.st (.err .initializeNotCalled), .st (.err .badSizeofReceiver), .st (.err .badWuffsVersion),
     .st (.err .initializeNotCalled), .st .ok, .st (.susp 7), .st (.err .interleavedCoroutineCalls),
     .st (.err .disabledByPreviousError), .value, .st (.err .initializeFalselyClaimedAlreadyZeroed),
     .st .ok, .st (.err .badArgument), .st (.err .disabledByPreviousError)] := by decide

/-- hypotheses of `not_initialized` are satisfiable with a non-trivial history -/
example : NoInitOk (trace demo Obj.zeroed [.init false 63 0 0, .meth 0 false [.ptr false] ⟨.ok, .ok, 0⟩]) := by
  intro p hp hi
  simp [trace, step, demo, initObj] at hp
  rcases hp with rfl | rfl
  · simp
  · simp [Call.isInit] at hi

/-- hypotheses of `interleave` / `active_iff_suspension` are satisfiable -/
example : (⟨.suspend, .susp 1, 2⟩ : BodyRes).wf ∧ (⟨.ok, .note 3, 0⟩ : BodyRes).wf ∧
    (⟨.exit, .err (.user 1), 0⟩ : BodyRes).wf ∧ ¬ (⟨.ok, .susp 1, 0⟩ : BodyRes).wf := by decide

end WuffsVerif.Props.C08
