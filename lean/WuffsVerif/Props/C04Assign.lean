/-
C04 part 3 — compound assignment.  `lhs op= rhs` on a scalar variable or field
of type `t` is written by internal/cgen/statement.go writeStatementAssign1 as
the C compound assignment `lhs OP= rhs;` (with the RHS converted to uint32_t
for `~mod*=` on base.u16 after fixes/C04-u16-modmul.patch), or as
`wuffs_private_impl__uN__sat_add_indirect(&lhs, rhs)` for the `~sat` forms.
C 6.5.16.2: `E1 op= E2` computes `E1 op (E2)` — for uint8_t / uint16_t in
`int` after integer promotion — and converts the result back to the type of
E1.  Theorems: for every operator, every unsigned type (u8/u16 included), all
values: the stored value is defined and is the Wuffs meaning.
-/
import WuffsVerif.Proof.CExprLemmas

set_option linter.unusedSimpArgs false

namespace WuffsVerif.Props.C04
open WuffsVerif.WOps WuffsVerif.C WuffsVerif.Gen.C04 WuffsVerif.Proof.C04

set_option hygiene false in
macro "asg_cases" : tactic => `(tactic| (
  cases t <;> cases rk <;>
    simp only [OpdTy, ctyOf, WTy.isSmall, Bool.false_eq_true, if_false, if_true, and_self, not_true_eq_false,
      reduceCtorEq, false_and, or_false, and_false, true_and, beq_self_eq_true, Bool.or_true,
      Bool.true_or, and_true, not_false_eq_true, beq_iff_eq, Bool.or_eq_true] at hyt <;>
    (try (rcases hyt with hyt | hyt | hyt)) <;> (try subst hyt) <;>
    simp [WOp.defined, WTy.has, WTy.max, WTy.bits, CTy.has, CTy.bits, INT_MIN, INT_MAX] at hdef hxr hyr hyw))

macro "asg_eval" : tactic => `(tactic| (
  simp [lowerAssign, cAssignOf, CAssign.eval, WTy.isSmall, ceval, env2, evalBin, promoteTy,
    uac, WOp.ideal, ctyOf, boolResult, WTy.bits, WTy.max]))

theorem compound_assign_correct_add (t : WTy) (rk : Bool) (xv b : Int) (y : CVal)
    (ha : t.has xv) (hy : Rep t rk b y) (hdef : WOp.add.defined t xv b) :
    ∃ s r, lowerAssign .add t rk = some s ∧
      s.eval (ctyOf t) ⟨ctyOf t, xv⟩ (env2 ⟨ctyOf t, xv⟩ y) = some r ∧
      r = ⟨ctyOf t, WOp.add.ideal t xv b⟩ := by
  obtain ⟨hyv, hyr, hyw, hyt⟩ := hy
  obtain ⟨yt, yv⟩ := y
  simp only at hyv hyw hyt
  subst hyv
  have hxr := ha
  asg_cases <;> asg_eval <;> c_finish

theorem compound_assign_correct_sub (t : WTy) (rk : Bool) (xv b : Int) (y : CVal)
    (ha : t.has xv) (hy : Rep t rk b y) (hdef : WOp.sub.defined t xv b) :
    ∃ s r, lowerAssign .sub t rk = some s ∧
      s.eval (ctyOf t) ⟨ctyOf t, xv⟩ (env2 ⟨ctyOf t, xv⟩ y) = some r ∧
      r = ⟨ctyOf t, WOp.sub.ideal t xv b⟩ := by
  obtain ⟨hyv, hyr, hyw, hyt⟩ := hy
  obtain ⟨yt, yv⟩ := y
  simp only at hyv hyw hyt
  subst hyv
  have hxr := ha
  asg_cases <;> asg_eval <;> c_finish

theorem compound_assign_correct_mul (t : WTy) (rk : Bool) (xv b : Int) (y : CVal)
    (ha : t.has xv) (hy : Rep t rk b y) (hdef : WOp.mul.defined t xv b) :
    ∃ s r, lowerAssign .mul t rk = some s ∧
      s.eval (ctyOf t) ⟨ctyOf t, xv⟩ (env2 ⟨ctyOf t, xv⟩ y) = some r ∧
      r = ⟨ctyOf t, WOp.mul.ideal t xv b⟩ := by
  obtain ⟨hyv, hyr, hyw, hyt⟩ := hy
  obtain ⟨yt, yv⟩ := y
  simp only at hyv hyw hyt
  subst hyv
  have hxr := ha
  have hm : 0 ≤ xv * yv := Int.mul_nonneg hxr.1 hyr.1
  have hmu : xv * yv ≤ t.max * t.max :=
    Int.mul_le_mul hxr.2 hyr.2 hyr.1 (by cases t <;> simp [WTy.max, WTy.bits])
  asg_cases <;> (try simp [WTy.max, WTy.bits] at hmu) <;> asg_eval <;> c_finish

theorem compound_assign_correct_div (t : WTy) (rk : Bool) (xv b : Int) (y : CVal)
    (ha : t.has xv) (hy : Rep t rk b y) (hdef : WOp.div.defined t xv b) :
    ∃ s r, lowerAssign .div t rk = some s ∧
      s.eval (ctyOf t) ⟨ctyOf t, xv⟩ (env2 ⟨ctyOf t, xv⟩ y) = some r ∧
      r = ⟨ctyOf t, WOp.div.ideal t xv b⟩ := by
  obtain ⟨hyv, hyr, hyw, hyt⟩ := hy
  obtain ⟨yt, yv⟩ := y
  simp only at hyv hyw hyt
  subst hyv
  have hxr := ha
  have hpos : 0 < yv := by simpa [WOp.defined] using hdef
  have hq0 : 0 ≤ xv / yv := Int.ediv_nonneg hxr.1 hyr.1
  have hq1 : xv / yv ≤ xv := Int.ediv_le_self yv hxr.1
  asg_cases <;> asg_eval <;> c_finish

theorem compound_assign_correct_rem (t : WTy) (rk : Bool) (xv b : Int) (y : CVal)
    (ha : t.has xv) (hy : Rep t rk b y) (hdef : WOp.rem.defined t xv b) :
    ∃ s r, lowerAssign .rem t rk = some s ∧
      s.eval (ctyOf t) ⟨ctyOf t, xv⟩ (env2 ⟨ctyOf t, xv⟩ y) = some r ∧
      r = ⟨ctyOf t, WOp.rem.ideal t xv b⟩ := by
  obtain ⟨hyv, hyr, hyw, hyt⟩ := hy
  obtain ⟨yt, yv⟩ := y
  simp only at hyv hyw hyt
  subst hyv
  have hxr := ha
  have hpos : 0 < yv := by simpa [WOp.defined] using hdef
  have hr0 : 0 ≤ xv % yv := Int.emod_nonneg xv (by omega)
  have hr1 : xv % yv < yv := Int.emod_lt_of_pos xv hpos
  asg_cases <;> asg_eval <;> c_finish

theorem compound_assign_correct_band (t : WTy) (rk : Bool) (xv b : Int) (y : CVal)
    (ha : t.has xv) (hy : Rep t rk b y) (hdef : WOp.band.defined t xv b) :
    ∃ s r, lowerAssign .band t rk = some s ∧
      s.eval (ctyOf t) ⟨ctyOf t, xv⟩ (env2 ⟨ctyOf t, xv⟩ y) = some r ∧
      r = ⟨ctyOf t, WOp.band.ideal t xv b⟩ := by
  obtain ⟨hyv, hyr, hyw, hyt⟩ := hy
  obtain ⟨yt, yv⟩ := y
  simp only at hyv hyw hyt
  subst hyv
  have hxr := ha
  have hb0 : 0 ≤ iand xv yv := iand_nonneg xv yv
  have hb1 : iand xv yv < 2 ^ t.bits := iand_lt xv yv t.bits hxr.1 (WTy.has_lt t xv hxr)
  asg_cases <;> (try simp [WTy.bits] at hb1) <;> asg_eval <;> c_finish

theorem compound_assign_correct_bor (t : WTy) (rk : Bool) (xv b : Int) (y : CVal)
    (ha : t.has xv) (hy : Rep t rk b y) (hdef : WOp.bor.defined t xv b) :
    ∃ s r, lowerAssign .bor t rk = some s ∧
      s.eval (ctyOf t) ⟨ctyOf t, xv⟩ (env2 ⟨ctyOf t, xv⟩ y) = some r ∧
      r = ⟨ctyOf t, WOp.bor.ideal t xv b⟩ := by
  obtain ⟨hyv, hyr, hyw, hyt⟩ := hy
  obtain ⟨yt, yv⟩ := y
  simp only at hyv hyw hyt
  subst hyv
  have hxr := ha
  have hb0 : 0 ≤ ior xv yv := ior_nonneg xv yv
  have hb1 : ior xv yv < 2 ^ t.bits := ior_lt xv yv t.bits hxr.1 hyr.1 (WTy.has_lt t xv hxr) (WTy.has_lt t yv hyr)
  asg_cases <;> (try simp [WTy.bits] at hb1) <;> asg_eval <;> c_finish

theorem compound_assign_correct_bxor (t : WTy) (rk : Bool) (xv b : Int) (y : CVal)
    (ha : t.has xv) (hy : Rep t rk b y) (hdef : WOp.bxor.defined t xv b) :
    ∃ s r, lowerAssign .bxor t rk = some s ∧
      s.eval (ctyOf t) ⟨ctyOf t, xv⟩ (env2 ⟨ctyOf t, xv⟩ y) = some r ∧
      r = ⟨ctyOf t, WOp.bxor.ideal t xv b⟩ := by
  obtain ⟨hyv, hyr, hyw, hyt⟩ := hy
  obtain ⟨yt, yv⟩ := y
  simp only at hyv hyw hyt
  subst hyv
  have hxr := ha
  have hb0 : 0 ≤ ixor xv yv := ixor_nonneg xv yv
  have hb1 : ixor xv yv < 2 ^ t.bits := ixor_lt xv yv t.bits hxr.1 hyr.1 (WTy.has_lt t xv hxr) (WTy.has_lt t yv hyr)
  asg_cases <;> (try simp [WTy.bits] at hb1) <;> asg_eval <;> c_finish

theorem compound_assign_correct_modAdd (t : WTy) (rk : Bool) (xv b : Int) (y : CVal)
    (ha : t.has xv) (hy : Rep t rk b y) (hdef : WOp.modAdd.defined t xv b) :
    ∃ s r, lowerAssign .modAdd t rk = some s ∧
      s.eval (ctyOf t) ⟨ctyOf t, xv⟩ (env2 ⟨ctyOf t, xv⟩ y) = some r ∧
      r = ⟨ctyOf t, WOp.modAdd.ideal t xv b⟩ := by
  obtain ⟨hyv, hyr, hyw, hyt⟩ := hy
  obtain ⟨yt, yv⟩ := y
  simp only at hyv hyw hyt
  subst hyv
  have hxr := ha
  asg_cases <;> asg_eval <;> c_finish

theorem compound_assign_correct_modSub (t : WTy) (rk : Bool) (xv b : Int) (y : CVal)
    (ha : t.has xv) (hy : Rep t rk b y) (hdef : WOp.modSub.defined t xv b) :
    ∃ s r, lowerAssign .modSub t rk = some s ∧
      s.eval (ctyOf t) ⟨ctyOf t, xv⟩ (env2 ⟨ctyOf t, xv⟩ y) = some r ∧
      r = ⟨ctyOf t, WOp.modSub.ideal t xv b⟩ := by
  obtain ⟨hyv, hyr, hyw, hyt⟩ := hy
  obtain ⟨yt, yv⟩ := y
  simp only at hyv hyw hyt
  subst hyv
  have hxr := ha
  asg_cases <;> asg_eval <;> c_finish

theorem compound_assign_correct_modMul (t : WTy) (rk : Bool) (xv b : Int) (y : CVal)
    (ha : t.has xv) (hy : Rep t rk b y) (hdef : WOp.modMul.defined t xv b) :
    ∃ s r, lowerAssign .modMul t rk = some s ∧
      s.eval (ctyOf t) ⟨ctyOf t, xv⟩ (env2 ⟨ctyOf t, xv⟩ y) = some r ∧
      r = ⟨ctyOf t, WOp.modMul.ideal t xv b⟩ := by
  obtain ⟨hyv, hyr, hyw, hyt⟩ := hy
  obtain ⟨yt, yv⟩ := y
  simp only at hyv hyw hyt
  subst hyv
  have hxr := ha
  have hm : 0 ≤ xv * yv := Int.mul_nonneg hxr.1 hyr.1
  have hmu : xv * yv ≤ t.max * t.max :=
    Int.mul_le_mul hxr.2 hyr.2 hyr.1 (by cases t <;> simp [WTy.max, WTy.bits])
  asg_cases <;> (try simp [WTy.max, WTy.bits] at hmu) <;> asg_eval <;> c_finish

theorem compound_assign_correct_shl (t : WTy) (rk : Bool) (xv b : Int) (y : CVal)
    (ha : t.has xv) (hyv : y.v = b) (hb0 : 0 ≤ b) (hdef : WOp.shl.defined t xv b) :
    ∃ s r, lowerAssign .shl t rk = some s ∧
      s.eval (ctyOf t) ⟨ctyOf t, xv⟩ (env2 ⟨ctyOf t, xv⟩ y) = some r ∧
      r = ⟨ctyOf t, WOp.shl.ideal t xv b⟩ := by
  obtain ⟨yt, yv⟩ := y
  simp only at hyv
  subst hyv
  have hxr := ha
  have hlt : yv < t.bits := by cases t <;> simp_all [WOp.defined]
  have hp := pow2_bounds yv t.bits hb0 hlt
  have hm : 0 ≤ xv * 2 ^ yv.toNat := Int.mul_nonneg hxr.1 (by omega)
  have hmu : xv * 2 ^ yv.toNat ≤ t.max * 2 ^ (t.bits - 1) :=
    Int.mul_le_mul hxr.2 hp.2 (by omega) (by cases t <;> simp [WTy.max, WTy.bits])
  have hq0 : 0 ≤ xv / 2 ^ yv.toNat := Int.ediv_nonneg hxr.1 (by omega)
  have hq1 : xv / 2 ^ yv.toNat ≤ xv := Int.ediv_le_self _ hxr.1
  cases t <;> cases rk <;>
    simp [WOp.defined, WTy.has, WTy.max, WTy.bits, CTy.has, CTy.bits, INT_MIN, INT_MAX] at hdef hxr hlt hp hmu <;>
    asg_eval <;> c_finish

theorem compound_assign_correct_shr (t : WTy) (rk : Bool) (xv b : Int) (y : CVal)
    (ha : t.has xv) (hyv : y.v = b) (hb0 : 0 ≤ b) (hdef : WOp.shr.defined t xv b) :
    ∃ s r, lowerAssign .shr t rk = some s ∧
      s.eval (ctyOf t) ⟨ctyOf t, xv⟩ (env2 ⟨ctyOf t, xv⟩ y) = some r ∧
      r = ⟨ctyOf t, WOp.shr.ideal t xv b⟩ := by
  obtain ⟨yt, yv⟩ := y
  simp only at hyv
  subst hyv
  have hxr := ha
  have hlt : yv < t.bits := by cases t <;> simp_all [WOp.defined]
  have hp := pow2_bounds yv t.bits hb0 hlt
  have hm : 0 ≤ xv * 2 ^ yv.toNat := Int.mul_nonneg hxr.1 (by omega)
  have hmu : xv * 2 ^ yv.toNat ≤ t.max * 2 ^ (t.bits - 1) :=
    Int.mul_le_mul hxr.2 hp.2 (by omega) (by cases t <;> simp [WTy.max, WTy.bits])
  have hq0 : 0 ≤ xv / 2 ^ yv.toNat := Int.ediv_nonneg hxr.1 (by omega)
  have hq1 : xv / 2 ^ yv.toNat ≤ xv := Int.ediv_le_self _ hxr.1
  cases t <;> cases rk <;>
    simp [WOp.defined, WTy.has, WTy.max, WTy.bits, CTy.has, CTy.bits, INT_MIN, INT_MAX] at hdef hxr hlt hp hmu <;>
    asg_eval <;> c_finish

theorem compound_assign_correct_modShl (t : WTy) (rk : Bool) (xv b : Int) (y : CVal)
    (ha : t.has xv) (hyv : y.v = b) (hb0 : 0 ≤ b) (hdef : WOp.modShl.defined t xv b) :
    ∃ s r, lowerAssign .modShl t rk = some s ∧
      s.eval (ctyOf t) ⟨ctyOf t, xv⟩ (env2 ⟨ctyOf t, xv⟩ y) = some r ∧
      r = ⟨ctyOf t, WOp.modShl.ideal t xv b⟩ := by
  obtain ⟨yt, yv⟩ := y
  simp only at hyv
  subst hyv
  have hxr := ha
  have hlt : yv < t.bits := by cases t <;> simp_all [WOp.defined]
  have hp := pow2_bounds yv t.bits hb0 hlt
  have hm : 0 ≤ xv * 2 ^ yv.toNat := Int.mul_nonneg hxr.1 (by omega)
  have hmu : xv * 2 ^ yv.toNat ≤ t.max * 2 ^ (t.bits - 1) :=
    Int.mul_le_mul hxr.2 hp.2 (by omega) (by cases t <;> simp [WTy.max, WTy.bits])
  have hq0 : 0 ≤ xv / 2 ^ yv.toNat := Int.ediv_nonneg hxr.1 (by omega)
  have hq1 : xv / 2 ^ yv.toNat ≤ xv := Int.ediv_le_self _ hxr.1
  cases t <;> cases rk <;>
    simp [WOp.defined, WTy.has, WTy.max, WTy.bits, CTy.has, CTy.bits, INT_MIN, INT_MAX] at hdef hxr hlt hp hmu <;>
    asg_eval <;> c_finish

theorem compound_assign_correct_satAdd (t : WTy) (rk : Bool) (xv b : Int) (y : CVal)
    (ha : t.has xv) (hy : Rep t rk b y) :
    ∃ s r, lowerAssign .satAdd t rk = some s ∧
      s.eval (ctyOf t) ⟨ctyOf t, xv⟩ (env2 ⟨ctyOf t, xv⟩ y) = some r ∧
      r = ⟨ctyOf t, WOp.satAdd.ideal t xv b⟩ := by
  obtain ⟨hyv, hyr, _, _⟩ := hy
  subst hyv
  refine ⟨_, _, rfl, ?_, rfl⟩
  have hs := satAddC_spec t ⟨ctyOf t, xv⟩ y ha.1 ha.2 hyr.1 hyr.2
  have hr : t.has (WOp.satAdd.ideal t xv y.v) := by
    have := ha.1; have := ha.2; have := hyr.1; have := hyr.2
    simp only [WOp.ideal, WTy.has]
    split <;> omega
  simp only [CAssign.eval, ceval, env2, if_true, Bool.false_eq_true, if_false, hs, Option.bind]
  exact castTo_id t ⟨ctyOf t, _⟩ hr.1 hr.2

theorem compound_assign_correct_satSub (t : WTy) (rk : Bool) (xv b : Int) (y : CVal)
    (ha : t.has xv) (hy : Rep t rk b y) :
    ∃ s r, lowerAssign .satSub t rk = some s ∧
      s.eval (ctyOf t) ⟨ctyOf t, xv⟩ (env2 ⟨ctyOf t, xv⟩ y) = some r ∧
      r = ⟨ctyOf t, WOp.satSub.ideal t xv b⟩ := by
  obtain ⟨hyv, hyr, _, _⟩ := hy
  subst hyv
  refine ⟨_, _, rfl, ?_, rfl⟩
  have hs := satSubC_spec t ⟨ctyOf t, xv⟩ y ha.1 ha.2 hyr.1 hyr.2
  have hr : t.has (WOp.satSub.ideal t xv y.v) := by
    have := ha.1; have := ha.2; have := hyr.1; have := hyr.2
    simp only [WOp.ideal, WTy.has]
    split <;> omega
  simp only [CAssign.eval, ceval, env2, if_true, Bool.false_eq_true, if_false, hs, Option.bind]
  exact castTo_id t ⟨ctyOf t, _⟩ hr.1 hr.2

/-- Before the repair `x ~mod*= y` on base.u16 was written `x *= y`: the
multiplication happens in `int` and 65535 * 65535 is undefined. -/
theorem compound_assign_unrepaired_modmul_u16_undefined :
    (CAssign.compound .mul (.hole 1)).eval .u16 ⟨.u16, 65535⟩ (env2 ⟨.u16, 65535⟩ ⟨.u16, 65535⟩) = none := by
  simp [CAssign.eval, ceval, env2, evalBin, promoteTy, uac, convert, intResult, INT_MIN, INT_MAX]

/-- non-vacuity / boundary: u8 `x += y` with 200 + 55 = 255 (promoted, truncated back) -/
example : (CAssign.compound .add (.hole 1)).eval .u8 ⟨.u8, 200⟩ (env2 ⟨.u8, 200⟩ ⟨.u8, 55⟩) = some ⟨.u8, 255⟩ := by
  simp [CAssign.eval, ceval, env2, evalBin, promoteTy, uac, convert, intResult, INT_MIN, INT_MAX, castTo, wrapU, CTy.bits]

end WuffsVerif.Props.C04
