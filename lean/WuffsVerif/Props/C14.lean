/-
C14 — RAC random access equals slicing the full decode.

Sequential part: the model of `rac.Reader` (Model/Rac/Reader.lean, mirroring
lib/rac/reader.go) over an arbitrary valid chunk list returns, for EVERY finite
sequence of Read / Seek / SeekRange / Close calls, exactly what an in-memory reader
over the concatenated decoded chunks returns (`reader_refines_spec`), and its
position invariant is never broken (`reader_inv`).

The concurrent protocol theorems are in Props/C14Conc.lean.
-/
import WuffsVerif.Proof.RacReader

set_option linter.unusedVariables false
set_option linter.unusedSimpArgs false

namespace WuffsVerif.Props.C14
open WuffsVerif.Rac

/-- the simulation relation between the Reader model and the in-memory reader -/
structure Sim (F : File) (r : R) (s : Spec) : Prop where
  data : s.data = F.bytes
  err : r.err = s.err
  closed : r.closed = s.closed
  conc : r.conc = s.stickyWhence
  live : r.err = none → r.pos = s.pos ∧ r.posLimit = s.lim ∧ Inv F r

theorem Inv.init (F : File) (c : Bool) : Inv F (R.init F c) :=
  { le1 := Nat.le_refl _, le2 := Nat.le_refl _, lim := Nat.le_refl _, cr := rfl, tr := rfl,
    win := Window.empty _ _, phA := (by intro _; rfl), phC := (by intro _; rfl) }

theorem Sim.init (F : File) (hv : F.valid = true) (c : Bool) :
    Sim F (R.init F c) (Spec.init F.bytes c) :=
  { data := rfl, err := rfl, closed := rfl, conc := rfl,
    live := fun _ => ⟨rfl, by simp [R.init, Spec.init, File.bytes_length hv], Inv.init F c⟩ }

/-- what `seek` does to a live Reader that satisfies the invariant, for a target `p ≥ 0` -/
theorem seek_live {F : File} (hv : F.valid = true) (r : R) (hI : Inv F r) (off wh limit p : Int)
    (ht : seekTarget r.pos F.size off wh = some p) (hp : 0 ≤ p) :
    (r.seek F off wh limit).2 = (p, none) ∧
    (r.seek F off wh limit).1.pos = p.toNat ∧
    (r.seek F off wh limit).1.posLimit = (min limit (F.size : Int)).toNat ∧
    Inv F (r.seek F off wh limit).1 ∧
    (r.seek F off wh limit).1.err = r.err ∧ (r.seek F off wh limit).1.closed = r.closed ∧
    (r.seek F off wh limit).1.conc = r.conc := by
  unfold R.seek
  rw [ht]
  simp only
  rw [if_neg (by omega)]
  have hl : (if limit > (F.size : Int) then (F.size : Int) else limit) = min limit (F.size : Int) := by
    split <;> omega
  have hle : (min limit (F.size : Int)).toNat ≤ F.size := by omega
  rw [hl]
  by_cases hne : p ≠ (r.pos : Int)
  · rw [if_pos hne]
    refine ⟨by simp only [Prod.mk.injEq, and_true]; omega, rfl, rfl, ?_, rfl, rfl, rfl⟩
    exact { le1 := Nat.le_refl _, le2 := Nat.le_refl _, lim := hle, cr := rfl, tr := rfl,
            win := Window.empty _ _, phA := (by intro _; rfl), phC := (by intro _; rfl) }
  · rw [if_neg hne]
    have hp' : p = (r.pos : Int) := by omega
    refine ⟨by simp only [Prod.mk.injEq, and_true]; omega, by simp only; omega, rfl, ?_, rfl, rfl, rfl⟩
    exact { le1 := hI.le1, le2 := hI.le2, lim := hle, cr := hI.cr, tr := hI.tr, win := hI.win,
            phA := hI.phA, phC := hI.phC }

theorem seek_neg {F : File} (r : R) (off wh limit p : Int)
    (ht : seekTarget r.pos F.size off wh = some p) (hp : p < 0) :
    r.seek F off wh limit = ({ r with err := some .negPos }, 0, some .negPos) := by
  unfold R.seek
  rw [ht]
  simp only
  rw [if_pos ⟨by omega, hp⟩]

theorem seek_whence {F : File} (r : R) (off wh limit : Int)
    (ht : seekTarget r.pos F.size off wh = none) :
    r.seek F off wh limit = ((if r.conc then { r with err := some .whence } else r), 0, some .whence) := by
  unfold R.seek
  rw [ht]

theorem maxInt64_ge {F : File} (h : F.size ≤ maxSize) : min maxInt64 (F.size : Int) = F.size := by
  unfold maxSize at h
  unfold maxInt64
  omega

theorem canon_read_nil (e : Option Err) : (Res.read [] e).canon = Res.read [] e := by
  cases e with
  | none => rfl
  | some e => cases e <;> rfl

/-- One call: same result (after identifying `(n>0, EOF)` with `(n, nil)`), and the
    simulation relation is re-established. -/
theorem step_sim {F : File} (hok : F.ok) (r : R) (s : Spec) (hS : Sim F r s) (op : Op) :
    (r.step F op).2.canon = (s.step op).2 ∧ Sim F (r.step F op).1 (s.step op).1 := by
  obtain ⟨hv, hsz⟩ := hok
  have hlen : s.data.length = F.size := by rw [hS.data]; exact File.bytes_length hv
  cases he : r.err with
  | some e =>
    -- a sticky error: every call returns it, nothing changes
    have hse : s.err = some e := by rw [← hS.err]; exact he
    cases op with
    | read n => simp only [R.step, R.read, Spec.step, he, hse]; exact ⟨canon_read_nil _, hS⟩
    | seek off wh => simp only [R.step, R.Seek, Spec.step, he, hse]; exact ⟨rfl, hS⟩
    | seekRange lo hi => simp only [R.step, R.SeekRange, Spec.step, he, hse]; exact ⟨rfl, hS⟩
    | close =>
      have hcl := hS.closed
      simp only [R.step, R.Close, Spec.step, he, hse]
      cases hc : r.closed with
      | true =>
        rw [hc] at hcl
        simp only [← hcl, ↓reduceIte]
        exact ⟨rfl, hS⟩
      | false =>
        rw [hc] at hcl
        simp only [← hcl, Bool.false_eq_true, ↓reduceIte]
        refine ⟨rfl, ?_⟩
        exact { data := hS.data, err := (by simp only [he, hse]), closed := rfl, conc := hS.conc,
                live := fun h => by simp only [he] at h; cases h }
  | none =>
    have hse : s.err = none := by rw [← hS.err]; exact he
    obtain ⟨hpos, hlim, hI⟩ := hS.live he
    cases op with
    | read n =>
      simp only [R.step, R.read, Spec.step, he, hse]
      rw [← hpos, ← hlim]
      by_cases hge : r.pos ≥ r.posLimit
      · rw [if_pos hge, if_pos hge]
        exact ⟨rfl, hS⟩
      · rw [if_neg hge, if_neg hge]
        have hk : r.pos + min n (r.posLimit - r.pos) ≤ r.posLimit := by omega
        obtain ⟨hb, hee, hI', hp', hSame⟩ := readLoop_spec hv r (min n (r.posLimit - r.pos)) hI hk
        simp only
        constructor
        · rw [hb, hee, hS.data]
          split
          · next hreach =>
            -- the limit was reached: (k > 0, EOF) is canonicalised to (k, nil)
            have hlenb : ((F.bytes.drop r.pos).take (min n (r.posLimit - r.pos))).length
                = min n (r.posLimit - r.pos) := by
              have := File.bytes_length hv
              have := hI.lim
              simp only [List.length_take, List.length_drop]
              omega
            have hpos' : 0 < min n (r.posLimit - r.pos) := by omega
            have hne : ((F.bytes.drop r.pos).take (min n (r.posLimit - r.pos))).isEmpty = false := by
              rw [List.isEmpty_eq_false_iff]
              intro h0
              rw [h0] at hlenb
              simp at hlenb
              omega
            simp only [Res.canon, hne, Bool.false_eq_true, ↓reduceIte]
          · rfl
        · exact { data := hS.data, err := (by rw [hSame.2.1, he]),
                  closed := (by rw [hSame.2.2.1]; exact hS.closed),
                  conc := (by rw [hSame.2.2.2]; exact hS.conc),
                  live := fun _ => ⟨by simp only; rw [hp', hpos], by simp only; rw [hSame.1], hI'⟩ }
    | seek off wh =>
      simp only [R.step, R.Seek, Spec.step, he, hse]
      rw [hlen, ← hpos]
      cases ht : seekTarget r.pos F.size off wh with
      | none =>
        rw [seek_whence r off wh maxInt64 ht]
        simp only
        rw [← hS.conc]
        cases hc : r.conc with
        | false =>
          simp only [Bool.false_eq_true, ↓reduceIte]
          exact ⟨rfl, hS⟩
        | true =>
          simp only [↓reduceIte]
          refine ⟨rfl, ?_⟩
          exact { data := hS.data, err := rfl, closed := hS.closed, conc := (by simp only [← hS.conc, hc]),
                  live := fun h => by cases h }
      | some p =>
        simp only
        by_cases hneg : p < 0
        · rw [seek_neg r off wh maxInt64 p ht hneg, if_pos hneg]
          refine ⟨rfl, ?_⟩
          exact { data := hS.data, err := rfl, closed := hS.closed, conc := hS.conc,
                  live := fun h => by cases h }
        · rw [if_neg hneg]
          obtain ⟨h1, h2, h3, h4, h5, h6, h7⟩ := seek_live hv r hI off wh maxInt64 p ht (by omega)
          rw [maxInt64_ge hsz] at h3
          constructor
          · have : (R.seek F r off wh maxInt64).2.1 = p ∧ (R.seek F r off wh maxInt64).2.2 = none := by
              rw [h1]; exact ⟨rfl, rfl⟩
            rw [this.1, this.2]; rfl
          · exact { data := hS.data, err := (by rw [h5, he]),
                    closed := (by rw [h6]; exact hS.closed),
                    conc := (by rw [h7]; exact hS.conc),
                    live := fun _ => ⟨h2, by rw [h3]; simp, h4⟩ }
    | seekRange lo hi =>
      simp only [R.step, R.SeekRange, Spec.step, he, hse]
      by_cases hr : lo > hi
      · rw [if_pos hr, if_pos hr]
        refine ⟨rfl, ?_⟩
        exact { data := hS.data, err := rfl, closed := hS.closed, conc := hS.conc,
                live := fun h => by cases h }
      · rw [if_neg hr, if_neg hr]
        have ht : seekTarget r.pos F.size lo 0 = some lo := by simp [seekTarget]
        by_cases hneg : lo < 0
        · rw [seek_neg r lo 0 hi lo ht hneg, if_pos hneg]
          refine ⟨rfl, ?_⟩
          exact { data := hS.data, err := rfl, closed := hS.closed, conc := hS.conc,
                  live := fun h => by cases h }
        · rw [if_neg hneg]
          obtain ⟨h1, h2, h3, h4, h5, h6, h7⟩ := seek_live hv r hI lo 0 hi lo ht (by omega)
          constructor
          · have : (R.seek F r lo 0 hi).2.2 = none := by rw [h1]
            simp only [this]; rfl
          · exact { data := hS.data, err := (by simp only; rw [h5, he]),
                    closed := (by simp only; rw [h6]; exact hS.closed),
                    conc := (by simp only; rw [h7]; exact hS.conc),
                    live := fun _ => ⟨by simp only; exact h2, by simp only; rw [h3, hlen], by simp only; exact h4⟩ }
    | close =>
      have hcl := hS.closed
      simp only [R.step, R.Close, Spec.step, he, hse]
      cases hc : r.closed with
      | true =>
        rw [hc] at hcl
        simp only [← hcl, ↓reduceIte]
        exact ⟨rfl, hS⟩
      | false =>
        rw [hc] at hcl
        simp only [← hcl, Bool.false_eq_true, ↓reduceIte]
        refine ⟨rfl, ?_⟩
        exact { data := hS.data, err := rfl, closed := rfl, conc := hS.conc,
                live := fun h => by cases h }

theorem run_sim {F : File} (hok : F.ok) (ops : List Op) : ∀ (r : R) (s : Spec), Sim F r s →
    R.run F r ops = Spec.run s ops := by
  induction ops with
  | nil => intro r s _; rfl
  | cons op ops ih =>
    intro r s hS
    obtain ⟨h1, h2⟩ := step_sim hok r s hS op
    simp only [R.run, Spec.run]
    rw [h1, ih _ _ h2]

/-- **C14, sequential part.** For every valid chunk list (DRanges tiling `[0, size)`, every
    chunk's explicit data no longer than its DRange — shorter means implicit zeroes — and
    `size ≤ rac.MaxSize`) and EVERY finite sequence of Read (any buffer length), Seek (any
    offset and whence, valid or not), SeekRange (any bounds) and Close calls, the Reader
    returns the same bytes, byte counts, positions, EOFs and errors as the in-memory reader
    over the fully decoded data (`bytes.Reader` + limit, with the documented sticky-error and
    closed conventions). A Go `(n > 0, io.EOF)` result is identified with `(n, nil)`; the
    following call then returns `(0, io.EOF)` on both sides. `conc` only selects whether an
    invalid `whence` is a sticky error (it is for `Concurrency > 1`). -/
theorem reader_refines_spec (F : File) (hok : F.ok) (conc : Bool) (ops : List Op) :
    R.run F (R.init F conc) ops = Spec.run (Spec.init F.bytes conc) ops :=
  run_sim hok ops _ _ (Sim.init F hok.1 conc)

/-- non-vacuity: a two-chunk file with an implicit-zero tail is valid, and the theorem's two
    sides are the expected concrete results -/
def exFile : File :=
  { chunks := [{ lo := 0, hi := 4, data := [1, 2] }, { lo := 4, hi := 6, data := [7, 8] }], size := 6 }

example : exFile.ok := ⟨by decide, by decide⟩

example : Spec.run (Spec.init exFile.bytes) [.seek 1 0, .read 4, .seekRange 5 100, .read 9, .read 1, .seek (-1) 1] =
    [.seek 1 none, .read [2, 0, 0, 7] none, .err none, .read [8] none, .read [] (some .eof), .seek 5 none] := by
  decide

/-! ### `reader_inv` -/

/-- reachable states: from `R.init` by any call sequence -/
def R.after (F : File) : R → List Op → R
  | r, [] => r
  | r, op :: ops => R.after F (r.step F op).1 ops

def Spec.after : Spec → List Op → Spec
  | s, [] => s
  | s, op :: ops => Spec.after (s.step op).1 ops

theorem after_sim {F : File} (hok : F.ok) (ops : List Op) : ∀ (r : R) (s : Spec), Sim F r s →
    Sim F (R.after F r ops) (Spec.after s ops) := by
  induction ops with
  | nil => intro r s h; exact h
  | cons op ops ih =>
    intro r s hS
    exact ih _ _ (step_sim hok r s hS op).2

/-- the errors the in-memory reader can produce -/
def specErr : Option Err → Prop
  | none => True
  | some e => e = .whence ∨ e = .negPos ∨ e = .negRange ∨ e = .closed

theorem spec_step_err (s : Spec) (op : Op) (h : specErr s.err) : specErr (s.step op).1.err := by
  cases op with
  | read n =>
    simp only [Spec.step]
    cases he : s.err with
    | some e => simp only; rw [he] at h; rw [he]; exact h
    | none => simp only; split <;> simp [he, specErr]
  | seek off wh =>
    simp only [Spec.step]
    cases he : s.err with
    | some e => simp only; rw [he] at h; rw [he]; exact h
    | none =>
      simp only
      split
      · split <;> simp [he, specErr]
      · split <;> simp [he, specErr]
  | seekRange lo hi =>
    simp only [Spec.step]
    cases he : s.err with
    | some e => simp only; rw [he] at h; rw [he]; exact h
    | none =>
      simp only
      split
      · simp [specErr]
      · split <;> simp [he, specErr]
  | close =>
    simp only [Spec.step]
    split
    · exact h
    · cases he : s.err with
      | some e => simp only; rw [he] at h; exact h
      | none => simp [specErr]

theorem spec_after_err (ops : List Op) : ∀ (s : Spec), specErr s.err → specErr (Spec.after s ops).err := by
  induction ops with
  | nil => intro s h; exact h
  | cons op ops ih => intro s h; exact ih _ (spec_step_err s op h)

/-- **Invariant of the Reader.** After any call sequence on a valid file: the sticky error is
    one of the four API errors (so `errInternalInconsistentPosition`, the chunk errors and a
    failed chunk lookup are unreachable), and while there is no error
    `dRange[0] ≤ pos ≤ dRange[1]`, `posLimit ≤ decompressedSize`, "State A" has an empty
    dRange, "State C" has no decompressor data left, and the undelivered part of the current
    chunk is exactly the decoded file's bytes `[dRange[0], dRange[1])`. -/
theorem reader_inv (F : File) (hok : F.ok) (conc : Bool) (ops : List Op) :
    let r := R.after F (R.init F conc) ops
    specErr r.err ∧
    (r.err = none → r.dlo ≤ r.pos ∧ r.pos ≤ r.dhi ∧ r.posLimit ≤ F.size ∧
      (r.phase = .A → r.dlo = r.dhi) ∧ (r.phase = .C → r.dec = []) ∧
      Window F.bytes r.dlo r.dhi r.dec) := by
  intro r
  have hS := after_sim hok ops _ _ (Sim.init F hok.1 conc)
  have hE := spec_after_err ops (Spec.init F.bytes conc) (by simp [Spec.init, specErr])
  refine ⟨by rw [hS.err]; exact hE, ?_⟩
  intro he
  obtain ⟨_, _, hI⟩ := hS.live he
  exact ⟨hI.le1, hI.le2, hI.lim, hI.phA, hI.phC, hI.win⟩

/-- a Read never returns more than it was asked for, and never past the limit -/
theorem read_length_le (F : File) (hok : F.ok) (conc : Bool) (ops : List Op) (n : Nat) :
    let r := R.after F (R.init F conc) ops
    (r.read F n).2.1.length ≤ n := by
  intro r
  have hS := after_sim hok ops _ _ (Sim.init F hok.1 conc)
  unfold R.read
  cases he : r.err with
  | some e => simp
  | none =>
    obtain ⟨_, _, hI⟩ := hS.live he
    simp only
    split
    · simp
    · next hlt =>
      have := (readLoop_spec hok.1 r (min n (r.posLimit - r.pos)) hI (by omega)).1
      rw [this]
      simp only [List.length_take]
      omega

/-- errors are sticky: once a call has set the sticky error, every later Read / Seek /
    SeekRange returns it (Close returns it too once closed) — the documented behaviour -/
theorem sticky (F : File) (r : R) (e : Err) (h : r.err = some e) :
    (r.read F 1).2.2 = some e ∧ (∀ off wh, (r.Seek F off wh).2.2 = some e) ∧
    (∀ lo hi, (r.SeekRange F lo hi).2 = some e) := by
  refine ⟨by simp [R.read, h], fun _ _ => by simp [R.Seek, h], fun _ _ => by simp [R.SeekRange, h]⟩

end WuffsVerif.Props.C14
