/-
C09 — what `initialize` leaves in every byte it does not set to a magic number or a pointer.

`Props/C09.lean` proves that the bytes `initialize` determines do not depend on the prior
memory.  This file gives their VALUE: over the model of `writeInitializerImpl`
(`Model/ObjInit.lean`), for every layout, every option set and every prior memory,
a byte of the object that is not a `magic` byte and not part of a choosy / vtable pointer
(of the object or of a nested sub-object) is, after a successful `initialize`,

* zero, if the options make `initialize` zero it: the whole object with options 0, every
  first part (`private_impl`, recursively) with LEAVE_INTERNAL_BUFFERS_UNINITIALIZED;
* exactly the prior byte otherwise (ALREADY_ZEROED: nothing is zeroed; the second parts under
  LEAVE_INTERNAL_BUFFERS_UNINITIALIZED).

In particular every first-part FIELD (coroutine suspension points `p_*`, `active_coroutine`,
all `f_*` fields declared before the `+` of the struct) is zero after `initialize`, whatever
the memory held before — the fact decoder bodies rely on when they read first-part fields
without writing them, and the fact `Props/C09Coro.lean` starts from.
-/
import WuffsVerif.Props.C09

namespace WuffsVerif.Props.C09
open WuffsVerif.ObjInit

/-- `i` lies inside one of the 8-byte pointer slots of `l` (object at `base`) -/
def inSlots (base : Nat) (l : List Slot) (i : Nat) : Bool :=
  l.any (fun s => decide (base + s.off ≤ i ∧ i < base + s.off + 8))

mutual
/-- addresses `initialize` sets to something other than zero: `magic`, the choosy function
pointers, the vtable pointer pairs — of the object and, recursively, of its sub-objects -/
def special : Obj → Nat → Nat → Bool
  | .mk _ _ ch vt subs, base, i =>
    decide (base ≤ i ∧ i < base + 4) || inSlots base ch i || inSlots base vt i || specialSubs subs base i
def specialSubs : Subs → Nat → Nat → Bool
  | .nil, _, _ => false
  | .cons off o rest, base, i => special o (base + off) i || specialSubs rest base i
end

/-- the addresses `initialize` zeroes, per option set (see the `prologue`) -/
def zeroed (o : Obj) (base : Nat) (opts : Opts) (i : Nat) : Bool :=
  if opts.alreadyZeroed then false
  else if opts.leaveUninit then firstParts o base i
  else inRange base o.size i

def zeroedSubs (s : Subs) (base : Nat) (opts : Opts) (i : Nat) : Bool :=
  if opts.alreadyZeroed then false
  else if opts.leaveUninit then firstPartsSubs s base i
  else false

theorem storeSlots_not_in (base i : Nat) (l : List Slot) (h : inSlots base l i = false) :
    ∀ m : Mem, storeSlots m base l i = m i := by
  unfold storeSlots
  induction l with
  | nil => intro m; rfl
  | cons s rest ih =>
    intro m
    simp only [inSlots, List.any_cons, Bool.or_eq_false_iff, decide_eq_false_iff_not] at h
    simp only [List.foldl_cons]
    rw [ih (by simpa [inSlots] using h.2)]
    unfold storePtr
    simp [h.1]

theorem storeMagic_not_in (m : Mem) (base i : Nat) (h : ¬ (base ≤ i ∧ i < base + 4)) :
    storeMagic m base i = m i := by
  unfold storeMagic
  simp [h]

mutual
/-- `init_value`: the value of every non-special byte after a successful `initialize`. -/
theorem initObj_value (o : Obj) (base : Nat) (opts : Opts) (m r : Mem)
    (h : initObj o base opts m = .ok r) (i : Nat) (hs : special o base i = false) :
    r i = if zeroed o base opts i = true then .byte 0 else m i := by
  match o with
  | .mk size impl ch vt subs =>
    unfold special at hs
    simp only [Bool.or_eq_false_iff, decide_eq_false_iff_not] at hs
    obtain ⟨⟨⟨hmag, hch⟩, hvt⟩, hsub⟩ := hs
    unfold initObj prologue at h
    by_cases az : opts.alreadyZeroed = true
    · -- ALREADY_ZEROED: nothing is zeroed
      simp only [az, ↓reduceIte] at h
      by_cases mz : magicIsZero m base = true
      · simp only [mz, ↓reduceIte] at h
        cases hsubs : initSubs subs base opts (storeSlots m base ch) with
        | error e => rw [hsubs] at h; simp at h
        | ok m3 =>
          rw [hsubs] at h
          simp only [Except.ok.injEq] at h
          have ih := initSubs_value subs base opts _ m3 (Or.inl az) hsubs i hsub
          rw [← h, storeSlots_not_in base i vt hvt, storeMagic_not_in _ base i hmag, ih,
            storeSlots_not_in base i ch hch]
          simp [zeroed, zeroedSubs, az]
      · simp only [mz] at h
        simp at h
    · have az' : opts.alreadyZeroed = false := by simpa using az
      by_cases lv : opts.leaveUninit = true
      · -- LEAVE_INTERNAL_BUFFERS_UNINITIALIZED: private_impl is zeroed, here and in the sub-objects
        simp only [az', lv, Bool.false_eq_true, ↓reduceIte, Bool.not_true] at h
        cases hsubs : initSubs subs base opts (storeSlots (zeroRange m base impl) base ch) with
        | error e => rw [hsubs] at h; simp at h
        | ok m3 =>
          rw [hsubs] at h
          simp only [Except.ok.injEq] at h
          have ih := initSubs_value subs base opts _ m3 (Or.inr lv) hsubs i hsub
          rw [← h, storeSlots_not_in base i vt hvt, storeMagic_not_in _ base i hmag, ih,
            storeSlots_not_in base i ch hch]
          simp only [zeroed, zeroedSubs, az', lv, Bool.false_eq_true, ↓reduceIte]
          unfold firstParts zeroRange
          by_cases hf : firstPartsSubs subs base i = true
          · simp [hf]
          · simp only [hf, Bool.false_eq_true, ↓reduceIte, Bool.or_false, decide_eq_true_eq]
      · -- options 0: the whole object is zeroed, the sub-objects are told ALREADY_ZEROED
        have lv' : opts.leaveUninit = false := by simpa using lv
        simp only [az', lv', Bool.false_eq_true, ↓reduceIte, Bool.not_false] at h
        cases hsubs : initSubs subs base ⟨true, false⟩
            (storeSlots (zeroRange m base size) base ch) with
        | error e => rw [hsubs] at h; simp at h
        | ok m3 =>
          rw [hsubs] at h
          simp only [Except.ok.injEq] at h
          have ih := initSubs_value subs base ⟨true, false⟩ _ m3 (Or.inl rfl) hsubs i hsub
          rw [← h, storeSlots_not_in base i vt hvt, storeMagic_not_in _ base i hmag, ih,
            storeSlots_not_in base i ch hch]
          simp only [zeroed, zeroedSubs, az', lv', Bool.false_eq_true, ↓reduceIte, Obj.size, inRange]
          unfold zeroRange
          by_cases hr : base ≤ i ∧ i < base + size <;> simp [hr]

theorem initSubs_value (s : Subs) (base : Nat) (opts : Opts) (m r : Mem)
    (hne : opts.alreadyZeroed = true ∨ opts.leaveUninit = true)
    (h : initSubs s base opts m = .ok r) (i : Nat) (hs : specialSubs s base i = false) :
    r i = if zeroedSubs s base opts i = true then .byte 0 else m i := by
  match s with
  | .nil =>
    unfold initSubs at h
    simp only [Except.ok.injEq] at h
    rw [← h]
    simp [zeroedSubs, firstPartsSubs]
  | .cons off o rest =>
    unfold specialSubs at hs
    simp only [Bool.or_eq_false_iff] at hs
    unfold initSubs at h
    cases h1 : initObj o (base + off) opts m with
    | error e => rw [h1] at h; simp at h
    | ok m' =>
      rw [h1] at h
      simp only at h
      have ih1 := initObj_value o (base + off) opts m m' h1 i hs.1
      have ih2 := initSubs_value rest base opts m' r hne h i hs.2
      rw [ih2, ih1]
      by_cases az : opts.alreadyZeroed = true
      · simp [zeroedSubs, zeroed, az]
      · have az' : opts.alreadyZeroed = false := by simpa using az
        have lv : opts.leaveUninit = true := by
          rcases hne with hz | hl
          · exact absurd hz az
          · exact hl
        simp only [zeroedSubs, zeroed, az', lv, Bool.false_eq_true, ↓reduceIte]
        conv => rhs; unfold firstPartsSubs
        by_cases ha : firstParts o (base + off) i = true <;>
          by_cases hb : firstPartsSubs rest base i = true <;> simp [ha, hb]
end

/-- `init_leave_uninit_zero_fields`: with LEAVE_INTERNAL_BUFFERS_UNINITIALIZED, over ANY prior
memory, every byte of every first part (`private_impl` of the object and of all nested
sub-objects) that is not a magic byte or a pointer is ZERO after `initialize`. -/
theorem init_leave_uninit_zero_fields (o : Obj) (base : Nat) (m r : Mem)
    (h : initObj o base ⟨false, true⟩ m = .ok r) (i : Nat)
    (hf : firstParts o base i = true) (hs : special o base i = false) : r i = .byte 0 := by
  have := initObj_value o base ⟨false, true⟩ m r h i hs
  simpa [zeroed, hf] using this

/-- `init_options0_zero_fields`: with options 0, over ANY prior memory, every byte of the
object that is not a magic byte or a pointer is ZERO after `initialize` (second parts included). -/
theorem init_options0_zero_fields (o : Obj) (base : Nat) (m r : Mem)
    (h : initObj o base ⟨false, false⟩ m = .ok r) (i : Nat)
    (hin : InRange base o.size i) (hs : special o base i = false) : r i = .byte 0 := by
  have := initObj_value o base ⟨false, false⟩ m r h i hs
  have hr : inRange base o.size i = true := by
    unfold inRange; simpa [InRange] using hin
  simpa [zeroed, hr] using this

/-- ALREADY_ZEROED: `initialize` writes magic numbers and pointers only — every other byte
(inside or outside the object) is exactly what the caller provided. -/
theorem init_already_zeroed_touches_only_special (o : Obj) (base : Nat) (lv : Bool) (m r : Mem)
    (h : initObj o base ⟨true, lv⟩ m = .ok r) (i : Nat) (hs : special o base i = false) : r i = m i := by
  have := initObj_value o base ⟨true, lv⟩ m r h i hs
  simpa [zeroed] using this

/-- No option set makes `initialize` write a non-special byte with anything but zero: a
non-special byte is zero or unchanged. -/
theorem init_writes_zero_or_nothing (o : Obj) (base : Nat) (opts : Opts) (m r : Mem)
    (h : initObj o base opts m = .ok r) (i : Nat) (hs : special o base i = false) :
    r i = .byte 0 ∨ r i = m i := by
  have := initObj_value o base opts m r h i hs
  split at this
  · exact Or.inl this
  · exact Or.inr this

/-! ### the special addresses lie inside the object; `initialize` never writes outside it -/

theorem inSlots_inRange (base impl : Nat) (l : List Slot) (i : Nat)
    (hl : ∀ s ∈ l, 8 ≤ s.off ∧ s.off + 8 ≤ impl) (h : inSlots base l i = true) :
    base + 8 ≤ i ∧ i < base + impl := by
  unfold inSlots at h
  simp only [List.any_eq_true, decide_eq_true_eq] at h
  obtain ⟨s, hs, h1, h2⟩ := h
  have := hl s hs
  omega

mutual
theorem special_inRange (o : Obj) (hwf : o.wf = true) (base i : Nat) (h : special o base i = true) :
    InRange base o.size i := by
  match o with
  | .mk size impl ch vt subs =>
    unfold Obj.wf at hwf
    simp only [Bool.and_eq_true, decide_eq_true_eq] at hwf
    obtain ⟨⟨⟨h1, hch⟩, hvt⟩, hs⟩ := hwf
    unfold special at h
    simp only [Bool.or_eq_true, decide_eq_true_eq] at h
    unfold InRange
    simp only [Obj.size]
    rcases h with ((h | h) | h) | h
    · omega
    · have := inSlots_inRange base impl ch i (slots_wf ch impl hch) h
      omega
    · have := inSlots_inRange base impl vt i (slots_wf vt impl hvt) h
      omega
    · have := specialSubs_inRange subs impl size hs base i h
      omega
theorem specialSubs_inRange (s : Subs) (lo hi : Nat) (hwf : s.wf lo hi = true) (base i : Nat)
    (h : specialSubs s base i = true) : base + lo ≤ i ∧ i < base + hi := by
  match s with
  | .nil => unfold specialSubs at h; simp at h
  | .cons off o rest =>
    unfold Subs.wf at hwf
    simp only [Bool.and_eq_true, decide_eq_true_eq] at hwf
    obtain ⟨⟨⟨hlo, hhi⟩, ho⟩, hr⟩ := hwf
    unfold specialSubs at h
    simp only [Bool.or_eq_true] at h
    rcases h with h | h
    · have := special_inRange o ho (base + off) i h
      unfold InRange at this
      omega
    · have := specialSubs_inRange rest (off + o.size) hi hr base i h
      omega
end

mutual
theorem firstParts_inRange (o : Obj) (hwf : o.wf = true) (base i : Nat) (h : firstParts o base i = true) :
    InRange base o.size i := by
  match o with
  | .mk size impl ch vt subs =>
    unfold Obj.wf at hwf
    simp only [Bool.and_eq_true, decide_eq_true_eq] at hwf
    obtain ⟨⟨⟨h1, _⟩, _⟩, hs⟩ := hwf
    unfold firstParts at h
    simp only [Bool.or_eq_true, decide_eq_true_eq] at h
    unfold InRange
    simp only [Obj.size]
    rcases h with h | h
    · omega
    · have := firstPartsSubs_inRange subs impl size hs base i h
      omega
theorem firstPartsSubs_inRange (s : Subs) (lo hi : Nat) (hwf : s.wf lo hi = true) (base i : Nat)
    (h : firstPartsSubs s base i = true) : base + lo ≤ i ∧ i < base + hi := by
  match s with
  | .nil => unfold firstPartsSubs at h; simp at h
  | .cons off o rest =>
    unfold Subs.wf at hwf
    simp only [Bool.and_eq_true, decide_eq_true_eq] at hwf
    obtain ⟨⟨⟨hlo, hhi⟩, ho⟩, hr⟩ := hwf
    unfold firstPartsSubs at h
    simp only [Bool.or_eq_true] at h
    rcases h with h | h
    · have := firstParts_inRange o ho (base + off) i h
      unfold InRange at this
      omega
    · have := firstPartsSubs_inRange rest (off + o.size) hi hr base i h
      omega
end

/-- `init_frame`: for every option set, a successful `initialize` of a well-formed object leaves
ALL memory outside the object exactly as it was (the emitted memsets and stores stay inside
`sizeof(*self)`). -/
theorem init_frame (o : Obj) (hwf : o.wf = true) (base : Nat) (opts : Opts) (m r : Mem)
    (h : initObj o base opts m = .ok r) (i : Nat) (hout : ¬ InRange base o.size i) : r i = m i := by
  have hs : special o base i = false := by
    cases hsp : special o base i with
    | false => rfl
    | true => exact absurd (special_inRange o hwf base i hsp) hout
  have hv := initObj_value o base opts m r h i hs
  have hz : zeroed o base opts i = false := by
    unfold zeroed
    by_cases az : opts.alreadyZeroed = true
    · simp [az]
    · by_cases lv : opts.leaveUninit = true
      · simp only [az, lv, ↓reduceIte]
        cases hf : firstParts o base i with
        | false => rfl
        | true => exact absurd (firstParts_inRange o hwf base i hf) hout
      · simp only [az, lv]
        unfold inRange
        simpa [InRange] using hout
  simpa [hz] using hv

/-! ### options 0 cannot fail -/

mutual
/-- ALREADY_ZEROED succeeds whenever every magic field (of the object and its sub-objects) is zero. -/
theorem initObj_already_zeroed_succeeds (o : Obj) (hwf : o.wf = true) (base : Nat) (lv : Bool) (m : Mem)
    (hz : ∀ i, magicLocs o base i → m i = .byte 0) : ∃ r, initObj o base ⟨true, lv⟩ m = .ok r := by
  match o with
  | .mk size impl ch vt subs =>
    have hwf' := hwf
    unfold Obj.wf at hwf
    simp only [Bool.and_eq_true, decide_eq_true_eq] at hwf
    obtain ⟨⟨⟨h1, hch⟩, hvt⟩, hs⟩ := hwf
    unfold initObj prologue
    have mz : magicIsZero m base = true := by
      unfold magicIsZero
      have a0 := hz base (by unfold magicLocs; exact Or.inl ⟨by omega, by omega⟩)
      have a1 := hz (base + 1) (by unfold magicLocs; exact Or.inl ⟨by omega, by omega⟩)
      have a2 := hz (base + 2) (by unfold magicLocs; exact Or.inl ⟨by omega, by omega⟩)
      have a3 := hz (base + 3) (by unfold magicLocs; exact Or.inl ⟨by omega, by omega⟩)
      simp [a0, a1, a2, a3]
    simp only [↓reduceIte, mz]
    obtain ⟨r3, hr3⟩ := initSubs_already_zeroed_succeeds subs impl size hs base lv (storeSlots m base ch)
      (fun i hi => by
        have hr := magicLocsSubs_inRange subs base i impl size hs hi
        have hout : ¬ InRange base impl i := by unfold InRange; omega
        rw [storeSlots_outside base impl i hout ch (slots_wf ch impl hch)]
        exact hz i (by unfold magicLocs; exact Or.inr hi))
    rw [hr3]
    exact ⟨_, rfl⟩
theorem initSubs_already_zeroed_succeeds (s : Subs) (lo hi : Nat) (hwf : s.wf lo hi = true) (base : Nat)
    (lv : Bool) (m : Mem) (hz : ∀ i, magicLocsSubs s base i → m i = .byte 0) :
    ∃ r, initSubs s base ⟨true, lv⟩ m = .ok r := by
  match s with
  | .nil => exact ⟨m, by unfold initSubs; rfl⟩
  | .cons off o rest =>
    unfold Subs.wf at hwf
    simp only [Bool.and_eq_true, decide_eq_true_eq] at hwf
    obtain ⟨⟨⟨hlo, hhi⟩, ho⟩, hr⟩ := hwf
    unfold initSubs
    obtain ⟨m', hm'⟩ := initObj_already_zeroed_succeeds o ho (base + off) lv m
      (fun i hi => hz i (by unfold magicLocsSubs; exact Or.inl hi))
    rw [hm']
    simp only
    apply initSubs_already_zeroed_succeeds rest (off + o.size) hi hr base lv m'
    intro i hml
    have hrange := magicLocsSubs_inRange rest base i (off + o.size) hi hr hml
    have hout : ¬ InRange (base + off) o.size i := by unfold InRange; omega
    rw [init_frame o ho (base + off) ⟨true, lv⟩ m m' hm' i hout]
    exact hz i (by unfold magicLocsSubs; exact Or.inr hml)
end

/-- `init_options0_succeeds`: with options 0 (and without ALREADY_ZEROED's promise),
`initialize` of a well-formed object cannot fail after its argument checks, whatever the prior
memory: the nested ALREADY_ZEROED checks always see the zeroes just written by the memset. -/
theorem init_options0_succeeds (o : Obj) (hwf : o.wf = true) (base : Nat) (m : Mem) :
    ∃ r, initObj o base ⟨false, false⟩ m = .ok r := by
  rw [init_options0_eq_memset_then_already_zeroed o hwf base m]
  apply initObj_already_zeroed_succeeds o hwf base false
  intro i hi
  have := magicLocs_inRange o base i hwf hi
  unfold zeroRange
  unfold InRange at this
  simp [this]

/-- non-vacuity: in a layout shaped like a generated struct, a first-part field byte (offset 12)
is not special, a choosy pointer byte (offset 33) and a sub-object's magic (offset 48) are. -/
example :
    let sub := Obj.mk 24 16 [⟨8, 3⟩] [] .nil
    let o := Obj.mk 96 40 [⟨32, 0⟩] [⟨8, 1⟩, ⟨16, 2⟩] (.cons 48 sub .nil)
    special o 0 24 = false ∧ firstParts o 0 24 = true ∧ special o 0 33 = true ∧ special o 0 48 = true ∧
      special o 0 80 = false ∧ firstParts o 0 80 = false := by decide

end WuffsVerif.Props.C09
