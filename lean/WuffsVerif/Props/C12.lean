/-
C12 — both formatters change only white space and are idempotent.

Part 1: the C indenter (`lib/dumbindent`), over `Model/Indent.lean`, which mirrors the
REPAIRED `FormatBytes` (fixes/C12-dumbindent-stale-line.patch).  Helper lemmas:
`Proof/IndentBasic.lean` (byte conservation, termination), `Proof/IndentWs.lean`
(`normalise`, the line loop invariant), `Proof/IndentIdem{,2,3}.lean` (congruence of the
inner loop under trimmed trailing blanks and a changed continuation; idempotence),
`Proof/IndentLex.lean` (round 2b: the ghost flag `lexClosed` of the run discharged from the predicate
`delimitersTerminated` on the input text alone).
-/
import WuffsVerif.Proof.IndentWs
import WuffsVerif.Proof.IndentIdem3
import WuffsVerif.Proof.IndentLex

namespace WuffsVerif.Props.C12
open WuffsVerif.Indent

/-! ## Termination -/

/-- `indent_terminates`.  The model's loops take fuel; with fuel `len(src) + 1` the
outer loop never runs out, for every input (closed or not) and every option: each
iteration of `for …; len(src) > 0; src = remaining` strictly shortens `src` (also through
`handleRaw`, which is where the unrepaired code re-sliced from a stale position and
looped forever), and each step of the inner `loop:` strictly shortens `line ++ remaining`. -/
theorem indent_terminates (o : Opts) (s : Bytes) : (formatFuel (s.length + 1) o s).isSome :=
  formatFuel_isSome o s

/-- the inner `loop:` alone: fuel `len(line) + len(rest of src) + 1` is enough -/
theorem indent_scan_terminates (nB nP : Int) (last : UInt8) (clo : Bool) (out pend rest tail : Bytes) :
    (scan (rest.length + tail.length + 1) nB nP last clo out pend rest tail).isSome :=
  scan_isSome _ _ _ _ _ _ _ _ _ (Nat.lt_succ_self _)

/-- more fuel changes nothing: `format` is the value for every sufficient fuel -/
theorem indent_format_eq (o : Opts) (s out : Bytes)
    (h : formatFuel (s.length + 1) o s = some out) : format o s = out := by
  simp [format, h]

/-! ## White space only -/

/-- The inner loop conserves bytes: what it appended to dst, then the final `line`, then the
rest of the source, is exactly what it was given (nothing dropped, duplicated or reordered —
the unrepaired code violated this by re-appending a stale slice). -/
theorem indent_scan_conserves (fuel : Nat) (nB nP : Int) (last : UInt8) (clo : Bool) (line tail : Bytes) (r : ScanOut)
    (h : scan fuel nB nP last clo [] [] line tail = some r) :
    r.out ++ (r.line ++ r.tail) = line ++ tail := by
  have := (scan_spec _ _ _ _ _ _ _ _ _ _ h).bytes
  simpa using this

/-- For EVERY input (lexically closed or not) and every option: the output, observed through
`normalise` (each line stripped of leading/trailing blanks, trailing blank lines dropped),
equals the input minus its leading blank lines observed the same way. -/
theorem indent_ws_only_modulo_leading_blank_lines (o : Opts) (s : Bytes) :
    normalise (format o s) = normalise (trimLeadingWsNl s) :=
  format_ws o s

/-- The input starts with a blank line but is not blank altogether. -/
def hasLeadingBlankLine (s : Bytes) : Bool :=
  (trimLeadingWs s).head? == some NL && !(trimLeadingWsNl s).isEmpty

theorem trimLeadingWsNl_eq_of_head (s : Bytes) (h : (trimLeadingWs s).head? ≠ some NL) :
    trimLeadingWsNl s = trimLeadingWs s := by
  induction s with
  | nil => rfl
  | cons c cs ih =>
    unfold trimLeadingWsNl trimLeadingWs at *
    rw [List.dropWhile_cons] at h ⊢
    rw [List.dropWhile_cons]
    by_cases hc : isWs c = true
    · simp only [hc, ↓reduceIte, Bool.true_or] at h ⊢
      exact ih h
    · simp only [hc, Bool.false_eq_true, ↓reduceIte, List.head?_cons, ne_eq, Option.some.injEq] at h
      simp [hc, h]

theorem stripLines_blank (s : Bytes) (h : ∀ b ∈ s, isWs b = true ∨ b = NL) :
    ∃ k, stripLines s = List.replicate k [] := by
  induction s with
  | nil => exact ⟨1, by simp [stripLines_nil]⟩
  | cons c cs ih =>
    obtain ⟨k, hk⟩ := ih (fun b hb => h b (by simp [hb]))
    cases h c (by simp) with
    | inl hw =>
      refine ⟨k, ?_⟩
      have := stripLines_ws_append [c] cs (by intro b hb; simp at hb; rw [hb]; exact hw)
      simpa [hk] using this
    | inr hn =>
      subst hn
      refine ⟨k + 1, ?_⟩
      have := stripLines_append_nl [] cs
      simp only [List.nil_append] at this
      rw [this, hk, stripLines_nil, List.replicate_succ]
      rfl

theorem normalise_blank (s : Bytes) (h : trimLeadingWsNl s = []) : normalise s = [] := by
  have hall : ∀ b ∈ s, isWs b = true ∨ b = NL := by
    unfold trimLeadingWsNl at h
    induction s with
    | nil => simp
    | cons c cs ih =>
      rw [List.dropWhile_cons] at h
      split at h
      · rename_i hc
        intro b hb
        simp only [List.mem_cons] at hb
        cases hb with
        | inl e => subst e; simpa using hc
        | inr hm => exact ih h b hm
      · simp at h
  obtain ⟨k, hk⟩ := stripLines_blank s hall
  simp [normalise, hk, dropTE_replicate_nil]

/-- `indent_ws_only`, the property's clause as stated: `normalise (format o s) = normalise s`,
for every option and every input that does not start with a blank line.  No lexical
closedness is needed for this clause.  The hypothesis cannot be dropped — see
`indent_ws_only_fails_with_leading_blank_line` (KNOWN_FINDINGS: ws:leading-blank-lines-dropped). -/
theorem indent_ws_only (o : Opts) (s : Bytes) (h : hasLeadingBlankLine s = false) :
    normalise (format o s) = normalise s := by
  rw [format_ws]
  unfold hasLeadingBlankLine at h
  by_cases h1 : (trimLeadingWs s).head? = some NL
  · have h2 : trimLeadingWsNl s = [] := by simpa [h1] using h
    rw [h2, normalise_blank s h2]
    simp [normalise, stripLines_nil, dropTE_single_nil]
  · rw [trimLeadingWsNl_eq_of_head s h1]
    obtain ⟨w, hw, hs⟩ := trimLeadingWs_split s
    conv => rhs; rw [hs]
    unfold normalise
    rw [stripLines_ws_append _ _ hw]

/-- The finding, machine-checked: with a leading blank line the clause is false
(`"\n x"` is formatted to `"x\n"`; the blank first line is gone). -/
theorem indent_ws_only_fails_with_leading_blank_line :
    normalise (format ⟨false, 0⟩ [NL, SP, 120]) ≠ normalise [NL, SP, 120] := by
  decide

/-- non-vacuity of `indent_ws_only`: a text with a multi-line comment followed by more
code and a second comment on its last line (the shape that hung the unrepaired code). -/
example : hasLeadingBlankLine
    [123, 10, 120, 59, 32, 47, 42, 32, 97, 10, 98, 32, 42, 47, 32, 121, 59, 32, 47, 42, 99, 42, 47, 32, 10, 125] = false := by
  decide

/-- … and what the model makes of it: `{\n  x; /* a\nb */ y; /*c*/\n}\n`. -/
example : format ⟨false, 0⟩
    [123, 10, 120, 59, 32, 47, 42, 32, 97, 10, 98, 32, 42, 47, 32, 121, 59, 32, 47, 42, 99, 42, 47, 32, 10, 125] =
    [123, 10, 32, 32, 120, 59, 32, 47, 42, 32, 97, 10, 98, 32, 42, 47, 32, 121, 59, 32, 47, 42, 99, 42, 47, 10, 125, 10] := by
  decide

/-! ## Idempotence -/

/-- `indent_idempotent`: re-indenting changes nothing — `format o (format o s) = format o s` —
for every option and every text that is lexically closed in the indenter's own sense
(`lexClosed`: every search for the end of a back-tick raw string or a slash-star comment that
`FormatBytes` starts finds it; unterminated "…" / '…' are allowed).  Multi-line comments and
raw strings, followed by more code, comments and strings on their last line, are covered: the
proof is a simulation of the second run by the first (`scan_cong`: the inner loop does the same
on `K ++ T₂` as it did on `K ++ blanks ++ T`). -/
theorem indent_idempotent (o : Opts) (s : Bytes) (h : lexClosed o s = true) :
    format o (format o s) = format o s :=
  format_idem o s h

/-- non-vacuity: the text with a multi-line comment followed by code and a second comment is closed -/
example : lexClosed ⟨false, 0⟩
    [123, 10, 120, 59, 32, 47, 42, 32, 97, 10, 98, 32, 42, 47, 32, 121, 59, 32, 47, 42, 99, 42, 47, 32, 10, 125] = true := by
  decide

/-- the hypothesis is needed: an unterminated comment with trailing blank lines grows by one
newline per pass (`"/* a\n\n"`) -/
example : format ⟨false, 0⟩ (format ⟨false, 0⟩ [47, 42, 32, 97, 10, 10]) ≠ format ⟨false, 0⟩ [47, 42, 32, 97, 10, 10] ∧
    lexClosed ⟨false, 0⟩ [47, 42, 32, 97, 10, 10] = false := by
  decide

/-! ### … with the property's own hypothesis -/

/-- `indent_idempotent_terminated`: idempotence with the property's own hypothesis, a decidable
predicate on the input TEXT (no option, no state of the run): `delimitersTerminated s` — reading `s`
line by line with the lexical classes dumbindent documents (a line whose first non-blank byte is
'#' is a directive, opaque, continued by a trailing backslash; `//` runs to the end of the line;
"…" and '…' with backslash escapes end on their line; `…` and slash-star comments end anywhere
later), every string, character constant, raw string and comment that is opened is terminated.
The ghost flag `lexClosed` of `indent_idempotent` follows from it for every option
(`lexClosed_of_delimitersTerminated`: the run's inner loop is that lexer plus counters). -/
theorem indent_idempotent_terminated (o : Opts) (s : Bytes) (h : delimitersTerminated s = true) :
    format o (format o s) = format o s :=
  format_idem o s (lexClosed_of_delimitersTerminated o s h)

/-- the same with the weaker hypothesis that raw strings and slash-star comments are terminated
(an unterminated "…" or '…' just ends with its line) -/
theorem indent_idempotent_raw_terminated (o : Opts) (s : Bytes) (h : rawTerminated s = true) :
    format o (format o s) = format o s :=
  format_idem o s (lexClosed_of_rawTerminated o s h)

/-- `indent_property`: the three clauses of the property together, as stated: for every option and
every text whose string, character, raw-string and comment delimiters are all terminated (and that
does not start with a blank line — see `indent_ws_only_fails_with_leading_blank_line`), the indenter
terminates, its output equals the input after stripping each line's leading and trailing blanks and
trailing blank lines, and re-indenting it changes nothing. -/
theorem indent_property (o : Opts) (s : Bytes) (h : delimitersTerminated s = true)
    (hb : hasLeadingBlankLine s = false) :
    (formatFuel (s.length + 1) o s).isSome ∧ normalise (format o s) = normalise s ∧
      format o (format o s) = format o s :=
  ⟨indent_terminates o s, indent_ws_only o s hb, indent_idempotent_terminated o s h⟩

/-- non-vacuity: the text with a multi-line comment followed by code and a second comment -/
example : delimitersTerminated
    [123, 10, 120, 59, 32, 47, 42, 32, 97, 10, 98, 32, 42, 47, 32, 121, 59, 32, 47, 42, 99, 42, 47, 32, 10, 125] = true := by
  decide

/-- `x = "a\"b"; c = '\''; r = ` q` // "` / `#define X "` / `y` : strings with escapes, a
character constant, a raw string, a quote inside a `//` comment and inside a directive -/
example : delimitersTerminated
    [120, 32, 61, 32, 34, 97, 92, 34, 98, 34, 59, 32, 99, 32, 61, 32, 39, 92, 39, 39, 59, 32, 114, 32, 61, 32, 96, 32,
      113, 96, 32, 47, 47, 32, 34, 10, 35, 100, 101, 102, 105, 110, 101, 32, 88, 32, 34, 10, 121] = true := by
  decide

/-- an unterminated comment is not terminated; an unterminated string is not either, but it is
harmless for idempotence (`rawTerminated`) -/
example : delimitersTerminated [47, 42, 32, 97, 10, 10] = false ∧
    delimitersTerminated [120, 32, 61, 32, 34, 97, 98, 10, 121] = false ∧
    rawTerminated [120, 32, 61, 32, 34, 97, 98, 10, 121] = true := by
  decide

/-- the second run re-derives the same state: one code line, formatted again in any context,
gives the same text and the same new state (`codeLine_cong`) -/
theorem indent_line_stable (o : Opts) (ii : Nat) (st : St) (line tail text : Bytes) (st' : St) (tail' : Bytes)
    (h : codeLine o ii st line tail = some (text, st', tail'))
    (hclosed : codeLineClosed st line tail = true)
    (hline : NL ∉ line) (c0 : UInt8) (l0 : Bytes) (hl0 : line = c0 :: l0) (hc0 : isWs c0 = false)
    (htail : NlHead tail) (R : Bytes) :
    ∃ (body : Bytes), text = List.replicate (codeIndent o ii st (nBracesAtLineStart st line)) o.indentByte ++ (body ++ [NL]) ∧
      (∃ b, body = c0 :: b) ∧
      codeLine o ii st (splitLine (body ++ NL :: R)).1 (splitLine (body ++ NL :: R)).2 = some (text, st', NL :: R) :=
  codeLine_cong o ii st line tail text st' tail' h hclosed hline c0 l0 hl0 hc0 htail R

end WuffsVerif.Props.C12
