/-
C18 — the DCT clause: `fdct_valid` (ForwardDCT of any pixel block IsValid) and
`idct_fdct_within_four` (|IDCT(FDCT b) − b| ≤ 4 for every block), over `Model/Jpeg/Dct.lean`.
The "IDCT∘FDCT within one" sentence is false (known finding, `idct_fdct_not_within_one`); what is
known about the true maximum (between 2 and 4) is in the note at the end.
-/
import WuffsVerif.Proof.JpegDct
import WuffsVerif.Proof.JpegDctLow
import WuffsVerif.Proof.JpegDctBudgetA
import WuffsVerif.Proof.JpegDctBudgetB
import WuffsVerif.Proof.JpegDctBudgetC
import WuffsVerif.Proof.JpegDctBudgetD
open WuffsVerif.Gen.C18 WuffsVerif.Jpeg WuffsVerif.Jpeg.Dct WuffsVerif.Jpeg.DctP WuffsVerif.Jpeg.DctB

namespace WuffsVerif.Props.C18

/-- the range of `result0` in `ForwardDCTFrom`, for every 8×8 block of bytes and every output
    index k: DC ∈ [−1024, 1016], AC ∈ [−1020, 1020] (the per-coefficient sign-matched extremes
    pushed through the two rounding shifts, which are monotone) -/
theorem fdct_coef_range (src : Array Nat) (hsrc : ∀ i, src.getD i 0 ≤ 255) (k : Nat) (hk : k < 64) :
    (if k = 0 then -1024 else -1020) ≤ fdctCoef src k ∧ fdctCoef src k ≤ (if k = 0 then 1016 else 1020) := by
  have hx := (List.all_eq_true.mp extremes_ok) k (List.mem_range.mpr hk)
  simp only [extremesOK, Bool.and_eq_true, decide_eq_true_eq] at hx
  obtain ⟨⟨⟨⟨⟨ha0, _⟩, hlo⟩, hhi⟩, _⟩, _⟩ := hx
  have hs := sum32_bounds (fun i => ((src.getD i 0 : Nat) : Int) - 128)
    (fun i => by have := hsrc i; constructor <;> omega) (k % 8) (k / 8) (List.range 64)
  unfold fdctCoef
  simp only
  have m1 := fdctPost_mono (alphas16 (k % 8) (k / 8)) _ _ ha0 hs.1
  have m2 := fdctPost_mono (alphas16 (k % 8) (k / 8)) _ _ ha0 hs.2
  exact ⟨Int.le_trans hlo m1, Int.le_trans m2 hhi⟩

theorem forwardDCT_getD (src : Array Nat) (k : Nat) (hk : k < 64) :
    (forwardDCT src).getD k 0 = toInt16 (fdctCoef src k) := by
  simp [forwardDCT, Array.getD, hk]

/-- the `int16(result0)` conversion of `ForwardDCTFrom` never wraps: element `k` of the output IS
    `result0` -/
theorem forwardDCT_getD_exact (src : Array Nat) (hsrc : ∀ i, src.getD i 0 ≤ 255) (k : Nat) (hk : k < 64) :
    (forwardDCT src).getD k 0 = fdctCoef src k := by
  have := fdct_coef_range src hsrc k hk
  rw [forwardDCT_getD src k hk]
  unfold toInt16
  split at this <;> omega

/-- **fdct_valid**: `ForwardDCTFrom` of any `BlockU8` satisfies `BlockI16.IsValid`
    (and the int16 conversion never wraps) -/
theorem fdct_valid (src : Array Nat) (hsrc : ∀ i, src.getD i 0 ≤ 255) :
    blockIsValid (forwardDCT src) = true := by
  have hr : ∀ k, k < 64 → (forwardDCT src).getD k 0 = fdctCoef src k :=
    fun k hk => forwardDCT_getD_exact src hsrc k hk
  unfold blockIsValid
  simp only [Bool.and_eq_true, decide_eq_true_eq, List.all_eq_true]
  refine ⟨?_, fun i hi => ?_⟩
  · rw [hr 0 (by omega)]
    have := fdct_coef_range src hsrc 0 (by omega)
    simp only [↓reduceIte] at this
    omega
  · rw [List.mem_range'_1] at hi
    rw [hr i (by omega)]
    have := fdct_coef_range src hsrc i (by omega)
    have hne : ¬ i = 0 := by omega
    simp only [hne, ↓reduceIte] at this
    omega

/-- no int64 overflow in `ForwardDCTFrom`: |sum32| ≤ 2^46 and 0 ≤ alphas16 ≤ 2^14, so
    |alphas16 · sum16| + 2^31 < 2^45 — the model's unbounded `Int` arithmetic is exact -/
theorem fdct_sum_bounds (src : Array Nat) (hsrc : ∀ i, src.getD i 0 ≤ 255) (k : Nat) (hk : k < 64) :
    -(2 : Int) ^ 46 ≤ sum32 (fun i => ((src.getD i 0 : Nat) : Int) - 128) (k % 8) (k / 8) (List.range 64) ∧
    sum32 (fun i => ((src.getD i 0 : Nat) : Int) - 128) (k % 8) (k / 8) (List.range 64) ≤ (2 : Int) ^ 46 ∧
    0 ≤ alphas16 (k % 8) (k / 8) ∧ alphas16 (k % 8) (k / 8) ≤ 16384 := by
  have hx := (List.all_eq_true.mp extremes_ok) k (List.mem_range.mpr hk)
  simp only [extremesOK, Bool.and_eq_true, decide_eq_true_eq] at hx
  obtain ⟨⟨⟨⟨⟨ha0, ha1⟩, _⟩, _⟩, hl⟩, hh⟩ := hx
  have hs := sum32_bounds (fun i => ((src.getD i 0 : Nat) : Int) - 128)
    (fun i => by have := hsrc i; constructor <;> omega) (k % 8) (k / 8) (List.range 64)
  exact ⟨Int.le_trans hl hs.1, Int.le_trans hs.2 hh, ha0, ha1⟩

/-- non-vacuity of the hypothesis and tightness of the DC bound: the all-zero block has
    `result0 = −1024` (the only way to reach −1024, which is why `IsValid` allows it for DC only) -/
example : (∀ i, (Array.replicate 64 0 : Array Nat).getD i 0 ≤ 255) := by
  intro i; simp [Array.getD]

/-! ### no int64 overflow in `InverseDCTFrom`, for any int16 input -/

theorem mul_natAbs_le (a b : Int) (A B : Nat) (ha : a.natAbs ≤ A) (hb : b.natAbs ≤ B) :
    (a * b).natAbs ≤ A * B := by
  rw [Int.natAbs_mul]; exact Nat.mul_le_mul ha hb

/-- every entry of `cosines` (and the default for an index out of range) is within ±2^16 -/
theorem cosAt_bound (x u : Nat) : (cosAt x u).natAbs ≤ 65536 := by
  have hall : cosines.toList.all (fun c => decide (c.natAbs ≤ 65536)) = true := by decide
  unfold cosAt
  rw [getD_toList, List.getD_eq_getElem?_getD]
  cases hi : cosines.toList[((2 * x + 1) * u) % 32]? with
  | none => simp
  | some c =>
    have := (List.all_eq_true.mp hall) c (List.mem_of_getElem? hi)
    simpa using this

/-- the weight `alphas16 * c16` of any coefficient in any pixel is within ±2^30 -/
theorem idct_weight_bound (u v i : Nat) : (alphas16 u v * ((c32 u v i + 32768) / 65536)).natAbs ≤ 16384 * 65536 := by
  have ha : (alphas16 u v).natAbs ≤ 16384 := by
    unfold alphas16 halfAlpha16
    split <;> split <;> decide
  have hc : (c32 u v i).natAbs ≤ 65536 * 65536 := mul_natAbs_le _ _ _ _ (cosAt_bound _ _) (cosAt_bound _ _)
  have hc16 : ((c32 u v i + 32768) / 65536).natAbs ≤ 65536 := by omega
  exact mul_natAbs_le _ _ _ _ ha hc16

/-- **no int64 overflow in `InverseDCTFrom`**: for ANY block of int16 values, every partial sum of
    `alphasSum32` is within ±(number of terms)·2^45 ≤ 2^51, so `alphasSum32 + (1 << 31)` is far from
    2^63 and the model's unbounded `Int` arithmetic is what the Go code computes -/
theorem idct_sum_bounds (src : Nat → Int) (hsrc : ∀ k, -32768 ≤ src k ∧ src k ≤ 32767) (i : Nat) (l : List Nat) :
    (isum32 src i l).natAbs ≤ l.length * 35184372088832 := by
  induction l with
  | nil => simp [isum32]
  | cons k ks ih =>
    have hs : (src k).natAbs ≤ 32768 := by have := hsrc k; omega
    have ht := mul_natAbs_le _ _ _ _ hs (idct_weight_bound (k % 8) (k / 8) i)
    simp only [isum32, List.length_cons]
    generalize src k * (alphas16 (k % 8) (k / 8) * ((c32 (k % 8) (k / 8) i + 32768) / 65536)) = t at ht
    generalize isum32 src i ks = r at ih
    omega

/-! ### IDCT ∘ FDCT: the bound that holds for every block (K = 4) -/

/-- the error budget (`Proof/JpegDctBound.lean`) of every pixel is below 4.25·10^24 ≈ 3.5155 · 2^80:
    64 kernel evaluations over the regenerated tables (`Proof/JpegDctBudgetA–D.lean`) -/
theorem budget_le (i : Nat) (hi : i < 64) : budget i ≤ 4250000000000000000000000 := by
  rw [budget_eq]
  have h : budgetOK i = true := by
    rcases (by omega : i < 16 ∨ (16 ≤ i ∧ i < 32) ∨ (32 ≤ i ∧ i < 48) ∨ (48 ≤ i ∧ i < 64)) with h | h | h | h
    · exact List.all_eq_true.mp budget_ok_A i (List.mem_range'_1.mpr ⟨by omega, by omega⟩)
    · exact List.all_eq_true.mp budget_ok_B i (List.mem_range'_1.mpr ⟨by omega, by omega⟩)
    · exact List.all_eq_true.mp budget_ok_C i (List.mem_range'_1.mpr ⟨by omega, by omega⟩)
    · exact List.all_eq_true.mp budget_ok_D i (List.mem_range'_1.mpr ⟨by omega, by omega⟩)
  simpa [budgetOK] using h

/-- `result0` of `InverseDCTFrom`, run on the output of `ForwardDCTFrom`, is within 4 of the biased
    pixel `src[i] − 128` — for every block of bytes and every pixel.  (So `result0 ∈ [−132, 131]`:
    the index `result0 & 1023` into `biasAndClamp` never aliases.) -/
theorem idctRaw_fdct_within_four (src : Array Nat) (hsrc : ∀ i, src.getD i 0 ≤ 255) (i : Nat) (hi : i < 64) :
    -4 ≤ idctRaw (forwardDCT src) i - (((src.getD i 0 : Nat) : Int) - 128) ∧
    idctRaw (forwardDCT src) i - (((src.getD i 0 : Nat) : Int) - 128) ≤ 4 := by
  have hT : isum32 (fun k => (forwardDCT src).getD k 0) i (List.range 64) =
      dot (fdctCoef src) (fun k => wL k i) (List.range 64) := by
    rw [isum32_eq_L _ (fdctCoef src) i (List.range 64)
      (fun k hk => forwardDCT_getD_exact src hsrc k (List.mem_range.mp hk)), isum32L_eq_dot]
  unfold idctRaw
  rw [hT]
  have a := acc_error src hsrc i hi
  simp only at a
  exact raw_within_four _ _ _ a.1 a.2 (budget_le i hi)

/-- `biasAndClamp[n]`, in closed form (n + 128 − 1024 is truncated at 0: the clamp) -/
theorem biasAndClamp_getD (n : Nat) (hn : n < 1024) :
    biasAndClamp.getD n 0 = if n < 512 then min (n + 128) 255 else n + 128 - 1024 := by
  have h : biasAndClamp.toList =
      (List.range 1024).map (fun i => if i < 512 then min (i + 128) 255 else i + 128 - 1024) := by
    decide +kernel
  rw [getD_toList, h, List.getD_eq_getElem?_getD, List.getElem?_map, List.getElem?_range hn]
  rfl

/-- **idct_fdct_within_four** — the DCT clause with the bound that is true: for EVERY 8×8 block of
    bytes, `InverseDCTFrom(ForwardDCTFrom(b))` differs from `b` by at most 4 at every pixel.
    (The property text says 1, which is false: `idct_fdct_not_within_one`; the largest error ever
    observed is 2.)  Proof: exact error identity of the two fixed-point matrix products + the
    rounding allowances of the three shifts (`DctB.acc_error`), the table constant `budget`
    evaluated by the kernel, and the clamp can only move the result towards the original byte. -/
theorem idct_fdct_within_four (src : Array Nat) (hsrc : ∀ i, src.getD i 0 ≤ 255) (i : Nat) (hi : i < 64) :
    -4 ≤ (((inverseDCT (forwardDCT src)).getD i 0 : Nat) : Int) - ((src.getD i 0 : Nat) : Int) ∧
    (((inverseDCT (forwardDCT src)).getD i 0 : Nat) : Int) - ((src.getD i 0 : Nat) : Int) ≤ 4 := by
  have h1 : (inverseDCT (forwardDCT src)).getD i 0 =
      biasAndClamp.getD ((idctRaw (forwardDCT src) i) % 1024).toNat 0 := by
    simp [inverseDCT, Array.getD, hi]
  have hr := idctRaw_fdct_within_four src hsrc i hi
  have hb := hsrc i
  rw [h1]
  generalize idctRaw (forwardDCT src) i = R at hr ⊢
  generalize src.getD i 0 = b at hr hb ⊢
  generalize hn : (R % 1024).toNat = n
  have hn1 : n < 1024 := by omega
  rw [biasAndClamp_getD n hn1]
  split
  · rw [Nat.min_def]
    split <;> omega
  · omega

/-- the negative side, sharpened: `result0 ≥ (src[i] − 128) − 3`.  Uses that the DC coefficient is
    exactly round-half-up(Σ s / 8) (`DctB.fdctPost_dc`), whose residue is one-sided (≥ −3/8) and
    whose IDCT weight is positive in every pixel (`Proof/JpegDctLow.lean`). -/
theorem idctRaw_fdct_ge_minus_three (src : Array Nat) (hsrc : ∀ i, src.getD i 0 ≤ 255) (i : Nat) (hi : i < 64) :
    -3 ≤ idctRaw (forwardDCT src) i - (((src.getD i 0 : Nat) : Int) - 128) := by
  have hT : isum32 (fun k => (forwardDCT src).getD k 0) i (List.range 64) =
      dot (fdctCoef src) (fun k => wL k i) (List.range 64) := by
    rw [isum32_eq_L _ (fdctCoef src) i (List.range 64)
      (fun k hk => forwardDCT_getD_exact src hsrc k (List.mem_range.mp hk)), isum32L_eq_dot]
  unfold idctRaw
  rw [hT]
  have a := acc_error_low src hsrc i hi
  simp only at a
  exact raw_ge_minus_three _ _ _ a (budget_le i hi)

/-- **idct_fdct_error_range**: for EVERY 8×8 block of bytes and every pixel,
    −3 ≤ `InverseDCTFrom(ForwardDCTFrom(b))[i] − b[i]` ≤ +4. -/
theorem idct_fdct_error_range (src : Array Nat) (hsrc : ∀ i, src.getD i 0 ≤ 255) (i : Nat) (hi : i < 64) :
    -3 ≤ (((inverseDCT (forwardDCT src)).getD i 0 : Nat) : Int) - ((src.getD i 0 : Nat) : Int) ∧
    (((inverseDCT (forwardDCT src)).getD i 0 : Nat) : Int) - ((src.getD i 0 : Nat) : Int) ≤ 4 := by
  refine ⟨?_, (idct_fdct_within_four src hsrc i hi).2⟩
  have h1 : (inverseDCT (forwardDCT src)).getD i 0 =
      biasAndClamp.getD ((idctRaw (forwardDCT src) i) % 1024).toNat 0 := by
    simp [inverseDCT, Array.getD, hi]
  have hr := idctRaw_fdct_within_four src hsrc i hi
  have hl := idctRaw_fdct_ge_minus_three src hsrc i hi
  have hb := hsrc i
  rw [h1]
  generalize idctRaw (forwardDCT src) i = R at hr hl ⊢
  generalize src.getD i 0 = b at hr hl hb ⊢
  generalize hn : (R % 1024).toNat = n
  have hn1 : n < 1024 := by omega
  rw [biasAndClamp_getD n hn1]
  split
  · rw [Nat.min_def]
    split <;> omega
  · omega

/-- non-vacuity / tightness: the bound is not vacuous (hypothesis satisfiable, see the `example`
    after `fdct_sum_bounds`), and it cannot be lowered below 2 (`idct_fdct_not_within_one`). -/
example : (∀ i, (Array.replicate 64 255 : Array Nat).getD i 0 ≤ 255) := by
  intro i; simp [Array.getD]; split <;> simp

-- NOTE on the property's last sentence ("returns each pixel to within one", K = 1) and on the
-- true maximum of |IDCT(FDCT b) − b|:
--   * K = 1 is FALSE for the model and for the implementation: `idct_fdct_not_within_one` below
--     proves it on a concrete block (KNOWN FINDING, findings/C18/idct-fdct-error2.txt; the harness
--     re-evaluates the witnesses on every run and the model agrees with the implementation on
--     them byte for byte).
--   * K = 4 is proved above for all 256^64 blocks.  The budget is
--       128·Σ_j|E i j| (0.0220) + Σ_k |w k i|·a k·2^15 (0.00001) + Σ_k |w k i|·2^47 (3.4896) + ½ (final shift)
--     = 4.0116 (in pixel units; identical for the 64 pixels), so |error| < 4.02, i.e. ≤ 4.
--   * OPEN: K = 3 and K = 2.  The analysis treats the 64 rounding residues of the FDCT as
--     independent; the third term is ½·‖row of the IDCT matrix‖₁ = ½·6.979 and cannot be improved
--     without using how the residues depend on the block, which is a closest-vector question for
--     the lattice (orthonormal DCT)(ℤ^64) in dimension 64.  K = 3 fails by 0.0116 (4.0116 > 4) on
--     the positive side; on the negative side the exactness of the DC coefficient (round-half-up
--     of Σ s / 8, residue ≥ −3/8) gives −3 (`idct_fdct_error_range`).  K = 2 is what the search sees (3·10⁶ random + 6000 hill-climbed
--     blocks per thorough run: never above 2; error 2 in about 1 of 10⁵ random blocks); an error
--     of 3 needs the residues to line up to 72 % of the extreme, about 8.7 standard deviations for
--     independent uniform residues (p ≈ 10⁻¹⁷ per pixel) — too rare for search, not excluded by it.

/-- **Known finding, formally** (`idct_fdct_not_within_one`): the property's last sentence —
    "the inverse DCT of [the forward DCT] returns each pixel to within one" — is false for the
    model (which agrees with the implementation byte for byte on this block, see the `fdct`/`idct`
    ops of every run): for the first witness block of findings/C18/idct-fdct-error2.txt, pixel 35
    comes back 2 lower. -/
theorem idct_fdct_not_within_one :
    ∃ src : Array Nat, (∀ i, src.getD i 0 ≤ 255) ∧
      ∃ i, i < 64 ∧ (((inverseDCT (forwardDCT src)).getD i 0 : Nat) : Int) - ((src.getD i 0 : Nat) : Int) = -2 := by
  have hw := witness_errs
  refine ⟨witness1.toArray, fun i => ?_, 35, by decide, ?_⟩
  · rw [getD_toList, List.getD_eq_getElem?_getD]
    cases hi : witness1.toArray.toList[i]? with
    | none => simp
    | some x =>
      have hm := List.mem_of_getElem? hi
      have := (List.all_eq_true.mp hw.2.1) x (by simpa using hm)
      simpa using this
  · have h1 : (inverseDCT (forwardDCT witness1.toArray)).getD 35 0 =
        biasAndClamp.getD ((idctRaw (forwardDCT witness1.toArray) 35) % 1024).toNat 0 := by
      simp [inverseDCT, Array.getD]
    rw [h1, idctRaw_eq_L, getD_toList biasAndClamp, getD_toList witness1.toArray]
    have h2 := hw.1
    simp only [witnessErrs, List.getD_eq_getElem?_getD] at h2
    rw [List.getElem?_map, List.getElem?_range (by decide)] at h2
    simpa [List.getD_eq_getElem?_getD] using h2


end WuffsVerif.Props.C18
