/-
C18 — the DCT clause: `fdct_valid` (ForwardDCT of any pixel block IsValid), over
`Model/Jpeg/Dct.lean`.  The "IDCT∘FDCT within one" sentence is false (known finding), see the
OPEN note at the end.
-/
import WuffsVerif.Proof.JpegDct
open WuffsVerif.Gen.C18 WuffsVerif.Jpeg WuffsVerif.Jpeg.Dct WuffsVerif.Jpeg.DctP

namespace WuffsVerif.Props.C18

/-- the range of `result0` in `ForwardDCTFrom`, for every 8×8 block of bytes and every output
    index k: DC ∈ [−1024, 1016], AC ∈ [−1020, 1020] (the per-coefficient sign-matched extremes
    pushed through the two rounding shifts, which are monotone) -/
theorem fdct_coef_range (src : Array Nat) (hsrc : ∀ i, src.getD i 0 ≤ 255) (k : Nat) (hk : k < 64) :
    (if k = 0 then -1024 else -1020) ≤ fdctCoef src k ∧ fdctCoef src k ≤ (if k = 0 then 1016 else 1020) := by
  have hx := (List.all_eq_true.mp extremes_ok) k (List.mem_range.mpr hk)
  simp only [extremesOK, Bool.and_eq_true, decide_eq_true_eq] at hx
  obtain ⟨⟨⟨⟨⟨ha0, _⟩, hlo⟩, hhi⟩, _⟩, _⟩ := hx
  have hs := sum32_bounds (fun i => ((src.getD i 0 : Nat) : Int) - 128)
    (fun i => by have := hsrc i; constructor <;> omega) (k % 8) (k / 8) (List.range 64)
  unfold fdctCoef
  simp only
  have m1 := fdctPost_mono (alphas16 (k % 8) (k / 8)) _ _ ha0 hs.1
  have m2 := fdctPost_mono (alphas16 (k % 8) (k / 8)) _ _ ha0 hs.2
  exact ⟨Int.le_trans hlo m1, Int.le_trans m2 hhi⟩

theorem forwardDCT_getD (src : Array Nat) (k : Nat) (hk : k < 64) :
    (forwardDCT src).getD k 0 = toInt16 (fdctCoef src k) := by
  simp [forwardDCT, Array.getD, hk]

/-- **fdct_valid**: `ForwardDCTFrom` of any `BlockU8` satisfies `BlockI16.IsValid`
    (and the int16 conversion never wraps) -/
theorem fdct_valid (src : Array Nat) (hsrc : ∀ i, src.getD i 0 ≤ 255) :
    blockIsValid (forwardDCT src) = true := by
  have hr : ∀ k, k < 64 → (forwardDCT src).getD k 0 = fdctCoef src k := by
    intro k hk
    have := fdct_coef_range src hsrc k hk
    rw [forwardDCT_getD src k hk]
    unfold toInt16
    split at this <;> omega
  unfold blockIsValid
  simp only [Bool.and_eq_true, decide_eq_true_eq, List.all_eq_true]
  refine ⟨?_, fun i hi => ?_⟩
  · rw [hr 0 (by omega)]
    have := fdct_coef_range src hsrc 0 (by omega)
    simp only [↓reduceIte] at this
    omega
  · rw [List.mem_range'_1] at hi
    rw [hr i (by omega)]
    have := fdct_coef_range src hsrc i (by omega)
    have hne : ¬ i = 0 := by omega
    simp only [hne, ↓reduceIte] at this
    omega

/-- no int64 overflow in `ForwardDCTFrom`: |sum32| ≤ 2^46 and 0 ≤ alphas16 ≤ 2^14, so
    |alphas16 · sum16| + 2^31 < 2^45 — the model's unbounded `Int` arithmetic is exact -/
theorem fdct_sum_bounds (src : Array Nat) (hsrc : ∀ i, src.getD i 0 ≤ 255) (k : Nat) (hk : k < 64) :
    -(2 : Int) ^ 46 ≤ sum32 (fun i => ((src.getD i 0 : Nat) : Int) - 128) (k % 8) (k / 8) (List.range 64) ∧
    sum32 (fun i => ((src.getD i 0 : Nat) : Int) - 128) (k % 8) (k / 8) (List.range 64) ≤ (2 : Int) ^ 46 ∧
    0 ≤ alphas16 (k % 8) (k / 8) ∧ alphas16 (k % 8) (k / 8) ≤ 16384 := by
  have hx := (List.all_eq_true.mp extremes_ok) k (List.mem_range.mpr hk)
  simp only [extremesOK, Bool.and_eq_true, decide_eq_true_eq] at hx
  obtain ⟨⟨⟨⟨⟨ha0, ha1⟩, _⟩, _⟩, hl⟩, hh⟩ := hx
  have hs := sum32_bounds (fun i => ((src.getD i 0 : Nat) : Int) - 128)
    (fun i => by have := hsrc i; constructor <;> omega) (k % 8) (k / 8) (List.range 64)
  exact ⟨Int.le_trans hl hs.1, Int.le_trans hs.2 hh, ha0, ha1⟩

/-- non-vacuity of the hypothesis and tightness of the DC bound: the all-zero block has
    `result0 = −1024` (the only way to reach −1024, which is why `IsValid` allows it for DC only) -/
example : (∀ i, (Array.replicate 64 0 : Array Nat).getD i 0 ≤ 255) := by
  intro i; simp [Array.getD]

-- OPEN: idct_fdct_within (the property's last sentence, K = 1):
--   ∀ src, (∀ i, src.getD i 0 ≤ 255) → ∀ i < 64,
--     |(inverseDCT (forwardDCT src)).getD i 0 − src.getD i 0| ≤ 1
-- is FALSE, for the model and for the implementation: `idct_fdct_not_within_one` below proves
-- it on a concrete block (KNOWN FINDING, findings/C18/idct-fdct-error2.txt; the harness
-- re-evaluates the witnesses on every run and the model agrees with the implementation on them
-- byte for byte).  No upper bound K is proved: a norm bound (rounding error ≤ 1/2 per coefficient
-- times the ∞-norm ≈ 6.98 of the IDCT rows, plus the fixed-point error of the cosine table, plus
-- the final rounding) would give K = 4; the search (3·10⁶ random + 6000 hill-climbed blocks per
-- thorough run) has never seen an error above 2.

/-- **Known finding, formally** (`idct_fdct_not_within_one`): the property's last sentence —
    "the inverse DCT of [the forward DCT] returns each pixel to within one" — is false for the
    model (which agrees with the implementation byte for byte on this block, see the `fdct`/`idct`
    ops of every run): for the first witness block of findings/C18/idct-fdct-error2.txt, pixel 35
    comes back 2 lower. -/
theorem idct_fdct_not_within_one :
    ∃ src : Array Nat, (∀ i, src.getD i 0 ≤ 255) ∧
      ∃ i, i < 64 ∧ (((inverseDCT (forwardDCT src)).getD i 0 : Nat) : Int) - ((src.getD i 0 : Nat) : Int) = -2 := by
  have hw := witness_errs
  refine ⟨witness1.toArray, fun i => ?_, 35, by decide, ?_⟩
  · rw [getD_toList, List.getD_eq_getElem?_getD]
    cases hi : witness1.toArray.toList[i]? with
    | none => simp
    | some x =>
      have hm := List.mem_of_getElem? hi
      have := (List.all_eq_true.mp hw.2.1) x (by simpa using hm)
      simpa using this
  · have h1 : (inverseDCT (forwardDCT witness1.toArray)).getD 35 0 =
        biasAndClamp.getD ((idctRaw (forwardDCT witness1.toArray) 35) % 1024).toNat 0 := by
      simp [inverseDCT, Array.getD]
    rw [h1, idctRaw_eq_L, getD_toList biasAndClamp, getD_toList witness1.toArray]
    have h2 := hw.1
    simp only [witnessErrs, List.getD_eq_getElem?_getD] at h2
    rw [List.getElem?_map, List.getElem?_range (by decide)] at h2
    simpa [List.getD_eq_getElem?_getD] using h2


end WuffsVerif.Props.C18
