/-
C04 part 6 — whole expression trees.

`exprN_correct` / `exprB_correct`: for EVERY well-typed expression tree of the
unsigned scalar fragment (any nesting of the 22 binary arithmetic / comparison
operators, `and` / `or` / `not`, `as`, constants and variables) and every
store: if the expression has a Wuffs meaning `v` (every node inside the range
the checker guarantees), then the C expression that writeExpr emits for the
whole tree (`lowerN` / `lowerB`: operator templates with the C text of the
operands substituted, literals with the `u` suffix, the dropped redundant mask
of `as`) evaluates — without undefined behaviour — to `v`, at the C type of the
tree.  Induction over the tree with `lower_correct` (Props/C04.lean) at each
node; the integer promotions and usual arithmetic conversions of every
intermediate result are part of the C semantics (Model/CExpr.lean).
-/
import WuffsVerif.Props.C04
import WuffsVerif.Model.CExprTree

set_option linter.unusedSimpArgs false

namespace WuffsVerif.Props.C04
open WuffsVerif.WOps WuffsVerif.C WuffsVerif.Gen.C04 WuffsVerif.Proof.C04

/-! ## Substitution -/

theorem ceval_subst2 (env : Nat → Option CVal) (cl cr : CExpr) (e : CExpr) :
    ceval env (CExpr.subst2 cl cr e) =
      ceval (fun i => if i = 0 then ceval env cl else if i = 1 then ceval env cr else env i) e := by
  induction e with
  | hole i =>
    simp only [CExpr.subst2, ceval]
    split
    · rfl
    · split <;> rfl
  | lit v => rfl
  | cast t e ih => simp only [CExpr.subst2, ceval, ih]
  | bin op a b iha ihb => simp only [CExpr.subst2, ceval, iha, ihb]
  | un op e ih => simp only [CExpr.subst2, ceval, ih]
  | satAdd t a b iha ihb => simp only [CExpr.subst2, ceval, iha, ihb]
  | satSub t a b iha ihb => simp only [CExpr.subst2, ceval, iha, ihb]

theorem ceval_congr (env env' : Nat → Option CVal) (e : CExpr) (k : Nat)
    (hb : e.holesBelow k = true) (h : ∀ i, i < k → env i = env' i) : ceval env e = ceval env' e := by
  induction e with
  | hole i => simp only [CExpr.holesBelow, decide_eq_true_eq] at hb; simp only [ceval]; exact h i hb
  | lit v => rfl
  | cast t e ih => simp only [CExpr.holesBelow] at hb; simp only [ceval, ih hb]
  | bin op a b iha ihb =>
    simp only [CExpr.holesBelow, Bool.and_eq_true] at hb; simp only [ceval, iha hb.1, ihb hb.2]
  | un op e ih => simp only [CExpr.holesBelow] at hb; simp only [ceval, ih hb]
  | satAdd t a b iha ihb =>
    simp only [CExpr.holesBelow, Bool.and_eq_true] at hb; simp only [ceval, iha hb.1, ihb hb.2]
  | satSub t a b iha ihb =>
    simp only [CExpr.holesBelow, Bool.and_eq_true] at hb; simp only [ceval, iha hb.1, ihb hb.2]

/-- an operator template mentions its two operands only -/
theorem lowerBin_holes (op : WOp) (t : WTy) (lk rk : Bool) (e : CExpr)
    (h : lowerBin op t lk rk = some e) : e.holesBelow 2 = true := by
  unfold lowerBin at h
  split at h
  · simp only [Option.some.injEq] at h; subst h; simp [CExpr.holesBelow]
  · simp only [Option.some.injEq] at h; subst h; simp [CExpr.holesBelow]
  · split at h
    · simp only [Option.some.injEq] at h
      subst h
      split <;> split <;> (try split) <;> simp [CExpr.holesBelow]
    · simp at h

/-- evaluating an instantiated template = evaluating the template on the operands' values -/
theorem ceval_template (env : Nat → Option CVal) (e cl cr : CExpr) (x y : CVal)
    (hb : e.holesBelow 2 = true) (hl : ceval env cl = some x) (hr : ceval env cr = some y) :
    ceval env (CExpr.subst2 cl cr e) = ceval (env2 x y) e := by
  rw [ceval_subst2]
  apply ceval_congr _ _ e 2 hb
  intro i hi
  match i, hi with
  | 0, _ => simp [env2, hl]
  | 1, _ => simp [env2, hr]

/-! ## Small facts -/

theorem cTypeOf_eq (t : WTy) : cTypeOf t = some (ctyOf t) := by cases t <;> rfl

theorem has_cty (t : WTy) (v : Int) (h : t.has v) : (ctyOf t).has v := by
  cases t <;> simp [WTy.has, WTy.max, WTy.bits] at h <;> simp [ctyOf, CTy.has, CTy.bits] <;> omega

theorem wrapU_of_has (t : WTy) (a : Int) (h : t.has a) : wrapU t.bits a = a := by
  have h1 := WTy.has_lt t a h
  exact Int.emod_eq_of_lt h.1 h1

theorem castTo_cty (t : WTy) (r : CVal) : castTo (ctyOf t) r = some ⟨ctyOf t, wrapU t.bits r.v⟩ := by
  cases t <;> rfl

theorem isShift_eq (op : WOp) : WOp.isShift op = isShiftOp op := rfl

theorem wmeaning_some {op : WOp} {t : WTy} {a b v : Int} (h : wmeaning op t a b = some v) :
    op.defined t a b ∧ v = op.ideal t a b := by
  unfold wmeaning at h
  split at h
  · exact ⟨‹_›, (Option.some.inj h).symm⟩
  · simp at h

/-- `r` is a faithful C operand for the value `v` of the expression `e` -/
structure Good (e : WNum) (v : Int) (r : CVal) : Prop where
  val : r.v = v
  wf : r.ty.has r.v
  ty : ∀ t : WTy, (e.isConst = true ∨ e.ty? = some t) → t.has v → OpdTy t e.isConst r.ty
  cty : ∀ t : WTy, e.ty? = some t → r.ty = ctyOf t

/-- the meaning of `(x & redundantMask) as T` is the meaning of `x`, reduced modulo 2^bits(T) -/
theorem stripMask_sem (S : Store) (to : WTy) (e : WNum) (a : Int) (hok : e.ok = true)
    (h : wevalN S e = some a) :
    ∃ ax, wevalN S (stripMask to e) = some ax ∧ (stripMask to e).ok = true ∧
      wrapU to.bits ax = wrapU to.bits a := by
  unfold stripMask
  split
  · rename_i t x m
    split
    · rename_i hm
      simp only [WNum.ok, Bool.and_eq_true] at hok
      simp only [wevalN] at h
      cases hx : wevalN S x with
      | none => simp [hx] at h
      | some ax =>
        simp only [hx] at h
        split at h
        · rename_i hc
          cases hw : wmeaning .band t ax m with
          | none => simp [hw] at h
          | some w =>
            obtain ⟨_, hw2⟩ := wmeaning_some hw
            simp only [hw, Option.bind_some] at h
            split at h
            · simp only [Option.some.injEq] at h
              subst h
              subst hw2
              refine ⟨ax, rfl, hok.1.2, ?_⟩
              simp only [WOp.ideal]
              have h0 := hc.1.1
              cases to <;> simp [redundantMask] at hm <;> subst hm <;> simp only [wrapU, WTy.bits]
              · have := iand_mod ax 8 h0; simp at this
                rw [show iand ax ((255 : Nat) : Int) = ax % 256 from this]; omega
              · have := iand_mod ax 16 h0; simp at this
                rw [show iand ax ((65535 : Nat) : Int) = ax % 65536 from this]; omega
              · have := iand_mod ax 32 h0; simp at this
                rw [show iand ax ((4294967295 : Nat) : Int) = ax % 4294967296 from this]; omega
            · simp at h
        · simp at h
    · exact ⟨a, h, hok, rfl⟩
  · rename_i t m x _
    split
    · rename_i hm
      simp only [WNum.ok, Bool.and_eq_true] at hok
      simp only [wevalN] at h
      cases hx : wevalN S x with
      | none => simp [hx] at h
      | some ax =>
        simp only [hx] at h
        split at h
        · rename_i hc
          cases hw : wmeaning .band t m ax with
          | none => simp [hw] at h
          | some w =>
            obtain ⟨_, hw2⟩ := wmeaning_some hw
            simp only [hw, Option.bind_some] at h
            split at h
            · simp only [Option.some.injEq] at h
              subst h
              subst hw2
              refine ⟨ax, rfl, hok.2, ?_⟩
              simp only [WOp.ideal]
              have h0 := hc.2.1
              rw [iand_comm]
              cases to <;> simp [redundantMask] at hm <;> subst hm <;> simp only [wrapU, WTy.bits]
              · have := iand_mod ax 8 h0; simp at this
                rw [show iand ax ((255 : Nat) : Int) = ax % 256 from this]; omega
              · have := iand_mod ax 16 h0; simp at this
                rw [show iand ax ((65535 : Nat) : Int) = ax % 65536 from this]; omega
              · have := iand_mod ax 32 h0; simp at this
                rw [show iand ax ((4294967295 : Nat) : Int) = ax % 4294967296 from this]; omega
            · simp at h
        · simp at h
    · exact ⟨a, h, hok, rfl⟩
  · exact ⟨a, h, hok, rfl⟩

/-! ## Numeric expression trees -/

theorem exprN_correct_aux (S : Store) : ∀ (n : Nat) (e : WNum), sizeOf e ≤ n → e.ok = true →
    ∀ v, wevalN S e = some v →
    ∃ c r, lowerN e = some c ∧ ceval S.toC c = some r ∧ Good e v r := by
  intro n
  induction n with
  | zero => intro e hs; cases e <;> simp at hs <;> omega
  | succ n ih =>
    intro e hs hok v hv
    cases e with
    | var i t =>
      simp only [wevalN] at hv
      cases hS : S i with
      | none => simp [hS] at hv
      | some p =>
        obtain ⟨t', v'⟩ := p
        simp only [hS] at hv
        split at hv
        · rename_i hc
          obtain ⟨rfl, hhas⟩ := hc
          simp only [Option.some.injEq] at hv
          subst hv
          refine ⟨.hole i, ⟨ctyOf t', v'⟩, by rw [lowerN], by simp [ceval, Store.toC, hS], ⟨rfl, has_cty _ _ hhas, ?_, ?_⟩⟩
          · intro t ht _
            simp only [WNum.isConst, Bool.false_eq_true, false_or, WNum.ty?, Option.some.injEq] at ht
            subst ht
            simp [OpdTy, WNum.isConst]
          · intro t ht
            simp only [WNum.ty?, Option.some.injEq] at ht
            subst ht
            rfl
        · simp at hv
    | const m =>
      simp only [wevalN, Option.some.injEq] at hv
      subst hv
      simp only [WNum.ok, decide_eq_true_eq] at hok
      by_cases h32 : m < 2 ^ 32
      · refine ⟨.lit m, ⟨.u32, m⟩, by rw [lowerN], by simp [ceval, litVal, h32], ⟨rfl, ?_, ?_, ?_⟩⟩
        · simp only [CTy.has, CTy.bits]; omega
        · intro t _ _; simp [OpdTy, WNum.isConst]
        · intro t ht; simp [WNum.ty?] at ht
      · refine ⟨.lit m, ⟨.u64, m⟩, by rw [lowerN], by simp [ceval, litVal, h32, hok], ⟨rfl, ?_, ?_, ?_⟩⟩
        · simp only [CTy.has, CTy.bits]; omega
        · intro t _ ht
          have : t = .u64 := by
            cases t <;> simp [WTy.has, WTy.max, WTy.bits] at ht <;> first | rfl | omega
          subst this
          simp [OpdTy, WNum.isConst]
        · intro t ht; simp [WNum.ty?] at ht
    | bin op t l r =>
      simp only [WNum.bin.sizeOf_spec] at hs
      simp only [WNum.ok, Bool.and_eq_true, Bool.not_eq_true', Bool.or_eq_true, beq_iff_eq] at hok
      obtain ⟨⟨⟨⟨⟨hop, hkk⟩, hlt⟩, hrt⟩, hokl⟩, hokr⟩ := hok
      simp only [wevalN] at hv
      cases hl : wevalN S l with
      | none => simp [hl] at hv
      | some a =>
      cases hr : wevalN S r with
      | none => simp [hl, hr] at hv
      | some b =>
      simp only [hl, hr] at hv
      split at hv
      · rename_i hc
        obtain ⟨hta, hb0, htb⟩ := hc
        cases hw : wmeaning op t a b with
        | none => simp [hw] at hv
        | some w =>
          obtain ⟨hdef, hw2⟩ := wmeaning_some hw
          simp only [hw, Option.bind_some] at hv
          split at hv
          · rename_i htv
            simp only [Option.some.injEq] at hv
            subst hv
            obtain ⟨cl, x, hcl, hxe, gx⟩ := ih l (by omega) hokl a hl
            obtain ⟨cr, y, hcr, hye, gy⟩ := ih r (by omega) hokr b hr
            have hnl : op.isLogical = false := by
              cases h : op.isLogical <;> simp [h] at hop ⊢
            have hnc : op.isComparison = false := by
              cases h : op.isComparison <;> simp [h] at hop ⊢
            have hk : ¬(l.isConst = true ∧ r.isConst = true) := by
              intro hh; simp [hh.1, hh.2] at hkk
            have hx : if op.isLogical then x.v = a else Rep t l.isConst a x := by
              simp only [hnl, Bool.false_eq_true, if_false]
              exact ⟨gx.val, hta, gx.wf, gx.ty t hlt hta⟩
            have hy : if op.isLogical || WOp.isShift op then (y.v = b ∧ 0 ≤ b) else Rep t r.isConst b y := by
              rw [isShift_eq]
              by_cases hsh : isShiftOp op = true
              · simp only [hsh, Bool.or_true, if_true]; exact ⟨gy.val, hb0⟩
              · have hsh' : isShiftOp op = false := by simpa using hsh
                simp only [hnl, hsh', Bool.or_false, Bool.false_eq_true, if_false]
                have htb' : t.has b := by
                  rcases htb with h | h
                  · exact absurd h hsh
                  · exact h
                refine ⟨gy.val, htb', gy.wf, gy.ty t ?_ htb'⟩
                rcases hrt with (h | h) | h
                · exact Or.inl h
                · exact absurd h hsh
                · exact Or.inr h
            obtain ⟨e0, r0, h1, h2, h3, h4⟩ := lower_correct op t l.isConst r.isConst a b x y hk hx hy hdef
            have hres : resTy op t = ctyOf t := by simp [resTy, hnl, hnc]
            refine ⟨CExpr.subst2 cl cr e0, r0, by rw [lowerN]; simp [h1, hcl, hcr], ?_, ⟨?_, ?_, ?_, ?_⟩⟩
            · rw [ceval_template _ e0 cl cr x y (lowerBin_holes _ _ _ _ _ h1) hxe hye]; exact h2
            · rw [h3, hw2]
            · rw [h4, hres, h3, ← hw2]; exact has_cty _ _ htv
            · intro t2 ht2 _
              simp only [WNum.isConst, Bool.false_eq_true, false_or, WNum.ty?, Option.some.injEq] at ht2
              subst ht2
              rw [h4, hres]
              simp [OpdTy, WNum.isConst]
            · intro t2 ht2
              simp only [WNum.ty?, Option.some.injEq] at ht2
              subst ht2
              rw [h4, hres]
          · simp at hv
      · simp at hv
    | «as» to e =>
      simp only [WNum.as.sizeOf_spec] at hs
      simp only [WNum.ok] at hok
      simp only [wevalN] at hv
      cases he : wevalN S e with
      | none => simp [he] at hv
      | some a =>
        simp only [he, Option.bind_some, wAs] at hv
        split at hv
        · rename_i hto
          simp only [Option.some.injEq] at hv
          subst hv
          obtain ⟨ax, hax, hokx, hwrap⟩ := stripMask_sem S to e a hok he
          have hsz := sizeOf_stripMask to e
          obtain ⟨c, r, hc, hr, g⟩ := ih (stripMask to e) (by omega) hokx ax hax
          refine ⟨.cast (ctyOf to) c, ⟨ctyOf to, a⟩, by rw [lowerN]; simp [cTypeOf_eq, hc], ?_, ⟨rfl, has_cty _ _ hto, ?_, ?_⟩⟩
          · simp only [ceval, hr, Option.bind_some, castTo_cty, g.val, hwrap, wrapU_of_has to a hto]
          · intro t2 ht2 _
            simp only [WNum.isConst, Bool.false_eq_true, false_or, WNum.ty?, Option.some.injEq] at ht2
            subst ht2
            simp [OpdTy, WNum.isConst]
          · intro t2 ht2
            simp only [WNum.ty?, Option.some.injEq] at ht2
            subst ht2
            rfl
        · simp at hv

/-- **exprN_correct.**  Every well-typed numeric expression tree that has a
Wuffs meaning `v` in the store `S` is written as a C expression that evaluates,
without undefined behaviour, to `v` — as a `<v>u` literal for a constant, else
at the C type `cTypeNames[t]` of the tree's Wuffs type. -/
theorem exprN_correct (S : Store) (e : WNum) (hok : e.ok = true) (v : Int) (hv : wevalN S e = some v) :
    ∃ c r, lowerN e = some c ∧ ceval S.toC c = some r ∧ r.v = v ∧
      (∀ t, e.ty? = some t → r.ty = ctyOf t) := by
  obtain ⟨c, r, hc, hr, g⟩ := exprN_correct_aux S (sizeOf e) e (Nat.le_refl _) hok v hv
  exact ⟨c, r, hc, hr, g.val, g.cty⟩

/-! ## Boolean expression trees -/

theorem b2i_01 (b : Bool) : b2i b = 0 ∨ b2i b = 1 := by cases b <;> simp [b2i]

theorem ideal_cmp_01 (op : WOp) (t : WTy) (a b : Int) (h : op.isComparison = true ∨ op.isLogical = true) :
    op.ideal t a b = 0 ∨ op.ideal t a b = 1 := by
  cases op <;> simp [WOp.isComparison, WOp.isLogical] at h <;> simp only [WOp.ideal] <;> exact b2i_01 _

/-- **exprB_correct.**  Every well-typed boolean expression tree (comparisons
of numeric trees, `and`, `or`, `not`) with Wuffs meaning `v` (0 or 1) is
written as a C expression that evaluates, without undefined behaviour, to the
`int` `v`. -/
theorem exprB_correct (S : Store) (e : WBool) : e.ok = true → ∀ v, wevalB S e = some v →
    ∃ c r, lowerB e = some c ∧ ceval S.toC c = some r ∧ r.v = v ∧ r.ty = .int ∧ (v = 0 ∨ v = 1) := by
  induction e with
  | cmp op t l r =>
    intro hok v hv
    simp only [WBool.ok, Bool.and_eq_true, Bool.not_eq_true', Bool.or_eq_true, beq_iff_eq] at hok
    obtain ⟨⟨⟨⟨⟨hop, hkk⟩, hlt⟩, hrt⟩, hokl⟩, hokr⟩ := hok
    simp only [wevalB] at hv
    cases hl : wevalN S l with
    | none => simp [hl] at hv
    | some a =>
    cases hr : wevalN S r with
    | none => simp [hl, hr] at hv
    | some b =>
    simp only [hl, hr] at hv
    split at hv
    · rename_i hc
      simp only [Option.some.injEq] at hv
      subst hv
      obtain ⟨cl, x, hcl, hxe, gx⟩ := exprN_correct_aux S (sizeOf l) l (Nat.le_refl _) hokl a hl
      obtain ⟨cr, y, hcr, hye, gy⟩ := exprN_correct_aux S (sizeOf r) r (Nat.le_refl _) hokr b hr
      have hnl : op.isLogical = false := by cases op <;> simp [WOp.isComparison] at hop <;> rfl
      have hns : WOp.isShift op = false := by cases op <;> simp [WOp.isComparison] at hop <;> rfl
      have hk : ¬(l.isConst = true ∧ r.isConst = true) := by
        intro hh; simp [hh.1, hh.2] at hkk
      have hx : if op.isLogical then x.v = a else Rep t l.isConst a x := by
        simp only [hnl, Bool.false_eq_true, if_false]
        exact ⟨gx.val, hc.1, gx.wf, gx.ty t hlt hc.1⟩
      have hy : if op.isLogical || WOp.isShift op then (y.v = b ∧ 0 ≤ b) else Rep t r.isConst b y := by
        simp only [hnl, hns, Bool.or_false, Bool.false_eq_true, if_false]
        exact ⟨gy.val, hc.2, gy.wf, gy.ty t hrt hc.2⟩
      have hdef : op.defined t a b := by cases op <;> simp [WOp.isComparison] at hop <;> simp [WOp.defined]
      obtain ⟨e0, r0, h1, h2, h3, h4⟩ := lower_correct op t l.isConst r.isConst a b x y hk hx hy hdef
      refine ⟨CExpr.subst2 cl cr e0, r0, by simp [lowerB, h1, hcl, hcr], ?_, h3, ?_, ideal_cmp_01 op t a b (Or.inl hop)⟩
      · rw [ceval_template _ e0 cl cr x y (lowerBin_holes _ _ _ _ _ h1) hxe hye]; exact h2
      · rw [h4]; simp [resTy, hop]
    · simp at hv
  | logic op l r ihl ihr =>
    intro hok v hv
    simp only [WBool.ok, Bool.and_eq_true] at hok
    obtain ⟨⟨hop, hokl⟩, hokr⟩ := hok
    simp only [wevalB] at hv
    cases hl : wevalB S l with
    | none => simp [hl] at hv
    | some a =>
    cases hr : wevalB S r with
    | none => simp [hl, hr] at hv
    | some b =>
    simp only [hl, hr, Option.some.injEq] at hv
    subst hv
    obtain ⟨cl, x, hcl, hxe, hxv, _, _⟩ := ihl hokl a hl
    obtain ⟨cr, y, hcr, hye, hyv, _, hb01⟩ := ihr hokr b hr
    have hx : if op.isLogical then x.v = a else Rep .u8 false a x := by simp only [hop, if_true]; exact hxv
    have hy : if op.isLogical || WOp.isShift op then (y.v = b ∧ 0 ≤ b) else Rep .u8 false b y := by
      simp only [hop, Bool.true_or, if_true]
      exact ⟨hyv, by rcases hb01 with h | h <;> omega⟩
    have hdef : op.defined .u8 a b := by cases op <;> simp [WOp.isLogical] at hop <;> simp [WOp.defined]
    obtain ⟨e0, r0, h1, h2, h3, h4⟩ := lower_correct op .u8 false false a b x y (by simp) hx hy hdef
    refine ⟨CExpr.subst2 cl cr e0, r0, by simp [lowerB, h1, hcl, hcr], ?_, h3, ?_, ideal_cmp_01 op .u8 a b (Or.inr hop)⟩
    · rw [ceval_template _ e0 cl cr x y (lowerBin_holes _ _ _ _ _ h1) hxe hye]; exact h2
    · rw [h4]; simp [resTy, hop]
  | not e ih =>
    intro hok v hv
    simp only [WBool.ok] at hok
    simp only [wevalB] at hv
    cases he : wevalB S e with
    | none => simp [he] at hv
    | some a =>
      simp only [he, Option.map_some, Option.some.injEq] at hv
      subst hv
      obtain ⟨c, x, hc, hxe, hxv, _, _⟩ := ih hok a he
      refine ⟨.un .lnot c, ⟨.int, b2i (a == 0)⟩, ?_, ?_, rfl, rfl, b2i_01 _⟩
      · simp [lowerB, lowerUn, cUnOf, hc, CExpr.subst2]
      · simp [ceval, hxe, evalUn, boolResult, hxv]

/-! ## Non-vacuity -/

/-- `((x ~mod* y) + 7) as base.u32` over u16 x, y — the tree that contains the
repaired `~mod*` node: at x = y = 65535 the inner product is 1, the sum 8 -/
def demoTree : WNum := .as .u32 (.bin .add .u16 (.bin .modMul .u16 (.var 0 .u16) (.var 1 .u16)) (.const 7))

def demoStore : Store := fun i => if i < 2 then some (.u16, 65535) else none

theorem demoTree_ok : demoTree.ok = true := by decide
theorem demoTree_val : wevalN demoStore demoTree = some 8 := by decide
/-- the emitted text: `((uint32_t)(((uint16_t)(((uint16_t)(((uint32_t)(x)) * y)) + 7u))))` -/
example : lowerN demoTree =
    some (.cast .u32 (.cast .u16 (.bin .add (.cast .u16 (.bin .mul (.cast .u32 (.hole 0)) (.hole 1))) (.lit 7)))) := by
  simp [demoTree, lowerN, stripMask, lowerBin, cBinOf, cTypeOf, WTy.isSmall, WOp.isComparison, WOp.isLogical,
    WNum.isConst, CExpr.subst2]
example : ∃ c, lowerN demoTree = some c ∧ ceval demoStore.toC c = some ⟨.u32, 8⟩ := by
  obtain ⟨c, r, hc, hr, hv, ht⟩ := exprN_correct demoStore demoTree demoTree_ok 8 demoTree_val
  refine ⟨c, hc, ?_⟩
  have := ht .u32 rfl
  rw [hr]; congr 1
  cases r; simp_all [ctyOf]

end WuffsVerif.Props.C04
