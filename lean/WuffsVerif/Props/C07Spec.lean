/-
C07 part 5: statements about the decoders that are NOT proved in this effort (kept visible, as comments),
and what stands in for them.

The specification decoders (`Model/Flate/Spec.lean` by the C16 builder: RFC 1951/1950; `Model/StdSpecGzip.lean`:
RFC 1952; `Model/StdSpecLzw.lean`: GIF-flavour LZW) are total, deterministic Lean functions by construction
(structural recursion on fuel), so `inflate_total` / `inflate_deterministic` need no separate proof.

-- `wuffs_deflate_refines_spec` is no longer only a comment: see Props/C07Deflate.lean
--   (`wuffs_deflate_refines_spec_partial`, `wuffs_deflate_stored_fixed`: the mirror of std/deflate's slow path returns
--   what the RFC 1951 specification decoder returns, unconditionally for stored and fixed-Huffman blocks, modulo the
--   stated obligation `DynRefines` for dynamic blocks).  Still sampled only: the fast paths, suspension across
--   transform_io calls, and:
-- OPEN: theorem wuffs_lzw_refines_spec, wuffs_gzip_refines_spec, wuffs_zlib_refines_spec (the wrappers and LZW:
--   three-way differential of harness/cmd/c07 only).
-- OPEN: theorem lzw_roundtrip : ∀ lw data, 2 ≤ lw → lw ≤ 8 → (∀ b ∈ data, b.toNat < 2 ^ lw) →
--     StdSpec.Lzw.decode lw (StdSpec.Lzw.encode lw data).toArray = (.ok, data.toArray, _)
--   (the literal-only reference encoder; checked on every generated LZW payload by the driver op `lzwenc` +
--   `dec lzw`, not proved).
-/
namespace WuffsVerif.Props.C07
end WuffsVerif.Props.C07
