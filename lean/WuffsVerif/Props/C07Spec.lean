/-
C07 part 5: statements about the decoders that are NOT proved in this effort (kept visible, as comments),
and what stands in for them.

The specification decoders (`Model/Flate/Spec.lean` by the C16 builder: RFC 1951/1950; `Model/StdSpecGzip.lean`:
RFC 1952; `Model/StdSpecLzw.lean`: GIF-flavour LZW) are total, deterministic Lean functions by construction
(structural recursion on fuel), so `inflate_total` / `inflate_deterministic` need no separate proof.

-- OPEN: theorem wuffs_deflate_refines_spec :
--   ∀ (s : List UInt8) (out : List UInt8),
--     (std/deflate decoder.transform_io, as generated C, on source s, any chunking) ends `ok` with output out
--       ↔ Flate.Spec.inflate s.toArray = some (out.toArray, _)
--   Not expected to be proved here: it needs the semantics of the whole std/deflate program (fast paths,
--   history ring buffer, suspension).  The tie is the three-way differential of harness/cmd/c07
--   (payload → Go encoder → Wuffs C decoder ≡ Lean spec decoder ≡ payload), sampled.
-- OPEN: theorem wuffs_lzw_refines_spec, wuffs_gzip_refines_spec, wuffs_zlib_refines_spec : likewise.
-- OPEN: theorem lzw_roundtrip : ∀ lw data, 2 ≤ lw → lw ≤ 8 → (∀ b ∈ data, b.toNat < 2 ^ lw) →
--     StdSpec.Lzw.decode lw (StdSpec.Lzw.encode lw data).toArray = (.ok, data.toArray, _)
--   (the literal-only reference encoder; checked on every generated LZW payload by the driver op `lzwenc` +
--   `dec lzw`, not proved).
-/
namespace WuffsVerif.Props.C07
end WuffsVerif.Props.C07
