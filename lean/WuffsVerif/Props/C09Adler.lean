/-
C09 (part: CPU-specific paths) — the chunked u32 Adler-32 loop of std/adler32 computes RFC 1950's
Adler-32 for ALL inputs, for every chunk size up to 5552 (zlib's NMAX): inside a chunk neither u32
accumulator can wrap.  The chunk sizes actually used by `up`, `up_x86_sse42` and `up_arm_neon` are
regenerated from the sources (`Gen/C09_AdlerChunks.lean`) and must satisfy the bound.
-/
import WuffsVerif.Model.Adler32Up
import WuffsVerif.Gen.C09_AdlerChunks

namespace WuffsVerif.Props.C09
open WuffsVerif.Adler32Up WuffsVerif.HashSpec

/-- triangular numbers, recursively (keeps the quadratic bound linear for `omega`) -/
def tri : Nat → Nat
  | 0 => 0
  | k + 1 => tri k + (k + 1)

theorem tri_mono (k : Nat) : ∀ n, k ≤ n → tri k ≤ tri n := by
  intro n h
  induction n with
  | zero => have : k = 0 := by omega
            subst this; exact Nat.le_refl _
  | succ m ih =>
    by_cases hk : k = m + 1
    · subst hk; exact Nat.le_refl _
    · have := ih (by omega)
      simp only [tri]
      omega

theorem tri_5552 : tri 5552 = 15415128 := by decide +kernel

/-- the inner loop without wrap-around -/
def exactStep (st : Nat × Nat) (b : UInt8) : Nat × Nat := (st.1 + b.toNat, st.2 + (st.1 + b.toNat))

/-- growth of the exact sums over `bs` -/
theorem exact_bound (bs : List UInt8) : ∀ (st : Nat × Nat) (k : Nat),
    st.1 ≤ 65520 + 255 * k → st.2 ≤ 65520 + 65520 * k + 255 * tri k →
    (bs.foldl exactStep st).1 ≤ 65520 + 255 * (k + bs.length) ∧
    (bs.foldl exactStep st).2 ≤ 65520 + 65520 * (k + bs.length) + 255 * tri (k + bs.length) := by
  induction bs with
  | nil => intro st k h1 h2; exact ⟨by simpa using h1, by simpa using h2⟩
  | cons b rest ih =>
    intro st k h1 h2
    have hb : b.toNat ≤ 255 := by have := b.toNat_lt; omega
    simp only [List.foldl_cons, List.length_cons]
    have := ih (exactStep st b) (k + 1) (by simp only [exactStep]; omega)
      (by simp only [exactStep, tri]; omega)
    rw [show k + 1 + rest.length = k + (rest.length + 1) by omega] at this
    exact this

/-- while the exact sums stay below 2^32 the u32 loop computes them -/
theorem inner_exact (bs : List UInt8) : ∀ (st : Nat × Nat) (k : Nat), k + bs.length ≤ 5552 →
    st.1 ≤ 65520 + 255 * k → st.2 ≤ 65520 + 65520 * k + 255 * tri k →
    bs.foldl innerStep st = bs.foldl exactStep st := by
  induction bs with
  | nil => intro st k _ _ _; rfl
  | cons b rest ih =>
    intro st k hk h1 h2
    have hb : b.toNat ≤ 255 := by have := b.toNat_lt; omega
    have ht := tri_mono (k + 1) 5552 (by simp only [List.length_cons] at hk; omega)
    have hk1 : tri (k + 1) = tri k + (k + 1) := rfl
    rw [hk1] at ht
    have h5 := tri_5552
    simp only [List.length_cons] at hk
    simp only [List.foldl_cons]
    have hstep : innerStep st b = exactStep st b := by
      simp only [innerStep, exactStep, W]
      have e1 : (st.1 + b.toNat) % 4294967296 = st.1 + b.toNat := Nat.mod_eq_of_lt (by omega)
      rw [e1]
      have e2 : (st.2 + (st.1 + b.toNat)) % 4294967296 = st.2 + (st.1 + b.toNat) := Nat.mod_eq_of_lt (by omega)
      rw [e2]
    rw [hstep]
    exact ih (exactStep st b) (k + 1) (by omega) (by simp only [exactStep]; omega)
      (by simp only [exactStep, tri]; omega)

/-- reducing at the end of a chunk = reducing after every byte -/
theorem exact_mod (bs : List UInt8) : ∀ (a b : Nat × Nat), a.1 % 65521 = b.1 % 65521 → a.2 % 65521 = b.2 % 65521 →
    (bs.foldl exactStep a).1 % 65521 = (bs.foldl adler32Step b).1 % 65521 ∧
    (bs.foldl exactStep a).2 % 65521 = (bs.foldl adler32Step b).2 % 65521 := by
  induction bs with
  | nil => intro a b h1 h2; exact ⟨h1, h2⟩
  | cons x rest ih =>
    intro a b h1 h2
    simp only [List.foldl_cons]
    apply ih
    · simp only [exactStep, adler32Step]; omega
    · simp only [exactStep, adler32Step]; omega

theorem spec_reduced (bs : List UInt8) : ∀ (b : Nat × Nat), b.1 < 65521 → b.2 < 65521 →
    (bs.foldl adler32Step b).1 < 65521 ∧ (bs.foldl adler32Step b).2 < 65521 := by
  induction bs with
  | nil => intro b h1 h2; exact ⟨h1, h2⟩
  | cons x rest ih =>
    intro b _ _
    simp only [List.foldl_cons]
    apply ih
    · simp only [adler32Step]; omega
    · simp only [adler32Step]; omega

/-- one chunk of at most 5552 bytes, from a reduced state: exactly the specification's fold -/
theorem upChunk_spec (st : Nat × Nat) (chunk : List UInt8) (hl : chunk.length ≤ 5552)
    (h1 : st.1 < 65521) (h2 : st.2 < 65521) : upChunk st chunk = chunk.foldl adler32Step st := by
  unfold upChunk
  simp only
  rw [inner_exact chunk st 0 (by omega) (by omega) (by simp only [tri]; omega)]
  have hm := exact_mod chunk st st rfl rfl
  have hr := spec_reduced chunk st h1 h2
  have e1 : (chunk.foldl adler32Step st).1 % 65521 = (chunk.foldl adler32Step st).1 := Nat.mod_eq_of_lt hr.1
  have e2 : (chunk.foldl adler32Step st).2 % 65521 = (chunk.foldl adler32Step st).2 := Nat.mod_eq_of_lt hr.2
  rw [hm.1, hm.2, e1, e2]

/-- `adler32_up_spec`: the chunked u32 loop equals the per-byte-reduced specification for EVERY
input, every reduced starting state and every chunk size 1..5552. -/
theorem up_spec (c : Nat) (hc0 : 0 < c) (hc : c ≤ 5552) : ∀ (fuel : Nat) (st : Nat × Nat) (bs : List UInt8),
    bs.length ≤ fuel → st.1 < 65521 → st.2 < 65521 → up c fuel st bs = bs.foldl adler32Step st := by
  intro fuel
  induction fuel with
  | zero =>
    intro st bs hl _ _
    have : bs = [] := List.eq_nil_of_length_eq_zero (by omega)
    subst this; rfl
  | succ f ih =>
    intro st bs hl h1 h2
    unfold up
    cases bs with
    | nil => rfl
    | cons x rest =>
      simp only [List.isEmpty_cons, Bool.false_eq_true, ↓reduceIte]
      have htake : ((x :: rest).take c).length ≤ 5552 := by
        rw [List.length_take]; omega
      rw [upChunk_spec st _ htake h1 h2]
      have hr := spec_reduced ((x :: rest).take c) st h1 h2
      rw [ih _ ((x :: rest).drop c) (by rw [List.length_drop]; simp only [List.length_cons] at hl ⊢; omega) hr.1 hr.2,
        ← List.foldl_append, List.take_append_drop]

/-- the whole hash of a fresh hasher = RFC 1950 Adler-32 -/
theorem hash_spec (c : Nat) (hc0 : 0 < c) (hc : c ≤ 5552) (bs : List UInt8) : Adler32Up.hash c bs = adler32 bs := by
  unfold Adler32Up.hash adler32
  simp only
  rw [up_spec c hc0 hc bs.length (1, 0) bs (Nat.le_refl _) (by decide) (by decide)]

open WuffsVerif.Gen.C09 in
/-- Every chunk size found in std/adler32 (portable `up`, `up_x86_sse42`, `up_arm_neon`; regenerated
from the sources) is within the bound, … -/
theorem std_adler_chunks_within_nmax : adlerChunks.all (fun c => decide (0 < c.2 ∧ c.2 ≤ 5552)) = true := by
  decide

open WuffsVerif.Gen.C09 in
/-- … so with each of them the chunked loop structure computes Adler-32 for all inputs (for the
SIMD twins: provided their vectorised inner loop computes the same chunk sums — execution only). -/
theorem std_adler_chunked_loops_spec (bs : List UInt8) : ∀ c ∈ adlerChunks, Adler32Up.hash c.2 bs = adler32 bs := by
  intro c hcm
  have := List.all_eq_true.mp std_adler_chunks_within_nmax c hcm
  simp only [decide_eq_true_eq] at this
  exact hash_spec c.2 this.1 this.2 bs

/-- 5552 is sharp: with 5553 bytes of 0xFF from the worst reduced state the exact s2 exceeds u32. -/
theorem nmax_is_sharp : 65520 + 65520 * 5553 + 255 * tri 5553 ≥ W := by
  have : tri 5553 = tri 5552 + 5553 := rfl
  rw [this, tri_5552]
  decide

end WuffsVerif.Props.C09
