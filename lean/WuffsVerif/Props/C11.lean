/-
C11 — the toolchain never crashes or hangs, whatever source text it is given.

Property theorems over `Model/Token.lean` (mirror of /repo/lang/token/token.go, tables
regenerated into `Gen/C11_Tables.lean`) and `Model/Parse.lean` (mirror of
/repo/lang/parse/parse.go).  A Lean function is total by construction, so the content here is
*progress and resource bounds of the algorithm*: the loop always advances, it never re-reads
input, the number of tokens / map entries / lines is bounded by the input size, every token
spelling is at most `maxTokenSize` bytes, recursion depth is bounded.  The Go run-time facts
(nil dereference, stack overflow, hang) are exhibited by the differential check only.
Helper lemmas: `Proof/TokenLemmas.lean`, `Proof/Parse*Lemmas.lean` (progress),
`Proof/ParseWf*.lean` (well-formedness of the ASTs).
-/
import WuffsVerif.Proof.TokenLemmas
import WuffsVerif.Proof.ParseTopLemmas
import WuffsVerif.Proof.ParseWfTop
import WuffsVerif.Proof.ParseHeightTop

namespace WuffsVerif.Props.C11
open WuffsVerif.Token WuffsVerif.Gen.C11

/-- Loop invariant of `Tokenize` at index `i`. -/
structure Inv (src : ByteArray) (i : Nat) (st : St) : Prop where
  idx : i ≤ src.size
  toks : st.toks.size ≤ i
  iters : st.iters ≤ i
  names : ∀ s ∈ st.m.byID.toList, 0 < s.length ∧ s.length ≤ maxTokenSize
  nnames : st.m.byID.size ≤ st.toks.size
  line1 : 1 ≤ st.line
  lineMax : st.line ≤ maxLine
  lineIdx : st.line ≤ i + 1
  tokLines : ∀ t ∈ st.toks.toList, 1 ≤ t.line ∧ t.line ≤ st.line

theorem inv_init (src : ByteArray) : Inv src 0 {} := by
  refine ⟨by omega, by simp, by simp, by simp, by simp, by simp, by simp [maxLine], by simp, by simp⟩

theorem inv_step (src : ByteArray) (i : Nat) (st : St) (j : Nat) (st' : St)
    (hinv : Inv src i st) (hadv : Adv src i st j st') :
    Inv src j { st' with iters := st'.iters + 1 } := by
  obtain ⟨hlt, hle, htoks, hnames, hline, hiters⟩ := hadv
  have hsz : st'.toks.size ≤ st.toks.size + 1 := by
    rcases htoks with h | ⟨t, h, _⟩ <;> simp [h]
  have hln : st.line ≤ st'.line ∧ st'.line ≤ st.line + 1 := by
    rcases hline with h | ⟨h, _⟩ <;> omega
  refine ⟨hle, ?_, ?_, ?_, ?_, ?_, ?_, ?_, ?_⟩
  · have := hinv.toks; simp only; omega
  · have := hinv.iters; simp only; omega
  · intro s hs
    simp only at hs
    rcases hnames with h | ⟨s', h, h0, h1, _⟩
    · rw [h] at hs; exact hinv.names s hs
    · rw [h] at hs
      simp only [Array.toList_push, List.mem_append, List.mem_singleton] at hs
      rcases hs with hs | hs
      · exact hinv.names s hs
      · subst hs; exact ⟨h0, h1⟩
  · simp only
    have := hinv.nnames
    rcases hnames with h | ⟨s', h, _, _, hsz'⟩
    · rw [h]
      rcases htoks with h' | ⟨t, h', _⟩ <;> simp [h'] <;> omega
    · rw [h]; simp; omega
  · have := hinv.line1; simp only; omega
  · simp only
    rcases hline with h | ⟨h, hne⟩
    · rw [h]; exact hinv.lineMax
    · have := hinv.lineMax; omega
  · have := hinv.lineIdx; simp only; omega
  · intro t ht
    simp only at ht ⊢
    rcases htoks with h | ⟨t', h, htl⟩
    · rw [h] at ht
      have := hinv.tokLines t ht; omega
    · rw [h] at ht
      simp only [Array.toList_push, List.mem_append, List.mem_singleton] at ht
      rcases ht with ht | ht
      · have := hinv.tokLines t ht; omega
      · subst ht; have := hinv.line1; omega

/-- Main induction: from any state satisfying the invariant the loop either reports an
ordinary tokenizer error (never `stuck`) or ends in a state satisfying the invariant at
`src.size`. -/
theorem loop_spec (src : ByteArray) (i : Nat) (st : St) (hinv : Inv src i st) :
    (∀ f, loop src i st = .error f → f.err ≠ .stuck ∧ 1 ≤ f.line ∧ f.line ≤ maxLine) ∧
    (∀ st', loop src i st = .ok st' → Inv src src.size st') := by
  fun_induction loop src i st with
  | case1 i st hi e hstep =>
    constructor
    · intro f hf
      simp at hf
      subst hf
      refine ⟨?_, hinv.line1, hinv.lineMax⟩
      -- `step` itself never produces `stuck`
      intro hstuck
      simp only at hstuck
      subst hstuck
      exact absurd hstep (step_ne_stuck src i st)
    · intro st' h; simp at h
  | case2 i st hi j st1 hstep hlt ih =>
    exact ih (inv_step src i st j st1 hinv (step_adv src i st j st1 hi hstep))
  | case3 i st hi j st1 hstep hnlt =>
    exact absurd (step_adv src i st j st1 hi hstep).lt hnlt
  | case4 i st hi =>
    constructor
    · intro f hf; simp at hf
    · intro st' h
      simp at h
      subst h
      have : i = src.size := by have := hinv.idx; omega
      subst this; exact hinv

/-! ## The tokenizer theorems -/

/-- **Progress.**  `Tokenize` never fails to advance: the only results are a token list or one
of token.go's ordinary errors (`stuck` is the model's marker for "an iteration did not move
`i` forward", i.e. an endless loop in the Go code), and an error is reported at a line in
`[1, maxLine]`. -/
theorem tokenize_never_stuck (src : ByteArray) (f : Failure) (h : tokenize src = .error f) :
    f.err ≠ .stuck ∧ 1 ≤ f.line ∧ f.line ≤ maxLine :=
  (loop_spec src 0 {} (inv_init src)).1 f h

/-- **Linear size and work.**  On success: at most one token per input byte (implicit
semicolons included), at most one loop iteration per input byte (each iteration consumes the
bytes it scanned, nothing is read twice), at most one map entry per token. -/
theorem tokenize_total_linear (src : ByteArray) (st : St) (h : tokenize src = .ok st) :
    st.toks.size ≤ src.size ∧ st.iters ≤ src.size ∧ st.m.byID.size ≤ st.toks.size := by
  have := (loop_spec src 0 {} (inv_init src)).2 st h
  exact ⟨this.toks, this.iters, this.nnames⟩

/-- **Token size.**  Every spelling entered in the map is non-empty and at most
`maxTokenSize` (1023) bytes long. -/
theorem tokenize_token_size (src : ByteArray) (st : St) (h : tokenize src = .ok st) :
    ∀ s ∈ st.m.byID.toList, 0 < s.length ∧ s.length ≤ maxTokenSize :=
  ((loop_spec src 0 {} (inv_init src)).2 st h).names

/-- **IDs stay below `maxID`-many user tokens**: the number of distinct user tokens is at most
the input size (so the `too many distinct tokens` error needs > 1 MiB of input). -/
theorem tokenize_names_le_bytes (src : ByteArray) (st : St) (h : tokenize src = .ok st) :
    st.m.byID.size ≤ src.size := by
  have := tokenize_total_linear src st h; omega

/-- **Lines.**  Line numbers start at 1, never exceed `maxLine` nor (bytes + 1), and every
token carries a line in `[1, final line]`. -/
theorem tokenize_lines (src : ByteArray) (st : St) (h : tokenize src = .ok st) :
    1 ≤ st.line ∧ st.line ≤ maxLine ∧ st.line ≤ src.size + 1 ∧
      ∀ t ∈ st.toks.toList, 1 ≤ t.line ∧ t.line ≤ st.line := by
  have := (loop_spec src 0 {} (inv_init src)).2 st h
  exact ⟨this.line1, this.lineMax, this.lineIdx, this.tokLines⟩

/-- non-vacuity: the empty source tokenizes (to nothing). -/
example : tokenize ByteArray.empty = .ok {} := by
  unfold tokenize; rw [loop]; simp

/-- non-vacuity: a source of one space takes one iteration and yields no token. -/
example : ∃ st, tokenize ⟨#[32]⟩ = .ok st ∧ st.iters = 1 ∧ st.toks.size = 0 := by
  refine ⟨{ iters := 1 }, ?_, rfl, rfl⟩
  unfold tokenize
  rw [loop]
  simp [step, stepSpace, ByteArray.size, ByteArray.get!]
  rw [loop]
  simp [ByteArray.size]

/-! ## The parser theorems

`Model/Parse.lean` mirrors lang/parse/parse.go *with the C11 repairs* (depth limits).  Its two
recursion cycles are defined by well-founded recursion on `8 * (e + t + b) + rank` and
`16 * b + rank`, where `e t b` are what is left of `MaxExprDepth + 1`, `MaxTypeExprDepth + 1`,
`MaxBodyDepth + 1`; Lean's termination checker accepting these definitions *is* the proof that
every cycle of parser calls passes a depth guard, i.e. that the recursion depth is at most
`8 * (256 + 64 + 256) + 7` resp. `16 * 256 + 15` nested calls for every input. -/

open WuffsVerif.Parse in
/-- **parse_terminates.**  For every token list and option set the model of `parse.Parse`
returns an AST or an ordinary error; it never reports `stuck`, the marker for "a loop of the
parser (`parseList`, the operand / associative-operator loops, the statement loop, the file
loop) made an iteration without consuming a token".  Together with the termination proofs of
the definitions this is termination with linear progress: no hang on any input. -/
theorem parse_terminates (env : Env) (toks : List Tok) : parseFile env toks ≠ .error .stuck :=
  parseFile_ne_stuck env toks

open WuffsVerif.Parse in
/-- `failHere` fails with an ordinary `parse: … at file:line` error. -/
theorem failHere_run {α : Type} (s : PState) :
    ∃ l, (failHere : P α).run s = .error (.at l) := by
  unfold failHere curLine
  cases h : s.src <;> simp [StateT.run, bind, StateT.bind, get, getThe, MonadStateOf.get, StateT.get,
    pure, StateT.pure, Except.bind, Except.pure, throw, throwThe, MonadExceptOf.throw, StateT.lift, h]

open WuffsVerif.Parse in
/-- **parse_depth_bounded (guards).**  With an exhausted depth budget each guarded function
fails at once with an ordinary `parse: … recursion depth too large at file:line` error: the
model-level statement of "bounded stack instead of stack overflow". -/
theorem parse_depth_bounded (env : Env) (e t b : Nat) (dc : Bool) (s : PState) :
    (∃ l, (pExpr env 0 t b).run s = .error (.at l)) ∧
    (∃ l, (pTypeExpr env e 0 b).run s = .error (.at l)) ∧
    (∃ l, (pBlock env e t 0 dc).run s = .error (.at l)) := by
  refine ⟨?_, ?_, ?_⟩
  · unfold pExpr; exact failHere_run s
  · unfold pTypeExpr; exact failHere_run s
  · unfold pBlock; exact failHere_run s

open WuffsVerif.Parse in
/-- The budgets `parse.Parse` starts with are the ast package's constants (+1: the Go guard is
`depth > Max`), so the parser's recursion depth is bounded by constants, independent of the
input. -/
theorem parse_depth_budget :
    MaxExprDepth + 1 = 256 ∧ MaxTypeExprDepth + 1 = 64 ∧ MaxBodyDepth + 1 = 256 ∧
    8 * ((MaxExprDepth + 1) + (MaxTypeExprDepth + 1) + (MaxBodyDepth + 1)) + 7 = 4615 := by
  decide

open WuffsVerif.Parse in
/-- **Progress of every parser function**: for all depth budgets, running any function of the
expression cycle or the statement cycle from any state never grows the remaining-token list
and never gets `stuck`; a top-level declaration consumes at least one token. -/
theorem parse_progress (env : Env) (e t b : Nat) :
    CoreGood env e t b ∧ StmtGood env e t b ∧ Good1 (parseTopLevelDecl env e t b) :=
  ⟨core_good env _ e t b rfl, stmt_good env e t b, good1_parseTopLevelDecl env e t b⟩

open WuffsVerif.Parse in
/-- **parse_no_stuck_operand.**  The model-level statement of "no nil dereference later": every
AST that the model of `parse.Parse` returns, for every token list and option set, is
well-formed (`Parse.wf`, `Proof/ParseWfDefs.lean`): at every node of the tree the children that
its kind requires are present — an argument has its value, an assertion / `if` / `while` its
condition, an assignment its right-hand side (and, unless it is a bare `expr` statement, its
left-hand side), a `const` its type and value, a field / `var` its type, a `func` its `args`
struct, an `io_bind` / `io_limit` their `io`, `data` / `limit`, `history_position` arguments,
a `return` / `yield` its value, an `iterate` its `unroll` count and only assignments
`variable = expr`; an `Expr` node has the operands of its operator (leaf; call, selector and
slice: the receiver; index: receiver and index; unary X-form: the operand; binary X-form: both;
associative X-form: at least two; no other operator occurs); a `TypeExpr` the inner type
(and, for arrays, the length) its decorator requires — and no child list has a nil entry.
These are exactly the children that lang/ast's typed accessors and their users in lang/check
and internal/cgen dereference without a nil check. -/
theorem parse_no_stuck_operand (env : Env) (toks : List Tok) (file : Node)
    (h : parseFile env toks = .ok file) : wf file = true :=
  parseFile_wf env toks file h

open WuffsVerif.Parse in
/-- The same for every function of the expression cycle (`pExpr` is the public entry point
`parse.ParseExpr`) and of the statement cycle, at every depth budget, and for a top-level
declaration: whatever they return is present and well-formed. -/
theorem parse_no_stuck_operand_parts (env : Env) (e t b : Nat) :
    CoreWf env e t b ∧ StmtWf env e t b ∧ Post (parseTopLevelDecl env e t b) WfN :=
  ⟨core_wf env _ e t b rfl, stmt_wf env e t b, post_parseTopLevelDecl env e t b⟩

open WuffsVerif.Parse in
/-- The construct that crashed the real parser: every assignment that `parseIterateAssignNode`
returns has a left-hand side, it is a plain variable, and the operator is `=` — so
`iterate (x)(…)` is an error, not a node with a nil child.  (Corollary of the lemma used for
`parse_no_stuck_operand`; formerly `parse_no_stuck_operand_partial`.) -/
theorem parse_iterate_assign_has_lhs (env : Env) (pe : P Node) (hpe : Post pe WfN)
    (s s' : PState) (n : Node) (h : (parseIterateAssignNode env pe).run s = .ok (n, s')) :
    n.lhs.isNil = false ∧ n.id0 = IDEq ∧ n.lhs.id0 = 0 ∧ n.kind = KAssign := by
  have := (post_parseIterateAssignNode env pe hpe).post s n s' h
  simp [iterAssignOK] at this
  exact ⟨this.2.1.1.2, this.2.2, this.2.1.2, this.2.1.1.1⟩

open WuffsVerif.Parse in
/-- **parse_postfix_chain_bounded.**  The chain of calls, indexes, slices and selectors that
`parseOperand` hangs on an identifier — built by a loop, so not covered by the recursion
guards, and as deep a left spine as it is long — has at most `MaxExprDepth + 1` = 256 links,
whatever the input (the model-level statement of the repair
fixes/C11-parse-postfix-chain-depth.patch: a few MB of `.x.x.x…` overflowed the stack in the
recursive passes over the expression). -/
theorem parse_postfix_chain_bounded (env : Env) (pe : P Node) (id : Nat) :
    Post (operandAll env pe (newExpr 0 0 id .nil .nil .nil []))
      (fun n => spine n ≤ MaxExprDepth + 1) := by
  have h := post_operandAll_spine env pe (newExpr 0 0 id .nil .nil .nil [])
  exact post_mono h (fun n hn => by
    simpa [spine, newExpr, KExpr, IDOpenParen, IDOpenBracket, IDDotDot, IDDot] using hn)

open WuffsVerif.Parse in
/-- **parse_height_bounded.**  Every AST that the model of `parse.Parse` returns, for every
token list and option set, is at most `260 * (256 + 64 + 256) + 4 = 149 764` nodes high
(`Parse.height`: nodes on the longest root-to-leaf path, through `lhs/mhs/rhs` and the three
child lists).  So every recursive pass over the parser's output — `ast.Node.Walk`, `Expr.Str`,
lang/check, internal/cgen — recurses to a depth that is bounded by a constant, whatever the
input: the model-level statement of "no stack overflow after parsing" (both C11 parser repairs
are needed for it: the recursion guards bound the number of `parseExpr` / `parseTypeExpr` /
`parseBlock` passes on a path, the chain guard bounds what is stacked between two of them). -/
theorem parse_height_bounded (env : Env) (toks : List Tok) (file : Node)
    (h : parseFile env toks = .ok file) : height file ≤ 149764 :=
  parseFile_height env toks file h

open WuffsVerif.Parse in
/-- The per-function bounds behind it, at every depth budget (`s = e + t + b`): expressions,
type expressions ≤ `260 s`, operands ≤ `260 s + 257`, blocks ≤ `260 s`, statements ≤ `260 s + 5`,
declarations ≤ `260 s + 3`. -/
theorem parse_height_bounded_parts (env : Env) (e t b : Nat) :
    CoreH env e t b ∧ StmtH env e t b ∧
      Post (parseTopLevelDecl env e t b) (fun n => height n ≤ LINK * (e + t + b) + 3) :=
  ⟨core_h env _ e t b rfl, stmt_h env e t b, hpost_parseTopLevelDecl env e t b⟩

open WuffsVerif.Parse in
/-- non-vacuity: `height` of `a.b[c]` is 3 (index node, selector node, leaf). -/
example : height (newExpr 0 IDOpenBracket 0 (newExpr 0 IDDot 1025 (newExpr 0 0 1024 .nil .nil .nil [])
    .nil .nil []) .nil (newExpr 0 0 1026 .nil .nil .nil []) []) = 3 := by decide

open WuffsVerif.Parse in
/-- non-vacuity: `spine` counts the links of `a.b[c]`. -/
example : spine (newExpr 0 IDOpenBracket 0 (newExpr 0 IDDot 1025 (newExpr 0 0 1024 .nil .nil .nil [])
    .nil .nil []) .nil (newExpr 0 0 1026 .nil .nil .nil []) []) = 2 := by decide

open WuffsVerif.Parse in
/-- non-vacuity of `wf`: it does reject the tree the unrepaired parser built for
`iterate (x)(length: 1, advance: 1, unroll: 1) {}` (an `iterate` whose assignment has no
left-hand side) … -/
example : wf (.mk KIterate 0 0 0 0 0 (newExpr 0 0 1 .nil .nil .nil []) .nil .nil
    [newAssign IDEq .nil (newExpr 0 0 1024 .nil .nil .nil [])] [] []) = false := by
  decide

open WuffsVerif.Parse in
/-- … and a binary expression without its right operand, an index without its index. -/
example : wf (newExpr 0 (binaryForm IDPlus) 0 (newExpr 0 0 1024 .nil .nil .nil []) .nil .nil []) = false ∧
    wf (newExpr 0 IDOpenBracket 0 (newExpr 0 0 1024 .nil .nil .nil []) .nil .nil []) = false ∧
    wf (newExpr 0 (binaryForm IDPlus) 0 (newExpr 0 0 1024 .nil .nil .nil []) .nil
      (newExpr 0 0 1025 .nil .nil .nil []) []) = true := by
  decide +kernel

open WuffsVerif.Parse in
/-- **Model constants = lang/ast constants** (regenerated into `Gen/C11_Tables.lean` on every
run): node kinds, flags, effects and the three depth limits / `MaxImplements`. -/
theorem ast_constants_agree :
    KArg = astKArg ∧ KAssert = astKAssert ∧ KAssign = astKAssign ∧ KChoose = astKChoose ∧
    KConst = astKConst ∧ KExpr = astKExpr ∧ KField = astKField ∧ KFile = astKFile ∧
    KFunc = astKFunc ∧ KIOManip = astKIOManip ∧ KIf = astKIf ∧ KIterate = astKIterate ∧
    KJump = astKJump ∧ KRet = astKRet ∧ KStatus = astKStatus ∧ KStruct = astKStruct ∧
    KTypeExpr = astKTypeExpr ∧ KUse = astKUse ∧ KVar = astKVar ∧ KWhile = astKWhile ∧
    FlagsPublic = astFlagsPublic ∧ FlagsHasBreak = astFlagsHasBreak ∧
    FlagsHasContinue = astFlagsHasContinue ∧ FlagsHasDeepBreak = astFlagsHasDeepBreak ∧
    FlagsHasDeepContinue = astFlagsHasDeepContinue ∧ FlagsClassy = astFlagsClassy ∧
    FlagsSubExprHasEffect = astFlagsSubExprHasEffect ∧ FlagsPrivateData = astFlagsPrivateData ∧
    FlagsChoosy = astFlagsChoosy ∧ FlagsHasChooseCPUArch = astFlagsHasChooseCPUArch ∧
    EffectImpure = astEffectImpure ∧ EffectImpureCoroutine = astEffectImpureCoroutine ∧
    MaxExprDepth = astMaxExprDepth ∧ MaxTypeExprDepth = astMaxTypeExprDepth ∧
    MaxBodyDepth = astMaxBodyDepth ∧ MaxImplements = astMaxImplements := by
  decide

/-- non-vacuity: the empty token list parses to an empty file. -/
example : ∃ n, Parse.parseFile ⟨{}, {}⟩ [] = .ok n := by
  refine ⟨.mk Parse.KFile 0 0 0 0 0 .nil .nil .nil [] [] [], ?_⟩
  unfold Parse.parseFile
  simp [Parse.parseFileLoop, StateT.run, bind, StateT.bind, get, getThe, MonadStateOf.get,
    StateT.get, pure, StateT.pure, Except.bind, Except.pure]

end WuffsVerif.Props.C11
