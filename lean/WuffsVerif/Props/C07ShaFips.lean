/-
C07 part 3b: **std/sha256 computes FIPS 180-4 SHA-256** — the former `sha256_digest_eq_fips` gap.

`Model/Sha256Fips.lean` is the standard written down from the document: K{256} and H(0) are COMPUTED from the
first 64 primes (integer cube / square roots), the functions Ch, Maj, Σ, σ, the message schedule and the 64
rounds follow §4.1.2 / §6.2.2.  Here:

  * the K and INITIAL_SHA256_H tables REGENERATED from std/sha256/common_sha256.wuffs equal the computed
    constants (`decide +kernel`; an edited constant breaks the build), and the computed roots are certified
    (`r³ ≤ p·2^96 < (r+1)³`), so the statement does not rest on the root-finding code;
  * the mirror of the compression function (`shaCompress`: 16 big-endian loads, the two `while i < 64`
    loops, the eight `~mod+=`) equals §6.2.2 for every chaining value and every block;
  * hence, with `sha256_any_split` (Props/C07Sha.lean): for every byte string and every sequence (the empty one included)
    of update calls the digest is FIPS 180-4 SHA-256 of the concatenation.

The control-flow mirror itself (rotation amounts, order of the additions) is tied to the C generated from the
working tree by differential execution (op `hash sha256`, which now also evaluates `Sha256Fips.sha256`).
-/
import WuffsVerif.Proof.StdHashShaFips
import WuffsVerif.Props.C07Sha

namespace WuffsVerif.Props.C07
open WuffsVerif.StdHash WuffsVerif.Sha256Fips

/-- the 64 numbers the specification uses are the first 64 primes: there are 64, all pass trial division,
    they start at 2, end at 311, and every prime below 312 is among them -/
theorem fips_primes64 : primes64.length = 64 ∧ primes64.all isPrime = true ∧ primes64.head? = some 2 ∧
    primes64.getLast? = some 311 ∧ ((List.range 312).filter isPrime) = primes64 := by
  decide +kernel

/-- the computed cube roots are the floor cube roots: `r³ ≤ p·2^96 < (r+1)³` for each of the 64 primes
    (so `cbrtFrac32 p` is the first 32 bits of the fractional part of ∛p, whatever `icbrt` does) -/
theorem fips_cbrt_certified :
    primes64.all (fun p => let r := icbrt (p * 2 ^ 96); decide (r * r * r ≤ p * 2 ^ 96 ∧ p * 2 ^ 96 < (r + 1) * (r + 1) * (r + 1))) = true := by
  decide +kernel

theorem fips_sqrt_certified :
    (primes64.take 8).all (fun p => let r := isqrt (p * 2 ^ 64); decide (r * r ≤ p * 2 ^ 64 ∧ p * 2 ^ 64 < (r + 1) * (r + 1))) = true := by
  decide +kernel

/-- **sha256_K_eq_fips**: the `K` table of the working tree's common_sha256.wuffs is FIPS 180-4 §4.2.2 -/
theorem sha256_K_eq_fips : Gen.C07.sha256K.toList = K := by
  decide +kernel

/-- **sha256_H0_eq_fips**: `INITIAL_SHA256_H` is FIPS 180-4 §5.3.3 -/
theorem sha256_H0_eq_fips : Gen.C07.sha256InitialH.toList = H0 := by
  decide +kernel

/-- **sha256_compress_eq_fips**: one 64-byte block through the mirror of `hasher.up`'s iterate body is
    §6.2.2 steps 1–4, for EVERY chaining value and EVERY block. -/
theorem sha256_compress_eq_fips (hh : Sha256H) (blk : List UInt8) :
    (shaCompress hh blk).toList = compress hh.toList blk :=
  shaCompress_eq_fips sha256_K_eq_fips hh blk

theorem shaInit_eq_fips : shaInit.toList = H0.map UInt32.ofNat := by
  unfold shaInit
  rw [← sha256_H0_eq_fips]
  simp

/-- the structural specification of Props/C07Sha.lean is the FIPS function -/
theorem sha256Spec_eq_fips (msg : List UInt8) : sha256Spec msg = sha256 msg := by
  unfold sha256Spec sha256
  simp only []
  rw [shaDigestBytes_eq_fips, shaPad_eq_fips, shaUpBlocks_eq_fips sha256_K_eq_fips _ _ _ (Nat.le_refl _),
    shaInit_eq_fips]

/-- **sha256_digest_eq_fips**: a fresh hasher fed the whole message computes FIPS 180-4 SHA-256
    (`x.length < 2^64`: slice lengths are u64, and FIPS 180-4 defines SHA-256 for messages below 2^64 bits). -/
theorem sha256_digest_eq_fips (x : List UInt8) (hx64 : x.length < 18446744073709551616) :
    (ShaHasher.update {} x).checksum = sha256 x := by
  rw [sha256_checksum_eq_spec x hx64, sha256Spec_eq_fips]

/-- **However the bytes are split** (EVERY sequence of update calls, the empty one included): the digest is
    FIPS 180-4 SHA-256 of the concatenation. -/
theorem sha256_any_split_eq_fips (parts : List (List UInt8))
    (hlen : parts.flatten.length < 18446744073709551616) :
    (parts.foldl ShaHasher.update {}).checksum = sha256 parts.flatten := by
  rw [sha256_any_split_eq_spec parts hlen, sha256Spec_eq_fips]

/-- ZERO update calls: a hasher that was only initialised reports FIPS 180-4 SHA-256 of the empty string
    (e3b0c442…b855). -/
theorem sha256_zero_updates_eq_fips : ({} : ShaHasher).checksum = sha256 [] :=
  sha256_any_split_eq_fips [] (by decide)

/-- FIPS 180-4 Appendix B.1 / the usual test vector: SHA-256("abc") -/
example : sha256 [0x61, 0x62, 0x63] =
    [0xba, 0x78, 0x16, 0xbf, 0x8f, 0x01, 0xcf, 0xea, 0x41, 0x41, 0x40, 0xde, 0x5d, 0xae, 0x22, 0x23,
     0xb0, 0x03, 0x61, 0xa3, 0x96, 0x17, 0x7a, 0x9c, 0xb4, 0x10, 0xff, 0x61, 0xf2, 0x00, 0x15, 0xad] := by
  decide +kernel

example : ((ShaHasher.update {} [0x61]).update [0x62, 0x63]).checksum = sha256 [0x61, 0x62, 0x63] :=
  sha256_any_split_eq_fips [[0x61], [0x62, 0x63]] (by decide)

end WuffsVerif.Props.C07
