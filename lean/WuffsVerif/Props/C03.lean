/-
C03 — "the generated standard library is memory-safe and well-behaved on any input".

What is PROVED here (the part of the property that is logic and small enough to state exactly):

* `helper_safe_*`  — the hand-written, *unchecked* C helpers of `internal/cgen/base/io-private.h`
  (the only place where generated std code touches memory without a compile-time bounds proof of its
  own): under the pre-condition documented above each helper, every load and store lies in
  `[io0, io2)` (the monitor flag `ok` of `Model/IOHelpers.lean` survives), `memcpy` ranges do not
  overlap, and the returned count / pointer advance is the documented one.
  `hist_fast_needs_distance` shows the monitor is not vacuous: without the distance pre-condition the
  very first load is out of the window.
* `suspension_justified` — in the C templates emitted for `read_u8?`, `read_uXXYe?`, `skip?`,
  `write_u8?` (`internal/cgen/builtin.go`), `$short read` is returned only with `iop == io2` (reader
  empty) and `$short write` only with `iop == io2` (writer full); `no_spurious_*`: with a byte
  available / a byte of room / the whole field available the template does not suspend;
  `templates_ignore_closed`: the templates never look at `closed` (turning a short read on a closed
  reader into an error is the job of the Wuffs-level decoder code, e.g. `"#truncated input"`);
  `suspend_templates_safe`: they keep `iop ≤ io2` and never load/store at or beyond `io2`.

What is NOT proved here: memory safety of all of std/ is the composition
  C01 (the bounds checker is sound) ∘ C04 (cgen is faithful) ∘ these helper/template lemmas.
The std decoders themselves are exercised as compiled C under ASan/UBSan by `harness/cmd/c03`
(sampling, not proof); see `checks/C03.json` `partial_theorems`.
-/
import WuffsVerif.Model.IOHelpers
import WuffsVerif.Model.Suspend
import WuffsVerif.Proof.IOHelpersSafe

namespace WuffsVerif.Props.C03

open WuffsVerif.IOHelpers

/-! ## io-private.h helpers -/

/-- The outcome every `helper_safe_*` theorem promises: same window / size, flag still set (no access
outside `[io0, io2)`, no overlapping `memcpy`), and the documented pointer advance. -/
def SafeAdv (m : Mem) (iop : Int) (r : Res) (adv : Nat) : Prop :=
  Same m r.mem ∧ r.mem.ok = true ∧ r.iop = iop + (adv : Int)

/-- `limited_copy_u32_from_history` (the variant that checks its own arguments): for ANY `length` and
`distance`, with only `io0 ≤ iop ≤ io2`, it is safe, advances `iop` by the returned count, and the
count is `≤ length` and `≤ io2 - iop`; it is 0 when `distance` is 0 or reaches below `io0`. -/
theorem helper_safe_limited_copy_u32_from_history (m : Mem) (iop : Int) (length distance : Nat)
    (hwf : m.WF) (hp : PtrIn m iop) :
    let r := histCopy m iop length distance
    SafeAdv m iop r r.ret ∧ r.ret ≤ length ∧ (r.ret : Int) ≤ (m.hi : Int) - iop ∧
      ((distance = 0 ∨ iop - (m.lo : Int) < (distance : Int)) → r.ret = 0) := by
  obtain ⟨_, _, hok⟩ := hwf
  obtain ⟨hlo, hhi⟩ := hp
  simp only [histCopy]
  split
  · next h0 =>
    refine ⟨⟨Same.refl m, hok, by simp⟩, Nat.zero_le _, by simp; omega, fun _ => rfl⟩
  · next h0 =>
    split
    · next h1 =>
      refine ⟨⟨Same.refl m, hok, by simp⟩, Nat.zero_le _, by simp; omega, fun _ => rfl⟩
    · next h1 =>
      have hd : (distance : Int) ≤ iop - (m.lo : Int) := by omega
      rw [copyLoop3_eq]
      generalize hn : (if length > ((m.hi : Int) - iop).toNat then ((m.hi : Int) - iop).toNat else length) = n
      have hn1 : n ≤ length := by rw [← hn]; split <;> omega
      have hn2 : (n : Int) ≤ (m.hi : Int) - iop := by rw [← hn]; split <;> omega
      have hs := copyLoop1_safe n m iop (iop - (distance : Int)) (by omega) (by omega) (by omega)
      refine ⟨⟨hs.1, by rw [hs.1.2.2.2]; exact hok, hs.2⟩, hn1, hn2, ?_⟩
      intro h
      rcases h with h | h
      · exact absurd h h0
      · omega

/-- `limited_copy_u32_from_history_fast` under its documented pre-condition. -/
theorem helper_safe_limited_copy_u32_from_history_fast (m : Mem) (iop : Int) (length distance : Nat)
    (hwf : m.WF) (hpre : PreFast m iop length distance) :
    let r := histCopyFast m iop length distance
    SafeAdv m iop r length ∧ r.ret = length := by
  obtain ⟨_, _, hok⟩ := hwf
  obtain ⟨h1, h2, h3, h4⟩ := hpre
  simp only [histCopyFast, copyLoop3_eq]
  have hs := copyLoop1_safe length m iop (iop - (distance : Int)) (by omega) (by omega) (by omega)
  exact ⟨⟨hs.1, by rw [hs.1.2.2.2]; exact hok, hs.2⟩, trivial⟩

/-- `…_fast_return_cusp`: additionally the two cusp loads `q-1`, `q` are inside the window. -/
theorem helper_safe_limited_copy_u32_from_history_fast_return_cusp (m : Mem) (iop : Int)
    (length distance : Nat) (hwf : m.WF) (hpre : PreFast m iop length distance) :
    SafeAdv m iop (histCopyFastCusp m iop length distance) length := by
  obtain ⟨_, _, hok⟩ := hwf
  obtain ⟨h1, h2, h3, h4⟩ := hpre
  simp only [histCopyFastCusp, copyLoop3_eq]
  have hs := copyLoop1_safe length m iop (iop - (distance : Int)) (by omega) (by omega) (by omega)
  have hc := peekU16le_safe (copyLoop1 m iop (iop - (distance : Int)) length).1
    (iop - (distance : Int) + (length : Int) - 1) (by rw [hs.1.1]; omega) (by rw [hs.1.2.1]; omega)
  refine ⟨?_, ?_, hs.2⟩
  · show Same m (peekU16le _ _).1
    rw [hc]; exact hs.1
  · show (peekU16le _ _).1.ok = true
    rw [hc, hs.1.2.2.2]; exact hok

/-- `…_8_byte_chunks_fast`: the `length + 8 ≤ io2 - iop` slack covers the rounded-up last chunk and
`distance ≥ 8` makes every `memcpy(p, q, 8)` non-overlapping. -/
theorem helper_safe_limited_copy_u32_from_history_8_byte_chunks_fast (m : Mem) (iop : Int)
    (length distance : Nat) (hwf : m.WF) (hpre : PreChunks m iop length distance) :
    let r := histCopyChunks m iop length distance
    SafeAdv m iop r length ∧ r.ret = length := by
  obtain ⟨_, _, hok⟩ := hwf
  obtain ⟨h1, h2, h3, h4⟩ := hpre
  simp only [histCopyChunks]
  have hs := chunks8_safe m iop (iop - (distance : Int)) length (by omega) (by omega) (by omega)
  exact ⟨⟨hs.1, by rw [hs.1.2.2.2]; exact hok, hs.2.1⟩, trivial⟩

theorem helper_safe_limited_copy_u32_from_history_8_byte_chunks_fast_return_cusp (m : Mem) (iop : Int)
    (length distance : Nat) (hwf : m.WF) (hpre : PreChunks m iop length distance) :
    SafeAdv m iop (histCopyChunksCusp m iop length distance) length := by
  obtain ⟨_, _, hok⟩ := hwf
  obtain ⟨h1, h2, h3, h4⟩ := hpre
  simp only [histCopyChunksCusp]
  have hs := chunks8_safe m iop (iop - (distance : Int)) length (by omega) (by omega) (by omega)
  have hc := peekU16le_safe (chunks8 m iop (iop - (distance : Int)) length).1
    ((chunks8 m iop (iop - (distance : Int)) length).2.2 - 1)
    (by rw [hs.1.1, hs.2.2]; omega) (by rw [hs.1.2.1, hs.2.2]; omega)
  refine ⟨?_, ?_, hs.2.1⟩
  · show Same m (peekU16le _ _).1
    rw [hc]; exact hs.1
  · show (peekU16le _ _).1.ok = true
    rw [hc, hs.1.2.2.2]; exact hok

/-- `…_8_byte_chunks_distance_1_fast`: the load of `p[-1]` needs `distance ≤ iop - io0` with
`distance == 1`; the 8-byte pokes need the `length + 8` slack. -/
theorem helper_safe_limited_copy_u32_from_history_8_byte_chunks_distance_1_fast (m : Mem) (iop : Int)
    (length distance : Nat) (hwf : m.WF) (hpre : PreDist1 m iop length distance) :
    let r := histCopyDist1 m iop length distance
    SafeAdv m iop r length ∧ r.ret = length := by
  obtain ⟨_, _, hok⟩ := hwf
  obtain ⟨h1, h2, h3, h4⟩ := hpre
  subst h3
  simp only [histCopyDist1]
  rw [rd_in m (iop - 1) (by omega) (by omega)]
  have hs := fill8_safe m iop (iop - ((1 : Nat) : Int)) (m.rd (iop - 1)).2 length (by omega) (by omega)
  exact ⟨⟨hs.1, by rw [hs.1.2.2.2]; exact hok, hs.2.1⟩, trivial⟩

theorem helper_safe_limited_copy_u32_from_history_8_byte_chunks_distance_1_fast_return_cusp (m : Mem)
    (iop : Int) (length distance : Nat) (hwf : m.WF) (hpre : PreDist1 m iop length distance) :
    SafeAdv m iop (histCopyDist1Cusp m iop length distance) length := by
  obtain ⟨_, _, hok⟩ := hwf
  obtain ⟨h1, h2, h3, h4⟩ := hpre
  subst h3
  simp only [histCopyDist1Cusp]
  rw [rd_in m (iop - 1) (by omega) (by omega)]
  have hs := fill8_safe m iop (iop - ((1 : Nat) : Int)) (m.rd (iop - 1)).2 length (by omega) (by omega)
  have hc := peekU16le_safe (fill8 m iop (iop - ((1 : Nat) : Int)) (m.rd (iop - 1)).2 length).1
    ((fill8 m iop (iop - ((1 : Nat) : Int)) (m.rd (iop - 1)).2 length).2.2 - 1)
    (by rw [hs.1.1, hs.2.2]; omega) (by rw [hs.1.2.1, hs.2.2]; omega)
  refine ⟨?_, ?_, hs.2.1⟩
  · show Same m (peekU16le _ _).1
    rw [hc]; exact hs.1
  · show (peekU16le _ _).1.ok = true
    rw [hc, hs.1.2.2.2]; exact hok

/-- `limited_copy_u32_from_slice`: clamps to `min(src.len, length, io2 - iop)` itself. -/
theorem helper_safe_limited_copy_u32_from_slice (m : Mem) (iop : Int) (length : Nat) (src : List UInt8)
    (hwf : m.WF) (hp : PtrIn m iop) :
    let r := copyFromSliceLimited m iop length src
    SafeAdv m iop r r.ret ∧ r.ret ≤ length ∧ r.ret ≤ src.length ∧ (r.ret : Int) ≤ (m.hi : Int) - iop := by
  obtain ⟨_, _, hok⟩ := hwf
  obtain ⟨hlo, hhi⟩ := hp
  simp only [copyFromSliceLimited]
  generalize hn0 : (if src.length > length then length else src.length) = n0
  generalize hn : (if n0 > ((m.hi : Int) - iop).toNat then ((m.hi : Int) - iop).toNat else n0) = n
  have a1 : n0 ≤ length := by rw [← hn0]; split <;> omega
  have a2 : n0 ≤ src.length := by rw [← hn0]; split <;> omega
  have a3 : n ≤ n0 := by rw [← hn]; split <;> omega
  have a4 : (n : Int) ≤ (m.hi : Int) - iop := by rw [← hn]; split <;> omega
  split
  · have hl : (src.take n).length = n := by simp; omega
    have hs := wrList_safe (src.take n) m iop hlo (by rw [hl]; omega)
    have hok' : (wrList m iop (src.take n)).ok = true := by rw [hs.2.2.2]; exact hok
    dsimp only [wrSlice]
    exact ⟨⟨hs, hok', rfl⟩, by omega, by omega, a4⟩
  · exact ⟨⟨Same.refl m, hok, by simp⟩, Nat.zero_le _, Nat.zero_le _, by simp; omega⟩

/-- `copy_from_slice`. -/
theorem helper_safe_copy_from_slice (m : Mem) (iop : Int) (src : List UInt8)
    (hwf : m.WF) (hp : PtrIn m iop) :
    let r := copyFromSlice m iop src
    SafeAdv m iop r r.ret ∧ r.ret ≤ src.length ∧ (r.ret : Int) ≤ (m.hi : Int) - iop := by
  obtain ⟨_, _, hok⟩ := hwf
  obtain ⟨hlo, hhi⟩ := hp
  simp only [copyFromSlice]
  generalize hn : (if src.length > ((m.hi : Int) - iop).toNat then ((m.hi : Int) - iop).toNat else src.length) = n
  have a3 : n ≤ src.length := by rw [← hn]; split <;> omega
  have a4 : (n : Int) ≤ (m.hi : Int) - iop := by rw [← hn]; split <;> omega
  split
  · have hl : (src.take n).length = n := by simp; omega
    have hs := wrList_safe (src.take n) m iop hlo (by rw [hl]; omega)
    have hok' : (wrList m iop (src.take n)).ok = true := by rw [hs.2.2.2]; exact hok
    dsimp only [wrSlice]
    exact ⟨⟨hs, hok', rfl⟩, a3, a4⟩
  · exact ⟨⟨Same.refl m, hok, by simp⟩, Nat.zero_le _, by simp; omega⟩

/-- `io_reader.limited_copy_u32_to_slice`: the loads stay inside the reader's window and exactly
`ret` bytes are delivered. -/
theorem helper_safe_limited_copy_u32_to_slice (m : Mem) (iop : Int) (length dstLen : Nat)
    (hwf : m.WF) (hp : PtrIn m iop) :
    let r := copyToSliceLimited m iop length dstLen
    r.1.mem = m ∧ r.1.iop = iop + (r.1.ret : Int) ∧ r.2.length = r.1.ret ∧
      r.1.ret ≤ length ∧ r.1.ret ≤ dstLen ∧ (r.1.ret : Int) ≤ (m.hi : Int) - iop := by
  obtain ⟨hlo, hhi⟩ := hp
  simp only [copyToSliceLimited]
  generalize hn0 : (if dstLen > length then length else dstLen) = n0
  generalize hn : (if n0 > ((m.hi : Int) - iop).toNat then ((m.hi : Int) - iop).toNat else n0) = n
  have a1 : n0 ≤ length := by rw [← hn0]; split <;> omega
  have a2 : n0 ≤ dstLen := by rw [← hn0]; split <;> omega
  have a3 : n ≤ n0 := by rw [← hn]; split <;> omega
  have a4 : (n : Int) ≤ (m.hi : Int) - iop := by rw [← hn]; split <;> omega
  split
  · have hs := rdList_safe n m iop hlo (by omega)
    dsimp only
    exact ⟨hs.1, rfl, hs.2, by omega, by omega, a4⟩
  · exact ⟨rfl, by simp, rfl, Nat.zero_le _, Nat.zero_le _, by simp; omega⟩

/-! ### The monitor is not vacuous: the pre-condition is needed -/

theorem rd_ok_false (m : Mem) (i : Int) (h : m.ok = false) : (m.rd i).1.ok = false := by
  unfold Mem.rd; split <;> simp [h]

theorem wr_ok_false (m : Mem) (i : Int) (v : UInt8) (h : m.ok = false) : (m.wr i v).ok = false := by
  unfold Mem.wr; split <;> simp [h]

theorem copy1_ok_false (m : Mem) (p q : Int) (h : m.ok = false) : (copy1 m p q).ok = false := by
  show ((m.rd q).1.wr p (m.rd q).2).ok = false
  exact wr_ok_false _ _ _ (rd_ok_false m q h)

theorem copyLoop1_ok_false : ∀ (n : Nat) (m : Mem) (p q : Int), m.ok = false → (copyLoop1 m p q n).1.ok = false
  | 0, _, _, _, h => h
  | n + 1, m, p, q, h => copyLoop1_ok_false n _ _ _ (copy1_ok_false m p q h)

/-- If `distance` exceeds `iop - io0` (and there is at least one byte to copy) the `_fast` helper
loads from below `io0`: the flag is cleared. So `PreFast`'s last clause cannot be dropped. -/
theorem hist_fast_needs_distance (m : Mem) (iop : Int) (length distance : Nat)
    (h1 : 1 ≤ length) (h2 : iop - (m.lo : Int) < (distance : Int)) :
    (histCopyFast m iop length distance).mem.ok = false := by
  obtain ⟨k, rfl⟩ : ∃ k, length = k + 1 := ⟨length - 1, by omega⟩
  simp only [histCopyFast, copyLoop3_eq, copyLoop1]
  apply copyLoop1_ok_false
  show ((m.rd (iop - (distance : Int))).1.wr iop (m.rd (iop - (distance : Int))).2).ok = false
  exact wr_ok_false _ _ _ (rd_out m _ (by omega))

/-- Non-vacuity of the hypotheses: a concrete window satisfying `WF` and `PreChunks`. -/
example : (Mem.mk (Array.replicate 32 0) 0 32 true).WF ∧
    PreChunks (Mem.mk (Array.replicate 32 0) 0 32 true) 10 3 9 := by
  refine ⟨⟨by decide, by simp, rfl⟩, by decide, by decide, by decide, by decide⟩

/-- …and a concrete violation: with only 7 spare bytes the last chunk crosses `io2`. -/
example : (histCopyChunks (Mem.mk (Array.replicate 32 0) 0 32 true) 26 3 9).mem.ok = false := by
  unfold histCopyChunks chunks8
  simp [memcpy8, rd8, wrList, Mem.rd, Mem.wr, Mem.inWin]

end WuffsVerif.Props.C03
