/-
C03 — `io_reader.match7` and `io_writer.limited_copy_u32_from_reader` (`Model/IOMatch.lean`): memory
safety, validity of the shift, and the defect of the pinned `match7` (shift by 64 for a zero-length
prefix), witnessed over the model of the pinned code.
-/
import WuffsVerif.Model.IOMatch
import WuffsVerif.Proof.IOHelpersSafe

namespace WuffsVerif.Props.C03

open WuffsVerif.IOHelpers

theorem and7_le (a : UInt64) : (a &&& 7).toNat ≤ 7 := by
  have h : (a &&& 7).toNat = a.toNat &&& 7 := by simp
  rw [h]
  exact Nat.and_le_right

/-- The byte-at-a-time loop never loads at or beyond `io2` (it tests `iop_r >= io2_r` first) nor below
`io0`; the answer is 0, 1 or 2, and 1 only when the reader is not closed. -/
theorem match7Loop_safe (closed : Bool) : ∀ (n : Nat) (m : Mem) (iop : Int) (a : UInt64),
    (m.lo : Int) ≤ iop →
    (match7Loop closed n m iop a).2 = m ∧ (match7Loop closed n m iop a).1 ≤ 2 ∧
      ((match7Loop closed n m iop a).1 = 1 → closed = false)
  | 0, m, _, _, _ => by simp [match7Loop]
  | n + 1, m, iop, a, h => by
    unfold match7Loop
    split
    · cases closed <;> simp
    · next hlt =>
      have hr : (m.rd iop).1 = m := rd_in m iop h (by omega)
      dsimp only
      by_cases hne : ((m.rd iop).2 != a.toUInt8) = true
      · rw [if_pos hne]
        exact ⟨hr, by simp, by simp⟩
      · rw [if_neg hne, hr]
        exact match7Loop_safe closed n m (iop + 1) (a >>> 8) (by omega)

/-- **`match7` (as repaired) is safe for EVERY argument `a`**: with only `io0 ≤ iop ≤ io2`, all loads lie
in `[io0, io2)`, no shift count reaches 64, and the answer is 0, 1 or 2 — 1 (inconclusive) only when the
reader is not closed. -/
theorem helper_safe_match7 (m : Mem) (iop : Int) (closed : Bool) (a : UInt64)
    (_hwf : m.WF) (hp : PtrIn m iop) :
    let r := match7 m iop closed a
    r.mem = m ∧ r.shiftOk = true ∧ r.ret ≤ 2 ∧ (r.ret = 1 → closed = false) := by
  obtain ⟨hlo, hhi⟩ := hp
  simp only [match7]
  split
  · next hc =>
    obtain ⟨hn, h8⟩ := hc
    have hr := rd8_safe m iop hlo (by omega)
    simp only [match7Fast, peekU64le, hr.1]
    refine ⟨trivial, ?_, ?_, ?_⟩
    · have := and7_le a
      simp only [decide_eq_true_eq]
      omega
    · split <;> simp
    · split <;> simp
  · have hs := match7Loop_safe closed (a &&& 7).toNat m iop (a >>> 8) hlo
    exact ⟨hs.1, rfl, hs.2.1, hs.2.2⟩

/-- **The pinned `match7` executes an invalid shift**: with a zero-length prefix (`a & 7 == 0`) and at
least 8 bytes available it computes `a << 64`. (`fixes/C03-match7-zero-length-shift.patch`.) -/
theorem match7_pinned_invalid_shift (m : Mem) (iop : Int) (closed : Bool) (a : UInt64)
    (hn : a &&& 7 = 0) (h8 : (m.hi : Int) - iop ≥ 8) :
    (match7Pinned m iop closed a).shiftOk = false := by
  simp [match7Pinned, h8, match7Fast, hn]

/-- …on an input where the repaired helper answers 0 ("the empty prefix matches") and the pinned one,
evaluated with the x86-64 meaning of the shift, answers 2. -/
example : (match7 (Mem.mk #[1, 2, 3, 4, 5, 6, 7, 8] 0 8 true) 0 false 0).ret = 0 ∧
    (match7Pinned (Mem.mk #[1, 2, 3, 4, 5, 6, 7, 8] 0 8 true) 0 false 0).ret = 2 := by
  decide

/-- `limited_copy_u32_from_reader` is safe with only `io0 ≤ iop ≤ io2` on both sides: loads inside the
reader's window, stores inside the writer's, both pointers advance by the returned count, which is
`≤ length`, `≤` the writer's room and `≤` the reader's available bytes. -/
theorem helper_safe_limited_copy_u32_from_reader (mw : Mem) (iopW : Int) (length : Nat) (mr : Mem) (iopR : Int)
    (hw : mw.WF) (hpw : PtrIn mw iopW) (hpr : PtrIn mr iopR) :
    let r := copyFromReaderLimited mw iopW length mr iopR
    Same mw r.mw ∧ r.mw.ok = true ∧ r.mr = mr ∧ r.iopW = iopW + (r.ret : Int) ∧ r.iopR = iopR + (r.ret : Int) ∧
      r.ret ≤ length ∧ (r.ret : Int) ≤ (mw.hi : Int) - iopW ∧ (r.ret : Int) ≤ (mr.hi : Int) - iopR := by
  obtain ⟨_, _, hok⟩ := hw
  obtain ⟨hwlo, hwhi⟩ := hpw
  obtain ⟨hrlo, hrhi⟩ := hpr
  simp only [copyFromReaderLimited]
  generalize hn0 : (if length > ((mw.hi : Int) - iopW).toNat then ((mw.hi : Int) - iopW).toNat else length) = n0
  generalize hn : (if n0 > ((mr.hi : Int) - iopR).toNat then ((mr.hi : Int) - iopR).toNat else n0) = n
  have a1 : n0 ≤ length := by rw [← hn0]; split <;> omega
  have a2 : (n0 : Int) ≤ (mw.hi : Int) - iopW := by rw [← hn0]; split <;> omega
  have a3 : n ≤ n0 := by rw [← hn]; split <;> omega
  have a4 : (n : Int) ≤ (mr.hi : Int) - iopR := by rw [← hn]; split <;> omega
  split
  · have hr := rdList_safe n mr iopR hrlo (by omega)
    have hs := wrList_safe (rdList mr iopR n).2 mw iopW hwlo (by rw [hr.2]; omega)
    dsimp only
    exact ⟨hs, by rw [hs.2.2.2]; exact hok, hr.1, rfl, rfl, by omega, by omega, a4⟩
  · exact ⟨Same.refl mw, hok, rfl, by simp, by simp, Nat.zero_le _, by simp; omega, by simp; omega⟩

/-! ### Slice helpers -/

/-- **The slice helpers (as repaired) never do arithmetic on a NULL pointer and stay inside the slice**:
the result is NULL exactly when the input is NULL or the indexes are out of bounds, otherwise
`[off, off + len)` lies inside `[0, s.len)`. -/
theorem subslice_safe (s : CSlice) (i j : Nat) :
    (subsliceI s i).nullArith = false ∧ (subsliceJ s j).nullArith = false ∧ (subsliceIJ s i j).nullArith = false ∧
    (∀ o, (subsliceI s i).off = some o → o + (subsliceI s i).len ≤ s.len ∧ s.base.isSome) ∧
    (∀ o, (subsliceJ s j).off = some o → o + (subsliceJ s j).len ≤ s.len ∧ s.base.isSome) ∧
    (∀ o, (subsliceIJ s i j).off = some o → o + (subsliceIJ s i j).len ≤ s.len ∧ s.base.isSome) := by
  refine ⟨?_, ?_, ?_, ?_, ?_, ?_⟩
  · unfold subsliceI; split <;> rfl
  · unfold subsliceJ; split <;> rfl
  · unfold subsliceIJ; split <;> rfl
  · intro o h
    unfold subsliceI at h ⊢
    split at h
    · next hle =>
      cases hb : s.base with
      | none => simp [hb] at h
      | some b =>
        simp only [hb, Option.map_some, Option.some.injEq] at h
        subst h
        simp only [if_pos hle]
        exact ⟨by omega, rfl⟩
    · simp at h
  · intro o h
    unfold subsliceJ at h ⊢
    split at h
    · next hle =>
      cases hb : s.base with
      | none => simp [hb] at h
      | some b =>
        simp only [hb, Option.map_some, Option.some.injEq] at h
        subst h
        simp only [if_pos hle]
        exact ⟨by omega, rfl⟩
    · simp at h
  · intro o h
    unfold subsliceIJ at h ⊢
    split at h
    · next hle =>
      cases hb : s.base with
      | none => simp [hb] at h
      | some b =>
        simp only [hb, Option.map_some, Option.some.injEq] at h
        subst h
        simp only [if_pos hle]
        exact ⟨by omega, rfl⟩
    · simp at h

/-- The pinned `s[i ..]` on the empty slice `{NULL, 0}` computes `NULL + 0`
(`fixes/C03-subslice-null-plus-zero.patch`). -/
theorem subslice_pinned_null_arith : (subsliceIPinned ⟨none, 0⟩ 0).nullArith = true := by decide

end WuffsVerif.Props.C03
