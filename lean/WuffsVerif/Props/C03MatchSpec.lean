/-
C03 — what `io_reader.match7` computes (`Model/IOMatch.lean`): both paths — the byte-at-a-time loop and the
8-byte fast path `(a << shift) == (x << shift)` — answer exactly like the list-level specification
`match7Spec`: compare the `n` prefix bytes (the low bytes of `a >> 8`, little-endian) with the upcoming
bytes; 0 = all `n` match, 2 = a mismatch (or the reader is closed and ends inside the prefix), 1 = the
reader ends inside the prefix and is not closed.
-/
import WuffsVerif.Model.IOMatch
import WuffsVerif.Proof.IOHelpersSafe

set_option linter.unusedSimpArgs false

namespace WuffsVerif.Props.C03

open WuffsVerif.IOHelpers

theorem and7_le' (a : UInt64) : (a &&& 7).toNat ≤ 7 := by
  have h : (a &&& 7).toNat = a.toNat &&& 7 := by simp
  rw [h]
  exact Nat.and_le_right

/-- The first `n` bytes of `a`, little-endian: what the loop compares against (`(uint8_t)(a)`, `a >>= 8`). -/
def prefixBytes : Nat → UInt64 → List UInt8
  | 0, _ => []
  | n + 1, a => a.toUInt8 :: prefixBytes n (a >>> 8)

/-- The specification on lists: `pfx` against the upcoming bytes `avail`. -/
def match7Spec (closed : Bool) : List UInt8 → List UInt8 → Nat
  | [], _ => 0
  | _ :: _, [] => if closed then 2 else 1
  | p :: ps, b :: bs => if b != p then 2 else match7Spec closed ps bs

/-- The upcoming bytes `[iop, io2)` of a reader window. -/
def upcoming (m : Mem) (iop : Int) : Nat → List UInt8
  | 0 => []
  | k + 1 => m.buf.getD iop.toNat 0 :: upcoming m (iop + 1) k

theorem match7Loop_spec (closed : Bool) : ∀ (n : Nat) (m : Mem) (iop : Int) (a : UInt64) (k : Nat),
    (m.lo : Int) ≤ iop → iop + (k : Int) = (m.hi : Int) →
    (match7Loop closed n m iop a).1 = match7Spec closed (prefixBytes n a) (upcoming m iop k)
  | 0, _, _, _, _, _, _ => rfl
  | n + 1, m, iop, a, k, h1, h2 => by
    unfold match7Loop
    cases k with
    | zero =>
      have : iop ≥ (m.hi : Int) := by omega
      simp [this, prefixBytes, upcoming, match7Spec]
    | succ k =>
      have hlt : ¬ iop ≥ (m.hi : Int) := by omega
      have hw : m.inWin iop = true := (inWin_iff m iop).2 ⟨h1, by omega⟩
      have hr1 : (m.rd iop).1 = m := rd_in m iop h1 (by omega)
      have hr2 : (m.rd iop).2 = m.buf.getD iop.toNat 0 := by simp [Mem.rd, hw]
      rw [if_neg hlt]
      dsimp only
      simp only [prefixBytes, upcoming, match7Spec, hr1, hr2]
      have ih := match7Loop_spec closed n m (iop + 1) (a >>> 8) k (by omega) (by omega)
      by_cases hne : (m.buf.getD iop.toNat 0 != a.toUInt8) = true
      · rw [if_pos hne, if_pos hne]
      · rw [if_neg hne, if_neg hne]
        exact ih

/-! ### The 8-byte fast path -/

/-- Little-endian value of a byte list. -/
def leVal : List UInt8 → Nat
  | [] => 0
  | b :: bs => b.toNat + 256 * leVal bs

theorem leVal_lt : ∀ bs : List UInt8, leVal bs < 256 ^ bs.length
  | [] => by simp [leVal]
  | b :: bs => by
    have := leVal_lt bs
    have hb := b.toNat_lt
    simp only [leVal, List.length_cons, Nat.pow_succ]
    omega

/-- `leVal` is injective on lists of equal length. -/
theorem leVal_inj : ∀ (xs ys : List UInt8), xs.length = ys.length → leVal xs = leVal ys → xs = ys
  | [], [], _, _ => rfl
  | [], _ :: _, h, _ => by simp at h
  | _ :: _, [], h, _ => by simp at h
  | x :: xs, y :: ys, hl, hv => by
    simp only [leVal] at hv
    have hx := x.toNat_lt
    have hy := y.toNat_lt
    have h1 : x.toNat = y.toNat := by omega
    have h2 : leVal xs = leVal ys := by omega
    have := leVal_inj xs ys (by simpa using hl) h2
    rw [this, UInt8.toNat_inj.mp h1]

/-- The low `n` bytes. -/
theorem leVal_take : ∀ (n : Nat) (bs : List UInt8), leVal bs % 256 ^ n = leVal (bs.take n)
  | 0, bs => by simp [leVal, Nat.mod_one]
  | n + 1, [] => by simp [leVal]
  | n + 1, b :: bs => by
    have ih := leVal_take n bs
    have hb := b.toNat_lt
    simp only [List.take_succ_cons, leVal]
    rw [Nat.pow_succ, Nat.mul_comm (256 ^ n) 256, Nat.mod_mul]
    have e1 : (b.toNat + 256 * leVal bs) % 256 = b.toNat := by omega
    have e2 : (b.toNat + 256 * leVal bs) / 256 = leVal bs := by omega
    rw [e1, e2, ih]

/-- `prefixBytes n a` are the low `n` bytes of `a`. -/
theorem leVal_prefixBytes : ∀ (n : Nat) (a : UInt64), leVal (prefixBytes n a) = a.toNat % 256 ^ n
  | 0, a => by simp [prefixBytes, leVal, Nat.mod_one]
  | n + 1, a => by
    have ih := leVal_prefixBytes n (a >>> 8)
    simp only [prefixBytes, leVal, ih]
    rw [Nat.pow_succ, Nat.mul_comm (256 ^ n) 256, Nat.mod_mul]
    have e1 : a.toUInt8.toNat = a.toNat % 256 := by simp
    have e2 : (a >>> 8).toNat = a.toNat / 256 := by
      rw [UInt64.toNat_shiftRight, Nat.shiftRight_eq_div_pow]
      rfl
    rw [e1, e2]

theorem prefixBytes_length : ∀ (n : Nat) (a : UInt64), (prefixBytes n a).length = n
  | 0, _ => rfl
  | n + 1, a => by simp [prefixBytes, prefixBytes_length n]

/-- `peek_u64le`: the fold over the eight loaded bytes is their little-endian value. -/
theorem foldr_le : ∀ (bs : List UInt8), bs.length ≤ 8 →
    (bs.foldr (fun (b : UInt8) (acc : UInt64) => (acc <<< 8) ||| b.toUInt64) 0).toNat = leVal bs
  | [], _ => rfl
  | b :: bs, h => by
    have hl : bs.length ≤ 7 := by simpa using h
    have ih := foldr_le bs (by omega)
    have hlt := leVal_lt bs
    have hb := b.toNat_lt
    have h56 : leVal bs < 2 ^ 56 := by
      have : (256 : Nat) ^ bs.length ≤ 256 ^ 7 := Nat.pow_le_pow_right (by decide) hl
      have e : (256 : Nat) ^ 7 = 2 ^ 56 := by decide
      omega
    simp only [List.foldr_cons, leVal]
    rw [UInt64.toNat_or, UInt64.toNat_shiftLeft, ih, UInt8.toNat_toUInt64]
    have e8 : (8 : UInt64).toNat % 64 = 8 := by decide
    rw [e8, Nat.shiftLeft_eq]
    have hm : leVal bs * 2 ^ 8 < 2 ^ 64 := by
      have : leVal bs * 2 ^ 8 < 2 ^ 56 * 2 ^ 8 := Nat.mul_lt_mul_of_pos_right h56 (by decide)
      have e : (2 : Nat) ^ 56 * 2 ^ 8 = 2 ^ 64 := by decide
      omega
    rw [Nat.mod_eq_of_lt hm]
    have := Nat.shiftLeft_add_eq_or_of_lt (i := 8) (b := b.toNat) (by simpa using hb) (leVal bs)
    rw [Nat.shiftLeft_eq] at this
    rw [← this]
    omega

/-- Comparing after a left shift by `64 - 8n` bits compares the low `n` bytes. -/
theorem shl_eq_iff (a x : UInt64) (n : Nat) (h1 : 1 ≤ n) (h8 : n ≤ 8) :
    ((a <<< (8 * (8 - n)).toUInt64) == (x <<< (8 * (8 - n)).toUInt64)) = true ↔
      a.toNat % 256 ^ n = x.toNat % 256 ^ n := by
  have hs : (8 * (8 - n)).toUInt64.toNat % 64 = 8 * (8 - n) := by
    have : 8 * (8 - n) < 64 := by omega
    simp [Nat.toUInt64, UInt64.toNat_ofNat']
    omega
  have key : ∀ y : UInt64, (y <<< (8 * (8 - n)).toUInt64).toNat = (y.toNat % 256 ^ n) * 2 ^ (8 * (8 - n)) := by
    intro y
    rw [UInt64.toNat_shiftLeft, hs, Nat.shiftLeft_eq]
    have e : (2 : Nat) ^ 64 = 256 ^ n * 2 ^ (8 * (8 - n)) := by
      have : (256 : Nat) ^ n = 2 ^ (8 * n) := by
        rw [show (256 : Nat) = 2 ^ 8 from rfl, ← Nat.pow_mul]
      rw [this, ← Nat.pow_add]
      congr 1
      omega
    rw [e, Nat.mul_mod_mul_right]
  rw [beq_iff_eq, ← UInt64.toNat_inj, key a, key x]
  constructor
  · intro h
    exact Nat.eq_of_mul_eq_mul_right (Nat.pow_pos (by decide)) h
  · intro h
    rw [h]

/-- What `match7Spec` says when the whole prefix is available. -/
theorem match7Spec_full (closed : Bool) : ∀ (pfx avail : List UInt8), pfx.length ≤ avail.length →
    match7Spec closed pfx avail = if pfx = avail.take pfx.length then 0 else 2
  | [], _, _ => by simp [match7Spec]
  | _ :: _, [], h => by simp at h
  | p :: ps, b :: bs, h => by
    have ih := match7Spec_full closed ps bs (by simpa using h)
    simp only [match7Spec, List.length_cons, List.take_succ_cons, List.cons.injEq]
    by_cases hb : b = p
    · subst hb
      simp [ih]
    · have : (b != p) = true := by simpa using hb
      have hne : ¬ (p = b) := fun e => hb e.symm
      simp [this, hne]

theorem upcoming_length (m : Mem) : ∀ (k : Nat) (iop : Int), (upcoming m iop k).length = k
  | 0, _ => rfl
  | k + 1, iop => by simp [upcoming, upcoming_length m k]

/-- The eight bytes `rd8` loads are the first eight upcoming bytes. -/
theorem rd8_upcoming (m : Mem) (iop : Int) (k : Nat) (h1 : (m.lo : Int) ≤ iop) (h2 : iop + (k : Int) = (m.hi : Int))
    (h8 : 8 ≤ k) : (rd8 m iop).2 = (upcoming m iop k).take 8 := by
  obtain ⟨j, rfl⟩ : ∃ j, k = j + 8 := ⟨k - 8, by omega⟩
  have hv : ∀ i : Int, (m.lo : Int) ≤ i → i < (m.hi : Int) → (m.rd i).2 = m.buf.getD i.toNat 0 := by
    intro i a b
    have : m.inWin i = true := (inWin_iff m i).2 ⟨a, b⟩
    simp [Mem.rd, this]
  unfold rd8
  simp only [rd_in m iop h1 (by omega), rd_in m (iop + 1) (by omega) (by omega),
    rd_in m (iop + 2) (by omega) (by omega), rd_in m (iop + 3) (by omega) (by omega),
    rd_in m (iop + 4) (by omega) (by omega), rd_in m (iop + 5) (by omega) (by omega),
    rd_in m (iop + 6) (by omega) (by omega), rd_in m (iop + 7) (by omega) (by omega),
    hv iop h1 (by omega), hv (iop + 1) (by omega) (by omega), hv (iop + 2) (by omega) (by omega),
    hv (iop + 3) (by omega) (by omega), hv (iop + 4) (by omega) (by omega), hv (iop + 5) (by omega) (by omega),
    hv (iop + 6) (by omega) (by omega), hv (iop + 7) (by omega) (by omega)]
  simp only [upcoming, List.take_succ_cons, List.take_zero]
  have e : ∀ (a b : Nat), iop + (a : Int) + 1 = iop + ((a + 1 : Nat) : Int) := by intros; omega
  simp [Int.add_assoc]

/-- **`match7` computes the specification** (both paths): with `io0 ≤ iop`, `k` upcoming bytes, any
argument `a`: the answer is `match7Spec` of the `a & 7` low bytes of `a >> 8` against the upcoming bytes. -/
theorem match7_spec (m : Mem) (iop : Int) (closed : Bool) (a : UInt64) (k : Nat)
    (h1 : (m.lo : Int) ≤ iop) (h2 : iop + (k : Int) = (m.hi : Int)) :
    (match7 m iop closed a).ret =
      match7Spec closed (prefixBytes (a &&& 7).toNat (a >>> 8)) (upcoming m iop k) := by
  have hn7 := and7_le' a
  simp only [match7]
  split
  · next hc =>
    obtain ⟨hn, h8⟩ := hc
    have hk : 8 ≤ k := by omega
    have hr := rd8_safe m iop h1 (by omega)
    have hup := rd8_upcoming m iop k h1 h2 hk
    have hx : (peekU64le m iop).2.toNat = leVal ((upcoming m iop k).take 8) := by
      simp only [peekU64le]
      rw [foldr_le _ (by rw [hr.2]; exact Nat.le_refl _), hup]
    simp only [match7Fast]
    have hfull := match7Spec_full closed (prefixBytes (a &&& 7).toNat (a >>> 8)) (upcoming m iop k)
      (by rw [prefixBytes_length, upcoming_length]; omega)
    rw [hfull, prefixBytes_length]
    have hiff := shl_eq_iff (a >>> 8) (peekU64le m iop).2 (a &&& 7).toNat hn (by omega)
    have hlow : (peekU64le m iop).2.toNat % 256 ^ (a &&& 7).toNat = leVal ((upcoming m iop k).take (a &&& 7).toNat) := by
      rw [hx, leVal_take, List.take_take]
      congr 2
      omega
    by_cases hm : prefixBytes (a &&& 7).toNat (a >>> 8) = (upcoming m iop k).take (a &&& 7).toNat
    · have : ((a >>> 8 <<< (8 * (8 - (a &&& 7).toNat)).toUInt64) == ((peekU64le m iop).2 <<< (8 * (8 - (a &&& 7).toNat)).toUInt64)) = true := by
        rw [hiff, hlow, ← hm, leVal_prefixBytes]
      rw [if_pos this, if_pos hm]
    · have : ¬ (((a >>> 8 <<< (8 * (8 - (a &&& 7).toNat)).toUInt64) == ((peekU64le m iop).2 <<< (8 * (8 - (a &&& 7).toNat)).toUInt64)) = true) := by
        rw [hiff, hlow, ← leVal_prefixBytes]
        intro he
        apply hm
        apply leVal_inj _ _ _ he
        rw [prefixBytes_length, List.length_take, upcoming_length]
        omega
      rw [if_neg this, if_neg hm]
  · exact match7Loop_spec closed _ m iop _ k h1 h2

end WuffsVerif.Props.C03
