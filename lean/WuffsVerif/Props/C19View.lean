/-
C19, the pixel-value clause: "... with the same dimensions and pixel values (alpha forced opaque for
the RGBX type)".

`png_roundtrip` (Props/C19.lean) gives the decoded image as PNG sample bytes.  Here the same result is
stated the way a standard decoder reports it — `Spec.Image.rgba`, the (R, G, B, A) tuple of a pixel at
the image's bit depth, which the harness compares with Go's image/png pixel by pixel (`stdview` op) —
against what the caller's buffer means (`inputRGBA`):

* ColorTypeGray  → PNG colour type 0; (Y, Y, Y, full);
* ColorTypeRGBX  → PNG colour type 2, truecolour WITHOUT an alpha channel: the file holds three samples
  per pixel, the caller's 4th sample (X) is not written at all, and the decoder reports (R, G, B, full)
  whatever X was (`rgbx_alpha_opaque`, `rgbx_ignores_x`);
* ColorTypeNRGBA → PNG colour type 6; (R, G, B, A) with the caller's alpha.
-/
import WuffsVerif.Props.C19

namespace WuffsVerif.Props.C19
open WuffsVerif.Hash WuffsVerif.Png WuffsVerif.Png.Uncomp WuffsVerif.Gen.C19

/-- sample `c` of the caller's pixel starting at byte `off` of `pix`: one byte (Depth8) or two bytes
big-endian (Depth16) — the layout documented for `Encode`. -/
def inSample (pix : Array UInt8) (depth : UInt8) (off c : Nat) : Nat :=
  if depth = 16 then (rd pix (off + 2 * c)).toNat * 256 + (rd pix (off + 2 * c + 1)).toNat
  else (rd pix (off + c)).toNat

/-- what the caller's pixel at byte `off` means as (R, G, B, A) at its depth, per the documentation of
`ColorTypeGray` / `ColorTypeRGBX` ("the 4th channel is ignored") / `ColorTypeNRGBA`. -/
def inputRGBA (pix : Array UInt8) (depth colorType : UInt8) (off : Nat) : Nat × Nat × Nat × Nat :=
  let full := 2 ^ depth.toNat - 1
  if colorType = 1 then
    (inSample pix depth off 0, inSample pix depth off 0, inSample pix depth off 0, full)
  else if colorType = 2 then
    (inSample pix depth off 0, inSample pix depth off 1, inSample pix depth off 2, full)
  else
    (inSample pix depth off 0, inSample pix depth off 1, inSample pix depth off 2, inSample pix depth off 3)

theorem getD_of_getElem? (l : List UInt8) (i : Nat) (v : UInt8) (h : l[i]? = some v) : l.getD i 0 = v := by
  simp [List.getD, h]

/-- byte `j` of sample `c` of pixel `q`, when pixels have `ch` samples of `bps` bytes, is byte
`c*bps + j` of the pixel's `ch*bps` bytes -/
theorem sample_index (q ch bps c j : Nat) : (q * ch + c) * bps + j = q * (ch * bps) + (c * bps + j) := by
  rw [Nat.add_mul, Nat.mul_assoc, Nat.add_assoc]

/-- `decoded_pixel_values` (the pixel-value clause, over the model, all inputs): under the hypotheses of
`png_roundtrip` the reference decoder returns an image of the same width and height whose pixel (x, y),
as a standard decoder reports it, is the caller's pixel at `pix[y*stride + k*x ..]` — with full opacity
for Gray and RGBX (whose X sample never reaches the file). -/
theorem decoded_pixel_values (e : Enc) (pix : Array UInt8) (plen width height stride : Nat) (depth colorType : UInt8)
    (he : Usable e) (hlen : pix.size < 2 ^ 63) (hple : plen ≤ pix.size)
    (hw : 0 < width) (hw2 : width ≤ 0xFFFFFF) (hh : 0 < height) (hh2 : height ≤ 0xFFFFFF)
    (hd : depth = 8 ∨ depth = 16) (hc : colorType = 1 ∨ colorType = 2 ∨ colorType = 3)
    (hpix : (height - 1) * stride + (loopParams depth colorType).2 * width ≤ plen) :
    ∃ im, Spec.decode (concatWrites (encode e (Writer.new none) pix plen width height stride depth colorType).w) = some im ∧
      im.width = width ∧ im.height = height ∧ im.depth = depth.toNat ∧
      im.colorType = (pngFileFormatEncoding colorType).toNat ∧
      ∀ x y, x < width → y < height →
        im.rgba x y = some (inputRGBA pix depth colorType (y * stride + (loopParams depth colorType).2 * x)) := by
  have h := (png_roundtrip e pix plen width height stride depth colorType he hlen hple hw hw2 hh hh2 hd hc hpix).2
  refine ⟨_, h, rfl, rfl, rfl, rfl, ?_⟩
  intro x y hx hy
  have hrows : ∀ y', y' < height → y' * stride + (loopParams depth colorType).2 * width ≤ pix.size := by
    intro y' h2
    have : y' * stride ≤ (height - 1) * stride := Nat.mul_le_mul_right _ (by omega)
    omega
  obtain ⟨ch, _, hn, hnk, _⟩ := loopParams_cases depth colorType hd hc
  have hget := (decoded_pixels_pointwise pix (loopParams depth colorType).1 (loopParams depth colorType).2
    width stride height hnk hrows).2 y x
  generalize imageBytes pix (loopParams depth colorType).1 (loopParams depth colorType).2 width stride height 0 = P at *
  -- byte `i` of the pixel, for the six formats
  have hb : ∀ i, i < (loopParams depth colorType).1 →
      P.getD ((y * width + x) * (loopParams depth colorType).1 + i) 0
        = rd pix (y * stride + (loopParams depth colorType).2 * x + i) :=
    fun i hi => getD_of_getElem? _ _ _ (hget i hy hx hi)
  simp only [Spec.Image.rgba, Spec.Image.sample, Spec.Image.maxval, hx, hy, and_self, ↓reduceIte]
  generalize y * width + x = q at *
  generalize y * stride + (loopParams depth colorType).2 * x = off at *
  rcases hd with rfl | rfl <;> rcases hc with rfl | rfl | rfl
  all_goals
    simp only [loopParams, pngFileFormatEncoding, inputRGBA, inSample] at hb ⊢
    simp (decide := true) only [↓reduceIte, Nat.reduceDiv, UInt8.toNat_ofNat, Nat.reducePow, Nat.reduceSub,
      Nat.reduceMod] at hb ⊢
    simp only [Nat.add_mul, Nat.mul_assoc, Nat.one_mul, Nat.mul_one, Nat.add_assoc, Nat.zero_mul,
      Nat.mul_zero, Nat.reduceMul, Nat.reduceAdd] at hb ⊢
    simp (disch := omega) only [hb]

/-- `rgbx_alpha_opaque` (the alpha clause of the property): for `ColorTypeRGBX` the file's colour type is
2 — truecolour, three samples per pixel, no alpha channel — and every pixel is reported with the maximal
alpha value of its depth (255 or 65535) and the caller's R, G, B. -/
theorem rgbx_alpha_opaque (e : Enc) (pix : Array UInt8) (plen width height stride : Nat) (depth : UInt8)
    (he : Usable e) (hlen : pix.size < 2 ^ 63) (hple : plen ≤ pix.size)
    (hw : 0 < width) (hw2 : width ≤ 0xFFFFFF) (hh : 0 < height) (hh2 : height ≤ 0xFFFFFF)
    (hd : depth = 8 ∨ depth = 16)
    (hpix : (height - 1) * stride + (loopParams depth 2).2 * width ≤ plen) :
    ∃ im, Spec.decode (concatWrites (encode e (Writer.new none) pix plen width height stride depth 2).w) = some im ∧
      im.colorType = 2 ∧ Spec.channels im.colorType = some 3 ∧
      ∀ x y, x < width → y < height →
        im.rgba x y = some (inSample pix depth (y * stride + (loopParams depth 2).2 * x) 0,
                            inSample pix depth (y * stride + (loopParams depth 2).2 * x) 1,
                            inSample pix depth (y * stride + (loopParams depth 2).2 * x) 2,
                            2 ^ depth.toNat - 1) := by
  obtain ⟨im, h1, _, _, _, h5, h6⟩ :=
    decoded_pixel_values e pix plen width height stride depth 2 he hlen hple hw hw2 hh hh2 hd (Or.inr (Or.inl rfl)) hpix
  have hct : im.colorType = 2 := by rw [h5]; decide
  refine ⟨im, h1, hct, by rw [hct]; rfl, ?_⟩
  intro x y hx hy
  rw [h6 x y hx hy]
  simp [inputRGBA]

/-- non-vacuity and a concrete instance: a 1×1 RGBX pixel (1, 2, 3, X = 0x55) on a fresh encoder decodes
to (1, 2, 3, 255). -/
example : ∃ im, Spec.decode (concatWrites (encode Enc.new (Writer.new none) #[1, 2, 3, 0x55] 4 1 1 4 8 2).w) = some im ∧
    im.rgba 0 0 = some (1, 2, 3, 255) := by
  obtain ⟨im, h1, _, _, h4⟩ := rgbx_alpha_opaque Enc.new #[1, 2, 3, 0x55] 4 1 1 4 8 new_usable (by decide) (by decide) (by decide)
    (by decide) (by decide) (by decide) (Or.inl rfl) (by decide)
  exact ⟨im, h1, by rw [h4 0 0 (by decide) (by decide)]; decide⟩

/-- two pixel buffers that agree on the bytes `Encode` copies (the first `n` of every `k`) give the same
decoded pixel bytes -/
theorem imageBytes_congr (pix pix' : Array UInt8) (n k width stride height : Nat) (hnk : n ≤ k) (hn : 0 < n)
    (hw : 0 < width)
    (hpix : ∀ y, y < height → y * stride + k * width ≤ pix.size)
    (hpix' : ∀ y, y < height → y * stride + k * width ≤ pix'.size)
    (heq : ∀ y x i, y < height → x < width → i < n →
      rd pix (y * stride + k * x + i) = rd pix' (y * stride + k * x + i)) :
    imageBytes pix n k width stride height 0 = imageBytes pix' n k width stride height 0 := by
  obtain ⟨l1, g1⟩ := decoded_pixels_pointwise pix n k width stride height hnk hpix
  obtain ⟨l2, g2⟩ := decoded_pixels_pointwise pix' n k width stride height hnk hpix'
  apply List.ext_getElem?
  intro m
  by_cases hm : m < height * (width * n)
  · have hi : m % n < n := Nat.mod_lt m hn
    have hx : m / n % width < width := Nat.mod_lt _ hw
    have hp : m / n < height * width := by
      rw [Nat.div_lt_iff_lt_mul hn, Nat.mul_assoc]; exact hm
    have hy : m / n / width < height := by
      rw [Nat.div_lt_iff_lt_mul hw]; exact hp
    have e1 : (m / n / width * width + m / n % width) * n + m % n = m := by
      rw [Nat.mul_comm (m / n / width) width, Nat.div_add_mod, Nat.mul_comm, Nat.div_add_mod]
    have a := g1 _ _ _ hy hx hi
    have b := g2 _ _ _ hy hx hi
    rw [e1] at a b
    rw [a, b, heq _ _ _ hy hx hi]
  · rw [List.getElem?_eq_none (by omega), List.getElem?_eq_none (by omega)]

/-- `rgbx_ignores_x` ("the 4th channel is ignored"): two RGBX buffers that differ only in their X
samples encode to files that decode to the same image. -/
theorem rgbx_ignores_x (e e' : Enc) (pix pix' : Array UInt8) (plen plen' width height stride : Nat) (depth : UInt8)
    (he : Usable e) (he' : Usable e') (hlen : pix.size < 2 ^ 63) (hlen' : pix'.size < 2 ^ 63)
    (hple : plen ≤ pix.size) (hple' : plen' ≤ pix'.size)
    (hw : 0 < width) (hw2 : width ≤ 0xFFFFFF) (hh : 0 < height) (hh2 : height ≤ 0xFFFFFF)
    (hd : depth = 8 ∨ depth = 16)
    (hpix : (height - 1) * stride + (loopParams depth 2).2 * width ≤ plen)
    (hpix' : (height - 1) * stride + (loopParams depth 2).2 * width ≤ plen')
    (hsame : ∀ y x i, y < height → x < width → i < (loopParams depth 2).1 →
      rd pix (y * stride + (loopParams depth 2).2 * x + i) = rd pix' (y * stride + (loopParams depth 2).2 * x + i)) :
    Spec.decode (concatWrites (encode e (Writer.new none) pix plen width height stride depth 2).w) =
    Spec.decode (concatWrites (encode e' (Writer.new none) pix' plen' width height stride depth 2).w) := by
  have hrows : ∀ (p : Array UInt8), (height - 1) * stride + (loopParams depth 2).2 * width ≤ p.size →
      ∀ y, y < height → y * stride + (loopParams depth 2).2 * width ≤ p.size := by
    intro p hp y' h2
    have : y' * stride ≤ (height - 1) * stride := Nat.mul_le_mul_right _ (by omega)
    omega
  obtain ⟨ch, _, _, hnk, _⟩ := loopParams_cases depth 2 hd (Or.inr (Or.inl rfl))
  have hn : 0 < (loopParams depth 2).1 := by rcases hd with rfl | rfl <;> decide
  rw [(png_roundtrip e pix plen width height stride depth 2 he hlen hple hw hw2 hh hh2 hd (Or.inr (Or.inl rfl)) hpix).2,
    (png_roundtrip e' pix' plen' width height stride depth 2 he' hlen' hple' hw hw2 hh hh2 hd (Or.inr (Or.inl rfl)) hpix').2,
    imageBytes_congr pix pix' _ _ width stride height hnk hn hw (hrows pix (by omega)) (hrows pix' (by omega)) hsame]

end WuffsVerif.Props.C19
