/-
C18 — the whole-file statement in explicit terms, and the "exactly the required number of units"
half that `entropy_roundtrip` does not state:

* `reset_ok_quants`   : the tables a successful `Reset` installs (and therefore declares in DQT and
                        divides by) are the caller's tables, or the standard ones for nil options;
* `expectBlock_natural`: `expectBlock` is, index by index in natural order, `div b[i] q[i]`;
* `entropy_roundtrip_explicit` : `entropy_roundtrip` with everything spelled out in terms of the
                        arguments of `Reset` and `AddN` only;
* `too_few_units_not_a_file` : with fewer units than required every `AddN` still succeeds, but the
                        bytes written so far are NOT a JPEG file (no EOI; the T.81 decoder rejects
                        them) and the Encoder still waits for the missing units.
-/
import WuffsVerif.Props.C18Entropy

namespace WuffsVerif.Props.C18
open WuffsVerif.Gen.C18 WuffsVerif.Jpeg WuffsVerif.Jpeg.Buf WuffsVerif.Jpeg.Bits WuffsVerif.Jpeg.Tab
open WuffsVerif.Jpeg.Huff WuffsVerif.Jpeg.Scan WuffsVerif.Jpeg.Hdr

/-! ### which tables -/

/-- the quantisation tables in force after a successful `Reset`: the caller's pair (which is
    then valid: no zero factor), or `SetToStandardValues(DefaultQuality)` for nil options -/
theorem reset_ok_quants (e : Encoder) (ct : Nat) (w h : Int) (qs : Option (Quant × Quant)) (out : Array Nat)
    (hok : (reset e false ct w h qs).2 = .ok out) :
    (qs = none → (reset e false ct w h qs).1.quants0 = setToStandardValues 0 defaultQuality ∧
                 (reset e false ct w h qs).1.quants1 = setToStandardValues 1 defaultQuality) ∧
    (∀ q0 q1, qs = some (q0, q1) → (reset e false ct w h qs).1.quants0 = q0 ∧
                 (reset e false ct w h qs).1.quants1 = q1 ∧ quantIsValid q0 = true ∧ quantIsValid q1 = true) := by
  have fin : ∀ e', (resetFinish e' false ct w h).2 = .ok out →
      (resetFinish e' false ct w h).1.quants0 = e'.quants0 ∧ (resetFinish e' false ct w h).1.quants1 = e'.quants1 := by
    intro e' h'
    obtain ⟨e1, out1, hs, _, _, _, _, _, _, _, _, c1, c2⟩ := resetFinish_shape e' false ct w h
    rw [hs] at h' ⊢
    rcases finishWrite_cases e1 out1 false with ⟨_, hf⟩ | ⟨_, hf, _⟩ | ⟨_, _, hf⟩
    · rw [hf] at h'; simp at h'
    · cases hf
    · rw [hf]; exact ⟨c1, c2⟩
  revert hok
  unfold reset
  split
  · intro hok; cases hok
  · cases qs with
    | none =>
      simp only
      intro hok
      have := fin _ hok
      exact ⟨fun _ => this, fun q0 q1 hq => by cases hq⟩
    | some p =>
      obtain ⟨q0, q1⟩ := p
      simp only
      split
      · intro hok; cases hok
      · rename_i hv
        intro hok
        have := fin _ hok
        refine ⟨fun hq => (by cases hq), fun a b hq => ?_⟩
        simp only [Option.some.injEq, Prod.mk.injEq] at hq
        obtain ⟨rfl, rfl⟩ := hq
        simp only [Bool.or_eq_true, Bool.not_eq_true', not_or, Bool.not_eq_false] at hv
        exact ⟨this.1, this.2, hv.1, hv.2⟩

/-! ### which numbers -/

/-- block `b` quantised by table `q`, natural order: `div b[i] q[i]` (rounded to nearest, see
    `div_rounds_nearest`) -/
def quantNat (q : Quant) (b : Block) : List Int :=
  (List.range 64).map (fun i => div (b.getD i 0) (((q.getD i 0 : Nat)) : Int))

theorem quantisedZZ_eq (q : Quant) (b : Block) :
    quantisedZZ q b =
      (List.range 64).map (fun z => div (b.getD (zigzag.getD z 0) 0) (((q.getD (zigzag.getD z 0) 0 : Nat)) : Int)) := by
  have hr : List.range 64 = 0 :: List.range' 1 63 := by decide
  have hz : zigzag.getD 0 0 = 0 := by decide
  rw [hr, List.map_cons, hz]
  rfl

/-- the Spec's reordering of what `encodeBlock` writes is the natural-order quotient table -/
theorem dezigzag_quantisedZZ (q : Quant) (b : Block) : Spec.dezigzag 0 (quantisedZZ q b) = quantNat q b := by
  unfold Spec.dezigzag quantNat
  apply List.map_congr_left
  intro i hi
  have hf := (List.all_eq_true.mp zigzag_inverse) i hi
  simp only [Bool.and_eq_true, decide_eq_true_eq, beq_iff_eq] at hf
  rw [quantisedZZ_eq, List.getD_eq_getElem?_getD, List.getElem?_map, List.getElem?_range hf.1]
  simp only [Option.map_some, Option.getD_some]
  rw [getD_toList zigzag, zigzag_eq, hf.2]

/-- **what the file holds for one block**: index by index, the coefficient divided by its
    quantisation factor (luma table for component 0, chroma table otherwise) -/
theorem expectBlock_natural (e : Encoder) (c : Nat) (b : Block) :
    expectBlock e c b = quantNat (if c = 0 then e.quants0 else e.quants1) b := by
  unfold expectBlock
  rw [dezigzag_quantisedZZ]
  congr 1
  unfold Encoder.quants baseOf
  by_cases hc : c = 0
  · subst hc; simp
  · have : c > 0 := by omega
    simp [this, hc]

/-- the blocks of a file, from the arguments alone: for every unit, for every block of the unit
    with its component (`whichComponents`: Y | Y Cb Cr | Y Y Y Y Cb Cr), `quantNat` by the luma
    (`q0`) or chroma (`q1`) table -/
def fileBlocks (ct : Nat) (q0 q1 : Quant) (us : List (List Block)) : List (List Int) :=
  us.flatMap (fun u => (List.zip (whichComponents ct) u).map (fun cb => quantNat (if cb.1 = 0 then q0 else q1) cb.2))

theorem expectAll_eq (e : Encoder) (ct : Nat) (us : List (List Block)) :
    expectAll e ct us = fileBlocks ct e.quants0 e.quants1 us := by
  unfold expectAll fileBlocks expectUnit
  apply flatMap_congr'
  intro u _
  apply List.map_congr_left
  intro cb _
  exact expectBlock_natural e cb.1 cb.2

/-- the tables in force: the caller's, or the standard ones -/
def tablesOf (qs : Option (Quant × Quant)) : Quant × Quant :=
  match qs with
  | some p => p
  | none => (setToStandardValues 0 defaultQuality, setToStandardValues 1 defaultQuality)

/-- **entropy_roundtrip, spelled out.**  For every reachable Encoder `e0`, size `w × h`, colour
    type `ct`, table pair `qs` (or nil options) and list `us` of exactly `units ct w h` valid units:
    if `Reset(w, ct, width, height, options)` succeeds (which, by `reset_bad_argument` and
    `reset_ok_state`, it does iff the arguments are in range), then every `AddN` succeeds and
    `Spec.decode` of all bytes written is

      width, height — the arguments;
      components — ids 1 (2, 3), sampling 1×1 (2×2 for the luma of 4:2:0), tables 0 / 1 / 1;
      quantisation tables — the caller's `q0` (`q1`, `q1`), natural order;
      blocks — in coding order, block for block and index for index `div b[i] q[i]`
               (= b[i] / q[i] rounded to nearest, ties away from zero: `div_rounds_nearest`). -/
theorem entropy_roundtrip_explicit (e0 : Encoder) (ct : Nat) (w h : Int) (qs : Option (Quant × Quant))
    (hdr : Array Nat) (us : List (List Block)) (hw : WF e0)
    (hq : ∀ q0 q1, qs = some (q0, q1) → QBytes q0 ∧ QBytes q1)
    (hok : (reset e0 false ct w h qs).2 = .ok hdr)
    (hn : us.length = units ct w h)
    (hus : ∀ u ∈ us, u.length = ct ∧ ∀ b ∈ u, blockIsValid b = true) :
    ∃ ws : List (Array Nat),
      (runAdds ct (reset e0 false ct w h qs).1 us).2 = ws.map Res.ok ∧
      Spec.decode (hdr.toList ++ ws.flatMap Array.toList) =
        some ⟨w.toNat, h.toNat, expectComps ct,
          (if ct = 1 then [natTable (tablesOf qs).1]
           else [natTable (tablesOf qs).1, natTable (tablesOf qs).2, natTable (tablesOf qs).2]),
          fileBlocks ct (tablesOf qs).1 (tablesOf qs).2 us⟩ := by
  obtain ⟨ws, r1, r2⟩ := entropy_roundtrip e0 ct w h qs hdr us hw hq hok hn hus
  refine ⟨ws, r1, ?_⟩
  rw [r2, expectAll_eq]
  have hqq := reset_ok_quants e0 ct w h qs hdr hok
  have h0 : (reset e0 false ct w h qs).1.quants0 = (tablesOf qs).1 ∧
      (reset e0 false ct w h qs).1.quants1 = (tablesOf qs).2 := by
    cases qs with
    | none => exact hqq.1 rfl
    | some p =>
      obtain ⟨q0, q1⟩ := p
      have := hqq.2 q0 q1 rfl
      exact ⟨this.1, this.2.1⟩
  unfold expectQtabs
  rw [h0.1, h0.2]

/-! ### too few units -/

theorem splitECS_stuff_only (bytes : List Nat) : (Spec.splitECS (stuff bytes)).2 = [] := by
  induction bytes with
  | nil => simp [stuff, Spec.splitECS]
  | cons b bs ih =>
    simp only [stuff]
    split
    · simp only [Spec.splitECS, ↓reduceIte]
      exact ih
    · rename_i hb
      cases hbs : stuff bs with
      | nil => simp [Spec.splitECS, hb]
      | cons c cs =>
        simp only [Spec.splitECS, hb, ↓reduceIte]
        rw [← hbs]
        exact ih

/-- a scan whose entropy-coded bytes are not followed by exactly the EOI marker is rejected -/
theorem decodeScan_needs_eoi (t : Spec.Tables) (f : Spec.Frame) (sel : List (Nat × Nat)) (scan : List Nat)
    (h : (Spec.splitECS scan).2 ≠ [0xFF, 0xD9]) : Spec.decodeScan t f sel scan = none := by
  unfold Spec.decodeScan
  split
  · rfl
  · split
    · rfl
    · split
      · rfl
      · generalize Spec.splitECS scan = r at h ⊢
        obtain ⟨ecs, tail⟩ := r
        simp only
        split
        · rfl
        · have ht : (tail == [0xFF, 0xD9]) = false := by
            simp only at h
            exact beq_false_of_ne h
          simp [ht]

/-- a prefix of the units: every call succeeds, only stuffed entropy-coded bytes are written (no
    marker), and the Encoder keeps waiting -/
theorem scan_prefix (ct : Nat) (hct3 : ct = 1 ∨ ct = 3 ∨ ct = 6) (k : Nat) (us : List (List Block)) :
    ∀ (e : Encoder) (preds : List Int) (p : Nat), Inv e → Acc e p → e.hasReturnedError = false →
      e.colorType = ct → e.numAddsRemaining = us.length + (k + 1) → PredsRel e preds → preds.length = ncomp ct →
      (∀ u ∈ us, u.length = ct ∧ ∀ b ∈ u, blockIsValid b = true) →
      ∃ (ws : List (Array Nat)) (bytes : List Nat),
        (runAdds ct e us).2 = ws.map Res.ok ∧
        ws.flatMap Array.toList = stuff bytes ∧
        (runAdds ct e us).1.numAddsRemaining = k + 1 ∧
        (runAdds ct e us).1.hasReturnedError = false := by
  induction us with
  | nil =>
    intro e _ _ _ _ herr _ hk _ _ _
    exact ⟨[], [], rfl, by simp [stuff], by simpa [runAdds] using hk, herr⟩
  | cons u us ih =>
    intro e preds p hi ha herr hct hk hpr hpl hus
    have hu := hus u List.mem_cons_self
    obtain ⟨w, bytes1, p1, X1, preds1, a1, a2, a3, a4, a5, a6, a7, a8, a9, a10, a11, a12, a13⟩ :=
      add_unit e ct (us.length + (k + 1)) u preds p hi ha herr hct hct3 hu.1 hu.2
        (by simp only [List.length_cons] at hk; omega) hpr hpl
    obtain ⟨ws, bytes2, b1, b2, b3, b4⟩ :=
      ih (add e ct false (some u)).1 preds1 p1 a7 a8 a3 a4 a2 a9 (by rw [a10, hpl])
        (fun u' hu' => hus u' (List.mem_cons_of_mem _ hu'))
    have hk0 : ¬ us.length + (k + 1) = 0 := by omega
    simp only [hk0, ↓reduceIte, List.append_nil] at a11
    refine ⟨w :: ws, bytes1 ++ bytes2, ?_, ?_, b3, b4⟩
    · show (add e ct false (some u)).2 :: (runAdds ct (add e ct false (some u)).1 us).2 = _
      rw [a1, b1]; rfl
    · simp only [List.flatMap_cons, a11, b2, stuff_append]

/-- **too_few_units_not_a_file**: after a successful `Reset`, any list of FEWER valid units than
    the image needs is accepted call by call, but what has been written is not a JPEG file — the
    T.81 decoder rejects it (the entropy-coded data is not terminated by EOI) — and the Encoder
    still expects `units − us.length ≥ 1` more units without being in the error state.  Together
    with `entropy_roundtrip` (exactly `units` units ⇒ a complete file) and `units_then_too_many`
    (the next unit ⇒ `ErrTooManyAddNCalls`) this is "accepts exactly the required number of units
    and then ends the file". -/
theorem too_few_units_not_a_file (e0 : Encoder) (ct : Nat) (w h : Int) (qs : Option (Quant × Quant))
    (hdr : Array Nat) (us : List (List Block)) (hw : WF e0)
    (hq : ∀ q0 q1, qs = some (q0, q1) → QBytes q0 ∧ QBytes q1)
    (hok : (reset e0 false ct w h qs).2 = .ok hdr)
    (hn : us.length < units ct w h)
    (hus : ∀ u ∈ us, u.length = ct ∧ ∀ b ∈ u, blockIsValid b = true) :
    ∃ ws : List (Array Nat),
      (runAdds ct (reset e0 false ct w h qs).1 us).2 = ws.map Res.ok ∧
      Spec.decode (hdr.toList ++ ws.flatMap Array.toList) = none ∧
      (runAdds ct (reset e0 false ct w h qs).1 us).1.numAddsRemaining = units ct w h - us.length ∧
      (runAdds ct (reset e0 false ct w h qs).1 us).1.hasReturnedError = false := by
  obtain ⟨n1, n2, hct, w1, w2, h1, h2, hct3⟩ := reset_ok_state e0 ct w h qs hdr hok
  have hrd := reset_ok_ready e0 ct w h qs hdr hw hq hok
  have hacc : Acc (reset e0 false ct w h qs).1 0 :=
    ⟨by omega, by rw [hrd.2.1.1]; decide, by rw [hrd.2.1.2]; simp⟩
  have hpr : PredsRel (reset e0 false ct w h qs).1 (List.replicate (ncomp ct) 0) := by
    refine ⟨by unfold ncomp; split <;> simp, fun c hc => ?_⟩
    have : (List.replicate (ncomp ct) (0 : Int)).getD c 0 = 0 := by
      rw [List.getD_eq_getElem?_getD, List.getElem?_replicate]; split <;> rfl
    rw [this]
    unfold Encoder.prevDC
    split
    · exact hrd.2.2.1.symm
    · split
      · exact hrd.2.2.2.1.symm
      · exact hrd.2.2.2.2.symm
  obtain ⟨ws, bytes, s1, s2, s3, s4⟩ :=
    scan_prefix ct hct3 (units ct w h - us.length - 1) us (reset e0 false ct w h qs).1
      (List.replicate (ncomp ct) 0) 0 hrd.1 hacc n2 hct (by rw [n1]; omega) hpr (by simp) hus
  refine ⟨ws, s1, ?_, by rw [s3]; omega, s4⟩
  rw [reset_ok_header e0 ct w h qs hdr hok, s2]
  have hne : (Spec.splitECS (stuff bytes)).2 ≠ [0xFF, 0xD9] := by
    rw [splitECS_stuff_only]; simp
  generalize reset e0 false ct w h qs = r at *
  obtain ⟨e', res⟩ := r
  simp only at hct ⊢
  by_cases hc1 : ct = 1
  · subst hc1
    rw [header_gray e' w h hct, parse_header_gray _ w h (by omega) w2 (by omega) h2]
    exact decodeScan_needs_eoi _ _ _ _ hne
  · have hne1 : e'.colorType ≠ 1 := by rw [hct]; exact hc1
    rw [header_color e' w h hne1, hct, parse_header_color ct _ _ w h (by omega) w2 (by omega) h2]
    exact decodeScan_needs_eoi _ _ _ _ hne

/-- non-vacuity: a 16×8 gray image needs two units; one valid unit is "too few" -/
example : units 1 16 8 = 2 ∧ ([[Array.replicate 64 (0 : Int)]] : List (List Block)).length < units 1 16 8 := by
  decide

end WuffsVerif.Props.C18
