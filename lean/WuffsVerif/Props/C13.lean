/-
C13 — RAC writing then reading returns the original bytes, and the file is spec-valid;
errors are sticky.

Property theorems over the models of lib/rac/writer.go and chunk_writer.go
(`Model/Rac/WriteBuffer.lean`, `ChunkWriter.lean`, `Writer.lean`, written for the code as repaired by
fixes/C13-*.patch) and the independent reader `Model/Rac/Spec.lean` written from
doc/spec/rac-spec.md.  Helper lemmas: `Proof/Rac*.lean`.
-/
import WuffsVerif.Model.Rac.WriteBuffer
import WuffsVerif.Model.Rac.ChunkWriter
import WuffsVerif.Model.Rac.Writer
import WuffsVerif.Model.Rac.HCodec
import WuffsVerif.Model.Rac.Spec
import WuffsVerif.Proof.RacWBuf
import WuffsVerif.Proof.RacWriter
import WuffsVerif.Proof.RacGather
import WuffsVerif.Proof.RacFault

namespace WuffsVerif.Props.C13
open WuffsVerif.Rac

/-! ## 1. The write buffer refines a byte queue -/

/-- `wbuf_refines_queue`: with `abs b = b.prev.drop b.p ++ b.curr`,
* `extend c` appends `c` (it panics only if `curr` is non-empty),
* `length` is the queue's length,
* `peek n` returns the first `min n |abs|` bytes, split in two,
* `advance n` drops them,
* `advancePastLeadingZeroes` drops exactly the maximal run of leading zeroes *of the queue*
  and reports its length,
* `compact` preserves the queue, empties `curr` and resets `p`,
and the representation invariant `p ≤ |prev|` is preserved by all of them. -/
theorem wbuf_refines_queue (b : WBuf) (hwf : b.WF) :
    (∀ c, b.curr = [] → ∃ b', b.extend c = some b' ∧ b'.abs = b.abs ++ c ∧ b'.WF) ∧
    b.length = b.abs.length ∧
    (∀ n, (b.peek n).1 ++ (b.peek n).2 = b.abs.take n) ∧
    (∀ n, n ≤ b.length → (b.advance n).abs = b.abs.drop n ∧ (b.advance n).WF) ∧
    (let r := b.advancePastLeadingZeroes
     r.2 = countLeadingZeroes b.abs ∧
     b.abs = List.replicate r.2 0 ++ r.1.abs ∧ r.1.abs.head? ≠ some 0 ∧ r.1.WF) ∧
    (b.compact.abs = b.abs ∧ b.compact.curr = [] ∧ b.compact.p = 0 ∧ b.compact.WF) := by
  refine ⟨?_, WBuf.length_eq b, WBuf.peek_refines b, ?_, ?_, WBuf.compact_refines b⟩
  · intro c hc
    exact ⟨_, (WBuf.extend_refines b c hc).1, (WBuf.extend_refines b c hc).2, hwf⟩
  · intro n hn
    exact ⟨WBuf.advance_refines b n hn, WBuf.advance_WF b n hwf⟩
  · obtain ⟨h1, h2, h3⟩ := WBuf.apz_refines b hwf
    refine ⟨h1, ?_, ?_, h3⟩
    · rw [h2, h1, ← take_countLeadingZeroes, List.take_append_drop]
    · rw [h2, h1]; exact head_drop_countLeadingZeroes _

/-- non-vacuity: a well-formed buffer with bytes left in `prev` and zeroes at the start of `curr` -/
example : (⟨[9, 0, 1], [0, 2], 1⟩ : WBuf).WF ∧
    (⟨[9, 0, 1], [0, 2], 1⟩ : WBuf).advancePastLeadingZeroes = (⟨[9, 0, 1], [0, 2], 2⟩, 1) := by
  decide

/-- The defect found on the pinned tree: `advancePastLeadingZeroes` as it was written does NOT
refine the queue — on `prev = [0,1]`, `curr = [0,2]` it reports 2 zeroes and leaves the queue
`[1,2]`, silently dropping the zero that follows the `1`. (Repaired by
fixes/C13-advance-past-zeroes.patch; `wbuf_refines_queue` is about the repaired function.) -/
theorem orig_apz_witness :
    ∃ b : WBuf, b.WF ∧ b.advancePastLeadingZeroesOrig.1.abs ≠ b.abs.drop b.advancePastLeadingZeroesOrig.2 :=
  ⟨⟨[0, 1], [0, 2], 0⟩, by decide⟩

/-! ## 2. The chunks cover the input -/

/-- `chunks_cover_input`: for every codec meeting its contract, every configuration (chunk sizing
mode, sizes, page size, index location, temp file, resources, fault position), every sequence `ps`
of `Write` calls on a fresh `Writer` — whatever those calls returned — if `Close` returns nil then
the chunks handed to `ChunkWriter.AddChunk`, decompressed and zero-filled to their `dRangeSize`,
concatenate to exactly `ps.flatten`.  Covers both `writeDChunks` (trailing-zero stripping) and
`writeCChunks` (doubling search, `Cut`, leading-zero elision). -/
theorem chunks_cover_input (cw : CodecW) (D : Bytes → Option Bytes) (hc : CodecContract cw D)
    (w0 : Writer) (hfresh : w0.err = none ∧ w0.closed = false ∧ w0.chunkWriter.log = [] ∧ w0.uncompressed = {})
    (ps : List Bytes)
    (hok : ((Writer.runWrites cw w0 ps).Close cw).2 = none) :
    Covers D ((Writer.runWrites cw w0 ps).Close cw).1.chunkWriter.log ps.flatten := by
  obtain ⟨h1, h2, h3, h4⟩ := hfresh
  have hinv0 : InvB D w0 [] := by
    right
    refine ⟨by rw [h4], by rw [h4], [], by rw [h3]; exact Covers.nil, by rw [h4]; rfl⟩
  obtain ⟨hinv, hcl⟩ := runWrites_inv cw D hc ps w0 [] hinv0 h2
  simp only [List.nil_append] at hinv
  exact Close_covers cw D hc _ _ hinv hcl hok

/-- non-vacuity of the codec contract: the identity codec (cut = truncate) meets it -/
example : CodecContract
    { compress := fun p q _ => .ok ⟨0, p ++ q, -1, -1⟩, canCut := true,
      cut := fun _ enc m => .ok (enc, min m enc.length, min m enc.length),
      wrapResource := fun r => .ok r, close := none } some := by
  constructor
  · intro p q rs out h; simp at h; rw [← h]
  · intro c enc m enc' eLen dLen d h hd
    simp at h hd
    obtain ⟨rfl, rfl, rfl⟩ := h
    subst hd
    exact ⟨Nat.min_le_right _ _, rfl⟩

/-! ## 3. The index tree is well-formed -/

/-- `gather_wellformed`: for any non-empty list of leaf nodes (any resources, any number),
the tree built by `gather` is `Good`: every branch has at most 255 elements (254 next to the Codec
Element of a Long codec), lists — strictly sorted, duplicate-free — every resource its leaf children
use, has at most two resources per child, and is never the parent of a single branch child (so a
child's `DPtrMax` is smaller than its parent's: the RAC spec's anti-loop rule; this conjunct is
false for the pinned code, see fixes/C13-gather-lone-branch.patch). -/
theorem gather_wellformed (nodes : List WNode) (long : Bool) (hne : nodes ≠ [])
    (hleaf : ∀ o ∈ nodes, o.children = []) :
    (gather nodes long).Good (if long then 0xFE else 0xFF) :=
  gather_good nodes long hne hleaf

/-- non-vacuity / a concrete instance: 300 leaves with a resource each third leaf -/
example : (gather ((List.range 300).map fun i => WNode.leaf 1 i (if i % 3 = 0 then 1 else 0) 0 0) false).children.length = 2 := by
  decide +kernel

/-- In a `Good` branch no resource tag (STag/TTag of a leaf naming one of the branch's resources)
lands in the reserved zone `[0xC0, 0xFD]`: it is below `0xC0`, or `0xFF` for "no resource".
`tagBase` is 1 iff the branch starts with a Codec Element (Long codec, budget 254). -/
theorem resource_tag_not_reserved (budget tagBase : Nat) (cs : List WNode) (rs : List Nat) (r : Nat)
    (hb : budget + tagBase ≤ 255) (ht : tagBase ≤ 1) (h1 : cs.length + rs.length ≤ budget) (h2 : rs.length ≤ 2 * cs.length) :
    resourceToTagByte rs r tagBase < 0xC0 ∨ resourceToTagByte rs r tagBase = 0xFF := by
  unfold resourceToTagByte
  split
  · split
    · rename_i i hi
      left
      have hlt : i < rs.length := by
        unfold List.idxOf? at hi
        exact (List.findIdx?_eq_some_iff_getElem.mp hi).1
      omega
    · right; rfl
  · right; rfl

/-- a `Good` branch is accepted by `encodeNode`'s arity check -/
theorem good_arity_fits (n : WNode) (long : Bool) (h : n.Good (if long then 0xFE else 0xFF))
    (hb : n.children ≠ []) : n.children.length + n.resources.length + long.toNat ≤ 0xFF := by
  cases n with
  | mk d cs rs col s t c =>
    simp only [WNode.Good, WNode.children, WNode.resources] at h hb ⊢
    rcases h with h | h
    · exact absurd h hb
    · cases long <;> simp at h ⊢ <;> omega

/-! ## 4. Sticky errors -/

/-- once an error is recorded, `Write` returns it and changes nothing -/
theorem sticky_Write (cw : CodecW) (w : Writer) (p : Bytes) (e : Err) (h : w.err = some e) :
    w.Write cw p = (w, 0, some e) := by
  unfold Writer.Write Writer.init
  simp [h]

theorem closeSteps_skip (cw : CodecW) (w : Writer) (e : Err) (h : w.err = some e) :
    Writer.closeStep4 cw (Writer.closeStep3 (Writer.closeStep2 cw (Writer.closeStep1 cw w))) = w := by
  have h1 : Writer.closeStep1 cw w = w := by
    unfold Writer.closeStep1 Writer.init; simp [h]
  have h2 : Writer.closeStep2 cw w = w := by
    unfold Writer.closeStep2; simp [h]
  have h3 : Writer.closeStep3 w = w := by
    unfold Writer.closeStep3; simp [h]
  have h4 : Writer.closeStep4 cw w = w := by
    unfold Writer.closeStep4; simp [h]
  rw [h1, h2, h3, h4]

/-- once an error is recorded, `Close` returns it, keeps it, and writes nothing -/
theorem sticky_Close (cw : CodecW) (w : Writer) (e : Err) (h : w.err = some e) :
    (w.Close cw).2 = some e ∧ (w.Close cw).1.err = some e ∧
    (w.Close cw).1.chunkWriter = w.chunkWriter := by
  unfold Writer.Close
  by_cases hc : w.closed = true
  · simp [hc, h]
  · rw [if_neg hc]
    have hs := closeSteps_skip cw { w with closed := true } e h
    simp only
    rw [hs]
    simp [h]

/-- a successful `Close` leaves the sticky `errAlreadyClosed`, so every later call fails -/
theorem closed_is_sticky (cw : CodecW) (w : Writer) (hcl : w.closed = false) (h : (w.Close cw).2 = none) :
    (w.Close cw).1.err = some .alreadyClosed := by
  unfold Writer.Close at h ⊢
  rw [if_neg (by simp [hcl])] at h ⊢
  simp only at h ⊢
  split
  · rfl
  · rename_i hn
    rw [if_neg hn] at h
    simp only at h
    simp [h] at hn

/-- `first_error_sticky`: for every codec and every state `w` of a `Writer`,
(a) if an underlying `io.Writer`/TempFile call fails during `Write(p)`, that `Write` returns an
    error and records that same error;
(b) likewise for `Close` (a `Close` that returns nil has seen no failure);
(c) a recorded error is returned, unchanged and without any further output, by every later
    `Write` and by `Close` — so `Close` is never nil after a failure. -/
theorem first_error_sticky (cw : CodecW) (w : Writer) :
    (∀ p, (w.Write cw p).1.chunkWriter.io.faulted ≠ w.chunkWriter.io.faulted →
      ∃ x, (w.Write cw p).2.2 = some x ∧ (w.Write cw p).1.err = some x) ∧
    (w.closed = false → (w.Close cw).1.chunkWriter.io.faulted ≠ w.chunkWriter.io.faulted →
      ∃ x, (w.Close cw).2 = some x ∧ (w.Close cw).1.err = some x) ∧
    (∀ x, w.err = some x →
      (∀ p, w.Write cw p = (w, 0, some x)) ∧ (w.Close cw).2 = some x ∧ (w.Close cw).1.err = some x ∧
      (w.Close cw).1.chunkWriter = w.chunkWriter) := by
  refine ⟨?_, ?_, ?_⟩
  · intro p hne
    have h := Writer.Write_reports cw w p
    generalize (w.Write cw p).2.2 = e at *
    cases e with
    | none => exact absurd h hne
    | some x =>
      rcases h with h | h
      · exact absurd h hne
      · exact ⟨x, rfl, h⟩
  · intro hcl hne
    cases hr : (w.Close cw).2 with
    | none => exact absurd (Writer.Close_reports cw w hcl hr) hne
    | some x => exact ⟨x, rfl, Writer.Close_records cw w x hr⟩
  · intro x hx
    exact ⟨fun p => sticky_Write cw w p x hx, sticky_Close cw w x hx⟩

/-- non-vacuity: the very first underlying call (writing the magic) fails during `Write` -/
example :
    let cw := HCodec.codecW { codec := 0x3E00000000000000, oob := false }
    let w : Writer := { dChunkSizeCfg := 1, chunkWriter := { io := { failAt := 1 } } }
    (w.Write cw [7]).2.2 = some .fault ∧ (w.Write cw [7]).1.chunkWriter.io.faulted = true := by
  decide +kernel

end WuffsVerif.Props.C13
