/-
C13 — RAC writing then reading returns the original bytes, and the file is spec-valid;
errors are sticky.

Property theorems over the models of lib/rac/writer.go and chunk_writer.go
(`Model/Rac/WriteBuffer.lean`, `ChunkWriter.lean`, `Writer.lean`, written for the code as repaired by
fixes/C13-*.patch) and the independent reader `Model/Rac/Spec.lean` written from
doc/spec/rac-spec.md.  Helper lemmas: `Proof/Rac*.lean`.
-/
import WuffsVerif.Model.Rac.WriteBuffer
import WuffsVerif.Model.Rac.ChunkWriter
import WuffsVerif.Model.Rac.Writer
import WuffsVerif.Model.Rac.HCodec
import WuffsVerif.Model.Rac.Spec
import WuffsVerif.Proof.RacWBuf
import WuffsVerif.Proof.RacWriter
import WuffsVerif.Proof.RacGather
import WuffsVerif.Proof.RacFault
import WuffsVerif.Proof.RacTermination
import WuffsVerif.Proof.RacAntiLoop
import WuffsVerif.Proof.RacHCodec
import WuffsVerif.Proof.RacCrc
import WuffsVerif.Proof.RacRoundtrip
import WuffsVerif.Proof.RacToyCodec
import WuffsVerif.Proof.RacResources
import WuffsVerif.Proof.RacRoundtripR
import WuffsVerif.Proof.RacDict
import WuffsVerif.Proof.RacDictCodec

namespace WuffsVerif.Props.C13
open WuffsVerif.Rac

/-! ## 1. The write buffer refines a byte queue -/

/-- `wbuf_refines_queue`: with `abs b = b.prev.drop b.p ++ b.curr`,
* `extend c` appends `c` (it panics only if `curr` is non-empty),
* `length` is the queue's length,
* `peek n` returns the first `min n |abs|` bytes, split in two,
* `advance n` drops them,
* `advancePastLeadingZeroes` drops exactly the maximal run of leading zeroes *of the queue*
  and reports its length,
* `compact` preserves the queue, empties `curr` and resets `p`,
and the representation invariant `p ≤ |prev|` is preserved by all of them. -/
theorem wbuf_refines_queue (b : WBuf) (hwf : b.WF) :
    (∀ c, b.curr = [] → ∃ b', b.extend c = some b' ∧ b'.abs = b.abs ++ c ∧ b'.WF) ∧
    b.length = b.abs.length ∧
    (∀ n, (b.peek n).1 ++ (b.peek n).2 = b.abs.take n) ∧
    (∀ n, n ≤ b.length → (b.advance n).abs = b.abs.drop n ∧ (b.advance n).WF) ∧
    (let r := b.advancePastLeadingZeroes
     r.2 = countLeadingZeroes b.abs ∧
     b.abs = List.replicate r.2 0 ++ r.1.abs ∧ r.1.abs.head? ≠ some 0 ∧ r.1.WF) ∧
    (b.compact.abs = b.abs ∧ b.compact.curr = [] ∧ b.compact.p = 0 ∧ b.compact.WF) := by
  refine ⟨?_, WBuf.length_eq b, WBuf.peek_refines b, ?_, ?_, WBuf.compact_refines b⟩
  · intro c hc
    exact ⟨_, (WBuf.extend_refines b c hc).1, (WBuf.extend_refines b c hc).2, hwf⟩
  · intro n hn
    exact ⟨WBuf.advance_refines b n hn, WBuf.advance_WF b n hwf⟩
  · obtain ⟨h1, h2, h3⟩ := WBuf.apz_refines b hwf
    refine ⟨h1, ?_, ?_, h3⟩
    · rw [h2, h1, ← take_countLeadingZeroes, List.take_append_drop]
    · rw [h2, h1]; exact head_drop_countLeadingZeroes _

/-- non-vacuity: a well-formed buffer with bytes left in `prev` and zeroes at the start of `curr` -/
example : (⟨[9, 0, 1], [0, 2], 1⟩ : WBuf).WF ∧
    (⟨[9, 0, 1], [0, 2], 1⟩ : WBuf).advancePastLeadingZeroes = (⟨[9, 0, 1], [0, 2], 2⟩, 1) := by
  decide

/-- The defect found on the pinned tree: `advancePastLeadingZeroes` as it was written does NOT
refine the queue — on `prev = [0,1]`, `curr = [0,2]` it reports 2 zeroes and leaves the queue
`[1,2]`, silently dropping the zero that follows the `1`. (Repaired by
fixes/C13-advance-past-zeroes.patch; `wbuf_refines_queue` is about the repaired function.) -/
theorem orig_apz_witness :
    ∃ b : WBuf, b.WF ∧ b.advancePastLeadingZeroesOrig.1.abs ≠ b.abs.drop b.advancePastLeadingZeroesOrig.2 :=
  ⟨⟨[0, 1], [0, 2], 0⟩, by decide⟩

/-! ## 2. The chunks cover the input -/

/-- `chunks_cover_input`: for every codec meeting its contract, every configuration (chunk sizing
mode, sizes, page size, index location, temp file, resources, fault position), every sequence `ps`
of `Write` calls on a fresh `Writer` — whatever those calls returned — if `Close` returns nil then
the chunks handed to `ChunkWriter.AddChunk`, decompressed and zero-filled to their `dRangeSize`,
concatenate to exactly `ps.flatten`.  Covers both `writeDChunks` (trailing-zero stripping) and
`writeCChunks` (doubling search, `Cut`, leading-zero elision). -/
theorem chunks_cover_input (cw : CodecW) (D : Bytes → Option Bytes) (hc : CodecContract cw D)
    (w0 : Writer) (hfresh : w0.err = none ∧ w0.closed = false ∧ w0.chunkWriter.log = [] ∧ w0.uncompressed = {})
    (ps : List Bytes)
    (hok : ((Writer.runWrites cw w0 ps).Close cw).2 = none) :
    Covers D ((Writer.runWrites cw w0 ps).Close cw).1.chunkWriter.log ps.flatten := by
  obtain ⟨h1, h2, h3, h4⟩ := hfresh
  have hinv0 : InvB D w0 [] := by
    right
    refine ⟨by rw [h4], by rw [h4], [], by rw [h3]; exact Covers.nil, by rw [h4]; rfl⟩
  obtain ⟨hinv, hcl⟩ := runWrites_inv cw D hc ps w0 [] hinv0 h2
  simp only [List.nil_append] at hinv
  exact Close_covers cw D hc _ _ hinv hcl hok

/-- non-vacuity of the codec contract: the identity codec (cut = truncate) meets it -/
example : CodecContract
    { compress := fun p q _ => .ok ⟨0, p ++ q, -1, -1⟩, canCut := true,
      cut := fun _ enc m => .ok (enc, min m enc.length, min m enc.length),
      wrapResource := fun r => .ok r, close := none } some := by
  constructor
  · intro p q rs out h; simp at h; rw [← h]
  · intro c enc m enc' eLen dLen d h hd
    simp at h hd
    obtain ⟨rfl, rfl, rfl⟩ := h
    subst hd
    exact ⟨Nat.min_le_right _ _, rfl⟩

/-! ## 3. The index tree is well-formed -/

/-- `gather_wellformed`: for any non-empty list of leaf nodes (any resources, any number),
the tree built by `gather` is `Good`: every branch has at most 255 elements (254 next to the Codec
Element of a Long codec), lists — strictly sorted, duplicate-free — every resource its leaf children
use, has at most two resources per child, and is never the parent of a single branch child (so a
child's `DPtrMax` is smaller than its parent's: the RAC spec's anti-loop rule; this conjunct is
false for the pinned code, see fixes/C13-gather-lone-branch.patch). -/
theorem gather_wellformed (nodes : List WNode) (long : Bool) (hne : nodes ≠ [])
    (hleaf : ∀ o ∈ nodes, o.children = []) :
    (gather nodes long).Good (if long then 0xFE else 0xFF) :=
  gather_good nodes long hne hleaf

/-- non-vacuity / a concrete instance: 300 leaves with a resource each third leaf -/
example : (gather ((List.range 300).map fun i => WNode.leaf 1 i (if i % 3 = 0 then 1 else 0) 0 0) false).children.length = 2 := by
  decide +kernel

/-- In a `Good` branch no resource tag (STag/TTag of a leaf naming one of the branch's resources)
lands in the reserved zone `[0xC0, 0xFD]`: it is below `0xC0`, or `0xFF` for "no resource".
`tagBase` is 1 iff the branch starts with a Codec Element (Long codec, budget 254). -/
theorem resource_tag_not_reserved (budget tagBase : Nat) (cs : List WNode) (rs : List Nat) (r : Nat)
    (hb : budget + tagBase ≤ 255) (ht : tagBase ≤ 1) (h1 : cs.length + rs.length ≤ budget) (h2 : rs.length ≤ 2 * cs.length) :
    resourceToTagByte rs r tagBase < 0xC0 ∨ resourceToTagByte rs r tagBase = 0xFF := by
  unfold resourceToTagByte
  split
  · split
    · rename_i i hi
      left
      have hlt : i < rs.length := by
        unfold List.idxOf? at hi
        exact (List.findIdx?_eq_some_iff_getElem.mp hi).1
      omega
    · right; rfl
  · right; rfl

/-- a `Good` branch is accepted by `encodeNode`'s arity check -/
theorem good_arity_fits (n : WNode) (long : Bool) (h : n.Good (if long then 0xFE else 0xFF))
    (hb : n.children ≠ []) : n.children.length + n.resources.length + long.toNat ≤ 0xFF := by
  cases n with
  | mk d cs rs col s t c =>
    simp only [WNode.Good, WNode.children, WNode.resources] at h hb ⊢
    rcases h with h | h
    · exact absurd h hb
    · cases long <;> simp at h ⊢ <;> omega

/-! ## 4. Sticky errors -/

/-- once an error is recorded, `Write` returns it and changes nothing -/
theorem sticky_Write (cw : CodecW) (w : Writer) (p : Bytes) (e : Err) (h : w.err = some e) :
    w.Write cw p = (w, 0, some e) := by
  unfold Writer.Write Writer.init
  simp [h]

theorem closeSteps_skip (cw : CodecW) (w : Writer) (e : Err) (h : w.err = some e) :
    Writer.closeStep4 cw (Writer.closeStep3 (Writer.closeStep2 cw (Writer.closeStep1 cw w))) = w := by
  have h1 : Writer.closeStep1 cw w = w := by
    unfold Writer.closeStep1 Writer.init; simp [h]
  have h2 : Writer.closeStep2 cw w = w := by
    unfold Writer.closeStep2; simp [h]
  have h3 : Writer.closeStep3 w = w := by
    unfold Writer.closeStep3; simp [h]
  have h4 : Writer.closeStep4 cw w = w := by
    unfold Writer.closeStep4; simp [h]
  rw [h1, h2, h3, h4]

/-- once an error is recorded, `Close` returns it, keeps it, and writes nothing -/
theorem sticky_Close (cw : CodecW) (w : Writer) (e : Err) (h : w.err = some e) :
    (w.Close cw).2 = some e ∧ (w.Close cw).1.err = some e ∧
    (w.Close cw).1.chunkWriter = w.chunkWriter := by
  unfold Writer.Close
  by_cases hc : w.closed = true
  · simp [hc, h]
  · rw [if_neg hc]
    have hs := closeSteps_skip cw { w with closed := true } e h
    simp only
    rw [hs]
    simp [h]

/-- a successful `Close` leaves the sticky `errAlreadyClosed`, so every later call fails -/
theorem closed_is_sticky (cw : CodecW) (w : Writer) (hcl : w.closed = false) (h : (w.Close cw).2 = none) :
    (w.Close cw).1.err = some .alreadyClosed := by
  unfold Writer.Close at h ⊢
  rw [if_neg (by simp [hcl])] at h ⊢
  simp only at h ⊢
  split
  · rfl
  · rename_i hn
    rw [if_neg hn] at h
    simp only at h
    simp [h] at hn

/-- `first_error_sticky`: for every codec and every state `w` of a `Writer`,
(a) if an underlying `io.Writer`/TempFile call fails during `Write(p)`, that `Write` returns an
    error and records that same error;
(b) likewise for `Close` (a `Close` that returns nil has seen no failure);
(c) a recorded error is returned, unchanged and without any further output, by every later
    `Write` and by `Close` — so `Close` is never nil after a failure. -/
theorem first_error_sticky (cw : CodecW) (w : Writer) :
    (∀ p, (w.Write cw p).1.chunkWriter.io.faulted ≠ w.chunkWriter.io.faulted →
      ∃ x, (w.Write cw p).2.2 = some x ∧ (w.Write cw p).1.err = some x) ∧
    (w.closed = false → (w.Close cw).1.chunkWriter.io.faulted ≠ w.chunkWriter.io.faulted →
      ∃ x, (w.Close cw).2 = some x ∧ (w.Close cw).1.err = some x) ∧
    (∀ x, w.err = some x →
      (∀ p, w.Write cw p = (w, 0, some x)) ∧ (w.Close cw).2 = some x ∧ (w.Close cw).1.err = some x ∧
      (w.Close cw).1.chunkWriter = w.chunkWriter) := by
  refine ⟨?_, ?_, ?_⟩
  · intro p hne
    have h := Writer.Write_reports cw w p
    generalize (w.Write cw p).2.2 = e at *
    cases e with
    | none => exact absurd h hne
    | some x =>
      rcases h with h | h
      · exact absurd h hne
      · exact ⟨x, rfl, h⟩
  · intro hcl hne
    cases hr : (w.Close cw).2 with
    | none => exact absurd (Writer.Close_reports cw w hcl hr) hne
    | some x => exact ⟨x, rfl, Writer.Close_records cw w x hr⟩
  · intro x hx
    exact ⟨fun p => sticky_Write cw w p x hx, sticky_Close cw w x hx⟩

/-- non-vacuity: the very first underlying call (writing the magic) fails during `Write` -/
example :
    let cw := HCodec.codecW { codec := 0x3E00000000000000, oob := false }
    let w : Writer := { dChunkSizeCfg := 1, chunkWriter := { io := { failAt := 1 } } }
    (w.Write cw [7]).2.2 = some .fault ∧ (w.Write cw [7]).1.chunkWriter.io.faulted = true := by
  decide +kernel

/-! ## 5. Termination -/

/-- `writer_loops_terminate`: the `for` loops of `writeDChunks` and `writeCChunks` (including the
doubling search for `targetDChunkSize`) terminate: the model's fuel (`pending length + 1` for the
outer loops, 64 for the inner one) is never exhausted — giving the loops any amount `k` of extra
fuel does not change their result.  Needs `dChunkSize > 0` resp. `cChunkSize > 0` (established by
`initialize`), and for `writeCChunks` the codec contract (`Cut` returns `decodedLen` no larger
than what was compressed). -/
theorem writer_loops_terminate (cw : CodecW) (D : Bytes → Option Bytes) (hc : CodecContract cw D)
    (w : Writer) (eof : Bool) (hwf : w.uncompressed.WF) (k : Nat) :
    (w.dChunkSize > 0 →
      Writer.writeDChunks cw eof (w.uncompressed.length + 1 + k) w =
        Writer.writeDChunks cw eof (w.uncompressed.length + 1) w) ∧
    (w.cChunkSize > 0 →
      Writer.writeCChunks cw eof (w.uncompressed.length + 1 + k) w =
        Writer.writeCChunks cw eof (w.uncompressed.length + 1) w) ∧
    (∀ t, t > 0 → Writer.cChunkInner cw (64 + k) w t = Writer.cChunkInner cw 64 w t) := by
  refine ⟨?_, ?_, ?_⟩
  · intro hd
    induction k with
    | zero => rfl
    | succ j ih =>
      have e : w.uncompressed.length + 1 + (j + 1) = (w.uncompressed.length + 1 + j) + 1 := by omega
      rw [e, writeDChunks_fuel_stable cw eof _ w (by omega) hd]; exact ih
  · intro hcs
    induction k with
    | zero => rfl
    | succ j ih =>
      have e : w.uncompressed.length + 1 + (j + 1) = (w.uncompressed.length + 1 + j) + 1 := by omega
      rw [e, writeCChunks_fuel_stable cw D hc eof _ w (by omega) hcs hwf]; exact ih
  · intro t ht
    induction k with
    | zero => rfl
    | succ j ih =>
      have e1 : 64 + (j + 1) = 63 + j + 2 := by omega
      have e2 : 64 + j = 63 + j + 1 := by omega
      have hge : t * 2 ^ (63 + j) ≥ 2 ^ 31 := by
        have h1 : 2 ^ 31 ≤ 2 ^ (63 + j) := Nat.pow_le_pow_right (by omega) (by omega)
        have h2 : 1 * 2 ^ (63 + j) ≤ t * 2 ^ (63 + j) := Nat.mul_le_mul_right _ ht
        rw [Nat.one_mul] at h2
        exact Nat.le_trans h1 h2
      have := cChunkInner_fuel_stable cw (63 + j) w t hge
      rw [e1, this, ← e2]; exact ih

/-! ## 6. The anti-loop rule -/

/-- `writer_satisfies_antiloop` (tree level): for leaves of positive size (`AddChunk` drops
zero-size chunks), in the tree built by `gather` every node has positive size, a branch's size is
the sum of its children's, and the size strictly decreases from every branch to each of its branch
children.  `writeIndex` writes a node's size as its `DPtrMax` (`dptrSegments_dmax` below), so the
second alternative of the RAC spec's rule "the child's DPtrMax is less than the parent's DPtrMax"
holds for every parent/child pair, wherever the nodes are placed in the file.  (False for the
pinned `gather`: 65026 leaves gave a branch with a single branch child.) -/
theorem writer_satisfies_antiloop (nodes : List WNode) (long : Bool) (hne : nodes ≠ [])
    (hleaf : ∀ o ∈ nodes, o.children = []) (hpos : ∀ o ∈ nodes, o.dRangeSize > 0) :
    (gather nodes long).Dec :=
  gather_dec nodes long hne hleaf hpos

/-- the `DPtrMax` that `writeIndex` writes for a node is the sum of its children's sizes -/
theorem dptrSegments_dmax (rs : List Nat) (tagBase : Nat) (cs : List WNode) (d0 : Nat) :
    (dptrSegments rs tagBase cs d0).2 = d0 + (cs.map WNode.dRangeSize).sum := by
  induction cs generalizing d0 with
  | nil => simp [dptrSegments]
  | cons c cs ih =>
    simp only [dptrSegments, List.map_cons, List.sum_cons]
    rw [ih]; omega

/-! ## 7. The property itself -/

/-- the file is everything that reached `Writer` -/
def fileOf (w : Writer) : Array UInt8 := w.chunkWriter.io.wBytes.toArray

/-- `index_node_roundtrip`: for every branch node the writer can emit (`NodeOK`: valid codec, at most 255
elements, at most two resources per child, sizes and offsets below 2^48 and inside the file), the independent
spec reader `Spec.parseNode` accepts the bytes `encodeNode` (the body of `nodeWriter.writeIndex`) produces —
magic, arity, CRC-32 checksum, reserved bytes, version, TTag zones, Codec Element, DPtr order, COff ≤ COffMax —
and returns the node's own fields (`parsedBranch`; closed forms in `Proof/RacNodeParse.lean`). -/
theorem index_node_roundtrip (nw : NodeWriter) (n : WNode) (ok : NodeOK nw n.children n.resources n.codec)
    (off cb db : Nat) :
    ∃ bytes, encodeNode nw n = .ok bytes ∧
      Spec.parseNode bytes off cb db = .ok (parsedBranch nw n.children n.resources n.codec off cb db) :=
  ⟨_, encodeNode_eq' nw n ok.valid ok.arity, parse_nodeBytes nw n.children n.resources n.codec ok off cb db⟩

/-- `index_roundtrip`: for every ChunkWriter state reachable by `AddResource`/`AddChunk` (`DataInv`) with at
least one chunk, both index locations, every page size and resource set: if `Close` returns nil then the
independent spec reader (`Spec.chunks`: root search, per-node and parent/child validation incl. the anti-loop
rule, depth-first walk) lists exactly the accepted chunks (`Matches`: DRanges tile `[0, DFileSize)` in order,
codec, primary CRange starting at the chunk's bytes), `DFileSize` is the sum of the chunk sizes, and the data
stream sits in the file at `dataCOffset` (`CloseOK`). -/
theorem index_roundtrip (c : CW) (hi : DataInv c) (he : c.err = none) (hne : c.leafNodes.size ≠ 0)
    (hcl : (c.close).2 = none) : CloseOK c :=
  CW.close_roundtrip c hi he hne hcl

/-- `index_roundtrip_resources`: in the same situation the reader's chunks also carry the shared resources:
chunk by chunk (`ResBytesOK`), the secondary / tertiary CRange is empty when `AddChunk` was given no resource,
and otherwise its bytes start with exactly the bytes passed to the `AddResource` call that returned that id
(the resource tags, the Codec-Element offset of the tags, the resource `COffset|CLength` entries and the
`dataCOffset` shift all included).  What is NOT a theorem: that `rac.Writer.useResource` hands `AddChunk` the id
of `WrapResource(ResourcesData[i])` for the `i` that `Compress` named — that bookkeeping is covered by the
byte-exact tie and by the harness codec's reader, which checks the resource CRanges of every chunk. -/
theorem index_roundtrip_resources (c : CW) (hi : DataInv c) (he : c.err = none) (hne : c.leafNodes.size ≠ 0)
    (hcl : (c.close).2 = none) :
    ∃ chs, Spec.chunks (c.close).1.io.wBytes.toArray = .ok (c.dFileSize, chs) ∧
      ResBytesOK (c.close).1.io.wBytes.toArray c.resLog.reverse chs c.leafNodes.toList :=
  CW.close_resources c hi he hne hcl

/-- `rac_roundtrip`, the property C13 itself over the models.
For every codec meeting its contract (`D` decompresses a primary CRange that starts with the chunk's compressed
bytes and may be followed by unrelated bytes; `Compress` never names the "Zeroes" codec, for which the format
stores no bytes), every configuration (chunk sizing mode and sizes, page size, index location, temp-file kind,
resources) and fault position, every sequence of `Write` calls on a fresh Writer: if `Close` returns nil then
the bytes that reached `Writer` pass the independent spec reader's validation and decode to exactly the
written bytes. -/
def rac_roundtrip_statement : Prop :=
  ∀ (cw : CodecW) (D : Bytes → Option Bytes), CodecContract cw D →
    (∀ a b d, D a = some d → D (a ++ b) = some d) →
    (∀ a b rs out, cw.compress a b rs = .ok out → out.codec ≠ 0 ∧ out.codec ≠ 2 ^ 63) →
  ∀ (w0 : Writer), (w0.err = none ∧ w0.closed = false ∧ w0.inited = false ∧ w0.chunkWriter = { io := { failAt := w0.chunkWriter.io.failAt } } ∧
      w0.uncompressed = {}) →
  ∀ (ps : List Bytes), ((Writer.runWrites cw w0 ps).Close cw).2 = none →
    Spec.validate (fileOf ((Writer.runWrites cw w0 ps).Close cw).1) = true ∧
    Spec.decode (fileOf ((Writer.runWrites cw w0 ps).Close cw).1) (fun _ p _ _ => D p) = .ok ps.flatten

/-- **`rac_roundtrip`** (proved; `Proof/RacRoundtrip.lean` and the files it imports). -/
theorem rac_roundtrip : rac_roundtrip_statement := by
  intro cw D hc hD hz w0 hfresh ps hok
  exact rac_roundtrip_thm cw D hc hD hz w0 hfresh ps hok

/-- non-vacuity: the three hypotheses on the codec are jointly satisfiable (toy codec `|x|` ones, a zero, `x`,
under short codec 0x3E, no `Cut`) … -/
theorem roundtrip_hyps_satisfiable :
    ∃ (cw : CodecW) (D : Bytes → Option Bytes), CodecContract cw D ∧
      (∀ a b d, D a = some d → D (a ++ b) = some d) ∧
      (∀ a b rs out, cw.compress a b rs = .ok out → out.codec ≠ 0 ∧ out.codec ≠ 2 ^ 63) :=
  WuffsVerif.Rac.roundtrip_hyps_satisfiable

set_option maxRecDepth 200000 in
/-- … and with that codec a two-write session with `DChunkSize` 2 and the index at the start closes with nil
(so the premise `Close = nil` of `rac_roundtrip` is reachable for a codec meeting all hypotheses) -/
example :
    let cw : CodecW := toyCodecW
    let w0 : Writer := { dChunkSizeCfg := 2, indexAtStart := true, tempKind := 1, cPageSize := 8 }
    (((Writer.runWrites cw w0 [[1, 2, 0], [0, 5]]).Close cw).2.isNone) = true := by
  decide +kernel

set_option maxRecDepth 200000 in
/-- … and `rac_roundtrip` applied to that session: its file passes the spec reader's validation and decodes
to the five written bytes (the theorem instantiated, not re-computed) -/
example :
    let w0 : Writer := { dChunkSizeCfg := 2, indexAtStart := true, tempKind := 1, cPageSize := 8 }
    Spec.validate (fileOf ((Writer.runWrites toyCodecW w0 [[1, 2, 0], [0, 5]]).Close toyCodecW).1) = true ∧
    Spec.decode (fileOf ((Writer.runWrites toyCodecW w0 [[1, 2, 0], [0, 5]]).Close toyCodecW).1)
      (fun _ p _ _ => udec p) = .ok [1, 2, 0, 0, 5] :=
  rac_roundtrip toyCodecW udec toy_contract udec_prefix toy_notZeroes
    { dChunkSizeCfg := 2, indexAtStart := true, tempKind := 1, cPageSize := 8 } ⟨rfl, rfl, rfl, rfl, rfl⟩
    [[1, 2, 0], [0, 5]] (by decide +kernel)

/-- non-vacuity of the extra codec hypothesis: the harness codec never names "Zeroes" when it runs under a
non-zero short codec number -/
example (p q : Bytes) (rs : List Bytes) (out : CompressOut)
    (h : HCodec.compress { codec := 0x3E00000000000000, oob := false } p q rs = .ok out) :
    out.codec ≠ 0 ∧ out.codec ≠ 2 ^ 63 := by
  unfold HCodec.compress at h
  simp only [Except.ok.injEq] at h
  rw [← h]
  constructor <;> simp

/-- what was provable before the index half: kept as a corollary.  If `Close` returns nil then the accepted
chunks, decompressed and zero-filled, are exactly the written bytes, and `Close` leaves the sticky
`errAlreadyClosed`. -/
theorem rac_close_covers_and_sticky (cw : CodecW) (D : Bytes → Option Bytes) (hc : CodecContract cw D)
    (w0 : Writer) (hfresh : w0.err = none ∧ w0.closed = false ∧ w0.chunkWriter.log = [] ∧ w0.uncompressed = {})
    (ps : List Bytes) (hok : ((Writer.runWrites cw w0 ps).Close cw).2 = none) :
    Covers D ((Writer.runWrites cw w0 ps).Close cw).1.chunkWriter.log ps.flatten ∧
    ((Writer.runWrites cw w0 ps).Close cw).1.err = some .alreadyClosed :=
  ⟨chunks_cover_input cw D hc w0 hfresh ps hok, by
    have hcl : (Writer.runWrites cw w0 ps).closed = false := by
      have := runWrites_inv cw D hc ps w0 [] (by
        right
        obtain ⟨h1, h2, h3, h4⟩ := hfresh
        exact ⟨by rw [h4], by rw [h4], [], by rw [h3]; exact Covers.nil, by rw [h4]; rfl⟩) hfresh.2.1
      exact this.2
    exact closed_is_sticky cw _ hcl hok⟩

/-- the fixed 32-byte file written for an empty input is a valid RAC file with `DFileSize` 0
(checked through the independent spec reader) -/
theorem empty_file_valid :
    (match Spec.chunks CW.emptyRACFile.toArray with
     | .ok (d, cs) => d == 0 && cs.isEmpty
     | .error _ => false) = true := by
  decide +kernel

set_option maxRecDepth 200000 in
/-- non-vacuity of the round trip on a concrete session with the harness codec: two writes,
CChunkSize 8 (forces `Cut`), zeroes at the chunk boundary; the model's file passes `Spec` and
decodes to the input. -/
example :
    let v : HCodec.Variant := { codec := 0x3E00000000000000, oob := false }
    let cw := HCodec.codecW v
    let w0 : Writer := { cChunkSizeCfg := 8 }
    let ps : List Bytes := [[1, 2, 3, 4, 0], [5, 6, 7, 8, 9, 10, 11, 12, 13, 14, 15], [0, 16, 17]]
    let r := (Writer.runWrites cw w0 ps).Close cw
    (r.2.isNone && Spec.validate (fileOf r.1) &&
      (match Spec.decode (fileOf r.1) (fun _ p _ _ => HCodec.decompress p) with
       | .ok d => d == ps.flatten
       | .error _ => false)) = true := by
  decide +kernel

/-- the harness codec used for the byte-exact tie really is a codec in the sense of the contract's
`Compress` clause: `HCodec.decompress (Compress p q) = p ++ q` (token strings below 2^32 bytes) -/
theorem hcodec_compress_roundtrip (v : HCodec.Variant) (p q : Bytes) (rs : List Bytes) (out : CompressOut)
    (h : HCodec.compress v p q rs = .ok out) (hlen : (HCodec.encodeTokens (p ++ q)).length < 2 ^ 32) :
    HCodec.decompress out.compressed = some (p ++ q) :=
  HCodec.hcodec_compress_roundtrip v p q rs out h hlen

/-- the node checksum computed by the writer model and the one recomputed by the independent spec
reader are the same function of the node bytes (two separately written CRC-32/IEEE routines) -/
theorem checksum_agrees (bs : Bytes) : (crc32 bs).toNat = Spec.crc32 bs := crc32_eq_spec bs

/-! ## 8. Shared resources -/

/-- `use_resource_sound`: `rac.Writer.useResource`'s id bookkeeping.  If the table `resourcesIDs` is sound
(`IdsOK`: a non-zero entry `i` is an id under which the ChunkWriter registered exactly
`WrapResource(ResourcesData[i])`; the table has one entry per resource) then a successful `useResource(i)`
returns an id that is 0 exactly for an out-of-range index (`NoResourceUsed`, or `len(ResourcesData)` and
beyond — the repaired bound), is known to the ChunkWriter, and under which the ChunkWriter holds
`WrapResource(ResourcesData[i])` (`wrappedOf`); earlier registrations are untouched (resources are only
appended); the table stays sound.  A failing call records its error. -/
theorem use_resource_sound (cw : CodecW) (w : Writer) (i : Int) (hids : IdsOK cw w) :
    ((Writer.useResource cw w i).2.2 = none →
      IdsOK cw (Writer.useResource cw w i).1 ∧
      (∃ ext, (Writer.useResource cw w i).1.chunkWriter.resLog.reverse = w.chunkWriter.resLog.reverse ++ ext) ∧
      (Writer.useResource cw w i).2.1 ≤ (Writer.useResource cw w i).1.chunkWriter.resLog.length ∧
      wrappedOf cw w.resourcesData i =
        some (resAt (Writer.useResource cw w i).1.chunkWriter.resLog.reverse (Writer.useResource cw w i).2.1) ∧
      ((Writer.useResource cw w i).2.1 ≠ 0 → ResInRange w.resourcesData i)) ∧
    ((Writer.useResource cw w i).2.2 ≠ none → (Writer.useResource cw w i).1.err ≠ none) :=
  Writer.useResourceR cw w i hids

/-- non-vacuity: a fresh table after `initialize` is sound, and using resource 0 registers it under id 1 -/
example :
    let cw := HCodec.codecW { codec := 0x3E00000000000000, oob := false }
    let w : Writer := { resourcesData := [[9, 9]], resourcesIDs := [0], inited := true, tempKind := 0,
                        dChunkSize := 4 }
    (Writer.useResource cw w 0).2.1 = 1 ∧ (Writer.useResource cw w 0).2.2 = none ∧
    (Writer.useResource cw w 0).1.resourcesIDs = [1] ∧
    (Writer.useResource cw w 0).1.chunkWriter.resLog = [[2, 0, 0, 0, 9, 9]] := by
  decide +kernel

/-- `rac_roundtrip_resources`, property C13 over the models with the decompressor reading *all three* CRanges.
For every codec meeting the resource-aware contract (`CodecContractR`: `Compress(p, q, resourcesData)`
decompresses to `p ++ q` given the `WrapResource` forms of the resources it names, which are non-empty; `Cut`
leaves a valid prefix), whose decompressor tolerates unrelated bytes after the chunk and after a (non-empty)
resource, and which never names the "Zeroes" codec; every configuration (sizing mode, page size, index location,
temp-file kind, resources) and fault position; every sequence of `Write` calls on a fresh Writer: if `Close`
returns nil then the bytes that reached `Writer` pass the independent spec reader's validation, and decoding
them — the decompressor being handed, chunk by chunk, the bytes of the primary, secondary and tertiary CRanges
the reader computed from the index — gives exactly the written bytes. -/
def rac_roundtrip_resources_statement : Prop :=
  ∀ (cw : CodecW) (DR : Bytes → Bytes → Bytes → Option Bytes), CodecContractR cw DR →
    (∀ a b s s' t t' d, DR a s t = some d → (s = [] → s' = []) → (t = [] → t' = []) →
      DR (a ++ b) (s ++ s') (t ++ t') = some d) →
    (∀ a b rs out, cw.compress a b rs = .ok out → out.codec ≠ 0 ∧ out.codec ≠ 2 ^ 63) →
  ∀ (w0 : Writer), (w0.err = none ∧ w0.closed = false ∧ w0.inited = false ∧ w0.chunkWriter = { io := { failAt := w0.chunkWriter.io.failAt } } ∧
      w0.uncompressed = {}) →
  ∀ (ps : List Bytes), ((Writer.runWrites cw w0 ps).Close cw).2 = none →
    Spec.validate (fileOf ((Writer.runWrites cw w0 ps).Close cw).1) = true ∧
    Spec.decode (fileOf ((Writer.runWrites cw w0 ps).Close cw).1) (fun _ p s t => DR p s t) = .ok ps.flatten

/-- **`rac_roundtrip_resources`** (proved; `Proof/RacWriterR, RacWriterR2, RacRoundtripR.lean`). -/
theorem rac_roundtrip_resources : rac_roundtrip_resources_statement := by
  intro cw DR hc hDR hz w0 hfresh ps hok
  exact rac_roundtrip_resources_thm cw DR hc hDR hz w0 hfresh ps hok

/-- `racdict_load_inverts_wrap`: what `racdict.Loader.Load` extracts from a secondary CRange that starts with
`Saver.WrapResource(raw)` (possibly followed by unrelated bytes; TTag 0xFF, empty tertiary) is `refine(raw)` —
the length prefix, the reserved bits and the CRC-32 check all pass — for any `refine`. -/
theorem racdict_load_inverts_wrap (refine : Bytes → Bytes) (raw wrapped : Bytes)
    (h : DictW.wrapResource refine raw = .ok wrapped) (extra : Bytes) :
    DictW.load (wrapped ++ extra) false 0xFF = .ok (refine raw) :=
  DictW.load_wrapResource refine raw wrapped h extra

/-- `racdict_dictionaries_agree`: whatever the codec's own `compress` and `refine` are, if `Saver.Compress`
succeeds then either it names no resource and returns `compress(p, q, nil)`, or it names `resourcesData[j]`,
returns `compress(p, q, refine(resourcesData[j]))`, and `Loader.Load` on what `Saver.WrapResource` stores for
that resource returns exactly `refine(resourcesData[j])`: the compressor and the decompressor are given the
same dictionary.  (The seeded change C13-m1 — compress against the raw resource — makes the Go code disagree
with this model on the `dictsel` ops.) -/
theorem racdict_dictionaries_agree (compress : Bytes → Bytes → Bytes → Except DictW.DErr Bytes)
    (refine : Bytes → Bytes) (p q : Bytes) (rs : List Bytes) (out : Bytes) (sec : Int)
    (h : DictW.saverCompress compress refine p q rs = .ok (out, sec)) :
    (sec = -1 ∧ compress p q [] = .ok out) ∨
    (∃ j, j < rs.length ∧ sec = (j : Int) ∧ compress p q (refine (rs.getD j [])) = .ok out ∧
      ∃ wrapped, DictW.wrapResource refine (rs.getD j []) = .ok wrapped ∧
        ∀ extra, DictW.load (wrapped ++ extra) false 0xFF = .ok (refine (rs.getD j []))) :=
  DictW.saverCompress_spec compress refine p q rs out sec h

/-- raczlib's `refine` keeps a suffix of at most 32 KiB -/
theorem zlib_refine_window (b : Bytes) :
    (DictW.refineZlib b).length = min b.length 32768 ∧ ∃ pre, b = pre ++ DictW.refineZlib b :=
  ⟨DictW.refineZlib_length b, DictW.lastN_suffix 32768 b⟩

/-- `racdict_codec_contract`: every CodecWriter/CodecReader pair built on `racdict` the way raczlib and raczstd
are (`Saver.Compress` around the codec's `compress(p, q, dict)`, `Saver.WrapResource`; `Loader.Load` then the
codec's decompressor with that dictionary) meets `CodecContractR`, and its reader side tolerates trailing bytes,
provided the codec's own compressor and decompressor agree when given the same dictionary (`H1`) and the
decompressor ignores bytes after its stream (`H2`).  So `rac_roundtrip_resources` applies to them. -/
theorem racdict_codec_contract (codec : Nat) (compress : Bytes → Bytes → Bytes → Except DictW.DErr Bytes)
    (refine : Bytes → Bytes) (decompress : Bytes → Bytes → Option Bytes)
    (H1 : ∀ p q dict out, compress p q dict = .ok out → decompress out dict = some (p ++ q))
    (H2 : ∀ a b dict d, decompress a dict = some d → decompress (a ++ b) dict = some d) :
    CodecContractR (DictW.dictCodecW codec compress refine) (DictW.dictDR decompress) ∧
    (∀ a b s s' t t' d, DictW.dictDR decompress a s t = some d → (s = [] → s' = []) → (t = [] → t' = []) →
      DictW.dictDR decompress (a ++ b) (s ++ s') (t ++ t') = some d) :=
  ⟨DictW.racdict_codec_contract codec compress refine decompress H1, DictW.dictDR_ext decompress H2⟩

/-- non-vacuity: the hypotheses of `rac_roundtrip_resources` are jointly satisfiable — by a codec on top of the
`racdict` model (raczlib's `refine`; toy compressor that drops a dictionary prefix) … -/
theorem roundtrip_resources_hyps_satisfiable :
    ∃ (cw : CodecW) (DR : Bytes → Bytes → Bytes → Option Bytes), CodecContractR cw DR ∧
      (∀ a b s s' t t' d, DR a s t = some d → (s = [] → s' = []) → (t = [] → t' = []) →
        DR (a ++ b) (s ++ s') (t ++ t') = some d) ∧
      (∀ a b rs out, cw.compress a b rs = .ok out → out.codec ≠ 0 ∧ out.codec ≠ 2 ^ 63) :=
  ⟨DictW.toyDictCodecW, DictW.dictDR DictW.tdecompress, DictW.toyDict_contract, DictW.dictDR_ext _ DictW.toy_H2,
    DictW.toyDict_notZeroes⟩

set_option maxRecDepth 1000000 in
/-- … with which a session whose single 128-byte chunk starts with the 120-byte resource closes with nil and
*uses* the resource (the accepted chunk names resource id 1: the dictionary won `Saver.Compress`'s heuristic,
baseline 258 bytes against 18) … -/
example :
    let R : Bytes := List.replicate 120 7
    let w0 : Writer := { dChunkSizeCfg := 128, resourcesData := [R] }
    let r := (Writer.runWrites DictW.toyDictCodecW w0 [R ++ [1, 2, 3, 4, 5, 6, 7, 8]]).Close DictW.toyDictCodecW
    (r.2.isNone && (r.1.chunkWriter.log.map (·.secondary) == [1])) = true := by
  decide +kernel

set_option maxRecDepth 1000000 in
/-- … and `rac_roundtrip_resources` applied to that session (the theorem instantiated, not re-computed): the
file validates and decodes, through the dictionary stored in it, to the 128 written bytes -/
example :
    let R : Bytes := List.replicate 120 7
    let w0 : Writer := { dChunkSizeCfg := 128, resourcesData := [R] }
    let r := (Writer.runWrites DictW.toyDictCodecW w0 [R ++ [1, 2, 3, 4, 5, 6, 7, 8]]).Close DictW.toyDictCodecW
    Spec.validate (fileOf r.1) = true ∧
    Spec.decode (fileOf r.1) (fun _ p s t => DictW.dictDR DictW.tdecompress p s t) = .ok (R ++ [1, 2, 3, 4, 5, 6, 7, 8]) := by
  have h := rac_roundtrip_resources DictW.toyDictCodecW (DictW.dictDR DictW.tdecompress) DictW.toyDict_contract
    (DictW.dictDR_ext _ DictW.toy_H2) DictW.toyDict_notZeroes
    { dChunkSizeCfg := 128, resourcesData := [List.replicate 120 7] } ⟨rfl, rfl, rfl, rfl, rfl⟩
    [List.replicate 120 7 ++ [1, 2, 3, 4, 5, 6, 7, 8]] (by decide +kernel)
  simpa using h

end WuffsVerif.Props.C13
