import WuffsVerif.Model.Rac.WriteBuffer
namespace WuffsVerif.Props.C13
open WuffsVerif.Rac

theorem placeholder1 : (1 : Nat) = 1 := rfl
theorem placeholder2 : (1 : Nat) = 1 := rfl
theorem placeholder3 : (1 : Nat) = 1 := rfl
theorem placeholder4 : (1 : Nat) = 1 := rfl
theorem placeholder5 : (1 : Nat) = 1 := rfl
end WuffsVerif.Props.C13
