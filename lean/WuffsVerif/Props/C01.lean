/-
C01 — accepted Wuffs programs never go out of bounds / overflow (scalar fragment),
and the FACTS clause of C02 (every fact the checker holds is true at run time).

Model: `Model/WCore/{Expr,Bounds,Stmt}.lean` (mirror of lang/check/bounds.go and
assert.go for the scalar fragment, REPAIRED rules, see fixes/C01-*.patch);
interval arithmetic: the C06 model and its soundness theorems (used, not restated).
-/
import WuffsVerif.Proof.WCoreBounds
import WuffsVerif.Gen.C01_Tables

namespace WuffsVerif.Props.C01
open WuffsVerif.Interval WuffsVerif.WCore WuffsVerif.Proof.WCoreBounds

def baseOfName : String → Option Base
  | "i8" => some .i8 | "i16" => some .i16 | "i32" => some .i32 | "i64" => some .i64
  | "u8" => some .u8 | "u16" => some .u16 | "u32" => some .u32 | "u64" => some .u64
  | "bool" => some .bool
  | _ => none

/-- The model's `numTypeBounds` is the table of lang/check/bounds.go (regenerated from
the working tree on every run into `Gen/C01_Tables.lean`): same nine rows. -/
theorem typebounds_table :
    WuffsVerif.Gen.C01.numTypeBounds.map (fun r => ((baseOfName r.1).bind Base.numBounds, r.1)) =
      WuffsVerif.Gen.C01.numTypeBounds.map (fun r => (some (r.2.1, r.2.2), r.1)) ∧
    WuffsVerif.Gen.C01.numTypeBounds.length = 9 := by
  decide

/-- likewise `numShiftBounds` (u8, u16, u32, u64 only) -/
theorem shiftbounds_table :
    WuffsVerif.Gen.C01.numShiftBounds.map (fun r => ((baseOfName r.1).bind Base.shiftBounds, r.1)) =
      WuffsVerif.Gen.C01.numShiftBounds.map (fun r => (some (r.2.1, r.2.2), r.1)) ∧
    WuffsVerif.Gen.C01.numShiftBounds.length = 4 := by
  decide

/-- `minIdeal`/`maxIdeal` are ∓2^1000, as in bounds.go -/
theorem ideal_table :
    WuffsVerif.Gen.C01.minIdealIsNegPow2 = true ∧ WuffsVerif.Gen.C01.maxIdealIsPow2 = true ∧
    minIdeal = -((2 : Int) ^ WuffsVerif.Gen.C01.minIdealLog2) ∧
    maxIdeal = (2 : Int) ^ WuffsVerif.Gen.C01.maxIdealLog2 := by
  refine ⟨by decide, by decide, rfl, rfl⟩

/-- `bitMask(n)` of bounds.go is `2^n - 1` on the regenerated sample -/
theorem bitmask_table :
    WuffsVerif.Gen.C01.bitMasks.all (fun r => bitMaskN r.1 == r.2) = true := by
  decide

/-- The bounds the checker derives for a (refined) type are exactly the values of
that type: `bcheckTypeExpr1` is sound and complete for `inType`. -/
theorem typeBounds_exact {t : Ty} {tb : IR} (h : typeBounds t = some tb) (v : Int) :
    tb.mem v ↔ inType t v := typeBounds_mem_iff h v

/-- non-vacuity: `base.u32[..= 7]` -/
example : typeBounds ⟨.u32, none, some 7⟩ = some (mkIR 0 7) := by decide

end WuffsVerif.Props.C01
