/-
C01 — accepted Wuffs programs never go out of bounds / overflow, and the FACTS clause
of C02 for assignments (every fact the checker holds is true at run time).

Model: `Model/WCore/{Expr,Prove,Bounds,Stmt}.lean` (mirror of lang/check/bounds.go and
assert.go for scalars and fixed arrays, REPAIRED rules, see fixes/C01-*.patch);
interval arithmetic: the C06 model and its soundness theorems (used, not restated);
control flow: `Model/Flow.lean` + `Proof/Flow*.lean` (C02's layer over WCore: if / else,
while with pre / inv / post, break / continue, return, asserts with `via` reasons, impure
calls, `x = this.m!()`, yield and coroutine calls), whose central induction
(`Proof.Flow.reach_sound`) the control-flow soundness theorems below are corollaries of
(`Proof/WCoreFlowSafe.lean`); methods and objects: `Model/WCore/FlowMethod.lean`.
-/
import WuffsVerif.Proof.WCoreBounds
import WuffsVerif.Proof.WCoreStmt
import WuffsVerif.Proof.WCoreNoRec
import WuffsVerif.Proof.WCoreHist
import WuffsVerif.Gen.C01_Tables
import WuffsVerif.Model.WCore.IOTable
import WuffsVerif.Proof.WCoreFlowSafe

namespace WuffsVerif.Props.C01
open WuffsVerif.Interval WuffsVerif.WCore WuffsVerif.Proof.WCoreBounds WuffsVerif.Proof.WCoreStmt
open WuffsVerif.Proof.WCoreHist

def baseOfName : String → Option Base
  | "i8" => some .i8 | "i16" => some .i16 | "i32" => some .i32 | "i64" => some .i64
  | "u8" => some .u8 | "u16" => some .u16 | "u32" => some .u32 | "u64" => some .u64
  | "bool" => some .bool
  | _ => none

/-- The model's `numTypeBounds` is the table of lang/check/bounds.go (regenerated from
the working tree on every run into `Gen/C01_Tables.lean`): same nine rows. -/
theorem typebounds_table :
    WuffsVerif.Gen.C01.numTypeBounds.map (fun r => ((baseOfName r.1).bind Base.numBounds, r.1)) =
      WuffsVerif.Gen.C01.numTypeBounds.map (fun r => (some (r.2.1, r.2.2), r.1)) ∧
    WuffsVerif.Gen.C01.numTypeBounds.length = 9 := by
  decide

/-- likewise `numShiftBounds` (u8, u16, u32, u64 only) -/
theorem shiftbounds_table :
    WuffsVerif.Gen.C01.numShiftBounds.map (fun r => ((baseOfName r.1).bind Base.shiftBounds, r.1)) =
      WuffsVerif.Gen.C01.numShiftBounds.map (fun r => (some (r.2.1, r.2.2), r.1)) ∧
    WuffsVerif.Gen.C01.numShiftBounds.length = 4 := by
  decide

/-- `minIdeal`/`maxIdeal` are ∓2^1000, as in bounds.go -/
theorem ideal_table :
    WuffsVerif.Gen.C01.minIdealIsNegPow2 = true ∧ WuffsVerif.Gen.C01.maxIdealIsPow2 = true ∧
    minIdeal = -((2 : Int) ^ WuffsVerif.Gen.C01.minIdealLog2) ∧
    maxIdeal = (2 : Int) ^ WuffsVerif.Gen.C01.maxIdealLog2 := by
  refine ⟨by decide, by decide, rfl, rfl⟩

/-- `bitMask(n)` of bounds.go is `2^n - 1` on the regenerated sample -/
theorem bitmask_table :
    WuffsVerif.Gen.C01.bitMasks.all (fun r => bitMaskN r.1 == r.2) = true := by
  decide

/--
**io_advance_table** (pre-conditions of the unchecked peek / poke / write_fast built-ins,
`ioMethodAdvances` in bounds.go, regenerated from the working tree on every run): for
every method the number of bytes the checker demands as a `length() >= n` fact before
the call is exactly the number of bytes the method's name says it accesses
(`width / 8`, which is what the helper in internal/cgen/base reads or writes without a
bounds check; one token for the two token-writer methods), only the `write_*_fast`
methods consume them, and the table has all 57 rows.  A row that demands fewer bytes (e.g. 6 for `peek_u56le_as_u64`) breaks this.
-/
theorem io_advance_table :
    WuffsVerif.Gen.C01.ioMethodAdvances.all (fun r =>
      ioAdvanceSpec r.1 == some (r.2.1, r.2.2)) = true ∧
    WuffsVerif.Gen.C01.ioMethodAdvances.length = 57 := by
  decide +kernel

/-- The bounds the checker derives for a (refined) type are exactly the values of
that type: `bcheckTypeExpr1` is sound and complete for `inType`. -/
theorem typeBounds_exact {t : Ty} {tb : IR} (h : typeBounds t = some tb) (v : Int) :
    tb.mem v ↔ inType t v := typeBounds_mem_iff h v

/-- non-vacuity: `base.u32[..= 7]` -/
example : typeBounds ⟨.u32, none, some 7⟩ = some (mkIR 0 7) := by decide

/--
**bounds_contain** (C01, expression level; uses the C06 soundness theorems for
every arithmetic operator).  If every fact of the situation is true in the store,
every variable holds a value of its declared (refined) type, and the bounds checker
accepts `e` with bounds `b`, then evaluating `e` trips no monitor (no overflow of a
non-modular operation, no out-of-range shift, no division by zero, no bad
conversion) and its value lies within `b` — hence, in particular, within the bounds
the checker demands of an index, a shift amount, a divisor, a stored value.
For ALL expressions of the fragment.
-/
theorem bounds_contain {env : Env} {fs : List Expr} {e : Expr} {b : IR}
    (hf : FactsHold env fs) (hv : varsOk env e) (h : bcheck fs false e = some b) :
    safe env false e ∧ b.mem (evalI env e) :=
  bounds_contain' hf hv h

/-- the value also fits the node's own (possibly refined) type -/
theorem bounds_contain_type {env : Env} {fs : List Expr} {e : Expr} {b : IR}
    (hf : FactsHold env fs) (hv : varsOk env e) (h : bcheck fs false e = some b)
    (hne : (typeOf e).base ≠ .ideal) : inType (typeOf e) (evalI env e) :=
  bounds_contain_type' hf hv h hne

/--
**bounds_contain_nodes**: the per-node form — for EVERY node of an accepted expression
that the checker annotates with bounds (`MBounds`; the list `nodesPre e` is exactly what
the driver prints for a `bounds` op and what the harness compares with the real
checker's `MBounds()`), the node evaluates without tripping a monitor to a value inside
its own bounds.  So every value used as an index, shift amount, divisor or operand lies
within the range the compiler derived for that use.
-/
theorem bounds_contain_nodes {env : Env} {fs : List Expr} {e : Expr} {b : IR}
    (hf : FactsHold env fs) (hv : varsOk env e) (h : bcheck fs false e = some b) :
    ∀ nd ∈ nodesPre e, ∃ b', bcheck fs false nd = some b' ∧
      safe env false nd ∧ b'.mem (evalI env nd) :=
  bounds_contain_nodes' hf hv h

/-- non-vacuity: `(x as base.u32) + 1` with `x : base.u8`, under the fact `x < 10`,
is accepted with bounds [1 ..= 10] -/
example :
    bcheck [.binary .lt (.var "x" ⟨.u8, none, none⟩) (.const 10)] false
      (.binary .plus (.as ⟨.u32, none, none⟩ (.var "x" ⟨.u8, none, none⟩)) (.const 1))
      = some (mkIR 1 10) := by decide

/-- … and an overflowing `x + 1` with `x : base.u8` is rejected -/
example :
    bcheck [] false (.binary .plus (.var "x" ⟨.u8, none, none⟩) (.const 1)) = none := by decide

/-! ## Arrays: the index obligations of `bcheckExprOther` (IDOpenBracket) -/

/--
**index_in_range** (C01, "never indexes outside an array", reads).  If the facts of the
situation are true, the variables and array elements hold values of their declared
types, and the checker accepts the element read `a[i]` (anywhere inside an accepted
expression: `bounds_contain` gives `safe`, which contains this for every `a[i]` node),
then `0 ≤ i < len` at run time.  The checker establishes this with `proveBinaryOp`
(`0 <= i`, `i < len`) from the bounds of `i` and from the facts.
-/
theorem index_in_range {env : Env} {fs : List Expr} {a : String} {len : Nat} {ety : Ty}
    {i : Expr} {b : IR} (hf : FactsHold env fs) (hv : varsOk env (.index a len ety i))
    (h : bcheck fs false (.index a len ety i) = some b) :
    0 ≤ evalI env i ∧ evalI env i < len :=
  index_in_range' hf hv h

/-- non-vacuity: `this.arr[x & 7]` on an `array[8] base.u8` is accepted (from the bounds
of the index alone), `this.arr[x]` with `x : base.u8` only under the fact `x < 8`, and
not without it -/
example :
    bcheck [] false (.index "this.arr" 8 ⟨.u8, none, none⟩
      (.binary .amp (.var "x" ⟨.u8, none, none⟩) (.const 7))) = some (mkIR 0 255) ∧
    bcheck [.binary .lt (.var "x" ⟨.u8, none, none⟩) (.const 8)] false
      (.index "this.arr" 8 ⟨.u8, none, none⟩ (.var "x" ⟨.u8, none, none⟩)) = some (mkIR 0 255) ∧
    bcheck [] false
      (.index "this.arr" 8 ⟨.u8, none, none⟩ (.var "x" ⟨.u8, none, none⟩)) = none := by
  decide

/--
**prove_sound** (`proveBinaryOp`, lang/check/assert.go): whatever the checker proves
without a `via` reason — from a constant operand and the other operand's bounds, from a
fact with the same operands and an implying operator, or from `lhs == const` — is true
in every store that satisfies the facts.  This is the step behind every accepted plain
`assert`, every requirement of a `via` reason and both index obligations.
-/
theorem prove_sound {env : Env} {fs : List Expr} {op : BOp} {l r : Expr}
    (hf : FactsHold env fs) (hvl : varsOk env l) (hvr : varsOk env r)
    (h : proveBinaryOp fs op l r = some true) : evalI env (.binary op l r) ≠ 0 :=
  proveBinaryOp_sound hf hvl hvr h

/--
**assert_sound**: an `assert` without a `via` reason that the model of `bcheckAssert`
accepts (the condition is a known fact, the constant `true`, or proved by
`proveBinaryOp`) is true in every store that satisfies the facts.
-/
theorem assert_sound {env : Env} {fs : List Expr} {c : Expr}
    (hf : FactsHold env fs) (hv : varsOk env c) (h : proveAssert fs c = some true) :
    evalI env c ≠ 0 :=
  proveAssert_sound hf hv h

/-- non-vacuity: `x <= 9` is proved from the fact `x < 9` (`opImpliesOp`), `x <> 3` from
`x == 5`, `x < 300` from the type of `x : base.u8`; `x < 5` is not proved from `x < 9` -/
example :
    let x : Expr := .var "x" ⟨.u8, none, none⟩
    proveBinaryOp [.binary .lt x (.const 9)] .le x (.const 9) = some true ∧
    proveBinaryOp [.binary .eq x (.const 5)] .ne x (.const 3) = some true ∧
    proveBinaryOp [] .lt x (.const 300) = some true ∧
    proveBinaryOp [.binary .lt x (.const 9)] .lt x (.const 5) = some false := by
  decide

/-! ## Statement layer (F1, straight-line): assignment and op-assignment

`Situation Γ env fs`: the store respects the declared types, every fact of the
checker's situation `fs` is true in it (C02 facts clause), the facts are well-typed
comparisons.  `stmtSafe`: the monitors of one statement (right-hand side safe,
operator monitor, stored value fits the refined destination type). -/

/--
**facts_hold_F1** (C02 facts clause + C01, one statement).  If the situation holds
before an accepted assignment / op-assignment, then executing it trips no monitor
and the situation the checker continues with holds afterwards: every fact it keeps
(`dropAnyFactsMentioning`), rewrites (`x += c`: `x op e` becomes `x op e + c`) or
adds (`lhs == rhs` unless the RHS mentions the LHS; `lhs >= lo`, `lhs <= hi`) is true
in the new store.  REPAIRED rules; with the unrepaired ones the statement is false
(`self_referential_assign_witness` below).
-/
theorem facts_hold_F1 {Γ : Ctx} {env : Env} {fs fs' : List Expr} {s : Stmt}
    (S : Situation Γ env fs) (hw : wtStmt Γ s) (h : checkStmt fs s = some fs') :
    stmtSafe env s ∧ Situation Γ (execStmt env s) fs' :=
  stmt_sound S hw h

/--
**store_in_range** (C01, "never indexes outside an array", stores).  An accepted
`a[i] = e` / `a[i] op= e` writes inside the array: `0 ≤ i < len` in the store before the
statement.  No aliasing hypothesis: this only needs the situation BEFORE the statement.
-/
theorem store_in_range {Γ : Ctx} {env : Env} {fs fs' : List Expr} {s : Stmt}
    {a : String} {len : Nat} {ety : Ty} {i : Expr}
    (S : Situation Γ env fs) (hs : stmtTarget s = .index a len ety i)
    (hwl : wt Γ (.index a len ety i)) (h : checkStmt fs s = some fs') :
    0 ≤ evalI env i ∧ evalI env i < len :=
  store_index_in_range S hs hwl h

/--
**facts_hold_store** (array-element targets; C02 facts clause + C01).  If the situation
holds before an accepted `a[i] = e` / `a[i] op= e`, the statement trips no monitor (index
in range, right-hand side safe, stored value fits the element type) and the situation
the checker continues with holds afterwards — whatever other elements of `a` the store
aliases: the (repaired, fixes/C01-index-alias-store.patch) rule drops every fact that
reads an element of `a` and records facts about `a[i]` only when neither `i` nor `e`
read `a`.  With the unrepaired rule the statement is false (`index_alias_witness`).
-/
theorem facts_hold_store {Γ : Ctx} {env : Env} {fs fs' : List Expr} {s : Stmt}
    (S : Situation Γ env fs) (hw : wtStore Γ s) (h : checkStmt fs s = some fs') :
    stmtSafe env s ∧ Situation Γ (execStmt env s) fs' :=
  store_sound S hw h

/--
**check_sound_F1_block**: for straight-line blocks of assignments and
op-assignments to scalar variables with pure right-hand sides of the fragment.  If
the checker accepts the block from a situation that holds, then along the whole
execution every statement is safe and, before each statement and at the end, every
fact of the checker's situation there is true.
A special case of `check_sound_flow` (`straightline_is_flow`), kept because it speaks
about the deterministic `runBlock`.
-/
theorem check_sound_F1_block {Γ : Ctx} {env : Env} {fs fs' : List Expr} {ss : List Stmt}
    (S : Situation Γ env fs) (hw : ∀ s ∈ ss, wtStmt Γ s) (h : checkBlock fs ss = some fs') :
    HoldsAlong Γ fs env ss :=
  block_sound ss fs fs' env S hw h

/-- the same for blocks that also store to array elements -/
theorem check_sound_F1_block_arr {Γ : Ctx} {env : Env} {fs fs' : List Expr} {ss : List Stmt}
    (S : Situation Γ env fs) (hw : ∀ s ∈ ss, wtStmtA Γ s) (h : checkBlock fs ss = some fs') :
    HoldsAlong Γ fs env ss :=
  block_sound_arr ss fs fs' env S hw h

/-- corollary: the final situation holds in the final store -/
theorem check_sound_F1_final {Γ : Ctx} :
    ∀ (ss : List Stmt) (fs fs' : List Expr) (env : Env), Situation Γ env fs →
      (∀ s ∈ ss, wtStmt Γ s) → checkBlock fs ss = some fs' →
      Situation Γ (runBlock env ss) fs' := by
  intro ss
  induction ss with
  | nil =>
    intro fs fs' env S _ h
    simp only [checkBlock] at h; cases h; exact S
  | cons s ss ih =>
    intro fs fs' env S hw h
    simp only [checkBlock] at h
    split at h
    · cases h
    · rename_i fs1 h1
      exact ih fs1 fs' _ (stmt_sound S (hw s List.mem_cons_self) h1).2
        (fun t ht => hw t (List.mem_cons_of_mem _ ht)) h

/--
**passes_returns_sound** ("every value it … passes or returns lies inside the range the
compiler derived for that use"): a `return e` accepted against the out type `t`, or an
argument `e` accepted against the parameter type `t` (`bcheckAssignment1` with no
left-hand side), evaluates without tripping a monitor to a value of the refined type `t`.
-/
theorem passes_returns_sound {env : Env} {fs : List Expr} {t : Ty} {e : Expr}
    (hf : FactsHold env fs) (hv : varsOk env e) (h : checkFits fs t e = true) :
    safe env false e ∧ inType t (evalI env e) :=
  checkFits_sound hf hv h

/-- non-vacuity: `return x & 3` fits `base.u32[..= 3]`; `return x` with `x : base.u32` does not -/
example :
    checkFits [] ⟨.u32, none, some 3⟩ (.binary .amp (.var "x" ⟨.u32, none, none⟩) (.const 3)) = true ∧
    checkFits [] ⟨.u32, none, some 3⟩ (.var "x" ⟨.u32, none, none⟩) = false := by decide

/-! ## Histories of public calls, any argument values -/

/--
**check_sound_F1_hist** (the quantifier of C01: "for every input and every history
of calls").  Take an object whose store respects the declared types (e.g. freshly
zero-initialised) and ANY history of public calls of accepted methods with ANY argument
values of the parameters' C types.  Then before every call the store still respects the
declared (refined) types of all fields, locals and array elements; a call whose
refined arguments fail the emitted run-time check (`writeFuncImplArgChecks`) runs
nothing; every call that runs executes every statement of its body without tripping a
monitor — no overflow, no bad shift or division, every index within its array, every
stored value within the refined type of its destination — and with every fact of the
checker true where it holds it (`HoldsAlong`).
Method bodies are straight-line blocks of (op-)assignments to variables and array
elements (`MethodOk`); bodies with control flow and calls: `check_sound_flow_hist` below,
of which this is the deterministic special case.
-/
theorem check_sound_F1_hist {Γ : Ctx} (hist : List (Method × List Int)) (o : Obj)
    (he : EnvOk Γ o.env)
    (hall : ∀ c ∈ hist, MethodOk Γ c.1 ∧ argsNat c.1.params c.2) : HistSafe Γ o hist :=
  hist_sound hist o he hall

/-- … in particular from the freshly initialised (all-zero) object, when zero is a value
of every declared type (which `checkFields` and `bcheckVar` enforce: "default zero value
is not within bounds") -/
theorem check_sound_F1_fresh {Γ : Ctx} (hz : ∀ n, inType (Γ n) 0)
    (hist : List (Method × List Int))
    (hall : ∀ c ∈ hist, MethodOk Γ c.1 ∧ argsNat c.1.params c.2) :
    HistSafe Γ ⟨fun _ => 0, false⟩ hist :=
  hist_sound_fresh hz hist hall

/-- non-vacuity: the method `m(a: base.u32[..= 6]) { x = args.a; x += 1 }` with
`x : base.u32[..= 7]` is an accepted method; so the theorem applies to every history
of calls `m(v)`, `v` any 32-bit value -/
def demoΓ : Ctx := fun n =>
  if n = "x" then ⟨.u32, none, some 7⟩ else if n = "args.a" then ⟨.u32, none, some 6⟩
  else ⟨.u32, none, none⟩

def demoMethod : Method :=
  { params := [("args.a", ⟨.u32, none, some 6⟩)],
    body := [.assign (.var "x" ⟨.u32, none, some 7⟩) (.var "args.a" ⟨.u32, none, some 6⟩),
             .opAssign .plus (.var "x" ⟨.u32, none, some 7⟩) (.const 1)] }

theorem demoMethod_ok : MethodOk demoΓ demoMethod where
  params := by
    intro p hp
    simp only [demoMethod, List.mem_singleton] at hp
    subst hp; rfl
  body := by
    intro s hs
    simp only [demoMethod, List.mem_cons, List.not_mem_nil, or_false] at hs
    rcases hs with rfl | rfl
    · exact Or.inl ⟨⟨"x", rfl⟩, rfl⟩
    · exact Or.inl ⟨⟨"x", rfl, by decide⟩, trivial⟩
  accepted :=
    ⟨[.binary .eq (.var "x" ⟨.u32, none, some 7⟩)
        (.binary .plus (.var "args.a" ⟨.u32, none, some 6⟩) (.const 1)),
      .binary .le (.var "x" ⟨.u32, none, some 7⟩) (.const 7),
      .binary .ge (.var "x" ⟨.u32, none, some 7⟩) (.const 1)], by decide⟩

example (vs : List Int) (hv : ∀ v ∈ vs, 0 ≤ v ∧ v ≤ 4294967295) :
    HistSafe demoΓ ⟨fun _ => 0, false⟩ (vs.map fun v => (demoMethod, [v])) := by
  apply check_sound_F1_hist
  · intro key
    simp only [demoΓ]
    split
    · simp [inType, inNatural, Base.range, Base.numBounds]
    · split <;> simp [inType, inNatural, Base.range, Base.numBounds]
  · intro c hc
    simp only [List.mem_map] at hc
    obtain ⟨v, hv', rfl⟩ := hc
    exact ⟨demoMethod_ok, by simpa [argsNat, demoMethod, inNatural, Base.range, Base.numBounds] using hv v hv'⟩

/-- non-vacuity of the statement layer: `x = args.a` then `x += 1` with
`args.a : base.u32[..= 6]`, `x : base.u32[..= 7]` is accepted, and the checker ends
with the facts `x >= 1`, `x <= 7` (the rewritten `x == args.a + 1` included) -/
example :
    checkBlock []
      [.assign (.var "x" ⟨.u32, none, some 7⟩) (.var "args.a" ⟨.u32, none, some 6⟩),
       .opAssign .plus (.var "x" ⟨.u32, none, some 7⟩) (.const 1)]
      = some [.binary .eq (.var "x" ⟨.u32, none, some 7⟩)
                (.binary .plus (.var "args.a" ⟨.u32, none, some 6⟩) (.const 1)),
              .binary .le (.var "x" ⟨.u32, none, some 7⟩) (.const 7),
              .binary .ge (.var "x" ⟨.u32, none, some 7⟩) (.const 1)] := by
  decide

/-- Defect witness (repaired by fixes/C01-fact-from-self-referential-assign.patch): the
fact `x == (x + 1)` that the unrepaired `bcheckAssignment` recorded after `x = x + 1`
is false in every store. -/
theorem self_referential_assign_witness (env : Env) :
    evalI env (.binary .eq (.var "x" ⟨.u32, none, none⟩)
      (.binary .plus (.var "x" ⟨.u32, none, none⟩) (.const 1))) = 0 := by
  simp [evalI, binSem, b2i]

/-- … and the repaired rule does not record it -/
example :
    checkStmt [.binary .le (.var "x" ⟨.u32, none, none⟩) (.const 6)]
      (.assign (.var "x" ⟨.u32, none, none⟩)
        (.binary .plus (.var "x" ⟨.u32, none, none⟩) (.const 1)))
      = some [.binary .ge (.var "x" ⟨.u32, none, none⟩) (.const 1),
              .binary .le (.var "x" ⟨.u32, none, none⟩) (.const 7)] := by
  decide

/-- the program of findings/C01/index-alias.wuffs, statement 2: `this.idx[args.a] = 200`
under the fact `this.idx[0] == 1` left by statement 1 -/
def aliasFacts : List Expr :=
  [.binary .eq (.index "this.idx" 8 ⟨.u8, none, none⟩ (.const 0)) (.const 1)]
def aliasStore : Stmt :=
  .assign (.index "this.idx" 8 ⟨.u8, none, none⟩ (.var "args.a" ⟨.u8, none, some 7⟩)) (.const 200)
def aliasEnv : Env := fun k => if k = .cell "this.idx" 0 then 1 else 0

/--
**index_alias_witness** (defect of the unrepaired code, repaired by
fixes/C01-index-alias-store.patch; was KNOWN_FINDINGS
false-fact:mentions-index:after-store-index).  The unrepaired `bcheckAssignment` dropped
only the facts that `Mention` the very expression `this.idx[args.a]`, so it KEPT the fact
`this.idx[0] == 1` across `this.idx[args.a] = 200`; in the store where `args.a == 0` that
fact holds before the statement and is false after it.  The repaired rule drops it.
-/
theorem index_alias_witness :
    dropMentioning aliasFacts (stmtTarget aliasStore) = aliasFacts ∧
    FactsHold aliasEnv aliasFacts ∧
    ¬ FactsHold (execStmt aliasEnv aliasStore) aliasFacts ∧
    checkStmt aliasFacts aliasStore = some
      [.binary .eq (.index "this.idx" 8 ⟨.u8, none, none⟩ (.var "args.a" ⟨.u8, none, some 7⟩))
        (.const 200)] := by
  refine ⟨by decide, ?_, ?_, by decide⟩
  · intro f hf
    simp only [aliasFacts, List.mem_singleton] at hf
    subst hf
    decide
  · intro h
    exact absurd (h _ (List.mem_singleton.2 rfl)) (by decide)

/-- the program of corpus/C01/11-minmax-fact-index-reads-base.wuffs:
`this.a[this.a[0] & 1] = args.x.min(no_more_than: 5)` -/
def mmLhs : Expr :=
  .index "this.a" 2 ⟨.u8, none, none⟩
    (.binary .amp (.index "this.a" 2 ⟨.u8, none, none⟩ (.const 0)) (.const 1))
def mmStore : Stmt := .assign mmLhs (.binary .bmin (.var "args.x" ⟨.u8, none, none⟩) (.const 5))
/-- `this.a == [0, 9]`, `args.x == 1` -/
def mmEnv : Env := fun k => if k = .cell "this.a" 1 then 9 else if k = .sc "args.x" then 1 else 0

/--
**minmax_alias_witness** (defect of the real checker found through this model, round 2
follow-up; repaired by fixes/C01-minmax-facts-aliasing-store.patch).  After
`lhs = a.min(no_more_than: b)` `bcheckAssignmentMaxMin` recorded `lhs <= a` and `lhs <= b`
whenever the operand did not `Mention` the very expression `lhs` — also when the index of
`lhs` reads the array stored to.  Here the operand `5` does not mention `lhs`, the store
writes `this.a[0] = 1`, and afterwards `this.a[this.a[0] & 1]` is `this.a[1] == 9`: the
fact `lhs <= 5` is false (the real checker accepted `this.b[this.a[this.a[0] & 1]]` on a
6-element array from it: index 9).  The repaired rule records nothing here.
-/
theorem minmax_alias_witness :
    mentions (.const 5) mmLhs = false ∧
    evalI mmEnv (.binary .bmin (.var "args.x" ⟨.u8, none, none⟩) (.const 5)) = 1 ∧
    evalI (execStmt mmEnv mmStore) mmLhs = 9 ∧
    evalI (execStmt mmEnv mmStore) (.binary .le mmLhs (.const 5)) = 0 ∧
    checkStmt [] mmStore = some [] := by
  decide

/-- … while for a target whose index does not read the array the facts are recorded:
`y = x.min(no_more_than: 5)` gives `y == x.min(5)`, `y <= x`, `y <= 5` -/
example :
    checkStmt [] (.assign (.var "y" ⟨.u8, none, none⟩)
      (.binary .bmin (.var "x" ⟨.u8, none, none⟩) (.const 5))) =
    some [.binary .eq (.var "y" ⟨.u8, none, none⟩) (.binary .bmin (.var "x" ⟨.u8, none, none⟩) (.const 5)),
          .binary .le (.var "y" ⟨.u8, none, none⟩) (.var "x" ⟨.u8, none, none⟩),
          .binary .le (.var "y" ⟨.u8, none, none⟩) (.const 5)] := by
  decide

/-- the numeric built-ins in `bcheck`: `x.min(no_more_than: 5)` ∈ [0, 5],
`x.low_bits(n: 3)` ∈ [0, 7], `x.high_bits(n: k)` with `k : base.u32[..= 2]` ∈ [0, 3];
`x.low_bits(n: 8)` on a `base.u8` is rejected (parameter type `u32[..= 7]`) -/
example :
    let x : Expr := .var "x" ⟨.u8, none, none⟩
    bcheck [] false (.binary .bmin x (.const 5)) = some (mkIR 0 5) ∧
    bcheck [] false (.binary .lowbits x (.const 3)) = some (mkIR 0 7) ∧
    bcheck [] false (.binary .highbits x (.var "k" ⟨.u32, none, some 2⟩)) = some (mkIR 0 3) ∧
    bcheck [] false (.binary .lowbits x (.const 8)) = none := by
  decide

/-- Defect witness (repaired by fixes/C01-mod-shift-left-lower-bound.patch): the
unrepaired bounds `[lo << k, min(hi << k, max)]` of `x ~mod<< 1` for `x : base.u8` in
[128, 255] were the EMPTY interval [256, 255], although the value exists (e.g. 0 for
x = 128); the repaired rule gives the whole type range. -/
theorem mod_shift_left_witness :
    (mkIR 256 255).empty = true ∧
    binSem .modshl .u8 128 1 = 0 ∧
    binBounds [] .modshl (.var "x" ⟨.u8, none, none⟩) (mkIR 128 255) (.const 1) (mkIR 1 1)
      = some (mkIR 0 255) := by
  decide

/-! ## Control flow: the soundness theorem over the Flow fragment

Fragment (`WFlow.FStmt`, Model/Flow.lean): blocks, assignment and op-assignment to
variables and array elements, `assert` (plain and `via` a listed axiom), if / else-if /
else, `while` with pre / inv / post, `break` / `continue` of any enclosing loop, `return`,
impure calls with scalar arguments (as statements or assigned to a variable), `yield?` and
coroutine calls — nested without bound.  Semantics: `Proof.Flow.Exec` (big-step; an impure
callee may store anything of the declared types into `this.*`; across a suspension the
caller may change `args.*` and `this.*`).  "Reached point": `Proof.Flow.Reach` — any
prefix of any execution, terminating or not, inside any nesting of branches and after any
number of loop iterations.  The monitors of a point: `Proof.FlowSafe.PointSafe`. -/

open WuffsVerif.WFlow WuffsVerif.Proof.Flow WuffsVerif.Proof.FlowSafe

/--
**check_sound_flow_wt** (general form).  Let `s` be a statement of the Flow fragment, typed
as lang/check/type.go leaves it (`wtS`, `ArgsWt`), that the checker accepts under the
situation `fs` inside the loops `L`; let `fs` hold in `env`.  Then at EVERY point
`(s', env')` that an execution from `env` can reach, the statement `s'` about to run trips
no monitor (`PointSafe`), and every fact of the checker's situation there is true.
-/
theorem check_sound_flow_wt {Γ : Ctx} {L L' : List LoopSpec} {fs fs' : List Expr}
    {env env' : Env} {s s' : FStmt} (hw : wtS Γ s) (ha : ArgsWt Γ s) (hl : WfLoops Γ L)
    (hc : (checkS L fs s).isSome = true) (S : Situation Γ env fs)
    (hr : Reach Γ L fs env s L' fs' env' s') :
    PointSafe Γ L' fs' env' s' ∧ FactsHold env' fs' ∧ EnvOk Γ env' :=
  let r := point_safe hw ha hl hc S hr
  ⟨r.1, r.2.holds, r.2.envOk⟩

/--
**check_sound_flow** (C01 for one function of the Flow fragment; hypotheses COMPUTABLE).
For every function — parameters `m.params`, body `m.body` — that passes `wfMethod` (one
declared type per name, boolean-shaped conditions, numeric op-assignment targets, `via`
reasons in the listing: what the type checker guarantees; the driver evaluates it on
every body of the correspondence) and whose body the checker accepts (`checkS [] []`,
the model of `bcheckBlock` on a function body): from EVERY store that respects the
declared types — any argument values within the argument types, any receiver state
within the field types, any locals —, at EVERY reached point, whatever impure callees
stored into `this.*` and whatever the caller changed across each suspension:
no safety monitor fails.  Spelled out by `PointSafe`: every array index (read or store) is
in `[0, len)`; every non-modular operator, negation and conversion stays within its type;
every shift amount is below the width and every divisor non-zero; every value stored
fits the refined type of its destination; every argument passed fits its parameter type;
every returned value fits the result type; every `assert`, every loop pre / inv on
arrival and every inv / post (pre / inv) at a `break` (`continue`) is true; and every node
of every evaluated expression has a value inside the bounds the checker derived for it.
-/
theorem check_sound_flow {m : FMethod} {L' : List LoopSpec} {fs' : List Expr} {env env' : Env}
    {s' : FStmt} (hwf : wfMethod m = true) (hc : (checkS [] [] m.body).isSome = true)
    (he : EnvOk (ctxOf (methodTypings m)) env)
    (hr : Reach (ctxOf (methodTypings m)) [] [] env m.body L' fs' env' s') :
    PointSafe (ctxOf (methodTypings m)) L' fs' env' s' ∧ FactsHold env' fs' ∧
      EnvOk (ctxOf (methodTypings m)) env' :=
  let ok := methodOk_of_wfMethod hwf hc
  check_sound_flow_wt ok.wtBody ok.argsWt (fun _ h => by cases h) hc (situation_nil he) hr

/--
**loop_condition_safe_flow**: every evaluation of a loop condition is safe — on arrival
(`PointSafe` of the `while`) and after each completed iteration (`Heads`: the body fell
through or ended in `continue`) —, and the loop's pre + inv are true each time.
-/
theorem loop_condition_safe_flow {Γ : Ctx} {L L' : List LoopSpec} {fs fs' : List Expr}
    {env env' envk : Env} {s body : FStmt} {sp : LoopSpec} {c : Expr} (hw : wtS Γ s)
    (hl : WfLoops Γ L) (hc : (checkS L fs s).isSome = true) (S : Situation Γ env fs)
    (hr : Reach Γ L fs env s L' fs' env' (.while sp c body)) (hh : Heads Γ c body env' envk) :
    CondsHold envk (nonPost sp) ∧ ExprSafe (assumeAll (nonPost sp)) envk c ∧ EnvOk Γ envk :=
  heads_safe hw hl hc S hr hh

/-- readable corollary: a reached store `a[i] = e` / `a[i] op= e` writes inside the array -/
theorem store_in_range_flow {Γ : Ctx} {L' : List LoopSpec} {fs' : List Expr} {env' : Env}
    {st : Stmt} {a : String} {len : Nat} {ety : Ty} {i : Expr}
    (h : PointSafe Γ L' fs' env' (.base st)) (ht : stmtTarget st = .index a len ety i) :
    0 ≤ evalI env' i ∧ evalI env' i < len := by
  have hs : safe env' false (stmtTarget st) := h.2.1.1
  rw [ht] at hs
  exact hs.2

/-- readable corollary: a reached `return e` returns a value of the declared result type -/
theorem return_in_range_flow {Γ : Ctx} {L' : List LoopSpec} {fs' : List Expr} {env' : Env}
    {e : Expr} {ty : Ty} (h : PointSafe Γ L' fs' env' (.ret (some (e, ty)))) :
    safe env' false e ∧ inType ty (evalI env' e) :=
  ⟨h.1.1, h.2⟩

/--
**check_sound_flow_hist** (the quantifier of C01 over the Flow fragment: "for every
input and every history of calls").  Take an object whose fields hold values of their
declared types (`FieldsOk`; e.g. freshly zero-initialised) and ANY history of public calls
of accepted methods with ANY argument values of the parameters' C types.  The history
semantics is `HistRun`: a call whose refined arguments fail the emitted run-time check
(`writeFuncImplArgChecks`) runs nothing and disables the object; a call that runs starts
from the fields the previous calls left, the arguments as passed, and locals of their
declared types; inside, impure callees and resuming callers do anything within the
declared types.  Then at EVERY program point reached during the history
(`HistReach`: after any number of completed calls, inside a call that may or may not
terminate) no safety monitor fails (`PointSafe`, as in `check_sound_flow`), every fact of
the checker is true, and the store respects the declared types; and after every
completed prefix the fields still hold values of their declared types
(`check_sound_flow_hist_fields`).
Each method has its own typing context `Γ m`, agreeing with `ΓF` on the fields
(`FMethodOk`); `check_sound_flow_obj` discharges `FMethodOk` by the computable `wfObj`.
-/
theorem check_sound_flow_hist {ΓF : Ctx} {Γ : FMethod → Ctx} {o : Obj}
    {hist : List (FMethod × List Int)} {m : FMethod} {L' : List LoopSpec} {fs' : List Expr}
    {env' : Env} {s' : FStmt} (hf : FieldsOk ΓF o.env)
    (hall : ∀ c ∈ hist, FMethodOk ΓF (Γ c.1) c.1 ∧ argsNat c.1.params c.2)
    (hr : HistReach Γ o hist m L' fs' env' s') :
    PointSafe (Γ m) L' fs' env' s' ∧ FactsHold env' fs' ∧ EnvOk (Γ m) env' :=
  let r := hist_point_safe hf hall hr
  ⟨r.1, r.2.holds, r.2.envOk⟩

/-- the fields keep their declared (refined) types across every history -/
theorem check_sound_flow_hist_fields {ΓF : Ctx} {Γ : FMethod → Ctx} {o o' : Obj}
    {hist : List (FMethod × List Int)} (hf : FieldsOk ΓF o.env)
    (hall : ∀ c ∈ hist, FMethodOk ΓF (Γ c.1) c.1 ∧ argsNat c.1.params c.2)
    (hr : HistRun Γ o hist o') : FieldsOk ΓF o'.env :=
  hist_fields hr hf hall

/--
**check_sound_flow_obj**: `check_sound_flow_hist` with computable hypotheses.  For an
object whose methods `ms` pass `wfObj` (every body of the shape the type checker
guarantees; one declared type per name over the whole object) and are all accepted by the
checker (`acceptsObj`): every history of calls of methods of `ms` with argument values
of the C types, from any receiver state within the field types, is safe at every
reached point.
-/
theorem check_sound_flow_obj {ms : List FMethod} {o : Obj} {hist : List (FMethod × List Int)}
    {m : FMethod} {L' : List LoopSpec} {fs' : List Expr} {env' : Env} {s' : FStmt}
    (hwf : wfObj ms = true) (hacc : acceptsObj ms = true)
    (hf : FieldsOk (ctxOf (objTypings ms)) o.env)
    (hall : ∀ c ∈ hist, c.1 ∈ ms ∧ argsNat c.1.params c.2)
    (hr : HistReach (fun _ => ctxOf (objTypings ms)) o hist m L' fs' env' s') :
    PointSafe (ctxOf (objTypings ms)) L' fs' env' s' ∧ FactsHold env' fs' ∧
      EnvOk (ctxOf (objTypings ms)) env' :=
  check_sound_flow_hist (ΓF := ctxOf (objTypings ms)) (Γ := fun _ => ctxOf (objTypings ms)) hf
    (fun c hc => ⟨methodOk_of_wfObj hwf hacc (hall c hc).1, (hall c hc).2⟩) hr

/--
**straightline_is_flow**: the straight-line theorems above are the special case of the
Flow theorems for bodies `blockStmt ss`: the checker's verdict and final situation are
those of `checkBlock`, the (only) execution is `runBlock`, and every statement of the
block is a `Reach` point in the store and with the situation of `HoldsAlong`.
-/
theorem straightline_is_flow {Γ : Ctx} (L : List LoopSpec) (fs : List Expr) (env : Env) (ss : List Stmt) :
    checkS L fs (blockStmt ss) = checkBlock fs ss ∧
    Exec Γ env (blockStmt ss) (.norm (runBlock env ss)) ∧
    ∀ pre s post fs1, ss = pre ++ s :: post → checkBlock fs pre = some fs1 →
      Reach Γ L fs env (blockStmt ss) L fs1 (runBlock env pre) (.base s) :=
  ⟨checkS_block L ss fs, exec_block ss env,
    fun pre s post fs1 h hc => by subst h; exact reach_block pre fs env fs1 s post hc⟩

/-! non-vacuity: a method with a counting loop that stores to an array, an element store
indexed by a refined argument, and a `return`:

    pub func t.fill!(a: base.u32[..= 6]) base.u32[..= 7] {
        x = 0
        while x < 5, inv x <= 5 { this.arr[x] = 1   x += 1 }
        this.arr[args.a] = 2
        return x
    }                       with  x : base.u32[..= 7],  this.arr : array[8] base.u8      -/

def fX : Expr := .var "x" ⟨.u32, none, some 7⟩
def fA : Expr := .var "args.a" ⟨.u32, none, some 6⟩
def fArr (i : Expr) : Expr := .index "this.arr" 8 ⟨.u8, none, none⟩ i

def demoFill : FMethod :=
  { params := [("args.a", ⟨.u32, none, some 6⟩)],
    body :=
      .seq (.base (.assign fX (.const 0)))
      (.seq (.while [(.inv, .binary .le fX (.const 5))] (.binary .lt fX (.const 5))
              (.seq (.base (.assign (fArr fX) (.const 1)))
              (.seq (.base (.opAssign .plus fX (.const 1))) .skip)))
      (.seq (.base (.assign (fArr fA) (.const 2)))
      (.seq (.ret (some (fX, ⟨.u32, none, some 7⟩))) .skip))) }

/-- the method is well-formed and accepted; so are the object `[demoFill]` … -/
theorem demoFill_ok : wfObj [demoFill] = true ∧ acceptsObj [demoFill] = true ∧
    wfMethod demoFill = true := by decide

/-- … the checker leaves the loop with exactly the invariant, and rejects the same body
when the array has only 4 elements (the store `this.arr[x]` with `x < 5` would overflow it) -/
example :
    checkS [] [] (.seq (.base (.assign fX (.const 0)))
      (.seq (.while [(.inv, .binary .le fX (.const 5))] (.binary .lt fX (.const 5))
              (.seq (.base (.opAssign .plus fX (.const 1))) .skip)) .skip))
      = some [.binary .le fX (.const 5)] ∧
    checkS [] [] (.seq (.base (.assign fX (.const 0)))
      (.seq (.while [(.inv, .binary .le fX (.const 5))] (.binary .lt fX (.const 5))
              (.seq (.base (.assign (.index "this.arr" 4 ⟨.u8, none, none⟩ fX) (.const 1)))
              (.seq (.base (.opAssign .plus fX (.const 1))) .skip))) .skip)) = none := by
  decide

/-- so `check_sound_flow_obj` applies to every history of calls `fill(v)`, `v` any 32-bit
value, from every receiver state: every reached point is safe -/
example (o : Obj) (vs : List Int) (hv : ∀ v ∈ vs, 0 ≤ v ∧ v ≤ 4294967295)
    (hf : FieldsOk (ctxOf (objTypings [demoFill])) o.env)
    {m : FMethod} {L' : List LoopSpec} {fs' : List Expr} {env' : Env} {s' : FStmt}
    (hr : HistReach (fun _ => ctxOf (objTypings [demoFill])) o (vs.map fun v => (demoFill, [v]))
      m L' fs' env' s') :
    PointSafe (ctxOf (objTypings [demoFill])) L' fs' env' s' := by
  refine (check_sound_flow_obj demoFill_ok.1 demoFill_ok.2.1 hf ?_ hr).1
  intro c hc
  simp only [List.mem_map] at hc
  obtain ⟨v, hv', rfl⟩ := hc
  exact ⟨List.mem_singleton.2 rfl,
    by simpa [argsNat, demoFill, inNatural, Base.range, Base.numBounds] using hv v hv'⟩

/-! ## No recursion (`checkNoRecursiveFuncs`) -/

open WuffsVerif.WCore.NoRec WuffsVerif.Proof.WCoreNoRec in
/--
**no_recursion**: if the model of `checkNoRecursiveFuncs` (depth-first search with
temporary / permanent marks over "calls this.foo", every function of the package
as a root) accepts a call graph, then no function can reach itself through one or
more calls: the call graph is acyclic, so running the program needs no more stack
frames than there are functions.
-/
theorem no_recursion (g : Graph) (h : accepts g = true) : ∀ n, ¬ Reach g n n := by
  intro n hr
  unfold accepts at h
  cases hv : visitAll g (fuelFor g) (List.range g.length) [] with
  | none => simp [hv] at h
  | some P =>
    obtain ⟨hT, hall, _⟩ := visitAll_spec g (fuelFor g) _ _ _ (topo_nil g) hv
    by_cases hn : n < g.length
    · have hmem : n ∈ P := hall n (List.mem_range.2 hn)
      obtain ⟨a, b, hab⟩ := List.append_of_mem hmem
      exact no_cycle_in_topo hT hr b.length a b hab (Nat.le_refl _)
    · exact reach_has_callee hr (callees_out_of_range (Nat.le_of_not_lt hn))

open WuffsVerif.WCore.NoRec in
/-- non-vacuity: a diamond is accepted, a 3-cycle and a self-call are rejected -/
example : accepts [[1, 2], [3], [3], []] = true ∧ accepts [[1], [2], [0]] = false ∧
    accepts [[], [1]] = false := by decide

/-
-- OPEN: the full-strength statement of C01 (DESIGN.md §C01):
--
--   theorem check_sound : ∀ (p : Pkg), check ∅ p = .ok → ∀ hist fuel,
--       ¬ (runHist p hist fuel).isUnsafe
--
-- over all accepted packages, all call histories, all argument values, all buffer
-- contents.
--
-- PROVED above, as instances of that statement for the modelled part of the language:
--   * `check_sound_flow` / `check_sound_flow_wt` — one function of the Flow fragment, every
--     reached point, every store within the declared types, arbitrary callee / caller
--     behaviour;  `loop_condition_safe_flow` — every evaluation of a loop condition;
--   * `check_sound_flow_hist` / `check_sound_flow_obj` / `check_sound_flow_hist_fields` —
--     every history of public calls of such functions with every argument value;
--   * `no_recursion` — the call graph;
--   * underneath: `bounds_contain(_nodes)`, `index_in_range`, `prove_sound`,
--     `facts_hold_F1`, `facts_hold_store`, and C02's `statement_preserves` / `reach_sound`.
-- The Flow fragment: integer scalars (refined) and bool as locals / arguments / fields,
-- fixed arrays of scalars, all unary / binary / associative operators, the numeric
-- built-in methods `min` / `max` / `low_bits` / `high_bits`, `as`, assignment
-- and op-assignment to variables and array elements, `assert` (plain and `via` any listed
-- axiom), if / else-if / else, `while` with pre / inv / post, `break` / `continue` of any
-- enclosing loop, `return`, impure calls with scalar arguments, `x = this.m!(…)`, `yield?`,
-- coroutine calls; methods with refined parameters; objects with several methods.
--
-- STILL MISSING in the model (and so in the theorem), covered by the search only
-- (harness/cmd/c01: monitored interpreter over the real typed AST + sanitizers on the
-- generated C; I/O pre-condition probes; negative corpus):
--   * slices: `s[i]`, `s[i .. j]`, `.length()`, the `i <= j <= len` obligations, slice-typed
--     locals across suspensions, aliasing between slice values that share memory;
--   * I/O: `io_reader` / `io_writer` / `token_writer` methods, their `length() >= n`
--     pre-conditions (`ioMethodAdvances`: only the TABLE is covered, `io_advance_table`),
--     `optimizeIOMethodAdvance`, `io_bind` / `io_limit`;
--   * `via` reasons whose operands lie outside the expression fragment (slice lengths:
--     `proveReasonRequirementForRHSLength` on slices); the generic reason procedure
--     itself, for every listed axiom, is in the model (C02: `reason_impl_sound`);
--   * `iterate` loops, `choose`, `=?` assignments, status values;
--   * pointers: `nptr` types, the `<> nullptr` facts of `proveRecvNotEqNullptr`;
--   * calls INSIDE expressions (pure methods `this.get()`, their facts), by-reference
--     (slice / table) arguments of impure calls;
--   * SIMD built-ins, `copy_from_history_fast` and friends (the numeric built-ins `min` /
--     `max` / `low_bits` / `high_bits` ARE in the model: operators `bmin` … `highbits`);
--   * struct cycles (`checkStructCycles`), package-level consts beyond typed constants.
--   * constant conditions (`while true`, constant-folded comparisons): `checkS` handles
--     them, but C02's `wtS` demands a boolean-typed condition node, so such functions do
--     not satisfy the hypotheses of the theorems above.
-- The tie between `wtS` and lang/check/type.go is by differential execution (`case func`
-- ops: `wfMethod` is evaluated on every sampled body), not proved.
-/

end WuffsVerif.Props.C01
