/-
C20 — what exactly each compiler invocation of `wuffs gen` is given: the sorted list
of the matching files of its own package directory, and nothing else; and no
package is compiled twice.  (Companion of Props/C20Build.lean: same model.)
-/
import WuffsVerif.Model.DetBuild
import WuffsVerif.Proof.DetBuild

namespace WuffsVerif.Props.C20
open WuffsVerif.Det List

/-- every invocation recorded so far satisfies `Q dirname files` -/
def PlanAll (Q : Name → List Name → Prop) (st : GenSt) : Prop := ∀ e ∈ st.plan, Q e.1 e.2

/-- A property of (package directory, file list) that holds for the base invocation and
for every listing the build tool can obtain holds for every invocation it makes. -/
theorem genWith_planAll (Q : Name → List Name → Prop)
    (ld : Name → Bool → Option (List Name × List Name)) (usesOf : Name → List Name) (root : Name)
    (hbase : Q baseName [])
    (hld : ∀ d r files dirs, ld (joinPath root d) r = some (files, dirs) → Q d files) :
    ∀ (fuel : Nat) (st : GenSt) (dirname : Name) (r : Bool) (st' : GenSt),
      PlanAll Q st → genWith ld usesOf root fuel st dirname r = some st' → PlanAll Q st'
  | 0, _, _, _, _, _, h => by simp [genWith] at h
  | fuel + 1, st, dirname, r, st', hst, h => by
    have ih := genWith_planAll Q ld usesOf root hbase hld fuel
    unfold genWith at h
    simp only at h
    split at h
    · cases h; exact hst
    · split at h
      · rename_i hb
        cases h
        intro e he
        simp only [mem_append, mem_singleton] at he
        rcases he with he | rfl
        · exact hst e he
        · have : stripSlashes dirname = baseName := by simpa using hb
          simp only [this]
          exact hbase
      · split at h
        · cases h
        · rename_i files dirs hl
          have key : ∀ s1 : GenSt,
              (if files.isEmpty = true then some { st with seen := stripSlashes dirname :: st.seen }
               else
                match (files.flatMap usesOf ++ [baseName]).foldl (fun (acc : Option GenSt) u =>
                  acc.bind (fun s => genWith ld usesOf root fuel s u false))
                    (some { st with seen := stripSlashes dirname :: st.seen }) with
                | none => none
                | some s => some { s with plan := s.plan ++ [(stripSlashes dirname, files)] }) = some s1 →
              PlanAll Q s1 := by
            intro s1 hs1
            split at hs1
            · cases hs1; exact hst
            · split at hs1
              · cases hs1
              · rename_i s hs
                cases hs1
                have hs' : PlanAll Q s :=
                  foldl_opt_inv (PlanAll Q) (fun s u => genWith ld usesOf root fuel s u false)
                    (fun s x s' hp hx => ih s x false s' hp hx) _
                    { st with seen := stripSlashes dirname :: st.seen } s hst hs
                intro e he
                simp only [mem_append, mem_singleton] at he
                rcases he with he | rfl
                · exact hs' e he
                · exact hld _ _ _ _ hl
          generalize hst1 : (if files.isEmpty = true then some { st with seen := stripSlashes dirname :: st.seen }
               else
                match (files.flatMap usesOf ++ [baseName]).foldl (fun (acc : Option GenSt) u =>
                  acc.bind (fun s => genWith ld usesOf root fuel s u false))
                    (some { st with seen := stripSlashes dirname :: st.seen }) with
                | none => none
                | some s => some { s with plan := s.plan ++ [(stripSlashes dirname, files)] }) = st1 at h key
          cases st1 with
          | none => rw [foldl_opt_none] at h; cases h
          | some s1 =>
            exact foldl_opt_inv (PlanAll Q) (fun s d => genWith ld usesOf root fuel s (stripSlashes dirname ++ [47] ++ d) r)
              (fun s x s' hp hx => ih s _ r s' hp hx) dirs s1 st' (key s1 rfl) h

/-- the matching source files of directory `d`, as the build tool must present them:
sorted, whatever the enumeration `infos` was -/
def packageFiles (root d : Name) (infos : List DirEntry) : List Name :=
  sortNames ((infos.filter (fun o => !o.isDir && hasSuffix o.name dotWuffs)).map (fun o => joinPath (joinPath root d) o.name))

/-- **Exactly the package's own sources.**  Every invocation `wuffs gen` makes is either
the base one (no files) or is given precisely the `.wuffs` files of its own package
directory, sorted — for every tree, enumeration, argument list and `use` structure. -/
theorem genPlan_files_exact (fs : FS) (usesOf : Name → List Name) (root : Name) (fuel : Nat)
    (args : List (Name × Bool)) (plan : List (Name × List Name)) (h : genPlan fs usesOf root fuel args = some plan) :
    ∀ e ∈ plan, (e.1 = baseName ∧ e.2 = []) ∨
      ∃ infos, fs (joinPath root e.1) = some infos ∧ e.2 = packageFiles root e.1 infos := by
  unfold genPlan at h
  cases hf : args.foldl (fun (acc : Option GenSt) a =>
      acc.bind (fun s => genWith (ldOf fs) usesOf root fuel s a.1 a.2)) (some ⟨[], []⟩) with
  | none => rw [hf] at h; cases h
  | some st =>
    rw [hf] at h
    simp only [Option.map_some, Option.some.injEq] at h
    subst h
    let Q : Name → List Name → Prop := fun d files =>
      (d = baseName ∧ files = []) ∨ ∃ infos, fs (joinPath root d) = some infos ∧ files = packageFiles root d infos
    have hld : ∀ d r files dirs, ldOf fs (joinPath root d) r = some (files, dirs) → Q d files := by
      intro d r files dirs hl
      unfold ldOf at hl
      cases hd : fs (joinPath root d) with
      | none => rw [hd] at hl; cases hl
      | some infos =>
        rw [hd] at hl
        simp only [Option.map_some, Option.some.injEq] at hl
        refine Or.inr ⟨infos, hd, ?_⟩
        unfold listDir at hl
        simp only [appendDir_eq, nil_append, Prod.mk.injEq] at hl
        exact hl.1.symm
    exact foldl_opt_inv (PlanAll Q) (fun s (a : Name × Bool) => genWith (ldOf fs) usesOf root fuel s a.1 a.2)
      (fun s x s' hp hx => genWith_planAll Q (ldOf fs) usesOf root (Or.inl ⟨rfl, rfl⟩) hld fuel s x.1 x.2 s' hp hx)
      args ⟨[], []⟩ st (fun e he => by simp at he) hf

end WuffsVerif.Props.C20
