/-
C15, byte level — `rac.Reader.Read/Seek/SeekRange/Close` on hostile files.

The model (Model/Rac/ByteReader.lean) is `rac.Reader` (reader.go; C14's sequential Reader
model reused for the Reader's own code) running on the REAL `ChunkReader` model of
chunk_reader.go, over an abstract deterministic codec `k`.  Everything below is for EVERY byte
string `f`, EVERY claimed size, EVERY codec and EVERY finite sequence of Read / Seek /
SeekRange / Close calls (`Reachable`).

* `read_terminates`, `read_work` — "opening, walking, seeking and reading terminate within
  work proportional to the file": a `Read(p)` makes at most `4·len(p)+8` iterations of its
  loop and at most `len(p)` `NextChunk` calls, each of which (Props/C15
  `resolve_terminates`) makes fewer than `CompressedSize` node loads.  `Seek` has no loop.
* `no_internal_error` — never panic: the model's stand-ins for Go panics / unreachable
  internal errors (`errInternalInconsistentPosition`, `errInvalidChunk`, a panic or a spin
  inside the ChunkReader) never occur.
* `read_bytes`, `read_deterministic`, `decode_deterministic` — "a file that decodes without
  error decodes to the same bytes every time": every byte any `Read` ever hands out, after
  any history of seeks and reads, is `byteAt k o pos`, a function of the file, the claimed
  size, the codec and the position only.
* `sticky` — a non-EOF error is returned by every later call.
-/
import WuffsVerif.Proof.C15BytesLoop

set_option linter.unusedVariables false

namespace WuffsVerif.Props.C15Bytes
open WuffsVerif.Rac WuffsVerif.Rac.ByteReader
open WuffsVerif.Rac.ChunkReader (openReader chunkAt CRInv)

/-- the states of a `rac.Reader` on file `f` that some call sequence reaches -/
inductive Reachable (k : Codec) (f : CFile) (claimed : Int) : S → Prop
  | opened : Reachable k f claimed (openS f claimed)
  | step {s : S} (op : Op) : Reachable k f claimed s → Reachable k f claimed (s.step k op).1

/-! ## `seek` -/

/-- the three things C14's `R.seek` can do once the target position `p` is known -/
theorem R_seek_cases (F : Rac.File) (r : R) (off wh limit p : Int)
    (ht : seekTarget r.pos F.size off wh = some p) :
    (p ≠ (r.pos : Int) ∧ p < 0 ∧ (r.seek F off wh limit).1.err = some .negPos ∧
      (r.seek F off wh limit).2.2 = some .negPos) ∨
    (p ≠ (r.pos : Int) ∧ 0 ≤ p ∧ (r.seek F off wh limit).2.2 = none ∧
      (r.seek F off wh limit).1.err = r.err ∧
      (r.seek F off wh limit).1.phase = .A ∧ (r.seek F off wh limit).1.pos = p.toNat ∧
      (r.seek F off wh limit).1.dlo = p.toNat ∧ (r.seek F off wh limit).1.dhi = p.toNat ∧
      (r.seek F off wh limit).1.closed = r.closed ∧ (r.seek F off wh limit).1.conc = r.conc ∧
      (r.seek F off wh limit).1.crPos = p.toNat) ∨
    (p = (r.pos : Int) ∧ (r.seek F off wh limit).2.2 = none ∧
      (r.seek F off wh limit).1 =
        { r with posLimit := (if limit > (F.size : Int) then (F.size : Int) else limit).toNat }) := by
  unfold R.seek
  rw [ht]
  simp only
  by_cases hne : p ≠ (r.pos : Int)
  · by_cases hneg : p < 0
    · left
      have hc : p ≠ (r.pos : Int) ∧ p < 0 := ⟨hne, hneg⟩
      rw [if_pos hc]
      exact ⟨hne, hneg, by first | rfl | trivial, by first | rfl | trivial⟩
    · right; left
      have hc : ¬ (p ≠ (r.pos : Int) ∧ p < 0) := by omega
      refine ⟨hne, by omega, ?_⟩
      rw [if_neg hc, if_pos hne]
      exact ⟨by first | rfl | trivial, by first | rfl | trivial, by first | rfl | trivial,
        by first | rfl | trivial, by first | rfl | trivial, by first | rfl | trivial,
        by first | rfl | trivial, by first | rfl | trivial, by first | rfl | trivial⟩
  · right; right
    have hp : p = (r.pos : Int) := by omega
    have hc : ¬ (p ≠ (r.pos : Int) ∧ p < 0) := by omega
    refine ⟨hp, ?_⟩
    rw [if_neg hc, if_neg hne]
    exact ⟨by first | rfl | trivial, by first | rfl | trivial⟩

theorem sinv_of_r_eq {k : Codec} {o : ChunkReader.Reader} {s s' : S} (h : SInv k o s)
    (hcr : s'.cr = s.cr) (h1 : s'.r.pos = s.r.pos) (h2 : s'.r.dlo = s.r.dlo)
    (h3 : s'.r.dhi = s.r.dhi) (h4 : s'.r.dec = s.r.dec) (h5 : s'.r.phase = s.r.phase)
    (h6 : s'.r.decTrunc = s.r.decTrunc) : SInv k o s' := by
  refine ⟨by rw [hcr]; exact h.cr, by rw [h1, h2]; exact h.le1, by rw [h1, h3]; exact h.le2, ?_, ?_⟩
  · intro hA; rw [hcr, h1]; exact h.phA (by rw [← h5]; exact hA)
  · intro hne
    have := h.phBC (by rw [← h5]; exact hne)
    exact ⟨this.1.of_eq h3 h2 h4 h5 h6, by rw [hcr, h3]; exact this.2⟩

/-- `Reader.seek` keeps the invariant (or sets a sticky error) -/
theorem seek_inv {k : Codec} {o : ChunkReader.Reader} (s : S) (off wh limit : Int)
    (he : s.r.err = none) (hs : SInv k o s) (hd : s.cr.dsize = o.dsize) (hg : GoodCause s) :
    GoodCause (s.seek off wh limit).1 ∧
    ((s.seek off wh limit).1.r.err = none → SInv k o (s.seek off wh limit).1) ∧
    (s.seek off wh limit).1.cr.dsize = o.dsize ∧
    (s.seek off wh limit).1.fetches = s.fetches ∧
    (∀ e, (s.seek off wh limit).2.2 = some e → e ≠ .whence → (s.seek off wh limit).1.r.err = some e) ∧
    (s.seek off wh limit).1.r.err ≠ some .inconsistent := by
  unfold S.seek
  cases ht : seekTarget s.r.pos s.cr.dsize off wh with
  | none =>
    simp only
    have hr : s.r.seek s.F off wh limit =
        ((if s.r.conc then { s.r with err := some .whence } else s.r), 0, some .whence) := by
      unfold R.seek
      have : seekTarget s.r.pos s.F.size off wh = none := ht
      rw [this]
    rw [hr]
    simp only
    refine ⟨hg, ?_, hd, (by first | rfl | trivial), ?_, ?_⟩
    · intro h
      by_cases hc : s.r.conc = true
      · simp only [hc, ↓reduceIte] at h; cases h
      · simp only [hc, Bool.false_eq_true, ↓reduceIte] at h ⊢
        exact sinv_of_r_eq hs rfl rfl rfl rfl rfl rfl rfl
    · intro e h hne; cases h; exact absurd rfl hne
    · by_cases hc : s.r.conc = true
      · simp only [hc, ↓reduceIte]; intro h; cases h
      · simp only [hc, Bool.false_eq_true, ↓reduceIte]; rw [he]; intro h; cases h
  | some p =>
    simp only
    have ht' : seekTarget s.r.pos s.F.size off wh = some p := ht
    have hcases := R_seek_cases s.F s.r off wh limit p ht'
    have hout : ∀ e, (s.r.seek s.F off wh limit).2.2 = some e → e ≠ .whence →
        (s.r.seek s.F off wh limit).1.err = some e := by
      intro e h hne
      rcases hcases with ⟨_, _, h1, h2⟩ | ⟨_, _, h2, _⟩ | ⟨_, h2, _⟩
      · rw [h2] at h; cases h; exact h1
      · rw [h2] at h; cases h
      · rw [h2] at h; cases h
    by_cases hmove : p ≠ (s.r.pos : Int) ∧ 0 ≤ p
    · rw [if_pos hmove]
      obtain ⟨hnone, hcr, hsp⟩ := ChunkReader.seek_value o s.cr hs.cr p hmove.2
      cases hsk : s.cr.seek p with
      | mk cr' e' =>
        rw [hsk] at hnone hcr hsp
        simp only at hnone hcr hsp
        subst hnone
        simp only
        rcases hcases with ⟨_, hneg, _⟩ | ⟨_, _, _, a1, a2, a3, a4, a5, a6, a7, _⟩ | ⟨heq, _⟩
        · omega
        · refine ⟨hg, ?_, ?_, (by first | rfl | trivial), hout, ?_⟩
          · intro _
            refine ⟨hcr, by show (s.r.seek s.F off wh limit).1.dlo ≤ (s.r.seek s.F off wh limit).1.pos; omega,
              by show (s.r.seek s.F off wh limit).1.pos ≤ (s.r.seek s.F off wh limit).1.dhi; omega, ?_, ?_⟩
            · intro _
              show cr'.seekPos = (s.r.seek s.F off wh limit).1.pos
              rw [hsp, a3]
            · intro hne
              exact absurd a2 hne
          · show cr'.dsize = o.dsize
            rw [hcr.same.2.2.1]
          · show (s.r.seek s.F off wh limit).1.err ≠ some .inconsistent
            rw [a1, he]; intro h; cases h
        · exact absurd heq hmove.1
    · rw [if_neg hmove]
      refine ⟨hg, ?_, hd, (by first | rfl | trivial), hout, ?_⟩
      · intro h
        rcases hcases with ⟨_, _, herr, _⟩ | ⟨hne, hge, _⟩ | ⟨_, _, heq⟩
        · have h' : (s.r.seek s.F off wh limit).1.err = none := h
          rw [herr] at h'; cases h'
        · exact absurd ⟨hne, hge⟩ hmove
        · exact sinv_of_r_eq hs rfl (by show (s.r.seek s.F off wh limit).1.pos = _; rw [heq])
            (by show (s.r.seek s.F off wh limit).1.dlo = _; rw [heq])
            (by show (s.r.seek s.F off wh limit).1.dhi = _; rw [heq])
            (by show (s.r.seek s.F off wh limit).1.dec = _; rw [heq])
            (by show (s.r.seek s.F off wh limit).1.phase = _; rw [heq])
            (by show (s.r.seek s.F off wh limit).1.decTrunc = _; rw [heq])
      · show (s.r.seek s.F off wh limit).1.err ≠ some .inconsistent
        rcases hcases with ⟨_, _, herr, _⟩ | ⟨hne, hge, _⟩ | ⟨_, _, heq⟩
        · rw [herr]; intro h; cases h
        · exact absurd ⟨hne, hge⟩ hmove
        · rw [heq]; show s.r.err ≠ _; rw [he]; intro h; cases h

/-! ## the invariant of every reachable state -/

/-- what every reachable state satisfies; `o` is the chunk reader right after `initialize` -/
structure Good (k : Codec) (o : ChunkReader.Reader) (s : S) : Prop where
  cause : GoodCause s
  inv : s.r.err = none → SInv k o s
  dsize : s.r.err = none → s.cr.dsize = o.dsize
  noInternal : s.r.err ≠ some .inconsistent

theorem openReader_seekPos (f : CFile) (claimed : Int) : (openReader f claimed).seekPos = 0 := by
  unfold openReader
  split
  · rfl
  simp only
  split
  · rfl
  split <;> rfl

theorem open_good (k : Codec) (f : CFile) (claimed : Int) :
    Good k (openReader f claimed) (openS f claimed) := by
  unfold openS
  simp only
  cases he : (openReader f claimed).err with
  | some e =>
    simp only
    refine ⟨⟨(by intro h; cases h), (by intro h; cases h), ?_⟩, (by intro h; cases h), (by intro h; cases h),
      by intro h; cases h⟩
    intro h
    have : e = .panic := by
      simp only [Option.some.injEq, Cause.cr.injEq] at h; exact h
    rw [this] at he
    exact ChunkReader.openReader_err_ne_panic f claimed he
  | none =>
    simp only
    refine ⟨⟨(by intro h; cases h), (by intro h; cases h), by intro h; cases h⟩, ?_, fun _ => rfl,
      by intro h; cases h⟩
    intro _
    refine ⟨ChunkReader.open_crinv f claimed he, Nat.le_refl _, Nat.le_refl _, ?_, ?_⟩
    · intro _; exact openReader_seekPos f claimed
    · intro h; exact absurd rfl h

/-- what one `Read` does, for a state that satisfies the invariant -/
theorem read_good {k : Codec} {o : ChunkReader.Reader} (s : S) (n : Nat) (h : Good k o s) :
    Good k o (s.read k n).1 ∧ (s.read k n).2 ≠ .spin ∧
    (s.read k n).1.fetches ≤ s.fetches + n ∧
    (∀ bs e, (s.read k n).2 = .ret bs e →
      (∀ i, i < bs.length → bs.getD i 0 = byteAt k o (s.r.pos + i)) ∧ bs.length ≤ n ∧
      (∀ x, e = some x → x ≠ .eof → (s.read k n).1.r.err = some x) ∧
      ((s.read k n).1.r.err = none → (s.read k n).1.r.pos = s.r.pos + bs.length)) := by
  unfold S.read
  cases he : s.r.err with
  | some e0 =>
    simp only
    refine ⟨h, (by intro h; cases h), by omega, ?_⟩
    intro bs e hb
    cases hb
    refine ⟨by intro i hi; simp at hi, by simp, ?_, by intro h; rw [he] at h; cases h⟩
    intro x hx _; cases hx; exact he
  | none =>
    simp only
    by_cases hlim : s.r.pos ≥ s.r.posLimit
    · simp only [hlim, ↓reduceIte]
      refine ⟨h, (by intro h; cases h), by omega, ?_⟩
      intro bs e hb
      cases hb
      exact ⟨by intro i hi; simp at hi, by simp, by intro x hx hne; cases hx; exact absurd rfl hne,
        by intro _; simp⟩
    · simp only [hlim, ↓reduceIte]
      obtain ⟨s', bs, e, hrun, hbytes, hlen, _, hfet, hg', hinv', hnone, hsome⟩ :=
        readLoop_ok (readFuel (min n (s.r.posLimit - s.r.pos))) s (min n (s.r.posLimit - s.r.pos))
          he (h.inv he) h.cause (pot_lt_readFuel _ _)
      rw [hrun]
      simp only
      refine ⟨⟨hg', fun h' => (hinv' h').1, ?_, ?_⟩, (by intro h; cases h), by omega, ?_⟩
      · intro h'
        have := (hinv' h').1.cr.same.2.2.1
        exact this
      · intro hbad
        cases e with
        | none => rw [hnone rfl] at hbad; cases hbad
        | some x =>
          obtain ⟨hx, hxne⟩ := hsome x rfl
          rcases hx with hx | ⟨_, hx⟩
          · rw [hx] at hbad; cases hbad; exact hxne rfl
          · rw [hx] at hbad; cases hbad
      · intro bs' e' hb
        cases hb
        refine ⟨hbytes, by omega, ?_, fun h' => (hinv' h').2.1⟩
        intro x hx hne
        rcases (hsome x hx).1 with h1 | ⟨h1, _⟩
        · exact h1
        · exact absurd h1 hne

theorem step_good {k : Codec} {o : ChunkReader.Reader} (s : S) (op : Op) (h : Good k o s) :
    Good k o (s.step k op).1 := by
  cases op with
  | read n => exact (read_good s n h).1
  | seek off wh =>
    show Good k o (s.Seek off wh).1
    unfold S.Seek
    cases he : s.r.err with
    | some e => exact h
    | none =>
      simp only
      obtain ⟨a1, a2, a3, _, _, a6⟩ := seek_inv s off wh maxInt64 he (h.inv he) (h.dsize he) h.cause
      exact ⟨a1, a2, fun _ => a3, a6⟩
  | seekRange lo hi =>
    show Good k o (s.SeekRange lo hi).1
    unfold S.SeekRange
    cases he : s.r.err with
    | some e => exact h
    | none =>
      simp only
      by_cases hneg : lo > hi
      · simp only [hneg, ↓reduceIte]
        exact ⟨h.cause, (by intro h; cases h), (by intro h; cases h), by intro h; cases h⟩
      · simp only [hneg, ↓reduceIte]
        obtain ⟨a1, a2, a3, _, _, a6⟩ := seek_inv s lo 0 hi he (h.inv he) (h.dsize he) h.cause
        exact ⟨a1, a2, fun _ => a3, a6⟩
  | close =>
    show Good k o (s.Close).1
    unfold S.Close R.Close
    by_cases hc : s.r.closed = true
    · simp only [hc, ↓reduceIte]; exact h
    · simp only [hc, Bool.false_eq_true, ↓reduceIte]
      cases he : s.r.err with
      | none =>
        simp only
        exact ⟨h.cause, (by intro h; cases h), (by intro h; cases h), by intro h; cases h⟩
      | some e =>
        simp only
        refine ⟨h.cause, (by intro h'; cases h'), (by intro h'; cases h'), ?_⟩
        have := h.noInternal
        rw [he] at this
        exact this

/-- **reachable_good.**  Every state that any call sequence reaches on any byte string
satisfies the invariant. -/
theorem reachable_good {k : Codec} {f : CFile} {claimed : Int} {s : S}
    (hr : Reachable k f claimed s) : Good k (openReader f claimed) s := by
  induction hr with
  | opened => exact open_good k f claimed
  | step op _ ih => exact step_good _ op ih

/-! ## the property theorems -/

/-- **read_terminates.**  `Reader.Read` returns, for every hostile file and every history:
`4·len(p) + 8` iterations of its loop are always enough (the model's "still looping" never
happens). -/
theorem read_terminates {k : Codec} {f : CFile} {claimed : Int} {s : S}
    (hr : Reachable k f claimed s) (n : Nat) : (s.read k n).2 ≠ .spin :=
  (read_good s n (reachable_good hr)).2.1

/-- **read_work.**  One `Read(p)` makes at most `len(p)` calls of `ChunkReader.NextChunk`
(every fetched chunk yields at least one byte before the next is fetched); by Props/C15
`resolve_terminates` each call makes fewer than `CompressedSize` node loads of at most
4 + 4096 bytes.  `Seek`, `SeekRange`, `Close` make none. -/
theorem read_work {k : Codec} {f : CFile} {claimed : Int} {s : S}
    (hr : Reachable k f claimed s) (n : Nat) : (s.read k n).1.fetches ≤ s.fetches + n :=
  (read_good s n (reachable_good hr)).2.2.1

theorem seek_work {k : Codec} (s : S) (off wh : Int) (lo hi : Int) :
    (s.Seek off wh).1.fetches = s.fetches ∧ (s.SeekRange lo hi).1.fetches = s.fetches ∧
    s.Close.1.fetches = s.fetches := by
  have hseek : ∀ off wh limit, (s.seek off wh limit).1.fetches = s.fetches := by
    intro off wh limit
    unfold S.seek
    split
    · split
      · split <;> rfl
      · rfl
    · rfl
  refine ⟨?_, ?_, rfl⟩
  · unfold S.Seek; split
    · rfl
    · exact hseek _ _ _
  · unfold S.SeekRange; split
    · rfl
    · split
      · rfl
      · exact hseek _ _ _

/-- **no_internal_error.**  Never panic, at the Reader level: in no reachable state is the
sticky error `errInternalInconsistentPosition`, `errInvalidChunk`, a ChunkReader panic or a
ChunkReader that is still looping. -/
theorem no_internal_error {k : Codec} {f : CFile} {claimed : Int} {s : S}
    (hr : Reachable k f claimed s) :
    s.r.err ≠ some .inconsistent ∧ s.cause ≠ some .invalidChunk ∧
    s.cause ≠ some (.cr .panic) ∧ s.cause ≠ some .crSpin := by
  have g := reachable_good hr
  exact ⟨g.noInternal, g.cause.2.1, g.cause.2.2, g.cause.1⟩

/-- **read_bytes.**  Every byte that any `Read` hands out — sequentially, after a `Seek` into
the middle of a chunk, inside implicit zeroes, before an error that the same call reports —
is the meaning `byteAt` of its DSpace position: a function of the file bytes, the claimed
size, the codec and the position, not of the calls made before. -/
theorem read_bytes {k : Codec} {f : CFile} {claimed : Int} {s : S}
    (hr : Reachable k f claimed s) (n : Nat) (bs : List UInt8) (e : Option Err)
    (h : (s.read k n).2 = .ret bs e) :
    ∀ i, i < bs.length → bs.getD i 0 = byteAt k (openReader f claimed) (s.r.pos + i) :=
  ((read_good s n (reachable_good hr)).2.2.2 bs e h).1

/-- **read_deterministic.**  Two `Read`s at the same DSpace position — in any two histories
on the same file, with any buffer sizes — agree on every byte both return. -/
theorem read_deterministic {k : Codec} {f : CFile} {claimed : Int} {s1 s2 : S}
    (h1 : Reachable k f claimed s1) (h2 : Reachable k f claimed s2) (hp : s1.r.pos = s2.r.pos)
    (n1 n2 : Nat) (bs1 bs2 : List UInt8) (e1 e2 : Option Err)
    (r1 : (s1.read k n1).2 = .ret bs1 e1) (r2 : (s2.read k n2).2 = .ret bs2 e2) :
    ∀ i, i < bs1.length → i < bs2.length → bs1.getD i 0 = bs2.getD i 0 := by
  intro i hi1 hi2
  rw [read_bytes h1 n1 bs1 e1 r1 i hi1, read_bytes h2 n2 bs2 e2 r2 i hi2, hp]

/-- **sticky.**  Once a reachable Reader has a sticky error, `Read`, `Seek` and `SeekRange`
return it and change nothing. -/
theorem sticky {k : Codec} (s : S) (e : Err) (h : s.r.err = some e) :
    s.read k 1 = (s, .ret [] (some e)) ∧ (∀ n, s.read k n = (s, .ret [] (some e))) ∧
    (∀ off wh, s.Seek off wh = (s, 0, some e)) ∧ (∀ lo hi, s.SeekRange lo hi = (s, some e)) := by
  refine ⟨?_, ?_, ?_, ?_⟩
  · unfold S.read; rw [h]
  · intro n; unfold S.read; rw [h]
  · intro off wh; unfold S.Seek; rw [h]
  · intro lo hi; unfold S.SeekRange; rw [h]

/-- a non-EOF error returned by `Read` is sticky -/
theorem read_error_sticky {k : Codec} {f : CFile} {claimed : Int} {s : S}
    (hr : Reachable k f claimed s) (n : Nat) (bs : List UInt8) (x : Err)
    (h : (s.read k n).2 = .ret bs (some x)) (hne : x ≠ .eof) : (s.read k n).1.r.err = some x :=
  ((read_good s n (reachable_good hr)).2.2.2 bs (some x) h).2.2.1 x rfl hne

/-- **decode_deterministic.**  The bytes of a `Read` are exactly the file's meaning at the
positions read: `Read` at position `p` returning `m` bytes returns
`[byteAt p, …, byteAt (p+m-1)]`, whatever happened before.  In particular a file that decodes
without error decodes to the same bytes every time, sequentially or after seeks. -/
theorem decode_deterministic {k : Codec} {f : CFile} {claimed : Int} {s : S}
    (hr : Reachable k f claimed s) (n : Nat) (bs : List UInt8) (e : Option Err)
    (h : (s.read k n).2 = .ret bs e) :
    bs = (List.range bs.length).map (fun i => byteAt k (openReader f claimed) (s.r.pos + i)) := by
  apply List.ext_getElem (by simp)
  intro i h1 h2
  have := read_bytes hr n bs e h i h1
  rw [List.getD_eq_getElem?_getD, List.getElem?_eq_getElem h1] at this
  simp only [Option.getD_some] at this
  simp [this]

/-! ## non-vacuity: an 80-byte file, root at the start, three chunks under the toy codec

chunk 0: DRange [0,8), 5 explicit bytes then 3 implicit zeroes; chunk 1: DRange [8,11), 3
bytes; chunk 2: DRange [11,15), 2 bytes and then a decoder error. -/

def exBytes : CFile := ChunkReader.File.ofList
  [114, 195, 99, 3, 156, 184, 0, 255, 8, 0, 0, 0, 0, 0, 0, 255, 11, 0, 0, 0, 0, 0, 0, 255, 15, 0, 0,
   0, 0, 0, 0, 1, 64, 0, 0, 0, 0, 0, 0, 255, 70, 0, 0, 0, 0, 0, 0, 255, 74, 0, 0, 0, 0, 0, 0, 255, 80,
   0, 0, 0, 0, 0, 1, 3, 5, 10, 11, 12, 13, 14, 3, 20, 21, 22, 194, 30, 31, 0, 0, 0]

def ex0 : S := openS exBytes 80

example : Reachable toyCodec exBytes 80 ((ex0.step toyCodec (.seek 6 0)).1) := .step _ .opened

example : ex0.r.err = none ∧ ex0.cr.dsize = 15 := by decide +kernel
/-- a sequential read across a chunk boundary and implicit zeroes -/
example : (ex0.read toyCodec 10).2 = .ret [10, 11, 12, 13, 14, 0, 0, 0, 20, 21] none ∧
    (ex0.read toyCodec 10).1.fetches = 2 := by decide +kernel
/-- the same bytes after a seek into the middle of chunk 0 (discard path) and of the zeroes -/
example : ((ex0.Seek 3 0).1.read toyCodec 4).2 = .ret [13, 14, 0, 0] none := by decide +kernel
example : ((ex0.Seek 6 0).1.read toyCodec 4).2 = .ret [0, 0, 20, 21] none := by decide +kernel
/-- the decoder error of chunk 2 arrives with the bytes before it and is sticky -/
example : (ex0.read toyCodec 100).2 = .ret [10, 11, 12, 13, 14, 0, 0, 0, 20, 21, 22, 30, 31]
    (some .truncated) ∧ (ex0.read toyCodec 100).1.r.err = some .truncated := by decide +kernel
/-- the meaning function itself -/
example : (List.range 13).map (byteAt toyCodec (openReader exBytes 80)) =
    [10, 11, 12, 13, 14, 0, 0, 0, 20, 21, 22, 30, 31] := by decide +kernel
/-- a hostile variant: the self-referential 32-byte file opens, and the first `Read` fails with
the ChunkReader's error, which is sticky in the Reader -/
def exLoop : S := openS (ChunkReader.File.ofList
  [114, 195, 99, 1, 89, 35, 0, 254, 7, 0, 0, 0, 0, 0, 0, 0, 0, 0, 0, 0, 0, 0, 0, 255, 32, 0, 0, 0,
   0, 0, 1, 1]) 32
example : exLoop.r.err = none ∧ (exLoop.read toyCodec 4).2 = .ret [] (some .badIndex) ∧
    (exLoop.read toyCodec 4).1.cause = some (.cr .badNode) := by decide +kernel

end WuffsVerif.Props.C15Bytes
