import WuffsVerif.Model.EffectFlags
import WuffsVerif.Props.C10Effects
/-!
# C10 — the effect rule used by `tcheck` is the flag-level rule of the parser

`Model/EffectFlags.lean` mirrors `ast.NewExpr`'s flag propagation and the
individual checks of `parseExpr` / `parseArgNode` / `parseAssignNode`.  Here:
the abstract rules of `Model/Effects.lean` (on which `pure_no_write` rests) are
equal to those checks, for every statement of the fragment.
-/
namespace WuffsVerif.Props.C10

open WuffsVerif.Effects

theorem newExpr_sub_two (own : Eff) (a b : Flags) :
    (newExpr own [a, b]).sub = (a.eff == .impure || b.eff == .impure) := by
  simp [newExpr]

theorem eff_ne_impure {e : Eff} : (e == .impure) = false ↔ e = .pure := by
  cases e <;> decide

/-- L1 + L2: when all nested checks pass, the node's `Effect()` is the abstract
    (deep) effect, and "all nested checks pass" is `subExprOk`. -/
theorem exact_iff (e : Expr) :
    (e.exact = true ↔ e.subExprOk = true) ∧ (e.exact = true → e.flags.eff = e.effect ∧ e.flags.sub = false) := by
  induction e with
  | call mk m a ih =>
    obtain ⟨ih1, ih2⟩ := ih
    constructor
    · simp only [Expr.exact, Expr.subExprOk, Bool.and_eq_true, Bool.not_eq_true', beq_iff_eq,
        decide_eq_true_eq]
      constructor
      · rintro ⟨⟨ha, _⟩, he⟩
        obtain ⟨h1, _⟩ := ih2 ha
        exact ⟨by rw [← h1]; exact he, ih1.1 ha⟩
      · rintro ⟨he, hs⟩
        have ha := ih1.2 hs
        obtain ⟨h1, h2⟩ := ih2 ha
        exact ⟨⟨ha, h2⟩, by rw [h1]; exact he⟩
    · intro hx
      simp only [Expr.exact, Bool.and_eq_true, Bool.not_eq_true', beq_iff_eq] at hx
      obtain ⟨h1, _⟩ := ih2 hx.1.1
      have ha : a.effect = .pure := by rw [← h1]; exact hx.2
      cases mk <;> simp [Expr.flags, newExpr, Flags.none, Expr.effect, ha]
  | add l r ihl ihr =>
    obtain ⟨l1, l2⟩ := ihl
    obtain ⟨r1, r2⟩ := ihr
    have hsub : (Expr.add l r).flags.sub = (l.flags.eff == .impure || r.flags.eff == .impure) := by
      simp [Expr.flags, newExpr]
    constructor
    · simp only [Expr.exact, Expr.subExprOk, hsub, Bool.and_eq_true, Bool.not_eq_true',
        Bool.or_eq_false_iff, decide_eq_true_eq]
      constructor
      · rintro ⟨⟨hl, hr⟩, hel, her⟩
        obtain ⟨a1, _⟩ := l2 hl
        obtain ⟨b1, _⟩ := r2 hr
        exact ⟨⟨⟨by rw [← a1]; exact eff_ne_impure.1 hel, by rw [← b1]; exact eff_ne_impure.1 her⟩,
          l1.1 hl⟩, r1.1 hr⟩
      · rintro ⟨⟨⟨hel, her⟩, hl⟩, hr⟩
        have hl' := l1.2 hl
        have hr' := r1.2 hr
        obtain ⟨a1, _⟩ := l2 hl'
        obtain ⟨b1, _⟩ := r2 hr'
        exact ⟨⟨hl', hr'⟩, eff_ne_impure.2 (by rw [a1]; exact hel), eff_ne_impure.2 (by rw [b1]; exact her)⟩
    · intro hx
      simp only [Expr.exact, hsub, Bool.and_eq_true, Bool.not_eq_true', Bool.or_eq_false_iff] at hx
      obtain ⟨⟨hl, hr⟩, hel, her⟩ := hx
      obtain ⟨a1, _⟩ := l2 hl
      obtain ⟨b1, _⟩ := r2 hr
      have e1 : l.effect = .pure := by rw [← a1]; exact eff_ne_impure.1 hel
      have e2 : r.effect = .pure := by rw [← b1]; exact eff_ne_impure.1 her
      refine ⟨?_, ?_⟩
      · simp [Expr.flags, newExpr, hel, her, Expr.effect, e1, e2]
      · rw [hsub]; simp [hel, her]
  | _ => simp [Expr.exact, Expr.subExprOk, Expr.flags, Expr.effect, Flags.none]

theorem exact_eq (e : Expr) : e.exact = e.subExprOk := by
  have := (exact_iff e).1
  cases h1 : e.exact <;> cases h2 : e.subExprOk <;> simp_all

theorem bool_eq_of_iff {a b : Bool} (h : a = true ↔ b = true) : a = b := by
  cases a <;> cases b <;> simp_all

theorem eff_cases (e : Eff) : e = .pure ∨ e = .impure := by cases e <;> simp

theorem exact_spec {e : Expr} (hx : e.exact = true) :
    e.subExprOk = true ∧ e.flags.eff = e.effect ∧ e.flags.sub = false :=
  ⟨(exact_iff e).1.1 hx, ((exact_iff e).2 hx).1, ((exact_iff e).2 hx).2⟩

theorem exact_of_subExprOk {e : Expr} (h : e.subExprOk = true) : e.exact = true := (exact_iff e).1.2 h

/-- the value checks of `parseExpr` (+ `Effect()` read afterwards) on an operand -/
theorem value_check (e : Expr) (g : Eff → Bool) :
    (e.exact && !e.flags.sub && g e.flags.eff) = (e.subExprOk && g e.effect) := by
  apply bool_eq_of_iff
  simp only [Bool.and_eq_true, Bool.not_eq_true']
  constructor
  · rintro ⟨⟨hx, _⟩, hg⟩
    obtain ⟨h1, h2, _⟩ := exact_spec hx
    exact ⟨h1, by rw [← h2]; exact hg⟩
  · rintro ⟨hs, hg⟩
    have hx := exact_of_subExprOk hs
    obtain ⟨_, h2, h3⟩ := exact_spec hx
    exact ⟨⟨hx, h3⟩, by rw [h2]; exact hg⟩

theorem wrapFlags_sub (e : Expr) : (wrapFlags e).sub = (e.flags.eff == .impure) := by
  simp [wrapFlags, newExpr, Flags.none]

theorem wrapExact_iff (e : Expr) : wrapExact e = true ↔ (e.effect = .pure ∧ e.subExprOk = true) := by
  simp only [wrapExact, wrapFlags_sub, Bool.and_eq_true, Bool.not_eq_true']
  constructor
  · rintro ⟨hx, he⟩
    obtain ⟨h1, h2, _⟩ := exact_spec hx
    exact ⟨by rw [← h2]; exact eff_ne_impure.1 he, h1⟩
  · rintro ⟨he, hs⟩
    have hx := exact_of_subExprOk hs
    obtain ⟨_, h2, _⟩ := exact_spec hx
    exact ⟨hx, eff_ne_impure.2 (by rw [h2]; exact he)⟩

theorem wrapExact_eq (e : Expr) : wrapExact e = (decide (e.effect = .pure) && e.subExprOk) := by
  apply bool_eq_of_iff
  rw [wrapExact_iff]
  simp

theorem wrap_check (e : Expr) :
    (e.exact && !(wrapFlags e).sub) = (decide (e.effect = .pure) && e.subExprOk) := wrapExact_eq e

theorem wrapFlags_of_exact {e : Expr} (h : wrapExact e = true) : wrapFlags e = Flags.none := by
  obtain ⟨he, hs⟩ := (wrapExact_iff e).1 h
  obtain ⟨_, h2, _⟩ := exact_spec (exact_of_subExprOk hs)
  simp [wrapFlags, newExpr, Flags.none, h2, he]

/-- a slice bound as written: when its checks pass, its node's `Effect()` is the abstract effect -/
theorem bound_spec {o : Option Expr} (h : boundExact o = true) :
    optSubExprOk o = true ∧ (boundFlags o).eff = optEffect o := by
  cases o with
  | none => simp [optSubExprOk, boundFlags, optEffect, Flags.none]
  | some e =>
    by_cases hc : e.isCall = true
    · simp only [boundExact, hc, if_true, Bool.and_eq_true, Bool.not_eq_true'] at h
      obtain ⟨h1, h2, _⟩ := exact_spec h.1
      simp [optSubExprOk, boundFlags, optEffect, hc, h1, h2]
    · simp only [boundExact, hc, Bool.false_eq_true, if_false] at h
      obtain ⟨he, hs⟩ := (wrapExact_iff e).1 h
      simp [optSubExprOk, boundFlags, optEffect, hc, hs, wrapFlags_of_exact h, Flags.none, he]

theorem bound_exact_of {o : Option Expr} (hs : optSubExprOk o = true) (he : optEffect o = .pure) :
    boundExact o = true := by
  cases o with
  | none => rfl
  | some e =>
    simp only [optSubExprOk, optEffect] at hs he
    by_cases hc : e.isCall = true
    · have hx := exact_of_subExprOk hs
      obtain ⟨_, _, h3⟩ := exact_spec hx
      simp [boundExact, hc, hx, h3]
    · simp only [boundExact, hc, Bool.false_eq_true, if_false]
      exact (wrapExact_iff e).2 ⟨he, hs⟩

theorem sub_flags (f : Nat) (lo hi : Option Expr) :
    (SRef.sub f lo hi).flags.sub = ((boundFlags lo).eff == .impure || (boundFlags hi).eff == .impure) := by
  simp [SRef.flags, newExpr, Flags.none]

theorem sref_effect_pure_split {f : Nat} {lo hi : Option Expr} :
    (SRef.sub f lo hi).effect = .pure ↔ (optEffect lo = .pure ∧ optEffect hi = .pure) := by
  constructor
  · exact sref_effect_sub
  · rintro ⟨h1, h2⟩
    simp [SRef.effect, h1, h2]

/-- a slice node has effect bits only through its children (`NewExpr` with own flags 0) -/
theorem sref_not_sub_pure (s : SRef) (h : s.flags.sub = false) : s.flags.eff = .pure := by
  cases s with
  | sub f lo hi =>
    simp only [SRef.flags, newExpr] at h ⊢
    simp [h]
  | pal => simp [SRef.flags, newExpr, Flags.none]
  | _ => simp [SRef.flags, Flags.none]

theorem sref_parseExact_eq (s : SRef) : s.parseExact = s.parseOk := by
  cases s with
  | sub f lo hi =>
    apply bool_eq_of_iff
    simp only [SRef.parseExact, SRef.exact, SRef.parseOk, SRef.subExprOk, sub_flags, Bool.and_eq_true,
      Bool.not_eq_true', Bool.or_eq_false_iff, beq_iff_eq, decide_eq_true_eq, sref_effect_pure_split]
    constructor
    · rintro ⟨⟨⟨hl, hh⟩, el, eh⟩, _⟩
      obtain ⟨s1, f1⟩ := bound_spec hl
      obtain ⟨s2, f2⟩ := bound_spec hh
      exact ⟨⟨by rw [← f1]; exact eff_ne_impure.1 el, by rw [← f2]; exact eff_ne_impure.1 eh⟩, s1, s2⟩
    · rintro ⟨⟨el, eh⟩, s1, s2⟩
      have hl := bound_exact_of s1 el
      have hh := bound_exact_of s2 eh
      obtain ⟨_, f1⟩ := bound_spec hl
      obtain ⟨_, f2⟩ := bound_spec hh
      have e1 : ((boundFlags lo).eff == Eff.impure) = false := eff_ne_impure.2 (by rw [f1]; exact el)
      have e2 : ((boundFlags hi).eff == Eff.impure) = false := eff_ne_impure.2 (by rw [f2]; exact eh)
      refine ⟨⟨⟨hl, hh⟩, e1, e2⟩, ?_⟩
      apply sref_not_sub_pure
      rw [sub_flags, e1, e2]; rfl
  | pal => simp [SRef.parseExact, SRef.exact, SRef.flags, SRef.parseOk, SRef.effect, SRef.subExprOk, newExpr, Flags.none]
  | _ => simp [SRef.parseExact, SRef.exact, SRef.flags, SRef.parseOk, SRef.effect, SRef.subExprOk, Flags.none]

/-- **parse_rule_is_flag_rule**: for every statement of the fragment and either
    function effect, the abstract parse rule equals the check-by-check mirror of
    `parseAssignNode` / `parseExpr` / `parseArgNode` over `NewExpr`'s flags. -/
theorem parse_rule_is_flag_rule (f : Eff) : ∀ s : Stmt, s.parseExact f = s.parseOk f
  | .skip => rfl
  | .seq a b => by simp [Stmt.parseExact, Stmt.parseOk, parse_rule_is_flag_rule f a, parse_rule_is_flag_rule f b]
  | .ite c t e => by
    simp only [Stmt.parseExact, Stmt.parseOk, wrap_check, parse_rule_is_flag_rule f t, parse_rule_is_flag_rule f e]
  | .loop c b => by
    simp only [Stmt.parseExact, Stmt.parseOk, wrap_check, parse_rule_is_flag_rule f b]
  | .setLoc _ e => by simp only [Stmt.parseExact, Stmt.parseOk, value_check e (fun x => x.le f)]
  | .setFld _ e => by
    simp only [Stmt.parseExact, Stmt.parseOk, Bool.and_assoc, value_check e (fun x => x.le f)]
    rcases eff_cases f with rfl | rfl <;> simp
  | .setArg e => by
    simp only [Stmt.parseExact, Stmt.parseOk, Bool.and_assoc, value_check e (fun x => x.le f)]
    rcases eff_cases f with rfl | rfl <;> simp
  | .setArr _ _ e => by
    simp only [Stmt.parseExact, Stmt.parseOk, wrapExact_eq]
    rcases eff_cases f with rfl | rfl <;> simp
  | .setBuf s e => by
    simp only [Stmt.parseExact, Stmt.parseOk, wrapExact_eq, sref_parseExact_eq]
    rcases eff_cases f with rfl | rfl <;>
      simp [Bool.and_assoc, show (Eff.pure == Eff.impure) = false from by decide]
  | .bind _ s => by
    have h1 : (s.exact && !s.flags.sub && s.flags.eff.le f) = s.parseExact := by
      simp only [SRef.parseExact]
      cases hs : s.flags.sub
      · have : s.flags.eff = .pure := sref_not_sub_pure s hs
        simp [this, Eff.le]
      · simp
    simp only [Stmt.parseExact, Stmt.parseOk, h1, sref_parseExact_eq]
  | .copy mark d s => by simp only [Stmt.parseExact, Stmt.parseOk, sref_parseExact_eq]
  | .choose => by
    simp only [Stmt.parseExact, Stmt.parseOk]
    rcases eff_cases f with rfl | rfl <;> decide
  | .callS mark _ a => by
    have := value_check a (fun x => x == .pure)
    simp only [Stmt.parseExact, Stmt.parseOk]
    rw [this]
    apply bool_eq_of_iff
    simp [and_comm]

theorem method_parseExact_eq (m : Method) : m.parseExact = m.parseOk := by
  simp only [Method.parseExact, Method.parseOk, parse_rule_is_flag_rule, wrapExact_eq, Bool.and_assoc]

/-- `tcheck`, with the parser's half replaced by the flag-level mirror, is `tcheck`. -/
theorem tcheck_is_flag_level (p : Prog) :
    tcheck p = (if !p.all Method.parseExact then .rejectParse
                else if !p.all (Method.checkOk p) then .rejectCheck else .ok) := by
  have : (fun m => Method.parseExact m) = Method.parseOk := funext method_parseExact_eq
  unfold tcheck
  rw [show Method.parseExact = Method.parseOk from this]

/-! sensitivity: `NewExpr` must look at the MIDDLE child.  With the slice node's
    `mhs` left out of the children (seeded change C10-m2), the flag-level check
    accepts an impure call hidden in a lower bound. -/
example : (SRef.sub 0 (some (.call .impure 0 (.lit 2))) none).parseExact = false := by decide
example : (newExpr .pure [Flags.none, /- mhs dropped -/ boundFlags none]).sub = false := by decide
example : (Expr.call .impure 0 (.lit 2)).flags = ⟨.impure, false⟩ := by decide
example : (Expr.add (.call .impure 0 (.lit 2)) (.lit 1)).flags = ⟨.impure, true⟩ := by decide

end WuffsVerif.Props.C10
