/-
C07 part 3: SHA-256 (std/sha256) — split independence of the block-buffering state machine
(`hasher.update` / `hasher.up` / `checksum_bitvec256`).  The compression function is opaque
to these theorems (its value is tied to Go's crypto/sha256 by the differential check).
-/
import WuffsVerif.Proof.StdHashSha

namespace WuffsVerif.Props.C07
open WuffsVerif.StdHash

/-- the freshly initialised hasher is a reachable state -/
theorem sha_init_inv : ({} : ShaHasher).Inv :=
  ⟨by simp, by simp, by simp⟩

/-- the abstract update is split-independent -/
theorem shaAbs_split (A : ShaAbs) (a b : List UInt8) (hl : A.len < 18446744073709551616)
    (hfresh : A.len = 0 → A.ovf = false → A.pending = [])
    (hab : a.length + b.length < 18446744073709551616) :
    (A.update a).update b = A.update (a ++ b) := by
  obtain ⟨len, ovf, h, pending⟩ := A
  simp only at hl hfresh
  simp only [ShaAbs.update, List.length_append]
  -- arithmetic facts about the length counter
  have e2 : ((len + a.length) % 18446744073709551616 + b.length) % 18446744073709551616
      = (len + (a.length + b.length)) % 18446744073709551616 := by omega
  have hov : (decide ((len + (a.length + b.length)) % 18446744073709551616
        < (len + a.length) % 18446744073709551616)
      || (decide ((len + a.length) % 18446744073709551616 < len) || ovf))
      = (decide ((len + (a.length + b.length)) % 18446744073709551616 < len) || ovf) := by
    cases ovf
    · simp only [Bool.or_false]
      rw [← Bool.decide_or, decide_eq_decide]
      omega
    · simp
  by_cases hf : (len = 0 ∧ ovf = false)
  · obtain ⟨hl0, hov0⟩ := hf
    subst hl0 hov0
    have hp := hfresh rfl rfl
    subst hp
    by_cases ha : a = []
    · subst ha
      simp [shaH0, shaUpBlocks_lt]
    · have hapos : 0 < a.length := List.length_pos_iff.mpr ha
      simp only [Nat.zero_add] at e2 hov ⊢
      have hne : ¬ (a.length % 18446744073709551616 = 0) := by omega
      have h1 : shaH0 0 false h = shaInit := by simp [shaH0]
      have h2 : ∀ o hh, shaH0 (a.length % 18446744073709551616) o hh = hh := by
        intro o hh; simp [shaH0, hne]
      simp only [h1, h2, e2, hov, List.nil_append]
      rw [shaUpBlocks_append' shaInit a b]
  · have hnf : ∀ hh, shaH0 len ovf hh = hh := by
      intro hh
      unfold shaH0
      cases ovf
      · have : len ≠ 0 := fun h0 => hf ⟨h0, rfl⟩
        simp [this]
      · simp
    have hnf2 : ∀ hh, shaH0 ((len + a.length) % 18446744073709551616)
        (decide ((len + a.length) % 18446744073709551616 < len) || ovf) hh = hh := by
      intro hh
      unfold shaH0
      cases ovf
      · have hlen : len ≠ 0 := fun h0 => hf ⟨h0, rfl⟩
        by_cases hz : (len + a.length) % 18446744073709551616 = 0
        · have : 0 < len := by omega
          simp [hz, this]
        · simp [hz]
      · simp
    simp only [hnf, hnf2, e2, hov]
    rw [← List.append_assoc, shaUpBlocks_append' h (pending ++ a) b]

/-- `checksum_bitvec256` only looks at the abstract state -/
def shaAbsChecksum (a : ShaAbs) : List UInt8 :=
  let bufLen := a.pending.length
  let lengthInBits := (a.len * 8) % 18446744073709551616
  let h0 := shaH0 a.len a.ovf a.h     -- `checksum_bitvec256` starts from INITIAL_SHA256_H while nothing was absorbed
  if bufLen < 56 then
    shaDigestBytes (shaCompress h0 (a.pending ++ [0x80] ++ List.replicate (55 - bufLen) 0 ++ be64 lengthInBits))
  else
    shaDigestBytes (shaCompress (shaCompress h0 (a.pending ++ [0x80] ++ List.replicate (63 - bufLen) 0))
      (List.replicate 56 0 ++ be64 lengthInBits))

theorem sha_checksum_abs (s : ShaHasher) (hi : s.Inv) : s.checksum = shaAbsChecksum s.abs := by
  have hlt := hi.buflt
  have hp := hi.pending_length
  unfold ShaHasher.checksum shaAbsChecksum
  simp only [hp, Nat.mod_eq_of_lt hlt]
  rfl

theorem sha_abs_fresh (s : ShaHasher) (hi : s.Inv) :
    s.abs.len = 0 → s.abs.ovf = false → s.abs.pending = [] := by
  intro h0 _
  have hb := hi.buflen
  simp only [ShaHasher.abs] at h0 ⊢
  rw [hb, h0]; simp

/-- **sha256_split**: for every reachable hasher state and every split point,
    `update (update s a) b` and `update s (a ++ b)` have the same length counter, overflow flag,
    chaining value and pending bytes — hence the same digest. (`a.length + b.length < 2^64`:
    slice lengths are u64.) -/
theorem sha256_split (s : ShaHasher) (hi : s.Inv) (a b : List UInt8)
    (hab : a.length + b.length < 18446744073709551616) :
    ((s.update a).update b).abs = (s.update (a ++ b)).abs ∧
    ((s.update a).update b).checksum = (s.update (a ++ b)).checksum := by
  obtain ⟨e1, i1⟩ := sha_update_abs s a hi
  obtain ⟨e2, i2⟩ := sha_update_abs (s.update a) b i1
  obtain ⟨e3, i3⟩ := sha_update_abs s (a ++ b) hi
  have key : ((s.update a).update b).abs = (s.update (a ++ b)).abs := by
    rw [e2, e1, e3]
    exact shaAbs_split s.abs a b hi.lenlt (sha_abs_fresh s hi) hab
  exact ⟨key, by rw [sha_checksum_abs _ i2, sha_checksum_abs _ i3, key]⟩

/-- ZERO `update` calls: `checksum_bitvec256` of a hasher that was only initialised (h0 ..= h7 still zero) equals
    the digest after one `update` with the empty string (before fixes/C07-sha256-zero-updates.patch it hashed the
    padding block from the all-zero chaining value). -/
theorem sha256_zero_updates : ({} : ShaHasher).checksum = (ShaHasher.update {} []).checksum := by
  rw [sha_checksum_abs _ sha_init_inv, sha_checksum_abs _ (sha_update_abs {} [] sha_init_inv).2,
    (sha_update_abs {} [] sha_init_inv).1]
  simp [ShaHasher.abs, ShaAbs.update, shaAbsChecksum, shaH0, shaUpBlocks_lt]

/-- **However the bytes are split**: the digest after EVERY sequence of update calls on a fresh hasher —
    including the empty sequence — is the digest after one call with the concatenation. -/
theorem sha256_any_split (parts : List (List UInt8))
    (hlen : parts.flatten.length < 18446744073709551616) :
    (parts.foldl ShaHasher.update {}).checksum
      = (ShaHasher.update {} parts.flatten).checksum := by
  have key : ∀ (ps : List (List UInt8)) (s : ShaHasher) (q : List UInt8), s.Inv →
      (q ++ ps.flatten).length < 18446744073709551616 →
      (ps.foldl ShaHasher.update (s.update q)).abs = (s.update (q ++ ps.flatten)).abs ∧
      (ps.foldl ShaHasher.update (s.update q)).Inv := by
    intro ps
    induction ps with
    | nil => intro s q hi _; simpa using (sha_update_abs s q hi).2
    | cons p ps ih =>
      intro s q hi hl
      simp only [List.foldl_cons, List.flatten_cons]
      simp only [List.flatten_cons, List.length_append] at hl
      -- replace (s.update q).update p by s.update (q ++ p) at the level of abstract states
      have hsp := (sha256_split s hi q p (by omega)).1
      have i1 := (sha_update_abs s q hi).2
      have i2 := (sha_update_abs (s.update q) p i1).2
      have i3 := (sha_update_abs s (q ++ p) hi).2
      have step := ih s (q ++ p) hi (by simp only [List.length_append]; omega)
      -- folding only depends on the abstract state
      have foldAbs : ∀ (l : List (List UInt8)) (s1 s2 : ShaHasher), s1.Inv → s2.Inv → s1.abs = s2.abs →
          (l.foldl ShaHasher.update s1).abs = (l.foldl ShaHasher.update s2).abs ∧
          (l.foldl ShaHasher.update s1).Inv := by
        intro l
        induction l with
        | nil => intro s1 s2 h1 _ he; exact ⟨he, h1⟩
        | cons y ys ihy =>
          intro s1 s2 h1 h2 he
          simp only [List.foldl_cons]
          obtain ⟨a1, j1⟩ := sha_update_abs s1 y h1
          obtain ⟨a2, j2⟩ := sha_update_abs s2 y h2
          exact ihy _ _ j1 j2 (by rw [a1, a2, he])
      obtain ⟨fa, fi⟩ := foldAbs ps _ _ i2 i3 hsp
      exact ⟨by rw [fa, step.1, List.append_assoc], fi⟩
  cases parts with
  | nil => exact sha256_zero_updates
  | cons p0 parts =>
    simp only [List.foldl_cons, List.flatten_cons]
    simp only [List.flatten_cons] at hlen
    obtain ⟨ka, ki⟩ := key parts {} p0 sha_init_inv hlen
    rw [sha_checksum_abs _ ki, sha_checksum_abs _ (sha_update_abs {} _ sha_init_inv).2, ka]

example : ((ShaHasher.update {} [1, 2]).update [3]).checksum = (ShaHasher.update {} [1, 2, 3]).checksum :=
  sha256_any_split [[1, 2], [3]] (by decide)

example : ({} : ShaHasher).checksum = (ShaHasher.update {} []).checksum := sha256_any_split [] (by decide)

theorem be64_length (v : Nat) : (be64 v).length = 8 := by simp [be64]

/-- the abstract state of a fresh hasher after one `update x` -/
theorem sha_fresh_update_abs (x : List UInt8) :
    (ShaHasher.update {} x).abs =
      { len := x.length % 18446744073709551616, ovf := false,
        h := (shaUpBlocks shaInit x).1, pending := (shaUpBlocks shaInit x).2 } := by
  rw [(sha_update_abs {} x sha_init_inv).1]
  simp [ShaHasher.abs, ShaAbs.update, shaH0]

/-- **The buffering + padding state machine computes FIPS 180-4 SHA-256** (relative to the compression
    function): one `update` with the whole message, then `checksum`, is `sha256Spec`. -/
theorem sha256_checksum_eq_spec (x : List UInt8) (hx64 : x.length < 18446744073709551616) :
    (ShaHasher.update {} x).checksum = sha256Spec x := by
  have hinv := (sha_update_abs {} x sha_init_inv).2
  rw [sha_checksum_abs _ hinv, sha_fresh_update_abs]
  -- `checksum_bitvec256` restarts from the initial hash value only when nothing was absorbed, and then the
  -- chaining value IS the initial hash value
  have hstart : shaH0 (x.length % 18446744073709551616) false (shaUpBlocks shaInit x).1
      = (shaUpBlocks shaInit x).1 := by
    unfold shaH0
    by_cases hz : x.length % 18446744073709551616 = 0
    · have hnil : x = [] := List.eq_nil_of_length_eq_zero (by omega)
      subst hnil
      simp [shaUpBlocks_lt]
    · simp [hz]
  unfold shaAbsChecksum sha256Spec shaPad
  simp only [hstart]
  have hp := shaUpBlocks_rem' shaInit x
  generalize hr : shaUpBlocks shaInit x = r at hp
  obtain ⟨h, p⟩ := r
  simp only at hp ⊢
  have hlen8 : (x.length % 18446744073709551616 * 8) % 18446744073709551616
      = (x.length * 8) % 18446744073709551616 := by omega
  rw [hlen8]
  generalize hL : be64 ((x.length * 8) % 18446744073709551616) = L
  have hL8 : L.length = 8 := by rw [← hL]; exact be64_length _
  -- absorb the message first, then the padding
  have hx : x ++ [0x80] ++ List.replicate ((119 - x.length % 64) % 64) 0 ++ L
      = x ++ ([0x80] ++ (List.replicate ((119 - x.length % 64) % 64) 0 ++ L)) := by
    simp only [List.append_assoc]
  rw [hx, shaUpBlocks_append' shaInit x, hr]
  simp only []
  by_cases h56 : p.length < 56
  · simp only [h56, ↓reduceIte]
    have hk : (119 - x.length % 64) % 64 = 55 - p.length := by omega
    rw [hk]
    have hlen : (p ++ ([0x80] ++ (List.replicate (55 - p.length) 0 ++ L))).length = 64 := by
      simp only [List.length_append, List.length_cons, List.length_nil, List.length_replicate]; omega
    rw [shaUpBlocks_ge _ _ (by omega), List.take_of_length_le (by omega), List.drop_of_length_le (by omega),
      shaUpBlocks_lt _ [] (by simp)]
    simp only [List.append_assoc]
  · simp only [h56, ↓reduceIte]
    have hk : (119 - x.length % 64) % 64 = (63 - p.length) + 56 := by omega
    rw [hk, ← List.replicate_append_replicate]
    have hA : (p ++ [0x80] ++ List.replicate (63 - p.length) (0 : UInt8)).length = 64 := by
      simp only [List.length_append, List.length_cons, List.length_nil, List.length_replicate]; omega
    have hsplit : p ++ ([0x80] ++ (List.replicate (63 - p.length) 0 ++ List.replicate 56 0 ++ L))
        = (p ++ [0x80] ++ List.replicate (63 - p.length) 0) ++ (List.replicate 56 0 ++ L) := by
      simp only [List.append_assoc]
    rw [hsplit, shaUpBlocks_append' h _ _]
    rw [shaUpBlocks_ge h _ (by omega), List.take_of_length_le (by omega), List.drop_of_length_le (by omega),
      shaUpBlocks_lt _ [] (by simp)]
    simp only [List.nil_append]
    have hB : (List.replicate 56 (0 : UInt8) ++ L).length = 64 := by
      simp only [List.length_append, List.length_replicate]; omega
    rw [shaUpBlocks_ge _ _ (by omega), List.take_of_length_le (by omega), List.drop_of_length_le (by omega),
      shaUpBlocks_lt _ [] (by simp)]

/-- **sha256, however the bytes are split** (every sequence of update calls, the empty one included): the digest
    equals the FIPS 180-4 structure (padding, 64-byte blocks) over the compression function. -/
theorem sha256_any_split_eq_spec (parts : List (List UInt8))
    (hlen : parts.flatten.length < 18446744073709551616) :
    (parts.foldl ShaHasher.update {}).checksum = sha256Spec parts.flatten := by
  rw [sha256_any_split parts hlen, sha256_checksum_eq_spec _ hlen]

end WuffsVerif.Props.C07
