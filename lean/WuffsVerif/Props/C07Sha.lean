/-
C07 part 3: SHA-256 (std/sha256) — split independence of the block-buffering state machine
(`hasher.update` / `hasher.up` / `checksum_bitvec256`).  The compression function is opaque
to these theorems (its value is tied to Go's crypto/sha256 by the differential check).
-/
import WuffsVerif.Proof.StdHashSha

namespace WuffsVerif.Props.C07
open WuffsVerif.StdHash

/-- the freshly initialised hasher is a reachable state -/
theorem sha_init_inv : ({} : ShaHasher).Inv :=
  ⟨by simp, by simp, by simp⟩

/-- the abstract update is split-independent -/
theorem shaAbs_split (A : ShaAbs) (a b : List UInt8) (hl : A.len < 18446744073709551616)
    (hfresh : A.len = 0 → A.ovf = false → A.pending = [])
    (hab : a.length + b.length < 18446744073709551616) :
    (A.update a).update b = A.update (a ++ b) := by
  obtain ⟨len, ovf, h, pending⟩ := A
  simp only at hl hfresh
  simp only [ShaAbs.update, List.length_append]
  -- arithmetic facts about the length counter
  have e2 : ((len + a.length) % 18446744073709551616 + b.length) % 18446744073709551616
      = (len + (a.length + b.length)) % 18446744073709551616 := by omega
  have hov : (decide ((len + (a.length + b.length)) % 18446744073709551616
        < (len + a.length) % 18446744073709551616)
      || (decide ((len + a.length) % 18446744073709551616 < len) || ovf))
      = (decide ((len + (a.length + b.length)) % 18446744073709551616 < len) || ovf) := by
    cases ovf
    · simp only [Bool.or_false]
      rw [← Bool.decide_or, decide_eq_decide]
      omega
    · simp
  by_cases hf : (len = 0 ∧ ovf = false)
  · obtain ⟨hl0, hov0⟩ := hf
    subst hl0 hov0
    have hp := hfresh rfl rfl
    subst hp
    by_cases ha : a = []
    · subst ha
      simp [shaH0, shaUpBlocks_lt]
    · have hapos : 0 < a.length := List.length_pos_iff.mpr ha
      simp only [Nat.zero_add] at e2 hov ⊢
      have hne : ¬ (a.length % 18446744073709551616 = 0) := by omega
      have h1 : shaH0 0 false h = shaInit := by simp [shaH0]
      have h2 : ∀ o hh, shaH0 (a.length % 18446744073709551616) o hh = hh := by
        intro o hh; simp [shaH0, hne]
      simp only [h1, h2, e2, hov, List.nil_append]
      rw [shaUpBlocks_append' shaInit a b]
  · have hnf : ∀ hh, shaH0 len ovf hh = hh := by
      intro hh
      unfold shaH0
      cases ovf
      · have : len ≠ 0 := fun h0 => hf ⟨h0, rfl⟩
        simp [this]
      · simp
    have hnf2 : ∀ hh, shaH0 ((len + a.length) % 18446744073709551616)
        (decide ((len + a.length) % 18446744073709551616 < len) || ovf) hh = hh := by
      intro hh
      unfold shaH0
      cases ovf
      · have hlen : len ≠ 0 := fun h0 => hf ⟨h0, rfl⟩
        by_cases hz : (len + a.length) % 18446744073709551616 = 0
        · have : 0 < len := by omega
          simp [hz, this]
        · simp [hz]
      · simp
    simp only [hnf, hnf2, e2, hov]
    rw [← List.append_assoc, shaUpBlocks_append' h (pending ++ a) b]

/-- `checksum_bitvec256` only looks at the abstract state -/
def shaAbsChecksum (a : ShaAbs) : List UInt8 :=
  let bufLen := a.pending.length
  let lengthInBits := (a.len * 8) % 18446744073709551616
  if bufLen < 56 then
    shaDigestBytes (shaCompress a.h (a.pending ++ [0x80] ++ List.replicate (55 - bufLen) 0 ++ be64 lengthInBits))
  else
    shaDigestBytes (shaCompress (shaCompress a.h (a.pending ++ [0x80] ++ List.replicate (63 - bufLen) 0))
      (List.replicate 56 0 ++ be64 lengthInBits))

theorem sha_checksum_abs (s : ShaHasher) (hi : s.Inv) : s.checksum = shaAbsChecksum s.abs := by
  have hlt := hi.buflt
  have hp := hi.pending_length
  unfold ShaHasher.checksum shaAbsChecksum
  simp only [hp, Nat.mod_eq_of_lt hlt]
  rfl

theorem sha_abs_fresh (s : ShaHasher) (hi : s.Inv) :
    s.abs.len = 0 → s.abs.ovf = false → s.abs.pending = [] := by
  intro h0 _
  have hb := hi.buflen
  simp only [ShaHasher.abs] at h0 ⊢
  rw [hb, h0]; simp

/-- **sha256_split**: for every reachable hasher state and every split point,
    `update (update s a) b` and `update s (a ++ b)` have the same length counter, overflow flag,
    chaining value and pending bytes — hence the same digest. (`a.length + b.length < 2^64`:
    slice lengths are u64.) -/
theorem sha256_split (s : ShaHasher) (hi : s.Inv) (a b : List UInt8)
    (hab : a.length + b.length < 18446744073709551616) :
    ((s.update a).update b).abs = (s.update (a ++ b)).abs ∧
    ((s.update a).update b).checksum = (s.update (a ++ b)).checksum := by
  obtain ⟨e1, i1⟩ := sha_update_abs s a hi
  obtain ⟨e2, i2⟩ := sha_update_abs (s.update a) b i1
  obtain ⟨e3, i3⟩ := sha_update_abs s (a ++ b) hi
  have key : ((s.update a).update b).abs = (s.update (a ++ b)).abs := by
    rw [e2, e1, e3]
    exact shaAbs_split s.abs a b hi.lenlt (sha_abs_fresh s hi) hab
  exact ⟨key, by rw [sha_checksum_abs _ i2, sha_checksum_abs _ i3, key]⟩

/-- **However the bytes are split** (at least one call): the digest after any sequence of update
    calls on a fresh hasher is the digest after one call with the concatenation. -/
theorem sha256_any_split (p0 : List UInt8) (parts : List (List UInt8))
    (hlen : (p0 :: parts).flatten.length < 18446744073709551616) :
    ((p0 :: parts).foldl ShaHasher.update {}).checksum
      = (ShaHasher.update {} (p0 :: parts).flatten).checksum := by
  have key : ∀ (ps : List (List UInt8)) (s : ShaHasher) (q : List UInt8), s.Inv →
      (q ++ ps.flatten).length < 18446744073709551616 →
      (ps.foldl ShaHasher.update (s.update q)).abs = (s.update (q ++ ps.flatten)).abs ∧
      (ps.foldl ShaHasher.update (s.update q)).Inv := by
    intro ps
    induction ps with
    | nil => intro s q hi _; simpa using (sha_update_abs s q hi).2
    | cons p ps ih =>
      intro s q hi hl
      simp only [List.foldl_cons, List.flatten_cons]
      simp only [List.flatten_cons, List.length_append] at hl
      -- replace (s.update q).update p by s.update (q ++ p) at the level of abstract states
      have hsp := (sha256_split s hi q p (by omega)).1
      have i1 := (sha_update_abs s q hi).2
      have i2 := (sha_update_abs (s.update q) p i1).2
      have i3 := (sha_update_abs s (q ++ p) hi).2
      have step := ih s (q ++ p) hi (by simp only [List.length_append]; omega)
      -- folding only depends on the abstract state
      have foldAbs : ∀ (l : List (List UInt8)) (s1 s2 : ShaHasher), s1.Inv → s2.Inv → s1.abs = s2.abs →
          (l.foldl ShaHasher.update s1).abs = (l.foldl ShaHasher.update s2).abs ∧
          (l.foldl ShaHasher.update s1).Inv := by
        intro l
        induction l with
        | nil => intro s1 s2 h1 _ he; exact ⟨he, h1⟩
        | cons y ys ihy =>
          intro s1 s2 h1 h2 he
          simp only [List.foldl_cons]
          obtain ⟨a1, j1⟩ := sha_update_abs s1 y h1
          obtain ⟨a2, j2⟩ := sha_update_abs s2 y h2
          exact ihy _ _ j1 j2 (by rw [a1, a2, he])
      obtain ⟨fa, fi⟩ := foldAbs ps _ _ i2 i3 hsp
      exact ⟨by rw [fa, step.1, List.append_assoc], fi⟩
  simp only [List.foldl_cons, List.flatten_cons]
  simp only [List.flatten_cons] at hlen
  obtain ⟨ka, ki⟩ := key parts {} p0 sha_init_inv hlen
  rw [sha_checksum_abs _ ki, sha_checksum_abs _ (sha_update_abs {} _ sha_init_inv).2, ka]

example : ((ShaHasher.update {} [1, 2]).update [3]).checksum = (ShaHasher.update {} [1, 2, 3]).checksum :=
  sha256_any_split [1, 2] [[3]] (by decide)

end WuffsVerif.Props.C07
