/-
C04 — the other suspending reader built-ins over Model/CCoro.lean:
`args.src.skip?(n: e)` / `skip_u32?(n: e)` (`skipTmpl`: the number of bytes
still to pass over waits in the scratch word; the argument expression is
evaluated ONCE, before the suspension point), the one-byte forms `skip?(n: 1)`
(`skip1Tmpl`) and `read_u8?` … `read_u8_as_u64?` (`read8Tmpl`: nothing is kept,
the resumed call simply tests again).

  `skip_fresh`, `skip_resume`     one call; the resumed call does not look at the argument again
  `skip_split_invariant`          whatever the pieces, exactly `n` bytes are passed over
  `read8_call`, `skip1_call`      fresh or resumed: one byte if there is one, else suspend at the same point
-/
import WuffsVerif.Proof.CCoroLemmas

namespace WuffsVerif.Props.C04CoroSkip
open WuffsVerif.CCoro

/-- **skip_fresh.**  A fresh entry: `scratch = n`, then either the whole
distance is inside the buffer, or everything there is is passed over, the rest
of the distance stays in the scratch word and the call suspends at `case k:`. -/
theorem skip_fresh (k fuel : Nat) (s : CSt) (hseek : s.seek = false) (harg : s.arg < 2 ^ 64) :
    (s.arg ≤ s.buf.length - s.iop →
      execL fuel (skipTmpl k) s = some (.normal { s with scratch := s.arg, pt := k, iop := s.iop + s.arg })) ∧
    (s.buf.length - s.iop < s.arg →
      execL fuel (skipTmpl k) s =
        some (.susp { s with scratch := s.arg - (s.buf.length - s.iop), pt := k, iop := s.buf.length, short := true })) := by
  have hu : u64 s.arg = s.arg := Nat.mod_eq_of_lt harg
  constructor
  · intro h
    have hc : decide (s.buf.length - s.iop < s.arg) = false := by simp; omega
    simp [skipTmpl, execL, Tm.exec, hseek, Atom.exec, Cond.eval, hu, hc]
  · intro h
    have hc : decide (s.buf.length - s.iop < s.arg) = true := by simp; omega
    simp [skipTmpl, execL, Tm.exec, hseek, Atom.exec, Cond.eval, hu, hc]

/-- **skip_resume.**  A call resumed at `case k:` continues with the distance
that is in the scratch word; `scratch = <n>` is before the label and is not
executed again — whatever `s.arg` is by now. -/
theorem skip_resume (k fuel : Nat) (s : CSt) (hseek : s.seek = true) (hpt : s.pt = k) :
    (s.scratch ≤ s.buf.length - s.iop →
      execL fuel (skipTmpl k) s = some (.normal { s with seek := false, iop := s.iop + s.scratch })) ∧
    (s.buf.length - s.iop < s.scratch →
      execL fuel (skipTmpl k) s =
        some (.susp { s with seek := false, scratch := s.scratch - (s.buf.length - s.iop), iop := s.buf.length,
                             short := true })) := by
  obtain ⟨buf, iop, scratch, t, nb, pt, seek, dest, arg, short⟩ := s
  simp only at hseek hpt
  subst hseek hpt
  constructor
  · intro h
    have hc : decide (buf.length - iop < scratch) = false := by simp at h ⊢; omega
    simp [skipTmpl, execL, Tm.exec, Atom.exec, Cond.eval, hc]
  · intro h
    have hc : decide (buf.length - iop < scratch) = true := by simp at h ⊢; omega
    simp [skipTmpl, execL, Tm.exec, Atom.exec, Cond.eval, hc]

/-- the frame between two calls while `n` bytes from `r0` on are being passed over -/
def SkipMid (n r0 : Nat) (d0 : List Nat) (f : Frame) : Prop :=
  f.p = 1 ∧ r0 ≤ f.ri ∧ f.ri - r0 < n ∧ f.scratch = n - (f.ri - r0) ∧ f.dest = d0

theorem skip_call_resumed (n fuel : Nat) (stream : List Nat) (arg : Nat) (f : Frame) (a r0 : Nat) (d0 : List Nat)
    (ha : a ≤ stream.length) (hmid : SkipMid n r0 d0 f) (hri : f.ri ≤ a) :
    (r0 + n ≤ a → ∃ f', call fuel (skipTmpl 1) (stream.take a) arg f = some (true, f') ∧
        f'.p = 0 ∧ f'.ri = r0 + n ∧ f'.dest = d0) ∧
    (a < r0 + n → ∃ f', call fuel (skipTmpl 1) (stream.take a) arg f = some (false, f') ∧ SkipMid n r0 d0 f' ∧ f'.ri = a) := by
  obtain ⟨hp, hr0, hpart, hsc, hd⟩ := hmid
  have hlen : (stream.take a).length = a := by simp; omega
  have hp' : (f.p != 0) = true := by simp [hp]
  have hres := skip_resume 1 fuel
    { buf := stream.take a, iop := f.ri, scratch := f.scratch, pt := f.p, seek := true, dest := f.dest, arg := arg } rfl hp
  simp only [hlen] at hres
  constructor
  · intro hge
    have h1 : f.scratch ≤ a - f.ri := by omega
    refine ⟨{ p := 0, scratch := f.scratch, ri := f.ri + f.scratch, dest := f.dest }, ?_, rfl, ?_, hd⟩
    · simp only [call, hp', hres.1 h1, Bool.false_eq_true, ↓reduceIte]
    · simp only; omega
  · intro hlt
    have h1 : a - f.ri < f.scratch := by omega
    refine ⟨{ p := f.p, scratch := f.scratch - (a - f.ri), ri := a, dest := f.dest }, ?_, ⟨hp, ?_, ?_, ?_, hd⟩, rfl⟩
    · simp only [call, hp', hres.2 h1]
    all_goals simp only
    all_goals omega

/-- **skip_split_invariant.**  `args.src.skip?(n: e)` with `e = n < 2^64`, the
reader at `r0`, calls seeing the first `a₁ ≤ a₂ ≤ …` bytes: as soon as a call
sees `r0 + n` bytes the coroutine returns ok at position `r0 + n` — exactly
`n` bytes have been passed over, however the stream was cut. -/
theorem skip_split_invariant (n fuel : Nat) (stream : List Nat) (r0 stale : Nat) (d0 : List Nat) (hn : n < 2 ^ 64)
    (avails : List Nat) (hpw : avails.Pairwise (· ≤ ·)) (hall : ∀ a ∈ avails, r0 ≤ a ∧ a ≤ stream.length)
    (hex : ∃ a ∈ avails, r0 + n ≤ a) :
    ∃ f', drive fuel (skipTmpl 1) stream n avails { p := 0, scratch := stale, ri := r0, dest := d0 } = some (true, f') ∧
      f'.p = 0 ∧ f'.ri = r0 + n ∧ f'.dest = d0 := by
  -- the resumed calls
  have mid : ∀ (avails : List Nat) (f : Frame), SkipMid n r0 d0 f → avails.Pairwise (· ≤ ·) →
      (∀ a ∈ avails, f.ri ≤ a ∧ a ≤ stream.length) → (∃ a ∈ avails, r0 + n ≤ a) →
      ∃ f', drive fuel (skipTmpl 1) stream n avails f = some (true, f') ∧ f'.p = 0 ∧ f'.ri = r0 + n ∧ f'.dest = d0 := by
    intro avails
    induction avails with
    | nil => intro f _ _ _ hex; obtain ⟨a, ha, _⟩ := hex; cases ha
    | cons a r ih =>
      intro f hmid hpw hall hex
      obtain ⟨hri, ha⟩ := hall a (by simp)
      have hcall := skip_call_resumed n fuel stream n f a r0 d0 ha hmid hri
      by_cases hge : r0 + n ≤ a
      · obtain ⟨f', hc, h1, h2, h3⟩ := hcall.1 hge
        exact ⟨f', by simp only [drive, hc], h1, h2, h3⟩
      · obtain ⟨f', hc, hm', hri'⟩ := hcall.2 (by omega)
        have hpw' := List.pairwise_cons.mp hpw
        obtain ⟨f'', hd', g⟩ := ih f' hm' hpw'.2
          (fun a' ha' => ⟨by rw [hri']; exact hpw'.1 a' ha', (hall a' (by simp [ha'])).2⟩)
          (by
            obtain ⟨x, hx, hxge⟩ := hex
            rcases List.mem_cons.mp hx with rfl | hx'
            · omega
            · exact ⟨x, hx', hxge⟩)
        exact ⟨f'', by simp only [drive, hc, hd'], g⟩
  cases avails with
  | nil => obtain ⟨a, ha, _⟩ := hex; cases ha
  | cons a r =>
    obtain ⟨hri, ha⟩ := hall a (by simp)
    have hlen : (stream.take a).length = a := by simp; omega
    have hres := skip_fresh 1 fuel
      { buf := stream.take a, iop := r0, scratch := stale, pt := 0, seek := false, dest := d0, arg := n } rfl hn
    simp only [hlen] at hres
    by_cases hge : r0 + n ≤ a
    · have h1 : n ≤ a - r0 := by omega
      exact ⟨_, by simp only [drive, call, bne_self_eq_false, hres.1 h1]; rfl, rfl, rfl, rfl⟩
    · have h1 : a - r0 < n := by omega
      have hpw' := List.pairwise_cons.mp hpw
      obtain ⟨f'', hd', g⟩ := mid r { p := 1, scratch := n - (a - r0), ri := a, dest := d0 }
        ⟨rfl, hri, by simp only; omega, rfl, rfl⟩ hpw'.2
        (fun a' ha' => ⟨hpw'.1 a' ha', (hall a' (by simp [ha'])).2⟩)
        (by
          obtain ⟨x, hx, hxge⟩ := hex
          rcases List.mem_cons.mp hx with rfl | hx'
          · omega
          · exact ⟨x, hx', hxge⟩)
      exact ⟨f'', by simp only [drive, call, bne_self_eq_false, hres.2 h1, hd'], g⟩

/-- non-vacuity: skip 5 bytes from position 1, the stream arriving as 2, 4, 9 bytes -/
example : ∃ f', drive 5 (skipTmpl 1) [9, 8, 7, 6, 5, 4, 3, 2, 1] 5 [2, 4, 9] { p := 0, scratch := 77, ri := 1, dest := [] } =
    some (true, f') ∧ f'.p = 0 ∧ f'.ri = 1 + 5 ∧ f'.dest = [] :=
  skip_split_invariant 5 5 [9, 8, 7, 6, 5, 4, 3, 2, 1] 1 77 [] (by omega) [2, 4, 9] (by decide) (by decide) (by decide)

/-- **read8_call.**  `x = args.src.read_u8?()`: fresh (`seek = false`) or
resumed at its only suspension point: with a byte in the buffer it is stored
and consumed, without one the call suspends at `case k:` having changed nothing. -/
theorem read8_call (k fuel : Nat) (s : CSt) (h : s.seek = false ∨ s.pt = k) :
    (∀ b, s.buf[s.iop]? = some b →
      execL fuel [read8Tmpl k] s =
        some (.normal { s with seek := false, pt := k, t := b, iop := s.iop + 1, dest := s.dest ++ [b] })) ∧
    (s.iop = s.buf.length →
      execL fuel [read8Tmpl k] s = some (.susp { s with seek := false, pt := k, short := true })) := by
  obtain ⟨buf, iop, scratch, t, nb, pt, seek, dest, arg, short⟩ := s
  simp only at h
  constructor
  · intro b hb
    simp only at hb
    have hlt : iop < buf.length := by
      rcases Nat.lt_or_ge iop buf.length with h' | h'
      · exact h'
      · rw [List.getElem?_eq_none h'] at hb; cases hb
    have hne : (iop == buf.length) = false := by simp; omega
    cases seek
    · simp [read8Tmpl, execL, Tm.exec, Atom.exec, Cond.eval, hne, hb]
    · have hk : pt = k := by simpa using h
      subst hk
      simp [read8Tmpl, execL, Tm.exec, Atom.exec, Cond.eval, hne, hb]
  · intro he
    simp only at he
    subst he
    cases seek
    · simp [read8Tmpl, execL, Tm.exec, Atom.exec, Cond.eval]
    · have hk : pt = k := by simpa using h
      subst hk
      simp [read8Tmpl, execL, Tm.exec, Atom.exec, Cond.eval]

/-- **skip1_call.**  `args.src.skip?(n: 1)`, fresh or resumed -/
theorem skip1_call (k fuel : Nat) (s : CSt) (h : s.seek = false ∨ s.pt = k) :
    (s.iop < s.buf.length →
      execL fuel (skip1Tmpl k) s = some (.normal { s with seek := false, pt := k, iop := s.iop + 1 })) ∧
    (s.iop = s.buf.length →
      execL fuel (skip1Tmpl k) s = some (.susp { s with seek := false, pt := k, short := true })) := by
  obtain ⟨buf, iop, scratch, t, nb, pt, seek, dest, arg, short⟩ := s
  simp only at h
  constructor
  · intro hlt
    simp only at hlt
    have hne : (iop == buf.length) = false := by simp; omega
    cases seek
    · simp [skip1Tmpl, execL, Tm.exec, Atom.exec, Cond.eval, hne]
    · have hk : pt = k := by simpa using h
      subst hk
      simp [skip1Tmpl, execL, Tm.exec, Atom.exec, Cond.eval, hne]
  · intro he
    simp only at he
    subst he
    cases seek
    · simp [skip1Tmpl, execL, Tm.exec, Atom.exec, Cond.eval]
    · have hk : pt = k := by simpa using h
      subst hk
      simp [skip1Tmpl, execL, Tm.exec, Atom.exec, Cond.eval]

end WuffsVerif.Props.C04CoroSkip
