/-
C12 — both formatters change only white space and are idempotent.

Part 3: the Wuffs formatter is idempotent (`render_idempotent`): formatting its output again
(Tokenize, then Render — `Render.fmt`, the models of `Props/C12Render.lean`) changes nothing.

Proof (`Proof/RenderIdem*.lean`, core Lean only): the first run's output is a list of line pieces
of the shape `Gen` — runs of indented comment lines, each optionally preceded by ONE blank line,
between token lines laid out by `lineLayout` from the line-number-free part of Render's state and
a look-ahead over the following pieces (`render_gen`); every text of that shape is a fixed point
of Tokenize + Render (`gen_render`): the second run sees the same token classes (`retok_id`,
`SameClass`: a re-grouped number keeps its ID and flags), the same line groups, blank lines and
comment lines where the first run wrote them, computes the same indentation, alignment and
padding (`lineLayout_rel`, `measure_src` = `measure_out`), and writes the same text for every
token (`tokText_retok`: a re-grouped number is a fixed point of re-grouping).

Hypotheses, in place of "the parser accepts" (no model of lang/parse): the line structure `linesOK`
of `render_retokenizes` and `numColonFree` — no numeric literal directly before a ":" (the ten
places where lang/parse consumes a ":" all come directly after `parseIdent` or a fixed keyword).
Without `numColonFree` the clause is FALSE for the Tokenize/Render models (and for render.go):
`render_idempotent_needs_numColonFree`.  Both hypotheses are evaluated by the driver on every
source the real wuffsfmt accepts (op `rok`).
-/
import WuffsVerif.Props.C12Render
import WuffsVerif.Proof.RenderIdem

namespace WuffsVerif.Props.C12
open WuffsVerif.FmtToken WuffsVerif.Render WuffsVerif.Gen.C12

/-- `RenderIdempotent` for outputs of fewer than `maxLine` lines (beyond that the output does not
even tokenize: KNOWN_FINDINGS retok:too-many-lines). -/
def RenderIdempotentBelowMaxLine (Accepts : List Tok → Prop) : Prop :=
  ∀ (src out : Bytes) (toks : List Tok) (comments : Array Bytes),
    tokenize src = some (toks, comments) → Accepts toks → render toks comments = some out →
    out.count 10 < maxLine → fmt out = some out

/-- what stands in for "the parser accepts" in `render_idempotent`: the line structure `linesOK`
(see `render_retokenizes`) and no numeric literal directly before a ":" -/
def idemAccepts (toks : List Tok) : Prop :=
  linesOK (toks.length + 1) toks = true ∧ numColonFree toks = true

/-- `render_idempotent` (PROVED): for every source that Tokenize accepts with the line structure
`linesOK` and without a numeric literal directly before a ":", and that Render accepts (output
below the line limit): Tokenize accepts the output, Render accepts what Tokenize read, and writes
exactly the same bytes again. -/
theorem render_idempotent : RenderIdempotentBelowMaxLine idemAccepts := by
  intro src out toks comments ht hacc hr hnl
  obtain ⟨hl, hnum⟩ := hacc
  obtain ⟨h1, h2, h3⟩ := tokenize_wf src toks comments ht hl
  exact render_idempotent_stream toks comments out h1 h2 hl h3 hnum hr hnl

/-- the hypotheses are closed under formatting: what Tokenize reads back from the output satisfies
`idemAccepts` again (so the theorem applies to the output of the output, and so on). -/
theorem render_idempotent_closed (src out : Bytes) (toks : List Tok) (comments : Array Bytes)
    (ht : tokenize src = some (toks, comments)) (hacc : idemAccepts toks)
    (hr : render toks comments = some out) (hnl : out.count 10 < maxLine) :
    ∃ toks' comments', tokenize out = some (toks', comments') ∧ idemAccepts toks' := by
  obtain ⟨hl, hnum⟩ := hacc
  obtain ⟨h1, h2, h3⟩ := tokenize_wf src toks comments ht hl
  obtain ⟨toks', comments', htok, hl'⟩ := render_output_linesOK toks comments out h1 h2 hl hr hnl
  obtain ⟨toks'', comments'', htok2, hn'⟩ := render_output_numColonFree toks comments out h1 h2 hl h3 hnum hr hnl
  rw [htok] at htok2
  have e := Option.some.inj htok2
  simp only [Prod.mk.injEq] at e
  obtain ⟨rfl, rfl⟩ := e
  exact ⟨toks', comments', htok, hl', hn'⟩

/-- the same in terms of `fmt` = Tokenize + Render (wuffsfmt without the parse gate): if `fmt src`
is `out`, then `fmt out` is `out`. -/
theorem fmt_idempotent (src out : Bytes) (toks : List Tok) (comments : Array Bytes)
    (ht : tokenize src = some (toks, comments)) (hacc : idemAccepts toks)
    (hf : fmt src = some out) (hnl : out.count 10 < maxLine) : fmt out = some out := by
  have hr : render toks comments = some out := by
    unfold fmt at hf
    rw [ht] at hf
    exact hf
  exact render_idempotent src out toks comments ht hacc hr hnl

/-- `render_idempotent_partial` (PROVED, for EVERY stream with the decidable hypotheses `streamOK`
and `numColonFree`, not only results of Tokenize). -/
theorem render_idempotent_partial (toks : List Tok) (comments : Array Bytes) (out : Bytes)
    (hok : streamOK toks comments = true) (hnum : numColonFree toks = true)
    (hr : render toks comments = some out) (hnl : out.count 10 < maxLine) : fmt out = some out := by
  unfold streamOK at hok
  rw [Bool.and_eq_true, Bool.and_eq_true, Bool.and_eq_true] at hok
  obtain ⟨⟨⟨h1, h2⟩, h3⟩, h4⟩ := hok
  exact render_idempotent_stream toks comments out
    (fun t ht => List.all_eq_true.mp h1 t ht) (fun c hc => List.all_eq_true.mp h2 c hc) h4
    (sortedLinesB_sound toks h3) hnum hr hnl

/-- the shape of the output, and that every text of that shape is a fixed point (the two halves of
the proof, for reference): `Render`'s output is `piecesBytes ps` for well-formed pieces `ps` of the
shape `Gen` whose source tokens are the input; and Tokenize + Render on `piecesBytes ps` for any
such pieces gives `piecesBytes ps`. -/
theorem render_output_shape (toks : List Tok) (comments : Array Bytes) (out : Bytes)
    (hok : streamOK toks comments = true) (hr : render toks comments = some out) :
    ∃ ps : List Piece, out = piecesBytes ps ∧ (∀ p ∈ ps, p.ok ∧ p.ok2 ∧ p.ok3) ∧
      ps.flatMap Piece.src = toks ∧ Gen ⟨0, false, 0, false⟩ true ps := by
  unfold streamOK at hok
  rw [Bool.and_eq_true, Bool.and_eq_true, Bool.and_eq_true] at hok
  obtain ⟨⟨⟨h1, h2⟩, h3⟩, h4⟩ := hok
  exact render_gen toks comments out (fun t ht => List.all_eq_true.mp h1 t ht)
    (fun c hc => List.all_eq_true.mp h2 c hc) h4 (sortedLinesB_sound toks h3) hr

theorem render_shape_fixed_point (ps : List Piece) (hgen : Gen ⟨0, false, 0, false⟩ true ps)
    (hok : ∀ p ∈ ps, p.ok ∧ p.ok2 ∧ p.ok3 ∧ p.numOK) (hlen : ps.length < maxLine) :
    fmt (piecesBytes ps) = some (piecesBytes ps) := by
  unfold fmt
  rw [pieces_tokenize ps (fun p hp => (hok p hp).1) hlen]
  exact gen_render ps hgen hok

/-- non-vacuity: `// c` / two blank lines / `var a : b` / `var ccc : d  // t` / blank / `x = 0X1f;`
satisfies the hypotheses, is formatted to `// c` / blank / `var a   : b` / `var ccc : d  // t` / blank /
`x = 0x1F`, and that is formatted to itself. -/
example :
    (match tokenize [47, 47, 32, 99, 10, 10, 10, 118, 97, 114, 32, 97, 32, 58, 32, 98, 10, 118, 97, 114, 32, 99, 99,
        99, 32, 58, 32, 100, 32, 32, 47, 47, 32, 116, 10, 10, 120, 32, 61, 32, 48, 88, 49, 102, 59, 10] with
     | some (toks, comments) =>
       streamOK toks comments && numColonFree toks &&
       render toks comments ==
         some [47, 47, 32, 99, 10, 10, 118, 97, 114, 32, 97, 32, 32, 32, 58, 32, 98, 10, 118, 97, 114, 32, 99, 99, 99,
           32, 58, 32, 100, 32, 32, 47, 47, 32, 116, 10, 10, 120, 32, 61, 32, 48, 120, 49, 70, 10]
     | none => false) = true := by
  decide +kernel

/-- `render_idempotent_needs_numColonFree`: without the hypothesis the clause is false for the
models.  `var a : b` / `x 1000000 : d` (which no parser accepts, but which satisfies `streamOK`) is
formatted to `var a       : b` / `x 1_000000: d` — the name column measured over both lines with
the 7-byte `1000000` — and that to `var a        : b` / `x 1_000000: d`, measured with the 8-byte
`1_000000`. -/
theorem render_idempotent_needs_numColonFree :
    (match tokenize [118, 97, 114, 32, 97, 32, 58, 32, 98, 10, 120, 32, 49, 48, 48, 48, 48, 48, 48, 32, 58, 32, 100, 10] with
     | some (toks, comments) =>
       streamOK toks comments && !numColonFree toks &&
       (match render toks comments with
        | some out => fmt out != some out
        | none => false)
     | none => false) = true := by
  decide +kernel

end WuffsVerif.Props.C12
