/-
C04 part 5 — statement lowering.

`stmt_lowering_correct`: for EVERY well-formed Wuffs statement list (any nesting
of if / else-if / `if true` / while / labelled and unlabelled break and
continue / return, any interpretation of the atomic statements and
conditions, any start state): if the Wuffs semantics (Model/CStmt.lean
`execWL`, the control part of Model/WSem.lean) finishes — normally or by
`return v` — then the C statement list that internal/cgen/statement.go writes
for it (`lowerL`: `while`, the `do { } while (0)` form of
`while true { …; break }`, `break;` / `continue;` for the innermost loop,
`goto label__L__break;` / `goto label__L__continue;` with the labels after /
before loop L for every other target, the spliced `if true` body) finishes in
the same state with the same returned value, under a C semantics with
structured statements, `goto` and labels (`execCL`).  `jump_lowering` is the
statement about a single jump inside it.

Well-formedness (`wfL`) is what the parser guarantees (a jump targets an
enclosing loop) plus: the C labels of the loops of one statement list are
distinct and differ from those of the enclosing loops — which is what
`funk.jumpTarget` guarantees after fixes/C04-duplicate-jump-label.patch, and
did NOT guarantee before it (`duplicate_label_wrong` shows what goes wrong in
the model; a C compiler rejects such a function outright).

The tie to the code: for every method of every generated program and of the
control battery the harness extracts the control skeleton of the emitted C
text and compares it with `showL (lowerL none body)` computed by the driver
from the method's AST (op `skel`).
-/
import WuffsVerif.Proof.CStmtLemmas

namespace WuffsVerif.Props.C04Stmt
open WuffsVerif.CStmt

variable {σ V : Type} (I : Interp σ V)

/-- How the outcome of a Wuffs statement list `ss`, lowered with innermost
loop `top`, shows in C: a jump to the innermost loop is `break;` /
`continue;`, any other jump is a `goto` travelling outwards (and if its target
IS the innermost loop although it is a `goto`, it came from a nested loop, so
that the parser has set the loop's deep flag and the label is written). -/
def Rel (top : Option Nat) (ss : List WStmt) : WOut σ V → COut σ V → Prop
  | .next a, .normal b => a = b
  | .ret v a, .ret w b => v = w ∧ a = b
  | .jmp bk j a, .brk b => bk = true ∧ a = b ∧ top = some j
  | .jmp bk j a, .cont b => bk = false ∧ a = b ∧ top = some j
  | .jmp bk j a, .goto l b => l = ⟨j, bk⟩ ∧ a = b ∧ (top = some j → deepJumpsToL bk j ss = true)
  | _, _ => False

theorem Rel.mono {top : Option Nat} {ss ss' : List WStmt} {w : WOut σ V} {c : COut σ V}
    (hd : ∀ b j, deepJumpsToL b j ss = true → deepJumpsToL b j ss' = true) (h : Rel top ss w c) :
    Rel top ss' w c := by
  cases w <;> cases c <;> simp only [Rel] at h ⊢ <;> try exact h
  exact ⟨h.1, h.2.1, fun e => hd _ _ (h.2.2 e)⟩

/-- a single lowered statement `cs`, whose outcome `c1` matches the outcome
`x` of the Wuffs statement, followed by the rest of the list -/
theorem seq_combine {top : Option Nat} {whole R : List CStmt} {cs : CStmt} {sub ss : List WStmt}
    {st : σ} {x wout : WOut σ V} {c1 : COut σ V}
    (h1 : RunsS I cs st c1) (hrel : Rel top sub x c1)
    (hdeep : ∀ b j, deepJumpsToL b j sub = true → deepJumpsToL b j ss = true)
    (hsc : ∀ b j st', x = .jmp b j st' → findLabel ⟨j, b⟩ whole = none)
    (hnext : ∀ st1, x = .next st1 → ∃ cout, RunsL I whole R st1 cout ∧ Rel top ss wout cout)
    (hstop : (∀ st1, x ≠ .next st1) → wout = x) :
    ∃ cout, RunsL I whole (cs :: R) st cout ∧ Rel top ss wout cout := by
  cases x with
  | next st1 =>
    cases c1 <;> simp only [Rel] at hrel
    subst hrel
    obtain ⟨cout, hr, hR⟩ := hnext st1 rfl
    exact ⟨cout, RunsL.cons_normal I h1 hr, hR⟩
  | ret v st1 =>
    have hw := hstop (fun _ => by simp)
    subst hw
    cases c1 <;> simp only [Rel] at hrel
    obtain ⟨rfl, rfl⟩ := hrel
    exact ⟨_, RunsL.cons_stop I h1 (by simp [Stops]), by simp [Rel]⟩
  | jmp bk j st1 =>
    have hw := hstop (fun _ => by simp)
    subst hw
    cases c1 with
    | normal s => simp [Rel] at hrel
    | ret v s => simp [Rel] at hrel
    | brk s =>
      simp only [Rel] at hrel
      exact ⟨_, RunsL.cons_stop I h1 (by simp [Stops]), by simp only [Rel]; exact hrel⟩
    | cont s =>
      simp only [Rel] at hrel
      exact ⟨_, RunsL.cons_stop I h1 (by simp [Stops]), by simp only [Rel]; exact hrel⟩
    | goto l s =>
      simp only [Rel] at hrel
      obtain ⟨rfl, rfl, hd⟩ := hrel
      exact ⟨_, RunsL.cons_stop I h1 (by simpa [Stops] using hsc bk j st1 rfl),
        by simp only [Rel, true_and]; exact fun e => hdeep _ _ (hd e)⟩

/-! ## The labels around a loop -/

theorem pre_run {whole R : List CStmt} {id : Nat} {body : List WStmt} {st : σ} {r : COut σ V}
    (h : RunsL I whole R st r) : RunsL I whole (preOf id body ++ R) st r := by
  unfold preOf; split
  · exact RunsL.cons_normal I (RunsS.label I _ st) h
  · simpa using h

theorem post_run {whole R : List CStmt} {id : Nat} {body : List WStmt} {st : σ} {r : COut σ V}
    (h : RunsL I whole R st r) : RunsL I whole (postOf id body ++ R) st r := by
  unfold postOf; split
  · exact RunsL.cons_normal I (RunsS.label I _ st) h
  · simpa using h

theorem findLabel_loopOf (l : Label) (id : Nat) (c : Option Nat) (body : List WStmt) (R : List CStmt) :
    findLabel l (loopOf id c body :: R) = findLabel l R := by
  unfold loopOf; split <;> rfl

/-- `goto label__id__continue` resumes at the loop -/
theorem find_continue {A K whole : List CStmt} {id : Nat} {c : Option Nat} {body : List WStmt}
    (hwhole : whole = A ++ (preOf id body ++ loopOf id c body :: postOf id body) ++ K)
    (hidA : id ∉ labelIds A) (hdeep : deepJumpsToL false id body = true) :
    findLabel ⟨id, false⟩ whole = some (loopOf id c body :: (postOf id body ++ K)) := by
  subst hwhole
  rw [List.append_assoc, findLabel_append_of_none (findLabel_none_of_not_mem (l := ⟨id, false⟩) hidA)]
  simp [preOf, hdeep, findLabel]

/-- `goto label__id__break` resumes after the loop -/
theorem find_break {A K whole : List CStmt} {id : Nat} {c : Option Nat} {body : List WStmt}
    (hwhole : whole = A ++ (preOf id body ++ loopOf id c body :: postOf id body) ++ K)
    (hidA : id ∉ labelIds A) (hdeep : deepJumpsToL true id body = true) :
    findLabel ⟨id, true⟩ whole = some K := by
  subst hwhole
  rw [List.append_assoc, findLabel_append_of_none (findLabel_none_of_not_mem (l := ⟨id, true⟩) hidA)]
  have hpre : findLabel ⟨id, true⟩ (preOf id body) = none := by
    unfold preOf; split <;> simp [findLabel]
  rw [List.append_assoc, findLabel_append_of_none hpre, List.cons_append, findLabel_loopOf]
  simp [postOf, hdeep, findLabel]

/-! ## The simulation -/

/-- statement lists, in the context `A ++ ·` of the C statements already written -/
def StmtL (n : Nat) : Prop :=
  ∀ (top : Option Nat) (encl : List Nat) (A : List CStmt) (rest : List WStmt) (st : σ) (wout : WOut σ V),
    wfL encl rest = true →
    (∀ i ∈ labelIds A, i ∉ encl) →
    (∀ i ∈ topLoopsL rest, i ∉ labelIds A) →
    execWL I n rest st = some wout →
    ∃ cout, RunsL I (A ++ lowerL top rest) (lowerL top rest) st cout ∧ Rel top rest wout cout

/-- a loop, positioned at the C loop statement inside its statement list -/
def StmtW (n : Nat) : Prop :=
  ∀ (top : Option Nat) (encl : List Nat) (A K whole : List CStmt) (id : Nat) (c : Option Nat)
    (body : List WStmt) (st : σ) (wout : WOut σ V),
    wfS encl (.while id c body) = true →
    whole = A ++ (preOf id body ++ loopOf id c body :: postOf id body) ++ K →
    id ∉ labelIds A →
    (∀ l : Label, l.id ∈ encl → findLabel l whole = none) →
    execWS I n (.while id c body) st = some wout →
    (∀ st', wout = .next st' → ∀ r, RunsL I whole K st' r →
        RunsL I whole (loopOf id c body :: (postOf id body ++ K)) st r) ∧
    ((∀ st', wout ≠ .next st') →
        ∃ cout, RunsL I whole (loopOf id c body :: (postOf id body ++ K)) st cout ∧
          Rel top [.while id c body] wout cout)

theorem topLoopsL_append (a b : List WStmt) : topLoopsL (a ++ b) = topLoopsL a ++ topLoopsL b := by
  induction a with
  | nil => simp [topLoopsL]
  | cons s r ih => simp [topLoopsL, ih]

theorem wfL_append_left {encl : List Nat} {a b : List WStmt} (h : wfL encl (a ++ b) = true) :
    wfL encl a = true := by
  induction a with
  | nil => simp [wfL]
  | cons s r ih =>
    simp only [List.cons_append, wfL, Bool.and_eq_true, List.all_eq_true] at h ⊢
    refine ⟨⟨h.1.1, ih h.1.2⟩, ?_⟩
    intro i hi
    have := h.2 i hi
    simp only [topLoopsL_append, Bool.not_eq_true', List.contains_eq_mem, decide_eq_false_iff_not,
      List.mem_append, not_or] at this ⊢
    exact this.1

theorem stmtW_step (n : Nat) (ihL : StmtL I n) (ihW : StmtW I n) : StmtW I (n + 1) := by
  intro top encl A K whole id c body st wout hwf hwhole hidA hencl h
  have hwf' := hwf
  simp only [wfS, Bool.and_eq_true, Bool.not_eq_true', List.contains_eq_mem,
    decide_eq_false_iff_not] at hwf'
  obtain ⟨_, hwfb⟩ := hwf'
  -- a jump that leaves the body for another loop is not caught by this list
  have hesc : ∀ (ss : List WStmt), wfL (id :: encl) ss = true → ∀ (st0 : σ) (bk : Bool) (j : Nat) (st1 : σ),
      execWL I n ss st0 = some (.jmp bk j st1) → j ≠ id → findLabel ⟨j, bk⟩ whole = none := by
    intro ss hss st0 bk j st1 hx hne
    have := (jmp_scoped I n).2 _ _ _ _ _ _ hss hx
    simp only [List.mem_cons] at this
    rcases this with this | this
    · exact absurd this hne
    · exact hencl ⟨j, bk⟩ this
  rw [execWS_while] at h
  cases hc : I.condO c st with
  | none => simp [hc] at h
  | some bv =>
  cases bv with
  | false =>
    simp only [hc, Option.some.injEq] at h
    subst h
    refine ⟨?_, fun hne => absurd rfl (hne st)⟩
    intro st' e r hr
    simp only [WOut.next.injEq] at e
    subst e
    have hnt : isTrivialLoop id c body = false := by
      cases c with
      | none => simp [Interp.condO] at hc
      | some c => simp [isTrivialLoop]
    have hloop : loopOf id c body = .while c (lowerL (some id) body) := by simp [loopOf, hnt]
    rw [hloop]
    exact RunsL.cons_normal I (RunsS.while_false I hc) (post_run I hr)
  | true =>
    simp only [hc] at h
    cases hb : execWL I n body st with
    | none => simp [hb] at h
    | some bout =>
    simp only [hb, Option.bind_some] at h
    by_cases htriv : isTrivialLoop id c body = true
    · -- `while true { b'; break }` without continue: do { b' } while (0)
      have ht := htriv
      simp only [isTrivialLoop, Bool.and_eq_true, Bool.not_eq_true'] at ht
      obtain ⟨⟨_, hnocont⟩, hlast⟩ := ht
      obtain ⟨b', hb'⟩ := lastIsBreakTo_split hlast
      have hloop : loopOf id c body = .doWhile0 (lowerL (some id) b') := by
        simp only [loopOf, htriv, if_true]; rw [hb', lowerL_dropLast]
      have toLoop : ∀ {st0 : σ} {x : COut σ V},
          RunsS I (.doWhile0 (lowerL (some id) b')) st0 x → RunsS I (loopOf id c body) st0 x := by
        intro st0 x hx; rw [hloop]; exact hx
      rw [hb'] at hb
      obtain ⟨bout', hb1, hbo⟩ := execWL_append_break I id b' n st bout hb
      have hwfb' : wfL (id :: encl) b' = true := wfL_append_left (by rw [← hb']; exact hwfb)
      obtain ⟨cb, hrun, hrel⟩ := ihL (some id) (id :: encl) [] b' st bout' hwfb'
        (by simp [labelIds]) (by simp [labelIds]) hb1
      simp only [List.nil_append] at hrun
      have hdo := RunsS.doWhile0 I hrun
      have hdeepb : ∀ b, deepJumpsToL b id b' = true → deepJumpsToL b id body = true := by
        intro b hh; rw [hb', deepJumpsToL_append]; simp [hh]
      have hjb : ∀ b j, jumpsToL b j b' = true → jumpsToL b j body = true := by
        intro b j hh; rw [hb', jumpsToL_append]; simp [hh]
      cases bout' with
      | next st1 =>
        simp only at hbo
        subst hbo
        simp only [whileAfterW, if_true, Option.some.injEq] at h
        subst h
        cases cb <;> simp only [Rel] at hrel
        subst hrel
        refine ⟨?_, fun hne => absurd rfl (hne _)⟩
        intro st' e r hr
        simp only [WOut.next.injEq] at e
        subst e
        exact RunsL.cons_normal I (toLoop hdo) (post_run I hr)
      | ret v st1 =>
        simp only at hbo
        subst hbo
        simp only [whileAfterW, Option.some.injEq] at h
        subst h
        cases cb <;> simp only [Rel] at hrel
        obtain ⟨rfl, rfl⟩ := hrel
        refine ⟨fun st' e => by simp at e, fun _ => ?_⟩
        exact ⟨_, RunsL.cons_stop I (toLoop hdo) (by simp [doWhileAfterC, Stops]), by simp [doWhileAfterC, Rel]⟩
      | jmp bk j st1 =>
        simp only at hbo
        subst hbo
        simp only [whileAfterW] at h
        by_cases e : j = id
        · subst e
          simp only [if_true] at h
          cases bk with
          | true =>
            simp only [if_true, Option.some.injEq] at h
            subst h
            refine ⟨?_, fun hne => absurd rfl (hne _)⟩
            intro st' e r hr
            simp only [WOut.next.injEq] at e
            subst e
            cases cb with
            | brk s =>
              simp only [Rel] at hrel
              obtain ⟨_, rfl, _⟩ := hrel
              exact RunsL.cons_normal I (toLoop hdo) (post_run I hr)
            | goto l s =>
              simp only [Rel] at hrel
              obtain ⟨rfl, rfl, hd⟩ := hrel
              exact RunsL.cons_goto I (toLoop hdo) (find_break hwhole hidA (hdeepb true (hd trivial))) hr
            | normal s => simp [Rel] at hrel
            | cont s => simp [Rel] at hrel
            | ret v s => simp [Rel] at hrel
          | false =>
            have := hjb _ _ ((jmp_occurs I n).2 _ _ _ _ _ hb1)
            rw [hnocont] at this
            exact absurd this (by simp)
        · simp only [e, if_false, Option.some.injEq] at h
          subst h
          refine ⟨fun st' e' => by simp at e', fun _ => ?_⟩
          have hocc := hjb _ _ ((jmp_occurs I n).2 _ _ _ _ _ hb1)
          cases cb with
          | brk s => simp only [Rel] at hrel; exact absurd (Option.some.inj hrel.2.2).symm e
          | cont s => simp only [Rel] at hrel; exact absurd (Option.some.inj hrel.2.2).symm e
          | goto l s =>
            simp only [Rel] at hrel
            obtain ⟨rfl, rfl, _⟩ := hrel
            exact ⟨_, RunsL.cons_stop I (toLoop hdo)
                (by simpa [doWhileAfterC, Stops] using hesc b' hwfb' st bk j _ hb1 e),
              by simp [doWhileAfterC, Rel, deepJumpsToL, deepJumpsToS, hocc]⟩
          | normal s => simp [Rel] at hrel
          | ret v s => simp [Rel] at hrel
    · -- while (c) { body }
      have hloop : loopOf id c body = .while c (lowerL (some id) body) := by simp [loopOf, htriv]
      have toLoop : ∀ {st0 : σ} {x : COut σ V},
          RunsS I (.while c (lowerL (some id) body)) st0 x → RunsS I (loopOf id c body) st0 x := by
        intro st0 x hx; rw [hloop]; exact hx
      have fromLoop : ∀ {st0 : σ} {x : COut σ V},
          RunsS I (loopOf id c body) st0 x → RunsS I (.while c (lowerL (some id) body)) st0 x := by
        intro st0 x hx; rw [hloop] at hx; exact hx
      obtain ⟨cb, hrun, hrel⟩ := ihL (some id) (id :: encl) [] body st bout hwfb
        (by simp [labelIds]) (by simp [labelIds]) hb
      simp only [List.nil_append] at hrun
      cases bout with
      | next st1 =>
        simp only [whileAfterW] at h
        cases cb <;> simp only [Rel] at hrel
        subst hrel
        obtain ⟨Q1, Q2⟩ := ihW top encl A K whole id c body _ wout hwf hwhole hidA hencl h
        have hx : ∀ x, RunsS I (loopOf id c body) _ x → RunsS I (loopOf id c body) st x :=
          fun x hx => toLoop (RunsS.while_again I hc hrun (Or.inl rfl) (fromLoop hx))
        constructor
        · intro st' e r hr; exact RunsL.head_replace I (Q1 st' e r hr) hx
        · intro hne; obtain ⟨cout, hr, hR⟩ := Q2 hne; exact ⟨cout, RunsL.head_replace I hr hx, hR⟩
      | ret v st1 =>
        simp only [whileAfterW, Option.some.injEq] at h
        subst h
        cases cb <;> simp only [Rel] at hrel
        obtain ⟨rfl, rfl⟩ := hrel
        refine ⟨fun st' e => by simp at e, fun _ => ?_⟩
        have hg := RunsS.while_exit I hc hrun (by intro s; simp)
        exact ⟨_, RunsL.cons_stop I (toLoop hg) (by simp [Stops]), by simp [Rel]⟩
      | jmp bk j st1 =>
        simp only [whileAfterW] at h
        by_cases e : j = id
        · subst e
          simp only [if_true] at h
          cases bk with
          | true =>
            simp only [if_true, Option.some.injEq] at h
            subst h
            refine ⟨?_, fun hne => absurd rfl (hne _)⟩
            intro st' e r hr
            simp only [WOut.next.injEq] at e
            subst e
            cases cb with
            | brk s =>
              simp only [Rel] at hrel
              obtain ⟨_, rfl, _⟩ := hrel
              have hg := RunsS.while_exit I hc hrun (by intro s; simp)
              exact RunsL.cons_normal I (toLoop hg) (post_run I hr)
            | goto l s =>
              simp only [Rel] at hrel
              obtain ⟨rfl, rfl, hd⟩ := hrel
              have hg := RunsS.while_exit I hc hrun (by intro s; simp)
              exact RunsL.cons_goto I (toLoop hg) (find_break hwhole hidA (hd trivial)) hr
            | normal s => simp [Rel] at hrel
            | cont s => simp [Rel] at hrel
            | ret v s => simp [Rel] at hrel
          | false =>
            simp only [Bool.false_eq_true, if_false] at h
            obtain ⟨Q1, Q2⟩ := ihW top encl A K whole j c body _ wout hwf hwhole hidA hencl h
            cases cb with
            | cont s =>
              simp only [Rel] at hrel
              obtain ⟨_, rfl, _⟩ := hrel
              have hx : ∀ x, RunsS I (loopOf j c body) _ x → RunsS I (loopOf j c body) st x :=
                fun x hx => toLoop (RunsS.while_again I hc hrun (Or.inr rfl) (fromLoop hx))
              constructor
              · intro st' e r hr; exact RunsL.head_replace I (Q1 st' e r hr) hx
              · intro hne; obtain ⟨cout, hr, hR⟩ := Q2 hne; exact ⟨cout, RunsL.head_replace I hr hx, hR⟩
            | goto l s =>
              simp only [Rel] at hrel
              obtain ⟨rfl, rfl, hd⟩ := hrel
              have hg := RunsS.while_exit I hc hrun (by intro s; simp)
              have hf := find_continue (c := c) hwhole hidA (hd trivial)
              constructor
              · intro st' e r hr; exact RunsL.cons_goto I (toLoop hg) hf (Q1 st' e r hr)
              · intro hne; obtain ⟨cout, hr, hR⟩ := Q2 hne
                exact ⟨cout, RunsL.cons_goto I (toLoop hg) hf hr, hR⟩
            | normal s => simp [Rel] at hrel
            | brk s => simp [Rel] at hrel
            | ret v s => simp [Rel] at hrel
        · simp only [e, if_false, Option.some.injEq] at h
          subst h
          refine ⟨fun st' e' => by simp at e', fun _ => ?_⟩
          have hocc := (jmp_occurs I n).2 _ _ _ _ _ hb
          cases cb with
          | brk s => simp only [Rel] at hrel; exact absurd (Option.some.inj hrel.2.2).symm e
          | cont s => simp only [Rel] at hrel; exact absurd (Option.some.inj hrel.2.2).symm e
          | goto l s =>
            simp only [Rel] at hrel
            obtain ⟨rfl, rfl, _⟩ := hrel
            have hg := RunsS.while_exit I hc hrun (by intro s; simp)
            exact ⟨_, RunsL.cons_stop I (toLoop hg)
                (by simpa [Stops] using hesc body hwfb st bk j _ hb e),
              by simp [Rel, deepJumpsToL, deepJumpsToS, hocc]⟩
          | normal s => simp [Rel] at hrel
          | ret v s => simp [Rel] at hrel

theorem stmtL_step (n : Nat) (ihL' : ∀ m, m ≤ n → StmtL I m) (ihW : StmtW I n) : StmtL I (n + 1) := by
  have ihL := ihL' n (Nat.le_refl n)
  intro top encl A rest st wout hwf hAencl hAfresh h
  cases rest with
  | nil =>
    simp only [execWL_nil, Option.some.injEq] at h
    subst h
    exact ⟨.normal st, by simpa [lowerL] using RunsL.nil I A st, by simp [Rel]⟩
  | cons s r =>
    have hwf' := hwf
    simp only [wfL, Bool.and_eq_true, List.all_eq_true] at hwf'
    obtain ⟨⟨hwfs, hwfr⟩, hsib⟩ := hwf'
    rw [execWL_cons] at h
    cases hs : execWS I n s st with
    | none => simp [hs] at h
    | some x =>
    simp only [hs, Option.bind_some] at h
    -- the labels of this list are not those of enclosing loops
    have hwhole_encl : ∀ l : Label, l.id ∈ encl → findLabel l (A ++ lowerL top (s :: r)) = none := by
      intro l hl
      apply findLabel_none_of_not_mem
      rw [labelIds_append, List.mem_append]
      rintro (hh | hh)
      · exact hAencl _ hh hl
      · exact wfL_topLoops hwf _ (labelIds_lowerL top _ _ hh) hl
    -- the rest of the list
    have hcont : ∀ st1, x = .next st1 →
        ∃ cout, RunsL I (A ++ lowerL top (s :: r)) (lowerL top r) st1 cout ∧ Rel top (s :: r) wout cout := by
      intro st1 e
      subst e
      simp only [seqAfterW] at h
      have hA1 : ∀ i ∈ labelIds (A ++ lowerS top s), i ∉ encl := by
        intro i hi
        rw [labelIds_append, List.mem_append] at hi
        rcases hi with hi | hi
        · exact hAencl i hi
        · have : i ∈ topLoopsL (s :: r) := by simp [topLoopsL, labelIds_lowerS top s i hi]
          exact wfL_topLoops hwf i this
      have hA2 : ∀ i ∈ topLoopsL r, i ∉ labelIds (A ++ lowerS top s) := by
        intro i hi hmem
        rw [labelIds_append, List.mem_append] at hmem
        rcases hmem with hmem | hmem
        · exact hAfresh i (by simp [topLoopsL, hi]) hmem
        · have h1 := labelIds_lowerS top s i hmem
          have := hsib i h1
          simp only [Bool.not_eq_true', List.contains_eq_mem, decide_eq_false_iff_not] at this
          exact this hi
      obtain ⟨cout, hr, hR⟩ := ihL top encl (A ++ lowerS top s) r st1 wout hwfr hA1 hA2 h
      rw [List.append_assoc, ← lowerL_cons] at hr
      exact ⟨cout, hr, Rel.mono (by intro b j hh; simp [deepJumpsToL, hh]) hR⟩
    have hstop : (∀ st1, x ≠ .next st1) → wout = x := by
      intro hne
      cases x with
      | next st1 => exact absurd rfl (hne st1)
      | jmp b j s1 => simpa [seqAfterW] using h.symm
      | ret v s1 => simpa [seqAfterW] using h.symm
    have hsc : ∀ b j st', x = .jmp b j st' → findLabel ⟨j, b⟩ (A ++ lowerL top (s :: r)) = none := by
      intro b j st' e
      subst e
      exact hwhole_encl ⟨j, b⟩ ((jmp_scoped I n).1 _ _ _ _ _ _ hwfs hs)
    generalize hW : A ++ lowerL top (s :: r) = whole at hwhole_encl hcont hsc ⊢
    cases n with
    | zero => simp at hs
    | succ k =>
    have ihK := ihL' k (Nat.le_succ k)
    cases s with
    | act a =>
      rw [execWS_act] at hs
      cases ha : I.act a st with
      | none => simp [ha] at hs
      | some st1 =>
        simp only [ha, Option.map_some, Option.some.injEq] at hs
        subst hs
        rw [lowerL_cons]
        simp only [lowerS, List.singleton_append]
        exact seq_combine I (sub := []) (RunsS.act I ha) (by simp [Rel])
          (by intro b j hh; simp [deepJumpsToL] at hh) hsc hcont hstop
    | ret e =>
      rw [execWS_ret] at hs
      cases hv : I.retv e st with
      | none => simp [hv] at hs
      | some v =>
        simp only [hv, Option.map_some, Option.some.injEq] at hs
        subst hs
        rw [lowerL_cons]
        simp only [lowerS, List.singleton_append]
        exact seq_combine I (sub := []) (RunsS.ret I hv) (by simp [Rel])
          (by intro b j hh; simp [deepJumpsToL] at hh) hsc hcont hstop
    | jump b j =>
      rw [execWS_jump] at hs
      simp only [Option.some.injEq] at hs
      subst hs
      rw [lowerL_cons]
      by_cases ht : top = some j
      · subst ht
        cases b with
        | true =>
          simp only [lowerS, if_true, List.singleton_append]
          exact seq_combine I (sub := []) (RunsS.brk I st) (by simp [Rel])
            (by intro b j hh; simp [deepJumpsToL] at hh) hsc hcont hstop
        | false =>
          simp only [lowerS, if_true, List.singleton_append, Bool.false_eq_true, if_false]
          exact seq_combine I (sub := []) (RunsS.cont I st) (by simp [Rel])
            (by intro b j hh; simp [deepJumpsToL] at hh) hsc hcont hstop
      · simp only [lowerS, ht, if_false, List.singleton_append]
        exact seq_combine I (sub := []) (RunsS.goto I ⟨j, b⟩ st) (by simp [Rel, ht])
          (by intro b j hh; simp [deepJumpsToL] at hh) hsc hcont hstop
    | ite c el t e =>
      have hwfs' := hwfs
      simp only [wfS, Bool.and_eq_true] at hwfs'
      rw [execWS_ite] at hs
      rw [lowerL_cons]
      simp only [lowerS, List.singleton_append]
      cases hcnd : I.cond c st with
      | none => simp [hcnd] at hs
      | some bv =>
        cases bv with
        | true =>
          simp only [hcnd] at hs
          obtain ⟨c1, hrun, hrel⟩ := ihK top encl [] t st x hwfs'.1 (by simp [labelIds]) (by simp [labelIds]) hs
          simp only [List.nil_append] at hrun
          exact seq_combine I (RunsS.ite_true I hcnd hrun) hrel
            (by intro b j hh; simp [deepJumpsToL, deepJumpsToS, hh]) hsc hcont hstop
        | false =>
          simp only [hcnd] at hs
          obtain ⟨c1, hrun, hrel⟩ := ihK top encl [] e st x hwfs'.2 (by simp [labelIds]) (by simp [labelIds]) hs
          simp only [List.nil_append] at hrun
          exact seq_combine I (RunsS.ite_false I hcnd hrun) hrel
            (by intro b j hh; simp [deepJumpsToL, deepJumpsToS, hh]) hsc hcont hstop
    | ifTrue t =>
      have hwfs' := hwfs
      simp only [wfS] at hwfs'
      rw [execWS_ifTrue] at hs
      rw [lowerL_cons]
      simp only [lowerS, List.singleton_append]
      obtain ⟨c1, hrun, hrel⟩ := ihK top encl [] t st x hwfs' (by simp [labelIds]) (by simp [labelIds]) hs
      simp only [List.nil_append] at hrun
      exact seq_combine I (RunsS.block I hrun) hrel
        (by intro b j hh; simp [deepJumpsToL, deepJumpsToS, hh]) hsc hcont hstop
    | «while» id c body =>
      have hwhole : whole = A ++ (preOf id body ++ loopOf id c body :: postOf id body) ++ lowerL top r := by
        rw [← hW, lowerL_cons, lowerS_while]; simp [List.append_assoc]
      have hidA : id ∉ labelIds A := hAfresh id (by simp [topLoopsL, topLoopsS])
      obtain ⟨P1, P2⟩ := ihW top encl A (lowerL top r) whole id c body st x hwfs hwhole hidA hwhole_encl hs
      rw [lowerL_cons, lowerS_while, List.append_assoc, List.cons_append]
      cases x with
      | next st1 =>
        obtain ⟨cout, hr, hR⟩ := hcont st1 rfl
        exact ⟨cout, pre_run I (P1 st1 rfl cout hr), hR⟩
      | jmp b j s1 =>
        obtain ⟨cout, hr, hR⟩ := P2 (by intro st1; simp)
        have := hstop (by intro st1; simp)
        subst this
        exact ⟨cout, pre_run I hr, Rel.mono (by intro b j hh; simp [deepJumpsToL] at hh ⊢; exact Or.inl hh) hR⟩
      | ret v s1 =>
        obtain ⟨cout, hr, hR⟩ := P2 (by intro st1; simp)
        have := hstop (by intro st1; simp)
        subst this
        exact ⟨cout, pre_run I hr, Rel.mono (by intro b j hh; simp [deepJumpsToL] at hh ⊢; exact Or.inl hh) hR⟩

theorem stmt_sim : ∀ n : Nat, StmtL I n ∧ StmtW I n := by
  intro n
  induction n using Nat.strongRecOn with
  | _ n ih =>
    cases n with
    | zero =>
      constructor
      · intro top encl A rest st wout _ _ _ h
        cases rest with
        | nil =>
          simp only [execWL_nil, Option.some.injEq] at h
          subst h
          exact ⟨.normal st, by simpa [lowerL] using RunsL.nil I A st, by simp [Rel]⟩
        | cons s r => simp at h
      · intro top encl A K whole id c body st wout _ _ _ _ h
        simp at h
    | succ n =>
      exact ⟨stmtL_step I n (fun m hm => (ih m (Nat.lt_succ_of_le hm)).1) (ih n (Nat.lt_succ_self n)).2,
        stmtW_step I n (ih n (Nat.lt_succ_self n)).1 (ih n (Nat.lt_succ_self n)).2⟩

/-! ## The theorems -/

/-- how a whole function body ends: it completes, or returns a value -/
def BodyRel : WOut σ V → COut σ V → Prop
  | .next a, .normal b => a = b
  | .ret v a, .ret w b => v = w ∧ a = b
  | _, _ => False

/-- **stmt_lowering_correct.**  For every well-formed function body, every
interpretation of its atomic statements, conditions and returned expressions,
and every start state: if the Wuffs semantics finishes with `wout` (completes
in state `s`, or returns `v` in state `s`), then the C statement list written by
cgen finishes too, in the same state and with the same returned value.
No bound on sizes, nesting depth or number of iterations. -/
theorem stmt_lowering_correct (body : List WStmt) (hwf : wfL [] body = true) (n : Nat) (st : σ)
    (wout : WOut σ V) (h : execWL I n body st = some wout) :
    ∃ m cout, execCL I m (lowerL none body) (lowerL none body) st = some cout ∧ BodyRel wout cout := by
  obtain ⟨cout, ⟨m, hm⟩, hrel⟩ := (stmt_sim I n).1 none [] [] body st wout hwf
    (by simp [labelIds]) (by simp [labelIds]) h
  simp only [List.nil_append] at hm
  refine ⟨m, cout, hm, ?_⟩
  cases wout with
  | next a => cases cout <;> simp only [Rel] at hrel <;> simpa [BodyRel] using hrel
  | ret v a => cases cout <;> simp only [Rel] at hrel <;> simpa [BodyRel] using hrel
  | jmp bk j a =>
    have := (jmp_scoped I n).2 _ _ _ _ _ _ hwf h
    simp at this

/-- The C semantics is deterministic: whatever fuel suffices, the outcome is
the same.  With `stmt_lowering_correct`: the emitted C can do nothing else than
what the Wuffs source means. -/
theorem execCL_deterministic {m m' : Nat} {whole rest : List CStmt} {st : σ} {o o' : COut σ V}
    (h : execCL I m whole rest st = some o) (h' : execCL I m' whole rest st = some o') : o = o' := by
  have a := execCL_mono I (Nat.le_max_left m m') h
  have b := execCL_mono I (Nat.le_max_right m m') h'
  rw [a] at b
  exact Option.some.inj b

/-- `stmt_lowering_correct` read from the C side: if the Wuffs body finishes,
EVERY terminating run of the emitted C ends in the matching outcome. -/
theorem stmt_lowering_unique (body : List WStmt) (hwf : wfL [] body = true) (n : Nat) (st : σ)
    (wout : WOut σ V) (h : execWL I n body st = some wout) (m : Nat) (cout : COut σ V)
    (hc : execCL I m (lowerL none body) (lowerL none body) st = some cout) : BodyRel wout cout := by
  obtain ⟨m', cout', hm', hrel⟩ := stmt_lowering_correct I body hwf n st wout h
  rw [execCL_deterministic I hc hm']
  exact hrel

/-- **jump_lowering** (`break`): in the statement list that contains the
lowered loop `id` — whatever precedes (`A`, with no label of `id`) and follows
(`K`) it — `goto label__id__break;` resumes exactly after the loop, provided
the loop's deep-break flag is set (which is when the label is written). -/
theorem jump_lowering_break {A K : List CStmt} {id : Nat} {c : Option Nat} {body : List WStmt}
    (hidA : id ∉ labelIds A) (hdeep : deepJumpsToL true id body = true) :
    findLabel ⟨id, true⟩ (A ++ lowerS top (.while id c body) ++ K) = some K := by
  rw [lowerS_while]
  exact find_break rfl hidA hdeep

/-- **jump_lowering** (`continue`): `goto label__id__continue;` resumes at the
loop statement itself (its condition is evaluated next). -/
theorem jump_lowering_continue {A K : List CStmt} {id : Nat} {c : Option Nat} {body : List WStmt}
    (hidA : id ∉ labelIds A) (hdeep : deepJumpsToL false id body = true) :
    findLabel ⟨id, false⟩ (A ++ lowerS top (.while id c body) ++ K) =
      some (loopOf id c body :: (postOf id body ++ K)) := by
  rw [lowerS_while]
  exact find_continue rfl hidA hdeep

/-! ## Non-vacuity, and what the repaired defect breaks -/

/-- states are counters; every act increments; cond 0 is `st < 2`, cond 1 is `st < 5`, any other `st < 4` -/
def demoI : Interp Nat Nat where
  act := fun _ st => some (st + 1)
  cond := fun c st => some (if c = 0 then decide (st < 2) else if c = 1 then decide (st < 5) else decide (st < 4))
  retv := fun _ st => some (st * 10)

/-- `while.a c1 { act; while.b c1 { act; if c2 { continue.a }; break.a }.b; act }.a; return` -/
def demoDeep : List WStmt :=
  [.while 1 (some 1) [.act 0, .while 2 (some 1) [.act 0, .ite 2 false [.jump false 1] [], .jump true 1], .act 0],
   .ret 0]

example : wfL [] demoDeep = true := by decide

example : showL (lowerL none demoDeep) =
    ["L:1:c", "W{", "A", "W{", "A", "I{", "G:1:c", "}", "G:1:b", "}", "A", "}", "L:1:b", "R"] := by decide

/-- the hypotheses of `stmt_lowering_correct` are satisfiable on a program with a
deep `continue` (taken once) and a deep `break`, and both sides compute `return 40` -/
example : execWL demoI 20 demoDeep 0 = some (.ret 40 4) ∧
    execCL demoI 20 (lowerL none demoDeep) (lowerL none demoDeep) 0 = some (.ret 40 4) := by
  decide

/-- two SIBLING loops with the same C label, each left by a deep `break`
(what cgen wrote before fixes/C04-duplicate-jump-label.patch when both loops
were labelled alike) -/
def demoDup : List WStmt :=
  [.while 1 (some 0) [.while 2 (some 0) [.jump true 1]], .act 0,
   .while 1 (some 0) [.while 3 (some 0) [.jump true 1]], .act 0]

/-- … is not well-formed, and for a good reason: the Wuffs meaning is "2", but
with the first of the two `label__1__break:;` taken as the target (a C compiler
rejects the function altogether) the second loop's `break` jumps BACK behind
the first loop and the C computes "3". -/
theorem duplicate_label_wrong :
    wfL [] demoDup = false ∧
    execWL demoI 20 demoDup 0 = some (.next 2) ∧
    execCL demoI 20 (lowerL none demoDup) (lowerL none demoDup) 0 = some (.normal 3) := by
  decide

/-- the `do { } while (0)` form: `while true { act; if c0 { break }; act; break }` -/
def demoTrivial : List WStmt :=
  [.while 1 none [.act 0, .ite 0 false [.jump true 1] [], .act 0, .jump true 1], .ret 0]

example : showL (lowerL none demoTrivial) = ["D{", "A", "I{", "B", "}", "A", "}", "R"] := by decide

example : execWL demoI 20 demoTrivial 1 = some (.ret 30 3) ∧
    execCL demoI 20 (lowerL none demoTrivial) (lowerL none demoTrivial) 1 = some (.ret 30 3) := by
  decide

end WuffsVerif.Props.C04Stmt
