/-
C07 part 6: **the std/deflate decoder against the RFC 1951 specification decoder** — the former open statement
`wuffs_deflate_refines_spec`, now proved for stored and fixed-Huffman blocks without any assumption and for
dynamic-Huffman blocks relative to ONE precisely stated obligation (`DynRefines`).

What is related: `StdDeflate.inflate` — the mirror (Model/StdDeflate.lean) of `decoder.decode_blocks`,
`decode_uncompressed`, `init_fixed_huffman`, `init_dynamic_huffman`, `init_huff` and `decode_huffman_slow`
(transcribed from the .wuffs sources whose statement skeletons are pinned by digest and whose tables are
regenerated on every run; one `transform_io` call, closed source, unbounded destination) — and
`Flate.Spec.inflate` (Model/Flate/Spec.lean, written from the RFC by the C16 builder).  The mirror is tied to the
C generated from the working tree by differential execution (op `wdec deflate`: same bytes, same number of source
bytes consumed, same status on damaged streams; the fast paths `decode_huffman_fast*` are only covered by that
tie).

Direction: completeness on valid data, which is what property C07 asks — if the specification decodes `s` to
`out` using `n` bytes, the Wuffs decoder returns `ok`, exactly `out`, and has consumed exactly `n` bytes.

Proved for ALL byte strings:
  * `wuffs_deflate_stored_fixed`    every stream whose blocks are stored or fixed-Huffman blocks;
  * `wuffs_deflate_refines_spec_partial`   every stream, given `DynRefines s`;
  * underneath (Proof/StdDeflate*.lean): the bit accumulator = the RFC's bit numbering; the two-level table lookup
    with "retry with more bits" = canonical-code decoding, for every prefix-replicated table that agrees with the
    code on 15-bit windows (`lookupLoop_level`, `lookup_two_level`, `decode_entry`); LCODE/DCODE_MAGIC_NUMBERS
    and the `+3` / `+253 & 0xFF` / `& 0x7FFF` arithmetic = the length and distance tables of RFC 1951 §3.2.5
    (`len_facts`, `dist_facts`); the block loop of `decode_huffman_slow` = `Spec.huffBlock` (`slowLoop_spec`);
    `decode_uncompressed` = `Spec.storedBlock`; the tables `init_huff` builds for the fixed code lengths are
    prefix-replicated and agree with the fixed codes of §3.2.6, whatever was in `huffs` before
    (`initFixedHuffman_spec`, by kernel evaluation of the mirror of `init_huff`).

-- OPEN: theorem wuffs_dynamic_header_refines_spec : ∀ s, DynRefines s
--   (for streams whose dynamic headers use complete codes or the one-code distance table: the mirror of
--   `init_dynamic_huffman` reads the same code lengths as `Spec.dynamicHeader` and `init_huff` builds
--   prefix-replicated tables that agree with `Spec.mkHuff` of those lengths).  Needs the analysis of the
--   table-filling loop of `init_huff` (canonical code assignment, bit reversal, second-level sizing).  Not true
--   for every `s`: the specification follows Go and accepts a one-symbol literal/length code and a dynamic block
--   without distance codes, which std/deflate rejects (`#bad Huffman code (under-subscribed)`, `#no Huffman
--   codes`); reference encoders (Go, zlib) never emit those.  Evidence instead: the driver op `wdyn deflate`
--   evaluates exactly the conclusion of `DynRefines` (same end bit, `tblOKb`, `agreeb` on all 2^15 windows for
--   both tables) at every dynamic block of every sampled stream.
-- OPEN: the converse direction (whatever std/deflate accepts, the specification decodes to the same bytes) and
--   the equivalence of `decode_huffman_fast*` with the slow loop.
-/
import WuffsVerif.Proof.StdDeflateStream

namespace WuffsVerif.Props.C07
open WuffsVerif.StdDeflate
open WuffsVerif.Flate.Spec (bitAt bitsLE avail blocks Status Result)

/-- the freshly initialised decoder at bit 0 -/
theorem deflate_init_inv (s : Bytes) : StInv s {} 0 :=
  ⟨⟨by simp [bitsLE], by simp, by simp⟩, by simp, by simp, by simp⟩

/-- **wuffs_deflate_refines_spec_partial.**  For every byte string `s`: if the RFC 1951 specification decoder
    accepts `s` with output `out`, using `n` bytes, and the dynamic-header obligation holds for `s`, then the
    mirror of std/deflate returns `ok` with exactly `out` and has consumed exactly `n` source bytes. -/
theorem wuffs_deflate_refines_spec_partial (s out : Bytes) (n : Nat) (hdyn : DynRefines s)
    (h : Flate.Spec.inflate s = some (out, n)) : StdDeflate.inflate s = .ok (out, n) := by
  unfold Flate.Spec.inflate Flate.Spec.inflateDict Flate.Spec.inflateRaw at h
  have hd : (if (#[] : Bytes).size > Flate.Spec.windowSize then
      (#[] : Bytes).extract ((#[] : Bytes).size - Flate.Spec.windowSize) (#[] : Bytes).size else #[]) = (#[] : Bytes) := by
    simp
  simp only [hd] at h
  generalize hr : blocks s none (#[] : Bytes).size (8 * s.size + 1) 0 #[] = r at h
  obtain ⟨rs, rp, ro⟩ := r
  simp only at h
  split at h
  · rename_i hdone
    simp only [Option.some.injEq, Prod.mk.injEq] at h
    obtain ⟨h1, h2⟩ := h
    subst hdone
    have hr' : blocks s none 0 (8 * s.size + 1) 0 #[] = ⟨.done, rp, ro⟩ := hr
    obtain ⟨st', e1, e2, e3⟩ := decodeBlocks_spec hdyn (8 * s.size + 1) {} 0 #[] Reach.start (deflate_init_inv s) rfl
      rp ro hr'
    unfold StdDeflate.inflate
    rw [e1]
    simp only
    have hpos := e2.br.pos
    have hn8 := e2.n8
    simp only at hpos
    have hout : out = ro := by rw [← h1]; simp
    have hri : st'.ri = n := by rw [← h2]; omega
    rw [e3, hri, hout]
  · simp at h

/-- **wuffs_deflate_stored_fixed.**  No assumption left: every stream that the specification decodes and whose
    blocks are all stored or fixed-Huffman blocks is decoded by the mirror of std/deflate to the same bytes, with
    the same number of source bytes consumed. -/
theorem wuffs_deflate_stored_fixed (s out : Bytes) (n : Nat) (hno : NoDynamic s)
    (h : Flate.Spec.inflate s = some (out, n)) : StdDeflate.inflate s = .ok (out, n) :=
  wuffs_deflate_refines_spec_partial s out n hno.dynRefines h

/-- a one-block stream never reaches a second block boundary -/
theorem reach_final_first (s : Bytes) (hf : bitAt s 0 = 1) : ∀ p out, Reach s p out → p = 0 := by
  intro p out hr
  induction hr with
  | start => rfl
  | next hprev _ hnf _ ih => subst ih; exact absurd hf hnf

/-- non-vacuity: `NoDynamic` holds for a final fixed-Huffman block (the bytes of `compress/flate` for "a") -/
example : NoDynamic #[0x4b, 0x04, 0x00] := by
  intro p out hr _
  have := reach_final_first #[0x4b, 0x04, 0x00] (by decide) p out hr
  subst this
  decide

/-- the theorem applied to that stream (the bytes `compress/flate` writes for "a") -/
example (h : Flate.Spec.inflate #[0x4b, 0x04, 0x00] = some (#[0x61], 3)) :
    StdDeflate.inflate #[0x4b, 0x04, 0x00] = .ok (#[0x61], 3) :=
  wuffs_deflate_stored_fixed _ _ _ (by
    intro p out hr _
    have := reach_final_first #[0x4b, 0x04, 0x00] (by decide) p out hr
    subst this
    decide) h

/-- non-vacuity of the stored case, both sides evaluated: a final stored block holding "A" -/
example : Flate.Spec.inflate #[0x01, 0x01, 0x00, 0xfe, 0xff, 0x41] = some (#[0x41], 6) := by decide +kernel
example : (StdDeflate.inflate #[0x01, 0x01, 0x00, 0xfe, 0xff, 0x41]).toOption = some (#[0x41], 6) := by decide +kernel

end WuffsVerif.Props.C07
