/-
C07 part 6: **the std/deflate decoder against the RFC 1951 specification decoder** — the former open statement
`wuffs_deflate_refines_spec`, now proved for stored, fixed-Huffman AND dynamic-Huffman blocks.

What is related: `StdDeflate.inflate` — the mirror (Model/StdDeflate.lean) of `decoder.decode_blocks`,
`decode_uncompressed`, `init_fixed_huffman`, `init_dynamic_huffman`, `init_huff` and `decode_huffman_slow`
(transcribed from the .wuffs sources whose statement skeletons are pinned by digest and whose tables are
regenerated on every run; one `transform_io` call, closed source, unbounded destination) — and
`Flate.Spec.inflate` (Model/Flate/Spec.lean, written from the RFC by the C16 builder).  The mirror is tied to the
C generated from the working tree by differential execution (op `wdec deflate`: same bytes, same number of source
bytes consumed, same status on damaged streams; the fast paths `decode_huffman_fast*` are only covered by that
tie).

Direction: completeness on valid data, which is what property C07 asks — if the specification decodes `s` to
`out` using `n` bytes, the Wuffs decoder returns `ok`, exactly `out`, and has consumed exactly `n` bytes.

Proved for ALL byte strings:
  * `wuffs_deflate_refines_spec`    every stream whose dynamic headers std/deflate accepts (`DynOK s`, a condition on
    the SPECIFICATION's view of the stream only: at every dynamic block the specification reaches, the code-length
    code and the literal/length code are complete (Kraft sum exactly 1), symbol 256 has a code, and the distance
    code is complete or the one-code code).  The condition cannot be dropped: the specification follows Go's
    compress/flate and ALSO accepts a one-code code-length or literal/length code, an empty distance code and a
    literal/length code without an end-of-block symbol, which std/deflate rejects (`#bad Huffman code
    (under-subscribed)`, `#no Huffman codes`, `#missing end-of-block code`) — see `wuffs_rejects_one_code_litlen`;
    reference encoders (zlib, Go) never emit those;
  * `wuffs_dynamic_header_refines_spec : DynOK s → DynRefines s`   the former OPEN obligation: `init_dynamic_huffman`
    (HLIT/HDIST/HCLEN, CODE_ORDER, the run-length codes 16/17/18 with their bounds checks) reads the code lengths
    `Spec.dynamicHeader` reads, stops at the same bit, and the three `init_huff` calls succeed with tables that are
    prefix-replicated and agree with `Spec.mkHuff` of those lengths on all 2^15 windows;
  * `wuffs_init_huff_correct : InitHuffSpec`   `init_huff` itself, for every complete code-length set (and the
    degenerate one-code distance set): counting, the over/under-subscription check, offsets, the counting sort,
    min/max code length, canonical code assignment, 9-bit reversal through REVERSE8, first-level replication,
    redirect entries, second-level table sizing (`huffSecondBits`) and the HUFFS_TABLE_SIZE = 1024 bound — none of
    the `#internal error` arms can fire, and a lookup in the resulting two-level table = canonical decoding;
  * `wuffs_deflate_stored_fixed`    every stream whose blocks are stored or fixed-Huffman blocks (no condition);
  * `wuffs_deflate_refines_spec_partial`   every stream, given `DynRefines s` (kept: the block-loop theorem);
  * underneath (Proof/StdDeflate*.lean): the bit accumulator = the RFC's bit numbering; the two-level table lookup
    with "retry with more bits" = canonical-code decoding, for every prefix-replicated table that agrees with the
    code on 15-bit windows (`lookupLoop_level`, `lookup_two_level`, `decode_entry`); LCODE/DCODE_MAGIC_NUMBERS
    and the `+3` / `+253 & 0xFF` / `& 0x7FFF` arithmetic = the length and distance tables of RFC 1951 §3.2.5
    (`len_facts`, `dist_facts`); the block loop of `decode_huffman_slow` = `Spec.huffBlock` (`slowLoop_spec`);
    `decode_uncompressed` = `Spec.storedBlock`; the fixed tables by kernel evaluation (`initFixedHuffman_spec`);
    the dynamic part in Proof/StdDeflateDyn*.lean (module statements in Proof/StdDeflateDynDefs.lean):
    `specSideSpec_holds` (the specification's decoder on a complete code = canonical codes in (length, symbol)
    order), `countsSpec_holds`, `countSpec_holds`, `symbolsSpec_holds`, `fillSpec_holds`, `deriveSpec_holds`,
    `valSpec_holds`, `initHuffSingleSpec_holds`, `readLensSpec_holds`, `dynRefines_of_initHuff`.

-- OPEN: the converse direction (whatever std/deflate accepts, the specification decodes to the same bytes) and
--   the equivalence of `decode_huffman_fast*` with the slow loop; suspension/resumption across `transform_io` calls.
-/
import WuffsVerif.Proof.StdDeflateDynFinal

namespace WuffsVerif.Props.C07
open WuffsVerif.StdDeflate
open WuffsVerif.Flate.Spec (bitAt bitsLE avail blocks Status Result)

/-- the freshly initialised decoder at bit 0 -/
theorem deflate_init_inv (s : Bytes) : StInv s {} 0 :=
  ⟨⟨by simp [bitsLE], by simp, by simp⟩, by simp, by simp, by simp, by simp⟩

/-- **wuffs_deflate_refines_spec_partial.**  For every byte string `s`: if the RFC 1951 specification decoder
    accepts `s` with output `out`, using `n` bytes, and the dynamic-header obligation holds for `s`, then the
    mirror of std/deflate returns `ok` with exactly `out` and has consumed exactly `n` source bytes. -/
theorem wuffs_deflate_refines_spec_partial (s out : Bytes) (n : Nat) (hdyn : DynRefines s)
    (h : Flate.Spec.inflate s = some (out, n)) : StdDeflate.inflate s = .ok (out, n) := by
  unfold Flate.Spec.inflate Flate.Spec.inflateDict Flate.Spec.inflateRaw at h
  have hd : (if (#[] : Bytes).size > Flate.Spec.windowSize then
      (#[] : Bytes).extract ((#[] : Bytes).size - Flate.Spec.windowSize) (#[] : Bytes).size else #[]) = (#[] : Bytes) := by
    simp
  simp only [hd] at h
  generalize hr : blocks s none (#[] : Bytes).size (8 * s.size + 1) 0 #[] = r at h
  obtain ⟨rs, rp, ro⟩ := r
  simp only at h
  split at h
  · rename_i hdone
    simp only [Option.some.injEq, Prod.mk.injEq] at h
    obtain ⟨h1, h2⟩ := h
    subst hdone
    have hr' : blocks s none 0 (8 * s.size + 1) 0 #[] = ⟨.done, rp, ro⟩ := hr
    obtain ⟨st', e1, e2, e3⟩ := decodeBlocks_spec hdyn (8 * s.size + 1) {} 0 #[] Reach.start (deflate_init_inv s) rfl
      rp ro hr'
    unfold StdDeflate.inflate
    rw [e1]
    simp only
    have hpos := e2.br.pos
    have hn8 := e2.n8
    simp only at hpos
    have hout : out = ro := by rw [← h1]; simp
    have hri : st'.ri = n := by rw [← h2]; omega
    rw [e3, hri, hout]
  · simp at h

/-- **wuffs_deflate_stored_fixed.**  No assumption left: every stream that the specification decodes and whose
    blocks are all stored or fixed-Huffman blocks is decoded by the mirror of std/deflate to the same bytes, with
    the same number of source bytes consumed. -/
theorem wuffs_deflate_stored_fixed (s out : Bytes) (n : Nat) (hno : NoDynamic s)
    (h : Flate.Spec.inflate s = some (out, n)) : StdDeflate.inflate s = .ok (out, n) :=
  wuffs_deflate_refines_spec_partial s out n hno.dynRefines h

/-- **wuffs_init_huff_correct.**  `init_huff`, for each of the three calls `init_dynamic_huffman` makes
    (`CallKind`), on every code-length set the specification accepts as a complete code (Kraft sum exactly 1), and
    on the one-code distance set: returns `ok` (no over/under-subscription status, none of the `#internal error`
    arms, second-level tables within HUFFS_TABLE_SIZE) and leaves a table that is prefix-replicated (`TblOK`) and
    agrees with the canonical code on all 2^15 windows (`Agree`), whatever `huffs[which]` held before. -/
theorem wuffs_init_huff_correct : InitHuffSpec := initHuffSpec_holds

/-- **wuffs_dynamic_header_refines_spec** (the former open obligation).  For every byte string `s` whose dynamic
    headers std/deflate accepts (`DynOK s`): at every dynamic block the specification reaches, the mirror of
    `init_dynamic_huffman` + `init_huff` accepts the header the specification accepts, stops at the same bit and
    builds tables that implement the specification's two canonical codes. -/
theorem wuffs_dynamic_header_refines_spec (s : Bytes) (hok : DynOK s) : DynRefines s := dynRefines_holds s hok

/-- **wuffs_deflate_refines_spec.**  For every byte string `s` whose dynamic headers std/deflate accepts (`DynOK s`,
    a condition on the specification's parse of `s` only; it holds trivially for streams without dynamic blocks):
    if the RFC 1951 specification decoder accepts `s` with output `out`, using `n` bytes, then the mirror of
    std/deflate returns `ok` with exactly `out` and has consumed exactly `n` source bytes. -/
theorem wuffs_deflate_refines_spec (s out : Bytes) (n : Nat) (hok : DynOK s)
    (h : Flate.Spec.inflate s = some (out, n)) : StdDeflate.inflate s = .ok (out, n) :=
  wuffs_deflate_refines_spec_partial s out n (dynRefines_holds s hok) h

/-- streams without dynamic blocks satisfy `DynOK` -/
theorem NoDynamic.dynOK {s : Bytes} (h : NoDynamic s) : DynOK s := by
  intro p out hr ha ht
  exact absurd ht (h p out hr ha)

/-- a one-block stream never reaches a second block boundary -/
theorem reach_final_first (s : Bytes) (hf : bitAt s 0 = 1) : ∀ p out, Reach s p out → p = 0 := by
  intro p out hr
  induction hr with
  | start => rfl
  | next hprev _ hnf _ ih => subst ih; exact absurd hf hnf

/-- non-vacuity: `NoDynamic` holds for a final fixed-Huffman block (the bytes of `compress/flate` for "a") -/
example : NoDynamic #[0x4b, 0x04, 0x00] := by
  intro p out hr _
  have := reach_final_first #[0x4b, 0x04, 0x00] (by decide) p out hr
  subst this
  decide

/-- the theorem applied to that stream (the bytes `compress/flate` writes for "a") -/
example (h : Flate.Spec.inflate #[0x4b, 0x04, 0x00] = some (#[0x61], 3)) :
    StdDeflate.inflate #[0x4b, 0x04, 0x00] = .ok (#[0x61], 3) :=
  wuffs_deflate_stored_fixed _ _ _ (by
    intro p out hr _
    have := reach_final_first #[0x4b, 0x04, 0x00] (by decide) p out hr
    subst this
    decide) h

/-- non-vacuity of the stored case, both sides evaluated: a final stored block holding "A" -/
example : Flate.Spec.inflate #[0x01, 0x01, 0x00, 0xfe, 0xff, 0x41] = some (#[0x41], 6) := by decide +kernel
example : (StdDeflate.inflate #[0x01, 0x01, 0x00, 0xfe, 0xff, 0x41]).toOption = some (#[0x41], 6) := by decide +kernel

/-- a final dynamic-Huffman block (zlib, Z_HUFFMAN_ONLY, 120 bytes of text over `a`…`g`) -/
def dynSample : Bytes :=
  #[0x05, 0xc1, 0x01, 0x01, 0xc0, 0x40, 0x10, 0xc3, 0x20, 0xad, 0xa4, 0xb7, 0xf7, 0x2f, 0x61, 0x40, 0x23, 0x26, 0x14,
    0xca, 0xd8, 0x66, 0x0b, 0x91, 0x4c, 0xc7, 0x36, 0xf4, 0x99, 0xe9, 0x4a, 0x0b, 0x8e, 0x29, 0x2f, 0xa3, 0x50, 0x4e,
    0xe3, 0xac, 0x85, 0xee, 0x78, 0x67, 0x3f]

/-- non-vacuity of `DynOK` on a real dynamic block: the header check, evaluated -/
theorem dynSample_ok : DynOK dynSample := dynOK_of_final dynSample (by decide) (by decide +kernel)

/-- the theorem applied to that stream -/
example (out : Bytes) (n : Nat) (h : Flate.Spec.inflate dynSample = some (out, n)) :
    StdDeflate.inflate dynSample = .ok (out, n) :=
  wuffs_deflate_refines_spec _ _ _ dynSample_ok h

/-- a final dynamic block whose literal/length code consists of ONE code (symbol 256, length 1) and whose distance
    code is empty: 256 zero lengths (two code-18 runs), then 1, then 0; data = the end-of-block code -/
def oneCodeSample : Bytes := #[0x05, 0xc0, 0x81, 0x08, 0x00, 0x00, 0x00, 0x00, 0x20, 0x7f, 0xeb, 0x03]

/-- **The condition `DynOK` cannot be dropped**: the specification (which follows Go's compress/flate in accepting
    a one-code Huffman code) decodes `oneCodeSample` to the empty output, while std/deflate rejects it
    (`#bad Huffman code (under-subscribed)`); both sides evaluated. -/
theorem wuffs_rejects_one_code_litlen :
    Flate.Spec.inflate oneCodeSample = some (#[], 12) ∧ (StdDeflate.inflate oneCodeSample).toOption = none :=
  ⟨by decide +kernel, by decide +kernel⟩

theorem dynOK_is_needed : ¬ DynOK oneCodeSample := by
  intro hok
  have h := wuffs_deflate_refines_spec _ _ _ hok wuffs_rejects_one_code_litlen.1
  have h2 := wuffs_rejects_one_code_litlen.2
  rw [h] at h2
  simp [Except.toOption] at h2

end WuffsVerif.Props.C07
