/-
C09 — results depend only on the input: the initializer part.

Theorems over `Model/ObjInit.lean` (the C text `writeInitializerImpl` emits):
what `wuffs_foo__bar__initialize` leaves in the object is a function of the layout and the
options only, NOT of the prior memory — for the whole object with options 0, for every
first part (`private_impl`, recursively in sub-objects) with
LEAVE_INTERNAL_BUFFERS_UNINITIALIZED; ALREADY_ZEROED over zeroed memory is the same as
options 0 over anything; and exactly the second parts keep their prior bytes under
LEAVE_INTERNAL_BUFFERS_UNINITIALIZED.

The other parts of C09 are in `Props/C09Choose.lean` (choose selection) and
`Props/C09Idct.lean` (the JPEG IDCT range exception).
-/
import WuffsVerif.Model.ObjInit

namespace WuffsVerif.Props.C09
open WuffsVerif.ObjInit

/-- two memories agree on a set of addresses -/
def AgreeOn (S : Nat → Prop) (m1 m2 : Mem) : Prop := ∀ i, S i → m1 i = m2 i

/-- same status; on success, agreement on `S` -/
def SameOutcome (S : Nat → Prop) (r1 r2 : Except Status Mem) : Prop :=
  match r1, r2 with
  | .ok a, .ok b => AgreeOn S a b
  | .error e1, .error e2 => e1 = e2
  | _, _ => False

def InRange (base len : Nat) (i : Nat) : Prop := base ≤ i ∧ i < base + len

mutual
/-- where `initialize` READS prior memory: the `magic` field of the object and of every
(nested) sub-object (the ALREADY_ZEROED plausibility check) -/
def magicLocs : Obj → Nat → Nat → Prop
  | .mk _ _ _ _ subs, base, i => InRange base 4 i ∨ magicLocsSubs subs base i
def magicLocsSubs : Subs → Nat → Nat → Prop
  | .nil, _, _ => False
  | .cons off o rest, base, i => magicLocs o (base + off) i ∨ magicLocsSubs rest base i
end

/-- The addresses whose content a successful `initialize` determines. -/
def det (o : Obj) (base : Nat) (opts : Opts) (i : Nat) : Prop :=
  if opts.alreadyZeroed then False
  else if opts.leaveUninit then firstParts o base i = true
  else InRange base o.size i

def detSubs (s : Subs) (base : Nat) (opts : Opts) (i : Nat) : Prop :=
  if opts.alreadyZeroed then False
  else if opts.leaveUninit then firstPartsSubs s base i = true
  else False

/-! ### agreement is preserved / extended by the primitive stores -/

theorem agree_zeroRange {S : Nat → Prop} {m1 m2 : Mem} (h : AgreeOn S m1 m2) (base len : Nat) :
    AgreeOn (fun i => S i ∨ InRange base len i) (zeroRange m1 base len) (zeroRange m2 base len) := by
  intro i hi
  unfold zeroRange
  by_cases hr : base ≤ i ∧ i < base + len
  · simp [hr]
  · simp only [hr, ↓reduceIte]
    rcases hi with hs | hr'
    · exact h i hs
    · exact absurd hr' hr

theorem agree_storePtr {S : Nat → Prop} {m1 m2 : Mem} (h : AgreeOn S m1 m2) (addr sym : Nat) :
    AgreeOn S (storePtr m1 addr sym) (storePtr m2 addr sym) := by
  intro i hi
  unfold storePtr
  split
  · rfl
  · exact h i hi

theorem agree_storeSlots {S : Nat → Prop} (base : Nat) (l : List Slot) :
    ∀ {m1 m2 : Mem}, AgreeOn S m1 m2 → AgreeOn S (storeSlots m1 base l) (storeSlots m2 base l) := by
  unfold storeSlots
  induction l with
  | nil => intro m1 m2 h; exact h
  | cons s rest ih =>
    intro m1 m2 h
    simp only [List.foldl_cons]
    exact ih (agree_storePtr h _ _)

theorem agree_storeMagic {S : Nat → Prop} {m1 m2 : Mem} (h : AgreeOn S m1 m2) (addr : Nat) :
    AgreeOn S (storeMagic m1 addr) (storeMagic m2 addr) := by
  intro i hi
  unfold storeMagic
  split
  · rfl
  · exact h i hi

theorem agree_mono {S T : Nat → Prop} {m1 m2 : Mem} (h : AgreeOn S m1 m2) (hst : ∀ i, T i → S i) :
    AgreeOn T m1 m2 := fun i hi => h i (hst i hi)

theorem magicIsZero_congr {S : Nat → Prop} {m1 m2 : Mem} (h : AgreeOn S m1 m2) (base : Nat)
    (hm : ∀ i, InRange base 4 i → S i) : magicIsZero m1 base = magicIsZero m2 base := by
  unfold magicIsZero
  rw [h base (hm _ ⟨by omega, by omega⟩), h (base + 1) (hm _ ⟨by omega, by omega⟩),
    h (base + 2) (hm _ ⟨by omega, by omega⟩), h (base + 3) (hm _ ⟨by omega, by omega⟩)]

theorem sameOutcome_mono {S T : Nat → Prop} {r1 r2 : Except Status Mem} (h : SameOutcome S r1 r2)
    (hst : ∀ i, T i → S i) : SameOutcome T r1 r2 := by
  unfold SameOutcome at *
  cases r1 <;> cases r2 <;> simp_all
  exact agree_mono h hst

/-- the epilogue (`magic`, vtables) of `initObj` preserves a common outcome -/
theorem sameOutcome_finish {T U : Nat → Prop} (base : Nat) (vtables : List Slot)
    (r1 r2 : Except Status Mem) (hsub : ∀ i, U i → T i) :
    SameOutcome T r1 r2 →
    SameOutcome U
      (match r1 with
        | .error e => .error e
        | .ok m3 => .ok (storeSlots (storeMagic m3 base) base vtables))
      (match r2 with
        | .error e => .error e
        | .ok m3 => .ok (storeSlots (storeMagic m3 base) base vtables)) := by
  intro h
  cases r1 <;> cases r2 <;> simp only [SameOutcome] at h ⊢ <;>
    first
    | exact h
    | exact agree_storeSlots base vtables (agree_storeMagic (agree_mono h hsub) base)

/-! ### the congruence: `initialize` maps agreeing memories to agreeing memories -/

mutual
/-- Core lemma.  If two prior memories agree on `S`, and `S` covers everything the call
reads (the magic fields, when ALREADY_ZEROED is set; with options 0 they lie inside the
memset range), then both calls return the same status and, on success, the results agree
on `S` plus everything the call determines. -/
theorem initObj_congr (o : Obj) (base : Nat) (opts : Opts) (S : Nat → Prop) (m1 m2 : Mem)
    (h : AgreeOn S m1 m2)
    (haz : opts.alreadyZeroed = true → ∀ i, magicLocs o base i → S i)
    (hdef : opts.alreadyZeroed = false → opts.leaveUninit = false →
      ∀ i, magicLocs o base i → (S i ∨ InRange base o.size i)) :
    SameOutcome (fun i => S i ∨ det o base opts i) (initObj o base opts m1) (initObj o base opts m2) := by
  match o with
  | .mk size implSize choosy vtables subs =>
    unfold initObj prologue
    by_cases az : opts.alreadyZeroed = true
    · -- ALREADY_ZEROED: nothing is written before the sub-objects; the magic check reads S
      have hmz := magicIsZero_congr h base (fun i hi => haz az i (by unfold magicLocs; exact Or.inl hi))
      simp only [az, ↓reduceIte, hmz]
      by_cases mz : magicIsZero m2 base = true
      · simp only [mz, ↓reduceIte]
        have h2 := agree_storeSlots (S := S) base choosy h
        have ih := initSubs_congr subs base opts S _ _ h2
          (fun _ i hi => haz az i (by unfold magicLocs; exact Or.inr hi))
          (Or.inl az)
        refine sameOutcome_finish base vtables _ _ ?_ ih
        intro i hi
        rcases hi with hs | hd
        · exact Or.inl hs
        · simp [det, az] at hd
      · simp only [mz]
        simp [SameOutcome]
    · have az' : opts.alreadyZeroed = false := by simpa using az
      by_cases lv : opts.leaveUninit = true
      · -- LEAVE_INTERNAL_BUFFERS_UNINITIALIZED: memset of private_impl only, options unchanged
        simp only [az', lv, Bool.false_eq_true, ↓reduceIte, Bool.not_true]
        have h1 := agree_zeroRange h base implSize
        have h2 := agree_storeSlots base choosy h1
        have ih := initSubs_congr subs base opts _ _ _ h2
          (fun hz => by rw [az'] at hz; exact absurd hz (by decide))
          (Or.inr lv)
        refine sameOutcome_finish base vtables _ _ ?_ ih
        intro i hi
        rcases hi with hs | hd
        · exact Or.inl (Or.inl hs)
        · simp only [det, az', lv, Bool.false_eq_true, ↓reduceIte] at hd
          unfold firstParts at hd
          simp only [Bool.or_eq_true, decide_eq_true_eq] at hd
          rcases hd with hd | hd
          · exact Or.inl (Or.inr hd)
          · right; simp [detSubs, az', lv, hd]
      · -- options 0: memset of the whole object, sub-objects are told ALREADY_ZEROED
        have lv' : opts.leaveUninit = false := by simpa using lv
        simp only [az', lv', Bool.false_eq_true, ↓reduceIte, Bool.not_false]
        have h1 := agree_zeroRange h base size
        have h2 := agree_storeSlots base choosy h1
        have ih := initSubs_congr subs base { opts with alreadyZeroed := true } _ _ _ h2
          (fun _ i hi => by
            have := hdef az' lv' i (by unfold magicLocs; exact Or.inr hi)
            simpa [Obj.size] using this)
          (Or.inl rfl)
        have hlv : ({ opts with alreadyZeroed := true } : Opts) = ⟨true, false⟩ := by
          cases opts; simp_all
        rw [hlv] at ih
        refine sameOutcome_finish base vtables _ _ ?_ ih
        intro i hi
        rcases hi with hs | hd
        · exact Or.inl (Or.inl hs)
        · simp only [det, az', lv', Bool.false_eq_true, ↓reduceIte, Obj.size] at hd
          exact Or.inl (Or.inr hd)

theorem initSubs_congr (s : Subs) (base : Nat) (opts : Opts) (S : Nat → Prop) (m1 m2 : Mem)
    (h : AgreeOn S m1 m2)
    (haz : opts.alreadyZeroed = true → ∀ i, magicLocsSubs s base i → S i)
    (hne : opts.alreadyZeroed = true ∨ opts.leaveUninit = true) :
    SameOutcome (fun i => S i ∨ detSubs s base opts i) (initSubs s base opts m1) (initSubs s base opts m2) := by
  match s with
  | .nil =>
    unfold initSubs
    simp only [SameOutcome]
    intro i hi
    rcases hi with hs | hd
    · exact h i hs
    · simp [detSubs, firstPartsSubs] at hd
  | .cons off o rest =>
    unfold initSubs
    by_cases az : opts.alreadyZeroed = true
    · have ih1 := initObj_congr o (base + off) opts S m1 m2 h
        (fun _ i hi => haz az i (by unfold magicLocsSubs; exact Or.inl hi))
        (fun hz => by rw [az] at hz; exact absurd hz (by decide))
      revert ih1
      cases initObj o (base + off) opts m1 <;> cases initObj o (base + off) opts m2 <;>
        simp only [SameOutcome] <;> intro ih1
      · exact ih1
      · exact False.elim ih1
      · exact False.elim ih1
      · rename_i a b
        have ih2 := initSubs_congr rest base opts _ a b ih1
          (fun _ i hi => Or.inl (haz az i (by unfold magicLocsSubs; exact Or.inr hi)))
          hne
        apply sameOutcome_mono ih2
        intro i hi
        rcases hi with hs | hd
        · exact Or.inl (Or.inl hs)
        · simp [detSubs, az] at hd
    · have az' : opts.alreadyZeroed = false := by simpa using az
      by_cases lv : opts.leaveUninit = true
      · have ih1 := initObj_congr o (base + off) opts S m1 m2 h
          (fun hz => by rw [az'] at hz; exact absurd hz (by decide))
          (fun _ hl => by rw [lv] at hl; exact absurd hl (by decide))
        revert ih1
        cases initObj o (base + off) opts m1 <;> cases initObj o (base + off) opts m2 <;>
          simp only [SameOutcome] <;> intro ih1
        · exact ih1
        · exact False.elim ih1
        · exact False.elim ih1
        · rename_i a b
          have ih2 := initSubs_congr rest base opts _ a b ih1
            (fun hz => by rw [az'] at hz; exact absurd hz (by decide))
            hne
          apply sameOutcome_mono ih2
          intro i hi
          rcases hi with hs | hd
          · exact Or.inl (Or.inl hs)
          · simp only [detSubs, az', lv, Bool.false_eq_true, ↓reduceIte] at hd
            unfold firstPartsSubs at hd
            simp only [Bool.or_eq_true] at hd
            rcases hd with hd | hd
            · left; right; simp [det, az', lv, hd]
            · right; simp [detSubs, az', lv, hd]
      · -- never happens: a parent passes ALREADY_ZEROED or LEAVE_… on to its sub-objects
        rcases hne with hz | hl
        · exact absurd hz az
        · exact absurd hl lv
end

/-! ### layout well-formedness: the magic fields lie inside the object -/

mutual
theorem magicLocs_inRange (o : Obj) (base i : Nat) (hwf : o.wf = true) (h : magicLocs o base i) :
    InRange base o.size i := by
  match o with
  | .mk size impl ch vt subs =>
    unfold Obj.wf at hwf
    simp only [Bool.and_eq_true, decide_eq_true_eq] at hwf
    obtain ⟨⟨⟨h1, _⟩, _⟩, hs⟩ := hwf
    unfold magicLocs at h
    rcases h with h | h
    · unfold InRange at *
      simp only [Obj.size]
      omega
    · have := magicLocsSubs_inRange subs base i impl size hs h
      unfold InRange
      simp only [Obj.size]
      omega
theorem magicLocsSubs_inRange (s : Subs) (base i lo hi : Nat) (hwf : s.wf lo hi = true)
    (h : magicLocsSubs s base i) : base + lo ≤ i ∧ i < base + hi := by
  match s with
  | .nil => unfold magicLocsSubs at h; exact absurd h id
  | .cons off o rest =>
    unfold Subs.wf at hwf
    simp only [Bool.and_eq_true, decide_eq_true_eq] at hwf
    obtain ⟨⟨⟨hlo, hhi⟩, ho⟩, hr⟩ := hwf
    unfold magicLocsSubs at h
    rcases h with h | h
    · have := magicLocs_inRange o (base + off) i ho h
      unfold InRange at this
      omega
    · have := magicLocsSubs_inRange rest base i (off + o.size) hi hr h
      omega
end

/-! ### the property theorems -/

/-- `init_independent_of_prior` (general form).  Without ALREADY_ZEROED, over ANY two prior
memory contents, `initialize` returns the same status and determines the same bytes:
with options 0 the whole object, with LEAVE_INTERNAL_BUFFERS_UNINITIALIZED every first part
(`private_impl`: magic, vtables, choosy pointers, all first-part fields, coroutine state) of
the object and of all nested sub-objects. -/
theorem init_independent_of_prior (o : Obj) (hwf : o.wf = true) (base : Nat) (opts : Opts)
    (hno : opts.alreadyZeroed = false) (m1 m2 : Mem) :
    SameOutcome (det o base opts) (initObj o base opts m1) (initObj o base opts m2) := by
  have := initObj_congr o base opts (fun _ => False) m1 m2 (fun _ hf => absurd hf id)
    (fun hz => by rw [hno] at hz; exact absurd hz (by decide))
    (fun _ _ i hi => Or.inr (magicLocs_inRange o base i hwf hi))
  exact sameOutcome_mono this (fun i hi => Or.inr hi)

/-- options 0: the WHOLE object is independent of the prior memory. -/
theorem init_options0_whole_object (o : Obj) (hwf : o.wf = true) (base : Nat) (m1 m2 : Mem) :
    SameOutcome (InRange base o.size) (initObj o base ⟨false, false⟩ m1) (initObj o base ⟨false, false⟩ m2) := by
  have := init_independent_of_prior o hwf base ⟨false, false⟩ rfl m1 m2
  exact sameOutcome_mono this (fun i hi => by simp [det, hi])

/-- LEAVE_INTERNAL_BUFFERS_UNINITIALIZED: every first part is independent of the prior memory. -/
theorem init_leave_uninit_first_parts (o : Obj) (hwf : o.wf = true) (base : Nat) (m1 m2 : Mem) :
    SameOutcome (fun i => firstParts o base i = true)
      (initObj o base ⟨false, true⟩ m1) (initObj o base ⟨false, true⟩ m2) := by
  have := init_independent_of_prior o hwf base ⟨false, true⟩ rfl m1 m2
  exact sameOutcome_mono this (fun i hi => by simp [det, hi])

/-- ALREADY_ZEROED over memory that really is zero: status and the whole object are the same
whatever else differs (memory outside the object). -/
theorem init_already_zeroed_over_zeroed (o : Obj) (hwf : o.wf = true) (base : Nat) (lv : Bool)
    (m1 m2 : Mem) (hz1 : ∀ i, InRange base o.size i → m1 i = .byte 0)
    (hz2 : ∀ i, InRange base o.size i → m2 i = .byte 0) :
    SameOutcome (InRange base o.size) (initObj o base ⟨true, lv⟩ m1) (initObj o base ⟨true, lv⟩ m2) := by
  have := initObj_congr o base ⟨true, lv⟩ (InRange base o.size) m1 m2
    (fun i hi => by rw [hz1 i hi, hz2 i hi])
    (fun _ i hi => magicLocs_inRange o base i hwf hi)
    (fun hz => by simp at hz)
  exact sameOutcome_mono this (fun i hi => Or.inl hi)

mutual
/-- "This bit [LEAVE_INTERNAL_BUFFERS_UNINITIALIZED] is ignored if ALREADY_ZEROED is also set"
(doc/note/initialization.md) — true of the emitted code, sub-objects included. -/
theorem already_zeroed_ignores_leave (o : Obj) (base : Nat) (l l' : Bool) (m : Mem) :
    initObj o base ⟨true, l⟩ m = initObj o base ⟨true, l'⟩ m := by
  match o with
  | .mk size impl ch vt subs =>
    unfold initObj prologue
    by_cases mz : magicIsZero m base = true
    · simp only [mz, ↓reduceIte]
      rw [already_zeroed_ignores_leave_subs subs base l l']
    · simp only [mz, ↓reduceIte]
      rfl
theorem already_zeroed_ignores_leave_subs (s : Subs) (base : Nat) (l l' : Bool) (m : Mem) :
    initSubs s base ⟨true, l⟩ m = initSubs s base ⟨true, l'⟩ m := by
  match s with
  | .nil => unfold initSubs; rfl
  | .cons off o rest =>
    unfold initSubs
    rw [already_zeroed_ignores_leave o (base + off) l l']
    split
    · rfl
    · rw [already_zeroed_ignores_leave_subs rest base l l']
end

theorem magicIsZero_zeroRange (m : Mem) (base size : Nat) (h : 4 ≤ size) :
    magicIsZero (zeroRange m base size) base = true := by
  unfold magicIsZero zeroRange
  have a0 : base ≤ base ∧ base < base + size := by omega
  have a1 : base ≤ base + 1 ∧ base + 1 < base + size := by omega
  have a2 : base ≤ base + 2 ∧ base + 2 < base + size := by omega
  have a3 : base ≤ base + 3 ∧ base + 3 < base + size := by omega
  simp [a0, a1, a2, a3]

/-- options 0 = `memset(self, 0, sizeof(*self))` followed by the ALREADY_ZEROED path:
the two documented ways to get a fully defined object coincide. -/
theorem init_options0_eq_memset_then_already_zeroed (o : Obj) (hwf : o.wf = true) (base : Nat) (m : Mem) :
    initObj o base ⟨false, false⟩ m = initObj o base ⟨true, false⟩ (zeroRange m base o.size) := by
  match o with
  | .mk size impl ch vt subs =>
    have hs : 4 ≤ size := by
      unfold Obj.wf at hwf
      simp only [Bool.and_eq_true, decide_eq_true_eq] at hwf
      omega
    conv => lhs; unfold initObj prologue
    conv => rhs; unfold initObj prologue
    simp [Obj.size, magicIsZero_zeroRange m base size hs]

/-- `reinit_fresh`: calling `initialize` again after ANY history (`hist` = whatever earlier
decodes, failed or not, did to the memory) gives the same status and the same determined
bytes as calling it on fresh memory — "to restore a Wuffs object to its initial state, just
call the initialize function again" — modulo the second parts left alone under
LEAVE_INTERNAL_BUFFERS_UNINITIALIZED. -/
theorem reinit_fresh (o : Obj) (hwf : o.wf = true) (base : Nat) (opts : Opts)
    (hno : opts.alreadyZeroed = false) (hist : Mem → Mem) (used fresh : Mem) :
    SameOutcome (det o base opts) (initObj o base opts (hist used)) (initObj o base opts fresh) :=
  init_independent_of_prior o hwf base opts hno (hist used) fresh

mutual
/-- Without ALREADY_ZEROED and with LEAVE_INTERNAL_BUFFERS_UNINITIALIZED, `initialize` cannot fail
(after its argument checks). -/
theorem initObj_leave_succeeds (o : Obj) (base : Nat) (m : Mem) :
    ∃ r, initObj o base ⟨false, true⟩ m = .ok r := by
  match o with
  | .mk size impl ch vt subs =>
    unfold initObj prologue
    simp only [Bool.false_eq_true, ↓reduceIte, Bool.not_true]
    obtain ⟨r, hr⟩ := initSubs_leave_succeeds subs base (storeSlots (zeroRange m base impl) base ch)
    rw [hr]
    exact ⟨_, rfl⟩
theorem initSubs_leave_succeeds (s : Subs) (base : Nat) (m : Mem) :
    ∃ r, initSubs s base ⟨false, true⟩ m = .ok r := by
  match s with
  | .nil => exact ⟨m, by unfold initSubs; rfl⟩
  | .cons off o rest =>
    unfold initSubs
    obtain ⟨r, hr⟩ := initObj_leave_succeeds o (base + off) m
    rw [hr]
    exact initSubs_leave_succeeds rest base r
end

/-! ### exactly the second parts keep their prior bytes under LEAVE_INTERNAL_BUFFERS_UNINITIALIZED -/

theorem storeSlots_outside (base impl i : Nat) (hout : ¬ InRange base impl i) (l : List Slot)
    (hl : ∀ s ∈ l, 8 ≤ s.off ∧ s.off + 8 ≤ impl) : ∀ m : Mem, storeSlots m base l i = m i := by
  unfold storeSlots
  induction l with
  | nil => intro m; rfl
  | cons s rest ih =>
    intro m
    simp only [List.foldl_cons]
    rw [ih (fun t ht => hl t (List.mem_cons_of_mem _ ht))]
    unfold storePtr
    have := hl s List.mem_cons_self
    have hn : ¬ (base + s.off ≤ i ∧ i < base + s.off + 8) := by
      unfold InRange at hout
      omega
    simp [hn]

theorem slots_wf (l : List Slot) (impl : Nat)
    (h : l.all (fun s => decide (8 ≤ s.off ∧ s.off + 8 ≤ impl)) = true) :
    ∀ s ∈ l, 8 ≤ s.off ∧ s.off + 8 ≤ impl := by
  intro s hs
  have := List.all_eq_true.mp h s hs
  simpa using this

mutual
/-- `leave_uninit_keeps_second_part`: with LEAVE_INTERNAL_BUFFERS_UNINITIALIZED a (well-formed)
object's bytes outside every first part — and all memory outside the object — are exactly the
prior memory: this is the garbage a decoder must never read before writing. -/
theorem leave_uninit_keeps_second_part (o : Obj) (hwf : o.wf = true) (base : Nat) (m r : Mem)
    (h : initObj o base ⟨false, true⟩ m = .ok r) :
    ∀ i, firstParts o base i = false → r i = m i := by
  match o with
  | .mk size impl ch vt subs =>
    unfold Obj.wf at hwf
    simp only [Bool.and_eq_true, decide_eq_true_eq] at hwf
    obtain ⟨⟨⟨h1, hch⟩, hvt⟩, hs⟩ := hwf
    unfold initObj prologue at h
    simp only [Bool.false_eq_true, ↓reduceIte, Bool.not_true] at h
    cases hsub : initSubs subs base ⟨false, true⟩ (storeSlots (zeroRange m base impl) base ch) with
    | error e => rw [hsub] at h; simp at h
    | ok m3 =>
      rw [hsub] at h
      simp only [Except.ok.injEq] at h
      intro i hi
      unfold firstParts at hi
      simp only [Bool.or_eq_false_iff, decide_eq_false_iff_not] at hi
      obtain ⟨hout, hsubs⟩ := hi
      have hout' : ¬ InRange base impl i := hout
      rw [← h, storeSlots_outside base impl i hout' vt (slots_wf vt impl hvt)]
      have hm : storeMagic m3 base i = m3 i := by
        unfold storeMagic
        have : ¬ (base ≤ i ∧ i < base + 4) := by unfold InRange at hout'; omega
        simp [this]
      rw [hm, leave_uninit_keeps_second_part_subs subs impl size hs base _ m3 hsub i hsubs,
        storeSlots_outside base impl i hout' ch (slots_wf ch impl hch)]
      unfold zeroRange
      simp [hout]
theorem leave_uninit_keeps_second_part_subs (s : Subs) (lo hi : Nat) (hwf : s.wf lo hi = true)
    (base : Nat) (m r : Mem) (h : initSubs s base ⟨false, true⟩ m = .ok r) :
    ∀ i, firstPartsSubs s base i = false → r i = m i := by
  match s with
  | .nil =>
    unfold initSubs at h
    simp only [Except.ok.injEq] at h
    intro i _; rw [h]
  | .cons off o rest =>
    unfold Subs.wf at hwf
    simp only [Bool.and_eq_true, decide_eq_true_eq] at hwf
    obtain ⟨⟨_, ho⟩, hr⟩ := hwf
    unfold initSubs at h
    cases h1 : initObj o (base + off) ⟨false, true⟩ m with
    | error e => rw [h1] at h; simp at h
    | ok m' =>
      rw [h1] at h
      simp only at h
      intro i hi
      unfold firstPartsSubs at hi
      simp only [Bool.or_eq_false_iff] at hi
      rw [leave_uninit_keeps_second_part_subs rest (off + o.size) _ hr base m' r h i hi.2,
        leave_uninit_keeps_second_part o ho (base + off) m m' h1 i hi.1]
end

/-- The hypothesis "memory really is zero" of `init_already_zeroed_over_zeroed` cannot be
dropped: ALREADY_ZEROED over memory whose magic bytes happen to be zero succeeds and leaves
prior garbage INSIDE `private_impl` (the check is a plausibility test, as the C comment says). -/
theorem already_zeroed_trusts_caller :
    ∃ (o : Obj) (m1 m2 : Mem) (r1 r2 : Mem), o.wf = true ∧
      initObj o 0 ⟨true, false⟩ m1 = .ok r1 ∧ initObj o 0 ⟨true, false⟩ m2 = .ok r2 ∧ r1 8 ≠ r2 8 := by
  refine ⟨.mk 16 16 [] [] .nil, fun _ => .byte 0, fun i => if i = 8 then .byte 0xFF else .byte 0, _, _, by decide, rfl, rfl, ?_⟩
  decide

/-- non-vacuity of the well-formedness hypothesis: a layout shaped like a generated struct
(magic+vtable+choosy in the first part, a sub-object in the second) is well-formed, and
initialising it over two different garbage memories gives the same first parts. -/
example :
    let sub := Obj.mk 24 16 [⟨8, 3⟩] [] .nil
    let o := Obj.mk 96 40 [⟨32, 0⟩] [⟨8, 1⟩, ⟨16, 2⟩] (.cons 48 sub .nil)
    o.wf = true ∧ firstParts o 0 50 = true ∧ firstParts o 0 70 = false := by decide

end WuffsVerif.Props.C09
