/-
C03 — functional correctness of the history copy (on top of its memory safety, `Props/C03.lean`):
`limited_copy_u32_from_history_fast` computes exactly the LZ77 "copy `length` bytes from `distance`
back" — including the overlapping case `distance < length`, where bytes written by this very call
are read again — and touches nothing outside `[iop, iop + length)`.
-/
import WuffsVerif.Model.IOHelpers
import WuffsVerif.Proof.IOHelpersSafe

namespace WuffsVerif.Props.C03

open WuffsVerif.IOHelpers

/-- The byte at C pointer `i`. -/
def byteAt (m : Mem) (i : Int) : UInt8 := m.buf.getD i.toNat 0

theorem byteAt_wr (m : Mem) (p i : Int) (v : UInt8) (hp0 : (m.lo : Int) ≤ p) (hp1 : p < (m.hi : Int))
    (hsz : m.hi ≤ m.buf.size) (hi : 0 ≤ i) :
    byteAt (m.wr p v) i = if i = p then v else byteAt m i := by
  have hw : m.inWin p = true := (inWin_iff m p).2 ⟨hp0, hp1⟩
  have hp : 0 ≤ p := by omega
  simp only [Mem.wr, hw, ↓reduceIte, byteAt]
  have hps : p.toNat < m.buf.size := by omega
  by_cases h : i = p
  · subst h
    simp [Array.getD, Array.setIfInBounds, hps]
  · have hne : p.toNat ≠ i.toNat := by omega
    simp only [h, ↓reduceIte]
    simp [Array.getD, Array.setIfInBounds, hps, Array.getElem_set, hne]

theorem byteAt_copy1 (m : Mem) (p q i : Int) (hq0 : (m.lo : Int) ≤ q) (hq1 : q < (m.hi : Int))
    (hp0 : (m.lo : Int) ≤ p) (hp1 : p < (m.hi : Int)) (hsz : m.hi ≤ m.buf.size) (hi : 0 ≤ i) :
    byteAt (copy1 m p q) i = if i = p then byteAt m q else byteAt m i := by
  show byteAt ((m.rd q).1.wr p (m.rd q).2) i = _
  have hw : m.inWin q = true := (inWin_iff m q).2 ⟨hq0, hq1⟩
  have hr1 : (m.rd q).1 = m := rd_in m q hq0 hq1
  have hr2 : (m.rd q).2 = byteAt m q := by simp [Mem.rd, hw, byteAt]
  rw [hr1, hr2]
  exact byteAt_wr m p i _ hp0 hp1 hsz hi

/-- What the byte-wise forward copy computes. -/
theorem copyLoop1_spec : ∀ (n : Nat) (m : Mem) (p q : Int),
    (m.lo : Int) ≤ q → q < p → p + (n : Int) ≤ (m.hi : Int) → m.hi ≤ m.buf.size →
    (∀ i : Int, 0 ≤ i → (i < p ∨ p + (n : Int) ≤ i) → byteAt (copyLoop1 m p q n).1 i = byteAt m i) ∧
    (∀ k : Nat, k < n → byteAt (copyLoop1 m p q n).1 (p + k) = byteAt (copyLoop1 m p q n).1 (q + k))
  | 0, m, p, q, _, _, _, _ => by
    refine ⟨fun i _ _ => rfl, fun k hk => absurd hk (Nat.not_lt_zero k)⟩
  | n + 1, m, p, q, h1, h2, h3, h4 => by
    have hs : Same m (copy1 m p q) := copy1_in m p q h1 (by omega) (by omega) (by omega)
    have hq0 : (0 : Int) ≤ q := by omega
    have ih := copyLoop1_spec n (copy1 m p q) (p + 1) (q + 1)
      (by rw [hs.1]; omega) (by omega) (by rw [hs.2.1]; omega) (by rw [hs.2.1, hs.2.2.1]; exact h4)
    have c1 : ∀ i : Int, 0 ≤ i → byteAt (copy1 m p q) i = if i = p then byteAt m q else byteAt m i :=
      fun i hi => byteAt_copy1 m p q i h1 (by omega) (by omega) (by omega) h4 hi
    simp only [copyLoop1]
    refine ⟨?_, ?_⟩
    · intro i hi0 hi
      rw [ih.1 i hi0 (by omega), c1 i hi0]
      have : i ≠ p := by omega
      simp [this]
    · intro k hk
      cases k with
      | zero =>
        simp only [Int.natCast_zero, Int.add_zero]
        rw [ih.1 p (by omega) (by omega), ih.1 q hq0 (by omega), c1 p (by omega), c1 q hq0]
        have : q ≠ p := by omega
        simp [this]
      | succ k =>
        have := ih.2 k (by omega)
        have e1 : p + ((k + 1 : Nat) : Int) = p + 1 + (k : Int) := by omega
        have e2 : q + ((k + 1 : Nat) : Int) = q + 1 + (k : Int) := by omega
        rw [e1, e2]
        exact this

/-- **LZ77 semantics of `limited_copy_u32_from_history_fast`.** Under the documented pre-condition,
in the resulting buffer every copied byte equals the byte `distance` before it
(`out[iop+k] = out[iop+k-distance]` for `k < length`, which for `distance < length` refers to bytes
produced by this call), and every byte outside `[iop, iop+length)` is unchanged. -/
theorem hist_fast_spec (m : Mem) (iop : Int) (length distance : Nat)
    (hwf : m.WF) (hpre : PreFast m iop length distance) :
    let r := histCopyFast m iop length distance
    (∀ k : Nat, k < length → byteAt r.mem (iop + k) = byteAt r.mem (iop + k - distance)) ∧
    (∀ i : Int, 0 ≤ i → (i < iop ∨ iop + (length : Int) ≤ i) → byteAt r.mem i = byteAt m i) := by
  obtain ⟨_, hsz, _⟩ := hwf
  obtain ⟨h1, h2, h3, h4⟩ := hpre
  simp only [histCopyFast, copyLoop3_eq]
  have sp := copyLoop1_spec length m iop (iop - (distance : Int)) (by omega) (by omega) (by omega) hsz
  refine ⟨fun k hk => ?_, sp.1⟩
  have := sp.2 k hk
  have e : iop - (distance : Int) + (k : Int) = iop + (k : Int) - (distance : Int) := by omega
  rw [e] at this
  exact this

end WuffsVerif.Props.C03
