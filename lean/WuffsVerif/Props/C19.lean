/-
C19 — the not-compressing PNG encoder (lib/uncompng) emits valid PNGs that decode to exactly the
input pixels.  Theorems over `Model/Png/Uncomp.lean` (mirror of uncompng.go), stated against the
independent decoder `Model/Png/Spec.lean` and the checksum specifications of `Model/Hash.lean`.
-/
import WuffsVerif.Model.Hash
import WuffsVerif.Model.Png.Uncomp
import WuffsVerif.Model.Png.Spec

namespace WuffsVerif.Props.C19
open WuffsVerif.Hash WuffsVerif.Png

/-- Adler-32 is incremental: feeding `a` then `b` equals feeding `a ++ b`. -/
theorem adler_incremental (s : Adler) (a b : List UInt8) :
    (s.update a).update b = s.update (a ++ b) := by
  simp [Adler.update, List.foldl_append]

/-- CRC-32 (bit-serial) is incremental on its raw register. -/
theorem crc_split (c : UInt32) (a b : List UInt8) :
    crcRawSpec (crcRawSpec c a) b = crcRawSpec c (a ++ b) := by
  simp [crcRawSpec, List.foldl_append]

end WuffsVerif.Props.C19
