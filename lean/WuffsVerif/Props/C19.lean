/-
C19 — the not-compressing PNG encoder (lib/uncompng) emits valid PNGs that decode to exactly the
input pixels, however rows fall across its fixed 64 KiB buffer, and one Encoder can be reused.

Theorems over `Model/Png/Uncomp.lean` (mirror of uncompng.go, tied to the Go code by differential
execution in harness/cmd/c19), stated against the independent reference decoder
`Model/Png/Spec.lean` and the checksum specifications of `Model/Hash.lean`.
Proofs live in `Proof/Hash*.lean` and `Proof/Png*.lean`; this file states the property theorems.
No bound on image size other than the encoder's own 0xFFFFFF limit; all six pixel formats.
-/
import WuffsVerif.Model.Hash
import WuffsVerif.Model.Png.Uncomp
import WuffsVerif.Model.Png.Spec
import WuffsVerif.Proof.HashLoops
import WuffsVerif.Proof.PngEncode
import WuffsVerif.Proof.PngSafe
import WuffsVerif.Proof.PngPixels
import WuffsVerif.Proof.PngGen
import WuffsVerif.Proof.PngSize

namespace WuffsVerif.Props.C19
open WuffsVerif.Hash WuffsVerif.Png WuffsVerif.Png.Uncomp WuffsVerif.Gen.C19

/-! ## Checksums -/

/-- Adler-32 is incremental: feeding `a` then `b` equals feeding `a ++ b`. -/
theorem adler_incremental (s : Adler) (a b : List UInt8) :
    (s.update a).update b = s.update (a ++ b) := by
  simp [Adler.update, List.foldl_append]

/-- No overflow within the chunk bound (proved, not assumed): started below 65536, the two
unreduced sums over at most 5552 bytes stay below 2^32. -/
theorem adler_chunk_no_overflow (a b : Nat) (l : List UInt8) (ha : a ≤ 65535) (hb : b ≤ 65535)
    (hl : l.length ≤ 5552) : (rawFold (a, b) l).1 < 2 ^ 32 ∧ (rawFold (a, b) l).2 < 2 ^ 32 :=
  rawFold_lt a b l ha hb hl

/-- The chunked `uint32` loop of `updateAdler32` equals the mathematical checksum state of the bytes
`buf[ei:ej]`, for every buffer and range, started from a reduced state. -/
theorem adler_chunked_eq_spec (buf : Array UInt8) (ei ej : Nat) (a b : UInt32)
    (ha : a.toNat < 65521) (hb : b.toNat < 65521) (hsz : ej ≤ buf.size) :
    (adlerOuter buf ei ej a b).1.toNat = (Adler.update ⟨a.toNat, b.toNat⟩ (slice buf ei ej)).a ∧
    (adlerOuter buf ei ej a b).2.toNat = (Adler.update ⟨a.toNat, b.toNat⟩ (slice buf ei ej)).b := by
  have h := adlerOuter_spec buf ei ej a b ha hb hsz
  exact ⟨h.1, h.2.1⟩

/-- non-vacuity: the hypotheses hold for the initial state (a, b) = (1, 0) on a 3-byte buffer -/
example : (adlerOuter #[1, 2, 3] 0 3 1 0).1.toNat = (Adler.update ⟨1, 0⟩ (slice #[1, 2, 3] 0 3)).a :=
  (adler_chunked_eq_spec #[1, 2, 3] 0 3 1 0 (by decide) (by decide) (by decide)).1

/-- The 256 table entries of uncompng.go (regenerated from the source on every run) are exactly
those of the bit-serial CRC-32/IEEE definition. -/
theorem crc_table_eq_spec : crc32IEEETable = crcTableSpec := Uncomp.crc_table_eq_spec

/-- One table-driven byte step equals eight bit-serial steps, for every register value and byte. -/
theorem crc_bytewise_eq_spec (h : UInt32) (v : UInt8) :
    crcTableStep crc32IEEETable h v = crcByteSpec h v := by
  rw [crc_table_eq_spec]; exact crcTableStep_spec h v

/-- CRC-32 is incremental on its raw register. -/
theorem crc_split (c : UInt32) (a b : List UInt8) :
    crcRawSpec (crcRawSpec c a) b = crcRawSpec c (a ++ b) := by
  simp [crcRawSpec, List.foldl_append]

/-- `crc32IEEE(e.buf[s:t])` of the model is the bit-serial CRC-32 of those bytes. -/
theorem crc32IEEE_eq_spec (buf : Array UInt8) (s t : Nat) (hst : s ≤ t) (ht : t ≤ buf.size) :
    crc32IEEE buf s t = crc32Spec (slice buf s t) := crc32IEEE_spec buf s t hst ht

/-! ## In-bounds -/

/-- A fresh `Encoder{}` is usable. -/
theorem new_usable : Usable Enc.new := ⟨by simp [Enc.new], rfl⟩

/-- `buf_inbounds`: on valid arguments, for EVERY writer (failing at any call or never) and every
prior buffer content, no store `e.buf[i] = v` and no slice bound leaves the 65536-byte buffer
(the sticky `oob` flag — Go's index-out-of-range panic — stays clear) and the buffer keeps its size. -/
theorem buf_inbounds (e : Enc) (w : Writer) (pix : Array UInt8) (plen width height stride : Nat)
    (depth colorType : UInt8) (he : Usable e) (hw : w.writes.size = 0) (hlen : pix.size < 2 ^ 63)
    (hple : plen ≤ pix.size)
    (hw2 : width ≤ 0xFFFFFF) (hh2 : height ≤ 0xFFFFFF)
    (hd : depth = 8 ∨ depth = 16) (hc : colorType = 1 ∨ colorType = 2 ∨ colorType = 3)
    (hpix : ∀ y, y < height → y * stride + (loopParams depth colorType).2 * width ≤ plen) :
    (encode e w pix plen width height stride depth colorType).e.oob = false ∧
    (encode e w pix plen width height stride depth colorType).e.buf.size = 65536 := by
  have hw0 : WOk w.failAt w true := by
    refine ⟨rfl, ?_⟩
    cases w.failAt <;> simp [hw]
  have h := (encode_safe e w pix plen width height stride depth colorType he hw0 hlen hple hw2 hh2 hd hc hpix).1
  exact ⟨h.2, h.1⟩

/-- `ej ≤ ejMax` at every pixel boundary: whatever the pixel loop does (including flushes), it ends
with `ej ≤ ejMax`, the encoder usable and the writer bookkeeping intact. -/
theorem ej_le_ejMax (f : Option Nat) (pix : Array UInt8) (n k : Nat) (hn : n ≤ 64) (cnt off : Nat) (s : LoopSt)
    (h : Safe f s) (hok : s.ok = true) : (pixLoop pix n k cnt off s).ej ≤ ejMax :=
  (pixLoop_safe pix n k hn cnt off s h hok).ej

/-- The Adler bytes are copied out intact: the four stores at `ej..ej+3` of the final flush do not
disturb the four reads of `buf[0xFFFC..]` because `ej + 4 ≤ 0xFFFC` (which `ej ≤ ejMax` gives). -/
theorem adler_copied_intact (e : Enc) (ej : Nat) (s : Adler) (hsz : e.buf.size = 65536)
    (hA : AdlerAt e.buf s) (hej : ej ≤ ejMax) :
    appendAdler e ej true = (e.blit ej (adlerBytes s), ej + 4) :=
  appendAdler_true e ej s hsz hA (by simp only [ejMax] at hej; omega)

/-! ## The property -/

/-- all bytes handed to the writer, in order -/
abbrev concatWrites (w : Writer) : List UInt8 := out w

/-- `png_roundtrip` (THE property, over the model, all inputs): for every usable encoder state
(any buffer content), every `0 < width, height ≤ 0xFFFFFF`, every stride, depth 8|16, colour type
gray|RGBX|NRGBA and every pixel buffer long enough, `Encode` to a non-failing writer returns `ok`
and the reference decoder accepts the concatenated `Write` calls (signature, chunk lengths and
bit-serial CRCs, zlib header, stored-block framing, Adler-32, filter-0 scanlines) and returns the
same width, height, depth, the PNG colour type (0 | 2 | 6) and exactly the input pixel bytes — the
first `n` of every `k` source bytes, i.e. RGBX without its X byte — however rows and pixels
straddle the flushes of the 64 KiB buffer. -/
theorem png_roundtrip (e : Enc) (pix : Array UInt8) (plen width height stride : Nat) (depth colorType : UInt8)
    (he : Usable e) (hlen : pix.size < 2 ^ 63) (hple : plen ≤ pix.size)
    (hw : 0 < width) (hw2 : width ≤ 0xFFFFFF) (hh : 0 < height) (hh2 : height ≤ 0xFFFFFF)
    (hd : depth = 8 ∨ depth = 16) (hc : colorType = 1 ∨ colorType = 2 ∨ colorType = 3)
    (hpix : (height - 1) * stride + (loopParams depth colorType).2 * width ≤ plen) :
    (encode e (Writer.new none) pix plen width height stride depth colorType).status = .ok ∧
    Spec.decode (concatWrites (encode e (Writer.new none) pix plen width height stride depth colorType).w)
      = some ⟨width, height, depth.toNat, (pngFileFormatEncoding colorType).toNat,
          imageBytes pix (loopParams depth colorType).1 (loopParams depth colorType).2 width stride height 0⟩ := by
  have h := encode_decodes e pix plen width height stride depth colorType he.1 he.2 hlen hple hw hw2 hh hh2 hd hc hpix
  exact ⟨h.1, h.2.2.2⟩

/-- What the decoded `pixels` of `png_roundtrip` are, pointwise: `height` rows of `width * n` bytes,
and byte `i` of pixel `x` of row `y` is the input byte `pix[y*stride + k*x + i]` (for RGBX, `n < k`:
the X byte(s) of every pixel are dropped). -/
theorem decoded_pixels_pointwise (pix : Array UInt8) (n k width stride height : Nat) (hnk : n ≤ k)
    (hpix : ∀ y, y < height → y * stride + k * width ≤ pix.size) :
    (imageBytes pix n k width stride height 0).length = height * (width * n) ∧
    ∀ y x i, y < height → x < width → i < n →
      (imageBytes pix n k width stride height 0)[(y * width + x) * n + i]?
        = some (rd pix (y * stride + k * x + i)) := by
  refine ⟨length_imageBytes pix n k width stride hnk height 0 (fun y' _ h => hpix y' (by omega)), ?_⟩
  intro y x i hy hx hi
  have := imageBytes_get pix n k width stride hnk height 0 (fun y' _ h => hpix y' (by omega)) y x i hy hx hi
  simpa using this

/-- non-vacuity: the hypotheses hold for a fresh encoder and a 2×2 gray image, and the theorem then
yields a successful decode of that image. -/
example : ∃ im, Spec.decode (concatWrites (encode Enc.new (Writer.new none) #[1, 2, 3, 4] 4 2 2 2 8 1).w) = some im ∧
    im.width = 2 ∧ im.height = 2 := by
  have h := png_roundtrip Enc.new #[1, 2, 3, 4] 4 2 2 2 8 1 new_usable (by decide) (by decide) (by decide) (by decide) (by decide)
    (by decide) (Or.inl rfl) (Or.inl rfl) (by decide)
  exact ⟨_, h.2, rfl, rfl⟩

/-! ## Reuse -/

/-- encoder states reachable from `Encoder{}` by any history of `Encode` calls: valid images to
arbitrary writers (failing or not), and calls rejected by the argument validation. -/
inductive Reached : Enc → Prop
  | fresh : Reached Enc.new
  | encoded {e : Enc} (h : Reached e) (w : Writer) (hw : w.writes.size = 0) (pix : Array UInt8)
      (hlen : pix.size < 2 ^ 63) (plen : Nat) (hple : plen ≤ pix.size) (width height stride : Nat)
      (depth colorType : UInt8)
      (hw2 : width ≤ 0xFFFFFF) (hh2 : height ≤ 0xFFFFFF)
      (hd : depth = 8 ∨ depth = 16) (hc : colorType = 1 ∨ colorType = 2 ∨ colorType = 3)
      (hpix : ∀ y, y < height → y * stride + (loopParams depth colorType).2 * width ≤ plen) :
      Reached (encode e w pix plen width height stride depth colorType).e
  | rejected {e : Enc} (h : Reached e) (w : Writer) (pix : Array UInt8) (plen : Nat) (width height stride : Int)
      (depth colorType : UInt8)
      (hbad : width < 0 ∨ height < 0 ∨ (depth ≠ 8 ∧ depth ≠ 16) ∨
        ¬ (colorType = 1 ∨ colorType = 2 ∨ colorType = 3) ∨ width > 0xFFFFFF ∨ height > 0xFFFFFF) :
      Reached (encode e w pix plen width height stride depth colorType).e
  /-- ANY call at all — e.g. one whose pixel buffer is too short, so that Go panics half-way with a
  slice-bounds error — after the caller has recovered from the panic (the sticky flag is the panic). -/
  | recovered {e : Enc} (h : Reached e) (w : Writer) (pix : Array UInt8) (plen : Nat) (width height stride : Int)
      (depth colorType : UInt8) :
      Reached { (encode e w pix plen width height stride depth colorType).e with oob := false }

/-- frame lemma: every reachable state is usable (`init` rewrites every byte that is read later, so
nothing else about the previous images matters — `png_roundtrip` needs only `Usable`). -/
theorem reached_usable {e : Enc} (h : Reached e) : Usable e := by
  induction h with
  | fresh => exact new_usable
  | encoded _ w hw pix hlen plen hple width height stride depth colorType hw2 hh2 hd hc hpix ih =>
    have hw0 : WOk w.failAt w true := by
      refine ⟨rfl, ?_⟩
      cases w.failAt <;> simp [hw]
    exact (encode_safe _ w pix plen width height stride depth colorType ih hw0 hlen hple hw2 hh2 hd hc hpix).1
  | rejected _ w pix plen width height stride depth colorType hbad ih =>
    rw [(encode_rejects _ w pix plen width height stride depth colorType hbad).2.1]; exact ih
  | recovered _ w pix plen width height stride depth colorType ih =>
    exact ⟨by rw [encode_size]; exact ih.1, rfl⟩

/-- `encoder_reusable`: the n-th `Encode` on one Encoder, after any history of earlier images,
writer failures and rejected calls, has the same guarantee as the first. -/
theorem encoder_reusable {e : Enc} (hr : Reached e) (pix : Array UInt8) (plen width height stride : Nat)
    (depth colorType : UInt8) (hlen : pix.size < 2 ^ 63) (hple : plen ≤ pix.size)
    (hw : 0 < width) (hw2 : width ≤ 0xFFFFFF) (hh : 0 < height) (hh2 : height ≤ 0xFFFFFF)
    (hd : depth = 8 ∨ depth = 16) (hc : colorType = 1 ∨ colorType = 2 ∨ colorType = 3)
    (hpix : (height - 1) * stride + (loopParams depth colorType).2 * width ≤ plen) :
    (encode e (Writer.new none) pix plen width height stride depth colorType).status = .ok ∧
    Spec.decode (concatWrites (encode e (Writer.new none) pix plen width height stride depth colorType).w)
      = some ⟨width, height, depth.toNat, (pngFileFormatEncoding colorType).toNat,
          imageBytes pix (loopParams depth colorType).1 (loopParams depth colorType).2 width stride height 0⟩ :=
  png_roundtrip e pix plen width height stride depth colorType (reached_usable hr) hlen hple hw hw2 hh hh2 hd hc hpix

/-! ## Go `int` arithmetic: `y*stride` never wraps where it matters

The model computes the row offset `y*stride` with Go's 64-bit wrap-around (`wrapInt64`), so it is exact
for every `int` stride; the theorems above need only `len(pix) < 2^63`, which holds of every Go slice.
The two facts below say when the wrap-around is the identity. -/

/-- inside the property (`(height-1)*stride + k*width ≤ len(pix)`), every row offset is the
mathematical product and the row lies inside `pix`. -/
theorem row_offset_no_overflow (pix : Array UInt8) (plen width height stride k : Nat) (hlen : pix.size < 2 ^ 63)
    (hple : plen ≤ pix.size)
    (hpix : (height - 1) * stride + k * width ≤ plen) (y : Nat) (hy : y < height) :
    wrapInt64 ((y : Int) * (stride : Int)) = ((y * stride : Nat) : Int) ∧ y * stride + k * width ≤ plen := by
  have h1 : y * stride ≤ (height - 1) * stride := Nat.mul_le_mul_right _ (by omega)
  refine ⟨?_, by omega⟩
  rw [← Int.natCast_mul]
  exact wrapInt64_natCast _ (by omega)

/-- outside the property, for ANY call that gets past row 1 without a slice-bounds panic
(`0 ≤ stride ≤ len(pix)`: the offset of row 1 is `stride` itself): no row offset wraps as long as
`len(pix) < 2^39` (512 GiB) — `y < height ≤ 0xFFFFFF < 2^24`.  Beyond that size a wrapped offset can
only select a different in-range row or panic; Go slicing is bounds-checked either way. -/
theorem row_offset_no_wrap_of_accepted (stride : Int) (size y : Nat) (h0 : 0 ≤ stride) (h1 : stride ≤ size)
    (hs : size < 2 ^ 39) (hy : y < 2 ^ 24) : wrapInt64 ((y : Int) * stride) = (y : Int) * stride := by
  obtain ⟨n, rfl⟩ := Int.eq_ofNat_of_zero_le h0
  have hn : n ≤ size := by omega
  have hb : y * n ≤ 2 ^ 24 * 2 ^ 39 := Nat.mul_le_mul (by omega) (by omega)
  have hlt : y * n < 2 ^ 24 * 2 ^ 39 := by
    rcases Nat.eq_zero_or_pos n with rfl | hpos
    · simp
    · calc y * n < 2 ^ 24 * n := Nat.mul_lt_mul_of_pos_right hy hpos
        _ ≤ 2 ^ 24 * 2 ^ 39 := Nat.mul_le_mul_left _ (by omega)
  rw [← Int.natCast_mul]
  exact wrapInt64_natCast _ (by omega)

/-! ## The model's constants are the source's (regenerated on every run)

`Gen/C19_Tables.lean` is extracted from lib/uncompng/uncompng.go by go/parser before every build;
these theorems fail to build when the source's constants stop being the model's. -/

/-- `init` of the model executes exactly the source's stores (index, value, order) -/
theorem init_matches_source (e : Enc) (width height : Nat) (depth colorType : UInt8) :
    init e width height depth colorType = runInit width height depth colorType initProg e 0 :=
  init_eq_source e width height depth colorType

/-- the six pixel loops of the source have the (n, k) of `loopParams`, consistently in all five places -/
theorem loops_match_source :
    loopTable.map (·.1) = [0x09, 0x0A, 0x0B, 0x11, 0x12, 0x13] ∧
    ∀ d ∈ [(8 : UInt8), 16], ∀ c ∈ [(1 : UInt8), 2, 3],
      loopTable.lookup (d ||| c).toNat =
        some ((loopParams d c).2, (loopParams d c).1, (loopParams d c).1, (loopParams d c).1, (loopParams d c).2) :=
  loopTable_eq_source

/-- buffer size, colour-type encoding, IEND chunk, layout offsets, Adler chunking, size limit -/
theorem constants_match_source :
    Enc.new.buf.size = bufSize ∧
    (∀ c : UInt8, (pngFileFormatEncoding c).toNat = ((ctEncoding.lookup c.toNat).getD ctEncodingDefault)) ∧
    iendChunk.map (·.toNat) = iendChunkSrc ∧
    (eiFirst = 0x30 ∧ eiLater = 0x0D ∧ ejMax = 0xFFF8 ∧ bufSize = 0x10000) ∧
    (adlerChunk = 5552 ∧ adlerMod = 65521) ∧ maxDim = 0xFFFFFF ∧ rowReserve = 1 :=
  ⟨bufSize_eq, encoding_eq_source, iendChunk_eq_source, layout_consts_eq,
    ⟨adler_consts_eq.1, adler_consts_eq.2.1⟩, maxDim_eq, rowReserve_eq⟩

/-- every declaration of uncompng.go has the (comment-free) text the model was reviewed against -/
theorem model_reviewed_against_source : srcDigests.length = 14 ∧
    srcDigests.map (·.1) = ["const ColorTypeGray", "const Depth8", "const eiFirst", "func Encode", "func btou8",
      "func crc32IEEE", "func flush", "func init", "func pngFileFormatEncoding", "func updateAdler32",
      "type ColorType", "type Depth", "type Encoder", "var crc32IEEETable"] := by
  rw [source_text_reviewed]; decide

/-! ## Writer errors and argument validation -/

/-- `writer_error_propagates`: with a writer whose call number `k` fails, `Encode` on valid
arguments either never reaches that call and returns `ok`, or returns the write error with the
failing call being the last `Write` made (exactly `k + 1` calls). -/
theorem writer_error_propagates (e : Enc) (k : Nat) (pix : Array UInt8) (plen width height stride : Nat)
    (depth colorType : UInt8) (he : Usable e) (hlen : pix.size < 2 ^ 63) (hple : plen ≤ pix.size)
    (hw2 : width ≤ 0xFFFFFF) (hh2 : height ≤ 0xFFFFFF)
    (hd : depth = 8 ∨ depth = 16) (hc : colorType = 1 ∨ colorType = 2 ∨ colorType = 3)
    (hpix : ∀ y, y < height → y * stride + (loopParams depth colorType).2 * width ≤ plen) :
    ((encode e (Writer.new (some k)) pix plen width height stride depth colorType).status = .ok ∧
      (encode e (Writer.new (some k)) pix plen width height stride depth colorType).w.writes.size ≤ k) ∨
    ((encode e (Writer.new (some k)) pix plen width height stride depth colorType).status = .writeError ∧
      (encode e (Writer.new (some k)) pix plen width height stride depth colorType).w.writes.size = k + 1) := by
  have hw0 : WOk (some k) (Writer.new (some k)) true := by simp [WOk, Writer.new]
  rcases (encode_safe e (Writer.new (some k)) pix plen width height stride depth colorType he hw0 hlen hple hw2 hh2 hd hc hpix).2
    with ⟨h1, h2⟩ | ⟨h1, h2⟩
  · exact Or.inl ⟨h1, h2.2.1 rfl⟩
  · exact Or.inr ⟨h1, h2.2.2 rfl⟩

/-- Rejected arguments write nothing and leave the encoder as it was. -/
theorem invalid_arguments_write_nothing (e : Enc) (w : Writer) (pix : Array UInt8) (plen : Nat) (width height stride : Int)
    (depth colorType : UInt8)
    (hbad : width < 0 ∨ height < 0 ∨ (depth ≠ 8 ∧ depth ≠ 16) ∨
      ¬ (colorType = 1 ∨ colorType = 2 ∨ colorType = 3) ∨ width > 0xFFFFFF ∨ height > 0xFFFFFF) :
    ((encode e w pix plen width height stride depth colorType).status = .invalidArgument ∨
     (encode e w pix plen width height stride depth colorType).status = .unsupportedSize) ∧
    (encode e w pix plen width height stride depth colorType).e = e ∧
    (encode e w pix plen width height stride depth colorType).w = w :=
  encode_rejects e w pix plen width height stride depth colorType hbad

end WuffsVerif.Props.C19
