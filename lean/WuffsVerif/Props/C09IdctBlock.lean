/-
C09 (part: the documented JPEG IDCT exception, block level, AVX2 side).

`Props/C09Idct.lean` treats the final conversion of ONE exact sample.  This file lifts the
AVX2 side to whole blocks: over the lane-by-lane emulation `idctAvx2` of
decode_idct_x86_avx2.wuffs (`Model/JpegIdctRange.lean`; tied to the compiled function on every
generated block), for EVERY block whose 16-bit lanes fit (`lanesFit`: every dequantised
coefficient within ±8191, every exact first-pass intermediate within ±16383 — a decidable
condition the harness evaluates and counts on every block it generates),

    idctAvx2 b q = (idctExact b q).map clampByte,

i.e. the AVX2 code computes exactly libjpeg's "islow" IDCT (the exact reading of
decode_idct_default.wuffs, no wrap anywhere) followed by bias-and-clamp.  Ingredients:
* `linAvx2_exact`: the 1-D pass on i16/i32 lanes (`_mm256_add_epi16`, `_mm256_madd_epi16` with
  the re-associated constant pairs, `_mm256_add/sub_epi32`) equals the portable butterfly `lin`
  over the integers when no lane wraps (29 wrap sites discharged one by one);
* the two "all AC terms are zero" shortcuts (whole block, AVX2; per column / per row,
  portable) compute what the butterfly computes on those inputs.

Not proved (see checks/C09.json `idct_block_level`): the same statement for the portable u32
code (`idctPortable b q = (idctExact b q).map finalWrap`), and `blockInRange → lanesFit`.
-/
import WuffsVerif.Props.C09Idct

namespace WuffsVerif.Props.C09
open WuffsVerif.JpegIdct

theorem wrap16_id (v : Int) (h : -32768 ≤ v ∧ v ≤ 32767) : wrap16 v = v := by
  unfold wrap16; omega
theorem wrap32_id (v : Int) (h : -2147483648 ≤ v ∧ v ≤ 2147483647) : wrap32 v = v := by
  unfold wrap32; omega
theorem sat16_id (v : Int) (h : -32768 ≤ v ∧ v ≤ 32767) : sat16 v = v := by
  unfold sat16
  split
  · omega
  · split
    · omega
    · rfl

/-- `linAvx2_exact`: when every input lane is within ±16383 no 16-bit sum and no 32-bit
accumulator of the AVX2 1-D pass wraps, and the pass computes exactly the butterfly of the
portable code over the integers. -/
theorem linAvx2_exact (d0 d1 d2 d3 d4 d5 d6 d7 : Int)
    (h0 : -16383 ≤ d0 ∧ d0 ≤ 16383) (h1 : -16383 ≤ d1 ∧ d1 ≤ 16383) (h2 : -16383 ≤ d2 ∧ d2 ≤ 16383)
    (h3 : -16383 ≤ d3 ∧ d3 ≤ 16383) (h4 : -16383 ≤ d4 ∧ d4 ≤ 16383) (h5 : -16383 ≤ d5 ∧ d5 ≤ 16383)
    (h6 : -16383 ≤ d6 ∧ d6 ≤ 16383) (h7 : -16383 ≤ d7 ∧ d7 ≤ 16383) :
    linAvx2 d0 d1 d2 d3 d4 d5 d6 d7 = linInt d0 d1 d2 d3 d4 d5 d6 d7 := by
  have w1 : wrap32 (d2 * 10703 + d6 * 4433) = d2 * 10703 + d6 * 4433 := wrap32_id _ (by omega)
  have w2 : wrap32 (d6 * (-10704) + d2 * 4433) = d6 * (-10704) + d2 * 4433 := wrap32_id _ (by omega)
  have w3 : wrap16 (d4 + d0) = d4 + d0 := wrap16_id _ (by omega)
  have w4 : wrap16 (-d4) = -d4 := wrap16_id _ (by omega)
  have w5 : wrap16 (d0 + (-d4)) = d0 + (-d4) := wrap16_id _ (by omega)
  have w6 : wrap32 (((d4 + d0) * 8192) + (d2 * 10703 + d6 * 4433)) = ((d4 + d0) * 8192) + (d2 * 10703 + d6 * 4433) := wrap32_id _ (by omega)
  have w7 : wrap32 (((d0 + (-d4)) * 8192) + (d6 * (-10704) + d2 * 4433)) = ((d0 + (-d4)) * 8192) + (d6 * (-10704) + d2 * 4433) := wrap32_id _ (by omega)
  have w8 : wrap32 (((d0 + (-d4)) * 8192) - (d6 * (-10704) + d2 * 4433)) = ((d0 + (-d4)) * 8192) - (d6 * (-10704) + d2 * 4433) := wrap32_id _ (by omega)
  have w9 : wrap32 (((d4 + d0) * 8192) - (d2 * 10703 + d6 * 4433)) = ((d4 + d0) * 8192) - (d2 * 10703 + d6 * 4433) := wrap32_id _ (by omega)
  have w10 : wrap16 (d7 + d3) = d7 + d3 := wrap16_id _ (by omega)
  have w11 : wrap16 (d5 + d1) = d5 + d1 := wrap16_id _ (by omega)
  have w12 : wrap32 ((d7 + d3) * (-6436) + (d5 + d1) * 9633) = (d7 + d3) * (-6436) + (d5 + d1) * 9633 := wrap32_id _ (by omega)
  have w13 : wrap32 ((d5 + d1) * 6437 + (d7 + d3) * 9633) = (d5 + d1) * 6437 + (d7 + d3) * 9633 := wrap32_id _ (by omega)
  have w14 : wrap32 (d7 * (-4927) + d1 * (-7373)) = d7 * (-4927) + d1 * (-7373) := wrap32_id _ (by omega)
  have w15 : wrap32 ((d7 * (-4927) + d1 * (-7373)) + ((d7 + d3) * (-6436) + (d5 + d1) * 9633)) = (d7 * (-4927) + d1 * (-7373)) + ((d7 + d3) * (-6436) + (d5 + d1) * 9633) := wrap32_id _ (by omega)
  have w16 : wrap32 (d5 * (-4176) + d3 * (-20995)) = d5 * (-4176) + d3 * (-20995) := wrap32_id _ (by omega)
  have w17 : wrap32 ((d5 * (-4176) + d3 * (-20995)) + ((d5 + d1) * 6437 + (d7 + d3) * 9633)) = (d5 * (-4176) + d3 * (-20995)) + ((d5 + d1) * 6437 + (d7 + d3) * 9633) := wrap32_id _ (by omega)
  have w18 : wrap32 (d7 * (-7373) + d1 * 4926) = d7 * (-7373) + d1 * 4926 := wrap32_id _ (by omega)
  have w19 : wrap32 (((d5 + d1) * 6437 + (d7 + d3) * 9633) + (d7 * (-7373) + d1 * 4926)) = ((d5 + d1) * 6437 + (d7 + d3) * 9633) + (d7 * (-7373) + d1 * 4926) := wrap32_id _ (by omega)
  have w20 : wrap32 (d5 * (-20995) + d3 * 4177) = d5 * (-20995) + d3 * 4177 := wrap32_id _ (by omega)
  have w21 : wrap32 (((d7 + d3) * (-6436) + (d5 + d1) * 9633) + (d5 * (-20995) + d3 * 4177)) = ((d7 + d3) * (-6436) + (d5 + d1) * 9633) + (d5 * (-20995) + d3 * 4177) := wrap32_id _ (by omega)
  have w22 : wrap32 ((((d4 + d0) * 8192) + (d2 * 10703 + d6 * 4433)) + (((d5 + d1) * 6437 + (d7 + d3) * 9633) + (d7 * (-7373) + d1 * 4926))) = (((d4 + d0) * 8192) + (d2 * 10703 + d6 * 4433)) + (((d5 + d1) * 6437 + (d7 + d3) * 9633) + (d7 * (-7373) + d1 * 4926)) := wrap32_id _ (by omega)
  have w23 : wrap32 ((((d0 + (-d4)) * 8192) + (d6 * (-10704) + d2 * 4433)) + (((d7 + d3) * (-6436) + (d5 + d1) * 9633) + (d5 * (-20995) + d3 * 4177))) = (((d0 + (-d4)) * 8192) + (d6 * (-10704) + d2 * 4433)) + (((d7 + d3) * (-6436) + (d5 + d1) * 9633) + (d5 * (-20995) + d3 * 4177)) := wrap32_id _ (by omega)
  have w24 : wrap32 ((((d0 + (-d4)) * 8192) - (d6 * (-10704) + d2 * 4433)) + ((d5 * (-4176) + d3 * (-20995)) + ((d5 + d1) * 6437 + (d7 + d3) * 9633))) = (((d0 + (-d4)) * 8192) - (d6 * (-10704) + d2 * 4433)) + ((d5 * (-4176) + d3 * (-20995)) + ((d5 + d1) * 6437 + (d7 + d3) * 9633)) := wrap32_id _ (by omega)
  have w25 : wrap32 ((((d4 + d0) * 8192) - (d2 * 10703 + d6 * 4433)) + ((d7 * (-4927) + d1 * (-7373)) + ((d7 + d3) * (-6436) + (d5 + d1) * 9633))) = (((d4 + d0) * 8192) - (d2 * 10703 + d6 * 4433)) + ((d7 * (-4927) + d1 * (-7373)) + ((d7 + d3) * (-6436) + (d5 + d1) * 9633)) := wrap32_id _ (by omega)
  have w26 : wrap32 ((((d4 + d0) * 8192) - (d2 * 10703 + d6 * 4433)) - ((d7 * (-4927) + d1 * (-7373)) + ((d7 + d3) * (-6436) + (d5 + d1) * 9633))) = (((d4 + d0) * 8192) - (d2 * 10703 + d6 * 4433)) - ((d7 * (-4927) + d1 * (-7373)) + ((d7 + d3) * (-6436) + (d5 + d1) * 9633)) := wrap32_id _ (by omega)
  have w27 : wrap32 ((((d0 + (-d4)) * 8192) - (d6 * (-10704) + d2 * 4433)) - ((d5 * (-4176) + d3 * (-20995)) + ((d5 + d1) * 6437 + (d7 + d3) * 9633))) = (((d0 + (-d4)) * 8192) - (d6 * (-10704) + d2 * 4433)) - ((d5 * (-4176) + d3 * (-20995)) + ((d5 + d1) * 6437 + (d7 + d3) * 9633)) := wrap32_id _ (by omega)
  have w28 : wrap32 ((((d0 + (-d4)) * 8192) + (d6 * (-10704) + d2 * 4433)) - (((d7 + d3) * (-6436) + (d5 + d1) * 9633) + (d5 * (-20995) + d3 * 4177))) = (((d0 + (-d4)) * 8192) + (d6 * (-10704) + d2 * 4433)) - (((d7 + d3) * (-6436) + (d5 + d1) * 9633) + (d5 * (-20995) + d3 * 4177)) := wrap32_id _ (by omega)
  have w29 : wrap32 ((((d4 + d0) * 8192) + (d2 * 10703 + d6 * 4433)) - (((d5 + d1) * 6437 + (d7 + d3) * 9633) + (d7 * (-7373) + d1 * 4926))) = (((d4 + d0) * 8192) + (d2 * 10703 + d6 * 4433)) - (((d5 + d1) * 6437 + (d7 + d3) * 9633) + (d7 * (-7373) + d1 * 4926)) := wrap32_id _ (by omega)
  simp only [linAvx2, w1, w2, w3, w4, w5, w6, w7, w8, w9, w10, w11, w12, w13, w14, w15, w16, w17, w18, w19, w20, w21, w22, w23, w24, w25, w26, w27, w28, w29]
  simp only [linInt, lin, id]
  congr 1 <;> omega

/-- every output of the exact butterfly is far inside the i32 range for such inputs -/
theorem linInt_get_bound (d0 d1 d2 d3 d4 d5 d6 d7 : Int)
    (h0 : -16383 ≤ d0 ∧ d0 ≤ 16383) (h1 : -16383 ≤ d1 ∧ d1 ≤ 16383) (h2 : -16383 ≤ d2 ∧ d2 ≤ 16383)
    (h3 : -16383 ≤ d3 ∧ d3 ≤ 16383) (h4 : -16383 ≤ d4 ∧ d4 ≤ 16383) (h5 : -16383 ≤ d5 ∧ d5 ≤ 16383)
    (h6 : -16383 ≤ d6 ∧ d6 ≤ 16383) (h7 : -16383 ≤ d7 ∧ d7 ≤ 16383) (k : Nat) :
    -2000000000 ≤ (linInt d0 d1 d2 d3 d4 d5 d6 d7).get k ∧ (linInt d0 d1 d2 d3 d4 d5 d6 d7).get k ≤ 2000000000 := by
  unfold Oct.get
  split <;> (simp only [linInt, lin, id]; omega)

/-- the butterfly on a DC-only column / row -/
theorem linInt_dc (d : Int) : linInt d 0 0 0 0 0 0 0 = Oct.const (d * 8192) := by
  simp only [linInt, lin, id, Oct.const]
  congr 1 <;> omega

theorem Oct.get_map {α β : Type} (f : α → β) (o : Oct α) (k : Nat) : (o.map f).get k = f (o.get k) := by
  unfold Oct.get Oct.map
  split <;> rfl

theorem Oct.map_congr {α β : Type} (f g : α → β) (o : Oct α) (h : ∀ k, f (o.get k) = g (o.get k)) :
    o.map f = o.map g := by
  have a0 := h 0; have a1 := h 1; have a2 := h 2; have a3 := h 3
  have a4 := h 4; have a5 := h 5; have a6 := h 6; have a7 := h 7
  simp only [Oct.get] at a0 a1 a2 a3 a4 a5 a6 a7
  simp only [Oct.map, a0, a1, a2, a3, a4, a5, a6, a7]

theorem sxInt_zero : sxInt 0 = 0 := by decide

theorem or7_zero (g1 g2 g3 g4 g5 g6 g7 : UInt16)
    (h : ((g1 ||| g2 ||| g3 ||| g4 ||| g5 ||| g6 ||| g7) == 0) = true) :
    g1 = 0 ∧ g2 = 0 ∧ g3 = 0 ∧ g4 = 0 ∧ g5 = 0 ∧ g6 = 0 ∧ g7 = 0 := by
  have h' : (g1 ||| g2 ||| g3 ||| g4 ||| g5 ||| g6 ||| g7) = 0 := by simpa using h
  obtain ⟨h6, e7⟩ := UInt16.or_eq_zero_iff.mp h'
  obtain ⟨h5, e6⟩ := UInt16.or_eq_zero_iff.mp h6
  obtain ⟨h4, e5⟩ := UInt16.or_eq_zero_iff.mp h5
  obtain ⟨h3, e4⟩ := UInt16.or_eq_zero_iff.mp h4
  obtain ⟨h2, e3⟩ := UInt16.or_eq_zero_iff.mp h3
  obtain ⟨e1, e2⟩ := UInt16.or_eq_zero_iff.mp h2
  exact ⟨e1, e2, e3, e4, e5, e6, e7⟩

/-- first pass of column `c` WITHOUT any shortcut: butterfly, rounding shift by 11 -/
def p1Butterfly (b q : Array UInt16) (c : Nat) : Oct Int :=
  (linInt (deqExact b q (8 * 0 + c)) (deqExact b q (8 * 1 + c)) (deqExact b q (8 * 2 + c))
    (deqExact b q (8 * 3 + c)) (deqExact b q (8 * 4 + c)) (deqExact b q (8 * 5 + c))
    (deqExact b q (8 * 6 + c)) (deqExact b q (8 * 7 + c))).map (fun x => (x + 1024) / 2048)

/-- the DC-only first-pass value `d·4` is what butterfly + rounding give on a DC-only column -/
theorem p1_dc_value (d : Int) : (Oct.const (d * 8192)).map (fun x => (x + 1024) / 2048) = Oct.const (d * 4) := by
  simp only [Oct.const, Oct.map]
  congr 1 <;> omega

/-- The per-column shortcut of decode_idct_default.wuffs ("if all AC rows of this column are
zero: intermediate = DC << 2") computes what the butterfly computes. -/
theorem p1colInt_eq_butterfly (b q : Array UInt16) (c : Nat) : p1colInt b q c = p1Butterfly b q c := by
  unfold p1colInt p1Butterfly deqExact
  dsimp only
  split
  · rename_i h
    obtain ⟨e1, e2, e3, e4, e5, e6, e7⟩ := or7_zero _ _ _ _ _ _ _ h
    rw [e1, e2, e3, e4, e5, e6, e7]
    simp only [sxInt_zero, Int.zero_mul, linInt_dc, p1_dc_value]
  · rfl

/-! ### first pass, AVX2 side -/

theorem acRowsZero_get (b : Array UInt16) (h : acRowsZero b = true) (i : Nat) (hi : i < 56) :
    b.getD (8 + i) 0 = 0 := by
  unfold acRowsZero at h
  have := List.all_eq_true.mp h i (List.mem_range.mpr hi)
  simpa using this

theorem deqExact_of_zero (b q : Array UInt16) (idx : Nat) (h : b.getD idx 0 = 0) : deqExact b q idx = 0 := by
  unfold deqExact
  rw [h, sxInt_zero, Int.zero_mul]

/-- the 16-bit dequantisation `_mm256_mullo_epi16` is exact when the product fits -/
theorem deqAvx2_exact (b q : Array UInt16) (idx : Nat)
    (h : -8191 ≤ deqExact b q idx ∧ deqExact b q idx ≤ 8191) : deqAvx2 b q idx = deqExact b q idx := by
  unfold deqAvx2
  unfold deqExact at h ⊢
  exact wrap16_id _ (by omega)

theorem coeffsFit_get (b q : Array UInt16) (h : coeffsFit b q = true) (idx : Nat) (hi : idx < 64) :
    -8191 ≤ deqExact b q idx ∧ deqExact b q idx ≤ 8191 := by
  unfold coeffsFit at h
  have := List.all_eq_true.mp h idx (List.mem_range.mpr hi)
  simpa using this

/-- First pass of the AVX2 code on column `c`: with coefficients that fit and an exact result
that fits an i16 lane (no saturation in `_mm256_packs_epi32`), it computes the exact butterfly —
through the whole-block "all AC rows zero" shortcut or through the general path. -/
theorem p1colAvx2_exact (b q : Array UInt16) (c : Nat) (hc : c < 8) (hfit : coeffsFit b q = true)
    (hi : ∀ k, -32768 ≤ (p1Butterfly b q c).get k ∧ (p1Butterfly b q c).get k ≤ 32767) :
    p1colAvx2 b q c = p1Butterfly b q c := by
  have hd : ∀ r, r < 8 → -8191 ≤ deqExact b q (8 * r + c) ∧ deqExact b q (8 * r + c) ≤ 8191 :=
    fun r hr => coeffsFit_get b q hfit _ (by omega)
  have e0 := deqAvx2_exact b q (8 * 0 + c) (hd 0 (by omega))
  have e1 := deqAvx2_exact b q (8 * 1 + c) (hd 1 (by omega))
  have e2 := deqAvx2_exact b q (8 * 2 + c) (hd 2 (by omega))
  have e3 := deqAvx2_exact b q (8 * 3 + c) (hd 3 (by omega))
  have e4 := deqAvx2_exact b q (8 * 4 + c) (hd 4 (by omega))
  have e5 := deqAvx2_exact b q (8 * 5 + c) (hd 5 (by omega))
  have e6 := deqAvx2_exact b q (8 * 6 + c) (hd 6 (by omega))
  have e7 := deqAvx2_exact b q (8 * 7 + c) (hd 7 (by omega))
  unfold p1colAvx2
  split
  · -- all AC rows of the block are zero: the shortcut
    rename_i haz
    have z : ∀ r, 1 ≤ r → r < 8 → deqExact b q (8 * r + c) = 0 := by
      intro r h1 h8
      apply deqExact_of_zero
      have := acRowsZero_get b haz (8 * (r - 1) + c) (by omega)
      rwa [show 8 + (8 * (r - 1) + c) = 8 * r + c by omega] at this
    have hc0 : deqAvx2 b q c = deqExact b q (8 * 0 + c) := by
      rw [← e0]; congr 1; omega
    rw [hc0]
    unfold p1Butterfly
    rw [z 1 (by omega) (by omega), z 2 (by omega) (by omega), z 3 (by omega) (by omega),
      z 4 (by omega) (by omega), z 5 (by omega) (by omega), z 6 (by omega) (by omega),
      z 7 (by omega) (by omega), linInt_dc, p1_dc_value]
    have := hd 0 (by omega)
    rw [wrap16_id _ (by omega)]
  · -- the general path
    dsimp only
    rw [e0, e1, e2, e3, e4, e5, e6, e7]
    have b0 := hd 0 (by omega); have b1 := hd 1 (by omega); have b2 := hd 2 (by omega)
    have b3 := hd 3 (by omega); have b4 := hd 4 (by omega); have b5 := hd 5 (by omega)
    have b6 := hd 6 (by omega); have b7 := hd 7 (by omega)
    rw [linAvx2_exact _ _ _ _ _ _ _ _ (by omega) (by omega) (by omega) (by omega) (by omega) (by omega)
      (by omega) (by omega)]
    unfold p1Butterfly
    apply Oct.map_congr
    intro k
    have hb := linInt_get_bound _ _ _ _ _ _ _ _ (by omega : -16383 ≤ deqExact b q (8 * 0 + c) ∧ deqExact b q (8 * 0 + c) ≤ 16383)
      (by omega : -16383 ≤ deqExact b q (8 * 1 + c) ∧ deqExact b q (8 * 1 + c) ≤ 16383)
      (by omega : -16383 ≤ deqExact b q (8 * 2 + c) ∧ deqExact b q (8 * 2 + c) ≤ 16383)
      (by omega : -16383 ≤ deqExact b q (8 * 3 + c) ∧ deqExact b q (8 * 3 + c) ≤ 16383)
      (by omega : -16383 ≤ deqExact b q (8 * 4 + c) ∧ deqExact b q (8 * 4 + c) ≤ 16383)
      (by omega : -16383 ≤ deqExact b q (8 * 5 + c) ∧ deqExact b q (8 * 5 + c) ≤ 16383)
      (by omega : -16383 ≤ deqExact b q (8 * 6 + c) ∧ deqExact b q (8 * 6 + c) ≤ 16383)
      (by omega : -16383 ≤ deqExact b q (8 * 7 + c) ∧ deqExact b q (8 * 7 + c) ≤ 16383) k
    have hik := hi k
    unfold p1Butterfly at hik
    rw [Oct.get_map] at hik
    rw [wrap32_id _ (by omega)]
    exact sat16_id _ hik

/-! ### second pass -/

/-- second pass of a row WITHOUT the DC-only shortcut: butterfly, rounding shift by 18 -/
def p2Butterfly (i : Oct Int) : Oct Int :=
  (linInt i.o0 i.o1 i.o2 i.o3 i.o4 i.o5 i.o6 i.o7).map (fun x => (x + 131072) / 262144)

theorem p2_dc_value (d : Int) :
    (Oct.const (d * 8192)).map (fun x => (x + 131072) / 262144) = Oct.const ((d + 16) / 32) := by
  simp only [Oct.const, Oct.map]
  congr 1 <;> omega

/-- The per-row shortcut of decode_idct_default.wuffs computes what the butterfly computes. -/
theorem p2rowInt_eq_butterfly (i : Oct Int) : p2rowInt i = p2Butterfly i := by
  unfold p2rowInt p2Butterfly
  split
  · rename_i h
    simp only [Bool.and_eq_true, beq_iff_eq] at h
    obtain ⟨⟨⟨⟨⟨⟨e1, e2⟩, e3⟩, e4⟩, e5⟩, e6⟩, e7⟩ := h
    rw [e1, e2, e3, e4, e5, e6, e7, linInt_dc, p2_dc_value]
  · rfl

/-- Second pass of the AVX2 code (which has no shortcut): on intermediates within ±16383 it is
the exact butterfly followed by the saturating conversion of each sample. -/
theorem p2rowAvx2_exact (i : Oct Int) (hi : ∀ k, -16383 ≤ i.get k ∧ i.get k ≤ 16383) :
    p2rowAvx2 i = (p2Butterfly i).map finalSat := by
  have a0 := hi 0; have a1 := hi 1; have a2 := hi 2; have a3 := hi 3
  have a4 := hi 4; have a5 := hi 5; have a6 := hi 6; have a7 := hi 7
  simp only [Oct.get] at a0 a1 a2 a3 a4 a5 a6 a7
  unfold p2rowAvx2 p2Butterfly
  rw [linAvx2_exact _ _ _ _ _ _ _ _ a0 a1 a2 a3 a4 a5 a6 a7]
  have hm : ∀ (o : Oct Int), (o.map (fun x => (x + 131072) / 262144)).map finalSat =
      o.map (fun x => finalSat ((x + 131072) / 262144)) := fun o => rfl
  rw [hm]
  apply Oct.map_congr
  intro k
  have hb := linInt_get_bound _ _ _ _ _ _ _ _ a0 a1 a2 a3 a4 a5 a6 a7 k
  rw [wrap32_id _ (by omega)]

/-! ### whole blocks -/

theorem Oct.all_get {α : Type} (p : α → Bool) (o : Oct α) (h : o.all p = true) (k : Nat) : p (o.get k) = true := by
  unfold Oct.all at h
  simp only [Bool.and_eq_true] at h
  obtain ⟨⟨⟨⟨⟨⟨⟨a0, a1⟩, a2⟩, a3⟩, a4⟩, a5⟩, a6⟩, a7⟩ := h
  unfold Oct.get
  split <;> assumption

theorem octOfFn_get {α : Type} (f : Nat → α) (k : Nat) : ∃ c, c < 8 ∧ (octOfFn f).get k = f c := by
  unfold Oct.get octOfFn
  split
  · exact ⟨0, by omega, rfl⟩
  · exact ⟨1, by omega, rfl⟩
  · exact ⟨2, by omega, rfl⟩
  · exact ⟨3, by omega, rfl⟩
  · exact ⟨4, by omega, rfl⟩
  · exact ⟨5, by omega, rfl⟩
  · exact ⟨6, by omega, rfl⟩
  · exact ⟨7, by omega, rfl⟩

theorem intermediatesFit_get (b q : Array UInt16) (h : intermediatesFit b q = true) (c : Nat) (hc : c < 8)
    (k : Nat) : -16383 ≤ (p1colInt b q c).get k ∧ (p1colInt b q c).get k ≤ 16383 := by
  unfold intermediatesFit at h
  have h1 := List.all_eq_true.mp h c (List.mem_range.mpr hc)
  have := Oct.all_get _ _ h1 k
  simpa using this

theorem octList_map {α β : Type} (g : α → β) (o : Oct α) : octList (o.map g) = (octList o).map g := rfl

/-- `idctAvx2_block_exact`: for EVERY block whose lanes fit, the AVX2 inverse DCT (lane emulation)
is the exact IDCT followed by the saturating final conversion of each sample. -/
theorem idctAvx2_block_exact (b q : Array UInt16) (h : lanesFit b q = true) :
    idctAvx2 b q = (idctExact b q).map finalSat := by
  unfold lanesFit at h
  simp only [Bool.and_eq_true] at h
  obtain ⟨hco, hint⟩ := h
  have hcol : ∀ c, c < 8 → p1colAvx2 b q c = p1colInt b q c := by
    intro c hc
    rw [p1colInt_eq_butterfly]
    apply p1colAvx2_exact b q c hc hco
    intro k
    have := intermediatesFit_get b q hint c hc k
    rw [p1colInt_eq_butterfly] at this
    omega
  have hcols : octOfFn (p1colAvx2 b q) = octOfFn (p1colInt b q) := by
    unfold octOfFn
    rw [hcol 0 (by omega), hcol 1 (by omega), hcol 2 (by omega), hcol 3 (by omega), hcol 4 (by omega),
      hcol 5 (by omega), hcol 6 (by omega), hcol 7 (by omega)]
  have hrow : ∀ r, octList (p2rowAvx2 (rowOf (octOfFn (p1colInt b q)) r)) =
      (octList (p2rowInt (rowOf (octOfFn (p1colInt b q)) r))).map finalSat := by
    intro r
    rw [p2rowInt_eq_butterfly, ← octList_map, p2rowAvx2_exact]
    intro k
    unfold rowOf
    rw [Oct.get_map]
    obtain ⟨c, hc, e⟩ := octOfFn_get (p1colInt b q) k
    rw [e]
    exact intermediatesFit_get b q hint c hc r
  unfold idctAvx2 idctExact
  dsimp only
  rw [hcols, List.map_flatMap]
  congr 1
  funext r
  exact hrow r

/-- … i.e. exact IDCT, then bias by 128 and clamp to 0..255 (what libjpeg's range-limit table does
inside the 10-bit range, and what its SIMD code does everywhere). -/
theorem idctAvx2_block_exact_clamped (b q : Array UInt16) (h : lanesFit b q = true) :
    idctAvx2 b q = (idctExact b q).map clampByte := by
  rw [idctAvx2_block_exact b q h]
  apply List.map_congr_left
  intro v _
  exact finalSat_eq v

/-- For a block whose lanes fit AND whose exact reconstruction stays inside the 10-bit range, the
AVX2 result is the exact IDCT followed by the PORTABLE final conversion (wrap modulo 1024, then
`BIAS_AND_CLAMP`): what remains for `idctAvx2 b q = idctPortable b q` is that the portable u32
arithmetic computes `idctExact` up to that final step. -/
theorem idctAvx2_block_in_range (b q : Array UInt16) (h : lanesFit b q = true) (hr : blockInRange b q = true) :
    idctAvx2 b q = (idctExact b q).map finalWrap := by
  rw [idctAvx2_block_exact b q h]
  apply List.map_congr_left
  intro v hv
  unfold blockInRange at hr
  have := List.all_eq_true.mp hr v hv
  unfold inRange10 at this
  exact (idct_variants_agree_in_range v (by simpa using this)).symm

/-- non-vacuity: a DC + one-AC-coefficient block (row 7 only: the AVX2 shortcut must NOT fire)
satisfies both hypotheses, and the emulation really gives the clamped exact samples. -/
example :
    let b : Array UInt16 := (Array.replicate 64 0).set! 0 40 |>.set! 56 48
    let q : Array UInt16 := Array.replicate 64 1
    lanesFit b q = true ∧ blockInRange b q = true ∧ acRowsZero b = false ∧
      idctAvx2 b q = (idctExact b q).map clampByte := by decide +kernel

/-! ### the portable side: the u32 arithmetic of decode_idct_default.wuffs computes the exact IDCT

`UInt32.ofInt` is a ring homomorphism, so every `~mod` operation of the portable code computes
the image of the exact integer; the two places that are NOT ring operations — the arithmetic
right shift `sign_extend_rshift_u32(x, 11)` between the passes and the final logical
`(x >> 18) & 1023` — agree with exact floor division when the exact accumulator fits an i32,
which the same lane condition guarantees. -/

theorem u32OfInt_eq (i : Int) : u32OfInt i = UInt32.ofInt i := rfl

theorem ofInt_sub (a b : Int) : UInt32.ofInt (a - b) = UInt32.ofInt a - UInt32.ofInt b := by
  rw [Int.sub_eq_add_neg, UInt32.ofInt_add, UInt32.ofInt_neg, UInt32.sub_eq_add_neg]

theorem ofInt_shl13 (a : Int) : UInt32.ofInt a <<< 13 = UInt32.ofInt (a * 8192) := by
  have h : ∀ x : UInt32, x <<< 13 = x * 8192 := by
    intro x
    apply UInt32.toNat_inj.mp
    rw [UInt32.toNat_shiftLeft, UInt32.toNat_mul]
    simp [Nat.shiftLeft_eq]
  rw [h, UInt32.ofInt_mul]
  rfl

theorem ofInt_shl2 (a : Int) : UInt32.ofInt a <<< 2 = UInt32.ofInt (a * 4) := by
  have h : ∀ x : UInt32, x <<< 2 = x * 4 := by
    intro x
    apply UInt32.toNat_inj.mp
    rw [UInt32.toNat_shiftLeft, UInt32.toNat_mul]
    simp [Nat.shiftLeft_eq]
  rw [h, UInt32.ofInt_mul]
  rfl

theorem toNat_ofInt (v : Int) : (UInt32.ofInt v).toNat = (v % 4294967296).toNat := by
  unfold UInt32.ofInt
  rw [UInt32.toNat_ofNat']
  have h0 : 0 ≤ v % 4294967296 := Int.emod_nonneg v (by decide)
  have h1 : v % 4294967296 < 4294967296 := Int.emod_lt_of_pos v (by decide)
  have : (2 : Int) ^ 32 = 4294967296 := by decide
  rw [this]
  omega

/-- the signed reading of the image of a value that fits an i32 is the value -/
theorem s32_ofInt (v : Int) (h : -2147483648 ≤ v ∧ v ≤ 2147483647) : s32 (UInt32.ofInt v) = v := by
  unfold s32
  rw [toNat_ofInt]
  split <;> omega

theorem linU32_hom (i0 i1 i2 i3 i4 i5 i6 i7 : Int) :
    linU32 (UInt32.ofInt i0) (UInt32.ofInt i1) (UInt32.ofInt i2) (UInt32.ofInt i3) (UInt32.ofInt i4)
      (UInt32.ofInt i5) (UInt32.ofInt i6) (UInt32.ofInt i7) =
    (linInt i0 i1 i2 i3 i4 i5 i6 i7).map UInt32.ofInt := by
  simp only [linU32, linInt, lin, Oct.map, id, u32OfInt_eq, ← UInt32.ofInt_add, ← UInt32.ofInt_mul, ← ofInt_sub,
    ofInt_shl13]

theorem sx16_eq (a : UInt16) : sx16 a = UInt32.ofInt (sxInt a) := by
  have hlt : a.toNat < 65536 := a.toNat_lt
  unfold sx16 sxInt
  split
  · apply UInt32.toNat_inj.mp
    rw [UInt16.toNat_toUInt32, toNat_ofInt]
    omega
  · apply UInt32.toNat_inj.mp
    rw [UInt32.toNat_or, UInt16.toNat_toUInt32, toNat_ofInt]
    have h1 : (0xFFFF0000 : UInt32).toNat = 0xFFFF <<< 16 := by decide
    have h2 : (0xFFFF : Nat) <<< 16 = 4294901760 := by decide
    rw [h1, Nat.or_comm, ← Nat.shiftLeft_add_eq_or_of_lt (by omega : a.toNat < 2 ^ 16), h2]
    omega

theorem toUInt32_eq (x : UInt16) : x.toUInt32 = UInt32.ofInt (x.toNat : Int) := by
  have hlt : x.toNat < 65536 := x.toNat_lt
  apply UInt32.toNat_inj.mp
  rw [UInt16.toNat_toUInt32, toNat_ofInt]
  omega

/-- `sign_extend_rshift_u32` of the image of a value that fits an i32 is the image of the floor division -/
theorem sar32_ofInt (v : Int) (h : -2147483648 ≤ v ∧ v ≤ 2147483647) :
    sar32 (UInt32.ofInt v) 11 = UInt32.ofInt (v / 2048) := by
  unfold sar32
  apply UInt32.toNat_inj.mp
  rw [toNat_ofInt (v / 2048)]
  split
  · rename_i hlt
    rw [toNat_ofInt] at hlt ⊢
    rw [UInt32.toNat_ofNat']
    omega
  · rename_i hge
    rw [toNat_ofInt] at hge ⊢
    rw [UInt32.toNat_ofNat']
    omega


theorem Oct.map_map {α β γ : Type} (f : α → β) (g : β → γ) (o : Oct α) : (o.map f).map g = o.map (fun x => g (f x)) := rfl

theorem ofInt_add_lit (x : Int) (n : Nat) : UInt32.ofInt x + UInt32.ofInt (n : Int) = UInt32.ofInt (x + n) :=
  (UInt32.ofInt_add x n).symm

/-- First pass of the portable code on column `c`: the image of the exact intermediates. -/
theorem p1colU32_exact (b q : Array UInt16) (c : Nat) (hc : c < 8) (hfit : coeffsFit b q = true) :
    p1colU32 b q c = (p1colInt b q c).map UInt32.ofInt := by
  have hd : ∀ r, r < 8 → -8191 ≤ deqExact b q (8 * r + c) ∧ deqExact b q (8 * r + c) ≤ 8191 :=
    fun r hr => coeffsFit_get b q hfit _ (by omega)
  have hdq : ∀ idx, sx16 (b.getD idx 0) * (q.getD idx 0).toUInt32 = UInt32.ofInt (deqExact b q idx) := by
    intro idx
    unfold deqExact
    rw [sx16_eq, toUInt32_eq, ← UInt32.ofInt_mul]
  unfold p1colU32 p1colInt
  dsimp only
  simp only [hdq]
  by_cases hz : ((b.getD (8 * 1 + c) 0 ||| b.getD (8 * 2 + c) 0 ||| b.getD (8 * 3 + c) 0 ||| b.getD (8 * 4 + c) 0 |||
      b.getD (8 * 5 + c) 0 ||| b.getD (8 * 6 + c) 0 ||| b.getD (8 * 7 + c) 0) == 0) = true
  · simp only [hz, ↓reduceIte, ofInt_shl2]
    unfold deqExact
    rfl
  · simp only [hz, Bool.false_eq_true, ↓reduceIte]
    rw [linU32_hom, Oct.map_map, Oct.map_map]
    apply Oct.map_congr
    intro k
    have b0 := hd 0 (by omega); have b1 := hd 1 (by omega); have b2 := hd 2 (by omega)
    have b3 := hd 3 (by omega); have b4 := hd 4 (by omega); have b5 := hd 5 (by omega)
    have b6 := hd 6 (by omega); have b7 := hd 7 (by omega)
    have hb := linInt_get_bound (deqExact b q (8 * 0 + c)) (deqExact b q (8 * 1 + c)) (deqExact b q (8 * 2 + c))
      (deqExact b q (8 * 3 + c)) (deqExact b q (8 * 4 + c)) (deqExact b q (8 * 5 + c)) (deqExact b q (8 * 6 + c))
      (deqExact b q (8 * 7 + c)) (by omega) (by omega) (by omega) (by omega) (by omega) (by omega) (by omega)
      (by omega) k
    have hb' := hb
    unfold deqExact at hb'
    have e1024 : (1024 : UInt32) = UInt32.ofInt ((1024 : Nat) : Int) := rfl
    rw [e1024, ofInt_add_lit, sar32_ofInt _ (by omega)]
    rfl

theorem logical_shift5_mask_eq (y : UInt32) :
    ((y >>> 5) &&& 1023).toNat = ((s32 y) / 32 % 1024).toNat := by
  have h1 : ((y >>> 5) &&& 1023).toNat = (y.toNat / 32) % 1024 := by
    rw [UInt32.toNat_and, UInt32.toNat_shiftRight]
    have : (1023 : UInt32).toNat = 2 ^ 10 - 1 := by decide
    rw [this, Nat.and_two_pow_sub_one_eq_mod, Nat.shiftRight_eq_div_pow]
    rfl
  rw [h1]
  have hy := y.toNat_lt
  unfold s32
  split <;> omega

theorem portable_dc_step (x : UInt32) : clampTab ((x + 16) >>> 5) = finalWrap (s32 (x + 16) / 32) := by
  unfold clampTab finalWrap
  rw [logical_shift5_mask_eq]

theorem ofInt_eq_zero (v : Int) (h : -2147483648 ≤ v ∧ v ≤ 2147483647) (hz : UInt32.ofInt v = 0) : v = 0 := by
  have := s32_ofInt v h
  rw [hz] at this
  have h0 : s32 0 = 0 := by decide
  omega

theorem or7_zero_u32 (g1 g2 g3 g4 g5 g6 g7 : UInt32)
    (h : (g1 ||| g2 ||| g3 ||| g4 ||| g5 ||| g6 ||| g7) = 0) :
    g1 = 0 ∧ g2 = 0 ∧ g3 = 0 ∧ g4 = 0 ∧ g5 = 0 ∧ g6 = 0 ∧ g7 = 0 := by
  obtain ⟨h6, e7⟩ := UInt32.or_eq_zero_iff.mp h
  obtain ⟨h5, e6⟩ := UInt32.or_eq_zero_iff.mp h6
  obtain ⟨h4, e5⟩ := UInt32.or_eq_zero_iff.mp h5
  obtain ⟨h3, e4⟩ := UInt32.or_eq_zero_iff.mp h4
  obtain ⟨h2, e3⟩ := UInt32.or_eq_zero_iff.mp h3
  obtain ⟨e1, e2⟩ := UInt32.or_eq_zero_iff.mp h2
  exact ⟨e1, e2, e3, e4, e5, e6, e7⟩

/-- Second pass of the portable code on a row of (images of) intermediates within ±16383: the exact
second pass followed by the portable final conversion (wrap modulo 1024, then the table). -/
theorem p2rowU32_exact (v : Oct Int) (hv : ∀ k, -16383 ≤ v.get k ∧ v.get k ≤ 16383) :
    p2rowU32 (v.map UInt32.ofInt) = (p2rowInt v).map finalWrap := by
  have a0 := hv 0; have a1 := hv 1; have a2 := hv 2; have a3 := hv 3
  have a4 := hv 4; have a5 := hv 5; have a6 := hv 6; have a7 := hv 7
  simp only [Oct.get] at a0 a1 a2 a3 a4 a5 a6 a7
  unfold p2rowU32 p2rowInt
  simp only [Oct.map]
  by_cases hz : (v.o1 == 0 && v.o2 == 0 && v.o3 == 0 && v.o4 == 0 && v.o5 == 0 && v.o6 == 0 && v.o7 == 0) = true
  · have hz' := hz
    simp only [Bool.and_eq_true, beq_iff_eq] at hz'
    obtain ⟨⟨⟨⟨⟨⟨e1, e2⟩, e3⟩, e4⟩, e5⟩, e6⟩, e7⟩ := hz'
    have hor : ((UInt32.ofInt v.o1 ||| UInt32.ofInt v.o2 ||| UInt32.ofInt v.o3 ||| UInt32.ofInt v.o4 |||
        UInt32.ofInt v.o5 ||| UInt32.ofInt v.o6 ||| UInt32.ofInt v.o7) == 0) = true := by
      rw [e1, e2, e3, e4, e5, e6, e7]
      decide
    simp only [hor, hz, ↓reduceIte, Oct.const]
    have e16 : (16 : UInt32) = UInt32.ofInt ((16 : Nat) : Int) := rfl
    have hstep : clampTab ((UInt32.ofInt v.o0 + 16) >>> 5) = finalWrap ((v.o0 + 16) / 32) := by
      rw [portable_dc_step, e16, ofInt_add_lit, s32_ofInt _ (by omega)]
      rfl
    rw [hstep]
  · have hor : ((UInt32.ofInt v.o1 ||| UInt32.ofInt v.o2 ||| UInt32.ofInt v.o3 ||| UInt32.ofInt v.o4 |||
        UInt32.ofInt v.o5 ||| UInt32.ofInt v.o6 ||| UInt32.ofInt v.o7) == 0) = false := by
      cases hc : ((UInt32.ofInt v.o1 ||| UInt32.ofInt v.o2 ||| UInt32.ofInt v.o3 ||| UInt32.ofInt v.o4 |||
        UInt32.ofInt v.o5 ||| UInt32.ofInt v.o6 ||| UInt32.ofInt v.o7) == 0) with
      | false => rfl
      | true =>
        exfalso
        apply hz
        obtain ⟨z1, z2, z3, z4, z5, z6, z7⟩ := or7_zero_u32 _ _ _ _ _ _ _ (by simpa using hc)
        have := ofInt_eq_zero v.o1 (by omega) z1
        have := ofInt_eq_zero v.o2 (by omega) z2
        have := ofInt_eq_zero v.o3 (by omega) z3
        have := ofInt_eq_zero v.o4 (by omega) z4
        have := ofInt_eq_zero v.o5 (by omega) z5
        have := ofInt_eq_zero v.o6 (by omega) z6
        have := ofInt_eq_zero v.o7 (by omega) z7
        simp [*]
    simp only [hor, hz, Bool.false_eq_true, ↓reduceIte]
    rw [linU32_hom]
    show ((linInt v.o0 v.o1 v.o2 v.o3 v.o4 v.o5 v.o6 v.o7).map UInt32.ofInt).map
        (fun x : UInt32 => clampTab ((x + 131072) >>> 18)) =
      ((linInt v.o0 v.o1 v.o2 v.o3 v.o4 v.o5 v.o6 v.o7).map (fun x : Int => (x + 131072) / 262144)).map finalWrap
    rw [Oct.map_map, Oct.map_map]
    apply Oct.map_congr
    intro k
    have hb := linInt_get_bound _ _ _ _ _ _ _ _ a0 a1 a2 a3 a4 a5 a6 a7 k
    have e17 : (131072 : UInt32) = UInt32.ofInt ((131072 : Nat) : Int) := rfl
    rw [portable_final_step, e17, ofInt_add_lit, s32_ofInt _ (by omega)]
    rfl

theorem rowOf_map {α β : Type} (f : Nat → Oct α) (g : α → β) (r : Nat) :
    rowOf (octOfFn (fun c => (f c).map g)) r = (rowOf (octOfFn f) r).map g := by
  simp only [rowOf, octOfFn, Oct.map]
  congr 1 <;> (unfold Oct.get; split <;> rfl)

/-- `idctPortable_block_exact`: for EVERY block whose lanes fit, the portable u32 code is the exact
IDCT followed by wrap-modulo-1024-then-table of each sample. -/
theorem idctPortable_block_exact (b q : Array UInt16) (h : lanesFit b q = true) :
    idctPortable b q = (idctExact b q).map finalWrap := by
  unfold lanesFit at h
  simp only [Bool.and_eq_true] at h
  obtain ⟨hco, hint⟩ := h
  have hcols : octOfFn (p1colU32 b q) = octOfFn (fun c => (p1colInt b q c).map UInt32.ofInt) := by
    unfold octOfFn
    rw [p1colU32_exact b q 0 (by omega) hco, p1colU32_exact b q 1 (by omega) hco,
      p1colU32_exact b q 2 (by omega) hco, p1colU32_exact b q 3 (by omega) hco,
      p1colU32_exact b q 4 (by omega) hco, p1colU32_exact b q 5 (by omega) hco,
      p1colU32_exact b q 6 (by omega) hco, p1colU32_exact b q 7 (by omega) hco]
  have hrow : ∀ r, octList (p2rowU32 (rowOf (octOfFn (fun c => (p1colInt b q c).map UInt32.ofInt)) r)) =
      (octList (p2rowInt (rowOf (octOfFn (p1colInt b q)) r))).map finalWrap := by
    intro r
    rw [rowOf_map, ← octList_map, p2rowU32_exact]
    intro k
    unfold rowOf
    rw [Oct.get_map]
    obtain ⟨c, hc, e⟩ := octOfFn_get (p1colInt b q) k
    rw [e]
    exact intermediatesFit_get b q hint c hc r
  unfold idctPortable idctExact
  dsimp only
  rw [hcols, List.map_flatMap]
  exact congrArg (fun f => (List.range 8).flatMap f) (funext hrow)

/-- `idct_block_variants_agree`: the documented exception at BLOCK level, over the models of the
two variants — for every block whose exact reconstruction stays inside the 10-bit range and
whose 16-bit lanes fit, decode_idct (portable) and decode_idct_x86_avx2 produce the same 64 bytes. -/
theorem idct_block_variants_agree (b q : Array UInt16) (hfit : lanesFit b q = true)
    (hr : blockInRange b q = true) : idctAvx2 b q = idctPortable b q := by
  rw [idctAvx2_block_in_range b q hfit hr, idctPortable_block_exact b q hfit]

/-- … and outside the 10-bit range (lanes still fitting) the two differ exactly by
saturate-versus-wrap of the same exact samples. -/
theorem idct_block_variants_differ_only_in_final_step (b q : Array UInt16) (hfit : lanesFit b q = true) :
    idctAvx2 b q = (idctExact b q).map finalSat ∧ idctPortable b q = (idctExact b q).map finalWrap :=
  ⟨idctAvx2_block_exact b q hfit, idctPortable_block_exact b q hfit⟩

end WuffsVerif.Props.C09
