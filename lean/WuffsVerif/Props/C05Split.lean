/-
C05 — split-independence of coroutines of fragment F3s WITH their control flow (branches, loops,
labelled break/continue, return, yield, nested coroutine calls), as the generated C runs them
(only `varResumables` survive a suspension).

Models: `Model/Liveness.lean` (the analysis), `Model/LivenessRun.lean` (control flow, locals,
what a suspension does to them), `Model/SplitRun.lean` (the chunked and the one-shot world),
`Model/Scratch.lean` (the scratch-word machines of builtin.go and the chunk driver).
-/
import WuffsVerif.Props.C05
import WuffsVerif.Proof.SplitIO

namespace WuffsVerif.Props.C05
open WuffsVerif.Liveness WuffsVerif.Scratch WuffsVerif.Split

/-- **ideal_world_independent.** The language's meaning (all locals persist) does not see how the
world is represented nor how often calls suspend: if two interpretations compute the same values
and commute with an abstraction `α` of the world, the runs of ANY program from related states
leave it the same way, with the same locals, the same computed values and related worlds. -/
theorem ideal_world_independent {W1 W2 : Type} (α : W1 → W2) (c1 : Cfg W1) (c2 : Cfg W2)
    (hc : CfgSim α c1 c2) (fuel : Nat) (task : Task) (a : RState W1) (b : RState W2)
    (hs : a.store = b.store ∧ a.log = b.log ∧ α a.w = b.w) :
    let r1 := run allSaved c1 fuel task a
    let r2 := run allSaved c2 fuel task b
    r1.out = r2.out ∧ r1.st.store = r2.st.store ∧ r1.st.log = r2.st.log ∧ α r1.st.w = r2.st.w := by
  have h := run_world_sim hc fuel task a b ⟨hs.1, hs.2.1, hs.2.2⟩
  exact ⟨h.1, h.2.store, h.2.log, h.2.w⟩

/-- What is observed of a run: how the body was left (fell off the end, `return`, or cut by the
fuel), the values computed in order (conditions, right-hand sides, field stores, the returned
status), and the world up to chunking — unread source bytes, output bytes, consumed-byte count,
the `this.…` fields, whether the coroutine starved on a closed source (final status
`$short read`), and the values computed while alive. -/
structure SplitObs where
  out : Out
  log : List Nat
  world : OW

def obsC (r : Res CW) : SplitObs := ⟨r.out, r.st.log, r.st.w.abs⟩
def obsO (r : Res OW) : SplitObs := ⟨r.out, r.st.log, r.st.w⟩

instance : DecidableEq SplitObs := fun a b =>
  decidable_of_iff (a.out = b.out ∧ a.log = b.log ∧ a.world = b.world)
    ⟨fun h => by cases a; cases b; simp_all, fun h => by subst h; exact ⟨rfl, rfl, rfl⟩⟩

/-- **split_independent_F3s.** For every coroutine body over the abstract statement language
(`if`/`else if`, `while`, `break`/`continue` to any enclosing loop, `return`, `yield`, `var`,
assignments incl. `op=` and `=?`, io-manipulation blocks) whose expression occurrences are
interpreted (`interp`) as pure functions of the locals and of the `this.…` fields, stores to
fields, the driver's reaction to a yielded status, the suspending built-ins `read_uXXYe?` (rows of `readMethods`), `skip?`/`skip_u32?`, `skip?(n: 1)`,
`write_u8?`, or split-independent callees; for every chunked world `w` (any source bytes cut into
any chunks incl. empty ones, any destination capacity pieces incl. zero-sized ones, any position
in the stream), every fuel and initial locals:

the run of the GENERATED C — only `varResumables` (`resumables n body`, computed by the model of
liveness.go) survive a suspension, every built-in goes through its scratch-word machine and is
resumed as often as the chunking makes necessary — is observed exactly as the run of the
LANGUAGE (all locals persist) on the undivided source with an unbounded destination.

Not in this class (and only sampled, harness sections C and D): code that peeks or tests
`length()`/`available()` to take a fast path, `io_limit`/`io_bind` over a nested buffer, token
I/O, the `p_<func>` switch text itself. -/
theorem split_independent_F3s (n : Nat) (body : List Stmt) (interp : Nat → COp)
    (hok : ∀ t, (interp t).OK) (comb : Nat → Nat → Nat → Nat) (fuel : Nat) (w : CW) (store0 : Store) :
    obsC (run (savedSet n body) (chunkCfg interp comb) fuel (Task.block body) ⟨store0, w, []⟩) =
    obsO (run allSaved (oneCfg interp comb) fuel (Task.block body) ⟨store0, w.abs, []⟩) := by
  have h1 := saved_equiv_ideal n body (chunkCfg interp comb) fuel ⟨store0, w, []⟩
  have h2 := run_world_sim (chunk_one_sim interp hok comb) fuel (Task.block body)
    ⟨store0, w, []⟩ ⟨store0, w.abs, []⟩ ⟨rfl, rfl, rfl⟩
  simp only at h1
  obtain ⟨ho, _, hl, hw, _⟩ := h1
  simp only [obsC, obsO]
  rw [← ho, ← hl, ← hw, h2.1, h2.2.log, h2.2.w]

/-- **split_independent_F3s_partitions.** Hence any two partitions of the same source bytes into
chunks and of the destination capacity into pieces are observed the same: same way of leaving
the body, same computed values (observable state), same output bytes, same consumed-byte count,
same final-status flag — namely those of the one-shot run. -/
theorem split_independent_F3s_partitions (n : Nat) (body : List Stmt) (interp : Nat → COp)
    (hok : ∀ t, (interp t).OK) (comb : Nat → Nat → Nat → Nat) (fuel : Nat) (bs : List UInt8)
    (src1 dst1 src2 dst2 : List Nat) :
    obsC (run (savedSet n body) (chunkCfg interp comb) fuel (Task.block body)
      ⟨fun _ => 0, initCW src1 dst1 bs, []⟩) =
    obsC (run (savedSet n body) (chunkCfg interp comb) fuel (Task.block body)
      ⟨fun _ => 0, initCW src2 dst2 bs, []⟩) := by
  rw [split_independent_F3s n body interp hok comb fuel, split_independent_F3s n body interp hok comb fuel,
    initCW_abs, initCW_abs]

/-- **callee_split_independent.** A callee whose own operations are in the class is a
split-independent operation of its caller (`COp.ext`): nested coroutine calls compose. (By
induction over the call graph — Wuffs has no recursion — every finite hierarchy of F3s coroutines
is covered.) -/
theorem callee_split_independent (n : Nat) (body : List Stmt) (interp : List Nat → Nat → COp)
    (hok : ∀ vals t, (interp vals t).OK) (comb : Nat → Nat → Nat → Nat) (fuel : Nat)
    (g : List Nat → List Nat → List Nat) :
    (COp.ext ((callExt (savedSet n body) body interp comb fuel).mapArgs g)).OK := by
  apply Ext.mapArgs_OK
  intro vals w
  have h := split_independent_F3s n body (interp vals) (hok vals) comb fuel w (fun _ => 0)
  simp only [obsC, obsO, SplitObs.mk.injEq] at h
  obtain ⟨ho, hl, hw⟩ := h
  have hf := calleeFinish_abs
    (run allSaved (oneCfg (interp vals) comb) fuel (Task.block body) ⟨fun _ => 0, w.abs, []⟩).out
    (run allSaved (oneCfg (interp vals) comb) fuel (Task.block body) ⟨fun _ => 0, w.abs, []⟩).st.log
    (run (savedSet n body) (chunkCfg (interp vals) comb) fuel (Task.block body) ⟨fun _ => 0, w, []⟩).st.w
  rw [hw] at hf
  simp only [callExt]
  rw [ho, hl]
  exact hf

/-! ### non-vacuity: a loop whose reads and writes straddle the chunk boundaries -/

/--
```
var x; var i; var t
x = args.src.read_u16le?()               -- tag 1
while i < 2 {                            -- tag 2
    i += 1                               -- tag 3
    args.dst.write_u8?(a: x & 0xFF)      -- tag 4
    args.dst.write_u8?(a: x >> 8)        -- tag 7   (x is read after the suspension point of tag 4)
    t = x ^ 0xFF                         -- tag 8
    args.dst.write_u8?(a: t)             -- tag 9   (t is dead afterwards: not saved)
    x = args.src.read_u24be_as_u32?()    -- tag 5
}
return ok                                -- tag 6
``` -/
def exLoop : List Stmt :=
  [.var 0, .var 1, .var 2,
   .assign .eq (.var 0) ⟨true, true, [], 1⟩,
   .while false ⟨false, false, [1], 2⟩
     [.assign .other (.var 1) ⟨false, false, [], 3⟩,
      .expr ⟨true, true, [0], 4⟩,
      .expr ⟨true, true, [0], 7⟩,
      .assign .eq (.var 2) ⟨false, false, [0], 8⟩,
      .expr ⟨true, true, [2], 9⟩,
      .assign .eq (.var 0) ⟨true, true, [], 5⟩],
   .ret false ⟨false, false, [], 6⟩]

def exInterp : Nat → COp
  | 1 => .rd ⟨16, 16, false⟩
  | 2 => .pure (fun _ vs => if vs.headD 0 < 2 then 1 else 0)
  | 3 => .pure (fun _ _ => 1)
  | 4 => .wr (fun _ vs => vs.headD 0)
  | 5 => .rd ⟨32, 24, true⟩
  | 7 => .wr (fun _ vs => vs.headD 0 / 256)
  | 8 => .pure (fun _ vs => vs.headD 0 ^^^ 0xFF)
  | 9 => .wr (fun _ vs => vs.headD 0)
  | _ => .pure (fun _ _ => 0)

theorem exInterp_ok : ∀ t, (exInterp t).OK := by
  intro t
  unfold exInterp
  split <;> first | trivial | exact Or.inr ⟨by decide, by decide, by decide, by decide⟩

def exBytes : List UInt8 := [0x34, 0x12, 0xAA, 0xBB, 0xCC, 1, 2, 3, 0xFF]

/-- `x` and `i` are saved, `t` is not. -/
example : resumables 3 exLoop = [0, 1] := by decide +kernel

/-- The chunked run (source delivered as 1 + 0 + 2 + 1 + 3 + rest bytes, destination pieces of
0, 1, 0, 1, 2 bytes) suspends ten times and ends as the one-shot run does: output
`34 12 CB CC BB 33`, 8 bytes consumed, the last byte unread, left by `return`, not starved. -/
example :
    obsC (run (savedSet 3 exLoop) (chunkCfg exInterp (fun _ a b => a + b)) 40 (Task.block exLoop)
      ⟨fun _ => 0, initCW [1, 0, 2, 1, 3] [0, 1, 0, 1, 2] exBytes, []⟩) =
      ⟨Out.ret, [0x1234, 1, 1, 0, 0, 0x12CB, 0, 0xAABBCC, 1, 1, 0, 0, 0xAABB33, 0, 0x010203, 0, 0],
       ⟨[0xFF], [0x34, 0x12, 0xCB, 0xCC, 0xBB, 0x33], 8,
        ⟨[], 0, false, [0x1234, 1, 1, 0x12CB, 0xAABBCC, 1, 1, 0xAABB33, 0x010203, 0, 0], 0, 0⟩⟩⟩ ∧
    ((run (savedSet 3 exLoop) (chunkCfg exInterp (fun _ a b => a + b)) 40 (Task.block exLoop)
      ⟨fun _ => 0, initCW [1, 0, 2, 1, 3] [0, 1, 0, 1, 2] exBytes, []⟩).evs.filter (· == Ev.susp)).length = 10 := by
  decide +kernel

/-- …whereas saving NOTHING is observably different on the same chunking (the property is not
vacuous): the second output byte is then 00, not 12. -/
example :
    (obsC (run (fun _ => false) (chunkCfg exInterp (fun _ a b => a + b)) 40 (Task.block exLoop)
      ⟨fun _ => 0, initCW [1, 0, 2, 1, 3] [0, 1, 0, 1, 2] exBytes, []⟩)).world.out.take 2 = [0x34, 0x00] := by
  decide +kernel

/-- A truncated source: starved (`dead`) in the middle of the 24-bit read, everything consumed. -/
example :
    (obsC (run (savedSet 3 exLoop) (chunkCfg exInterp (fun _ a b => a + b)) 40 (Task.block exLoop)
      ⟨fun _ => 0, initCW [3, 1] [] (exBytes.take 4), []⟩)).world =
      ⟨[], [0x34, 0x12, 0xCB], 4, ⟨[], 0x12CB, true, [0x1234, 1, 1, 0x12CB], 0, 0⟩⟩ := by
  decide +kernel

end WuffsVerif.Props.C05
