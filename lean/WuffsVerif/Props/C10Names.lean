import WuffsVerif.Model.CNames
import WuffsVerif.Gen.C10_Names
/-!
# C10 — the C back end has no way to name an external function

`Gen/C10_Names.lean` is regenerated on every run from the string literals of
/repo/internal/cgen/*.go (every identifier followed by `(`: the built-in
lowering tables of builtin.go and the templates of cgen.go / func.go /
expr.go / statement.go / var.go).  Wuffs source has no construct denoting a C
symbol (no FFI, no `extern`; see Model/Effects.lean's syntax: calls name
methods of the package only), so every call in generated C comes from this
table.
-/
namespace WuffsVerif.Props.C10

open WuffsVerif.CNames WuffsVerif.Gen.C10

/-- **no_external_calls**: every C function name the back end can emit is a
    `wuffs_base__*` / `wuffs_private_impl__*` function, a `WUFFS_*` macro,
    `memcpy|memmove|memset|memcmp`, `calloc|free`, a C keyword, a header-inline
    SIMD intrinsic, or a fragment completed with a package-local prefix —
    never anything else (`strlen`, `abort`, `malloc`, `printf`, a syscall …). -/
theorem no_external_calls : ∀ e ∈ cgenNames, classify e.1 ≠ .external := by
  decide +kernel

/-- `calloc` / `free` are emitted by one Go function only: the `alloc`
    convenience helper written by `writeInitializerImpl`. -/
theorem alloc_only_in_alloc_helper :
    ∀ e ∈ cgenNames, classify e.1 = .alloc → e.2.2 = "writeInitializerImpl" := by
  decide +kernel

/-- The table does contain the allocator (the check above is not vacuous),
    and the classifier does reject foreign names. -/
theorem alloc_present : ∃ e ∈ cgenNames, classify e.1 = .alloc := by
  decide +kernel

example : classify "strlen" = .external := by decide
example : classify "abort" = .external := by decide
example : classify "malloc" = .external := by decide
example : classify "wuffs_base__io_writer__limited_copy_u32_from_history" = .wuffsBase := by decide
example : classify "memmove" = .mem := by decide

end WuffsVerif.Props.C10
