/-
C03 — theorems about the suspension templates of `Model/Suspend.lean`
(`internal/cgen/builtin.go`: `writeBuiltinQuestionCall`, `writeReadUxxAsUyy`).
See the header of `Props/C03.lean` for what is and is not proved for C03 as a whole.
-/
import WuffsVerif.Model.Suspend

namespace WuffsVerif.Props.C03

open WuffsVerif.Suspend

theorem rdLoop_shortRead (be : Bool) (xx yy : Nat) : ∀ (fuel : Nat) (s : IO) (sc : UInt64) (s' : IO) (sc' : UInt64),
    rdLoop be xx yy fuel s sc = .shortRead s' sc' → s'.iop = s'.io2
  | 0, _, _, _, _, h => by simp [rdLoop] at h
  | fuel + 1, s, sc, s', sc', h => by
    unfold rdLoop at h
    split at h
    · next he =>
      injection h with h1 _
      subst h1
      simpa using he
    · dsimp only at h
      cases hr : rdRound be xx yy sc s.load.2 with
      | inr v => rw [hr] at h; simp at h
      | inl sc2 => rw [hr] at h; exact rdLoop_shortRead be xx yy fuel _ _ _ _ h

theorem rdLoop_no_shortWrite (be : Bool) (xx yy : Nat) : ∀ (fuel : Nat) (s : IO) (sc : UInt64) (s' : IO) (sc' : UInt64),
    rdLoop be xx yy fuel s sc ≠ .shortWrite s' sc'
  | 0, _, _, _, _ => by simp [rdLoop]
  | fuel + 1, s, sc, s', sc' => by
    unfold rdLoop
    split
    · simp
    · dsimp only
      cases hr : rdRound be xx yy sc s.load.2 with
      | inr v => simp
      | inl sc2 => exact rdLoop_no_shortWrite be xx yy fuel _ _ _ _

/-- **`$short read` only with an empty reader, `$short write` only with a full writer.** For every
template, every state (any `iop`, `io2`, buffer, `closed`, scratch): if the resumption ends in
`status = $short read; goto suspend` then `iop == io2` at that point, and likewise for
`$short write`; the read templates never produce `$short write` and vice versa. -/
theorem suspension_justified (c : Call) (s s' : IO) (sc : UInt64) :
    (run c s = .shortRead s' sc → s'.iop = s'.io2) ∧
    (run c s = .shortWrite s' sc → s'.iop = s'.io2 ∧ s' = s ∧ ∃ v, c = .writeU8 v) := by
  cases c with
  | readU8 =>
    simp only [run, readU8]
    split
    · next he => exact ⟨fun h => by injection h with h1 _; subst h1; simpa using he, fun h => by simp at h⟩
    · exact ⟨fun h => by simp at h, fun h => by simp at h⟩
  | skip1 =>
    simp only [run, skip1]
    split
    · next he => exact ⟨fun h => by injection h with h1 _; subst h1; simpa using he, fun h => by simp at h⟩
    · exact ⟨fun h => by simp at h, fun h => by simp at h⟩
  | skipN sc0 =>
    simp only [run, skipN]
    split
    · exact ⟨fun h => by injection h with h1 _; subst h1; rfl, fun h => by simp at h⟩
    · exact ⟨fun h => by simp at h, fun h => by simp at h⟩
  | readEnter be xx yy =>
    simp only [run, readUxxEnter]
    split
    · exact ⟨fun h => by simp at h, fun h => by simp at h⟩
    · exact ⟨rdLoop_shortRead be xx yy _ _ _ _ _, fun h => absurd h (rdLoop_no_shortWrite be xx yy _ _ _ _ _)⟩
  | readResume be xx yy sc0 =>
    simp only [run, readUxxResume]
    exact ⟨rdLoop_shortRead be xx yy _ _ _ _ _, fun h => absurd h (rdLoop_no_shortWrite be xx yy _ _ _ _ _)⟩
  | writeU8 sc0 =>
    simp only [run, writeU8]
    split
    · next he =>
      refine ⟨fun h => by simp at h, fun h => ?_⟩
      injection h with h1 _
      subst h1
      exact ⟨by simpa using he, rfl, sc0, rfl⟩
    · exact ⟨fun h => by simp at h, fun h => by simp at h⟩

/-- A write never suspends while at least one byte of room exists: it stores exactly one byte. -/
theorem no_spurious_write_suspension (s : IO) (sc : UInt64) (h : s.iop < s.io2) :
    run (.writeU8 sc) s = .done (s.store sc.toUInt8) 0 := by
  have : (s.iop == s.io2) = false := by simp; omega
  simp [run, writeU8, this]

/-- `read_u8?` / `skip?(1)` never suspend while at least one byte is available. -/
theorem no_spurious_read_suspension (s : IO) (h : s.iop < s.io2) :
    (∃ v, run .readU8 s = .done s.load.1 v) ∧ run .skip1 s = .done { s with iop := s.iop + 1 } 0 := by
  have : (s.iop == s.io2) = false := by simp; omega
  simp [run, readU8, skip1, this]

/-- `read_uXXYe?` takes the non-suspending fast path whenever the whole field is available. -/
theorem no_spurious_read_uxx_suspension (be : Bool) (xx yy : Nat) (s : IO)
    (h1 : s.iop ≤ s.io2) (h2 : xx / 8 ≤ s.io2 - s.iop) :
    ∃ s' v, run (.readEnter be xx yy) s = .done s' v := by
  simp only [run, readUxxEnter]
  rw [if_pos ⟨h2, h1⟩]
  exact ⟨_, _, rfl⟩

/-- `skip?(n)`: what is skipped plus what remains in `scratch` is what was asked for; a completed skip
lands inside the buffer. (`io2 - iop < 2^64` is the size of an addressable buffer.) -/
theorem skip_conserves (s : IO) (sc : UInt64) (h1 : s.iop ≤ s.io2) (h2 : s.io2 - s.iop < 2 ^ 64) :
    (∀ s' sc', skipN s sc = .shortRead s' sc' → sc'.toNat + (s'.iop - s.iop) = sc.toNat ∧ 0 < sc'.toNat) ∧
    (∀ s' v, skipN s sc = .done s' v → s'.iop = s.iop + sc.toNat ∧ s'.iop ≤ s'.io2) := by
  have hav : ((s.io2 - s.iop).toUInt64).toNat = s.io2 - s.iop := by
    simp [Nat.toUInt64, UInt64.toNat_ofNat', Nat.mod_eq_of_lt h2]
  simp only [skipN]
  constructor
  · intro s' sc' h
    split at h
    · next hgt =>
      injection h with ha hb
      subst ha; subst hb
      have hgt' : (s.io2 - s.iop) < sc.toNat := by
        have := UInt64.lt_iff_toNat_lt.mp hgt
        rwa [hav] at this
      have hle : (s.io2 - s.iop).toUInt64 ≤ sc := UInt64.le_iff_toNat_le.mpr (by rw [hav]; omega)
      have hsub : (sc - (s.io2 - s.iop).toUInt64).toNat = sc.toNat - (s.io2 - s.iop) := by
        rw [UInt64.toNat_sub_of_le _ _ hle, hav]
      simp only [hsub]
      omega
    · simp at h
  · intro s' v h
    split at h
    · simp at h
    · next hle =>
      injection h with ha _
      subst ha
      have h5 : sc.toNat ≤ s.io2 - s.iop := by
        have h3 := UInt64.not_lt.mp hle
        have h4 := UInt64.le_iff_toNat_le.mp h3
        rw [hav] at h4
        exact h4
      refine ⟨rfl, ?_⟩
      show s.iop + sc.toNat ≤ s.io2
      omega

theorem load_setClosed (s : IO) (b : Bool) :
    ({ s with closed := b } : IO).load = ({ s.load.1 with closed := b }, s.load.2) := by
  unfold IO.load
  split <;> rfl

theorem rdLoop_setClosed (be : Bool) (xx yy : Nat) (b : Bool) : ∀ (fuel : Nat) (s : IO) (sc : UInt64),
    rdLoop be xx yy fuel { s with closed := b } sc = Out.setClosed b (rdLoop be xx yy fuel s sc)
  | 0, _, _ => rfl
  | fuel + 1, s, sc => by
    unfold rdLoop
    simp only [load_setClosed]
    split
    · rfl
    · cases hr : rdRound be xx yy sc s.load.2 with
      | inr v => rfl
      | inl sc2 => exact rdLoop_setClosed be xx yy b fuel _ _

theorem peekN_setClosed (be : Bool) (b : Bool) : ∀ (n : Nat) (s : IO) (acc : UInt64) (k : Nat),
    peekN be n { s with closed := b } acc k = ({ (peekN be n s acc k).1 with closed := b }, (peekN be n s acc k).2)
  | 0, _, _, _ => rfl
  | n + 1, s, acc, k => by
    unfold peekN
    simp only [load_setClosed]
    split
    · exact peekN_setClosed be b n _ _ _
    · exact peekN_setClosed be b n _ _ _

/-- **The templates never look at `closed`.** Running any template on a reader/writer with the flag
forced to `b` gives the same outcome (status, `iop`, value, scratch, bytes) with the flag forced to `b`.
Hence "no `$short read` on a closed, fully supplied input" cannot come from the templates: it is
established by the Wuffs-level decoder code that tests `args.src.is_closed()` after a short read, which
this check only samples as compiled C. -/
theorem templates_ignore_closed (c : Call) (s : IO) (b : Bool) :
    run c { s with closed := b } = Out.setClosed b (run c s) := by
  cases c with
  | readU8 =>
    simp only [run, readU8, load_setClosed]
    split <;> rfl
  | skip1 =>
    simp only [run, skip1]
    split <;> rfl
  | skipN sc =>
    simp only [run, skipN]
    split <;> rfl
  | readEnter be xx yy =>
    simp only [run, readUxxEnter]
    split
    · simp only [peekN_setClosed]; rfl
    · exact rdLoop_setClosed be xx yy b _ _ _
  | readResume be xx yy sc =>
    exact rdLoop_setClosed be xx yy b _ _ _
  | writeU8 sc =>
    simp only [run, writeU8]
    split
    · rfl
    · unfold IO.store; split <;> rfl

theorem load_inv (s : IO) (h : Inv s) (hlt : s.iop < s.io2) : Inv s.load.1 ∧ s.load.1.io2 = s.io2 := by
  obtain ⟨h1, h2, h3⟩ := h
  unfold IO.load
  rw [if_pos ⟨hlt, by omega⟩]
  exact ⟨⟨by simp; omega, h2, h3⟩, rfl⟩

theorem rdLoop_inv (be : Bool) (xx yy : Nat) : ∀ (fuel : Nat) (s : IO) (sc : UInt64), Inv s →
    ∀ s', (rdLoop be xx yy fuel s sc).io? = some s' → Inv s' ∧ s'.io2 = s.io2
  | 0, _, _, _, _, h => by simp [rdLoop, Out.io?] at h
  | fuel + 1, s, sc, hi, s', h => by
    unfold rdLoop at h
    split at h
    · simp only [Out.io?, Option.some.injEq] at h
      subst h
      exact ⟨hi, rfl⟩
    · next hne =>
      have hlt : s.iop < s.io2 := by
        have : s.iop ≠ s.io2 := by simpa using hne
        have := hi.1
        omega
      have hl := load_inv s hi hlt
      dsimp only at h
      cases hr : rdRound be xx yy sc s.load.2 with
      | inr v =>
        rw [hr] at h
        simp only [Out.io?, Option.some.injEq] at h
        subst h
        exact hl
      | inl sc2 =>
        rw [hr] at h
        have := rdLoop_inv be xx yy fuel _ _ hl.1 s' h
        exact ⟨this.1, by rw [this.2, hl.2]⟩

theorem peekN_inv (be : Bool) : ∀ (n : Nat) (s : IO) (acc : UInt64) (k : Nat), Inv s → n ≤ s.io2 - s.iop →
    Inv (peekN be n s acc k).1 ∧ (peekN be n s acc k).1.io2 = s.io2
  | 0, _, _, _, h, _ => ⟨h, rfl⟩
  | n + 1, s, acc, k, h, hn => by
    have hl := load_inv s h (by omega)
    have hiop : s.load.1.iop = s.iop + 1 := by
      unfold IO.load; rw [if_pos ⟨by omega, by have := h.2.1; omega⟩]
    have key : ∀ a, Inv (peekN be n s.load.1 a (k + 1)).1 ∧ (peekN be n s.load.1 a (k + 1)).1.io2 = s.io2 := by
      intro a
      have := peekN_inv be n s.load.1 a (k + 1) hl.1 (by rw [hl.2, hiop]; omega)
      exact ⟨this.1, by rw [this.2, hl.2]⟩
    unfold peekN
    split
    · exact key _
    · exact key _

/-- **The templates are memory safe and keep `iop ≤ io2`.** From a reader/writer with
`iop ≤ io2 ≤ len` every load/store of every template is below `io2` (monitor flag stays set), `io2` is
not moved, and `iop ≤ io2` holds again afterwards — on the fall-through and on the suspension path.
(`skip?` needs `io2 - iop < 2^64`, the size of an addressable buffer.) -/
theorem suspend_templates_safe (c : Call) (s : IO) (h : Inv s) (hsz : s.io2 - s.iop < 2 ^ 64) :
    ∀ s', (run c s).io? = some s' → Inv s' ∧ s'.io2 = s.io2 := by
  intro s' hs
  cases c with
  | readU8 =>
    simp only [run, readU8] at hs
    split at hs
    · simp only [Out.io?, Option.some.injEq] at hs; subst hs; exact ⟨h, rfl⟩
    · next hne =>
      simp only [Out.io?, Option.some.injEq] at hs; subst hs
      exact load_inv s h (by have : s.iop ≠ s.io2 := by simpa using hne
                             have := h.1; omega)
  | skip1 =>
    simp only [run, skip1] at hs
    split at hs
    · simp only [Out.io?, Option.some.injEq] at hs; subst hs; exact ⟨h, rfl⟩
    · next hne =>
      simp only [Out.io?, Option.some.injEq] at hs; subst hs
      have : s.iop ≠ s.io2 := by simpa using hne
      exact ⟨⟨by have := h.1; simp; omega, h.2.1, h.2.2⟩, rfl⟩
  | skipN sc =>
    have hc := skip_conserves s sc h.1 hsz
    simp only [run] at hs
    cases hr : skipN s sc with
    | done s1 v =>
      rw [hr] at hs
      simp only [Out.io?, Option.some.injEq] at hs; subst hs
      have := hc.2 _ _ hr
      simp only [skipN] at hr
      split at hr
      · simp at hr
      · injection hr with ha _
        subst ha
        exact ⟨⟨this.2, h.2.1, h.2.2⟩, rfl⟩
    | shortRead s1 sc1 =>
      rw [hr] at hs
      simp only [Out.io?, Option.some.injEq] at hs; subst hs
      simp only [skipN] at hr
      split at hr
      · injection hr with ha _
        subst ha
        exact ⟨⟨Nat.le_refl _, h.2.1, h.2.2⟩, rfl⟩
      · simp at hr
    | shortWrite s1 sc1 => simp [skipN] at hr; split at hr <;> simp at hr
    | outOfFuel => simp [skipN] at hr; split at hr <;> simp at hr
  | readEnter be xx yy =>
    simp only [run, readUxxEnter] at hs
    split at hs
    · next hc =>
      simp only [Out.io?, Option.some.injEq] at hs; subst hs
      exact peekN_inv be _ s 0 0 h hc.1
    · exact rdLoop_inv be xx yy _ s 0 h s' hs
  | readResume be xx yy sc =>
    exact rdLoop_inv be xx yy _ s sc h s' hs
  | writeU8 sc =>
    simp only [run, writeU8] at hs
    split at hs
    · simp only [Out.io?, Option.some.injEq] at hs; subst hs; exact ⟨h, rfl⟩
    · next hne =>
      simp only [Out.io?, Option.some.injEq] at hs; subst hs
      have hlt : s.iop < s.io2 := by
        have : s.iop ≠ s.io2 := by simpa using hne
        have := h.1; omega
      unfold IO.store
      rw [if_pos ⟨hlt, by have := h.2.1; omega⟩]
      exact ⟨⟨by simp; omega, by simpa using h.2.1, h.2.2⟩, rfl⟩

/-- **A read suspension has consumed everything it was given** (the bounded-work core of the templates):
from a well-formed reader, when a template answers `$short read` the reader is left at `iop = io2` with
`io2` unmoved — so a caller that supplies at least one new byte per call sees at least one byte consumed
per call, and a template that needs `k` bytes finishes within `k + 1` calls. -/
theorem read_suspension_consumes_everything (c : Call) (s s' : IO) (sc : UInt64) (h : Inv s)
    (hsz : s.io2 - s.iop < 2 ^ 64) (hr : run c s = .shortRead s' sc) :
    s'.iop = s.io2 ∧ s'.io2 = s.io2 ∧ (s.iop < s.io2 → s.iop < s'.iop) := by
  have h1 := (suspension_justified c s s' sc).1 hr
  have h2 := suspend_templates_safe c s h hsz s' (by rw [hr]; rfl)
  refine ⟨by rw [h1, h2.2], h2.2, fun hlt => ?_⟩
  rw [h1, h2.2]
  exact hlt

/-- A write suspension leaves the writer untouched (nothing half-written). -/
theorem write_suspension_changes_nothing (c : Call) (s s' : IO) (sc : UInt64)
    (hr : run c s = .shortWrite s' sc) : s' = s ∧ s.iop = s.io2 := by
  have := (suspension_justified c s s' sc).2 hr
  exact ⟨this.2.1, by rw [← this.2.1]; exact this.1⟩

/-- Non-vacuity: a state satisfying `Inv` on which `read_u32le?` really suspends after consuming the
two available bytes, leaving the reader empty. -/
example : Inv ⟨#[1, 2, 3], 1, 3, false, true⟩ ∧
    isShortReadAt (run (.readEnter false 32 32) ⟨#[1, 2, 3], 1, 3, false, true⟩) 3 0x1000000000000302 = true := by
  refine ⟨⟨by decide, by decide, rfl⟩, ?_⟩
  decide

end WuffsVerif.Props.C03
