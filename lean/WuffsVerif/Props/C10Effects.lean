import WuffsVerif.Model.Effects
/-!
# C10 — a method declared pure leaves the receiver and all buffers unchanged

`pure_no_write`: if the effect rule (`tcheck`, mirroring lang/parse +
lang/check) accepts a program, then running any method declared pure — for
every receiver state, every buffer contents, every argument, every amount of
fuel — returns the very same `World` (receiver fields, receiver arrays, all
caller-owned buffers).  Proof: simultaneous induction on the fuel of the three
mutually recursive semantic functions, with the frame invariant "the only
writable slice local (`ls`) is null".
-/
namespace WuffsVerif.Props.C10

open WuffsVerif.Effects

/-- In a pure activation the writable slice local `ls` never points anywhere. -/
def PureFrame (fr : Frame) : Prop := (fr.slocs[0]?).join = none

theorem Eff.le_pure {e : Eff} (h : e.le .pure = true) : e = .pure := by
  cases e <;> simp [Eff.le] at h ⊢

/-- Every method of an accepted program passes both rule sets. -/
theorem tcheck_ok_method {p : Prog} (h : tcheck p = .ok) {m : Nat} {md : Method}
    (hm : p[m]? = some md) : md.parseOk = true ∧ md.checkOk p = true := by
  unfold tcheck at h
  split at h
  · cases h
  · split at h
    · cases h
    · rename_i h1 h2
      have hmem : md ∈ p := List.mem_of_getElem? hm
      have h1' : p.all Method.parseOk = true := by simpa using h1
      have h2' : p.all (Method.checkOk p) = true := by simpa using h2
      exact ⟨(List.all_eq_true.1 h1') md hmem, (List.all_eq_true.1 h2') md hmem⟩

theorem effect_add {l r : Expr} (h : (Expr.add l r).effect = .pure) :
    l.effect = .pure ∧ r.effect = .pure := by
  simp only [Expr.effect] at h
  split at h
  · cases h
  · rename_i hl
    exact ⟨by cases hle : l.effect <;> simp_all, h⟩

theorem effect_call {mk : Eff} {m : Nat} {a : Expr} (h : (Expr.call mk m a).effect = .pure) :
    mk = .pure ∧ a.effect = .pure := by
  simp only [Expr.effect] at h
  split at h
  · cases h
  · rename_i hm
    exact ⟨by cases mk <;> simp_all, h⟩

/-- The three statements proved together, for a fixed amount of fuel. -/
structure PureAt (p : Prog) (fuel : Nat) : Prop where
  expr : ∀ (e : Expr) (w : World) (fr : Frame) (v : Nat) (w' : World),
    e.effect = .pure → e.checkOk p = true → evalE p fuel e w fr = some (v, w') → w' = w
  call : ∀ (m : Nat) (md : Method) (x : Nat) (caller : Frame) (w : World) (r : Nat) (w' : World),
    p[m]? = some md → md.eff = .pure → callM p fuel m x caller w = some (r, w') → w' = w
  stmt : ∀ (s : Stmt) (w : World) (fr : Frame) (w' : World) (fr' : Frame),
    s.parseOk .pure = true → s.checkOk p .pure = true → PureFrame fr →
    execS p fuel .pure s w fr = some (w', fr') → w' = w ∧ PureFrame fr'

theorem pureAt_zero (p : Prog) : PureAt p 0 where
  expr := by intro e w fr v w' _ _ h; simp [evalE] at h
  call := by intro m md x c w r w' _ _ h; simp [callM] at h
  stmt := by intro s w fr w' fr' _ _ _ h'; simp [execS] at h'

theorem pureFrame_set_ne {fr : Frame} {v : Nat} (x : Option Ptr) (hv : v ≠ 0) (h : PureFrame fr) :
    PureFrame { fr with slocs := fr.slocs.set v x } := by
  unfold PureFrame at h ⊢
  simp only
  rw [List.getElem?_set_ne (by omega)]
  exact h

theorem pureFrame_set_none {fr : Frame} (h : PureFrame fr) :
    PureFrame { fr with slocs := fr.slocs.set 0 none } := by
  unfold PureFrame at h ⊢
  simp only
  cases hs : fr.slocs with
  | nil => simp
  | cons a t => simp

theorem pureAt_succ (p : Prog) (hp : tcheck p = .ok) (fuel : Nat) (ih : PureAt p fuel) :
    PureAt p (fuel + 1) where
  expr := by
    intro e w fr v w' he hc h
    cases e with
    | lit n => simp [evalE] at h; exact h.2.symm
    | loc x => simp [evalE] at h; exact h.2.symm
    | fld f => simp [evalE] at h; exact h.2.symm
    | arg => simp [evalE] at h; exact h.2.symm
    | arr f i => simp [evalE] at h; exact h.2.symm
    | add l r =>
      obtain ⟨hl, hr⟩ := effect_add he
      simp only [Expr.checkOk, Bool.and_eq_true] at hc
      simp only [evalE] at h
      cases h1 : evalE p fuel l w fr with
      | none => simp [h1] at h
      | some r1 =>
        obtain ⟨a, w1⟩ := r1
        simp only [h1] at h
        cases h2 : evalE p fuel r w1 fr with
        | none => simp [h2] at h
        | some r2 =>
          obtain ⟨b, w2⟩ := r2
          simp only [h2, Option.some.injEq, Prod.mk.injEq] at h
          have e1 := ih.expr l w fr a w1 hl hc.1 h1
          have e2 := ih.expr r w1 fr b w2 hr hc.2 h2
          rw [← h.2, e2, e1]
    | call mk m a =>
      obtain ⟨hmk, ha⟩ := effect_call he
      subst hmk
      simp only [Expr.checkOk, Bool.and_eq_true] at hc
      simp only [evalE] at h
      cases h1 : evalE p fuel a w fr with
      | none => simp [h1] at h
      | some r1 =>
        obtain ⟨x, w1⟩ := r1
        simp only [h1] at h
        have e1 := ih.expr a w fr x w1 ha hc.2 h1
        have hce := hc.1
        unfold calleeEff at hce
        cases hm : p[m]? with
        | none => simp [hm] at hce
        | some md =>
          simp only [hm, Option.map_some, Option.some.injEq] at hce
          have := ih.call m md x fr w1 v w' hm (by simpa using hce) h
          rw [this, e1]
  call := by
    intro m md x caller w r w' hm heff h
    simp only [callM, hm] at h
    obtain ⟨hpo, hco⟩ := tcheck_ok_method hp hm
    simp only [Method.parseOk, Bool.and_eq_true, decide_eq_true_eq] at hpo
    simp only [Method.checkOk, Bool.and_eq_true] at hco
    rw [heff] at hpo hco h
    cases h1 : execS p fuel .pure md.body w
        { x := x, locs := [0, 0], sargs := [(caller.slocs[0]?).join, (caller.slocs[1]?).join],
          slocs := [none, none], pal := caller.pal } with
    | none => simp [h1] at h
    | some r1 =>
      obtain ⟨w1, fr1⟩ := r1
      simp only [h1] at h
      have hs := ih.stmt md.body w _ w1 fr1 hpo.1.1 hco.1 (by simp [PureFrame]) h1
      have he := ih.expr md.result w1 fr1 r w' hpo.1.2 hco.2 h
      rw [he, hs.1]
  stmt := by
    intro s w fr w' fr' hpo hco hfr h
    cases s with
    | skip =>
      simp [execS] at h
      exact ⟨h.1.symm, h.2 ▸ hfr⟩
    | seq a b =>
      simp only [Stmt.parseOk, Bool.and_eq_true] at hpo
      simp only [Stmt.checkOk, Bool.and_eq_true] at hco
      simp only [execS] at h
      cases h1 : execS p fuel .pure a w fr with
      | none => simp [h1] at h
      | some r1 =>
        obtain ⟨w1, fr1⟩ := r1
        simp only [h1] at h
        obtain ⟨e1, f1⟩ := ih.stmt a w fr w1 fr1 hpo.1 hco.1 hfr h1
        obtain ⟨e2, f2⟩ := ih.stmt b w1 fr1 w' fr' hpo.2 hco.2 f1 h
        exact ⟨by rw [e2, e1], f2⟩
    | ite c t e =>
      simp only [Stmt.parseOk, Bool.and_eq_true, decide_eq_true_eq] at hpo
      simp only [Stmt.checkOk, Bool.and_eq_true] at hco
      simp only [execS] at h
      cases h1 : evalE p fuel c w fr with
      | none => simp [h1] at h
      | some r1 =>
        obtain ⟨v, w1⟩ := r1
        simp only [h1] at h
        have e1 := ih.expr c w fr v w1 hpo.1.1.1 hco.1.1 h1
        subst e1
        split at h
        · exact ih.stmt t _ fr w' fr' hpo.1.2 hco.1.2 hfr h
        · exact ih.stmt e _ fr w' fr' hpo.2 hco.2 hfr h
    | setLoc x e =>
      simp only [Stmt.parseOk, Bool.and_eq_true] at hpo
      simp only [Stmt.checkOk] at hco
      simp only [execS] at h
      cases h1 : evalE p fuel e w fr with
      | none => simp [h1] at h
      | some r1 =>
        obtain ⟨v, w1⟩ := r1
        simp only [h1, Option.some.injEq, Prod.mk.injEq] at h
        have e1 := ih.expr e w fr v w1 (Eff.le_pure hpo.2) hco h1
        refine ⟨by rw [← h.1, e1], ?_⟩
        rw [← h.2]; exact hfr
    | setFld f e => simp [Stmt.parseOk] at hpo
    | setArg e => simp [Stmt.parseOk] at hpo
    | setArr f i e => simp [Stmt.parseOk] at hpo
    | setBuf r e =>
      simp only [Stmt.parseOk, Bool.and_eq_true, Bool.or_eq_true, Bool.not_eq_true',
        decide_eq_true_eq] at hpo
      simp only [Stmt.checkOk, Bool.and_eq_true, Bool.not_eq_true'] at hco
      simp only [execS] at h
      cases h1 : evalE p fuel e w fr with
      | none => simp [h1] at h
      | some r1 =>
        obtain ⟨v, w1⟩ := r1
        simp only [h1, Option.some.injEq, Prod.mk.injEq] at h
        have e1 := ih.expr e w fr v w1 hpo.1.2 hco.2 h1
        have hnull : r.eval fr = none := by
          cases r with
          | arg i => rcases hpo.1.1 with h' | h' <;> simp [SRef.rootedAtThisOrArgs] at h'
          | fld f => rcases hpo.1.1 with h' | h' <;> simp [SRef.rootedAtThisOrArgs] at h'
          | pal => rcases hpo.1.1 with h' | h' <;> simp [SRef.rootedAtThisOrArgs] at h'
          | loc x =>
            have : x = 0 := by
              have := hco.1
              simp [SRef.readOnly] at this
              exact this
            subst this
            exact hfr
        rw [hnull] at h
        refine ⟨by rw [← h.1]; simpa [World.poke] using e1, ?_⟩
        rw [← h.2]; exact hfr
    | bind x r =>
      simp only [Stmt.checkOk, Bool.or_eq_true, Bool.not_eq_true', decide_eq_true_eq] at hco
      simp only [execS, Option.some.injEq, Prod.mk.injEq] at h
      refine ⟨h.1.symm, ?_⟩
      rw [← h.2]
      by_cases hx : x = 0
      · subst hx
        have hro : r.readOnly .pure = false := by
          rcases hco with h' | h'
          · exact absurd rfl h'
          · exact h'
        have hnull : r.eval fr = none := by
          cases r with
          | arg i => simp [SRef.readOnly] at hro
          | fld f => simp [SRef.readOnly] at hro
          | pal => simp [SRef.readOnly] at hro
          | loc y =>
            have : y = 0 := by simpa [SRef.readOnly] using hro
            subst this
            exact hfr
        rw [hnull]
        exact pureFrame_set_none hfr
      · exact pureFrame_set_ne _ hx hfr
    | copy mk d r =>
      simp only [Stmt.parseOk] at hpo
      simp only [Stmt.checkOk, Bool.and_eq_true, decide_eq_true_eq] at hco
      have := Eff.le_pure hpo
      rw [this] at hco
      exact absurd hco.1 (by decide)
    | callS mk m a =>
      simp only [Stmt.parseOk, Bool.and_eq_true, decide_eq_true_eq] at hpo
      simp only [Stmt.checkOk, Bool.and_eq_true] at hco
      have hmk := Eff.le_pure hpo.2
      subst hmk
      simp only [execS] at h
      cases h1 : evalE p fuel a w fr with
      | none => simp [h1] at h
      | some r1 =>
        obtain ⟨x, w1⟩ := r1
        simp only [h1] at h
        have e1 := ih.expr a w fr x w1 hpo.1.1 hco.2 h1
        cases h2 : callM p fuel m x fr w1 with
        | none => simp [h2] at h
        | some r2 =>
          obtain ⟨rv, w2⟩ := r2
          simp only [h2, Option.some.injEq, Prod.mk.injEq] at h
          have hce := hco.1
          unfold calleeEff at hce
          cases hm : p[m]? with
          | none => simp [hm] at hce
          | some md =>
            simp only [hm, Option.map_some, Option.some.injEq] at hce
            have e2 := ih.call m md x fr w1 rv w2 hm (by simpa using hce) h2
            refine ⟨by rw [← h.1, e2, e1], ?_⟩
            rw [← h.2]; exact hfr

theorem pureAt_all (p : Prog) (hp : tcheck p = .ok) : ∀ fuel, PureAt p fuel
  | 0 => pureAt_zero p
  | n + 1 => pureAt_succ p hp n (pureAt_all p hp n)

/-- **pure_no_write**: in a program the effect rule accepts, calling a method
    declared pure — whatever the receiver state, the buffers, the argument,
    the caller's slices and the fuel — leaves the receiver's fields and arrays
    and every buffer unchanged (`World` equality is component-wise equality of
    `flds`, `arrs`, `heap`). -/
theorem pure_no_write (p : Prog) (hp : tcheck p = .ok) (fuel m : Nat) (md : Method)
    (hm : p[m]? = some md) (hpure : md.eff = .pure) (x : Nat) (caller : Frame) (w : World)
    (r : Nat) (w' : World) (h : callM p fuel m x caller w = some (r, w')) : w' = w :=
  (pureAt_all p hp fuel).call m md x caller w r w' hm hpure h

/-- Same, for pure expressions evaluated inside an impure method (e.g. a
    getter called from a decoder loop): effect-free expressions do not write. -/
theorem pure_expr_no_write (p : Prog) (hp : tcheck p = .ok) (fuel : Nat) (e : Expr)
    (he : e.effect = .pure) (hc : e.checkOk p = true) (w : World) (fr : Frame) (v : Nat) (w' : World)
    (h : evalE p fuel e w fr = some (v, w')) : w' = w :=
  (pureAt_all p hp fuel).expr e w fr v w' he hc h

/-! ### the rule really is needed, and the theorem is not vacuous -/

/-- An accepted program with a pure and an impure method; the pure one runs. -/
def demo : Prog :=
  [ ⟨.pure, .seq (.setLoc 0 (.add .arg (.fld 0))) (.bind 1 (.fld 0)), .add (.loc 0) (.arr 0 1)⟩,
    ⟨.impure, .seq (.setFld 0 (.call .pure 0 (.lit 5))) (.setBuf (.arg 0) (.lit 7)), .fld 0⟩ ]

def demoWorld : World := ⟨[10, 20], [[1, 2, 3, 4], [5, 6, 7, 8]], [[9, 9], [0]]⟩
def demoCaller : Frame := ⟨0, [0, 0], [none, none], [some (.buf 0), none], none⟩

example : tcheck demo = .ok := by decide
example : callM demo 20 0 3 demoCaller demoWorld = some (15, demoWorld) := by decide
/-- the impure method does change the world (the semantics can observe writes) -/
example : (callM demo 20 1 3 demoCaller demoWorld).map (·.2 == demoWorld) = some false := by decide

/-- The checker rejects each way a pure body could write. -/
example : tcheck [⟨.pure, .setFld 0 (.lit 1), .lit 0⟩] = .rejectParse := by decide
example : tcheck [⟨.pure, .setArr 0 1 (.lit 1), .lit 0⟩] = .rejectParse := by decide
example : tcheck [⟨.pure, .setBuf (.arg 0) (.lit 1), .lit 0⟩] = .rejectParse := by decide
example : tcheck [⟨.pure, .seq (.bind 0 (.arg 0)) (.setBuf (.loc 0) (.lit 1)), .lit 0⟩] = .rejectCheck := by decide
example : tcheck [⟨.pure, .seq (.bind 0 .pal) (.setBuf (.loc 0) (.lit 1)), .lit 0⟩] = .rejectCheck := by decide
example : tcheck [⟨.pure, .seq (.bind 1 (.arg 0)) (.setBuf (.loc 1) (.lit 1)), .lit 0⟩] = .rejectCheck := by decide
example : tcheck [⟨.pure, .copy .impure (.loc 0) (.arg 1), .lit 0⟩] = .rejectParse := by decide
example : tcheck [⟨.impure, .setFld 0 (.lit 1), .lit 0⟩, ⟨.pure, .callS .impure 0 (.lit 1), .lit 0⟩] = .rejectParse := by decide
example : tcheck [⟨.impure, .setFld 0 (.lit 1), .lit 0⟩, ⟨.pure, .callS .pure 0 (.lit 1), .lit 0⟩] = .rejectCheck := by decide

/-- Without the repair of `tcheckExprCall` (call results writable in a pure
    function: `SRef.readOnly .pure .pal = false`) the theorem would be false:
    this pure method, which the unrepaired checker accepted, writes to the
    palette buffer. -/
example :
    (execS [] 5 .pure (.seq (.bind 0 .pal) (.setBuf (.loc 0) (.lit 1))) ⟨[], [], [[4, 4]]⟩
      ⟨0, [], [], [none, none], some (.buf 0)⟩).map (·.1.heap) = some [[1, 4]] := by decide

end WuffsVerif.Props.C10
