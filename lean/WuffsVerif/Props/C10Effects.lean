import WuffsVerif.Model.Effects
/-!
# C10 — a method declared pure leaves the receiver and all buffers unchanged

`pure_no_write`: if the effect rule (`tcheck`, mirroring lang/parse +
lang/check) accepts a program, then running any method declared pure — for
every receiver state, every buffer contents, every argument, every amount of
fuel — returns the very same `World` (receiver fields, receiver arrays, all
caller-owned buffers).  Proof: simultaneous induction on the fuel of the three
mutually recursive semantic functions, with the frame invariant "the only
writable slice local (`ls`) is null".
-/
namespace WuffsVerif.Props.C10

open WuffsVerif.Effects

/-- In a pure activation the writable slice local `ls` never points anywhere. -/
def PureFrame (fr : Frame) : Prop := (fr.slocs[0]?).join = none

theorem Eff.le_pure {e : Eff} (h : e.le .pure = true) : e = .pure := by
  cases e <;> simp [Eff.le] at h ⊢

/-- Every method of an accepted program passes both rule sets. -/
theorem tcheck_ok_method {p : Prog} (h : tcheck p = .ok) {m : Nat} {md : Method}
    (hm : p[m]? = some md) : md.parseOk = true ∧ md.checkOk p = true := by
  unfold tcheck at h
  split at h
  · cases h
  · split at h
    · cases h
    · rename_i h1 h2
      have hmem : md ∈ p := List.mem_of_getElem? hm
      have h1' : p.all Method.parseOk = true := by simpa using h1
      have h2' : p.all (Method.checkOk p) = true := by simpa using h2
      exact ⟨(List.all_eq_true.1 h1') md hmem, (List.all_eq_true.1 h2') md hmem⟩

theorem effect_add {l r : Expr} (h : (Expr.add l r).effect = .pure) :
    l.effect = .pure ∧ r.effect = .pure := by
  simp only [Expr.effect] at h
  split at h
  · cases h
  · rename_i hl
    exact ⟨by cases hle : l.effect <;> simp_all, h⟩

theorem effect_call {mk : Eff} {m : Nat} {a : Expr} (h : (Expr.call mk m a).effect = .pure) :
    mk = .pure ∧ a.effect = .pure := by
  simp only [Expr.effect] at h
  split at h
  · cases h
  · rename_i hm
    exact ⟨by cases mk <;> simp_all, h⟩

/-- The three statements proved together, for a fixed amount of fuel. -/
structure PureAt (p : Prog) (fuel : Nat) : Prop where
  expr : ∀ (e : Expr) (w : World) (fr : Frame) (v : Nat) (w' : World),
    e.effect = .pure → e.checkOk p = true → evalE p fuel e w fr = some (v, w') → w' = w
  call : ∀ (m : Nat) (md : Method) (x : Nat) (caller : Frame) (w : World) (r : Nat) (w' : World),
    p[m]? = some md → md.eff = .pure → callM p fuel m x caller w = some (r, w') → w' = w
  stmt : ∀ (s : Stmt) (w : World) (fr : Frame) (w' : World) (fr' : Frame),
    s.parseOk .pure = true → s.checkOk p .pure = true → PureFrame fr →
    execS p fuel .pure s w fr = some (w', fr') → w' = w ∧ PureFrame fr'

theorem pureAt_zero (p : Prog) : PureAt p 0 where
  expr := by intro e w fr v w' _ _ h; simp [evalE] at h
  call := by intro m md x c w r w' _ _ h; simp [callM] at h
  stmt := by intro s w fr w' fr' _ _ _ h'; simp [execS] at h'

theorem pureFrame_set_ne {fr : Frame} {v : Nat} (x : Option Ptr) (hv : v ≠ 0) (h : PureFrame fr) :
    PureFrame { fr with slocs := fr.slocs.set v x } := by
  unfold PureFrame at h ⊢
  simp only
  rw [List.getElem?_set_ne (by omega)]
  exact h

theorem pureFrame_set_none {fr : Frame} (h : PureFrame fr) :
    PureFrame { fr with slocs := fr.slocs.set 0 none } := by
  unfold PureFrame at h ⊢
  simp only
  cases hs : fr.slocs with
  | nil => simp
  | cons a t => simp

/-- Evaluating an optional bound that passes both rule sets does not change the world. -/
theorem evalOpt_pure {p : Prog} {fuel : Nat} (ih : PureAt p fuel) (fr : Frame) (o : Option Expr)
    (w : World) (v : Nat) (w' : World) (he : optEffect o = .pure) (hc : optCheckOk p o = true)
    (h : evalOpt (fun e w => evalE p fuel e w fr) o w = some (v, w')) : w' = w := by
  cases o with
  | none => simp [evalOpt] at h; exact h.2.symm
  | some e => exact ih.expr e w fr v w' he hc h

theorem sref_effect_sub {f : Nat} {lo hi : Option Expr} (h : (SRef.sub f lo hi).effect = .pure) :
    optEffect lo = .pure ∧ optEffect hi = .pure := by
  simp only [SRef.effect] at h
  split at h
  · cases h
  · rename_i hl
    exact ⟨by cases hle : optEffect lo <;> simp_all, h⟩

/-- Evaluating a slice expression whose bounds are effect-free (as the parser
    demands) and well-marked does not change the world. -/
theorem evalWith_pure {p : Prog} {fuel : Nat} (ih : PureAt p fuel) (fr : Frame) (s : SRef)
    (w : World) (q : Option Ptr) (w' : World) (hpo : s.parseOk = true) (hco : s.checkOk p = true)
    (h : s.evalWith (fun e w => evalE p fuel e w fr) fr w = some (q, w')) : w' = w := by
  cases s with
  | arg i => simp [SRef.evalWith] at h; exact h.2.symm
  | loc v => simp [SRef.evalWith] at h; exact h.2.symm
  | fld f => simp [SRef.evalWith] at h; exact h.2.symm
  | pal => simp [SRef.evalWith] at h; exact h.2.symm
  | sub f lo hi =>
    simp only [SRef.parseOk, Bool.and_eq_true, decide_eq_true_eq] at hpo
    obtain ⟨hlo, hhi⟩ := sref_effect_sub hpo.1
    simp only [SRef.checkOk, Bool.and_eq_true] at hco
    simp only [SRef.evalWith] at h
    cases h1 : evalOpt (fun e w => evalE p fuel e w fr) lo w with
    | none => simp [h1] at h
    | some r1 =>
      obtain ⟨l, w1⟩ := r1
      simp only [h1] at h
      cases h2 : evalOpt (fun e w => evalE p fuel e w fr) hi w1 with
      | none => simp [h2] at h
      | some r2 =>
        obtain ⟨hv, w2⟩ := r2
        simp only [h2, Option.some.injEq, Prod.mk.injEq] at h
        have e1 := evalOpt_pure ih fr lo w l w1 hlo hco.1 h1
        have e2 := evalOpt_pure ih fr hi w1 hv w2 hhi hco.2 h2
        rw [← h.2, e2, e1]

/-- In a pure function only a local can evaluate to a writable slice value, and
    in a pure frame it is null: every slice expression that may be stored
    through (`readOnly .pure = false`) evaluates to the null slice. -/
theorem evalWith_writable_null {ev : Expr → World → Option (Nat × World)} {fr : Frame} {s : SRef}
    {w : World} {q : Option Ptr} {w' : World} (hro : s.readOnly .pure = false) (hfr : PureFrame fr)
    (h : s.evalWith ev fr w = some (q, w')) : q = none := by
  cases s with
  | arg i => simp [SRef.readOnly] at hro
  | fld f => simp [SRef.readOnly] at hro
  | pal => simp [SRef.readOnly] at hro
  | sub f lo hi => simp [SRef.readOnly] at hro
  | loc y =>
    have : y = 0 := by simpa [SRef.readOnly] using hro
    subst this
    simp only [SRef.evalWith, Option.some.injEq, Prod.mk.injEq] at h
    rw [← h.1]; exact hfr

theorem pureAt_succ (p : Prog) (hp : tcheck p = .ok) (fuel : Nat) (ih : PureAt p fuel) :
    PureAt p (fuel + 1) where
  expr := by
    intro e w fr v w' he hc h
    cases e with
    | lit n => simp [evalE] at h; exact h.2.symm
    | loc x => simp [evalE] at h; exact h.2.symm
    | fld f => simp [evalE] at h; exact h.2.symm
    | arg => simp [evalE] at h; exact h.2.symm
    | arr f i => simp [evalE] at h; exact h.2.symm
    | add l r =>
      obtain ⟨hl, hr⟩ := effect_add he
      simp only [Expr.checkOk, Bool.and_eq_true] at hc
      simp only [evalE] at h
      cases h1 : evalE p fuel l w fr with
      | none => simp [h1] at h
      | some r1 =>
        obtain ⟨a, w1⟩ := r1
        simp only [h1] at h
        cases h2 : evalE p fuel r w1 fr with
        | none => simp [h2] at h
        | some r2 =>
          obtain ⟨b, w2⟩ := r2
          simp only [h2, Option.some.injEq, Prod.mk.injEq] at h
          have e1 := ih.expr l w fr a w1 hl hc.1 h1
          have e2 := ih.expr r w1 fr b w2 hr hc.2 h2
          rw [← h.2, e2, e1]
    | call mk m a =>
      obtain ⟨hmk, ha⟩ := effect_call he
      subst hmk
      simp only [Expr.checkOk, Bool.and_eq_true] at hc
      simp only [evalE] at h
      cases h1 : evalE p fuel a w fr with
      | none => simp [h1] at h
      | some r1 =>
        obtain ⟨x, w1⟩ := r1
        simp only [h1] at h
        have e1 := ih.expr a w fr x w1 ha hc.2 h1
        have hce := hc.1
        unfold calleeEff at hce
        cases hm : p[m]? with
        | none => simp [hm] at hce
        | some md =>
          simp only [hm, Option.map_some, Option.some.injEq] at hce
          have := ih.call m md x fr w1 v w' hm (by simpa using hce) h
          rw [this, e1]
  call := by
    intro m md x caller w r w' hm heff h
    simp only [callM, hm] at h
    obtain ⟨hpo, hco⟩ := tcheck_ok_method hp hm
    simp only [Method.parseOk, Bool.and_eq_true, decide_eq_true_eq] at hpo
    simp only [Method.checkOk, Bool.and_eq_true] at hco
    rw [heff] at hpo hco h
    cases h1 : execS p fuel .pure md.body w
        { x := x, vi := 0, locs := [0, 0], sargs := [(caller.slocs[0]?).join, (caller.slocs[1]?).join],
          slocs := [none, none], pal := caller.pal } with
    | none => simp [h1] at h
    | some r1 =>
      obtain ⟨w1, fr1⟩ := r1
      simp only [h1] at h
      have hs := ih.stmt md.body w _ w1 fr1 hpo.1.1 hco.1 (by simp [PureFrame]) h1
      cases h2 : evalE p fuel md.result w1 fr1 with
      | none => simp [h2] at h
      | some r2 =>
        obtain ⟨v, w2⟩ := r2
        simp only [h2, Option.some.injEq, Prod.mk.injEq] at h
        have he := ih.expr md.result w1 fr1 v w2 hpo.1.2 hco.2 h2
        rw [← h.2, he, hs.1]
  stmt := by
    intro s w fr w' fr' hpo hco hfr h
    cases s with
    | skip =>
      simp [execS] at h
      exact ⟨h.1.symm, h.2 ▸ hfr⟩
    | seq a b =>
      simp only [Stmt.parseOk, Bool.and_eq_true] at hpo
      simp only [Stmt.checkOk, Bool.and_eq_true] at hco
      simp only [execS] at h
      cases h1 : execS p fuel .pure a w fr with
      | none => simp [h1] at h
      | some r1 =>
        obtain ⟨w1, fr1⟩ := r1
        simp only [h1] at h
        obtain ⟨e1, f1⟩ := ih.stmt a w fr w1 fr1 hpo.1 hco.1 hfr h1
        obtain ⟨e2, f2⟩ := ih.stmt b w1 fr1 w' fr' hpo.2 hco.2 f1 h
        exact ⟨by rw [e2, e1], f2⟩
    | ite c t e =>
      simp only [Stmt.parseOk, Bool.and_eq_true, decide_eq_true_eq] at hpo
      simp only [Stmt.checkOk, Bool.and_eq_true] at hco
      simp only [execS] at h
      cases h1 : evalE p fuel c w fr with
      | none => simp [h1] at h
      | some r1 =>
        obtain ⟨v, w1⟩ := r1
        simp only [h1] at h
        have e1 := ih.expr c w fr v w1 hpo.1.1.1 hco.1.1 h1
        subst e1
        split at h
        · exact ih.stmt t _ fr w' fr' hpo.1.2 hco.1.2 hfr h
        · exact ih.stmt e _ fr w' fr' hpo.2 hco.2 hfr h
    | loop c b =>
      simp only [Stmt.parseOk, Bool.and_eq_true, decide_eq_true_eq] at hpo
      simp only [Stmt.checkOk, Bool.and_eq_true] at hco
      simp only [execS] at h
      split at h
      · cases h1 : evalE p fuel c w fr with
        | none => simp [h1] at h
        | some r1 =>
          obtain ⟨v, w1⟩ := r1
          simp only [h1] at h
          have e1 := ih.expr c w fr v w1 hpo.1.1 hco.1 h1
          subst e1
          split at h
          · cases h2 : execS p fuel .pure b w1 { fr with vi := fr.vi + 1 } with
            | none => simp [h2] at h
            | some r2 =>
              obtain ⟨w2, fr2⟩ := r2
              simp only [h2] at h
              obtain ⟨e2, f2⟩ := ih.stmt b w1 _ w2 fr2 hpo.2 hco.2 (by simpa [PureFrame] using hfr) h2
              obtain ⟨e3, f3⟩ := ih.stmt (.loop c b) w2 fr2 w' fr'
                (by simp [Stmt.parseOk, hpo.1.1, hpo.1.2, hpo.2]) (by simp [Stmt.checkOk, hco.1, hco.2]) f2 h
              exact ⟨by rw [e3, e2], f3⟩
          · simp only [Option.some.injEq, Prod.mk.injEq] at h
            exact ⟨h.1.symm, h.2 ▸ hfr⟩
      · simp only [Option.some.injEq, Prod.mk.injEq] at h
        exact ⟨h.1.symm, h.2 ▸ hfr⟩
    | setLoc x e =>
      simp only [Stmt.parseOk, Bool.and_eq_true] at hpo
      simp only [Stmt.checkOk] at hco
      simp only [execS] at h
      cases h1 : evalE p fuel e w fr with
      | none => simp [h1] at h
      | some r1 =>
        obtain ⟨v, w1⟩ := r1
        simp only [h1, Option.some.injEq, Prod.mk.injEq] at h
        have e1 := ih.expr e w fr v w1 (Eff.le_pure hpo.2) hco h1
        refine ⟨by rw [← h.1, e1], ?_⟩
        rw [← h.2]; exact hfr
    | setFld f e => simp [Stmt.parseOk] at hpo
    | setArg e => simp [Stmt.parseOk] at hpo
    | setArr f i e => simp [Stmt.parseOk] at hpo
    | setBuf r e =>
      simp only [Stmt.parseOk, Bool.and_eq_true, Bool.or_eq_true, Bool.not_eq_true',
        decide_eq_true_eq] at hpo
      simp only [Stmt.checkOk, Bool.and_eq_true, Bool.not_eq_true'] at hco
      simp only [execS] at h
      cases h1 : evalE p fuel e w fr with
      | none => simp [h1] at h
      | some r1 =>
        obtain ⟨v, w1⟩ := r1
        simp only [h1] at h
        have e1 := ih.expr e w fr v w1 hpo.1.1.2 hco.1.2 h1
        cases h2 : r.evalWith (fun e w => evalE p fuel e w fr) fr w1 with
        | none => simp [h2] at h
        | some r2 =>
          obtain ⟨q, w2⟩ := r2
          simp only [h2, Option.some.injEq, Prod.mk.injEq] at h
          have e2 := evalWith_pure ih fr r w1 q w2 (by simpa [SRef.parseOk] using hpo.2) hco.2 h2
          have hnull : q = none := evalWith_writable_null hco.1.1 hfr h2
          subst hnull
          refine ⟨by rw [← h.1, e2]; simpa [World.poke] using e1, ?_⟩
          rw [← h.2]; exact hfr
    | bind x r =>
      simp only [Stmt.parseOk] at hpo
      simp only [Stmt.checkOk, Bool.and_eq_true, Bool.or_eq_true, Bool.not_eq_true',
        decide_eq_true_eq] at hco
      simp only [execS] at h
      cases h2 : r.evalWith (fun e w => evalE p fuel e w fr) fr w with
      | none => simp [h2] at h
      | some r2 =>
        obtain ⟨q, w1⟩ := r2
        simp only [h2, Option.some.injEq, Prod.mk.injEq] at h
        have e2 := evalWith_pure ih fr r w q w1 hpo hco.2 h2
        refine ⟨by rw [← h.1, e2], ?_⟩
        rw [← h.2]
        by_cases hx : x = 0
        · subst hx
          have hro : r.readOnly .pure = false := by
            rcases hco.1 with h' | h'
            · exact absurd rfl h'
            · exact h'
          have hnull : q = none := evalWith_writable_null hro hfr h2
          rw [hnull]
          exact pureFrame_set_none hfr
        · exact pureFrame_set_ne _ hx hfr
    | copy mk d r =>
      simp only [Stmt.parseOk, Bool.and_eq_true] at hpo
      simp only [Stmt.checkOk, Bool.and_eq_true, decide_eq_true_eq] at hco
      have := Eff.le_pure hpo.1.1
      rw [this] at hco
      exact absurd hco.1.1.1 (by decide)
    | choose => simp [Stmt.parseOk] at hpo
    | callS mk m a =>
      simp only [Stmt.parseOk, Bool.and_eq_true, decide_eq_true_eq] at hpo
      simp only [Stmt.checkOk, Bool.and_eq_true] at hco
      have hmk := Eff.le_pure hpo.2
      subst hmk
      simp only [execS] at h
      cases h1 : evalE p fuel a w fr with
      | none => simp [h1] at h
      | some r1 =>
        obtain ⟨x, w1⟩ := r1
        simp only [h1] at h
        have e1 := ih.expr a w fr x w1 hpo.1.1 hco.2 h1
        cases h2 : callM p fuel m x fr w1 with
        | none => simp [h2] at h
        | some r2 =>
          obtain ⟨rv, w2⟩ := r2
          simp only [h2, Option.some.injEq, Prod.mk.injEq] at h
          have hce := hco.1
          unfold calleeEff at hce
          cases hm : p[m]? with
          | none => simp [hm] at hce
          | some md =>
            simp only [hm, Option.map_some, Option.some.injEq] at hce
            have e2 := ih.call m md x fr w1 rv w2 hm (by simpa using hce) h2
            refine ⟨by rw [← h.1, e2, e1], ?_⟩
            rw [← h.2]; exact hfr

theorem pureAt_all (p : Prog) (hp : tcheck p = .ok) : ∀ fuel, PureAt p fuel
  | 0 => pureAt_zero p
  | n + 1 => pureAt_succ p hp n (pureAt_all p hp n)

/-- **pure_no_write**: in a program the effect rule accepts, calling a method
    declared pure — whatever the receiver state, the buffers, the argument,
    the caller's slices and the fuel — leaves the receiver's fields and arrays
    and every buffer unchanged (`World` equality is component-wise equality of
    `flds`, `arrs`, `heap`). -/
theorem pure_no_write (p : Prog) (hp : tcheck p = .ok) (fuel m : Nat) (md : Method)
    (hm : p[m]? = some md) (hpure : md.eff = .pure) (x : Nat) (caller : Frame) (w : World)
    (r : Nat) (w' : World) (h : callM p fuel m x caller w = some (r, w')) : w' = w :=
  (pureAt_all p hp fuel).call m md x caller w r w' hm hpure h

/-- Same, for pure expressions evaluated inside an impure method (e.g. a
    getter called from a decoder loop): effect-free expressions do not write. -/
theorem pure_expr_no_write (p : Prog) (hp : tcheck p = .ok) (fuel : Nat) (e : Expr)
    (he : e.effect = .pure) (hc : e.checkOk p = true) (w : World) (fr : Frame) (v : Nat) (w' : World)
    (h : evalE p fuel e w fr = some (v, w')) : w' = w :=
  (pureAt_all p hp fuel).expr e w fr v w' he hc h


/-! ### what the rule means, declaratively

`effects.md` promises: a pure function cannot assign through `this` or `args`,
and cannot call an impure function.  `Stmt.clean` states that syntactically;
`accepted_pure_is_clean` shows that the mirrored parser + checker rules imply
it for every pure method of an accepted program. -/

end WuffsVerif.Props.C10

namespace WuffsVerif.Effects

/-- every call mark in an expression, outermost first -/
def Expr.marks : Expr → List Eff
  | .call mk _ a => mk :: a.marks
  | .add l r => l.marks ++ r.marks
  | _ => []

def optMarks : Option Expr → List Eff
  | none => []
  | some e => e.marks

def SRef.marks : SRef → List Eff
  | .sub _ lo hi => optMarks lo ++ optMarks hi
  | _ => []

/-- No store through `this` / `args`, no `copy_from_slice!`, no impure mark anywhere. -/
def Stmt.clean : Stmt → Prop
  | .skip => True
  | .seq a b => a.clean ∧ b.clean
  | .ite c t e => (∀ m ∈ c.marks, m = .pure) ∧ t.clean ∧ e.clean
  | .loop c b => (∀ m ∈ c.marks, m = .pure) ∧ b.clean
  | .setLoc _ e => ∀ m ∈ e.marks, m = .pure
  | .setFld _ _ => False
  | .setArg _ => False
  | .setArr _ _ _ => False
  | .setBuf s e => s.rootedAtThisOrArgs = false ∧ (∀ m ∈ s.marks, m = .pure) ∧ (∀ m ∈ e.marks, m = .pure)
  | .bind _ s => ∀ m ∈ s.marks, m = .pure
  | .copy _ _ _ => False
  | .choose => False
  | .callS mk _ a => mk = .pure ∧ ∀ m ∈ a.marks, m = .pure

end WuffsVerif.Effects

namespace WuffsVerif.Props.C10
open WuffsVerif.Effects

theorem effect_pure_iff (e : Expr) : e.effect = .pure ↔ ∀ m ∈ e.marks, m = .pure := by
  induction e with
  | call mk m a ih =>
    simp only [Expr.effect, Expr.marks, List.mem_cons, forall_eq_or_imp]
    cases mk <;> simp [ih]
  | add l r ihl ihr =>
    simp only [Expr.effect, Expr.marks, List.mem_append]
    constructor
    · intro h
      split at h
      · cases h
      · rename_i hl
        have hl' : l.effect = .pure := by cases hle : l.effect <;> simp_all
        intro m hm
        rcases hm with hm | hm
        · exact ihl.1 hl' m hm
        · exact ihr.1 h m hm
    · intro h
      have hl := ihl.2 (fun m hm => h m (Or.inl hm))
      have hr := ihr.2 (fun m hm => h m (Or.inr hm))
      simp [hl, hr]
  | _ => simp [Expr.effect, Expr.marks]

theorem optEffect_pure_iff (o : Option Expr) : optEffect o = .pure ↔ ∀ m ∈ optMarks o, m = .pure := by
  cases o with
  | none => simp [optEffect, optMarks]
  | some e => exact effect_pure_iff e

theorem sref_effect_pure_iff (s : SRef) : s.effect = .pure ↔ ∀ m ∈ s.marks, m = .pure := by
  cases s with
  | sub f lo hi =>
    simp only [SRef.marks, List.mem_append]
    constructor
    · intro h
      obtain ⟨h1, h2⟩ := sref_effect_sub h
      intro m hm
      rcases hm with hm | hm
      · exact (optEffect_pure_iff lo).1 h1 m hm
      · exact (optEffect_pure_iff hi).1 h2 m hm
    · intro h
      have h1 := (optEffect_pure_iff lo).2 (fun m hm => h m (Or.inl hm))
      have h2 := (optEffect_pure_iff hi).2 (fun m hm => h m (Or.inr hm))
      simp [SRef.effect, h1, h2]
  | _ => simp [SRef.effect, SRef.marks]

theorem le_pure_marks {e : Expr} (h : e.effect.le .pure = true) : ∀ m ∈ e.marks, m = .pure :=
  (effect_pure_iff e).1 (Eff.le_pure h)

/-- The parser's and the checker's rules for a pure function imply the
    syntactic promise of `effects.md`. -/
theorem clean_of_rules (p : Prog) : ∀ (s : Stmt), s.parseOk .pure = true → s.checkOk p .pure = true → s.clean
  | .skip, _, _ => trivial
  | .seq a b, hp, hc => by
    simp only [Stmt.parseOk, Bool.and_eq_true] at hp
    simp only [Stmt.checkOk, Bool.and_eq_true] at hc
    exact ⟨clean_of_rules p a hp.1 hc.1, clean_of_rules p b hp.2 hc.2⟩
  | .ite c t e, hp, hc => by
    simp only [Stmt.parseOk, Bool.and_eq_true, decide_eq_true_eq] at hp
    simp only [Stmt.checkOk, Bool.and_eq_true] at hc
    exact ⟨(effect_pure_iff c).1 hp.1.1.1, clean_of_rules p t hp.1.2 hc.1.2, clean_of_rules p e hp.2 hc.2⟩
  | .loop c b, hp, hc => by
    simp only [Stmt.parseOk, Bool.and_eq_true, decide_eq_true_eq] at hp
    simp only [Stmt.checkOk, Bool.and_eq_true] at hc
    exact ⟨(effect_pure_iff c).1 hp.1.1, clean_of_rules p b hp.2 hc.2⟩
  | .setLoc _ e, hp, _ => by
    simp only [Stmt.parseOk, Bool.and_eq_true] at hp
    exact le_pure_marks hp.2
  | .setFld _ _, hp, _ => by simp [Stmt.parseOk] at hp
  | .setArg _, hp, _ => by simp [Stmt.parseOk] at hp
  | .setArr _ _ _, hp, _ => by simp [Stmt.parseOk] at hp
  | .setBuf s e, hp, _ => by
    simp only [Stmt.parseOk, Bool.and_eq_true, Bool.or_eq_true, Bool.not_eq_true', decide_eq_true_eq,
      SRef.parseOk] at hp
    refine ⟨?_, (sref_effect_pure_iff s).1 hp.2.1, (effect_pure_iff e).1 hp.1.1.2⟩
    rcases hp.1.1.1 with h | h
    · exact h
    · cases h
  | .bind _ s, hp, _ => by
    simp only [Stmt.parseOk, SRef.parseOk, Bool.and_eq_true, decide_eq_true_eq] at hp
    exact (sref_effect_pure_iff s).1 hp.1
  | .copy mk _ _, hp, hc => by
    simp only [Stmt.parseOk, Bool.and_eq_true] at hp
    simp only [Stmt.checkOk, Bool.and_eq_true, decide_eq_true_eq] at hc
    have := Eff.le_pure hp.1.1
    rw [this] at hc
    exact absurd hc.1.1.1 (by decide)
  | .callS mk _ a, hp, _ => by
    simp only [Stmt.parseOk, Bool.and_eq_true, decide_eq_true_eq] at hp
    exact ⟨Eff.le_pure hp.2, (effect_pure_iff a).1 hp.1.1⟩
  | .choose, hp, _ => by simp [Stmt.parseOk] at hp

/-- **accepted_pure_is_clean**: in an accepted program every pure method's body
    is clean and its result expression carries no impure mark. -/
theorem accepted_pure_is_clean (p : Prog) (hp : tcheck p = .ok) (m : Nat) (md : Method)
    (hm : p[m]? = some md) (hpure : md.eff = .pure) :
    md.body.clean ∧ ∀ mk ∈ md.result.marks, mk = .pure := by
  obtain ⟨hpo, hco⟩ := tcheck_ok_method hp hm
  simp only [Method.parseOk, Bool.and_eq_true, decide_eq_true_eq] at hpo
  simp only [Method.checkOk, Bool.and_eq_true] at hco
  rw [hpure] at hpo hco
  exact ⟨clean_of_rules p md.body hpo.1.1 hco.1, (effect_pure_iff md.result).1 hpo.1.2⟩

/-! ### the rule really is needed, and the theorem is not vacuous -/

/-- An accepted program with a pure and an impure method; the pure one runs. -/
def demo : Prog :=
  [ ⟨.pure, .seq (.setLoc 0 (.add .arg (.fld 0))) (.bind 1 (.fld 0)), .add (.loc 0) (.arr 0 1)⟩,
    ⟨.impure, .seq (.setFld 0 (.call .pure 0 (.lit 5))) (.setBuf (.arg 0) (.lit 7)), .fld 0⟩ ]

def demoWorld : World := ⟨[10, 20], [[1, 2, 3, 4], [5, 6, 7, 8]], [[9, 9], [0]], 0⟩
def demoCaller : Frame := ⟨0, 0, [0, 0], [none, none], [some (.buf 0), none], none⟩

example : tcheck demo = .ok := by decide
example : callM demo 20 0 3 demoCaller demoWorld = some (3, demoWorld) := by decide
/-- the impure method does change the world (the semantics can observe writes) -/
example : (callM demo 20 1 3 demoCaller demoWorld).map (·.2 == demoWorld) = some false := by decide

/-- The checker rejects each way a pure body could write. -/
example : tcheck [⟨.pure, .setFld 0 (.lit 1), .lit 0⟩] = .rejectParse := by decide
example : tcheck [⟨.pure, .setArr 0 1 (.lit 1), .lit 0⟩] = .rejectParse := by decide
example : tcheck [⟨.pure, .setBuf (.arg 0) (.lit 1), .lit 0⟩] = .rejectParse := by decide
example : tcheck [⟨.pure, .seq (.bind 0 (.arg 0)) (.setBuf (.loc 0) (.lit 1)), .lit 0⟩] = .rejectCheck := by decide
example : tcheck [⟨.pure, .seq (.bind 0 .pal) (.setBuf (.loc 0) (.lit 1)), .lit 0⟩] = .rejectCheck := by decide
example : tcheck [⟨.pure, .seq (.bind 1 (.arg 0)) (.setBuf (.loc 1) (.lit 1)), .lit 0⟩] = .rejectCheck := by decide
example : tcheck [⟨.pure, .copy .impure (.loc 0) (.arg 1), .lit 0⟩] = .rejectParse := by decide
example : tcheck [⟨.impure, .setFld 0 (.lit 1), .lit 0⟩, ⟨.pure, .callS .impure 0 (.lit 1), .lit 0⟩] = .rejectParse := by decide
example : tcheck [⟨.impure, .setFld 0 (.lit 1), .lit 0⟩, ⟨.pure, .callS .pure 0 (.lit 1), .lit 0⟩] = .rejectCheck := by decide

/-- Slice bounds: an impure call hidden in the LOWER bound of a slice expression
    (the middle child of the AST node, `NewExpr`'s MHS) is an effect-ful
    sub-expression; so is one in the upper bound; a pure call there is fine, and
    slicing the receiver's array in a pure method gives a read-only slice. -/
example : tcheck [⟨.impure, .setFld 0 (.lit 1), .lit 0⟩,
    ⟨.pure, .bind 1 (.sub 0 (some (.call .impure 0 (.lit 2))) none), .lit 0⟩] = .rejectParse := by decide
example : tcheck [⟨.impure, .setFld 0 (.lit 1), .lit 0⟩,
    ⟨.pure, .bind 1 (.sub 0 none (some (.call .impure 0 (.lit 2)))), .lit 0⟩] = .rejectParse := by decide
example : tcheck [⟨.impure, .setFld 0 (.lit 1), .lit 0⟩,
    ⟨.impure, .bind 0 (.sub 0 (some (.call .impure 0 (.lit 2))) none), .lit 0⟩] = .rejectParse := by decide
example : tcheck [⟨.pure, .skip, .lit 0⟩,
    ⟨.pure, .bind 1 (.sub 0 (some (.call .pure 0 (.lit 2))) (some (.lit 1))), .lit 0⟩] = .ok := by decide
example : tcheck [⟨.pure, .bind 0 (.sub 0 none (some (.lit 2))), .lit 0⟩] = .rejectCheck := by decide
example : tcheck [⟨.impure, .seq (.bind 0 (.sub 0 (some (.lit 1)) none)) (.setBuf (.loc 0) (.lit 9)), .lit 0⟩] = .ok := by decide
/-- … and that impure method writes `arr0[1]` (sub-slices alias the receiver). -/
example : (callM [⟨.impure, .seq (.bind 0 (.sub 0 (some (.lit 1)) none)) (.setBuf (.loc 0) (.lit 9)), .lit 0⟩]
    20 0 0 demoCaller demoWorld).map (·.2.arrs) = some [[1, 9, 3, 4], [5, 6, 7, 8]] := by decide
/-- If the lower bound's effect bits were dropped (so that the parser accepted
    this pure method), evaluating the bound would change the receiver: -/
example : (execS [⟨.impure, .setFld 0 (.lit 77), .lit 0⟩] 9 .pure
    (.bind 1 (.sub 0 (some (.call .impure 0 (.lit 2))) none)) demoWorld demoCaller).map (·.1.flds)
      = some [77, 20] := by decide

/-- `choose` re-points a function pointer stored in the receiver: not in a pure method. -/
example : tcheck [⟨.pure, .choose, .lit 0⟩] = .rejectParse := by decide
example : tcheck [⟨.impure, .choose, .lit 0⟩] = .ok := by decide
example : (callM [⟨.impure, .choose, .lit 0⟩] 9 0 0 demoCaller demoWorld).map (·.2.choice) = some 1 := by decide

/-- Loops: the condition is effect-free, the body obeys the same rules, and a
    loop really iterates (three times, until the counter stops it). -/
example : tcheck [⟨.pure, .loop .arg (.setFld 1 (.lit 5)), .lit 0⟩] = .rejectParse := by decide
example : tcheck [⟨.impure, .setFld 0 (.lit 1), .lit 0⟩,
    ⟨.pure, .loop (.call .impure 0 (.lit 2)) .skip, .lit 0⟩] = .rejectParse := by decide
example : tcheck [⟨.pure, .loop (.fld 0) (.loop .arg (.setLoc 1 (.lit 5))), .loc 1⟩] = .ok := by decide
example : (callM [⟨.impure, .loop (.lit 1) (.setFld 0 (.add (.fld 0) (.lit 1))), .lit 0⟩]
    20 0 0 demoCaller demoWorld).map (·.2.flds) = some [13, 20] := by decide

/-- Without the repair of `tcheckExprCall` (call results writable in a pure
    function: `SRef.readOnly .pure .pal = false`) the theorem would be false:
    this pure method, which the unrepaired checker accepted, writes to the
    palette buffer. -/
example :
    (execS [] 5 .pure (.seq (.bind 0 .pal) (.setBuf (.loc 0) (.lit 1))) ⟨[], [], [[4, 4]], 0⟩
      ⟨0, 0, [], [], [none, none], some (.buf 0)⟩).map (·.1.heap) = some [[1, 4]] := by decide

end WuffsVerif.Props.C10
