/-
C20 — compilation is deterministic.

The universally quantified half of the property ("whatever the run, environment
or scheduling"; "the build tool enumerates a package's files in a fixed (sorted)
order") is absence of order dependence.  It is proved over the abstraction in
`Model/Det.lean`, whose premises — the list of places where Go's randomised map
iteration, goroutines, the clock or the environment are touched at all — are
RE-EXTRACTED from /repo's Go sources on every run (`Gen/C20_GoFacts.lean`,
harness/cmd/c20 gofacts.go) and compared here with the expected list
(`gofacts_expected`): each expected site names the lemma that makes it harmless.
A new or edited site has no lemma, this module stops building, and the
determinism runs of the harness are the search for a failing input.

The ground half (regenerated snapshot == committed, regenerated data.go ==
committed) is decided by the harness on the working tree.
-/
import WuffsVerif.Model.Det
import WuffsVerif.Proof.Det
import WuffsVerif.Gen.C20_GoFacts

namespace WuffsVerif.Props.C20
open WuffsVerif.Det List

/-! ## the build tool: listDir -/

/-- `listDir` returns the same lists for every order in which the OS enumerates the
directory. -/
theorem listDir_perm_invariant (dir suffix : Name) (rs : Bool) {infos₁ infos₂ : List DirEntry}
    (h : infos₁ ~ infos₂) : listDir dir suffix rs infos₁ = listDir dir suffix rs infos₂ := by
  unfold listDir
  simp only [appendDir_eq, nil_append]
  rw [sortNames_perm_invariant ((h.filter _).map _), sortNames_perm_invariant ((h.filter _).map _)]

/-- … both results are sorted (Go string order) … -/
theorem listDir_sorted (dir suffix : Name) (rs : Bool) (infos : List DirEntry) :
    (listDir dir suffix rs infos).1.Pairwise (fun a b => ble a b = true) ∧
    (listDir dir suffix rs infos).2.Pairwise (fun a b => ble a b = true) :=
  ⟨sortNames_sorted _, sortNames_sorted _⟩

/-- … and hold exactly the matching files (resp. the sub-directories, when asked for). -/
theorem listDir_complete (dir suffix : Name) (rs : Bool) (infos : List DirEntry) (p : Name) :
    (p ∈ (listDir dir suffix rs infos).1 ↔
      ∃ o ∈ infos, o.isDir = false ∧ hasSuffix o.name suffix = true ∧ p = joinPath dir o.name) ∧
    (p ∈ (listDir dir suffix rs infos).2 ↔ ∃ o ∈ infos, o.isDir = true ∧ rs = true ∧ p = o.name) := by
  unfold listDir
  simp only [appendDir_eq, nil_append, mem_sortNames, mem_map, mem_filter]
  constructor
  · constructor
    · rintro ⟨o, ⟨ho, hc⟩, rfl⟩
      simp only [Bool.and_eq_true, Bool.not_eq_true'] at hc
      exact ⟨o, ho, hc.1, hc.2, rfl⟩
    · rintro ⟨o, ho, h1, h2, rfl⟩
      exact ⟨o, ⟨ho, by simp [h1, h2]⟩, rfl⟩
  · constructor
    · rintro ⟨o, ⟨ho, hc⟩, rfl⟩
      simp only [Bool.and_eq_true] at hc
      exact ⟨o, ho, hc.1, hc.2, rfl⟩
    · rintro ⟨o, ho, h1, h2, rfl⟩
      exact ⟨o, ⟨ho, by simp [h1, h2]⟩, rfl⟩

/-- non-vacuity: two enumerations of one directory, one listing -/
example : listDir [115] [46, 119] true [⟨[98, 46, 119], false⟩, ⟨[100], true⟩, ⟨[97, 46, 119], false⟩, ⟨[99, 46, 120], false⟩]
    = ([[115, 47, 97, 46, 119], [115, 47, 98, 46, 119]], [[100]]) := by decide

/-! ## one lemma per kind of map-range site -/

/-- cgen.go expandBangInsert, check/gen.go gen: collect the keys, sort them. -/
theorem site_collect_sort_perm_invariant {o₁ o₂ : List Name} (h : o₁ ~ o₂) : sortedKeys o₁ = sortedKeys o₂ := by
  unfold sortedKeys
  simp only [foldl_collect, nil_append]
  exact sortNames_perm_invariant h

/-- check.go Check: group the interface methods per interface, sort each group. -/
theorem site_group_sort_perm_invariant (ifaceOf : Key → Key) {o₁ o₂ : List Key} (h : o₁ ~ o₂) (q : Key) :
    interfaceMethods ifaceOf o₁ q = interfaceMethods ifaceOf o₂ q := by
  unfold interfaceMethods
  simp only [foldl_collect_if, nil_append]
  exact sortBy_perm_invariant nle nle_trans nle_total nle_antisymm (h.filter _)

/-- check.go checkInterfacesSatisfied: the largest key is picked whatever the order. -/
theorem site_pick_largest_perm_invariant {o₁ o₂ : List Key} (h : o₁ ~ o₂) : pickLargest o₁ = pickLargest o₂ := by
  unfold pickLargest
  apply Perm.foldl_eq' h
  intro x _ y _ z
  grind

/-- … and it is the maximum (so the error message names a definite method). -/
theorem pickLargest_is_max (o : List Key) : ∀ k ∈ o, k ≤ pickLargest o := by
  unfold pickLargest
  suffices h : ∀ (init : Nat), init ≤ o.foldl (fun m k => if m < k then k else m) init ∧
      ∀ k ∈ o, k ≤ o.foldl (fun m k => if m < k then k else m) init by
    exact (h 0).2
  induction o with
  | nil => intro init; simp
  | cons x xs ih =>
    intro init
    simp only [foldl_cons, mem_cons, forall_eq_or_imp]
    have h1 := ih (if init < x then x else init)
    have ha : init ≤ (if init < x then x else init) := by
      by_cases hx : init < x
      · rw [if_pos hx]; exact Nat.le_of_lt hx
      · rw [if_neg hx]; exact Nat.le_refl _
    have hb : x ≤ (if init < x then x else init) := by
      by_cases hx : init < x
      · rw [if_pos hx]; exact Nat.le_refl _
      · rw [if_neg hx]; exact Nat.le_of_not_lt hx
    exact ⟨Nat.le_trans ha h1.1, Nat.le_trans hb h1.1, h1.2⟩

/-- check.go checkAllTypeChecked (four loops): WHETHER an error is returned does not
depend on the order (which one is, does: only the text of a failing compile). -/
theorem site_all_checked_perm_invariant {α ε : Type} (f : α → Option ε) {o₁ o₂ : List α} (h : o₁ ~ o₂) :
    (firstError f o₁).isSome = (firstError f o₂).isSome := by
  rw [firstError_isSome, firstError_isSome]; exact any_perm _ h

/-- The caveat above is real: with two failing nodes the reported error depends on the order. -/
example : firstError (fun n : Nat => if n > 0 then some n else none) [1, 2]
    ≠ firstError (fun n : Nat => if n > 0 then some n else none) [2, 1] := by decide

/-- type.go tcheckTypeExpr: existence search. -/
theorem site_exists_perm_invariant (qid : Key) {o₁ o₂ : List Key} (h : o₁ ~ o₂) :
    existsStruct qid o₁ = existsStruct qid o₂ := by
  rw [existsStruct_eq, existsStruct_eq]; exact any_perm _ h

/-! ## lang/ast/sort.go -/

/-- TopologicalSortStructs reads `byQID` only through lookups, so the order it
returns is the same for every layout (iteration order) of that map. -/
theorem toposort_deterministic (ns : List StructDecl) {m₁ m₂ : GoMap Key Nat}
    (hn : keysNodup m₁) (h : m₁ ~ m₂) : topoSortRep m₁ ns = topoSortRep m₂ ns := by
  unfold topoSortRep
  have : m₁.get = m₂.get := funext (get_perm_invariant hn h)
  rw [this]

/-- … in particular for every layout of the map the function itself builds. -/
theorem toposort_deterministic' (ns : List StructDecl) {m : GoMap Key Nat} (h : buildByQID ns ~ m) :
    topoSortRep m ns = topoSort ns :=
  (toposort_deterministic ns (buildByQID_keysNodup ns) h).symm

-- Model validation beyond the determinism clause, proved in Props/C20Topo.lean (round 2):
-- `toposort_is_topological` (a successful sort lists every struct index exactly once and every struct
-- after the structs its fields resolve to), `toposort_none_iff_cycle` (`none` iff the resolved dependency
-- graph has a cycle: the fuel `ns.length + 2` never runs out), `qqidLess_eq_key_lt`.

/-- non-vacuity: dependencies first, declaration order otherwise; a cycle is refused -/
example : topoSort [⟨10, [11, 12]⟩, ⟨11, [12]⟩, ⟨12, [99]⟩, ⟨13, []⟩] = some [2, 1, 0, 3] := by decide
example : topoSort [⟨10, [11]⟩, ⟨11, [10]⟩] = none := by decide

/-! ## the pipeline -/

/-- two runs differ only in the enumeration orders the runtime picked -/
structure SameMaps (o o' : Orders) : Prop where
  ifaceFuncs : o.ifaceFuncs ~ o'.ifaceFuncs
  consts : o.consts ~ o'.consts
  funcs : o.funcs ~ o'.funcs
  statuses : o.statuses ~ o'.statuses
  structs : o.structs ~ o'.structs
  structsSearch : o.structsSearch ~ o'.structsSearch
  byQIDRep : o.byQIDRep ~ o'.byQIDRep
  byQIDNodup : keysNodup o.byQIDRep

/-- Same declarations, any two choices of map iteration orders: same success/failure
and, on success, byte-identical output. -/
theorem emit_deterministic (u : CompUnit) (o o' : Orders) (h : SameMaps o o') : emit o u = emit o' u := by
  unfold emit
  rw [site_all_checked_perm_invariant _ h.consts, site_all_checked_perm_invariant _ h.funcs,
    site_all_checked_perm_invariant _ h.statuses, site_all_checked_perm_invariant _ h.structs,
    toposort_deterministic u.structs h.byQIDNodup h.byQIDRep]
  have e1 : (fun q => existsStruct q o.structsSearch) = (fun q => existsStruct q o'.structsSearch) :=
    funext fun q => site_exists_perm_invariant q h.structsSearch
  have e2 : (fun q => u.renderMethods (interfaceMethods u.ifaceOf o.ifaceFuncs q))
      = (fun q => u.renderMethods (interfaceMethods u.ifaceOf o'.ifaceFuncs q)) :=
    funext fun q => by rw [site_group_sort_perm_invariant u.ifaceOf h.ifaceFuncs q]
  rw [e1, e2]

/-- non-vacuity of `SameMaps` with genuinely different orders -/
example : SameMaps ⟨[1, 2], [3, 4], [], [], [5, 6], [5, 6], [(1, 0), (2, 1)]⟩
    ⟨[2, 1], [4, 3], [], [], [6, 5], [6, 5], [(2, 1), (1, 0)]⟩ :=
  ⟨by decide, by decide, by decide, by decide, by decide, by decide, by decide, by simp [keysNodup]⟩

/-! ## the premises, re-extracted from the Go sources on every run -/

/-- Every place in cmd/wuffs*, internal/cgen, lang/*, lib/dumbindent, lib/interval where
a map is ranged over, a directory is enumerated through an *os.File, a goroutine is
started, a `select` is used, an address is printed (`%p`), or the clock / environment /
process identity is read — with the lemma that makes it harmless — and the functions the
Lean model mirrors statement by statement (`fnbody`: hash of the whole body, so an edit
there asks for the model to be looked at again).
Keys are `kind file function #ordinal what hash`; for `maprange`/`readdir` the hash covers the
statement and the two statements that follow it in its block (where the collected data
is sorted or consumed). -/
def expectedSites : List (String × String) := [
  ("fnbody cmd/wuffs-c/release.go (genReleaseHelper).parse #0 - bf287a326528",
    "Det.relEntries (name + sorted includes); assemble_perm_invariant; op `release`"),
  ("fnbody cmd/wuffs-c/release.go parseIncludes #0 - c6243910da7c",
    "Det.relEntries (`sortNames f.includes`); op `release`"),
  ("fnbody cmd/wuffs-c/release.go (genReleaseHelper).gen #0 - b21793a08da3",
    "Det.relGen; assemble_perm_invariant; op `release`"),
  ("env cmd/wuffs-c/test.go doBenchTest #0 os.Args[0] 3b63cfe07628",
    "`wuffs-c test|bench` only (error message of the test runner), not part of compilation"),
  ("fnbody cmd/wuffs/gen.go (genHelper).gen #0 - f337e26a5484",
    "Det.genWith; genPlan_fs_invariant, genPlan_files_sorted; op `genplan`"),
  ("fnbody cmd/wuffs/gen.go (genHelper).genDirDependencies #0 - 75a255744a8b",
    "Det.genWith (dependencies in file and declaration order, then base); op `genplan`"),
  ("fnbody cmd/wuffs/main.go findFiles #0 - ae93a85423c4",
    "Det.findFiles; findFiles_perm_invariant, findFiles_sorted; op `findfiles`"),
  ("fnbody cmd/wuffs/main.go findFiles1 #0 - 137e72fad5b8",
    "Det.findFiles1; findFiles_perm_invariant; op `findfiles`"),
  ("fnbody cmd/wuffs/main.go listDir #0 - e58d4ffe0003",
    "Det.listDir; listDir_perm_invariant, listDir_sorted, listDir_complete; op `listdir`"),
  ("fnbody cmd/wuffs/main.go appendDir #0 - e59d28bcd02f",
    "Det.appendDir; op `listdir`"),
  ("readdir cmd/wuffs/main.go appendDir #0 f.Readdir de3286224f24",
    "listDir_perm_invariant, findFiles_perm_invariant: both callers sort what appendDir collected"),
  ("fnbody cmd/wuffs/release.go genreleaseLang #0 - b9b9898e5da7",
    "Det.releaseArgs (findFiles over gen/c); releaseArgs_perm_invariant; op `genplan` (rel part)"),
  ("import cmd/wuffsfmt/main.go - #0 runtime -",
    "wuffsfmt only (not part of compilation): runtime.GOOS picks the path separator for messages"),
  ("maprange internal/cgen/cgen.go expandBangInsert #0 m 6844aa5c7be3",
    "site_collect_sort_perm_invariant (keys sorted before use; error path only)"),
  ("fnbody lang/ast/sort.go TopologicalSortStructs #0 - 89fb93ab659d",
    "Det.topoSortWith; toposort_deterministic; op `topo`"),
  ("fnbody lang/ast/sort.go tssVisit #0 - 694be8a6bee8",
    "Det.tssVisit; toposort_deterministic; op `topo`"),
  ("fnbody lang/token/list.go (QQID).LessThan #0 - d391c1dc0916",
    "Det.qqidLess; qqidLess_eq_key_lt (it is `<` on the keys the site lemmas sort and maximise by); op `qqidlt`"),
  ("maprange lang/check/check.go Check #0 c.builtInInterfaceFuncs 907050bea1b1",
    "site_group_sort_perm_invariant (grouping; every group is sorted by the next loop)"),
  ("maprange lang/check/check.go Check #1 c.builtInInterfaces 1a82948dc2db",
    "site_group_sort_perm_invariant (sorts each group in place; groups are independent)"),
  ("maprange lang/check/check.go (Checker).checkInterfacesSatisfied #0 c.unseenInterfaceImpls cebc0d264867",
    "site_pick_largest_perm_invariant, pickLargest_is_max (error message only)"),
  ("maprange lang/check/check.go (Checker).checkAllTypeChecked #0 c.consts 28ea8ca75159",
    "site_all_checked_perm_invariant"),
  ("maprange lang/check/check.go (Checker).checkAllTypeChecked #1 c.funcs ca705f6f2357",
    "site_all_checked_perm_invariant"),
  ("maprange lang/check/check.go (Checker).checkAllTypeChecked #2 c.statuses d8b877668ada",
    "site_all_checked_perm_invariant"),
  ("maprange lang/check/check.go (Checker).checkAllTypeChecked #3 c.structs 47e0030a2db5",
    "site_all_checked_perm_invariant"),
  ("maprange lang/check/gen.go gen #0 names ae12383feae8",
    "site_collect_sort_perm_invariant (names sorted before the `_ = x` lines are written)"),
  ("maprange lang/check/type.go (checker).tcheckTypeExpr #0 q.c.structs 67ed32bef273",
    "site_exists_perm_invariant"),
  ("import lang/wuffsroot/wuffsroot.go - #0 go/build -",
    "build.Default.SrcDirs() (GOPATH/GOROOT) is a fallback for LOCATING the Wuffs root; the root's content, not its path, reaches the output (working-directory runs)"),
  ("import lang/wuffsroot/wuffsroot.go - #0 sync -",
    "mutex around the cached root directory; no goroutines exist (no `go` statement anywhere)"),
  ("env lang/wuffsroot/wuffsroot.go init #0 os.Getwd d52450162348",
    "locates wuffs-root-directory.txt for `use` resolution; its CONTENT, not its path, reaches the output (checked by the working-directory runs)")]

/-- obligation: every site found in today's sources is an expected one (has its lemma).
(An expected site that is no longer found is harmless.) -/
theorem gofacts_expected : ∀ k ∈ Gen.C20.siteKeys, k ∈ expectedSites.map (·.1) := by decide

/-- … and nothing the lemmas are attached to has silently disappeared either: the
map-range and directory-enumeration sites found are exactly the expected ones. -/
theorem gofacts_order_sites_exact :
    (Gen.C20.sites.filter (fun s => s.kind = "maprange" ∨ s.kind = "readdir")).map (·.key)
      = [ "readdir cmd/wuffs/main.go appendDir #0 f.Readdir de3286224f24",
          "maprange internal/cgen/cgen.go expandBangInsert #0 m 6844aa5c7be3",
          "maprange lang/check/check.go Check #0 c.builtInInterfaceFuncs 907050bea1b1",
          "maprange lang/check/check.go Check #1 c.builtInInterfaces 1a82948dc2db",
          "maprange lang/check/check.go (Checker).checkInterfacesSatisfied #0 c.unseenInterfaceImpls cebc0d264867",
          "maprange lang/check/check.go (Checker).checkAllTypeChecked #0 c.consts 28ea8ca75159",
          "maprange lang/check/check.go (Checker).checkAllTypeChecked #1 c.funcs ca705f6f2357",
          "maprange lang/check/check.go (Checker).checkAllTypeChecked #2 c.statuses d8b877668ada",
          "maprange lang/check/check.go (Checker).checkAllTypeChecked #3 c.structs 47e0030a2db5",
          "maprange lang/check/gen.go gen #0 names ae12383feae8",
          "maprange lang/check/type.go (checker).tcheckTypeExpr #0 q.c.structs 67ed32bef273" ] := by decide

/-- obligation: the fact extractor typed every `range` expression (no syntactic fallback),
so "not listed" really means "not a map". -/
theorem gofacts_all_typed : Gen.C20.untypedRanges = 0 := by decide

/-- obligation (shared with C02): the axiom listing is what is compiled in. -/
theorem axioms_eq_data : Gen.C20.axiomsMd = Gen.C20.dataGoNames := by decide

end WuffsVerif.Props.C20
