/-
C02 (FACTS half) — "whenever the compiler accepts an assert, a loop pre/inv/post
condition, or carries a remembered fact past a statement, that condition evaluates to
true (in ideal integer arithmetic) every time execution reaches that point, for every
input and every suspend/resume pattern … every assignment, impure call … and coroutine
suspension invalidates every fact it could falsify."

Model: `Model/Flow.lean` (the control-flow layer of lang/check/bounds.go + assert.go:
bcheckBlock / bcheckStatement / bcheckAssert / bcheckIf + unify / bcheckWhile / KJump /
invert / updateFactsForSuspension / the impure-call kill set / appendFact / simplify /
proveBinaryOp / the generated reason procedures) on top of C01's WCore (expressions,
`bcheck`, assignment and op-assignment with `dropAnyFactsMentioning` and the `x += c`
rewriting, `Props.C01.facts_hold_F1`).  Semantics: `Proof/FlowSem.lean`.

The theorems quantify over ALL statements of the fragment, all stores, all outcomes,
and all behaviours of impure callees (any stores to `this.*`) and of callers across a
suspension (any new arguments, any change of `this.*`), with no bound on sizes,
nesting or iteration counts.  What is outside the fragment: see the OPEN note at the end.
-/
import WuffsVerif.Proof.FlowReach
import WuffsVerif.Proof.FlowWf
import WuffsVerif.Gen.C02_Axioms

namespace WuffsVerif.Props.C02Facts
open WuffsVerif.Interval WuffsVerif.WCore WuffsVerif.WFlow
open WuffsVerif.Proof.WCoreBounds WuffsVerif.Proof.WCoreStmt WuffsVerif.Proof.Flow

/-! ## the central invariant -/

/--
**facts_hold** (DESIGN §2 C02, fragment F1-flow).  Let `s` be a well-typed statement
that the checker accepts under the situation `fs` inside the loops `L`, and let `fs`
hold in the store `env`.  Then at EVERY point `(s', env')` that an execution of `s`
from `env` can reach — any prefix of any execution, terminating or not; inside any
nesting of `if` branches and after any number of loop iterations; whatever the impure
callees stored into `this.*` and whatever the caller changed (arguments, `this.*`)
across each suspension — every fact of the situation `fs'` that the checker holds at
that point evaluates to true (non-zero) in ideal integers in `env'`.
-/
theorem facts_hold {Γ : Ctx} {L L' : List LoopSpec} {fs fs' : List Expr} {env env' : Env}
    {s s' : FStmt} (hw : wtS Γ s) (hl : WfLoops Γ L) (hc : (checkS L fs s).isSome = true)
    (S : Situation Γ env fs) (hr : Reach Γ L fs env s L' fs' env' s') :
    FactsHold env' fs' :=
  (reach_sound hr hw hl hc S).1.holds

/-- the same for a whole function body: the checker starts a function with no facts,
the store holds values of the declared (refined) types (arguments are range-checked on
entry, fields keep their types — C01) -/
theorem facts_hold_function {Γ : Ctx} {L' : List LoopSpec} {fs' : List Expr} {env env' : Env}
    {body s' : FStmt} (hw : wtS Γ body) (hc : (checkS [] [] body).isSome = true)
    (he : EnvOk Γ env) (hr : Reach Γ [] [] env body L' fs' env' s') :
    FactsHold env' fs' :=
  facts_hold hw (fun _ h => by cases h) hc (situation_nil he) hr

/--
**facts_hold_checked**: `facts_hold` with its well-formedness hypothesis discharged by
a COMPUTABLE check.  For every function body that passes `wfProg` (one type per name,
boolean-shaped conditions, numeric op-assignment targets, `via` reasons naming listed
axioms — the driver evaluates it on every program of the correspondence, so the
theorem demonstrably applies to each sampled program) and that the checker accepts:
from every store that respects the types read off the program, at every reachable
point, every fact of the checker's situation there is true.
-/
theorem facts_hold_checked {body s' : FStmt} {L' : List LoopSpec} {fs' : List Expr} {env env' : Env}
    (hwf : wfProg body = true) (hc : (checkS [] [] body).isSome = true)
    (he : EnvOk (ctxOf (stmtTypings body)) env)
    (hr : Reach (ctxOf (stmtTypings body)) [] [] env body L' fs' env' s') : FactsHold env' fs' :=
  facts_hold_function (wf_sound hwf) hc he hr

/-- non-vacuity of the check: the counting loop of the examples below is well-formed -/
example :
    wfProg (.seq (.base (.assign (.var "x" ⟨.u32, none, some 7⟩) (.const 0)))
      (.seq (.while [(.inv, .binary .le (.var "x" ⟨.u32, none, some 7⟩) (.const 5))]
        (.binary .lt (.var "x" ⟨.u32, none, some 7⟩) (.const 5))
        (.seq (.base (.opAssign .plus (.var "x" ⟨.u32, none, some 7⟩) (.const 1))) .skip)) .skip)) = true := by
  decide

/-- … and a program using one name at two types is not -/
example :
    wfProg (.seq (.base (.assign (.var "x" ⟨.u32, none, none⟩) (.var "x" ⟨.u8, none, none⟩))) .skip) = false := by
  decide

/-- **asserts_hold**: every accepted `assert` (with or without a `via` reason) is true
every time execution reaches it -/
theorem asserts_hold {Γ : Ctx} {L L' : List LoopSpec} {fs fs' : List Expr} {env env' : Env}
    {s : FStmt} {c : Expr} {r : Option Reason} (hw : wtS Γ s) (hl : WfLoops Γ L)
    (hc : (checkS L fs s).isSome = true) (S : Situation Γ env fs)
    (hr : Reach Γ L fs env s L' fs' env' (.assert c r)) : evalI env' c ≠ 0 := by
  obtain ⟨S', hw', _, hc'⟩ := reach_sound hr hw hl hc S
  simp only [wtS] at hw'
  simp only [checkS] at hc'
  cases hq : checkAssert fs' c r with
  | none => simp [hq] at hc'
  | some f => exact (checkAssert_sound S' hw'.1.1 hw'.1.2.1 hw'.2 hq).1

/-- **loop_entry_conditions_hold**: every `pre` and `inv` of an accepted loop is true
every time execution arrives at the loop -/
theorem loop_entry_conditions_hold {Γ : Ctx} {L L' : List LoopSpec} {fs fs' : List Expr}
    {env env' : Env} {s body : FStmt} {sp : LoopSpec} {c : Expr} (hw : wtS Γ s) (hl : WfLoops Γ L)
    (hc : (checkS L fs s).isSome = true) (S : Situation Γ env fs)
    (hr : Reach Γ L fs env s L' fs' env' (.while sp c body)) : CondsHold env' (nonPost sp) := by
  obtain ⟨S', hw', _, hc'⟩ := reach_sound hr hw hl hc S
  simp only [wtS] at hw'
  cases hq : checkS L' fs' (.while sp c body) with
  | none => simp [hq] at hc'
  | some f =>
    obtain ⟨⟨f1, h1⟩, _, _, _⟩ := while_accept hq
    exact (checkAsserts_sound _ _ _ S' (conds_wt_of hw'.1).1 h1).1

/-- **loop_exit_conditions_hold**: whenever an accepted loop is left — by its condition
becoming false or by a `break` — its `inv` and `post` conditions are true (and `pre` +
`inv` at the head after every iteration: `Proof.Flow.heads_inv`); a `break` /
`continue` that leaves several loops establishes the contract of the loop it targets. -/
theorem loop_exit_conditions_hold {Γ : Ctx} {L : List LoopSpec} {fs fs1 : List Expr} {env : Env}
    {o : Out} {sp : LoopSpec} {c : Expr} {body : FStmt} (hw : wtS Γ (.while sp c body))
    (hl : WfLoops Γ L) (hc : checkS L fs (.while sp c body) = some fs1) (S : Situation Γ env fs)
    (hx : Exec Γ env (.while sp c body) o) : LoopOut Γ L sp o := by
  simp only [wtS] at hw
  obtain ⟨⟨f1, h1⟩, hP, hB, _⟩ := while_accept hc
  exact loop_sound (Γ := Γ) (loops := L) hw.1 hw.2.1
    (fun fs' fs1' env' o' hck' S' hx' =>
      exec_sound body (sp :: L) fs' fs1' env' o' hw.2.2 (wf_cons hl hw.1) hck' S' hx')
    hP hB hx rfl S.envOk (checkAsserts_sound _ _ _ S (conds_wt_of hw.1).1 h1).1

/-! ## the transfer functions, one by one ("invalidates every fact it could falsify") -/

/-- **statement_preserves**: `exec_sound` — each accepted statement maps a situation
that holds to the situation the checker continues with (normal end) or to the loop
contract (`break` / `continue`), for every outcome and every behaviour of the
environment. -/
theorem statement_preserves {Γ : Ctx} (s : FStmt) (L : List LoopSpec) (fs fs1 : List Expr)
    (env : Env) (o : Out) (hw : wtS Γ s) (hl : WfLoops Γ L) (hc : checkS L fs s = some fs1)
    (S : Situation Γ env fs) (hx : Exec Γ env s o) : OutOK Γ L fs1 o :=
  exec_sound s L fs fs1 env o hw hl hc S hx

/-- **suspension_invalidates**: whatever the caller does across a coroutine suspension
(new arguments, changed fields; locals are preserved), the facts that
`updateFactsForSuspension` keeps are still true afterwards -/
theorem suspension_invalidates {Γ : Ctx} {env env' : Env} {fs : List Expr}
    (S : Situation Γ env fs) (H : Havoc isSuspName Γ env env') :
    Situation Γ env' (dropSuspension fs) :=
  havoc_keeps S H

/-- **impure_call_invalidates**: whatever an impure method stores into the fields of
its receiver, the facts the checker keeps across the call are still true afterwards -/
theorem impure_call_invalidates {Γ : Ctx} {env env' : Env} {fs : List Expr}
    (S : Situation Γ env fs) (H : Havoc isThisName Γ env env') :
    Situation Γ env' (dropReceiver fs) :=
  havoc_keeps S H

/-- **assignment_invalidates**: C01's `facts_hold_F1` / `store_sound` (assignment and
op-assignment to a variable or to an ARRAY ELEMENT `a[i]`: `dropAnyFactsMentioning`,
for an element store every fact that reads an element of `a` — the repaired rule,
fixes/C01-index-alias-store.patch —, the `x += c` rewriting, the new `lhs == rhs` / bound
facts), as used by `facts_hold` -/
theorem assignment_invalidates {Γ : Ctx} {env : Env} {fs fs' : List Expr} {s : Stmt}
    (S : Situation Γ env fs) (hw : wtStmtA Γ s) (h : checkStmt fs s = some fs') :
    stmtSafe env s ∧ Situation Γ (execStmt env s) fs' :=
  stmtA_sound S hw h

/-- **reconciliation_sound**: after an if-else chain the checker keeps the facts that
every non-terminating branch ends with (`unify` = intersection): they hold whichever
branch ran -/
theorem reconciliation_sound {Γ : Ctx} {env : Env} {bs : List (List Expr)} {b : List Expr}
    (hb : b ∈ bs) (S : Situation Γ env b) : Situation Γ env (unify bs) :=
  situation_unify hb S

/-- **invert_sound**: the fact assumed in the else branch is true exactly when the
condition is false -/
theorem invert_sound {Γ : Ctx} {env : Env} {c ic : Expr} (h : invert c = some ic) (hc : CondOK Γ c) :
    (evalI env ic ≠ 0 ↔ evalI env c = 0) :=
  (invert_spec (Γ := Γ) c ic h hc.1 hc.2.1 hc.2.2).1

/-- **terminates_sound**: `ast.Terminates` is right — a branch / loop body for which
it answers true never falls through (so leaving it out of the reconciliation, and not
proving the loop conditions at its end, loses nothing) -/
theorem terminates_sound {Γ : Ctx} {env env1 : Env} {s : FStmt} (ht : terminates s = true) :
    ¬ Exec Γ env s (.norm env1) :=
  fun hx => terminates_no_norm hx env1 rfl ht

/-- **base_statement_safe** (link to C01): at every reached assignment / op-assignment
no monitor fires (no overflow, bad shift, division by zero, out-of-type store) -/
theorem base_statement_safe {Γ : Ctx} {L L' : List LoopSpec} {fs fs' : List Expr} {env env' : Env}
    {s : FStmt} {st : Stmt} (hw : wtS Γ s) (hl : WfLoops Γ L) (hc : (checkS L fs s).isSome = true)
    (S : Situation Γ env fs) (hr : Reach Γ L fs env s L' fs' env' (.base st)) : stmtSafe env' st := by
  obtain ⟨S', hw', _, hc'⟩ := reach_sound hr hw hl hc S
  simp only [wtS] at hw'
  simp only [checkS] at hc'
  cases hq : checkStmt fs' st with
  | none => simp [hq] at hc'
  | some f => exact (stmtA_sound S' hw' hq).1

/-- **points_are_reach_points** (model ↔ tie): every situation that the model reports for
a program point — `points`, what the driver prints for the op `pt k`, which the harness
compares with the REAL checker's `assert false` probe at that line — is the situation
of a syntactic point of `Reach`, i.e. one of the situations `facts_hold` is about; and
every run-time point of `Reach` is such a syntactic point (`reach_syn`). -/
theorem points_are_reach_points (s : FStmt) (L : List LoopSpec) (fs fs' : List Expr)
    (h : some fs' ∈ points L (some fs) s) : ∃ L' s', SynReach L fs s L' fs' s' :=
  (points_syn s).1 L fs (some fs') fs' h rfl

/-! ## the axioms half meets the facts half -/

/--
**reason_impl_sound** (DESIGN §2 C02): for every axiom LISTED in axioms.md (regenerated
`Gen.C02.axioms`, each proved valid by `omega` in `Gen/C02_Axioms.lean`), an
`assert cond via "<axiom>"(args)` that the generated reason procedure accepts is true in
every store in which the situation holds.  The procedure (`reasonProc`, the generic
form of what gen.go emits: `parseBinaryOp` shape tests, `Eq` tests for repeated
variables, `argValue`, fresh `+`/`-` nodes, one `proveReasonRequirement` per
requirement) only succeeds when the condition is an instance of the claim and every
instantiated requirement is provable.
-/
theorem reason_impl_sound {Γ : Ctx} {env : Env} {fs : List Expr} {ax : Axioms.Axiom}
    (hax : ax ∈ Gen.C02.axioms) {args : Subst} {cond : Expr} (S : Situation Γ env fs)
    (hwc : wt Γ cond) (hwa : SubstWt Γ args) (h : reasonProc fs ax args cond = true) :
    evalI env cond ≠ 0 :=
  reasonProc_sound (Gen.C02.all_ax_valid ax hax) S.envOk S.holds hwc hwa h

/-- … and the same for the rule that each reason function of data.go really applies
(read back from its body: `Gen.C02.implAxioms`) -/
theorem reason_impl_sound_data_go {Γ : Ctx} {env : Env} {fs : List Expr} {ax : Axioms.Axiom}
    (hax : ax ∈ Gen.C02.implAxioms) {args : Subst} {cond : Expr} (S : Situation Γ env fs)
    (hwc : wt Γ cond) (hwa : SubstWt Γ args) (h : reasonProc fs ax args cond = true) :
    evalI env cond ≠ 0 :=
  reasonProc_sound (Gen.C02.all_impl_valid ax hax) S.envOk S.holds hwc hwa h

/-- a reason procedure for an INVALID rule can accept a false assertion: with the rule
`a <= (c + b): 0 <= b` (what the unrepaired gen.go compiled for `a <= (a + b): 0 <= b`,
fixes/C02-axiom-claim-var-rebound.patch) the model accepts `x <= (y + 1)` although
x = 5, y = 0 — validity of the axiom is a necessary hypothesis of `reason_impl_sound` -/
theorem invalid_axiom_witness :
    let x : Expr := .var "x" ⟨.u8, none, none⟩
    let y : Expr := .var "y" ⟨.u8, none, none⟩
    let cond : Expr := .binary .le x (.binary .plus y (.const 1))
    let ax : Axioms.Axiom := ⟨⟨.le, .var 0, .add (.var 2) (.var 1)⟩, [⟨.le, .const 0, .var 1⟩]⟩
    reasonProc [] ax [] cond = true ∧
    evalI (fun k => if k = .sc "x" then 5 else 0) cond = 0 := by
  decide

/-! ## non-vacuity and sensitivity -/

def u8 : Ty := ⟨.u8, none, none⟩
def n7 : Ty := ⟨.u32, none, some 7⟩
def f100 : Ty := ⟨.u32, none, some 100⟩

/-- the seeded change C02-m2 in the model's terms: a fact about a numeric ARGUMENT must
not survive a suspension.  The checker drops it (the `assert` after `yield?` is
rejected) … -/
example :
    checkS [] [] (.seq (.ite (.binary .lt (.var "args.n" n7) (.const 4))
      (.seq .yield (.seq (.assert (.binary .lt (.var "args.n" n7) (.const 4)) none) .skip))
      .skip) .skip) = none := by decide

/-- … while the same program about a LOCAL is accepted (locals are preserved) -/
example :
    checkS [] [] (.seq (.ite (.binary .lt (.var "x" n7) (.const 4))
      (.seq .yield (.seq (.assert (.binary .lt (.var "x" n7) (.const 4)) none) .skip))
      .skip) .skip) = some [] := by decide

/-- … and keeping the argument fact would be unsound: a resumption with another
argument value (allowed: `Havoc isSuspName`) falsifies it -/
theorem suspension_must_drop_args_witness :
    ∃ (Γ : Ctx) (env env' : Env), Havoc isSuspName Γ env env' ∧
      evalI env (.binary .lt (.var "args.n" n7) (.const 4)) ≠ 0 ∧
      evalI env' (.binary .lt (.var "args.n" n7) (.const 4)) = 0 := by
  refine ⟨fun _ => n7, fun _ => 0, fun k => if k = .sc "args.n" then 5 else 0, ⟨?_, ?_⟩, ?_, ?_⟩
  · intro key
    by_cases h : key = .sc "args.n" <;> simp [h, inType, inNatural, Base.range, Base.numBounds, n7]
  · intro key hk
    by_cases h : key = .sc "args.n"
    · subst h; revert hk; decide
    · simp [h]
  · decide
  · decide

/-- an impure call drops the facts about fields, keeps those about locals and arguments -/
example :
    checkS [] [.binary .lt (.var "this.f" f100) (.const 4), .binary .lt (.var "x" n7) (.const 4),
               .binary .lt (.var "args.n" n7) (.const 4)] (.call []) =
      some [.binary .lt (.var "x" n7) (.const 4), .binary .lt (.var "args.n" n7) (.const 4)] := by
  decide

/-- `y = this.take!()` (result type base.u8[..= 9]): the facts about fields and about `y`
go, the others stay, and the checker learns `y <= 9` -/
example :
    checkS [] [.binary .lt (.var "this.f" f100) (.const 4), .binary .lt (.var "y" u8) (.const 4),
               .binary .lt (.var "args.n" n7) (.const 4)]
      (.callAssign (.var "y" u8) ⟨.u8, none, some 9⟩ []) =
      some [.binary .lt (.var "args.n" n7) (.const 4), .binary .le (.var "y" u8) (.const 9)] := by
  decide

/-- a loop: `while x < 5, inv x <= 5 { x += 1 }` is accepted from `x == 0`, and the
checker goes on with exactly the invariant -/
example :
    checkS [] [.binary .eq (.var "x" n7) (.const 0)]
      (.while [(.inv, .binary .le (.var "x" n7) (.const 5))] (.binary .lt (.var "x" n7) (.const 5))
        (.seq (.base (.opAssign .plus (.var "x" n7) (.const 1))) .skip)) =
      some [.binary .le (.var "x" n7) (.const 5)] := by decide

/-- … and rejected with an invariant the body does not re-establish -/
example :
    checkS [] [.binary .eq (.var "x" n7) (.const 0)]
      (.while [(.inv, .binary .le (.var "x" n7) (.const 4))] (.binary .lt (.var "x" n7) (.const 5))
        (.seq (.base (.opAssign .plus (.var "x" n7) (.const 1))) .skip)) = none := by decide

/-- reconciliation: `if x < 4 { y = 1 } else { y = 1 }` keeps `y == 1`, not `x < 4` -/
example :
    checkS [] [] (.ite (.binary .lt (.var "x" n7) (.const 4))
      (.seq (.base (.assign (.var "y" u8) (.const 1))) .skip)
      (.seq (.base (.assign (.var "y" u8) (.const 1))) .skip)) =
      some [.binary .eq (.var "y" u8) (.const 1)] := by decide

/-- an assertion through a listed axiom: `assert x < args.n via "a < b: a < c; c <= b"(c: y)`
under the facts `x < y`, `y <= args.n` -/
example :
    checkAssert [.binary .lt (.var "x" n7) (.var "y" n7), .binary .le (.var "y" n7) (.var "args.n" n7)]
      (.binary .lt (.var "x" n7) (.var "args.n" n7))
      (some ⟨⟨⟨.lt, .var 0, .var 1⟩, [⟨.lt, .var 0, .var 2⟩, ⟨.le, .var 2, .var 1⟩]⟩, [(2, .var "y" n7)]⟩) =
      some [.binary .lt (.var "x" n7) (.var "y" n7), .binary .le (.var "y" n7) (.var "args.n" n7),
            .binary .lt (.var "x" n7) (.var "args.n" n7)] := by decide

/-
-- OPEN (full strength, DESIGN §2 C02 `facts_hold` for ALL accepted programs):
--
--   theorem facts_hold_all : ∀ (p : Pkg), check ∅ p = .ok → ∀ hist fuel point,
--       reaches (runHist p hist fuel) point → FactsHold point.store (situationAt p point)
--
-- Proved above: the fragment F1-flow = scalar locals / arguments / fields (+ array
-- element READS in conditions and right-hand sides), assignment and op-assignment to
-- variables and array elements, assert (plain and `via` any listed axiom), if / else-if /
-- else, while with pre / inv / post, break / continue of any enclosing loop, return,
-- impure calls with scalar arguments (as statements, or with their value assigned to a
-- variable), yield and coroutine calls — all nested without bound.
-- Not in the model (covered by the search only: harness/cmd/c02/flow*.go evaluates the
-- REAL checker's facts on concrete executions): stores to array / slice elements and the
-- aliasing they bring (genuine unsoundness of the real checker, KNOWN_FINDINGS C02
-- `false-fact:…:alias`), slices and their lengths, by-reference arguments of impure
-- calls, I/O (`optimizeIOMethodAdvance`, can_undo_byte), `=?`, pure-call values in
-- facts, `iterate`, `io_bind` / `io_limit`, `choose`, pointer-typed locals, and the
-- tie between `wtS` and lang/check/type.go (sampled by the correspondence ops).
-/

end WuffsVerif.Props.C02Facts
