import WuffsVerif.Model.Linkage
import WuffsVerif.Model.Effects
import WuffsVerif.Model.CNames
import WuffsVerif.Gen.C10_Names
/-!
# C10 — compiled Wuffs code is hermetic

Theorems over the models of the C back end's linkage decisions
(`Model/Linkage.lean`), of the effect rule (`Model/Effects.lean`) and of the
regenerated table of C names the back end can emit (`Gen/C10_Names.lean`).
The object-level facts (sections, undefined symbols, memcmp around pure calls)
are established by the harness on the real object code; see harness/cmd/c10.
-/
namespace WuffsVerif.Props.C10

open WuffsVerif.Linkage

/-! ## Linkage: what is exported, and that no object is writable -/

theorem mem_decls (p : Pkg) (d : Decl) :
    d ∈ decls p ↔
      (∃ z ∈ p.statuses, d = statusDecl p z) ∨ (∃ c ∈ p.consts, d = constDecl p c) ∨
      (∃ s ∈ p.structs, d ∈ structDecls p s) ∨ (∃ f ∈ p.funcs, d ∈ funcDecls p f) := by
  unfold decls
  simp only [List.mem_append, List.mem_map, List.mem_flatMap, or_assoc]
  constructor
  · rintro (⟨z, hz, rfl⟩ | ⟨c, hc, rfl⟩ | h | h)
    · exact Or.inl ⟨z, hz, rfl⟩
    · exact Or.inr (Or.inl ⟨c, hc, rfl⟩)
    · exact Or.inr (Or.inr (Or.inl h))
    · exact Or.inr (Or.inr (Or.inr h))
  · rintro (⟨z, hz, rfl⟩ | ⟨c, hc, rfl⟩ | h | h)
    · exact Or.inl ⟨z, hz, rfl⟩
    · exact Or.inr (Or.inl ⟨c, hc, rfl⟩)
    · exact Or.inr (Or.inr (Or.inl h))
    · exact Or.inr (Or.inr (Or.inr h))

/-- No declaration the back end emits is a writable object: statuses are
    `const char[]`, array constants `static const`, vtables `const`. -/
theorem objects_const (p : Pkg) : ∀ d ∈ decls p, d.kind = .obj → d.qual = .const := by
  intro d hd hk
  rcases (mem_decls p d).1 hd with ⟨z, _, rfl⟩ | ⟨c, _, rfl⟩ | ⟨s, _, hs⟩ | ⟨f, _, hf⟩
  · rfl
  · unfold constDecl at hk ⊢
    split at hk <;> simp_all
  · unfold structDecls at hs
    simp only [List.mem_append, List.mem_flatMap] at hs
    rcases hs with (hs | hs) | ⟨i, _, hi⟩
    · split at hs <;> simp_all
    · split at hs
      · simp only [List.mem_cons, List.mem_nil_iff, or_false] at hs
        rcases hs with rfl | rfl <;> simp at hk
      · simp at hs
    · unfold implDecls at hi
      simp only [List.mem_append, List.mem_cons, List.mem_nil_iff, or_false] at hi
      rcases hi with (rfl | rfl) | hi
      · rfl
      · simp at hk
      · split at hi
        · simp only [List.mem_cons, List.mem_nil_iff, or_false] at hi
          subst hi; simp at hk
        · simp at hi
  · unfold funcDecls at hf
    simp only [List.mem_cons] at hf
    rcases hf with rfl | hf
    · simp at hk
    · split at hf
      · simp only [List.mem_cons, List.mem_nil_iff, or_false] at hf
        subst hf; simp at hk
      · simp at hf

/-- Exported function declarations of one struct. -/
theorem structDecls_exported (p : Pkg) (s : StructD) (b : Bool) (d : Decl) :
    (d ∈ structDecls p s ∧ d.kind = .func ∧ d.link.exported b = true) ↔
      (s.pub = true ∧ s.classy = true ∧
        (d = ⟨.func, initName p s, .extern, .none⟩ ∨ d = ⟨.func, allocName p s, .extern, .none⟩ ∨
         d = ⟨.func, sizeofName p s, .extern, .none⟩)) := by
  constructor
  · rintro ⟨hs, hk, hl⟩
    unfold structDecls at hs
    simp only [List.mem_append, List.mem_flatMap] at hs
    rcases hs with (hs | hs) | ⟨i, _, hi⟩
    · split at hs
      · rename_i hc
        simp only [List.mem_cons, List.mem_nil_iff, or_false] at hs
        subst hs
        cases hp : s.pub <;> simp [hp, Link.exported] at hl ⊢
        exact hc
      · simp at hs
    · split at hs
      · rename_i hc
        simp only [Bool.and_eq_true] at hc
        simp only [List.mem_cons, List.mem_nil_iff, or_false] at hs
        rcases hs with rfl | rfl
        · exact ⟨hc.2, hc.1, Or.inr (Or.inl rfl)⟩
        · exact ⟨hc.2, hc.1, Or.inr (Or.inr rfl)⟩
      · simp at hs
    · unfold implDecls at hi
      simp only [List.mem_append, List.mem_cons, List.mem_nil_iff, or_false] at hi
      rcases hi with (rfl | rfl) | hi
      · simp at hk
      · simp [Link.exported] at hl
      · split at hi
        · simp only [List.mem_cons, List.mem_nil_iff, or_false] at hi
          subst hi; simp [Link.exported] at hl
        · simp at hi
  · rintro ⟨hp, hc, h⟩
    unfold structDecls
    simp only [List.mem_append, List.mem_flatMap, hp, hc, Bool.and_self, if_true]
    rcases h with rfl | rfl | rfl <;> simp [Link.exported]

/-- Exported function declarations of one Wuffs function. -/
theorem funcDecls_exported (p : Pkg) (f : FuncD) (b : Bool) (d : Decl) :
    (d ∈ funcDecls p f ∧ d.kind = .func ∧ d.link.exported b = true) ↔
      (f.pub = true ∧ b = false ∧ d = ⟨.func, funcCName p f, .maybeStatic, .none⟩) := by
  constructor
  · rintro ⟨hf, _, hl⟩
    unfold funcDecls at hf
    simp only [List.mem_cons] at hf
    rcases hf with rfl | hf
    · cases hp : f.pub <;> cases b <;> simp [hp, Link.exported] at hl ⊢
    · split at hf
      · simp only [List.mem_cons, List.mem_nil_iff, or_false] at hf
        subst hf; simp [Link.exported] at hl
      · simp at hf
  · rintro ⟨hp, rfl, rfl⟩
    unfold funcDecls
    simp [hp, Link.exported]

theorem mem_exportedFuncs (b : Bool) (p : Pkg) (n : String) :
    n ∈ exportedFuncs b p ↔ ∃ d ∈ decls p, d.kind = .func ∧ d.link.exported b = true ∧ d.name = n := by
  unfold exportedFuncs
  simp only [List.mem_map, List.mem_filter, Bool.and_eq_true, beq_iff_eq]
  constructor
  · rintro ⟨d, ⟨hd, hk, hl⟩, rfl⟩; exact ⟨d, hd, hk, hl, rfl⟩
  · rintro ⟨d, hd, hk, hl, rfl⟩; exact ⟨d, ⟨hd, hk, hl⟩, rfl⟩

/-- **exports_exact** (default build): a name is an exported function of the
    package's object code iff it is the C name of a method declared `pub`, or
    the `initialize` / `alloc` / `sizeof__` helper of a `pub` (classy) struct.
    (`alloc_as__`/`upcast_as__` helpers are `static inline`: never exported.) -/
theorem exports_exact (p : Pkg) (n : String) :
    n ∈ exportedFuncs false p ↔
      (∃ f ∈ p.funcs, f.pub = true ∧ n = funcCName p f) ∨
      (∃ s ∈ p.structs, s.pub = true ∧ s.classy = true ∧
        (n = initName p s ∨ n = allocName p s ∨ n = sizeofName p s)) := by
  rw [mem_exportedFuncs]
  constructor
  · rintro ⟨d, hd, hk, hl, rfl⟩
    rcases (mem_decls p d).1 hd with ⟨z, _, rfl⟩ | ⟨c, _, rfl⟩ | ⟨s, hs, hds⟩ | ⟨f, hf, hdf⟩
    · simp [statusDecl] at hk
    · unfold constDecl at hk; split at hk <;> simp at hk
    · obtain ⟨hp, hc, h⟩ := (structDecls_exported p s false d).1 ⟨hds, hk, hl⟩
      refine Or.inr ⟨s, hs, hp, hc, ?_⟩
      rcases h with rfl | rfl | rfl <;> simp
    · obtain ⟨hp, _, rfl⟩ := (funcDecls_exported p f false d).1 ⟨hdf, hk, hl⟩
      exact Or.inl ⟨f, hf, hp, rfl⟩
  · rintro (⟨f, hf, hp, rfl⟩ | ⟨s, hs, hp, hc, h⟩)
    · have := (funcDecls_exported p f false ⟨.func, funcCName p f, .maybeStatic, .none⟩).2 ⟨hp, rfl, rfl⟩
      exact ⟨_, (mem_decls p _).2 (Or.inr (Or.inr (Or.inr ⟨f, hf, this.1⟩))), this.2.1, this.2.2, rfl⟩
    · rcases h with rfl | rfl | rfl
      · have := (structDecls_exported p s false ⟨.func, initName p s, .extern, .none⟩).2 ⟨hp, hc, Or.inl rfl⟩
        exact ⟨_, (mem_decls p _).2 (Or.inr (Or.inr (Or.inl ⟨s, hs, this.1⟩))), this.2.1, this.2.2, rfl⟩
      · have := (structDecls_exported p s false ⟨.func, allocName p s, .extern, .none⟩).2 ⟨hp, hc, Or.inr (Or.inl rfl)⟩
        exact ⟨_, (mem_decls p _).2 (Or.inr (Or.inr (Or.inl ⟨s, hs, this.1⟩))), this.2.1, this.2.2, rfl⟩
      · have := (structDecls_exported p s false ⟨.func, sizeofName p s, .extern, .none⟩).2 ⟨hp, hc, Or.inr (Or.inr rfl)⟩
        exact ⟨_, (mem_decls p _).2 (Or.inr (Or.inr (Or.inl ⟨s, hs, this.1⟩))), this.2.1, this.2.2, rfl⟩

/-- **exports_static**: with `WUFFS_CONFIG__STATIC_FUNCTIONS` only the
    initialize / alloc / sizeof__ helpers of pub structs remain exported. -/
theorem exports_static (p : Pkg) (n : String) :
    n ∈ exportedFuncs true p ↔
      (∃ s ∈ p.structs, s.pub = true ∧ s.classy = true ∧
        (n = initName p s ∨ n = allocName p s ∨ n = sizeofName p s)) := by
  rw [mem_exportedFuncs]
  constructor
  · rintro ⟨d, hd, hk, hl, rfl⟩
    rcases (mem_decls p d).1 hd with ⟨z, _, rfl⟩ | ⟨c, _, rfl⟩ | ⟨s, hs, hds⟩ | ⟨f, _, hdf⟩
    · simp [statusDecl] at hk
    · unfold constDecl at hk; split at hk <;> simp at hk
    · obtain ⟨hp, hc, h⟩ := (structDecls_exported p s true d).1 ⟨hds, hk, hl⟩
      refine ⟨s, hs, hp, hc, ?_⟩
      rcases h with rfl | rfl | rfl <;> simp
    · have := (funcDecls_exported p f true d).1 ⟨hdf, hk, hl⟩
      simp at this
  · rintro ⟨s, hs, hp, hc, h⟩
    rcases h with rfl | rfl | rfl
    · have := (structDecls_exported p s true ⟨.func, initName p s, .extern, .none⟩).2 ⟨hp, hc, Or.inl rfl⟩
      exact ⟨_, (mem_decls p _).2 (Or.inr (Or.inr (Or.inl ⟨s, hs, this.1⟩))), this.2.1, this.2.2, rfl⟩
    · have := (structDecls_exported p s true ⟨.func, allocName p s, .extern, .none⟩).2 ⟨hp, hc, Or.inr (Or.inl rfl)⟩
      exact ⟨_, (mem_decls p _).2 (Or.inr (Or.inr (Or.inl ⟨s, hs, this.1⟩))), this.2.1, this.2.2, rfl⟩
    · have := (structDecls_exported p s true ⟨.func, sizeofName p s, .extern, .none⟩).2 ⟨hp, hc, Or.inr (Or.inr rfl)⟩
      exact ⟨_, (mem_decls p _).2 (Or.inr (Or.inr (Or.inl ⟨s, hs, this.1⟩))), this.2.1, this.2.2, rfl⟩

/-- The static build exports a subset of the default build. -/
theorem exports_static_subset (p : Pkg) (n : String) (h : n ∈ exportedFuncs true p) :
    n ∈ exportedFuncs false p :=
  (exports_exact p n).2 (Or.inr ((exports_static p n).1 h))

/-- Every function declaration of a `pri` function (and every choosy default) is `static`. -/
theorem pri_funcs_static (p : Pkg) (f : FuncD) (hf : f.pub = false) :
    ∀ d ∈ funcDecls p f, d.link = .static := by
  intro d hd
  unfold funcDecls at hd
  simp only [List.mem_cons] at hd
  rcases hd with rfl | hd
  · simp [hf]
  · split at hd
    · simp only [List.mem_cons, List.mem_nil_iff, or_false] at hd
      subst hd; rfl
    · simp at hd

/-- non-vacuity: a package with a pub and a pri method, a pub and a pri struct. -/
example :
    exportedFuncs false ⟨"t", [⟨true, "#bad"⟩], [⟨false, "TAB", false⟩],
      [⟨true, "dec", true, ["wuffs_base__io_transformer"]⟩, ⟨false, "aux", true, []⟩],
      [⟨true, "dec", "go", .coro, false⟩, ⟨false, "dec", "step", .impure, true⟩]⟩
    = ["wuffs_t__dec__initialize", "wuffs_t__dec__alloc", "sizeof__wuffs_t__dec", "wuffs_t__dec__go"] := by
  decide

/-- cgen's `cName` on a typical status message. -/
example : cName "#Bad  header (v2)" "" = "bad_header_v2" := by decide

end WuffsVerif.Props.C10
