/-
C09 (part: CPU-specific paths) — the vectorised inner loop of `hasher.up_x86_sse42`
(std/adler32/common_up_x86_sse42.wuffs; lane model Model/Adler32Sse.lean) computes, for every chunk of
at most 5552 bytes from a reduced state, exactly what the portable byte-at-a-time loop computes:

* `sseIter_inv`: one 32-byte iteration keeps "Σ lanes(v1) ≡ s1-sum" and "32·Σ lanes(v2j) + Σ lanes(v2k) ≡ s2-sum"
  modulo 2^32 (every `_mm_add_epi32` is a ring operation modulo 2^32; the `_mm_maddubs_epi16` signed
  saturation cannot trigger: 255·32 + 255·31 < 32768, `wlane_eq`);
* `sseLoop_inv`: any number of iterations; `fold_shift`: the hoisted `s1 · num_iterate_bytes` term;
* **`sseChunk_eq_upChunk`**, **`upSse_eq_up`**, **`hashSse_spec`**: the SSE4.2 loop with the source's chunk size
  = the portable loop = RFC 1950 Adler-32, for ALL inputs.
-/
import WuffsVerif.Props.C09Adler
import WuffsVerif.Model.Adler32Sse

namespace WuffsVerif.Props.C09
open WuffsVerif.Adler32Up WuffsVerif.Adler32Sse WuffsVerif.HashSpec

theorem byteAt_le (p : List UInt8) (i : Nat) : byteAt p i ≤ 255 := by
  unfold byteAt
  have := (p.getD i 0).toNat_lt
  omega

/-- the signed saturation of `_mm_maddubs_epi16` cannot trigger with weights ≤ 32 -/
theorem wlane_eq (p : List UInt8) (o w0 w1 w2 w3 : Nat) (h : w0 ≤ 32 ∧ w1 ≤ 32 ∧ w2 ≤ 32 ∧ w3 ≤ 32) :
    wlane p o w0 w1 w2 w3 = byteAt p o * w0 + byteAt p (o + 1) * w1 + byteAt p (o + 2) * w2 + byteAt p (o + 3) * w3 := by
  have m : ∀ i w, w ≤ 32 → byteAt p i * w ≤ 255 * 32 := fun i w hw => Nat.mul_le_mul (byteAt_le p i) hw
  have m0 := m o w0 h.1; have m1 := m (o + 1) w1 h.2.1; have m2 := m (o + 2) w2 h.2.2.1; have m3 := m (o + 3) w3 h.2.2.2
  unfold wlane Adler32Sse.sat16
  rw [if_pos (by omega), if_pos (by omega)]
  omega

def A1 (acc : Acc) : Nat := acc.v1.a + acc.v1.b + acc.v1.c + acc.v1.d
def A2 (acc : Acc) : Nat :=
  32 * (acc.v2j.a + acc.v2j.b + acc.v2j.c + acc.v2j.d) + (acc.v2k.a + acc.v2k.b + acc.v2k.c + acc.v2k.d)

theorem length32 (p : List UInt8) (h : p.length = 32) :
    ∃ b0 b1 b2 b3 b4 b5 b6 b7 b8 b9 b10 b11 b12 b13 b14 b15 b16 b17 b18 b19 b20 b21 b22 b23 b24 b25 b26 b27 b28 b29 b30 b31, p = [b0, b1, b2, b3, b4, b5, b6, b7, b8, b9, b10, b11, b12, b13, b14, b15, b16, b17, b18, b19, b20, b21, b22, b23, b24, b25, b26, b27, b28, b29, b30, b31] := by
  match p, h with
  | [b0, b1, b2, b3, b4, b5, b6, b7, b8, b9, b10, b11, b12, b13, b14, b15, b16, b17, b18, b19, b20, b21, b22, b23, b24, b25, b26, b27, b28, b29, b30, b31], _ => exact ⟨b0, b1, b2, b3, b4, b5, b6, b7, b8, b9, b10, b11, b12, b13, b14, b15, b16, b17, b18, b19, b20, b21, b22, b23, b24, b25, b26, b27, b28, b29, b30, b31, rfl⟩

/-- one 32-byte iteration: the lane sums follow the scalar sums modulo 2^32 -/
theorem sseIter_inv (acc : Acc) (σ : Nat × Nat) (p : List UInt8) (hp : p.length = 32)
    (h1 : σ.1 % W = A1 acc % W) (h2 : σ.2 % W = A2 acc % W) :
    (p.foldl exactStep σ).1 % W = A1 (sseIter acc p) % W ∧ (p.foldl exactStep σ).2 % W = A2 (sseIter acc p) % W := by
  obtain ⟨b0, b1, b2, b3, b4, b5, b6, b7, b8, b9, b10, b11, b12, b13, b14, b15, b16, b17, b18, b19, b20, b21, b22, b23, b24, b25, b26, b27, b28, b29, b30, b31, rfl⟩ := length32 p hp
  unfold sseIter
  rw [wlane_eq _ 0 32 31 30 29 (by omega), wlane_eq _ 4 28 27 26 25 (by omega), wlane_eq _ 8 24 23 22 21 (by omega), wlane_eq _ 12 20 19 18 17 (by omega), wlane_eq _ 16 16 15 14 13 (by omega), wlane_eq _ 20 12 11 10 9 (by omega), wlane_eq _ 24 8 7 6 5 (by omega), wlane_eq _ 28 4 3 2 1 (by omega)]
  simp only [List.foldl_cons, List.foldl_nil, exactStep, A1, A2, V4.add, sum8, byteAt, List.getD_cons_succ,
    List.getD_cons_zero, W] at h1 h2 ⊢
  omega

/-- any number of 32-byte iterations -/
theorem sseLoop_inv : ∀ (n : Nat) (bs : List UInt8) (acc : Acc) (σ : Nat × Nat), 32 * n ≤ bs.length →
    σ.1 % W = A1 acc % W → σ.2 % W = A2 acc % W →
    ((bs.take (32 * n)).foldl exactStep σ).1 % W = A1 (sseLoop n bs acc) % W ∧
    ((bs.take (32 * n)).foldl exactStep σ).2 % W = A2 (sseLoop n bs acc) % W := by
  intro n
  induction n with
  | zero =>
    intro bs acc σ _ h1 h2
    simp only [Nat.mul_zero, List.take_zero, List.foldl_nil, sseLoop]
    exact ⟨h1, h2⟩
  | succ m ih =>
    intro bs acc σ hl h1 h2
    have e : bs.take (32 * (m + 1)) = bs.take 32 ++ (bs.drop 32).take (32 * m) := by
      rw [show 32 * (m + 1) = 32 + 32 * m by omega, List.take_add]
    rw [e, List.foldl_append]
    have hp : (bs.take 32).length = 32 := by rw [List.length_take]; omega
    obtain ⟨i1, i2⟩ := sseIter_inv acc σ (bs.take 32) hp h1 h2
    exact ih (bs.drop 32) _ _ (by rw [List.length_drop]; omega) i1 i2

/-- the exact sums from any start = the sums from (0, 0), shifted: where the hoisted
`s2 ~mod+= s1 ~mod* num_iterate_bytes` comes from -/
theorem fold_shift (bs : List UInt8) : ∀ (a b : Nat),
    bs.foldl exactStep (a, b) =
      ((bs.foldl exactStep (0, 0)).1 + a, (bs.foldl exactStep (0, 0)).2 + b + bs.length * a) := by
  induction bs with
  | nil => intro a b; simp
  | cons x r ih =>
    intro a b
    simp only [List.foldl_cons, exactStep, List.length_cons, Nat.zero_add]
    rw [ih (a + x.toNat) (b + (a + x.toNat)), ih x.toNat x.toNat, Nat.mul_add, Nat.add_mul]
    apply Prod.ext <;> simp only <;> omega

/-- **`sseChunk_eq_upChunk`**: one outer iteration of `up_x86_sse42` (hoisted term, vectorised 32-byte loop,
lane merge, scalar tail, reduction) = one outer iteration of the portable `up`, for every chunk of at most
5552 bytes from a reduced state. -/
theorem sseChunk_eq_upChunk (st : Nat × Nat) (chunk : List UInt8) (hl : chunk.length ≤ 5552)
    (h1 : st.1 < 65521) (h2 : st.2 < 65521) : sseChunk st chunk = upChunk st chunk := by
  have hn : 32 * (chunk.length / 32) ≤ chunk.length := by omega
  have hpl : (chunk.take (32 * (chunk.length / 32))).length = 32 * (chunk.length / 32) := by
    rw [List.length_take]; omega
  -- the portable loop over the vectorised prefix is exact and below 2^32
  have hex := inner_exact (chunk.take (32 * (chunk.length / 32))) st 0 (by omega) (by omega)
    (by simp only [tri]; omega)
  have hbd := exact_bound (chunk.take (32 * (chunk.length / 32))) st 0 (by omega) (by simp only [tri]; omega)
  have ht := tri_mono (0 + (chunk.take (32 * (chunk.length / 32))).length) 5552 (by omega)
  have h5 := tri_5552
  have hsh := fold_shift (chunk.take (32 * (chunk.length / 32))) st.1 st.2
  obtain ⟨i1, i2⟩ := sseLoop_inv (chunk.length / 32) chunk ⟨zero4, zero4, zero4⟩ (0, 0) hn
    (by simp [A1, zero4]) (by simp [A2, zero4])
  have hsplit : chunk.foldl innerStep st =
      (chunk.drop (32 * (chunk.length / 32))).foldl innerStep ((chunk.take (32 * (chunk.length / 32))).foldl innerStep st) := by
    rw [← List.foldl_append, List.take_append_drop]
  unfold sseChunk upChunk
  simp only
  rw [hsplit, hex]
  have hm : (chunk.take (32 * (chunk.length / 32))).length * st.1 = st.1 * (32 * (chunk.length / 32)) := by
    rw [hpl, Nat.mul_comm]
  have hst : ((st.1 + (sseLoop (chunk.length / 32) chunk ⟨zero4, zero4, zero4⟩).v1.hsum) % W,
      ((st.2 + (st.1 * (32 * (chunk.length / 32))) % W) % W +
        ((sseLoop (chunk.length / 32) chunk ⟨zero4, zero4, zero4⟩).v2k.add
          (sseLoop (chunk.length / 32) chunk ⟨zero4, zero4, zero4⟩).v2j.shl5).hsum) % W) =
      (chunk.take (32 * (chunk.length / 32))).foldl exactStep st := by
    have hst' : st = (st.1, st.2) := rfl
    rw [hst', hsh]
    rw [hsh] at hbd
    simp only [A1, A2, W] at i1 i2
    simp only [V4.hsum, V4.add, V4.shl5, W]
    generalize (sseLoop (chunk.length / 32) chunk ⟨zero4, zero4, zero4⟩) = acc at *
    generalize (chunk.take (32 * (chunk.length / 32))).foldl exactStep (0, 0) = F at *
    rw [hm] at hbd ⊢
    generalize st.1 * (32 * (chunk.length / 32)) = cross at *
    simp only at hbd
    apply Prod.ext <;> simp only <;> omega
  rw [hst]

/-- the outer loops agree from every reduced state -/
theorem upSse_eq_up (c : Nat) (hc : c ≤ 5552) : ∀ (fuel : Nat) (st : Nat × Nat) (bs : List UInt8),
    st.1 < 65521 → st.2 < 65521 → upSse c fuel st bs = up c fuel st bs := by
  intro fuel
  induction fuel with
  | zero => intro st bs _ _; rfl
  | succ f ih =>
    intro st bs h1 h2
    unfold upSse up
    split
    · rfl
    · have htake : (bs.take c).length ≤ 5552 := by rw [List.length_take]; omega
      rw [sseChunk_eq_upChunk st _ htake h1 h2]
      apply ih
      · unfold upChunk; exact Nat.mod_lt _ (by decide)
      · unfold upChunk; exact Nat.mod_lt _ (by decide)

/-- the whole hash: SSE4.2 lane model = portable model -/
theorem hashSse_eq_hash (c : Nat) (hc : c ≤ 5552) (bs : List UInt8) : hashSse c bs = Adler32Up.hash c bs := by
  unfold hashSse Adler32Up.hash
  simp only
  rw [upSse_eq_up c hc bs.length (1, 0) bs (by decide) (by decide)]

/-- **`hashSse_spec`**: the SSE4.2 Adler-32 (lane model) = the portable loop = RFC 1950 Adler-32 for ALL inputs,
for every chunk size 1..5552. -/
theorem hashSse_spec (c : Nat) (hc0 : 0 < c) (hc : c ≤ 5552) (bs : List UInt8) : hashSse c bs = adler32 bs := by
  rw [hashSse_eq_hash c hc, hash_spec c hc0 hc]

open WuffsVerif.Gen.C09 in
/-- with every chunk size found in std/adler32 (regenerated; `up_x86_sse42` uses 5536) -/
theorem std_adler_sse_spec (bs : List UInt8) : ∀ c ∈ adlerChunks, hashSse c.2 bs = adler32 bs := by
  intro c hcm
  have := List.all_eq_true.mp std_adler_chunks_within_nmax c hcm
  simp only [decide_eq_true_eq] at this
  exact hashSse_spec c.2 this.1 this.2 bs

/-- non-vacuity / sanity of the lane model on a 70-byte input (two vector iterations + a 6-byte tail) -/
example : hashSse 5536 ((List.range 70).map (fun i => UInt8.ofNat (i * 37 + 200))) =
    adler32 ((List.range 70).map (fun i => UInt8.ofNat (i * 37 + 200))) := by decide +kernel

/-- the saturation of `_mm_maddubs_epi16` is what the weights ≤ 32 avoid: with weights 128/127 it would bite -/
example : Adler32Sse.sat16 (255 * 128 + 255 * 127) = 32767 := by decide

end WuffsVerif.Props.C09
