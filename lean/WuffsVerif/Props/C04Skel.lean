/-
C04 — the skeleton text the driver prints for a coroutine (`showLX`, in
Model/CStmtAst.lean: `showL` of Model/CStmt.lean with the text of an atomic
statement supplied by a function, so that a suspending statement can be written
as its template) is the SAME text as `showL` when every atom is written `A`:
the statement-lowering theorems and the skeleton comparison of ordinary
methods are about `showL`, the coroutine comparison about `showLX` — this is
what connects the two.
-/
import WuffsVerif.Model.CStmtAst

namespace WuffsVerif.Props.C04Skel
open WuffsVerif.CStmt

mutual
theorem showSX_plain : ∀ s : CStmt, showSX (fun _ => ["A"]) s = showS s
  | .act _ => by simp [showSX, showS]
  | .ite _ elif t e => by simp [showSX, showS, showLX_plain t, showElseX_plain elif e]
  | .block b => by simp [showSX, showS, showLX_plain b]
  | .while _ body => by simp [showSX, showS, showLX_plain body]
  | .doWhile0 body => by simp [showSX, showS, showLX_plain body]
  | .brk => by simp [showSX, showS]
  | .cont => by simp [showSX, showS]
  | .goto _ => by simp [showSX, showS]
  | .label _ => by simp [showSX, showS]
  | .ret _ => by simp [showSX, showS]
theorem showLX_plain : ∀ l : List CStmt, showLX (fun _ => ["A"]) l = showL l
  | [] => by simp [showLX, showL]
  | s :: r => by simp [showLX, showL, showSX_plain s, showLX_plain r]
theorem showElseX_plain : ∀ (b : Bool) (l : List CStmt), showElseX (fun _ => ["A"]) b l = showElse b l
  | _, [] => by simp [showElseX, showElse]
  | true, [.ite c elif t e] => by simp [showElseX, showElse, showLX_plain t, showElseX_plain elif e]
  | false, s :: r => by simp [showElseX, showElse, showSX_plain s, showLX_plain r]
  | true, s :: s2 :: r => by simp [showElseX, showElse, showSX_plain s, showLX_plain (s2 :: r)]
  | true, [.act a] => by simp [showElseX, showElse, showSX_plain, showLX_plain]
  | true, [.block b] => by simp [showElseX, showElse, showSX_plain (.block b), showLX_plain]
  | true, [.while c b] => by simp [showElseX, showElse, showSX_plain (.while c b), showLX_plain]
  | true, [.doWhile0 b] => by simp [showElseX, showElse, showSX_plain (.doWhile0 b), showLX_plain]
  | true, [.brk] => by simp [showElseX, showElse, showSX_plain, showLX_plain]
  | true, [.cont] => by simp [showElseX, showElse, showSX_plain, showLX_plain]
  | true, [.goto l] => by simp [showElseX, showElse, showSX_plain, showLX_plain]
  | true, [.label l] => by simp [showElseX, showElse, showSX_plain, showLX_plain]
  | true, [.ret e] => by simp [showElseX, showElse, showSX_plain, showLX_plain]
end

/-- a statement without a suspending call (code 0) is written `A` in a coroutine too -/
theorem actTokens_plain : WuffsVerif.CCoro.actTokens 0 = ["A"] := by decide

end WuffsVerif.Props.C04Skel
