/-
C04 part 5 — associative `*` on the small integer types.  `a * b * c` is
accepted when the WHOLE product is in range (bcheckExprAssociativeOp checks only
the final bounds), so an intermediate product may exceed the type — e.g.
65535 * 65535 * 0 on base.u16.  Written as `(a * b * c)`, C multiplies the
promoted operands as `int` and the intermediate product overflows: undefined
behaviour.  After fixes/C04-u16-modmul.patch the first operand is converted to
uint32_t, every multiplication is an unsigned one, and the value is exact.
-/
import WuffsVerif.Proof.CExprLemmas

set_option linter.unusedSimpArgs false

namespace WuffsVerif.Props.C04
open WuffsVerif.WOps WuffsVerif.C WuffsVerif.Gen.C04 WuffsVerif.Proof.C04

theorem mod_mul_mod (x c m : Int) : (x % m * c) % m = (x * c) % m := by
  rw [Int.mul_emod, Int.emod_emod_of_dvd _ (Int.dvd_refl m), ← Int.mul_emod]

/-- the unrepaired form `(x * y * z)` (no conversion of the first operand) -/
def assocMulUnrepaired : CExpr := .bin .mul (.bin .mul (.hole 0) (.hole 1)) (.hole 2)

/-- 65535 * 65535 * 0 on base.u16: meaning 0, but the unrepaired C is undefined. -/
theorem assoc_mul_unrepaired_undefined :
    ceval (env3 ⟨.u16, 65535⟩ ⟨.u16, 65535⟩ ⟨.u16, 0⟩) assocMulUnrepaired = none ∧
    (65535 : Int) * 65535 * 0 = 0 := by
  constructor
  · simp [assocMulUnrepaired, ceval, env3, evalBin, promoteTy, uac, convert, intResult, INT_MIN, INT_MAX]
  · rfl

/-- **assoc_mul_small_correct** (three operands): on base.u8 / base.u16, for all
operand values whose whole product is in the type's range, the repaired
lowering `(((uint32_t)(x)) * y * z)` is defined and yields the exact product —
whatever the intermediate products are. -/
theorem assoc_mul_small_correct (t : WTy) (ht : t.isSmall = true) (a b c : Int)
    (ha : t.has a) (hb : t.has b) (hc : t.has c) (hprod : a * b * c ≤ t.max) :
    ∃ e r, lowerAssoc .mul t 1 = some e ∧
      ceval (env3 ⟨ctyOf t, a⟩ ⟨ctyOf t, b⟩ ⟨ctyOf t, c⟩) e = some r ∧
      r.v = a * b * c ∧ r.ty = .u32 := by
  have h0 : 0 ≤ a * b * c := Int.mul_nonneg (Int.mul_nonneg ha.1 hb.1) hc.1
  have hab : 0 ≤ a * b := Int.mul_nonneg ha.1 hb.1
  cases t <;> simp [WTy.isSmall] at ht <;>
    simp [WTy.has, WTy.max, WTy.bits] at ha hb hc hprod <;>
    simp [lowerAssoc, cAssocOf, WTy.isSmall, List.range, List.range.loop, ceval, env3, evalBin, promoteTy, uac,
      castTo, ctyOf, wrapU, CTy.bits] <;>
    (rw [Int.emod_eq_of_lt ha.1 (by omega), Int.emod_eq_of_lt hb.1 (by omega), Int.emod_eq_of_lt hc.1 (by omega),
      mod_mul_mod]) <;>
    exact Int.emod_eq_of_lt h0 (by omega)

/-- non-vacuity at the boundary that was undefined before the repair -/
example : ∃ e, lowerAssoc .mul .u16 1 = some e ∧
    ceval (env3 ⟨.u16, 65535⟩ ⟨.u16, 65535⟩ ⟨.u16, 0⟩) e = some ⟨.u32, 0⟩ := by
  refine ⟨.bin .mul (.bin .mul (.cast .u32 (.hole 0)) (.hole 1)) (.hole 2), rfl, ?_⟩
  simp [lowerAssoc, cAssocOf, WTy.isSmall, List.range, List.range.loop, ceval, env3, evalBin, promoteTy, uac, castTo, wrapU, CTy.bits]

end WuffsVerif.Props.C04
