/-
C04 part 5 — associative `*` on the small integer types.  `a * b * c` is
accepted when the WHOLE product is in range (bcheckExprAssociativeOp checks only
the final bounds), so an intermediate product may exceed the type — e.g.
65535 * 65535 * 0 on base.u16.  Written as `(a * b * c)`, C multiplies the
promoted operands as `int` and the intermediate product overflows: undefined
behaviour.  After fixes/C04-u16-modmul.patch the first operand is converted to
uint32_t, every multiplication is an unsigned one, and the value is exact.
-/
import WuffsVerif.Proof.CExprLemmas

set_option linter.unusedSimpArgs false

namespace WuffsVerif.Props.C04
open WuffsVerif.WOps WuffsVerif.C WuffsVerif.Gen.C04 WuffsVerif.Proof.C04

theorem mod_mul_mod (x c m : Int) : (x % m * c) % m = (x * c) % m := by
  rw [Int.mul_emod, Int.emod_emod_of_dvd _ (Int.dvd_refl m), ← Int.mul_emod]

/-- the unrepaired form `(x * y * z)` (no conversion of the first operand) -/
def assocMulUnrepaired : CExpr := .bin .mul (.bin .mul (.hole 0) (.hole 1)) (.hole 2)

/-- 65535 * 65535 * 0 on base.u16: meaning 0, but the unrepaired C is undefined. -/
theorem assoc_mul_unrepaired_undefined :
    ceval (env3 ⟨.u16, 65535⟩ ⟨.u16, 65535⟩ ⟨.u16, 0⟩) assocMulUnrepaired = none ∧
    (65535 : Int) * 65535 * 0 = 0 := by
  constructor
  · simp [assocMulUnrepaired, ceval, env3, evalBin, promoteTy, uac, convert, intResult, INT_MIN, INT_MAX]
  · rfl

/-- **assoc_mul_small_correct** (three operands): on base.u8 / base.u16, for all
operand values whose whole product is in the type's range, the repaired
lowering `(((uint32_t)(x)) * y * z)` is defined and yields the exact product —
whatever the intermediate products are. -/
theorem assoc_mul_small_correct (t : WTy) (ht : t.isSmall = true) (a b c : Int)
    (ha : t.has a) (hb : t.has b) (hc : t.has c) (hprod : a * b * c ≤ t.max) :
    ∃ e r, lowerAssoc .mul t 1 = some e ∧
      ceval (env3 ⟨ctyOf t, a⟩ ⟨ctyOf t, b⟩ ⟨ctyOf t, c⟩) e = some r ∧
      r.v = a * b * c ∧ r.ty = .u32 := by
  have h0 : 0 ≤ a * b * c := Int.mul_nonneg (Int.mul_nonneg ha.1 hb.1) hc.1
  have hab : 0 ≤ a * b := Int.mul_nonneg ha.1 hb.1
  cases t <;> simp [WTy.isSmall] at ht <;>
    simp [WTy.has, WTy.max, WTy.bits] at ha hb hc hprod <;>
    simp [lowerAssoc, lowerAssocK, cAssocOf, WTy.isSmall, List.range, List.range.loop, ceval, env3, evalBin, promoteTy, uac,
      castTo, ctyOf, wrapU, CTy.bits] <;>
    (rw [Int.emod_eq_of_lt ha.1 (by omega), Int.emod_eq_of_lt hb.1 (by omega), Int.emod_eq_of_lt hc.1 (by omega),
      mod_mul_mod]) <;>
    exact Int.emod_eq_of_lt h0 (by omega)

/-- … and that `uint32_t` value is an operand that `lower_correct` accepts: in
`(a * b * c) + d` on base.u8 the parent node sees a uint32_t left operand
(`OpdTy`), and is still correct. -/
theorem assoc_mul_small_operand (t : WTy) (ht : t.isSmall = true) (a b c : Int)
    (ha : t.has a) (hb : t.has b) (hc : t.has c) (hprod : a * b * c ≤ t.max) :
    ∃ e r, lowerAssoc .mul t 1 = some e ∧
      ceval (env3 ⟨ctyOf t, a⟩ ⟨ctyOf t, b⟩ ⟨ctyOf t, c⟩) e = some r ∧ Rep t false (a * b * c) r := by
  obtain ⟨e, r, h1, h2, h3, h4⟩ := assoc_mul_small_correct t ht a b c ha hb hc hprod
  have h0 : 0 ≤ a * b * c := Int.mul_nonneg (Int.mul_nonneg ha.1 hb.1) hc.1
  refine ⟨e, r, h1, h2, ⟨h3, ⟨h0, hprod⟩, ?_, ?_⟩⟩
  · rw [h4, h3]
    have : t.max < 2 ^ 32 := by cases t <;> simp [WTy.isSmall] at ht <;> simp [WTy.max, WTy.bits]
    simp only [CTy.has, CTy.bits]
    omega
  · rw [h4]; simp [OpdTy, ht]

/-- non-vacuity at the boundary that was undefined before the repair -/
example : ∃ e, lowerAssoc .mul .u16 1 = some e ∧
    ceval (env3 ⟨.u16, 65535⟩ ⟨.u16, 65535⟩ ⟨.u16, 0⟩) e = some ⟨.u32, 0⟩ := by
  refine ⟨.bin .mul (.bin .mul (.cast .u32 (.hole 0)) (.hole 1)) (.hole 2), rfl, ?_⟩
  simp [lowerAssoc, lowerAssocK, cAssocOf, WTy.isSmall, List.range, List.range.loop, ceval, env3, evalBin, promoteTy, uac, castTo, wrapU, CTy.bits]

/-! ## Two leading constants at base.u64 (fixes/C04-assoc-leading-constants.patch) -/

/-- the unrepaired form `(c0 + c1 + z)`: no conversion of the first operand -/
def assocAddUnrepaired : CExpr := .bin .add (.bin .add (.hole 0) (.hole 1)) (.hole 2)

/-- `4294967295 + 4294967295 + args.z` on base.u64 at z = 1: the two literals
are `unsigned int`s, their sum wraps to 4294967294, and the C value is
4294967295 — the Wuffs meaning is 8589934591.  No undefined behaviour: no
sanitizer sees it. -/
theorem assoc_leading_constants_unrepaired_wrong :
    ceval (env3 ⟨.u32, 4294967295⟩ ⟨.u32, 4294967295⟩ ⟨.u64, 1⟩) assocAddUnrepaired = some ⟨.u64, 4294967295⟩ ∧
    (4294967295 : Int) + 4294967295 + 1 = 8589934591 := by
  constructor
  · simp [assocAddUnrepaired, ceval, env3, evalBin, promoteTy, uac, convert, wrapU, CTy.bits]
  · rfl

/-- **assoc_add_leading_constants_correct**: after the repair, for all
constants c0, c1 below 2^32 (C literals of type `unsigned int`) and every
base.u64 value z with `c0 + c1 + z` in range, `(((uint64_t)(c0)) + c1 + z)` is
the exact sum. -/
theorem assoc_add_leading_constants_correct (c0 c1 z : Int) (h0 : 0 ≤ c0) (h0' : c0 < 2 ^ 32)
    (h1 : 0 ≤ c1) (h1' : c1 < 2 ^ 32) (hz : WTy.u64.has z) (hsum : c0 + c1 + z ≤ WTy.u64.max) :
    ∃ e, lowerAssocK .add .u64 1 true true = some e ∧
      ceval (env3 ⟨.u32, c0⟩ ⟨.u32, c1⟩ ⟨.u64, z⟩) e = some ⟨.u64, c0 + c1 + z⟩ := by
  simp [WTy.has, WTy.max, WTy.bits] at hz hsum
  refine ⟨.bin .add (.bin .add (.cast .u64 (.hole 0)) (.hole 1)) (.hole 2), rfl, ?_⟩
  simp [ceval, env3, evalBin, promoteTy, uac, castTo, convert, wrapU, CTy.bits]
  omega

/-- … and the exact product (even if `c0 * c1` alone needs more than 32 bits) -/
theorem assoc_mul_leading_constants_correct (c0 c1 z : Int) (h0 : 0 ≤ c0) (h0' : c0 < 2 ^ 32)
    (h1 : 0 ≤ c1) (h1' : c1 < 2 ^ 32) (hz : WTy.u64.has z) (hprod : c0 * c1 * z ≤ WTy.u64.max) :
    ∃ e, lowerAssocK .mul .u64 1 true true = some e ∧
      ceval (env3 ⟨.u32, c0⟩ ⟨.u32, c1⟩ ⟨.u64, z⟩) e = some ⟨.u64, c0 * c1 * z⟩ := by
  simp [WTy.has, WTy.max, WTy.bits] at hz hprod
  have hp0 : 0 ≤ c0 * c1 * z := Int.mul_nonneg (Int.mul_nonneg h0 h1) hz.1
  refine ⟨.bin .mul (.bin .mul (.cast .u64 (.hole 0)) (.hole 1)) (.hole 2), rfl, ?_⟩
  simp [ceval, env3, evalBin, promoteTy, uac, castTo, convert, wrapU, CTy.bits]
  rw [Int.emod_eq_of_lt h0 (by omega), Int.emod_eq_of_lt h1 (by omega), Int.emod_eq_of_lt hz.1 (by omega),
    mod_mul_mod]
  exact Int.emod_eq_of_lt hp0 (by omega)

end WuffsVerif.Props.C04
