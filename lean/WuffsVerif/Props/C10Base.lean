import WuffsVerif.Gen.C10_Base
/-!
# C10 — the hand-written base module defines no writable object and exports only its API

`Gen/C10_Base.lean` is regenerated on every run from
/repo/internal/cgen/base/*.{c,h}.  The theorems below are decided over that
list, so a stray `static` table without `const`, a function-local `static`
counter, or a helper that loses its `static` breaks the build of this file.
-/
namespace WuffsVerif.Props.C10

open WuffsVerif.Gen.C10

def hasPrefixL (pre s : String) : Bool := pre.toList.isPrefixOf s.toList

/-- **base_objects_const**: every file-scope object and every function-local
    `static` object the base module defines is declared `const`. -/
theorem base_objects_const :
    ∀ d ∈ baseDecls, (d.1 = "o" ∨ d.1 = "l") → d.2.2.2.1 = true := by
  decide +kernel

/-- **base_exports_api_only**: every function the base module defines without
    `static` is defined with `WUFFS_BASE__MAYBE_STATIC` (so that
    `WUFFS_CONFIG__STATIC_FUNCTIONS` un-exports it) and lives in the
    `wuffs_base__` API namespace (never `wuffs_private_impl__`). -/
theorem base_exports_api_only :
    ∀ d ∈ baseDecls, d.1 = "f" → d.2.2.1 = "maybe_static" ∧ hasPrefixL "wuffs_base__" d.2.1 = true := by
  decide +kernel

/-- the list is not empty of either kind (the two theorems are not vacuous) -/
theorem base_decls_nonvacuous :
    (∃ d ∈ baseDecls, d.1 = "o") ∧ (∃ d ∈ baseDecls, d.1 = "l") ∧ (∃ d ∈ baseDecls, d.1 = "f") := by
  decide +kernel

end WuffsVerif.Props.C10
