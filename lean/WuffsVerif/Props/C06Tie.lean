/-
C06 — obligations on what is regenerated from the code on every check
(`Gen/C06_Tables.lean`: lib/interval's `smallBitMasks`, `one`, `minusOne`,
`sharedEmptyRange`, `makeEmptyRange()`), and small facts about the helpers that the
per-helper correspondence lines (`bquo bmul blsh brsh bmask …`) execute.
-/
import WuffsVerif.Proof.IntervalTables
import WuffsVerif.Proof.IntervalPreds

namespace WuffsVerif.Props.C06
open WuffsVerif.Interval

/-- OBLIGATION (fails when the table in interval.go is changed to anything else):
entry `n` of the regenerated `smallBitMasks` table is `2^n - 1`, for every entry. -/
theorem smallBitMasks_entries (n : Nat) (m : Int)
    (h : Gen.C06.smallBitMasks[n]? = some m) : m = (2 : Int) ^ n - 1 :=
  smallBitMasks_entry n m h

/-- the table is not empty (the obligation above is not vacuous) and starts `0, 1, 3` -/
theorem smallBitMasks_nonvacuous :
    Gen.C06.smallBitMasks[0]? = some 0 ∧ Gen.C06.smallBitMasks[1]? = some 1 ∧
    Gen.C06.smallBitMasks[2]? = some 3 := by decide

/-- OBLIGATION: the package-level values are the ones the model uses. -/
theorem shared_values_ok :
    Gen.C06.one = 1 ∧ Gen.C06.minusOne = -1 ∧
    (⟨some Gen.C06.sharedEmptyRange.1, some Gen.C06.sharedEmptyRange.2⟩ : IR) = mkEmpty ∧
    (⟨some Gen.C06.makeEmptyRange.1, some Gen.C06.makeEmptyRange.2⟩ : IR) = mkEmpty :=
  shared_values

/-- `bitMask` (table lookup below `len(smallBitMasks)`, `(1 << n) - 1` above) is
`2^max(n0,n1) - 1` for all arguments. -/
theorem bitMask_spec (n0 n1 : Nat) : bitMask n0 n1 = (2 : Int) ^ (max n0 n1) - 1 :=
  bitMask_eq n0 n1

/-- `bigIntQuo` panics exactly on a zero divisor and is `Int.tdiv` otherwise. -/
theorem bigQuoP_spec (i j : Int) :
    (j = 0 → bigQuoP i j = none) ∧ (j ≠ 0 → bigQuoP i j = some (Int.tdiv i j)) := by
  unfold bigQuoP bigQuo
  constructor <;> intro h <;> simp [h]

/-- `bigIntLsh` / `bigIntRsh` with a non-positive count (the `Exp` fallback: `2^j = 1`) leave
the value alone; with a count `j ≥ 0` they are `i * 2^j` and `⌊i / 2^j⌋`. -/
theorem bigShift_spec (i j : Int) :
    (j ≤ 0 → bigLsh i j = i ∧ bigRsh i j = i) ∧
    (bigLsh i j = i * 2 ^ j.toNat ∧ bigRsh i j = i / 2 ^ j.toNat) := by
  unfold bigLsh bigRsh
  refine ⟨fun h => ?_, rfl, rfl⟩
  have : j.toNat = 0 := by omega
  simp [this]

/-! ## the public predicates (used by the operators for their failure conditions and by the
checker) mean what their names say -/

theorem containsNonNegative_iff_member (X : IR) :
    X.containsNonNegative = true ↔ ∃ v, X.mem v ∧ 0 ≤ v := containsNonNegative_iff X

theorem containsPositive_iff_member (X : IR) :
    X.containsPositive = true ↔ ∃ v, X.mem v ∧ 0 < v := containsPositive_iff X

theorem containsNegative_iff_member (X : IR) :
    X.containsNegative = true ↔ ∃ v, X.mem v ∧ v < 0 := containsNegative_iff X

/-- `ContainsZero` / `ContainsInt` are plain membership (also for an empty interval, where the
bounds are compared as they are) -/
theorem containsInt_iff_member (X : IR) (i : Int) :
    (X.containsInt i = true ↔ X.mem i) ∧ (X.containsZero = true ↔ X.mem 0) :=
  ⟨containsInt_iff X i, containsZero_iff X⟩

/-- `ContainsIntRange` is set inclusion (for all intervals, empty and infinite ones included) -/
theorem containsIntRange_iff_subset (X Y : IR) :
    X.containsIntRange Y = true ↔ ∀ v, Y.mem v → X.mem v := containsIntRange_iff X Y

/-- `Eq` is equality of the two sets of members (all empty representations are equal) -/
theorem rangeEq_iff_same_members (X Y : IR) : X.eq Y = true ↔ ∀ v, X.mem v ↔ Y.mem v := eq_iff X Y

example : (⟨some 3, some 1⟩ : IR).eq ⟨some 1, some (-1)⟩ = true ∧
    (⟨none, some 5⟩ : IR).containsIntRange ⟨some 2, some 5⟩ = true ∧
    (⟨some 0, some 5⟩ : IR).containsIntRange ⟨none, some 5⟩ = false := by decide

/-- the machine-word boundary instance that a native `int64` division gets wrong:
`[-2^63 ..= -2^63+10] / [-3 ..= -1] = [2^63/3 ..= 2^63]`. -/
example : tryQuo ⟨some (-9223372036854775808), some (-9223372036854775798)⟩ ⟨some (-3), some (-1)⟩
    = some ⟨some 3074457345618258599, some 9223372036854775808⟩ := by decide

end WuffsVerif.Props.C06
