/-
C06 — interval arithmetic over-approximates every concrete result.
Property theorems over `Model/Interval.lean` (which mirrors lib/interval/interval.go).
Helper lemmas live in `Proof/Interval*.lean`.
-/
import WuffsVerif.Model.Interval

namespace WuffsVerif.Props.C06
open WuffsVerif.Interval

/-- a member exists ⇒ the interval is not `Empty()`. -/
theorem not_empty_of_mem (X : IR) (x : Int) (h : X.mem x) : X.empty = false := by
  obtain ⟨h1, h2⟩ := h
  unfold IR.empty
  cases hl : X.lo <;> cases hh : X.hi <;> simp
  rw [hl] at h1; rw [hh] at h2
  simp only [loLe, leHi] at h1 h2
  omega

/-- Soundness of `Add`: the result contains x + y for all members. -/
theorem add_sound (X Y : IR) (x y : Int) (hx : X.mem x) (hy : Y.mem y) :
    (add X Y).mem (x + y) := by
  have ex := not_empty_of_mem X x hx
  have ey := not_empty_of_mem Y y hy
  obtain ⟨hx1, hx2⟩ := hx
  obtain ⟨hy1, hy2⟩ := hy
  unfold add IR.mem
  simp only [ex, ey, Bool.or_self, Bool.false_eq_true, ↓reduceIte]
  constructor
  · cases hl : X.lo <;> cases hl' : Y.lo <;> simp only [loLe]
    rw [hl] at hx1; rw [hl'] at hy1; simp only [loLe] at hx1 hy1; omega
  · cases hh : X.hi <;> cases hh' : Y.hi <;> simp only [leHi]
    rw [hh] at hx2; rw [hh'] at hy2; simp only [leHi] at hx2 hy2; omega

/-- non-vacuity: concrete half-infinite instance -/
example : (⟨some 3, none⟩ : IR).mem 5 ∧ (⟨some (-4), some (-2)⟩ : IR).mem (-3) := by
  decide

end WuffsVerif.Props.C06
