/-
C06 — interval arithmetic over-approximates every concrete result.
Property theorems over `Model/Interval.lean` (which mirrors lib/interval/interval.go).
Helper lemmas live in `Proof/Interval*.lean`.

This file: add, sub, mul, quo, lsh, rsh, unite, intersect —
soundness, exact failure, empty-in-empty-out, tightness.
`Props/C06Bits.lean`: and / or.

Conventions: `X.mem x` is membership (`none` bound = infinite), `X.empty` is the Go
`Empty()`; `tryQuo/tryLsh/tryRsh = none` is the Go `ok == false`.
Concrete semantics: `x * y`, `Int.tdiv x y` (Go `Quo`), `x * 2 ^ y.toNat` (`Lsh`),
`x / 2 ^ y.toNat` (floor division: `Rsh`).
-/
import WuffsVerif.Proof.IntervalOps

namespace WuffsVerif.Props.C06
open WuffsVerif.Interval

/-! `Img f X Y v` : `v = f x y` for some members `x ∈ X`, `y ∈ Y`.
`TightHull f X Y Z` : `Z = [l, h]` with both `l` and `h` in `Img f X Y`
(definitions in `Proof/IntervalBasic.lean`). -/

/-- a member exists ⇒ the interval is not `Empty()`. -/
theorem not_empty_of_mem (X : IR) (x : Int) (h : X.mem x) : X.empty = false :=
  Interval.not_empty_of_mem h

/-- `Empty()` is exactly "has no member" -/
theorem empty_iff_no_mem (X : IR) : X.empty = true ↔ ∀ x, ¬ X.mem x :=
  Interval.empty_iff_no_mem X

/-! ## 1. soundness -/

/-- Soundness of `Add`: the result contains x + y for all members. -/
theorem add_sound (X Y : IR) (x y : Int) (hx : X.mem x) (hy : Y.mem y) :
    (add X Y).mem (x + y) := by
  have ex := Interval.not_empty_of_mem hx
  have ey := Interval.not_empty_of_mem hy
  obtain ⟨hx1, hx2⟩ := hx
  obtain ⟨hy1, hy2⟩ := hy
  unfold add IR.mem
  simp only [ex, ey, Bool.or_self, Bool.false_eq_true, ↓reduceIte]
  constructor
  · cases hl : X.lo <;> cases hl' : Y.lo <;> simp only [loLe]
    rw [hl] at hx1; rw [hl'] at hy1; simp only [loLe] at hx1 hy1; omega
  · cases hh : X.hi <;> cases hh' : Y.hi <;> simp only [leHi]
    rw [hh] at hx2; rw [hh'] at hy2; simp only [leHi] at hx2 hy2; omega

/-- non-vacuity: concrete half-infinite instance -/
example : (⟨some 3, none⟩ : IR).mem 5 ∧ (⟨some (-4), some (-2)⟩ : IR).mem (-3) := by
  decide

/-- Soundness of `Sub`. -/
theorem sub_sound (X Y : IR) (x y : Int) (hx : X.mem x) (hy : Y.mem y) :
    (sub X Y).mem (x - y) := by
  have ex := Interval.not_empty_of_mem hx
  have ey := Interval.not_empty_of_mem hy
  obtain ⟨hx1, hx2⟩ := hx
  obtain ⟨hy1, hy2⟩ := hy
  unfold sub IR.mem
  simp only [ex, ey, Bool.or_self, Bool.false_eq_true, ↓reduceIte]
  constructor
  · cases hl : X.lo <;> cases hh' : Y.hi <;> simp only [loLe]
    split
    · trivial
    · rename_i heq
      split at heq <;> simp only [Option.some.injEq, reduceCtorEq] at heq
      rw [hl] at hx1; rw [hh'] at hy2; simp only [loLe, leHi] at hx1 hy2; omega
  · cases hh : X.hi <;> cases hl' : Y.lo <;> simp only [leHi]
    split
    · trivial
    · rename_i heq
      split at heq <;> simp only [Option.some.injEq, reduceCtorEq] at heq
      rw [hh] at hx2; rw [hl'] at hy1; simp only [loLe, leHi] at hx2 hy1; omega

/-- `Unite` contains both operands (for all X Y, including empty ones). -/
theorem unite_sound (X Y : IR) (z : Int) (h : X.mem z ∨ Y.mem z) : (unite X Y).mem z := by
  unfold unite
  split
  · rename_i he
    rcases h with h | h
    · exact absurd h (not_mem_of_empty he z)
    · exact h
  split
  · rename_i _ he
    rcases h with h | h
    · exact h
    · exact absurd h (not_mem_of_empty he z)
  rename_i ex ey
  simp only [Bool.not_eq_true] at ex ey
  obtain ⟨xl, xh⟩ := X
  obtain ⟨yl, yh⟩ := Y
  cases xl <;> cases xh <;> cases yl <;> cases yh <;>
    simp_all [mem_mk, IR.empty] <;> (try split) <;> (try split) <;> omega

/-- `Intersect` is exactly set intersection (for all X Y, including empty ones). -/
theorem intersect_sound (X Y : IR) (z : Int) :
    (intersect X Y).mem z ↔ X.mem z ∧ Y.mem z := by
  unfold intersect
  split
  · rename_i he
    simp only [Bool.or_eq_true] at he
    constructor
    · intro h; exact absurd h (not_mem_mkEmpty z)
    · rintro ⟨h1, h2⟩
      rcases he with he | he
      · exact absurd h1 (not_mem_of_empty he z)
      · exact absurd h2 (not_mem_of_empty he z)
  obtain ⟨xl, xh⟩ := X
  obtain ⟨yl, yh⟩ := Y
  cases xl <;> cases xh <;> cases yl <;> cases yh <;>
    simp [mem_mk] <;> (try split) <;> (try split) <;> omega

/-- Soundness of `Mul`. -/
theorem mul_sound (X Y : IR) (x y : Int) (hx : X.mem x) (hy : Y.mem y) :
    (mul X Y).mem (x * y) := by
  have ex := Interval.not_empty_of_mem hx
  have ey := Interval.not_empty_of_mem hy
  unfold mul
  rw [mulLsh_eq]
  simp only [ex, ey, Bool.or_self, Bool.false_eq_true, if_false, Bool.not_false, Bool.true_and]
  split
  · rename_i hz
    simp only [Bool.or_eq_true] at hz
    have : x * y = 0 := by
      rcases hz with hz | hz
      · rw [mem_justZero hz hx]; simp
      · rw [mem_justZero hz hy]; simp
    rw [this]; simp [mem_mk]
  · have SX := split3_spec' X ex
    have SY := split3_spec' Y ey
    rw [toIR_mem_iff]
    refine mulCascade_covers (f := (· * ·)) SX SY hx hy _ ?_
      (fun _ _ => mul_monoNN) (fun _ _ => mul_monoNP) (fun _ _ => mul_monoPN) (fun _ _ => mul_monoPP)
    intro h0
    have hz : X.split3.2.2.2.1 = true ∨ Y.split3.2.2.2.1 = true := by
      rcases h0 with h0 | h0
      · exact Or.inl (SX.zero_iff.2 (h0 ▸ hx))
      · exact Or.inr (SY.zero_iff.2 (h0 ▸ hy))
    have hv : x * y = 0 := by rcases h0 with h0 | h0 <;> simp [h0]
    show (mulInit X false _ _).covers (x * y)
    rw [hv]
    unfold mulInit
    rcases hz with hz | hz <;> simp [hz, covers_zero]

/-- `y` is a legal shift count when `TryLsh`/`TryRsh` succeeded on a non-empty `X` -/
theorem shift_nonneg_of_not_containsNegative {Y : IR} (h : Y.containsNegative = false)
    {y : Int} (hy : Y.mem y) : 0 ≤ y := by
  by_cases hneg : y < 0
  · have := (containsNegative_iff Y).2 ⟨y, hy, hneg⟩
    simp_all
  · omega

/-- Soundness of `TryLsh`: on success the result contains `x << y = x * 2^y`
(and every such `y` is non-negative). -/
theorem lsh_sound (X Y Z : IR) (x y : Int) (hx : X.mem x) (hy : Y.mem y)
    (hz : tryLsh X Y = some Z) : 0 ≤ y ∧ Z.mem (x * 2 ^ y.toNat) := by
  have ex := Interval.not_empty_of_mem hx
  have ey := Interval.not_empty_of_mem hy
  unfold tryLsh at hz
  simp only [ex, Bool.not_false, Bool.true_and] at hz
  split at hz
  · cases hz
  rename_i hcn
  simp only [Bool.not_eq_true] at hcn
  have ynn : ∀ y', Y.mem y' → 0 ≤ y' := fun y' h => shift_nonneg_of_not_containsNegative hcn h
  have y0 := ynn y hy
  refine ⟨y0, ?_⟩
  simp only [Option.some.injEq] at hz
  subst hz
  rw [mulLsh_eq]
  simp only [ex, ey, Bool.or_self, Bool.false_eq_true, if_false, Bool.not_true, Bool.false_and,
    Bool.or_false, if_true]
  split
  · rename_i hjz
    rw [mem_justZero hjz hx]; simp [mem_mk]
  · have SX := split3_spec' X ex
    have SY := split3_spec' Y ey
    rw [toIR_mem_iff]
    refine mulCascade_covers (f := bigLsh) SX SY hx hy _ ?_
      (fun _ h => absurd y0 (by omega)) (fun _ _ => lsh_monoNP)
      (fun _ h => absurd y0 (by omega)) (fun _ _ => lsh_monoPP)
    intro h0
    show (mulInit X true _ _).covers (bigLsh x y)
    unfold mulInit bigLsh
    by_cases hzy : Y.split3.2.2.2.1 = true
    · -- 0 ∈ Y: ret starts as X itself, and x * 2^y ∈ X for x = 0 or y = 0
      simp only [hzy, Bool.and_self, if_true]
      rw [covers_fromIR]
      rcases h0 with h0 | h0
      · subst h0; simpa using hx
      · subst h0; simpa using hx
    · -- 0 ∉ Y, so y ≠ 0, so x = 0 and 0 ∈ X
      have y_ne : y ≠ 0 := fun h => hzy (SY.zero_iff.2 (h ▸ hy))
      have x0 : x = 0 := by rcases h0 with h0 | h0; exact h0; exact absurd h0 y_ne
      have hzx : X.split3.2.2.2.1 = true := SX.zero_iff.2 (x0 ▸ hx)
      simp only [hzy, Bool.false_and, Bool.false_eq_true, if_false, hzx, Bool.or_true, if_true]
      subst x0; simpa using covers_zero

/-- non-vacuity of `lsh_sound` -/
example : tryLsh ⟨some (-3), some 5⟩ ⟨some 0, some 2⟩ = some ⟨some (-12), some 20⟩ := by decide

/-- Soundness of `TryQuo`: on success the result contains the truncated quotient. -/
theorem quo_sound (X Y Z : IR) (x y : Int) (hx : X.mem x) (hy : Y.mem y)
    (hz : tryQuo X Y = some Z) : y ≠ 0 ∧ Z.mem (Int.tdiv x y) := by
  have ex := Interval.not_empty_of_mem hx
  have ey := Interval.not_empty_of_mem hy
  rw [tryQuo_eq] at hz
  simp only [ex, ey, Bool.or_self, Bool.false_eq_true, if_false] at hz
  split at hz
  · cases hz
  rename_i hcz
  have y_ne : y ≠ 0 := by
    intro h; subst h
    exact hcz ((containsZero_iff Y).2 hy)
  refine ⟨y_ne, ?_⟩
  split at hz
  · rename_i hjz
    simp only [Option.some.injEq] at hz; subst hz
    rw [mem_justZero hjz hx, Int.zero_tdiv]; simp [mem_mk]
  · simp only [Option.some.injEq] at hz; subst hz
    have SX := split3_spec' X ex
    have SY := split3_spec' Y ey
    rw [toIR_mem_iff]
    refine quoCascade_covers SX SY hx hy y_ne _ ?_
    intro h0
    have hzx : X.split3.2.2.2.1 = true := SX.zero_iff.2 (h0 ▸ hx)
    simp only [hzx, if_true]
    exact covers_zero

example : tryQuo ⟨some (-7), some 9⟩ ⟨some 2, none⟩ = some ⟨some (-3), some 4⟩ := by decide

/-- Soundness of `TryRsh`: on success the result contains `x >> y = ⌊x / 2^y⌋`. -/
theorem rsh_sound (X Y Z : IR) (x y : Int) (hx : X.mem x) (hy : Y.mem y)
    (hz : tryRsh X Y = some Z) : 0 ≤ y ∧ Z.mem (x / 2 ^ y.toNat) := by
  have ex := Interval.not_empty_of_mem hx
  have ey := Interval.not_empty_of_mem hy
  rw [tryRsh_eq] at hz
  simp only [ex, ey, Bool.or_self, Bool.false_eq_true, if_false] at hz
  split at hz
  · cases hz
  rename_i hcn
  simp only [Bool.not_eq_true] at hcn
  have y0 := shift_nonneg_of_not_containsNegative hcn hy
  refine ⟨y0, ?_⟩
  split at hz
  · rename_i hjz
    simp only [Option.some.injEq] at hz; subst hz
    rw [mem_justZero hjz hx]; simp [mem_mk]
  · simp only [Option.some.injEq] at hz; subst hz
    have SX := split3_spec' X ex
    -- Y has a finite, non-negative lower bound
    obtain ⟨yl, hyl⟩ : ∃ yl, Y.lo = some yl := by
      cases h : Y.lo with
      | some yl => exact ⟨yl, rfl⟩
      | none => simp [IR.containsNegative, h] at hcn
    rw [toIR_mem_iff]
    show BIP.covers _ (bigRsh x y)
    rcases Int.lt_trichotomy x 0 with hx0 | hx0 | hx0
    · obtain ⟨e1, m1⟩ := SX.neg_of_mem x hx hx0
      obtain ⟨_, h, hh, hneg, _⟩ := SX.neg_shape e1
      refine covers_ite ?_ (rshP_mono _ _ _)
      simp only [e1, if_true]
      exact rshN_hit hh hyl hneg m1 hy _
    · have hzx : X.split3.2.2.2.1 = true := SX.zero_iff.2 (hx0 ▸ hx)
      have : bigRsh x y = 0 := by subst hx0; simp [bigRsh]
      rw [this]
      refine covers_ite (covers_ite ?_ (rshN_mono _ _ _)) (rshP_mono _ _ _)
      simp only [hzx, if_true]
      exact covers_zero
    · obtain ⟨e1, m1⟩ := SX.pos_of_mem x hx hx0
      obtain ⟨_, l, hl, lpos, _⟩ := SX.pos_shape e1
      simp only [e1, if_true]
      exact rshP_hit hl hyl lpos m1 hy _

example : tryRsh ⟨some (-7), some 9⟩ ⟨some 1, some 2⟩ = some ⟨some (-4), some 4⟩ := by decide

/-! ## 2. failure exactly when some pair is undefined -/

/-- `TryQuo` fails iff both operands are non-empty and the divisor range contains 0. -/
theorem quo_fails_iff (X Y : IR) :
    tryQuo X Y = none ↔ X.empty = false ∧ Y.empty = false ∧ Y.mem 0 := by
  rw [tryQuo_eq]
  cases ex : X.empty <;> cases ey : Y.empty <;> simp [← containsZero_iff]
  cases Y.containsZero <;> simp
  split <;> simp

/-- equivalently: iff some pair (x, y) with y = 0 exists -/
theorem quo_fails_iff_pair (X Y : IR) :
    tryQuo X Y = none ↔ ∃ x y, X.mem x ∧ Y.mem y ∧ y = 0 := by
  rw [quo_fails_iff]
  constructor
  · rintro ⟨ex, _, h0⟩
    obtain ⟨x, hx⟩ := exists_mem_of_not_empty ex
    exact ⟨x, 0, hx, h0, rfl⟩
  · rintro ⟨x, y, hx, hy, rfl⟩
    exact ⟨Interval.not_empty_of_mem hx, Interval.not_empty_of_mem hy, hy⟩

/-- `TryLsh` fails iff `X` is non-empty and `Y` has a negative member.  (An empty `Y` has no
member, so — although the Go code tests `y.ContainsNegative()` before `y.Empty()` here and
after it in `TryRsh` — both fail in exactly the same situations.) -/
theorem lsh_fails_iff (X Y : IR) :
    tryLsh X Y = none ↔ X.empty = false ∧ ∃ y, Y.mem y ∧ y < 0 := by
  rw [← containsNegative_iff]
  unfold tryLsh
  cases X.empty <;> cases Y.containsNegative <;> simp

theorem rsh_fails_iff (X Y : IR) :
    tryRsh X Y = none ↔ X.empty = false ∧ Y.empty = false ∧ ∃ y, Y.mem y ∧ y < 0 := by
  rw [← containsNegative_iff, tryRsh_eq]
  cases ex : X.empty <;> cases ey : Y.empty <;> simp
  cases Y.containsNegative <;> simp
  split <;> simp

/-- the two shift operators fail on exactly the same operand pairs -/
theorem lsh_fails_iff_rsh_fails (X Y : IR) : tryLsh X Y = none ↔ tryRsh X Y = none := by
  rw [lsh_fails_iff, rsh_fails_iff]
  constructor
  · rintro ⟨h, y, hy, h0⟩; exact ⟨h, Interval.not_empty_of_mem hy, y, hy, h0⟩
  · rintro ⟨h, _, h'⟩; exact ⟨h, h'⟩

/-- pair form: `TryLsh` fails iff some pair `(x, y)` has a negative shift count -/
theorem lsh_fails_iff_pair (X Y : IR) :
    tryLsh X Y = none ↔ ∃ x y, X.mem x ∧ Y.mem y ∧ y < 0 := by
  rw [lsh_fails_iff]
  constructor
  · rintro ⟨ex, y, hy, h0⟩
    obtain ⟨x, hx⟩ := exists_mem_of_not_empty ex
    exact ⟨x, y, hx, hy, h0⟩
  · rintro ⟨x, y, hx, hy, h0⟩
    exact ⟨Interval.not_empty_of_mem hx, y, hy, h0⟩

theorem rsh_fails_iff_pair (X Y : IR) :
    tryRsh X Y = none ↔ ∃ x y, X.mem x ∧ Y.mem y ∧ y < 0 := by
  rw [← lsh_fails_iff_rsh_fails, lsh_fails_iff_pair]

/-! ## 3. empty in, empty out -/

theorem add_empty (X Y : IR) (h : X.empty = true ∨ Y.empty = true) : (add X Y).empty = true := by
  unfold add; rcases h with h | h <;> simp [h, mkEmpty_empty]

theorem sub_empty (X Y : IR) (h : X.empty = true ∨ Y.empty = true) : (sub X Y).empty = true := by
  unfold sub; rcases h with h | h <;> simp [h, mkEmpty_empty]

theorem mul_empty (X Y : IR) (h : X.empty = true ∨ Y.empty = true) : (mul X Y).empty = true := by
  unfold mul mulLsh; rcases h with h | h <;> simp [h, mkEmpty_empty]

theorem intersect_empty (X Y : IR) (h : X.empty = true ∨ Y.empty = true) :
    (intersect X Y).empty = true := by
  unfold intersect; rcases h with h | h <;> simp [h, mkEmpty_empty]

theorem quo_empty (X Y : IR) (h : X.empty = true ∨ Y.empty = true) :
    ∃ Z, tryQuo X Y = some Z ∧ Z.empty = true := by
  refine ⟨mkEmpty, ?_, mkEmpty_empty⟩
  unfold tryQuo; rcases h with h | h <;> simp [h]

theorem rsh_empty (X Y : IR) (h : X.empty = true ∨ Y.empty = true) :
    ∃ Z, tryRsh X Y = some Z ∧ Z.empty = true := by
  refine ⟨mkEmpty, ?_, mkEmpty_empty⟩
  unfold tryRsh; rcases h with h | h <;> simp [h]

theorem lsh_empty (X Y : IR) (h : X.empty = true ∨ Y.empty = true) :
    ∃ Z, tryLsh X Y = some Z ∧ Z.empty = true := by
  refine ⟨mkEmpty, ?_, mkEmpty_empty⟩
  have hcn : X.empty = false → Y.containsNegative = false := by
    intro ex
    have ey : Y.empty = true := by rcases h with h | h; simp_all; exact h
    cases hc : Y.containsNegative with
    | false => rfl
    | true =>
      obtain ⟨v, hv, _⟩ := (containsNegative_iff Y).1 hc
      exact absurd hv (not_mem_of_empty ey v)
  unfold tryLsh mulLsh
  cases ex : X.empty
  · have := hcn ex
    have ey : Y.empty = true := by rcases h with h | h; simp_all; exact h
    simp [this, ey]
  · simp

theorem and_empty (X Y : IR) (h : X.empty = true ∨ Y.empty = true) :
    Interval.and X Y = some mkEmpty := by
  unfold Interval.and; rcases h with h | h <;> simp [h]

theorem or_empty (X Y : IR) (h : X.empty = true ∨ Y.empty = true) :
    Interval.or X Y = some mkEmpty := by
  unfold Interval.or; rcases h with h | h <;> simp [h]

/-- `Unite` with an empty operand returns the other operand (a copy, in Go) — so the result is
empty iff both are. -/
theorem unite_empty_left (X Y : IR) (h : X.empty = true) : unite X Y = Y := by
  unfold unite; simp [h]

theorem unite_empty_right (X Y : IR) (hx : X.empty = false) (h : Y.empty = true) :
    unite X Y = X := by
  unfold unite; simp [h, hx]

theorem unite_empty (X Y : IR) (hx : X.empty = true) (hy : Y.empty = true) :
    (unite X Y).empty = true := by
  rw [unite_empty_left X Y hx]; exact hy

/-- every operator: empty operand ⇒ the result has no member -/
theorem empty_in_empty_out (X Y : IR) (h : X.empty = true ∨ Y.empty = true) :
    (add X Y).empty = true ∧ (sub X Y).empty = true ∧ (mul X Y).empty = true ∧
    (intersect X Y).empty = true ∧
    (∃ Z, tryQuo X Y = some Z ∧ Z.empty = true) ∧
    (∃ Z, tryLsh X Y = some Z ∧ Z.empty = true) ∧
    (∃ Z, tryRsh X Y = some Z ∧ Z.empty = true) ∧
    Interval.and X Y = some mkEmpty ∧ Interval.or X Y = some mkEmpty ∧
    (X.empty = true → Y.empty = true → (unite X Y).empty = true) :=
  ⟨add_empty X Y h, sub_empty X Y h, mul_empty X Y h, intersect_empty X Y h, quo_empty X Y h,
   lsh_empty X Y h, rsh_empty X Y h, and_empty X Y h, or_empty X Y h, unite_empty X Y⟩

example : (⟨some 3, some 1⟩ : IR).empty = true := by decide

/-! ## 4. tightness: with four finite bounds and non-empty operands, both result bounds are
attained, so (with soundness) the result is exactly the hull of `{x op y}`. -/

/-- what "tightest" means: a `TightHull` result is contained in every interval that is sound for
the same operands (so, with soundness, it is the least sound interval). -/
theorem tightHull_minimal {f : Int → Int → Int} {X Y Z Z' : IR} (h : TightHull f X Y Z)
    (hs : ∀ x y, X.mem x → Y.mem y → Z'.mem (f x y)) : ∀ v, Z.mem v → Z'.mem v := by
  obtain ⟨l, hh, rfl, ⟨a, b, ha, hb, rfl⟩, ⟨c, d, hc, hd, rfl⟩⟩ := h
  intro v hv
  have h1 := hs a b ha hb
  have h2 := hs c d hc hd
  obtain ⟨zl, zh⟩ := Z'
  obtain ⟨h1a, _⟩ := h1
  obtain ⟨_, h2b⟩ := h2
  obtain ⟨hv1, hv2⟩ := hv
  simp only [loLe_some, leHi_some] at hv1 hv2
  constructor
  · cases zl with
    | none => trivial
    | some z => simp only [loLe_some] at h1a ⊢; omega
  · cases zh with
    | none => trivial
    | some z => simp only [leHi_some] at h2b ⊢; omega

section tight
variable (X Y : IR) {xl xh yl yh : Int}

theorem add_tight (hxl : X.lo = some xl) (hxh : X.hi = some xh) (hyl : Y.lo = some yl)
    (hyh : Y.hi = some yh) (ex : X.empty = false) (ey : Y.empty = false) :
    TightHull (· + ·) X Y (add X Y) := by
  refine ⟨xl + yl, xh + yh, ?_, ⟨xl, yl, lo_mem ex hxl, lo_mem ey hyl, rfl⟩,
    ⟨xh, yh, hi_mem ex hxh, hi_mem ey hyh, rfl⟩⟩
  unfold add; simp [ex, ey, hxl, hxh, hyl, hyh]

theorem sub_tight (hxl : X.lo = some xl) (hxh : X.hi = some xh) (hyl : Y.lo = some yl)
    (hyh : Y.hi = some yh) (ex : X.empty = false) (ey : Y.empty = false) :
    TightHull (· - ·) X Y (sub X Y) := by
  refine ⟨xl - yh, xh - yl, ?_, ⟨xl, yh, lo_mem ex hxl, hi_mem ey hyh, rfl⟩,
    ⟨xh, yl, hi_mem ex hxh, lo_mem ey hyl, rfl⟩⟩
  unfold sub; simp [ex, ey, hxl, hxh, hyl, hyh]

/-- `Unite` of two non-empty finite intervals: both bounds are bounds of an operand, hence
members of `X ∪ Y` (the hull of the union). -/
theorem unite_tight (hxl : X.lo = some xl) (hxh : X.hi = some xh) (hyl : Y.lo = some yl)
    (hyh : Y.hi = some yh) (ex : X.empty = false) (ey : Y.empty = false) :
    ∃ l h, unite X Y = ⟨some l, some h⟩ ∧ (X.mem l ∨ Y.mem l) ∧ (X.mem h ∨ Y.mem h) := by
  have mxl := lo_mem ex hxl
  have mxh := hi_mem ex hxh
  have myl := lo_mem ey hyl
  have myh := hi_mem ey hyh
  refine ⟨if xl < yl then xl else yl, if xh > yh then xh else yh, ?_, ?_, ?_⟩
  · unfold unite; simp [ex, ey, hxl, hxh, hyl, hyh]
  · split; exact Or.inl mxl; exact Or.inr myl
  · split; exact Or.inl mxh; exact Or.inr myh

theorem mul_tight (hxl : X.lo = some xl) (hxh : X.hi = some xh) (hyl : Y.lo = some yl)
    (hyh : Y.hi = some yh) (ex : X.empty = false) (ey : Y.empty = false) :
    TightHull (· * ·) X Y (mul X Y) := by
  have mxl := lo_mem ex hxl
  have myl := lo_mem ey hyl
  unfold mul
  rw [mulLsh_eq]
  simp only [ex, ey, Bool.or_self, Bool.false_eq_true, if_false, Bool.not_false, Bool.true_and]
  split
  · rename_i hz
    simp only [Bool.or_eq_true] at hz
    have : Img (· * ·) X Y 0 := by
      rcases hz with hz | hz
      · exact ⟨xl, yl, mxl, myl, by simp [mem_justZero hz mxl]⟩
      · exact ⟨xl, yl, mxl, myl, by simp [mem_justZero hz myl]⟩
    exact ⟨0, 0, rfl, this, this⟩
  · have SX := split3_spec' X ex
    have SY := split3_spec' Y ey
    have hc := mulCascade_covers (f := (· * ·)) SX SY mxl myl
      (mulInit X false X.split3.2.2.2.1 Y.split3.2.2.2.1) (by
        intro h0
        have hz : X.split3.2.2.2.1 = true ∨ Y.split3.2.2.2.1 = true := by
          rcases h0 with h0 | h0
          · exact Or.inl (SX.zero_iff.2 (h0 ▸ mxl))
          · exact Or.inr (SY.zero_iff.2 (h0 ▸ myl))
        have hv : xl * yl = 0 := by rcases h0 with h0 | h0 <;> simp [h0]
        show BIP.covers _ (xl * yl)
        rw [hv]
        unfold mulInit
        rcases hz with hz | hz <;> simp [hz, covers_zero])
      (fun _ _ => mul_monoNN) (fun _ _ => mul_monoNP) (fun _ _ => mul_monoPN)
      (fun _ _ => mul_monoPP)
    refine toIR_of_att_covers (S := Img (· * ·) X Y) ?_ hc
    refine mulCascade_att SX SY ex ey hxl hxh hyl hyh (fun a b ha hb => ⟨a, b, ha, hb, rfl⟩) _ ?_
    unfold mulInit
    simp only [Bool.and_false, Bool.false_eq_true, if_false, Bool.not_false, Bool.and_true]
    split
    · rename_i hz
      simp only [Bool.or_eq_true] at hz
      have : Img (· * ·) X Y 0 := by
        rcases hz with hz | hz
        · exact ⟨xl, 0, mxl, SY.zero_iff.1 hz, by simp⟩
        · exact ⟨0, yl, SX.zero_iff.1 hz, myl, by simp⟩
      exact att_fin this this
    · exact att_new _

/-- non-vacuity: a sign-straddling instance -/
example : mul ⟨some (-3), some 5⟩ ⟨some (-7), some 2⟩ = ⟨some (-35), some 21⟩ := by decide

theorem quo_tight (hxl : X.lo = some xl) (hxh : X.hi = some xh) (hyl : Y.lo = some yl)
    (hyh : Y.hi = some yh) (ex : X.empty = false) (ey : Y.empty = false)
    (h0 : ¬ Y.mem 0) : ∃ Z, tryQuo X Y = some Z ∧ TightHull Int.tdiv X Y Z := by
  have mxl := lo_mem ex hxl
  have myl := lo_mem ey hyl
  have yl_ne : yl ≠ 0 := fun h => h0 (h ▸ myl)
  rw [tryQuo_eq]
  have hcz : Y.containsZero = false := by
    cases h : Y.containsZero with
    | false => rfl
    | true => exact absurd ((containsZero_iff Y).1 h) h0
  simp only [ex, ey, hcz, Bool.or_self, Bool.false_eq_true, if_false]
  split
  · rename_i hz
    have : Img Int.tdiv X Y 0 := ⟨xl, yl, mxl, myl, by simp [mem_justZero hz mxl]⟩
    exact ⟨_, rfl, 0, 0, rfl, this, this⟩
  · refine ⟨_, rfl, ?_⟩
    have SX := split3_spec' X ex
    have SY := split3_spec' Y ey
    have hc := quoCascade_covers SX SY mxl myl yl_ne
      (if X.split3.2.2.2.1 then ⟨.fin 0, .fin 0⟩ else BIP.new) (by
        intro h0
        have hzx : X.split3.2.2.2.1 = true := SX.zero_iff.2 (h0 ▸ mxl)
        simp only [hzx, if_true]
        exact covers_zero)
    refine toIR_of_att_covers (S := Img Int.tdiv X Y) ?_ hc
    refine quoCascade_att SX SY ex ey hxl hxh hyl hyh (fun a b ha hb => ⟨a, b, ha, hb, rfl⟩) _ ?_
    split
    · rename_i hz
      have : Img Int.tdiv X Y 0 := ⟨0, yl, SX.zero_iff.1 hz, myl, by simp⟩
      exact att_fin this this
    · exact att_new _

example : tryQuo ⟨some (-7), some 9⟩ ⟨some (-4), some (-2)⟩ = some ⟨some (-4), some 3⟩ := by
  decide

theorem lsh_tight (hxl : X.lo = some xl) (hxh : X.hi = some xh) (hyl : Y.lo = some yl)
    (hyh : Y.hi = some yh) (ex : X.empty = false) (ey : Y.empty = false)
    (h0 : 0 ≤ yl) : ∃ Z, tryLsh X Y = some Z ∧ TightHull bigLsh X Y Z := by
  have mxl := lo_mem ex hxl
  have myl := lo_mem ey hyl
  have hcn : Y.containsNegative = false := by
    cases h : Y.containsNegative with
    | false => rfl
    | true =>
      obtain ⟨v, ⟨hv, _⟩, hneg⟩ := (containsNegative_iff Y).1 h
      rw [hyl] at hv; simp at hv; omega
  have ynn : ∀ y', Y.mem y' → 0 ≤ y' := fun y' h => shift_nonneg_of_not_containsNegative hcn h
  unfold tryLsh
  simp only [hcn, Bool.and_false, Bool.false_eq_true, if_false]
  refine ⟨_, rfl, ?_⟩
  rw [mulLsh_eq]
  simp only [ex, ey, Bool.or_self, Bool.false_eq_true, if_false, Bool.not_true, Bool.false_and,
    Bool.or_false, if_true]
  split
  · rename_i hz
    have : Img bigLsh X Y 0 := ⟨xl, yl, mxl, myl, by simp [mem_justZero hz mxl, bigLsh]⟩
    exact ⟨0, 0, rfl, this, this⟩
  · have SX := split3_spec' X ex
    have SY := split3_spec' Y ey
    have hc := mulCascade_covers (f := bigLsh) SX SY mxl myl
      (mulInit X true X.split3.2.2.2.1 Y.split3.2.2.2.1) (by
        intro h0'
        show BIP.covers _ (bigLsh xl yl)
        unfold mulInit bigLsh
        by_cases hzy : Y.split3.2.2.2.1 = true
        · simp only [hzy, Bool.and_self, if_true]
          rw [covers_fromIR]
          rcases h0' with h0' | h0'
          · rw [h0']; simpa [h0'] using mxl
          · rw [h0']; simpa using mxl
        · have y_ne : yl ≠ 0 := fun h => hzy (SY.zero_iff.2 (h ▸ myl))
          have x0 : xl = 0 := by rcases h0' with h | h; exact h; exact absurd h y_ne
          have hzx : X.split3.2.2.2.1 = true := SX.zero_iff.2 (x0 ▸ mxl)
          simp only [hzy, Bool.false_and, Bool.false_eq_true, if_false, hzx, Bool.or_true, if_true]
          rw [x0]; simpa using covers_zero)
      (fun _ h => absurd h0 (by omega)) (fun _ _ => lsh_monoNP)
      (fun _ h => absurd h0 (by omega)) (fun _ _ => lsh_monoPP)
    refine toIR_of_att_covers (S := Img bigLsh X Y) ?_ hc
    refine mulCascade_att SX SY ex ey hxl hxh hyl hyh (fun a b ha hb => ⟨a, b, ha, hb, rfl⟩) _ ?_
    unfold mulInit
    simp only [Bool.and_true, Bool.not_true, Bool.and_false, Bool.false_or]
    split
    · -- 0 ∈ Y: ret starts as X; X's bounds are x << 0
      rename_i hz
      have m0 := SY.zero_iff.1 hz
      unfold BIP.fromIR
      simp only [hxl, hxh]
      exact att_fin ⟨xl, 0, mxl, m0, by simp [bigLsh]⟩ ⟨xh, 0, hi_mem ex hxh, m0, by simp [bigLsh]⟩
    · split
      · rename_i hz
        have : Img bigLsh X Y 0 := ⟨0, yl, SX.zero_iff.1 hz, myl, by simp [bigLsh]⟩
        exact att_fin this this
      · exact att_new _

example : tryLsh ⟨some (-3), some 5⟩ ⟨some 1, some 3⟩ = some ⟨some (-24), some 40⟩ := by decide

theorem rsh_tight (hxl : X.lo = some xl) (hxh : X.hi = some xh) (hyl : Y.lo = some yl)
    (hyh : Y.hi = some yh) (ex : X.empty = false) (ey : Y.empty = false)
    (h0 : 0 ≤ yl) : ∃ Z, tryRsh X Y = some Z ∧ TightHull bigRsh X Y Z := by
  have mxl := lo_mem ex hxl
  have mxh := hi_mem ex hxh
  have myl := lo_mem ey hyl
  have myh := hi_mem ey hyh
  have hcn : Y.containsNegative = false := by
    cases h : Y.containsNegative with
    | false => rfl
    | true =>
      obtain ⟨v, ⟨hv, _⟩, hneg⟩ := (containsNegative_iff Y).1 h
      rw [hyl] at hv; simp at hv; omega
  obtain ⟨Z, hZ⟩ : ∃ Z, tryRsh X Y = some Z := by
    cases h : tryRsh X Y with
    | some Z => exact ⟨Z, rfl⟩
    | none =>
      obtain ⟨_, _, v, hv, hneg⟩ := (rsh_fails_iff X Y).1 h
      have := shift_nonneg_of_not_containsNegative hcn hv
      omega
  refine ⟨Z, hZ, ?_⟩
  -- soundness gives a covered value; attainment from the block lemmas
  have hsound := (rsh_sound X Y Z xl yl mxl myl hZ).2
  rw [tryRsh_eq] at hZ
  simp only [ex, ey, hcn, Bool.or_self, Bool.false_eq_true, if_false] at hZ
  split at hZ
  · rename_i hz
    simp only [Option.some.injEq] at hZ; subst hZ
    have : Img bigRsh X Y 0 := ⟨xl, yl, mxl, myl, by simp [mem_justZero hz mxl, bigRsh]⟩
    exact ⟨0, 0, rfl, this, this⟩
  · simp only [Option.some.injEq] at hZ; subst hZ
    have SX := split3_spec' X ex
    rw [toIR_mem_iff] at hsound
    refine toIR_of_att_covers (S := Img bigRsh X Y) ?_ hsound
    have hS : ∀ a b, X.mem a → Y.mem b → Img bigRsh X Y (bigRsh a b) :=
      fun a b ha hb => ⟨a, b, ha, hb, rfl⟩
    refine att_ite (att_ite ?_ ?_) ?_
    · split
      · rename_i hz
        have : Img bigRsh X Y 0 := ⟨0, yl, SX.zero_iff.1 hz, myl, by simp [bigRsh]⟩
        exact att_fin this this
      · exact att_new _
    · intro e1
      obtain ⟨p1, h, hh, _, mh⟩ := SX.neg_shape e1
      refine rshN_att (p1.trans hxl) hh hyl hyh (hS _ _ mxl myl) (hS _ _ mh myh) _ ?_
      split
      · rename_i hz
        have : Img bigRsh X Y 0 := ⟨0, yl, SX.zero_iff.1 hz, myl, by simp [bigRsh]⟩
        exact att_fin this this
      · exact att_new _
    · intro e1
      obtain ⟨p1, l, hl, _, ml⟩ := SX.pos_shape e1
      refine rshP_att hl (p1.trans hxh) hyl hyh (hS _ _ ml myh) (hS _ _ mxh myl) _ ?_
      refine att_ite ?_ ?_
      · split
        · rename_i hz
          have : Img bigRsh X Y 0 := ⟨0, yl, SX.zero_iff.1 hz, myl, by simp [bigRsh]⟩
          exact att_fin this this
        · exact att_new _
      · intro e1
        obtain ⟨p1, h, hh, _, mh⟩ := SX.neg_shape e1
        refine rshN_att (p1.trans hxl) hh hyl hyh (hS _ _ mxl myl) (hS _ _ mh myh) _ ?_
        split
        · rename_i hz
          have : Img bigRsh X Y 0 := ⟨0, yl, SX.zero_iff.1 hz, myl, by simp [bigRsh]⟩
          exact att_fin this this
        · exact att_new _

example : tryRsh ⟨some (-9), some 20⟩ ⟨some 1, some 3⟩ = some ⟨some (-5), some 10⟩ := by decide

end tight

end WuffsVerif.Props.C06
