/-
C15 — obligations that tie the hand-written model to lean/WuffsVerif/Gen/C15_Rac.lean, which
the harness REGENERATES from lib/rac/*.go on every run (harness/cmd/c15/gen.go):

* the rNode accessors of chunk_reader.go, translated from their Go AST, are the model's
  accessors (`gen_*`): per-function correspondence by proof, not by sampling;
* the package constants of rac.go are the ones the model uses (magic bytes, Codec values,
  MaxSize, the Zeroes codecs the Reader serves itself, the toy codec's rejected Codec);
* the integer literals of the bigger functions the model mirrors by hand (`valid`, `codec`,
  `checkParameters`, `initialize`, root discovery, `loadAndValidate`, `u48LE`, `Codec.Valid`)
  are the ones the model was written against, and the model really uses them (`model_*`).
A change of any of these in the Go source changes the generated file and breaks a theorem here.
-/
import WuffsVerif.Gen.C15_Rac
import WuffsVerif.Model.Rac.ByteReader
import WuffsVerif.Proof.C15Node

namespace WuffsVerif.Props.C15Gen
open WuffsVerif.Rac.ChunkReader
open WuffsVerif.Gen

/-! ## accessors -/

theorem gen_nodeSize (a : Nat) : C15.nodeSize a = nodeSize a := by
  unfold C15.nodeSize nodeSize; omega

theorem gen_arity (n : Node) : C15.arity n = n.arity := rfl

theorem gen_codecHasMixBit (n : Node) : C15.codecHasMixBit n = n.codecHasMixBit := by
  unfold C15.codecHasMixBit Node.codecHasMixBit Node.codecByte Node.arity
  rfl

theorem gen_cPtrMax (n : Node) : C15.cPtrMax n = n.cPtrMax := rfl
theorem gen_dPtrMax (n : Node) : C15.dPtrMax n = n.dPtrMax := rfl
theorem gen_version (n : Node) : C15.version n = n.version := rfl

theorem gen_cLen (n : Node) (i : Nat) : C15.cLen n i = n.cLen i := by
  unfold C15.cLen Node.cLen Node.arity
  simp only
  congr 1; omega

theorem gen_cOff (n : Node) (i cBias : Nat) : C15.cOff n i cBias = cBias + n.cPtr i := by
  unfold C15.cOff Node.cPtr Node.arity
  simp only
  congr 2; omega

theorem gen_sTag (n : Node) (i : Nat) : C15.sTag n i = n.sTag i := by
  unfold C15.sTag Node.sTag Node.arity
  simp only
  congr 1; omega

theorem gen_tTag (n : Node) (i : Nat) : C15.tTag n i = n.tTag i := rfl
theorem gen_isLeaf (n : Node) (i : Nat) : C15.isLeaf n i = n.isLeaf i := rfl

theorem gen_dOff (n : Node) (i dBias : Nat) : C15.dOff n i dBias = dBias + n.dPtr i := by
  unfold C15.dOff Node.dPtr
  split <;> simp

theorem gen_dSize (n : Node) (i : Nat) : C15.dSize n i = n.dSize i := by
  unfold C15.dSize Node.dSize Node.dPtr
  by_cases h : i = 0
  · subst h; simp
  · have : i > 0 := by omega
    simp [h, this]

theorem gen_cOffRange (n : Node) (i cBias : Nat) : C15.cOffRange n i cBias = n.cOffRange i cBias := by
  unfold C15.cOffRange Node.cOffRange
  simp only [gen_cPtrMax, gen_arity, gen_cOff, gen_cLen]
  by_cases h : i ≥ n.arity
  · simp [h]
  · simp only [h, ↓reduceIte]
    by_cases hc : n.cLen i = 0
    · simp [hc]
    · simp [hc]

/-- `dOffRange` gives the two DRange bounds of `chunk` -/
theorem gen_dOffRange (n : Node) (i cBias dBias : Nat) :
    C15.dOffRange n i dBias = ((n.chunk i cBias dBias).dLo, (n.chunk i cBias dBias).dHi) := by
  unfold C15.dOffRange
  rw [gen_dOff, gen_dOff]
  rfl

/-! ## constants -/

/-- the model's `valid` demands exactly the magic bytes of rac.go -/
theorem model_magic (n : Node) (h : n.valid = true) : [n.rd 0, n.rd 1, n.rd 2] = C15.s_magic := by
  unfold Node.valid at h
  simp only [Bool.and_eq_true, beq_iff_eq] at h
  obtain ⟨⟨⟨⟨⟨⟨⟨⟨⟨⟨⟨⟨h0, h1⟩, h2⟩, _⟩, _⟩, _⟩, _⟩, _⟩, _⟩, _⟩, _⟩, _⟩, _⟩ := h
  rw [h0, h1, h2]; rfl

theorem model_codecInvalid : codecInvalid = C15.c_CodecInvalid := by decide

/-- sizes and offsets of the model are below `MaxSize + 1` (`no_overflow` uses `2^48`) -/
theorem model_maxSize (n : Node) (i : Nat) : n.u48 i ≤ C15.c_MaxSize := by
  have := n.u48_lt i
  unfold C15.c_MaxSize; omega

/-- the Codecs that `Reader.nextChunk` serves itself are rac.go's two Zeroes codecs -/
theorem model_zeroes (c : Nat) :
    WuffsVerif.Rac.ByteReader.isZeroesCodec c = true ↔
      (c = C15.c_CodecZeroes ∨ c = C15.c_codecLongZeroes) := by
  unfold WuffsVerif.Rac.ByteReader.isZeroesCodec C15.c_CodecZeroes C15.c_codecLongZeroes
  simp

/-- the toy codec of the differential tie rejects exactly `CodecZstandard` -/
theorem model_toy_rejects (c : Nat) :
    WuffsVerif.Rac.ByteReader.toyCodec.accepts c = false ↔ c = C15.c_CodecZstandard := by
  unfold WuffsVerif.Rac.ByteReader.toyCodec C15.c_CodecZstandard
  simp

/-- a short codec byte `x` becomes `x <<< 56`: `CodecZlib` is byte 1 etc. -/
theorem model_short_codecs : C15.c_CodecZlib = 1 * 2 ^ 56 ∧ C15.c_CodecLZ4 = 2 * 2 ^ 56 ∧
    C15.c_CodecZstandard = 3 * 2 ^ 56 ∧ C15.c_codecMixBit = 0x40 * 2 ^ 56 ∧
    codecValid C15.c_CodecZlib = true ∧ codecValid C15.c_codecLongZeroes = true ∧
    codecValid C15.c_CodecInvalid = false := by decide

/-! ## literals of the functions mirrored by hand -/

/-- the source the model was written against has exactly these integer literals -/
theorem lits_pinned :
    C15.lits_ChunkReader_checkParameters = [32] ∧
    C15.lits_ChunkReader_initialize = [1] ∧
    C15.lits_rNode_valid = [0, 0, 1, 1, 2, 2, 3, 0, 3, 16, 16, 3, 1, 0, 8, 6, 0, 8, 7, 192, 253, 253,
      8, 6, 0, 0, 1, 8, 8, 1, 253, 8, 8, 8, 0, 8, 8, 7, 253, 16, 14, 0, 6, 16, 4, 0, 5, 8] ∧
    C15.lits_rNode_codec = [3, 8, 7, 128, 0, 63, 56, 63, 9223372036854775808, 72057594037927935, 0,
      4, 6, 253, 8, 8, 8] ∧
    C15.lits_rNode_findChunkContaining = [0, 1, 1, 0, 1] ∧
    C15.lits_ChunkReader_tryRootNode = [0, 0, 3] ∧
    C15.lits_ChunkReader_loadAndValidate = [0, 4, 4, 3, 0] ∧
    C15.lits_ChunkReader_findRootNode = [0, 4, 0, 0, 1, 1, 2, 2, 3, 1, 1, 0] ∧
    C15.lits_u48LE = [7, 0, 1, 8, 2, 16, 3, 24, 4, 32, 5, 40, 6, 48, 7, 56, 1, 48, 1] ∧
    C15.lits_Codec_Valid = [63, 0, 8, 0, 62, 0, 56, 128] := by decide

/-- `checkParameters`: the model rejects claimed sizes below the literal of the source -/
theorem model_min_csize (f : File) (claimed : Int)
    (h : claimed < (C15.lits_ChunkReader_checkParameters.getD 0 0 : Nat)) :
    (openReader f claimed).err = some .badCSize := by
  have h' : claimed < 32 := h
  unfold openReader
  simp only [h', ↓reduceIte]
  rfl

/-- `initialize`: a reader that opened has a root node of the version the source demands -/
theorem model_version (f : File) (claimed : Int) (h : (openReader f claimed).err = none) :
    (openReader f claimed).node.version = C15.lits_ChunkReader_initialize.getD 0 0 := by
  show _ = 1
  by_cases hc : claimed < 32
  · simp [openReader, hc, Reader.failed] at h
  cases hfr : findRootNode f claimed.toNat with
  | error e => simp [openReader, hc, hfr, Reader.failed] at h
  | ok p =>
    obtain ⟨off, n⟩ := p
    by_cases hver : (n.version != 1) = true
    · simp [openReader, hc, hfr, hver, Reader.failed] at h
    · simp only [openReader, hc, hfr, hver, ↓reduceIte, Bool.false_eq_true]
      simpa using hver

/-- `valid`: the reserved TTag range and the Codec Element tag of the source (literals 19..21 of
`valid`: `0xC0 <= tTag`, `tTag < 0xFD`, `tTag != 0xFD`) are what the model's `valid` enforces -/
theorem model_tags (n : Node) (h : n.valid = true) (i : Nat) (hi : i < n.arity) :
    ¬ (C15.lits_rNode_valid.getD 19 0 ≤ n.tTag i ∧ n.tTag i < C15.lits_rNode_valid.getD 20 0) ∧
    (n.tTag i = C15.lits_rNode_valid.getD 21 0 → n.dPtr i = n.dPtr (i + 1)) := by
  have F := n.facts_of_valid h
  exact ⟨F.tag_ok i hi, F.fd_empty i hi⟩

end WuffsVerif.Props.C15Gen
