/-
C09 (part: results do not depend on memory garbage) — `garbage_independent_F` for the larger
fragment of `Model/StoreLang2.lean`: arrays with static and data-dependent indices, whole-array
fills, `while` loops, early `ret`, uninterpreted operators and arbitrary arguments.

If the must-written analysis accepts a body (`writesBeforeReads`: every read of a second-part
element is dominated by a write of that element, or — for a data-dependent index — of the whole
array), then for EVERY meaning of the operators, every argument vector, every fuel and ANY two
initial contents of the second part, the two runs produce the same output and halt alike.
-/
import WuffsVerif.Model.StoreLang2

namespace WuffsVerif.Props.C09
open WuffsVerif.StoreLang2

/-- agreement of two live states on the must-written cells and on all locals -/
def Agree2 (w : Written) (a b : State) : Prop :=
  (∀ f i, w.has f i = true → a.cells f i = b.cells f i) ∧ a.locs = b.locs

/-- same halting status and output; while running, agreement on `w` -/
def Sim2 (w : Written) (a b : State) : Prop :=
  a.halted = b.halted ∧ a.output = b.output ∧ (a.halted = false → Agree2 w a b)

/-- componentwise inclusion of must-written facts -/
def Sub2 (w w' : Written) : Prop := (∀ x ∈ w.elems, x ∈ w'.elems) ∧ (∀ f ∈ w.full, f ∈ w'.full)

theorem sub2_refl (w : Written) : Sub2 w w := ⟨fun _ h => h, fun _ h => h⟩

theorem sub2_trans {a b c : Written} (h1 : Sub2 a b) (h2 : Sub2 b c) : Sub2 a c :=
  ⟨fun x hx => h2.1 x (h1.1 x hx), fun f hf => h2.2 f (h1.2 f hf)⟩

theorem has_of_sub2 {w w' : Written} (h : Sub2 w w') (f i : Nat) (hh : w.has f i = true) : w'.has f i = true := by
  unfold Written.has at *
  simp only [Bool.or_eq_true, List.contains_eq_mem, decide_eq_true_eq] at *
  rcases hh with hh | hh
  · exact Or.inl (h.1 _ hh)
  · exact Or.inr (h.2 _ hh)

theorem sim2_weaken {w w' : Written} {a b : State} (h : Sub2 w w') (hs : Sim2 w' a b) : Sim2 w a b :=
  ⟨hs.1, hs.2.1, fun hh => ⟨fun f i hfi => (hs.2.2 hh).1 f i (has_of_sub2 h f i hfi), (hs.2.2 hh).2⟩⟩

theorem meet_sub_left (a b : Written) : Sub2 (a.meet b) a :=
  ⟨fun _ hx => (List.mem_filter.mp hx).1, fun _ hf => (List.mem_filter.mp hf).1⟩

theorem meet_sub_right (a b : Written) : Sub2 (a.meet b) b :=
  ⟨fun _ hx => by simpa using (List.mem_filter.mp hx).2, fun _ hf => by simpa using (List.mem_filter.mp hf).2⟩

theorem sub_meet {w a b : Written} (ha : Sub2 w a) (hb : Sub2 w b) : Sub2 w (a.meet b) :=
  ⟨fun x hx => List.mem_filter.mpr ⟨ha.1 x hx, by simpa using hb.1 x hx⟩,
   fun f hf => List.mem_filter.mpr ⟨ha.2 f hf, by simpa using hb.2 f hf⟩⟩

/-- the analysis only ever adds facts -/
theorem analyse_mono (s : Stmt) : ∀ (w w' : Written), analyse w s = some w' → Sub2 w w' := by
  induction s with
  | skip => intro w w' h; simp only [analyse, Option.some.injEq] at h; subst h; exact sub2_refl w
  | seq s t ihs iht =>
    intro w w' h
    simp only [analyse] at h
    cases h1 : analyse w s with
    | none => rw [h1] at h; simp at h
    | some w1 =>
      rw [h1] at h
      simp only [Option.bind_some] at h
      exact sub2_trans (ihs w w1 h1) (iht w1 w' h)
  | setLoc r e =>
    intro w w' h; simp only [analyse] at h
    split at h
    · simp only [Option.some.injEq] at h; subst h; exact sub2_refl w
    · simp at h
  | setCell f i e =>
    intro w w' h; simp only [analyse] at h
    split at h
    · simp only [Option.some.injEq] at h; subst h
      exact ⟨fun x hx => List.mem_cons_of_mem _ hx, fun _ hf => hf⟩
    · simp at h
  | setCellAt f idx e =>
    intro w w' h; simp only [analyse] at h
    split at h
    · simp only [Option.some.injEq] at h; subst h; exact sub2_refl w
    · simp at h
  | fill f e =>
    intro w w' h; simp only [analyse] at h
    split at h
    · simp only [Option.some.injEq] at h; subst h
      exact ⟨fun _ hx => hx, fun g hg => List.mem_cons_of_mem _ hg⟩
    · simp at h
  | out e =>
    intro w w' h; simp only [analyse] at h
    split at h
    · simp only [Option.some.injEq] at h; subst h; exact sub2_refl w
    · simp at h
  | ite c s t ihs iht =>
    intro w w' h; simp only [analyse] at h
    split at h
    · cases h1 : analyse w s with
      | none => rw [h1] at h; simp at h
      | some ws =>
        cases h2 : analyse w t with
        | none => rw [h1, h2] at h; simp at h
        | some wt =>
          rw [h1, h2] at h
          simp only [Option.some.injEq] at h; subst h
          exact sub_meet (ihs w ws h1) (iht w wt h2)
    · simp at h
  | «while» c body _ =>
    intro w w' h; simp only [analyse] at h
    split at h
    · cases h1 : analyse w body with
      | none => rw [h1] at h; simp at h
      | some wb => rw [h1] at h; simp only [Option.map_some, Option.some.injEq] at h; subst h; exact sub2_refl w
    · simp at h
  | ret => intro w w' h; simp only [analyse, Option.some.injEq] at h; subst h; exact sub2_refl w

theorem eval_agree (env : Env) (w : Written) (a b : State) (h : Agree2 w a b) (e : Expr)
    (he : readsOK w e = true) : eval env a e = eval env b e := by
  induction e with
  | const n => rfl
  | loc r => simp [eval, h.2]
  | arg k => rfl
  | cell f i => exact h.1 f i (by simpa [readsOK] using he)
  | cellAt f idx ih =>
    simp only [readsOK, Bool.and_eq_true] at he
    simp only [eval, ih he.2]
    apply h.1
    unfold Written.has
    have hf : f ∈ w.full := by simpa using he.1
    simp [hf]
  | op name x y ihx ihy =>
    simp only [readsOK, Bool.and_eq_true] at he
    simp [eval, ihx he.1, ihy he.2]

theorem sim2_halted {w w' : Written} {a b : State} (hs : Sim2 w a b) (ha : a.halted = true) : Sim2 w' a b :=
  ⟨hs.1, hs.2.1, fun hh => by rw [ha] at hh; exact absurd hh (by decide)⟩

/-- soundness of the analysis for every fuel -/
theorem exec_sim2 (env : Env) : ∀ (fuel : Nat) (s : Stmt) (w w' : Written) (a b : State),
    analyse w s = some w' → Sim2 w a b → Sim2 w' (exec env fuel s a) (exec env fuel s b) := by
  intro fuel
  induction fuel with
  | zero =>
    intro s w w' a b _ hs
    unfold exec
    exact ⟨rfl, hs.2.1, fun hh => by simp at hh⟩
  | succ n ih =>
    intro s w w' a b han hs
    by_cases ha : a.halted = true
    · have hb : b.halted = true := by rw [← hs.1]; exact ha
      have ea : exec env (n + 1) s a = a := by unfold exec; simp [ha]
      have eb : exec env (n + 1) s b = b := by unfold exec; simp [hb]
      rw [ea, eb]
      exact sim2_halted hs ha
    · have ha' : a.halted = false := by simpa using ha
      have hb' : b.halted = false := by rw [← hs.1]; exact ha'
      have hag := hs.2.2 ha'
      cases s with
      | skip =>
        simp only [analyse, Option.some.injEq] at han; subst han
        have ea : exec env (n + 1) .skip a = a := by unfold exec; simp [ha']
        have eb : exec env (n + 1) .skip b = b := by unfold exec; simp [hb']
        rw [ea, eb]; exact hs
      | seq s t =>
        simp only [analyse] at han
        cases h1 : analyse w s with
        | none => rw [h1] at han; simp at han
        | some w1 =>
          rw [h1] at han
          simp only [Option.bind_some] at han
          have ea : exec env (n + 1) (.seq s t) a = exec env n t (exec env n s a) := by
            conv => lhs; unfold exec
            simp [ha']
          have eb : exec env (n + 1) (.seq s t) b = exec env n t (exec env n s b) := by
            conv => lhs; unfold exec
            simp [hb']
          rw [ea, eb]
          exact ih t w1 w' _ _ han (ih s w w1 a b h1 hs)
      | setLoc r e =>
        simp only [analyse] at han
        split at han
        · rename_i he
          simp only [Option.some.injEq] at han; subst han
          have hev := eval_agree env w a b hag e he
          have ea : exec env (n + 1) (.setLoc r e) a =
              { a with locs := fun x => if x = r then eval env a e else a.locs x } := by
            conv => lhs; unfold exec
            simp [ha']
          have eb : exec env (n + 1) (.setLoc r e) b =
              { b with locs := fun x => if x = r then eval env b e else b.locs x } := by
            conv => lhs; unfold exec
            simp [hb']
          rw [ea, eb]
          refine ⟨hs.1, hs.2.1, fun _ => ⟨hag.1, ?_⟩⟩
          simp [hev, hag.2]
        · simp at han
      | setCell f i e =>
        simp only [analyse] at han
        split at han
        · rename_i he
          simp only [Option.some.injEq] at han; subst han
          have hev := eval_agree env w a b hag e he
          have ea : exec env (n + 1) (.setCell f i e) a =
              { a with cells := fun g j => if g = f ∧ j = i then eval env a e else a.cells g j } := by
            conv => lhs; unfold exec
            simp [ha']
          have eb : exec env (n + 1) (.setCell f i e) b =
              { b with cells := fun g j => if g = f ∧ j = i then eval env b e else b.cells g j } := by
            conv => lhs; unfold exec
            simp [hb']
          rw [ea, eb]
          refine ⟨hs.1, hs.2.1, fun _ => ⟨?_, hag.2⟩⟩
          intro g j hgj
          by_cases hc : g = f ∧ j = i
          · simp [hc, hev]
          · simp only [hc, ↓reduceIte]
            apply hag.1
            unfold Written.has at hgj ⊢
            simp only [Bool.or_eq_true, List.contains_eq_mem, decide_eq_true_eq, List.mem_cons, Prod.mk.injEq] at hgj ⊢
            rcases hgj with (hgj | hgj) | hgj
            · exact absurd hgj hc
            · exact Or.inl hgj
            · exact Or.inr hgj
        · simp at han
      | setCellAt f idx e =>
        simp only [analyse] at han
        split at han
        · rename_i he
          simp only [Bool.and_eq_true] at he
          simp only [Option.some.injEq] at han; subst han
          have hix := eval_agree env w a b hag idx he.1
          have hev := eval_agree env w a b hag e he.2
          have ea : exec env (n + 1) (.setCellAt f idx e) a =
              { a with cells := fun g j => if g = f ∧ j = eval env a idx then eval env a e else a.cells g j } := by
            conv => lhs; unfold exec
            simp [ha']
          have eb : exec env (n + 1) (.setCellAt f idx e) b =
              { b with cells := fun g j => if g = f ∧ j = eval env b idx then eval env b e else b.cells g j } := by
            conv => lhs; unfold exec
            simp [hb']
          rw [ea, eb]
          refine ⟨hs.1, hs.2.1, fun _ => ⟨?_, hag.2⟩⟩
          intro g j hgj
          rw [hix, hev]
          by_cases hc : g = f ∧ j = eval env b idx
          · simp [hc]
          · simp only [hc, ↓reduceIte]
            exact hag.1 g j hgj
        · simp at han
      | fill f e =>
        simp only [analyse] at han
        split at han
        · rename_i he
          simp only [Option.some.injEq] at han; subst han
          have hev := eval_agree env w a b hag e he
          have ea : exec env (n + 1) (.fill f e) a =
              { a with cells := fun g j => if g = f then eval env a e else a.cells g j } := by
            conv => lhs; unfold exec
            simp [ha']
          have eb : exec env (n + 1) (.fill f e) b =
              { b with cells := fun g j => if g = f then eval env b e else b.cells g j } := by
            conv => lhs; unfold exec
            simp [hb']
          rw [ea, eb]
          refine ⟨hs.1, hs.2.1, fun _ => ⟨?_, hag.2⟩⟩
          intro g j hgj
          by_cases hc : g = f
          · simp [hc, hev]
          · simp only [hc, ↓reduceIte]
            apply hag.1
            unfold Written.has at hgj ⊢
            simp only [Bool.or_eq_true, List.contains_eq_mem, decide_eq_true_eq, List.mem_cons] at hgj ⊢
            rcases hgj with hgj | hgj | hgj
            · exact Or.inl hgj
            · exact absurd hgj hc
            · exact Or.inr hgj
        · simp at han
      | out e =>
        simp only [analyse] at han
        split at han
        · rename_i he
          simp only [Option.some.injEq] at han; subst han
          have hev := eval_agree env w a b hag e he
          have ea : exec env (n + 1) (.out e) a = { a with output := a.output ++ [eval env a e] } := by
            conv => lhs; unfold exec
            simp [ha']
          have eb : exec env (n + 1) (.out e) b = { b with output := b.output ++ [eval env b e] } := by
            conv => lhs; unfold exec
            simp [hb']
          rw [ea, eb]
          exact ⟨hs.1, by simp [hev, hs.2.1], fun _ => hag⟩
        · simp at han
      | ite c s t =>
        simp only [analyse] at han
        split at han
        · rename_i hc
          have hev := eval_agree env w a b hag c hc
          cases h1 : analyse w s with
          | none => rw [h1] at han; simp at han
          | some ws =>
            cases h2 : analyse w t with
            | none => rw [h1, h2] at han; simp at han
            | some wt =>
              rw [h1, h2] at han
              simp only [Option.some.injEq] at han; subst han
              have ea : exec env (n + 1) (.ite c s t) a =
                  if eval env a c ≠ 0 then exec env n s a else exec env n t a := by
                conv => lhs; unfold exec
                simp [ha']
              have eb : exec env (n + 1) (.ite c s t) b =
                  if eval env b c ≠ 0 then exec env n s b else exec env n t b := by
                conv => lhs; unfold exec
                simp [hb']
              rw [ea, eb, hev]
              split
              · exact sim2_weaken (meet_sub_left ws wt) (ih s w ws a b h1 hs)
              · exact sim2_weaken (meet_sub_right ws wt) (ih t w wt a b h2 hs)
        · simp at han
      | «while» c body =>
        have han0 := han
        simp only [analyse] at han
        split at han
        · rename_i hc
          have hev := eval_agree env w a b hag c hc
          cases h1 : analyse w body with
          | none => rw [h1] at han; simp at han
          | some wb =>
            rw [h1] at han
            simp only [Option.map_some, Option.some.injEq] at han; subst han
            have ea : exec env (n + 1) (.while c body) a =
                if eval env a c ≠ 0 then exec env n (.while c body) (exec env n body a) else a := by
              conv => lhs; unfold exec
              simp [ha']
            have eb : exec env (n + 1) (.while c body) b =
                if eval env b c ≠ 0 then exec env n (.while c body) (exec env n body b) else b := by
              conv => lhs; unfold exec
              simp [hb']
            rw [ea, eb, hev]
            split
            · have hbody := sim2_weaken (analyse_mono body w wb h1) (ih body w wb a b h1 hs)
              exact ih (.while c body) w w _ _ han0 hbody
            · exact hs
        · simp at han
      | ret =>
        simp only [analyse, Option.some.injEq] at han; subst han
        have ea : exec env (n + 1) .ret a = { a with halted := true } := by
          conv => lhs; unfold exec
          simp [ha']
        have eb : exec env (n + 1) .ret b = { b with halted := true } := by
          conv => lhs; unfold exec
          simp [hb']
        rw [ea, eb]
        exact ⟨rfl, hs.2.1, fun hh => by simp at hh⟩

/-- `garbage_independent_loops`: a body (loops, data-indexed arrays, early exits) accepted by the
must-written analysis produces the same output and halts alike for ANY two initial contents of
the uninitialised second part — for every meaning of the operators, every argument vector and
every fuel. -/
theorem garbage_independent_loops (p : Stmt) (h : writesBeforeReads p = true) (env : Env) (fuel : Nat)
    (o1 o2 : Nat → Nat → Nat) :
    (run env fuel o1 p).output = (run env fuel o2 p).output ∧
    (run env fuel o1 p).halted = (run env fuel o2 p).halted := by
  unfold writesBeforeReads at h
  cases ha : analyse Written.empty p with
  | none => rw [ha] at h; simp at h
  | some w' =>
    have := exec_sim2 env fuel p Written.empty w' ⟨o1, fun _ => 0, [], false⟩ ⟨o2, fun _ => 0, [], false⟩ ha
      ⟨rfl, rfl, fun _ => ⟨fun f i hfi => by simp [Written.has, Written.empty] at hfi, rfl⟩⟩
    exact ⟨this.2.1, this.1⟩

/-- non-vacuity.  `good`: a table is filled, then read at a data-dependent index inside a loop
whose exit depends on an argument — accepted.  `bad`: the same loop without the fill — refused,
and really oracle-dependent.  `elem`: a static element written on both branches, then read. -/
example :
    let loopBody := Stmt.seq (.out (.cellAt 0 (.op 1 (.loc 0) (.arg 0)))) (.setLoc 0 (.op 0 (.loc 0) (.const 1)))
    let loop := Stmt.while (.op 2 (.loc 0) (.arg 1)) loopBody
    let good := Stmt.seq (.fill 0 (.const 7)) loop
    let elem := Stmt.seq (.ite (.arg 0) (.setCell 3 4 (.const 1)) (.setCell 3 4 (.arg 2))) (.out (.cell 3 4))
    let env : Env := ⟨fun name x y => if name = 0 then x + y else if name = 1 then (x + y) % 4 else if x < y then 1 else 0,
      fun k => if k = 1 then 3 else 0⟩
    writesBeforeReads good = true ∧ writesBeforeReads loop = false ∧ writesBeforeReads elem = true ∧
      (run env 50 (fun _ _ => 0) loop).output ≠ (run env 50 (fun _ _ => 5) loop).output ∧
      (run env 50 (fun _ _ => 0) good).output = [7, 7, 7] := by decide

end WuffsVerif.Props.C09
