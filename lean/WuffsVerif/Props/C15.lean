/-
C15 — RAC readers survive hostile files: bounded work, no panic, in-file ranges.

Property theorems over `Model/Rac/ChunkReader.lean`, which mirrors `lib/rac/chunk_reader.go`
as repaired by /verif/fixes/C15-*.patch.  Everything is for EVERY byte string `f` and EVERY
claimed size: `Reachable f claimed r` says `r` is a `ChunkReader` state that some sequence of
`NextChunk` / `SeekToChunkContaining` calls reaches after `initialize`.
Helper lemmas live in `Proof/C15Node.lean`, `Proof/C15Resolve.lean`, `Proof/C15Reader.lean`.
-/
import WuffsVerif.Proof.C15Reader

namespace WuffsVerif.Props.C15
open WuffsVerif.Rac.ChunkReader

/-! ## reachable reader states -/

inductive Reachable (f : File) (claimed : Int) : Reader → Prop
  | opened : Reachable f claimed (openReader f claimed)
  | next {r : Reader} : Reachable f claimed r → Reachable f claimed r.next.1
  | seek {r : Reader} (d : Int) : Reachable f claimed r → Reachable f claimed (r.seek d).1

/-- Sticky errors: once `err` is set, every method returns it and changes nothing. -/
theorem sticky_errors (r : Reader) (e : Err) (h : r.err = some e) :
    r.next = (r, .err e) ∧ (∀ d, r.seek d = (r, some e)) ∧ r.decompressedSize = .error e := by
  refine ⟨?_, ?_, ?_⟩
  · unfold Reader.next; rw [h]
  · intro d; unfold Reader.seek; rw [h]
  · unfold Reader.decompressedSize; rw [h]

/-- Every reachable state without a sticky error satisfies the reader invariant, and never
changes the file, the sizes or the root location found by `initialize`. -/
theorem reachable_inv {f : File} {claimed : Int} {r : Reader} (hr : Reachable f claimed r)
    (he : r.err = none) : ReaderInv r ∧ SameFile (openReader f claimed) r := by
  induction hr with
  | opened => exact ⟨openReader_inv f claimed he, ⟨rfl, rfl, rfl, rfl, rfl⟩⟩
  | @next r0 _ ih =>
    cases he0 : r0.err with
    | some e =>
      have := (sticky_errors r0 e he0).1
      rw [this] at he; simp only at he; rw [he0] at he; cases he
    | none =>
      obtain ⟨inv, sf⟩ := ih he0
      have g := next_good r0 inv he0
      cases hres : r0.next.2 with
      | chunk c =>
        obtain ⟨a1, _, a3, _⟩ := g.chunk c hres
        exact ⟨a1, ⟨a3.1.trans sf.1, a3.2.1.trans sf.2.1, a3.2.2.1.trans sf.2.2.1,
          a3.2.2.2.1.trans sf.2.2.2.1, a3.2.2.2.2.trans sf.2.2.2.2⟩⟩
      | eof =>
        obtain ⟨a1, _, a3, _⟩ := g.eof hres
        exact ⟨a1, ⟨a3.1.trans sf.1, a3.2.1.trans sf.2.1, a3.2.2.1.trans sf.2.2.1,
          a3.2.2.2.1.trans sf.2.2.2.1, a3.2.2.2.2.trans sf.2.2.2.2⟩⟩
      | err e => have := g.err e hres; rw [this] at he; cases he
      | spin => exact absurd hres g.no_spin
  | @seek r0 d _ ih =>
    cases he0 : r0.err with
    | some e =>
      have := (sticky_errors r0 e he0).2.1 d
      rw [this] at he; simp only at he; rw [he0] at he; cases he
    | none =>
      obtain ⟨inv, sf⟩ := ih he0
      obtain ⟨a1, a3⟩ := seek_inv r0 inv d he
      exact ⟨a1, ⟨a3.1.trans sf.1, a3.2.1.trans sf.2.1, a3.2.2.1.trans sf.2.2.1,
        a3.2.2.2.1.trans sf.2.2.2.1, a3.2.2.2.2.trans sf.2.2.2.2⟩⟩

/-! ## bounded work -/

/-- **resolve_terminates.**  `resolveSeekPosition` (with the spec's anti-loop rule) finishes:
along the descent the pair `(DPtrMax, COffset)` decreases lexicographically, DPtrMax is a
function of the node's offset, so no offset is visited twice and the loop makes fewer than
`CompressedSize` calls of `loadAndValidate` (each reads at most 4 + 4096 bytes): work
proportional to the file.  `Outcome.fuel` is the model's "still looping".
The 32-byte self-referential file that hangs the unrepaired code is the `example` below. -/
theorem resolve_terminates {f : File} {claimed : Int} {r : Reader} (hr : Reachable f claimed r)
    (he : r.err = none) (hp : r.seekPos < r.dsize) :
    r.resolve ≠ .fuel ∧ r.resolve ≠ .err .panic ∧
    (∀ l, r.resolve = .ok l → l.loads < r.csize) := by
  obtain ⟨inv, _⟩ := reachable_inv hr he
  obtain ⟨⟨hok, hnp, hnf⟩, hrank⟩ := resolve_spec r inv hp
  refine ⟨hnf hrank, hnp, ?_⟩
  intro l hl
  have := (hok l hl).2
  omega

/-- **next_terminates.**  `NextChunk` never spins and never panics, in any reachable state:
three rounds of its outer loop are enough (at most one `resolveSeekPosition` per call). -/
theorem next_terminates {f : File} {claimed : Int} {r : Reader} (hr : Reachable f claimed r)
    (he : r.err = none) : r.next.2 ≠ .spin ∧ r.next.2 ≠ .err .panic := by
  obtain ⟨inv, _⟩ := reachable_inv hr he
  have g := next_good r inv he
  exact ⟨g.no_spin, g.no_panic⟩

/-! ## `findChunkContaining` -/

/-- **findChunkContaining_correct.**  On a node that passed `valid`, for `DOff[0] ≤ d < DOffMax`,
the binary search does not panic and returns the largest `i < arity` with `DOff[i] ≤ d`;
element `i` contains `d`. -/
theorem findChunkContaining_correct (n : Node) (hv : n.valid = true) (d dBias : Nat)
    (hlo : dBias ≤ d) (hhi : d < dBias + n.dPtrMax) :
    ∃ i, n.findChunkContaining d dBias = some i ∧ i < n.arity ∧
      dBias + n.dPtr i ≤ d ∧ d < dBias + n.dPtr (i + 1) ∧
      (∀ j, j < n.arity → dBias + n.dPtr j ≤ d → j ≤ i) :=
  n.find_spec (n.facts_of_valid hv) d dBias hlo hhi

/-! ## chunks -/

/-- **chunk_wellformed.**  Every chunk that `NextChunk` returns without error, in any reachable
state of any file: the primary compressed range is well-formed and inside the claimed file
size (`0 ≤ lo` holds by typing: offsets are naturals), the decompressed range is non-empty,
inside the decompressed size, and contains the position being resolved. -/
theorem chunk_wellformed {f : File} {claimed : Int} {r : Reader} (hr : Reachable f claimed r)
    (c : Chunk) (hc : r.next.2 = .chunk c) :
    c.cpLo ≤ c.cpHi ∧ (c.cpHi : Int) ≤ claimed ∧ c.dLo < c.dHi ∧ c.dHi ≤ r.dsize ∧
    c.dLo ≤ r.seekPos ∧ r.seekPos < c.dHi ∧ r.next.1.seekPos = c.dHi := by
  cases he : r.err with
  | some e => rw [(sticky_errors r e he).1] at hc; cases hc
  | none =>
    obtain ⟨inv, sf⟩ := reachable_inv hr he
    obtain ⟨_, _, _, _, hg, h1, h2, h3, _⟩ := (next_good r inv he).chunk c hc
    have hcs : r.csize = claimed.toNat := by
      have := sf.2.1
      rw [this]
      unfold openReader
      split
      · -- a failed open has a sticky error, contradiction with `he`
        exfalso
        have h0 : (openReader f claimed).err = some .badCSize := by
          unfold openReader; simp only [*, ↓reduceIte]; rfl
        have := inv.csize_ge
        rw [sf.2.1] at this
        unfold openReader at this
        simp only [*, ↓reduceIte, Reader.failed] at this
        omega
      · simp only
        split
        · exfalso
          have := inv.csize_ge
          rw [sf.2.1] at this
          unfold openReader at this
          simp only [*, ↓reduceIte, Reader.failed] at this
          omega
        · split
          · exfalso
            have := inv.csize_ge
            rw [sf.2.1] at this
            unfold openReader at this
            simp only [*, ↓reduceIte, Reader.failed] at this
            omega
          · rfl
    refine ⟨hg.1, ?_, hg.2.2.1, hg.2.2.2, h1, h2, h3⟩
    have := hg.2.1
    have h32 := inv.csize_ge
    omega

/-- The first chunk of a fresh reader starts at DSpace offset 0. -/
theorem first_chunk_at_zero (f : File) (claimed : Int) (c : Chunk)
    (hc : (openReader f claimed).next.2 = .chunk c) : c.dLo = 0 := by
  have := (chunk_wellformed (Reachable.opened (f := f) (claimed := claimed)) c hc).2.2.2.2.1
  have h0 : (openReader f claimed).seekPos = 0 := by
    unfold openReader
    split
    · rfl
    simp only
    split
    · rfl
    split <;> rfl
  omega

/-- **walk_ascending_no_gap** (the part of "ascending, contiguous" proved so far; see
`walk_contiguous` below for the rest): of two successive chunks, the second
starts at or before the end of the first and ends strictly after it. -/
theorem walk_ascending_no_gap {f : File} {claimed : Int} {r : Reader} (hr : Reachable f claimed r)
    (c1 c2 : Chunk) (h1 : r.next.2 = .chunk c1) (h2 : r.next.1.next.2 = .chunk c2) :
    c2.dLo ≤ c1.dHi ∧ c1.dHi < c2.dHi := by
  have w1 := chunk_wellformed hr c1 h1
  have w2 := chunk_wellformed (Reachable.next hr) c2 h2
  omega

/-- **walk_ends_at_dsize.**  If a chunk is followed by `io.EOF`, the chunk ends exactly at the
decompressed size reported by `DecompressedSize`. -/
theorem walk_ends_at_dsize {f : File} {claimed : Int} {r : Reader} (hr : Reachable f claimed r)
    (c : Chunk) (h1 : r.next.2 = .chunk c) (h2 : r.next.1.next.2 = .eof) : c.dHi = r.dsize := by
  cases he : r.err with
  | some e => rw [(sticky_errors r e he).1] at h1; cases h1
  | none =>
    obtain ⟨inv, _⟩ := reachable_inv hr he
    obtain ⟨inv1, he1, sf1, _, hg, _, _, h3, _⟩ := (next_good r inv he).chunk c h1
    obtain ⟨_, _, _, h4, h5⟩ := (next_good r.next.1 inv1 he1).eof h2
    have := hg.2.2.2
    rw [sf1.2.2.1] at h4
    omega

/-- `io.EOF` is only returned at or beyond the decompressed size, and is repeatable. -/
theorem eof_only_at_end {f : File} {claimed : Int} {r : Reader} (hr : Reachable f claimed r)
    (he : r.err = none) (h : r.next.2 = .eof) : r.dsize ≤ r.seekPos ∧ r.next.1.err = none := by
  obtain ⟨inv, _⟩ := reachable_inv hr he
  obtain ⟨_, h2, _, h4, h5⟩ := (next_good r inv he).eof h
  exact ⟨by omega, h2⟩

/-! ## non-vacuity: a concrete two-level file (root at the end, one branch child) -/

/-- 4 magic bytes, a child node (two leaves: 4 and 6 bytes), the root (branch child, 5-byte leaf) -/
def exFile : File := File.ofList
  [114, 195, 99, 0, 114, 195, 99, 2, 95, 116, 0, 255, 4, 0, 0, 0, 0, 0, 0, 255, 10, 0, 0, 0, 0, 0, 0,
   0, 1, 0, 0, 0, 0, 0, 0, 255, 2, 0, 0, 0, 0, 0, 0, 255, 100, 0, 0, 0, 0, 0, 1, 2, 114, 195, 99, 2,
   126, 112, 0, 254, 10, 0, 0, 0, 0, 0, 0, 255, 15, 0, 0, 0, 0, 0, 0, 0, 4, 0, 0, 0, 0, 0, 0, 255, 3,
   0, 0, 0, 0, 0, 0, 255, 100, 0, 0, 0, 0, 0, 1, 2]

/-- the 32-byte file whose root lists itself as its only (branch) child -/
def selfLoopFile : File := File.ofList
  [114, 195, 99, 1, 89, 35, 0, 254, 7, 0, 0, 0, 0, 0, 0, 0, 0, 0, 0, 0, 0, 0, 0, 255, 32, 0, 0, 0,
   0, 0, 1, 1]

example : (openReader exFile 100).err = none ∧ (openReader exFile 100).dsize = 15 := by
  decide +kernel
example : (openReader exFile 100).next.2 =
    .chunk ⟨0, 4, 1, 100, 100, 100, 100, 100, 255, 255, 0⟩ := by decide +kernel
example : (openReader exFile 100).next.1.next.2 =
    .chunk ⟨4, 10, 2, 100, 100, 100, 100, 100, 255, 255, 0⟩ := by decide +kernel
example : (openReader exFile 100).next.1.next.1.next.2 =
    .chunk ⟨10, 15, 3, 100, 100, 100, 100, 100, 255, 255, 0⟩ := by decide +kernel
example : (openReader exFile 100).next.1.next.1.next.1.next.2 = .eof := by decide +kernel
example : ((openReader exFile 100).seek 7).1.next.2 =
    .chunk ⟨4, 10, 2, 100, 100, 100, 100, 100, 255, 255, 0⟩ := by decide +kernel
/-- the self-referential root opens fine and is then rejected by the anti-loop rule -/
example : (openReader selfLoopFile 32).err = none ∧ (openReader selfLoopFile 32).dsize = 7 ∧
    (openReader selfLoopFile 32).next.2 = .err .badNode := by decide +kernel

end WuffsVerif.Props.C15
